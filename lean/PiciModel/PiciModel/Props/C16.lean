/-
C16 — Prelude functions and macros compute what their documentation says.

The bodies these theorems are about are the constants of `Generated/Prelude.lean`, regenerated from
`/repo/src/prelude.lisp` on every run and compared by the model driver with what loading the current prelude binds
(`preludecheck`); the model evaluator that runs them is tied to the Rust evaluator by the correspondence checks.
Each theorem evaluates the BODY of a prelude definition with its parameters bound as a call would bind them
(`pairParamsAndArgs`), for ALL argument lists / ALL integers.
-/
import PiciModel.Generated.Prelude
import PiciModel.Lemmas.FuelMono
import PiciModel.Lemmas.PreludeSteps

namespace Pici.C16
open Pici

/-- the state after `k` more passes through the evaluator loop head -/
def bump (st : St) (k : Nat) : St := { st with steps := st.steps + k }

/-- an interpreter state in which the prelude is loaded, as code of the module `prelude` sees it: no debugger attached;
every macro-free prelude definition resolves to the value generated from prelude.lisp; the natives the bodies use resolve
to the natives; `nil` resolves to a nil value and `t` to a non-nil one -/
structure Loaded (st : St) : Prop where
  detached : st.attached = false
  current  : HasModule st st.current
  prelude  : ∀ name v, (name, v) ∈ Prelude.table → ∃ w, st.getGlobal name cs!"prelude" = .found w ∧ w.get = v
  natives  : ∀ id, id ∈ [NativeId.cons, .car, .cdr, .add, .substract, .multiply, .less, .greater, .equal, .list, .signal] →
               ∃ w, st.getGlobal id.name cs!"prelude" = .found w ∧ w.get = .native id
  nil      : ∃ w, st.getGlobal cs!"nil" cs!"prelude" = .found w ∧ w.isNil = true
  t        : ∃ w, st.getGlobal cs!"t" cs!"prelude" = .found w ∧ w.isNil = false

/-- the environment a call of a prelude function creates for its body -/
def callEnv (rest params : Val) (args : List Val) : Option Val :=
  match pairParamsAndArgs rest params .nil none args with
  | .ok env => some env
  | _       => none

section helpers
open Pici.Ref

/-- the globals of a state, as the reference semantics (`Spec/RefEval.lean`) takes them -/
def globalsOf (st : St) : Globals := fun name home => st.getGlobal name home

theorem Loaded.sees {st : St} (hl : Loaded st) : C05.Sees st (globalsOf st) :=
  ⟨hl.detached, fun _ _ => rfl, hl.current⟩

/-- `C16.bump` and `C05.bump` are the same function -/
theorem bump_eq (st : St) (k : Nat) : bump st k = C05.bump st k := rfl

theorem callEnv_ok {rest params : Val} {args : List Val} {env : Val} (h : callEnv rest params args = some env) :
    pairParamsAndArgs rest params .nil none args = .ok env := by
  unfold callEnv at h
  split at h
  · cases h; assumption
  · cases h

theorem callEnv1 {p1 a1 env : Val} (h : callEnv .nil (.ofList [p1]) [a1] = some env) :
    env = .cons (.cons p1 a1) .nil := by
  have := callEnv_ok h; rw [pair1] at this; cases this; rfl

theorem callEnv2 {p1 p2 a1 a2 env : Val} (h : callEnv .nil (.ofList [p1, p2]) [a1, a2] = some env) :
    env = .cons (.cons p2 a2) (.cons (.cons p1 a1) .nil) := by
  have := callEnv_ok h; rw [pair2] at this; cases this; rfl

theorem callEnv3 {p1 p2 p3 a1 a2 a3 env : Val} (h : callEnv .nil (.ofList [p1, p2, p3]) [a1, a2, a3] = some env) :
    env = .cons (.cons p3 a3) (.cons (.cons p2 a2) (.cons (.cons p1 a1) .nil)) := by
  have := callEnv_ok h; rw [pair3] at this; cases this; rfl

/-- variable lookup in an environment of reader symbols, the environment being given by the equation `h` -/
macro "lk" h:ident : tactic =>
  `(tactic| (simp only [$h:ident, lookupEnv_hit, lookupEnv_miss, lookupEnv_nil, ne_eq, List.cons.injEq, Char.reduceEq,
      and_true, and_false, false_and, true_and, not_false_eq_true, reduceCtorEq, Option.some.injEq]; try rfl))

/-- the same, for an environment that is given outright -/
macro "lk0" : tactic =>
  `(tactic| (simp only [lookupEnv_hit, lookupEnv_miss, lookupEnv_nil, ne_eq, List.cons.injEq, Char.reduceEq,
      and_true, and_false, false_and, true_and, not_false_eq_true, reduceCtorEq, Option.some.injEq]; try rfl))

theorem Loaded.native {st : St} (hl : Loaded st) (id : NativeId)
    (h : id ∈ [NativeId.cons, .car, .cdr, .add, .substract, .multiply, .less, .greater, .equal, .list, .signal]) :
    ∃ w, globalsOf st id.name cs!"prelude" = .found w ∧ w.get = .native id := hl.natives id h

/-- a reference derivation over the globals of a loaded state is realised by the evaluator (`C05.eval_realises_reference`) -/
theorem Loaded.realise {st : St} (hl : Loaded st) {env : Val} {home : Name} {d : Nat} {e : Val} {v : Val}
    (h : Eval (globalsOf st) env home d e (.ok v)) : ∃ fuel k, evalInternal fuel st e env home d = (.ok v, bump st k) :=
  C05.eval_realises_reference _ env home d e _ h st hl.sees

theorem realiseJ {st : St} {env : Val} {home : Name} {d : Nat} {e : Val} {v : Val}
    (h : RunsJ st e env home d (.ok v)) : ∃ fuel k, evalInternal fuel st e env home d = (.ok v, bump st k) :=
  h.at_zero

/-- the helper `-length`: `(if things (-length (cdr things) (add n 1)) n)` adds the number of elements to `n` -/
theorem flength_eval {st : St} (hl : Loaded st) (d : Nat) (hd : d + 2 ≤ Config.maxRecursionDepth) :
    ∀ (xs : List Val) (n : Int) (nv env : Val), nv.get = .num n → 0 ≤ n → n + (xs.length : Int) ≤ i64Max →
      pairParamsAndArgs Prelude.f_length_rest Prelude.f_length_params .nil none [.ofList xs, nv] = .ok env →
      ∃ r, r.get = .num (n + (xs.length : Int)) ∧
        Eval (globalsOf st) env cs!"prelude" d Prelude.f_length_body (.ok r) := by
  obtain ⟨p1, p2, hp⟩ := Prelude.f_length_params_shape
  obtain ⟨m1, m2, m3, m4, m5, m6, m7, m8, m9, hb⟩ := Prelude.f_length_body_shape
  obtain ⟨wf, hwf, hwfg⟩ := hl.prelude _ _ Prelude.f_length_mem
  obtain ⟨wcdr, hwcdr, hwcdrg⟩ := hl.native .cdr (by decide)
  obtain ⟨wadd, hwadd, hwaddg⟩ := hl.native .add (by decide)
  have hd0 : d ≤ Config.maxRecursionDepth := by omega
  have hd1 : d + 1 ≤ Config.maxRecursionDepth := by omega
  have hd2 : d + 1 + 1 ≤ Config.maxRecursionDepth := by omega
  intro xs
  induction xs with
  | nil =>
    intro n nv env hnv _ _ henv
    have hE : env = .cons (.cons (symA cs!"n" p2) nv) (.cons (.cons (symA cs!"things" p1) (.ofList [])) .nil) := by
      rw [hp, Prelude.f_length_rest_eq, pair2] at henv
      exact (Res.ok.inj henv).symm
    refine ⟨nv, by simpa using hnv, ?_⟩
    rw [hb]
    exact ev_if_false hd0 (ev_local hd1 (by lk hE)) rfl (ev_local hd0 (by lk hE))
  | cons x xs ih =>
    intro n nv env hnv hn0 hlen henv
    have hE : env = .cons (.cons (symA cs!"n" p2) nv) (.cons (.cons (symA cs!"things" p1) (.ofList (x :: xs))) .nil) := by
      rw [hp, Prelude.f_length_rest_eq, pair2] at henv
      exact (Res.ok.inj henv).symm
    have hlen' : n + 1 + (xs.length : Int) ≤ i64Max := by
      have : ((x :: xs).length : Int) = (xs.length : Int) + 1 := by simp
      omega
    have hpair : pairParamsAndArgs Prelude.f_length_rest Prelude.f_length_params .nil none [.ofList xs, .num (n + 1)] =
        .ok (.cons (.cons (symA cs!"n" p2) (.num (n + 1))) (.cons (.cons (symA cs!"things" p1) (.ofList xs)) .nil)) := by
      rw [hp, Prelude.f_length_rest_eq, pair2]
    obtain ⟨r, hr, hev⟩ := ih (n + 1) (.num (n + 1)) _ rfl (by omega) hlen' hpair
    refine ⟨r, ?_, ?_⟩
    · rw [hr]
      have : ((x :: xs).length : Int) = (xs.length : Int) + 1 := by simp
      rw [this]
      congr 1
      omega
    rw [hb]
    have hrn : inRange n = true := by rw [inRange_iff]; unfold i64Max at hlen'; omega
    have hrn1 : inRange (n + 1) = true := by rw [inRange_iff]; unfold i64Max at hlen'; omega
    refine ev_if_true hd0 (ev_local hd1 (by lk hE)) (ofList_isNil_cons x xs) ?_
    refine ev_call hd0 rfl (ev_global hd1 (by lk hE) hwf) (hwfg.trans Prelude.f_length_fn_eq) (evs_two ?_ ?_) hpair hev
    · exact ev_prim hd1 rfl (ev_global hd2 (by lk hE) hwcdr) hwcdrg rfl (evs_one (ev_local hd2 (by lk hE)))
        (prim_cdr _ x _ _ (ofList_get_cons x xs))
    · exact ev_prim hd1 rfl (ev_global hd2 (by lk hE) hwadd) hwaddg rfl
        (evs_two (ev_local hd2 (by lk hE)) (ev_num hd2))
        (prim_add _ _ n 1 _ hnv (numA_get 1 m8) hrn (by decide) hrn1)

/-- the helper `-range`: `(if (< n 0) init (-range (substract n 1) (cons n init)))` puts 0 … n in front of `init` -/
theorem frange_eval {st : St} (hl : Loaded st) (d : Nat) (hd : d + 2 ≤ Config.maxRecursionDepth) :
    ∀ (m : Nat) (nn : Int) (iv env : Val), inRange nn = true → (nn + 1).toNat = m →
      pairParamsAndArgs Prelude.f_range_rest Prelude.f_range_params .nil none [.num nn, iv] = .ok env →
      Eval (globalsOf st) env cs!"prelude" d Prelude.f_range_body
        (.ok (((List.range m).map fun (i : Nat) => Val.num (Int.ofNat i)).foldr Val.cons iv)) := by
  obtain ⟨p1, p2, hp⟩ := Prelude.f_range_params_shape
  obtain ⟨m1, m2, m3, m4, m5, m6, m7, m8, m9, m10, m11, m12, hb⟩ := Prelude.f_range_body_shape
  obtain ⟨wf, hwf, hwfg⟩ := hl.prelude _ _ Prelude.f_range_mem
  obtain ⟨wless, hwless, hwlessg⟩ := hl.native .less (by decide)
  obtain ⟨wsub, hwsub, hwsubg⟩ := hl.native .substract (by decide)
  obtain ⟨wcons, hwcons, hwconsg⟩ := hl.native .cons (by decide)
  have hd0 : d ≤ Config.maxRecursionDepth := by omega
  have hd1 : d + 1 ≤ Config.maxRecursionDepth := by omega
  have hd2 : d + 1 + 1 ≤ Config.maxRecursionDepth := by omega
  intro m
  induction m with
  | zero =>
    intro nn iv env hnn hm henv
    have hE : env = .cons (.cons (symA cs!"init" p2) iv) (.cons (.cons (symA cs!"n" p1) (.num nn)) .nil) := by
      rw [hp, Prelude.f_range_rest_eq, pair2] at henv
      exact (Res.ok.inj henv).symm
    have hneg : nn < 0 := by omega
    rw [hb]
    refine ev_if_true (v := .symName cs!"t") hd0 ?_ rfl (ev_local hd0 (by lk hE))
    refine ev_prim hd1 rfl (ev_global hd2 (by lk hE) hwless) hwlessg rfl
      (evs_two (ev_local hd2 (by lk hE)) (ev_num hd2)) ?_
    rw [prim_less _ _ nn 0 _ rfl (numA_get 0 m4) hnn (by decide), if_pos hneg]
  | succ m ih =>
    intro nn iv env hnn hm henv
    have hE : env = .cons (.cons (symA cs!"init" p2) iv) (.cons (.cons (symA cs!"n" p1) (.num nn)) .nil) := by
      rw [hp, Prelude.f_range_rest_eq, pair2] at henv
      exact (Res.ok.inj henv).symm
    have hnn0 : ¬ nn < 0 := by omega
    have hnm : nn = Int.ofNat m := by
      have : Int.ofNat m = (m : Int) := rfl
      omega
    have hrn1 : inRange (nn - 1) = true := by rw [inRange_iff] at hnn ⊢; omega
    have hpair : pairParamsAndArgs Prelude.f_range_rest Prelude.f_range_params .nil none [.num (nn - 1), .cons (.num nn) iv] =
        .ok (.cons (.cons (symA cs!"init" p2) (.cons (.num nn) iv)) (.cons (.cons (symA cs!"n" p1) (.num (nn - 1))) .nil)) := by
      rw [hp, Prelude.f_range_rest_eq, pair2]
    have hev := ih (nn - 1) (.cons (.num nn) iv) _ hrn1 (by omega) hpair
    rw [foldr_cons_range_succ, ← hnm, hb]
    refine ev_if_false (v := .nil) hd0 ?_ rfl ?_
    · refine ev_prim hd1 rfl (ev_global hd2 (by lk hE) hwless) hwlessg rfl
        (evs_two (ev_local hd2 (by lk hE)) (ev_num hd2)) ?_
      rw [prim_less _ _ nn 0 _ rfl (numA_get 0 m4) hnn (by decide), if_neg hnn0]
    refine ev_call hd0 rfl (ev_global hd1 (by lk hE) hwf) (hwfg.trans Prelude.f_range_fn_eq) (evs_two ?_ ?_) hpair hev
    · exact ev_prim hd1 rfl (ev_global hd2 (by lk hE) hwsub) hwsubg rfl
        (evs_two (ev_local hd2 (by lk hE)) (ev_num hd2))
        (prim_substract _ _ nn 1 _ rfl (numA_get 1 m9) hnn (by decide) hrn1)
    · exact ev_prim hd1 rfl (ev_global hd2 (by lk hE) hwcons) hwconsg rfl
        (evs_two (ev_local hd2 (by lk hE)) (ev_local hd2 (by lk hE))) rfl

/-- the left fold under an arbitrary "one call" relation -/
inductive FoldsVia (C : Val → Val → Val → Prop) : Val → List Val → Val → Prop where
  | nil (i : Val) : FoldsVia C i [] i
  | cons (i x r z : Val) (xs : List Val) : C i x r → FoldsVia C r xs z → FoldsVia C i (x :: xs) z

/-- `foldl` over any "one call" relation that the application branch realises one level below the fold -/
theorem foldl_via {st : St} (hl : Loaded st) (fv : Val) (d : Nat) (hd : d + 3 ≤ Config.maxRecursionDepth)
    (C : Val → Val → Val → Prop) (hcall : ∀ i x r, C i x r → Applies st fv [i, x] r (d + 1)) :
    ∀ i xs z, FoldsVia C i xs z → ∀ env,
      pairParamsAndArgs Prelude.foldl_rest Prelude.foldl_params .nil none [fv, i, .ofList xs] = .ok env →
      RunsJ st Prelude.foldl_body env cs!"prelude" d (.ok z) := by
  obtain ⟨p1, p2, p3, hp⟩ := Prelude.foldl_params_shape
  obtain ⟨m1, m2, m3, m4, m5, m6, m7, m8, m9, m10, m11, hb⟩ := Prelude.foldl_body_shape
  obtain ⟨wf, hwf, hwfg⟩ := hl.prelude _ _ Prelude.foldl_mem
  obtain ⟨wcar, hwcar, hwcarg⟩ := hl.native .car (by decide)
  obtain ⟨wcdr, hwcdr, hwcdrg⟩ := hl.native .cdr (by decide)
  have hs := hl.sees
  have hd0 : d ≤ Config.maxRecursionDepth := by omega
  have hd1 : d + 1 ≤ Config.maxRecursionDepth := by omega
  have hd2 : d + 1 + 1 ≤ Config.maxRecursionDepth := by omega
  have hd3 : d + 1 + 1 + 1 ≤ Config.maxRecursionDepth := by omega
  intro i xs z h
  induction h with
  | nil i =>
    intro env henv
    have hE : env = .cons (.cons (symA cs!"things" p3) (.ofList [])) (.cons (.cons (symA cs!"init" p2) i)
        (.cons (.cons (symA cs!"f" p1) fv) .nil)) := by
      rw [hp, Prelude.foldl_rest_eq, pair3] at henv
      exact (Res.ok.inj henv).symm
    rw [hb]
    exact RunsJ.of_eval hs (ev_if_false hd0 (ev_local hd1 (by lk hE)) rfl (ev_local hd0 (by lk hE)))
  | cons i x r z xs hc _ ih =>
    intro env henv
    have hE : env = .cons (.cons (symA cs!"things" p3) (.ofList (x :: xs))) (.cons (.cons (symA cs!"init" p2) i)
        (.cons (.cons (symA cs!"f" p1) fv) .nil)) := by
      rw [hp, Prelude.foldl_rest_eq, pair3] at henv
      exact (Res.ok.inj henv).symm
    have hpair : pairParamsAndArgs Prelude.foldl_rest Prelude.foldl_params .nil none [fv, r, .ofList xs] =
        .ok (.cons (.cons (symA cs!"things" p3) (.ofList xs)) (.cons (.cons (symA cs!"init" p2) r)
          (.cons (.cons (symA cs!"f" p1) fv) .nil))) := by
      rw [hp, Prelude.foldl_rest_eq, pair3]
    rw [hb]
    refine RunsJ.ifTrue hl.detached hd0 (RunsJ.of_eval hs (ev_local hd1 (by lk hE))) (ofList_isNil_cons x xs) ?_
    refine RunsJ.callClosure hl.detached hd0 (listToVec_ofList _) rfl
      (RunsJ.of_eval hs (ev_global hd1 (by lk hE) hwf)) (hwfg.trans Prelude.foldl_fn_eq)
      (RunsArgsJ.cons (RunsJ.of_eval hs (ev_local hd1 (by lk hE)))
        (RunsArgsJ.cons ?_ (RunsArgsJ.cons (RunsJ.of_eval hs ?_) (RunsArgsJ.nil _ _ _ _))))
      hpair (ih _ hpair)
    · -- `(f init (car things))`: the call, one level below the fold
      refine hcall i x r hc _ env cs!"prelude" _ _ (listToVec_ofList _) rfl rfl
        (RunsJ.of_eval hs (ev_local hd2 (by lk hE)))
        (RunsArgsJ.of_evalArgs hs (evs_two (ev_local hd2 (by lk hE)) ?_))
      exact ev_prim hd2 rfl (ev_global hd3 (by lk hE) hwcar) hwcarg rfl (evs_one (ev_local hd3 (by lk hE)))
        (prim_car _ x _ _ (ofList_get_cons x xs))
    · -- `(cdr things)`
      exact ev_prim hd1 rfl (ev_global hd2 (by lk hE) hwcdr) hwcdrg rfl (evs_one (ev_local hd2 (by lk hE)))
        (prim_cdr _ x _ _ (ofList_get_cons x xs))

/-- consing every element in front of the accumulator reverses the list -/
theorem foldsVia_cons (xs : List Val) : ∀ i, FoldsVia (fun i x r => r = Val.cons x i) i xs (xs.reverse.foldr Val.cons i) := by
  induction xs with
  | nil => intro i; exact .nil i
  | cons x xs ih =>
    intro i
    rw [foldr_cons_reverse_cons]
    exact .cons i x (.cons x i) _ xs rfl (ih (.cons x i))

end helpers

/-- `(length things)`: the number of elements, for every list (of values of any type).  The result is a number value:
for the empty list it is the literal `0` of the source, which carries its reader metadata (`r.get` looks through it) -/
theorem length_spec (st : St) (hl : Loaded st) (xs : List Val) (env : Val) (d : Nat)
    (hlen : (xs.length : Int) ≤ i64Max) (hd : d + 4 ≤ Config.maxRecursionDepth)
    (henv : callEnv Prelude.length_rest Prelude.length_params [Val.ofList xs] = some env) :
    ∃ fuel k r, r.get = .num xs.length ∧
      evalInternal fuel st Prelude.length_body env cs!"prelude" d = (.ok r, bump st k) := by
  obtain ⟨p1, hp⟩ := Prelude.length_params_shape
  obtain ⟨m1, m2, m3, hb⟩ := Prelude.length_body_shape
  obtain ⟨q1, q2, hq⟩ := Prelude.f_length_params_shape
  rw [hp, Prelude.length_rest_eq] at henv
  have hE := callEnv1 henv
  obtain ⟨wf, hwf, hwfg⟩ := hl.prelude _ _ Prelude.f_length_mem
  have hd0 : d ≤ Config.maxRecursionDepth := by omega
  have hd1 : d + 1 ≤ Config.maxRecursionDepth := by omega
  have hpair : pairParamsAndArgs Prelude.f_length_rest Prelude.f_length_params .nil none [.ofList xs, numA 0 m3] =
      .ok (.cons (.cons (symA cs!"n" q2) (numA 0 m3)) (.cons (.cons (symA cs!"things" q1) (.ofList xs)) .nil)) := by
    rw [hq, Prelude.f_length_rest_eq, pair2]
  obtain ⟨r, hr, hev⟩ := flength_eval hl d (by omega) xs 0 (numA 0 m3) _ rfl (by omega) (by omega) hpair
  rw [hb]
  refine ex_reorder1 r (by rw [hr, Int.zero_add]) (hl.realise ?_)
  exact ev_call hd0 rfl (ev_global hd1 (by lk hE) hwf) (hwfg.trans Prelude.f_length_fn_eq)
    (evs_two (ev_local hd1 (by lk hE)) (ev_num hd1)) hpair hev

/-- `(reverse things)`: the elements in reverse order, for every list -/
theorem reverse_spec (st : St) (hl : Loaded st) (xs : List Val) (env : Val) (d : Nat)
    (hd : d + 6 ≤ Config.maxRecursionDepth)
    (henv : callEnv Prelude.reverse_rest Prelude.reverse_params [Val.ofList xs] = some env) :
    ∃ fuel k tail, tail.isNil = true ∧
      evalInternal fuel st Prelude.reverse_body env cs!"prelude" d = (.ok (xs.reverse.foldr Val.cons tail), bump st k) := by
  obtain ⟨p1, hp⟩ := Prelude.reverse_params_shape
  obtain ⟨m1, m2, m3, m4, m5, m6, m7, m8, m9, hb⟩ := Prelude.reverse_body_shape
  obtain ⟨q1, q2, q3, hq⟩ := Prelude.foldl_params_shape
  rw [hp, Prelude.reverse_rest_eq] at henv
  have hE := callEnv1 henv
  obtain ⟨wf, hwf, hwfg⟩ := hl.prelude _ _ Prelude.foldl_mem
  obtain ⟨wcons, hwcons, hwconsg⟩ := hl.native .cons (by decide)
  obtain ⟨tail, htail, htailp⟩ := hl.nil
  have hs := hl.sees
  have hd0 : d ≤ Config.maxRecursionDepth := by omega
  have hd1 : d + 1 ≤ Config.maxRecursionDepth := by omega
  have hd2 : d + 1 + 1 ≤ Config.maxRecursionDepth := by omega
  -- the closure `(lambda (xs x) (cons x xs))` over the environment of the call of `reverse`
  let clo : Val := .fn .lambda .nil (.ofList [symA cs!"xs" m3, symA cs!"x" m4])
    (.ofList [symA cs!"cons" m5, symA cs!"x" m6, symA cs!"xs" m7]) env cs!"prelude"
  have hclo : makeFunctionInternal [.ofList [symA cs!"xs" m3, symA cs!"x" m4],
      .ofList [symA cs!"cons" m5, symA cs!"x" m6, symA cs!"xs" m7]] env cs!"prelude" cs!"lambda" .lambda = .ok clo := rfl
  have happ : ∀ i x r, r = Val.cons x i → Applies st clo [i, x] r (d + 1) := by
    intro i x r hr e env' home first operands hlv hsp hmeta hop hargs
    subst hr
    refine RunsJ.callClosure hl.detached hd1 hlv hsp hop rfl hargs (by rw [hmeta]; exact pair2 _ _ _ _ _ _) ?_
    exact RunsJ.of_eval hs (ev_prim hd1 rfl
      (ev_global hd2 (by lk hE) hwcons) hwconsg rfl
      (evs_two (ev_local hd2 (by lk0)) (ev_local hd2 (by lk0))) rfl)
  have hpair : pairParamsAndArgs Prelude.foldl_rest Prelude.foldl_params .nil none [clo, tail, .ofList xs] =
      .ok (.cons (.cons (symA cs!"things" q3) (.ofList xs)) (.cons (.cons (symA cs!"init" q2) tail)
        (.cons (.cons (symA cs!"f" q1) clo) .nil))) := by
    rw [hq, Prelude.foldl_rest_eq, pair3]
  have hfold := foldl_via hl clo d (by omega) _ happ tail xs _ (foldsVia_cons xs tail) _ hpair
  rw [hb]
  refine ex_reorder1 tail htailp (realiseJ ?_)
  refine RunsJ.callClosure hl.detached hd0 (listToVec_ofList _) rfl
    (RunsJ.of_eval hs (ev_global hd1 (by lk hE) hwf)) (hwfg.trans Prelude.foldl_fn_eq)
    (RunsArgsJ.of_evalArgs hs (.cons (hclo ▸ ev_lambda hd1) (.cons (ev_global hd1 (by lk hE) htail)
      (.cons (ev_local hd1 (by lk hE)) .nil))))
    hpair hfold

/-- `(range n)`: the numbers from 0 to n - 1 for every non-negative n, and the empty list for every negative n
(after the fix: the original looped towards the smallest integer) -/
theorem range_spec (st : St) (hl : Loaded st) (n : Int) (env : Val) (d : Nat)
    (hn : i64Min < n ∧ n ≤ i64Max) (hd : d + 4 ≤ Config.maxRecursionDepth)
    (henv : callEnv Prelude.range_rest Prelude.range_params [.num n] = some env) :
    ∃ fuel k tail, tail.isNil = true ∧
      evalInternal fuel st Prelude.range_body env cs!"prelude" d =
        (.ok (((List.range n.toNat).map fun (i : Nat) => Val.num (Int.ofNat i)).foldr Val.cons tail), bump st k) := by
  obtain ⟨p1, hp⟩ := Prelude.range_params_shape
  obtain ⟨m1, m2, m3, m4, m5, hb⟩ := Prelude.range_body_shape
  obtain ⟨q1, q2, hq⟩ := Prelude.f_range_params_shape
  rw [hp, Prelude.range_rest_eq] at henv
  have hE := callEnv1 henv
  obtain ⟨wf, hwf, hwfg⟩ := hl.prelude _ _ Prelude.f_range_mem
  obtain ⟨wsub, hwsub, hwsubg⟩ := hl.native .substract (by decide)
  obtain ⟨tail, htail, htailp⟩ := hl.nil
  have hd0 : d ≤ Config.maxRecursionDepth := by omega
  have hd1 : d + 1 ≤ Config.maxRecursionDepth := by omega
  have hd2 : d + 1 + 1 ≤ Config.maxRecursionDepth := by omega
  have hrn : inRange n = true := by rw [inRange_iff]; unfold i64Min i64Max at hn; omega
  have hrn1 : inRange (n - 1) = true := by rw [inRange_iff]; unfold i64Min i64Max at hn; omega
  have hpair : pairParamsAndArgs Prelude.f_range_rest Prelude.f_range_params .nil none [.num (n - 1), tail] =
      .ok (.cons (.cons (symA cs!"init" q2) tail) (.cons (.cons (symA cs!"n" q1) (.num (n - 1))) .nil)) := by
    rw [hq, Prelude.f_range_rest_eq, pair2]
  have hev := frange_eval hl d (by omega) n.toNat (n - 1) tail _ hrn1 (by rw [Int.sub_add_cancel]) hpair
  rw [hb]
  refine ex_reorder1 tail htailp (hl.realise ?_)
  refine ev_call hd0 rfl (ev_global hd1 (by lk hE) hwf) (hwfg.trans Prelude.f_range_fn_eq) (evs_two ?_ ?_) hpair hev
  · exact ev_prim hd1 rfl (ev_global hd2 (by lk hE) hwsub) hwsubg rfl
      (evs_two (ev_local hd2 (by lk hE)) (ev_num hd2))
      (prim_substract _ _ n 1 _ rfl (numA_get 1 m4) hrn (by decide) hrn1)
  · exact ev_global hd1 (by lk hE) htail

/-- what calling a function value on already evaluated arguments yields, for functions without side effects: the application
branch of the evaluator — a native is applied, a closure's body is evaluated over its own environment -/
def CallsTo (st : St) (f : Val) (args : List Val) (r : Val) : Prop :=
  (∃ id, f.get = .native id ∧ ∀ env d fuel, ∀ j, applyNative (fuel + 1) (bump st j) id args env d = (.ok r, bump st j)) ∨
  (∃ k rest params body fenv fmod env, f.get = .fn k rest params body fenv fmod ∧
     pairParamsAndArgs rest params fenv none args = .ok env ∧
     ∀ d, d + 8 ≤ Config.maxRecursionDepth → ∀ j, ∃ fuel i, ∀ extra, evalInternal (fuel + extra) (bump st j) body env fmod d = (.ok r, bump st (j + i)))

/-- the left fold a list denotes under `f`, as a relation (each application may be any pure call) -/
inductive FoldsTo (st : St) (f : Val) : Val → List Val → Val → Prop where
  | nil (i : Val) : FoldsTo st f i [] i
  | cons (i x r z : Val) (xs : List Val) : CallsTo st f [i, x] r → FoldsTo st f r xs z → FoldsTo st f i (x :: xs) z

section helpers
open Pici.Ref

theorem FoldsTo.via {st : St} {f i z : Val} {xs : List Val} (h : FoldsTo st f i xs z) :
    FoldsVia (fun i x r => CallsTo st f [i, x] r) i xs z := by
  induction h with
  | nil i => exact .nil i
  | cons i x r z xs hc _ ih => exact .cons i x r z xs hc ih

/-- `eval` is never "applied as a native" with a value as the answer at every fuel: with one unit of fuel it runs out -/
theorem applyNative_eval_one (st : St) (args : List Val) (env : Val) (d : Nat) (r : Val) (st' : St) :
    applyNative 1 st .eval args env d ≠ (.ok r, st') := by
  intro h
  rw [applyNative] at h
  simp only [arity1, expandCompletely] at h
  split at h <;> cases h

/-- a pure call, as the application branch of the evaluator runs it at depth `d` -/
theorem CallsTo.applies {st : St} (hatt : st.attached = false) {f : Val} {args : List Val} {r : Val}
    (h : CallsTo st f args r) (d : Nat) (hd : d + 8 ≤ Config.maxRecursionDepth) : Applies st f args r d := by
  intro e env home first operands hl hsp hmeta hop hargs
  have hd0 : d ≤ Config.maxRecursionDepth := by omega
  rcases h with ⟨id, hf, hn⟩ | ⟨k, rest, params, body, fenv, fmod, newEnv, hf, hpair, hbody⟩
  · have hid : id ≠ .eval := by
      rintro rfl
      exact applyNative_eval_one _ _ env d _ _ (hn env d 0 0)
    exact RunsJ.callNative hatt hd0 hl hsp hop hf hid hargs (fun fuel j => hn env (d + 1) fuel j)
  · refine RunsJ.callClosure hatt hd0 hl hsp hop hf hargs (by rw [hmeta]; exact hpair) ?_
    intro j
    obtain ⟨fuel, i, hF⟩ := hbody d hd j
    refine ⟨fuel, i, fun n hn => ?_⟩
    have := hF (n - fuel)
    rwa [show fuel + (n - fuel) = n by omega] at this

end helpers

/-- `(foldl f init things)`: f applied to init and the first element, then to that result and the second element, and so
on, left to right — for every list and every (pure) function value, native or closure, in depth independent of the length -/
theorem foldl_spec (st : St) (hl : Loaded st) (f init z : Val) (xs : List Val) (env : Val) (d : Nat)
    (hd : d + 12 ≤ Config.maxRecursionDepth)
    (hfold : FoldsTo st f init xs z)
    (henv : callEnv Prelude.foldl_rest Prelude.foldl_params [f, init, Val.ofList xs] = some env) :
    ∃ fuel k, evalInternal fuel st Prelude.foldl_body env cs!"prelude" d = (.ok z, bump st k) :=
  realiseJ (foldl_via hl f d (by omega) _
    (fun _ _ _ h => h.applies hl.detached (d + 1) (by omega)) init xs z hfold.via env (callEnv_ok henv))

/-- the macro `when`: `(when c x)` expands to `(if c x nil)` — the condition and the body each occur exactly once.
The head is the quoted symbol `if` of the source, which carries its reader metadata -/
theorem when_expands (st : St) (hl : Loaded st) (c x : Val) (env : Val) (d : Nat)
    (hd : d + 3 ≤ Config.maxRecursionDepth)
    (henv : callEnv Prelude.when_rest Prelude.when_params [c, x] = some env) :
    ∃ fuel k ifV nilV, ifV.isSymNamed cs!"if" = true ∧ nilV.isNil = true ∧
      evalInternal fuel st Prelude.when_body env cs!"prelude" d = (.ok (.ofList [ifV, c, x, nilV]), bump st k) := by
  obtain ⟨p1, p2, hp⟩ := Prelude.when_params_shape
  obtain ⟨m1, m2, m3, m4, m5, hb⟩ := Prelude.when_body_shape
  rw [hp, Prelude.when_rest_eq] at henv
  have hE := callEnv2 henv
  obtain ⟨wl, hwl, hwlg⟩ := hl.native .list (by decide)
  obtain ⟨nilV, hnil, hnilp⟩ := hl.nil
  have hd1 : d + 1 ≤ Config.maxRecursionDepth := by omega
  rw [hb]
  refine ex_reorder2 (symA cs!"if" m2) nilV rfl hnilp (hl.realise ?_)
  exact ev_prim (by omega) rfl (ev_global hd1 (by lk hE) hwl) hwlg rfl
    (.cons (ev_quote hd1) (.cons (ev_local hd1 (by lk hE))
      (.cons (ev_local hd1 (by lk hE)) (.cons (ev_global hd1 (by lk hE) hnil) .nil)))) rfl

/-- the macro `and`: `(and x y)` expands to `(if x y nil)`.
The head is the quoted symbol `if` of the source, which carries its reader metadata -/
theorem and_expands (st : St) (hl : Loaded st) (x y : Val) (env : Val) (d : Nat)
    (hd : d + 3 ≤ Config.maxRecursionDepth)
    (henv : callEnv Prelude.and_rest Prelude.and_params [x, y] = some env) :
    ∃ fuel k ifV nilV, ifV.isSymNamed cs!"if" = true ∧ nilV.isNil = true ∧
      evalInternal fuel st Prelude.and_body env cs!"prelude" d = (.ok (.ofList [ifV, x, y, nilV]), bump st k) := by
  obtain ⟨p1, p2, hp⟩ := Prelude.and_params_shape
  obtain ⟨m1, m2, m3, m4, m5, hb⟩ := Prelude.and_body_shape
  rw [hp, Prelude.and_rest_eq] at henv
  have hE := callEnv2 henv
  obtain ⟨wl, hwl, hwlg⟩ := hl.native .list (by decide)
  obtain ⟨nilV, hnil, hnilp⟩ := hl.nil
  have hd1 : d + 1 ≤ Config.maxRecursionDepth := by omega
  rw [hb]
  refine ex_reorder2 (symA cs!"if" m2) nilV rfl hnilp (hl.realise ?_)
  exact ev_prim (by omega) rfl (ev_global hd1 (by lk hE) hwl) hwlg rfl
    (.cons (ev_quote hd1) (.cons (ev_local hd1 (by lk hE))
      (.cons (ev_local hd1 (by lk hE)) (.cons (ev_global hd1 (by lk hE) hnil) .nil)))) rfl

/-- the macro `not`: `(not x)` expands to `(if x nil t)`.
The head is the quoted symbol `if` of the source, which carries its reader metadata -/
theorem not_expands (st : St) (hl : Loaded st) (x : Val) (env : Val) (d : Nat)
    (hd : d + 3 ≤ Config.maxRecursionDepth)
    (henv : callEnv Prelude.not_rest Prelude.not_params [x] = some env) :
    ∃ fuel k ifV nilV tV, ifV.isSymNamed cs!"if" = true ∧ nilV.isNil = true ∧ tV.isNil = false ∧
      evalInternal fuel st Prelude.not_body env cs!"prelude" d = (.ok (.ofList [ifV, x, nilV, tV]), bump st k) := by
  obtain ⟨p1, hp⟩ := Prelude.not_params_shape
  obtain ⟨m1, m2, m3, m4, m5, hb⟩ := Prelude.not_body_shape
  rw [hp, Prelude.not_rest_eq] at henv
  have hE := callEnv1 henv
  obtain ⟨wl, hwl, hwlg⟩ := hl.native .list (by decide)
  obtain ⟨nilV, hnil, hnilp⟩ := hl.nil
  obtain ⟨tV, ht, htp⟩ := hl.t
  have hd1 : d + 1 ≤ Config.maxRecursionDepth := by omega
  rw [hb]
  refine ex_reorder3 (symA cs!"if" m2) nilV tV rfl hnilp htp (hl.realise ?_)
  exact ev_prim (by omega) rfl (ev_global hd1 (by lk hE) hwl) hwlg rfl
    (.cons (ev_quote hd1) (.cons (ev_local hd1 (by lk hE))
      (.cons (ev_global hd1 (by lk hE) hnil) (.cons (ev_global hd1 (by lk hE) ht) .nil)))) rfl


/-! ### non-vacuity: a state in which the prelude is loaded -/

/-- one module `prelude` holding the natives, `nil`, `t` and the generated prelude definitions -/
def exSt : St := { (default : St) with
  modules := [⟨cs!"prelude", NativeId.all.map (fun id => (id.name, Val.native id)) ++
                [(cs!"nil", .nil), (cs!"t", .symName cs!"t")] ++ Prelude.table, none⟩],
  current := cs!"prelude" }

theorem found_of_check {l : Lookup} {P : Val → Bool}
    (h : (match l with | .found w => P w | _ => false) = true) : ∃ w, l = .found w ∧ P w = true := by
  cases l with
  | found w => exact ⟨w, rfl, h⟩
  | ambiguous _ => cases h
  | notFound => cases h

theorem exSt_current : HasModule exSt exSt.current := by unfold HasModule; decide +kernel

theorem exSt_loaded : Loaded exSt where
  detached := rfl
  current := exSt_current
  prelude := by
    have hall : Prelude.table.all (fun p => match exSt.getGlobal p.1 cs!"prelude" with
        | .found w => w.get == p.2 | _ => false) = true := by decide +kernel
    intro name v hmem
    obtain ⟨w, hw, hp⟩ := found_of_check (List.all_eq_true.mp hall (name, v) hmem)
    exact ⟨w, hw, eq_of_beq hp⟩
  natives := by
    have hall : [NativeId.cons, .car, .cdr, .add, .substract, .multiply, .less, .greater, .equal, .list, .signal].all
        (fun id => match exSt.getGlobal id.name cs!"prelude" with
          | .found w => w.get == .native id | _ => false) = true := by decide +kernel
    intro id hmem
    obtain ⟨w, hw, hp⟩ := found_of_check (List.all_eq_true.mp hall id hmem)
    exact ⟨w, hw, eq_of_beq hp⟩
  nil := found_of_check (P := Val.isNil) (by decide +kernel)
  t := by
    obtain ⟨w, hw, hp⟩ := found_of_check (l := exSt.getGlobal cs!"t" cs!"prelude") (P := fun w => !w.isNil) (by decide +kernel)
    exact ⟨w, hw, by simpa using hp⟩

/-- the environment of a call, when the call binds -/
def envOf (rest params : Val) (args : List Val) : Val := (callEnv rest params args).getD .nil

/-- if the body, run with 40 units of fuel in `exSt`, yields a value that fails the test `ok`, then no fuel makes it yield
a value that passes -/
theorem ex_refutes (body env : Val) (ok : Val → Bool)
    (hrun : (match (evalInternal 40 exSt body env cs!"prelude" 0).1 with | .ok v => !ok v | _ => false) = true) :
    ¬ ∃ fuel k v, ok v = true ∧ evalInternal fuel exSt body env cs!"prelude" 0 = (.ok v, bump exSt k) := by
  rintro ⟨fuel, k, v, hv, h⟩
  have h1 := evalInternal_fuel_mono fuel 40 _ _ _ _ _ _ _ exSt_current h (by intro h; cases h)
  generalize hr : evalInternal 40 exSt body env cs!"prelude" 0 = out at hrun
  obtain ⟨r, st'⟩ := out
  have h2 := evalInternal_fuel_mono 40 fuel _ _ _ _ _ _ _ exSt_current hr (by intro h; subst h; cases hrun)
  rw [Nat.add_comm, h1] at h2
  cases h2
  simp [hv] at hrun

/-- the UNCORRECTED `length_spec` (result `.num xs.length` outright) fails for the empty list: the result is the literal `0` with its metadata -/
example : callEnv Prelude.length_rest Prelude.length_params [Val.ofList []] =
      some (envOf Prelude.length_rest Prelude.length_params [Val.ofList []]) ∧
    ¬ ∃ fuel k, evalInternal fuel exSt Prelude.length_body (envOf Prelude.length_rest Prelude.length_params [Val.ofList []])
        cs!"prelude" 0 = (.ok (.num ([] : List Val).length), bump exSt k) := by
  refine ⟨by decide +kernel, ?_⟩
  rintro ⟨fuel, k, h⟩
  exact ex_refutes _ _ (fun v => v == .num 0) (by decide +kernel) ⟨fuel, k, _, by decide, h⟩

/-- the UNCORRECTED `when_expands` (head the bare symbol `if`) fails: the head is the quoted symbol with its metadata -/
example : callEnv Prelude.when_rest Prelude.when_params [.num 1, .num 2] =
      some (envOf Prelude.when_rest Prelude.when_params [.num 1, .num 2]) ∧
    ¬ ∃ fuel k nilV, nilV.isNil = true ∧
      evalInternal fuel exSt Prelude.when_body (envOf Prelude.when_rest Prelude.when_params [.num 1, .num 2])
        cs!"prelude" 0 = (.ok (.ofList [.symName cs!"if", .num 1, .num 2, nilV]), bump exSt k) := by
  refine ⟨by decide +kernel, ?_⟩
  rintro ⟨fuel, k, nilV, _, h⟩
  exact ex_refutes _ _ (fun v => match v with | .cons (.sym _) _ => true | _ => false) (by decide +kernel)
    ⟨fuel, k, _, rfl, h⟩

/-- the UNCORRECTED `and_expands` fails in the same way -/
example : callEnv Prelude.and_rest Prelude.and_params [.num 1, .num 2] =
      some (envOf Prelude.and_rest Prelude.and_params [.num 1, .num 2]) ∧
    ¬ ∃ fuel k nilV, nilV.isNil = true ∧
      evalInternal fuel exSt Prelude.and_body (envOf Prelude.and_rest Prelude.and_params [.num 1, .num 2])
        cs!"prelude" 0 = (.ok (.ofList [.symName cs!"if", .num 1, .num 2, nilV]), bump exSt k) := by
  refine ⟨by decide +kernel, ?_⟩
  rintro ⟨fuel, k, nilV, _, h⟩
  exact ex_refutes _ _ (fun v => match v with | .cons (.sym _) _ => true | _ => false) (by decide +kernel)
    ⟨fuel, k, _, rfl, h⟩

/-- the UNCORRECTED `not_expands` fails in the same way -/
example : callEnv Prelude.not_rest Prelude.not_params [.num 1] =
      some (envOf Prelude.not_rest Prelude.not_params [.num 1]) ∧
    ¬ ∃ fuel k nilV tV, nilV.isNil = true ∧ tV.isNil = false ∧
      evalInternal fuel exSt Prelude.not_body (envOf Prelude.not_rest Prelude.not_params [.num 1])
        cs!"prelude" 0 = (.ok (.ofList [.symName cs!"if", .num 1, nilV, tV]), bump exSt k) := by
  refine ⟨by decide +kernel, ?_⟩
  rintro ⟨fuel, k, nilV, tV, _, _, h⟩
  exact ex_refutes _ _ (fun v => match v with | .cons (.sym _) _ => true | _ => false) (by decide +kernel)
    ⟨fuel, k, _, rfl, h⟩

/-- and the corrected theorems apply to `exSt`: e.g. `(length '(a b c))` there is 3 -/
example : ∃ fuel k r, r.get = .num 3 ∧
    evalInternal fuel exSt Prelude.length_body
      (envOf Prelude.length_rest Prelude.length_params [.ofList [.symName cs!"a", .symName cs!"b", .symName cs!"c"]])
      cs!"prelude" 0 = (.ok r, bump exSt k) :=
  length_spec exSt exSt_loaded [.symName cs!"a", .symName cs!"b", .symName cs!"c"] _ 0 (by decide) (by decide)
    (by decide +kernel)

end Pici.C16
