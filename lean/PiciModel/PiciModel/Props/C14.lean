/-
C14 — Module encapsulation: visibility by export or home module; ambiguity reported.

Theorems about the module table of the model (`Model/State.lean`, mirroring `src/memory/mod.rs:581-739`)
for EVERY configuration of modules, definitions and export lists, every home module and every order of
the module table.
-/
import PiciModel.Model.State
import PiciModel.Lemmas.Modules

namespace Pici.C14
open Pici

/-- a definition of `name` in module `m` is visible to code whose home module is `home` exactly when the module
exports it, or declares no exports at all, or is the home module itself -/
def Visible (m : Module) (name home : Name) : Prop :=
  (m.defs.lookup name).isSome = true ∧
  (m.exports = none ∨ (∃ ex, m.exports = some ex ∧ name ∈ ex) ∨ m.name = home)

instance (m : Module) (name home : Name) : Decidable (Visible m name home) :=
  match h : m.exports with
  | none    => decidable_of_iff ((m.defs.lookup name).isSome = true) (by simp [Visible, h])
  | some ex => decidable_of_iff ((m.defs.lookup name).isSome = true ∧ (name ∈ ex ∨ m.name = home)) (by simp [Visible, h])

theorem module_get_isSome_iff (m : Module) (name home : Name) :
    (m.get name home).isSome = true ↔ Visible m name home := by
  unfold Module.get Visible
  cases hex : m.exports with
  | none => simp
  | some ex =>
    by_cases h1 : name ∈ ex
    · simp [h1]
    · by_cases h2 : home = m.name
      · simp [h2]
      · have h2' : ¬ m.name = home := fun h => h2 h.symm
        simp [h1, h2, h2']

theorem module_get_value (m : Module) (name home : Name) (v : Val) (h : m.get name home = some v) :
    m.defs.lookup name = some v := by
  unfold Module.get at h
  revert h
  generalize ((match m.exports with | none => true | some ex => ex.contains name) || home == m.name) = c
  cases c
  · intro h; cases h
  · intro h; exact h

/-- the modules in which `name` is visible from `home`, in table order -/
def visibleIn (st : St) (name home : Name) : List Module :=
  st.modules.filter fun m => decide (Visible m name home)

section helpers

/-- the hits of `getGlobal` are, position by position, the visible modules with their definitions -/
theorem hits_hitsOf (l : List Module) (name home : Name) :
    HitsOf name
      (l.filterMap fun m => (m.get name home).map fun v => (m.name, v))
      (l.filter fun m => decide (Visible m name home)) := by
  induction l with
  | nil => exact HitsOf.nil
  | cons m ms ih =>
    by_cases hv : Visible m name home
    · have hs := (module_get_isSome_iff m name home).mpr hv
      cases hg : m.get name home with
      | none => rw [hg] at hs; cases hs
      | some v =>
        rw [List.filterMap_cons_some (b := (m.name, v)) (by rw [hg]; rfl),
          List.filter_cons_of_pos (by simpa using hv)]
        exact HitsOf.cons ⟨rfl, module_get_value m name home v hg⟩ ih
    · have hg : m.get name home = none := by
        cases hg : m.get name home with
        | none => rfl
        | some v => exact absurd ((module_get_isSome_iff m name home).mp (by rw [hg]; rfl)) hv
      rw [List.filterMap_cons_none (by rw [hg]; rfl),
        List.filter_cons_of_neg (by simpa using hv)]
      exact ih

theorem hits_visibleIn (st : St) (name home : Name) :
    HitsOf name
      (st.modules.filterMap fun m => (m.get name home).map fun v => (m.name, v))
      (visibleIn st name home) :=
  hits_hitsOf st.modules name home

end helpers

theorem getGlobal_found_iff (st : St) (name home : Name) (v : Val) :
    st.getGlobal name home = .found v ↔ ∃ m, visibleIn st name home = [m] ∧ m.defs.lookup name = some v := by
  rw [getGlobal_eq_resolveHits]
  exact resolve_found_iff name _ _ (hits_visibleIn st name home) v

theorem getGlobal_notFound_iff (st : St) (name home : Name) :
    st.getGlobal name home = .notFound ↔ visibleIn st name home = [] := by
  rw [getGlobal_eq_resolveHits]
  exact resolve_notFound_iff name _ _ (hits_visibleIn st name home)

/-- a name visible from two or more modules is never resolved to one of them: it is reported, with the
(sorted) names of exactly the modules it is visible in -/
theorem getGlobal_ambiguous_iff (st : St) (name home : Name) (l : List Name) :
    st.getGlobal name home = .ambiguous l ↔
      2 ≤ (visibleIn st name home).length ∧ l = sortNames ((visibleIn st name home).map (·.name)) := by
  rw [getGlobal_eq_resolveHits]
  exact resolve_ambiguous_iff name _ _ (hits_visibleIn st name home) l

/-- the answer does not depend on the order of the module table (hash seed, load order) -/
theorem getGlobal_perm (st1 st2 : St) (name home : Name) (h : st1.modules.Perm st2.modules) :
    st1.getGlobal name home = st2.getGlobal name home := by
  rw [getGlobal_eq_resolveHits, getGlobal_eq_resolveHits]
  exact resolveHits_perm _ _ (h.filterMap _)

/-- `from-module` reaches exported names only; the caller's home module plays no role -/
theorem fromModule_found_iff (st : St) (name mod : Name) (v : Val) :
    (match st.getGlobalFromModule name mod with | .found w => w = v | _ => False) ↔
      ∃ m, st.findModule mod = some m ∧ m.defs.lookup name = some v ∧
        (m.exports = none ∨ ∃ ex, m.exports = some ex ∧ name ∈ ex) := by
  unfold St.getGlobalFromModule
  cases hf : st.findModule mod with
  | none => simp
  | some m =>
    cases hex : m.exports with
    | none =>
      cases hl : m.defs.lookup name with
      | none => simp [hex, hl]
      | some w => simp [hex, hl]
    | some ex =>
      by_cases hmem : name ∈ ex
      · cases hl : m.defs.lookup name with
        | none => simp [hex, hl, hmem]
        | some w => simp [hex, hl, hmem]
      · simp [hex, hmem]

/-- a private name of the home module is visible from it and from nowhere else -/
theorem private_only_from_home (m : Module) (name home : Name) (ex : List Name)
    (hex : m.exports = some ex) (hpriv : name ∉ ex) (hdef : (m.defs.lookup name).isSome = true) :
    Visible m name home ↔ m.name = home := by
  unfold Visible
  constructor
  · rintro ⟨_, h | ⟨ex', hex', hmem⟩ | h⟩
    · rw [hex] at h; cases h
    · rw [hex] at hex'
      injection hex' with hex'
      exact absurd (hex' ▸ hmem) hpriv
    · exact h
  · intro h
    exact ⟨hdef, .inr (.inr h)⟩

/-! non-vacuity: a private and an exported definition, seen from home and from outside; an ambiguity -/
def exA : Module := ⟨cs!"a", [(cs!"x", .num 1), (cs!"p", .num 2)], some [cs!"x"]⟩
def exB : Module := ⟨cs!"b", [(cs!"x", .num 3)], none⟩
def exSt : St := { (default : St) with modules := [exA, exB], current := cs!"b" }
example : (match exSt.getGlobal cs!"p" cs!"a" with | .found (.num 2) => true | _ => false) = true := by decide
example : (match exSt.getGlobal cs!"p" cs!"b" with | .notFound => true | _ => false) = true := by decide
example : (match exSt.getGlobal cs!"x" cs!"b" with | .ambiguous [['a'], ['b']] => true | _ => false) = true := by decide

end Pici.C14
