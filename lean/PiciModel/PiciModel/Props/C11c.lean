/-
C11c — The reader conforms to the grammar as an independent object.

`Spec/RefReader.lean` is the grammar: a transcription of the reference reader `reader_ref.py` of the test harness — a
maximal-munch lexer and a recursive-descent parser, written differently from the reader of `Model/Reader.lean` (a
tokenizer state machine with one character of lookahead, a stack of open lists and ONE `quoted` flag).  This file proves
that the two agree on EVERY text without the two known deviations (`noQuirk`): F5, a quote token directly followed —
blanks, commas and comments apart — by a quote token or a closing parenthesis, and F25, a backslash-newline inside a
string literal (the position of that error).  They agree on the status (nothing / incomplete / error / ok), on the
position of the error, on the datum with the position of every atom, on the remaining text and on its line and column.

Column convention: `refRead cs line col` takes and reports 1-based columns (as the `read` native and the Python do);
the model counts the characters consumed on the line, so it is started at `⟨src, line, col - 1⟩`, the location it gives
a token (taken after the token's first character) and an error IS then the 1-based column, and `rest.column` of an `ok`
result is reported 1-based by the model itself (`loc.col + 1`).  `denote` reads `Loc.line` / `Loc.col` as they are.
-/
import PiciModel.Props.C11
import PiciModel.Lemmas.RefParser

namespace Pici.C11c
open Pici Pici.Ref Pici.ReaderSpec Pici.RefLexer Pici.RefParser

/-- the result of the model reader against the result of the reference reader -/
def Conforms (res : Except ReadError (Val × Rest)) (ref : RefResult) : Prop :=
  match res, ref with
  | .error .nothing, .nothing => True
  | .error .incomplete, .incomplete => True
  | .error (.error _ eloc _), .error l c => eloc.line = l ∧ eloc.col = c
  | .ok (v, rest), .ok d r l c => denote v = some d ∧ rest.string = Val.ofChars r ∧ rest.line = l ∧ rest.column = c
  | _, _ => False

/-- token level (see `RefLexer.LexConf`): on every text whose next token is not a string literal with a
backslash-newline, the state machine `nextToken` returns what the lexer `lex` returns: end of text / incomplete / an
error at the same line and column / the same token at the same line and column, leaving the same text at the same
position -/
theorem lexer_conforms (cs : List Char) (src : Src) (line col : Nat) (hcol : 1 ≤ col) (hok : nextTokenOk cs = true) :
    LexConf (nextToken (explode (.ofChars cs)).1 .eof ⟨src, line, col - 1⟩) (lex cs ⟨line, col⟩) := by
  rw [explode_ofChars]
  have := RefLexer.lexer_conforms cs ⟨src, line, col - 1⟩ hok
  have hp : posOf ⟨src, line, col - 1⟩ = ⟨line, col⟩ := by
    unfold posOf; simp only [Pos.mk.injEq, true_and]; omega
  rw [hp] at this
  exact this

/-- the model reader and the reference reader agree on every quirk-free text -/
theorem reader_conforms (cs : List Char) (line col : Nat) (hcol : 1 ≤ col) (hq : noQuirk cs = true) :
    Conforms (C11.readChars cs ⟨.stdin, line, col - 1⟩) (refRead cs line col) := by
  have hNQ := NQ_of_noQuirk cs hq
  have hp : posOf ⟨.stdin, line, col - 1⟩ = ⟨line, col⟩ := by
    unfold posOf; simp only [Pos.mk.injEq, true_and]; omega
  rw [C11.readChars_eq, items_length]
  have hstep := readLoop_step cs ⟨.stdin, line, col - 1⟩ [] false (cs.length + 1) (Nat.le_refl _) (NQ_ok hNQ)
  rw [hp] at hstep
  unfold refRead
  cases hl : lex cs ⟨line, col⟩ with
  | eof => rw [hl] at hstep; rw [hstep]; exact trivial
  | incomplete => rw [hl] at hstep; rw [hstep]; exact trivial
  | error e =>
    rw [hl] at hstep
    obtain ⟨m, el, rest, h1, h2, h3⟩ := hstep
    rw [h1]; exact ⟨h2, h3⟩
  | tok t p r a =>
    rw [hl] at hstep
    obtain ⟨v, tloc, nl, hv, h1, h2, ha, hlen, hrl⟩ := hstep
    obtain ⟨-, hNQ'⟩ := NQ_tok hNQ _ t p r a hl
    have := (parser_conforms (2 * cs.length)).1 v t p r a tloc nl [] false (cs.length + 1 - 1) hv h1 h2 ha (by omega) (by omega) hNQ'
      (fun _ => rfl) (fun _ => rfl)
    rw [← hrl] at this
    simp only
    cases hf : form (2 * cs.length) t p r a with
    | nothing => rw [hf] at this; exact this.elim
    | incomplete => rw [hf] at this; rw [this]; exact trivial
    | error l c =>
      rw [hf] at this
      obtain ⟨m, el, rest, h1, h2, h3⟩ := this
      rw [h1]; exact ⟨h2, h3⟩
    | ok d r' l c =>
      rw [hf] at this
      obtain ⟨val, F', loc', hd, hp', -, -, -, hres⟩ := this
      rw [hres]
      simp only [Pos.mk.injEq, posOf] at hp'
      exact ⟨hd, rfl, hp'.1, hp'.2⟩

/-! non-vacuity: the hypothesis holds and each status occurs; the excluded texts are exactly where the model deviates -/
example : noQuirk cs!" ; c\n  (a '(b \"x\\n\" %\\s) -12)rest" = true := by decide +kernel
example : (match refRead cs!" ; c\n  (a\n 'b) x" 1 1 with
           | .ok (.list [.sym ['a'] 2 4, .quote (.sym ['b'] 3 3)]) [' ', 'x'] 3 5 => true | _ => false) = true := by decide +kernel
example : (match refRead cs!"(a 1x)" 1 1 with | .error 1 5 => true | _ => false) = true := by decide +kernel
example : (match refRead cs!"(a \"b" 1 1 with | .incomplete => true | _ => false) = true := by decide +kernel
example : (match refRead cs!" ;x" 1 1 with | .nothing => true | _ => false) = true := by decide +kernel
example : noQuirk cs!"(a '')" = false := by decide +kernel
example : noQuirk cs!"(a ' ;c\n )" = false := by decide +kernel
example : noQuirk cs!"\"a\\\nb\"" = false := by decide +kernel
example : noQuirk cs!"\"'')\" %' ;'')" = true := by decide +kernel

end Pici.C11c
