/-
C19 — INTERRUPT and ABORT stop any evaluation; the interpreter stays usable.

The debugger poll at the head of the evaluator loop (`pollDebugger` in `Model/Eval.lean`, mirroring
`src/native/eval/mod.rs:213-225`): `st.inbox` is what `try_recv` will return, each command stamped with the
loop-head step from which it is available — any stamp, i.e. any timing.
-/
import PiciModel.Model.Eval
import PiciModel.Lemmas.Poll

namespace Pici.C19
open Pici

def interrupted (source : Name) : Val := makeError cs!"interrupted" source []

/-- a pending INTERRUPT is honoured at the very next evaluation step, whatever is being evaluated -/
theorem interrupt_next_step (fuel : Nat) (st : St) (e env : Val) (mod : Name) (d : Nat) (c : Command) (cs : List Command)
    (hd : d ≤ Config.maxRecursionDepth) (ha : st.attached = true) (hi : st.inbox = c :: cs)
    (hc : c.text = cs!"INTERRUPT") (ht : c.atStep ≤ st.steps) :
    evalInternal (fuel + 1) st e env mod d = (.err (interrupted cs!"eval"), { st with steps := st.steps + 1, inbox := cs }) :=
  evalInternal_poll_some fuel st _ e env mod d _ hd (pollDebugger_interrupt st c cs ha hi hc ht)

/-- a pending ABORT ends the evaluation with an abort (`Err(nil)`), whatever is being evaluated -/
theorem abort_next_step (fuel : Nat) (st : St) (e env : Val) (mod : Name) (d : Nat) (c : Command) (cs : List Command)
    (hd : d ≤ Config.maxRecursionDepth) (ha : st.attached = true) (hi : st.inbox = c :: cs)
    (hc : c.text = cs!"ABORT") (ht : c.atStep ≤ st.steps) :
    evalInternal (fuel + 1) st e env mod d = (.err .nil, { st with steps := st.steps + 1, inbox := cs }) :=
  evalInternal_poll_some fuel st _ e env mod d _ hd (pollDebugger_abort st c cs ha hi hc ht)

/-- the interrupted signal is an ordinary (non-nil) signal: a trap can handle it; an abort is nil: no trap can -/
theorem interrupted_is_trappable : (interrupted cs!"eval").isNil = false ∧ (Val.nil).isNil = true :=
  ⟨rfl, rfl⟩

/-- afterwards the interpreter still has its global definitions and its current module -/
theorem usable_after (fuel : Nat) (st : St) (e env : Val) (mod : Name) (d : Nat) (c : Command) (cs : List Command)
    (hd : d ≤ Config.maxRecursionDepth) (ha : st.attached = true) (hi : st.inbox = c :: cs)
    (hc : c.text = cs!"INTERRUPT" ∨ c.text = cs!"ABORT") (ht : c.atStep ≤ st.steps) :
    (evalInternal (fuel + 1) st e env mod d).2.modules = st.modules ∧
    (evalInternal (fuel + 1) st e env mod d).2.current = st.current := by
  cases hc with
  | inl hc => rw [interrupt_next_step fuel st e env mod d c cs hd ha hi hc ht]; exact ⟨rfl, rfl⟩
  | inr hc => rw [abort_next_step fuel st e env mod d c cs hd ha hi hc ht]; exact ⟨rfl, rfl⟩

/-- every pass through the loop head polls: the step counter advances by exactly one per poll, so no step is skipped -/
theorem poll_counts (st : St) : (pollDebugger st).2.steps = st.steps + 1 :=
  pollDebugger_steps st

/-- without a debugger nothing is ever interrupted -/
theorem detached_never_interrupts (st : St) (h : st.attached = false) :
    pollDebugger st = (none, { st with steps := st.steps + 1 }) :=
  pollDebugger_detached st h

/-- a command that is not yet available (sent later) does not disturb the step -/
theorem not_yet (st : St) (c : Command) (cs : List Command) (hi : st.inbox = c :: cs) (ht : st.steps < c.atStep) :
    pollDebugger st = (none, { st with steps := st.steps + 1 }) :=
  pollDebugger_not_yet st c cs hi ht

/-- other commands are consumed and ignored by the evaluator loop -/
theorem other_command_ignored (st : St) (c : Command) (cs : List Command) (ha : st.attached = true) (hi : st.inbox = c :: cs)
    (ht : c.atStep ≤ st.steps) (h1 : c.text ≠ cs!"INTERRUPT") (h2 : c.text ≠ cs!"ABORT") :
    pollDebugger st = (none, { st with steps := st.steps + 1, inbox := cs }) :=
  pollDebugger_other st c cs ha hi ht h1 h2

/-- blocked waiting for the debugger (`receive`): the command is honoured there as well -/
theorem blocked_receive (st : St) (d : Nat) (c : Command) (cs : List Command) (ha : st.attached = true) (hi : st.inbox = c :: cs) :
    simpleNative .receive [] d st =
      (if c.text == cs!"INTERRUPT" then (.err (interrupted cs!"receive"), { st with inbox := cs })
       else if c.text == cs!"ABORT" then (.err .nil, { st with inbox := cs })
       else (.ok (plist [(cs!"command", .symName c.text)]), { st with inbox := cs })) := by
  simp [simpleNative, arity0, ha, hi, interrupted]

/-! ### a non-terminating evaluation is stopped at whatever step the command arrives -/

/-- the global `lp` bound to `(lambda () (lp))`: a loop in tail position that never ends -/
def loopFn : Val := .fn .lambda .nil .nil (.ofList [.symName cs!"lp"]) .nil cs!"default"
def loopSt (k : Nat) (cmd : Name) : St :=
  { (default : St) with modules := [⟨cs!"default", [(cs!"lp", loopFn)], none⟩], current := cs!"default",
                        attached := true, inbox := [⟨k, cmd⟩] }
def loopCall : Val := .ofList [.symName cs!"lp"]

section helpers

/-- the loop state after `j` polls, the command (stamped `k`) still in the inbox -/
def loopAt (k : Nat) (cmd : Name) (j : Nat) : St := { loopSt k cmd with steps := j }

theorem loopAt_zero (k : Nat) (cmd : Name) : loopAt k cmd 0 = loopSt k cmd := rfl

/-- the state in which the command has been taken out of the inbox by poll number `j` -/
def loopDone (k : Nat) (cmd : Name) (j : Nat) : St := { loopSt k cmd with steps := j + 1, inbox := [] }

theorem loopAt_poll_none (k : Nat) (cmd : Name) (j : Nat) (h : j < k) :
    pollDebugger (loopAt k cmd j) = (none, loopAt k cmd (j + 1)) :=
  pollDebugger_not_yet (loopAt k cmd j) ⟨k, cmd⟩ [] rfl h

theorem loopAt_lookup (k : Nat) (cmd : Name) (j : Nat) :
    lookup (loopAt k cmd j) (.named cs!"lp") .nil cs!"default" = .found loopFn :=
  rfl

/-- the operator `lp` evaluates to the loop function when no command is due -/
theorem loopAt_operator (fuel k : Nat) (cmd : Name) (j : Nat) (h : j < k) :
    evalInternal (fuel + 1) (loopAt k cmd j) (.symName cs!"lp") .nil cs!"default" 1 = (.ok loopFn, loopAt k cmd (j + 1)) :=
  evalInternal_sym_found fuel _ _ _ _ _ 1 _ (by decide) (loopAt_poll_none k cmd j h) (loopAt_lookup k cmd (j + 1))

/-- one trip round the loop: two polls, and the same call again -/
theorem loop_iteration (fuel k : Nat) (cmd : Name) (j : Nat) (h : j + 1 < k) :
    evalInternal (fuel + 2) (loopAt k cmd j) loopCall .nil cs!"default" 0 =
      evalInternal (fuel + 1) (loopAt k cmd (j + 2)) loopCall .nil cs!"default" 0 :=
  evalInternal_call_fn0 fuel _ _ _ (.symName cs!"lp") .nil cs!"default" 0 .lambda loopCall .nil cs!"default"
    (by decide) (loopAt_poll_none k cmd j (by omega)) rfl rfl rfl rfl (loopAt_operator fuel k cmd (j + 1) h)

/-- the command is due at the poll of the call `(lp)` -/
theorem loop_delivered_at_call (fuel k : Nat) (cmd : Name) (j : Nat) (r : Res Val) (h : k ≤ j)
    (hp : ∀ st : St, st.attached = true → st.inbox = [⟨k, cmd⟩] → k ≤ st.steps →
      pollDebugger st = (some r, { st with steps := st.steps + 1, inbox := [] })) :
    evalInternal (fuel + 1) (loopAt k cmd j) loopCall .nil cs!"default" 0 = (r, loopDone k cmd j) :=
  evalInternal_poll_some fuel _ _ _ _ _ 0 r (by decide) (hp (loopAt k cmd j) rfl rfl h)

/-- the command is due at the poll of the operator symbol `lp`: the signal propagates out of the call -/
theorem loop_delivered_at_operator (fuel k : Nat) (cmd : Name) (j : Nat) (x : Val) (h : k = j + 1)
    (hp : ∀ st : St, st.attached = true → st.inbox = [⟨k, cmd⟩] → k ≤ st.steps →
      pollDebugger st = (some (.err x), { st with steps := st.steps + 1, inbox := [] })) :
    evalInternal (fuel + 2) (loopAt k cmd j) loopCall .nil cs!"default" 0 = (.err x, loopDone k cmd (j + 1)) :=
  evalInternal_call_operator_err (fuel + 1) _ _ _ (.symName cs!"lp") .nil cs!"default" 0 x
    (by decide) (loopAt_poll_none k cmd j (by omega)) rfl rfl rfl rfl
    (evalInternal_poll_some fuel _ _ _ _ _ 1 _ (by decide) (hp (loopAt k cmd (j + 1)) rfl rfl (Nat.le_of_eq h)))

/-- the loop started after `j` polls is stopped by the command stamped `k`, with `n + 2` units of fuel when
`k ≤ j + 2 * n`: by the signal `x` the poll answers the command with; the modules are untouched -/
theorem loop_stopped (k : Nat) (cmd : Name) (x : Val)
    (hp : ∀ st : St, st.attached = true → st.inbox = [⟨k, cmd⟩] → k ≤ st.steps →
      pollDebugger st = (some (.err x), { st with steps := st.steps + 1, inbox := [] })) :
    ∀ n j, k ≤ j + 2 * n →
      ∃ st', evalInternal (n + 2) (loopAt k cmd j) loopCall .nil cs!"default" 0 = (.err x, st') ∧
        st'.modules = (loopSt k cmd).modules := by
  intro n
  induction n with
  | zero =>
    intro j h
    exact ⟨_, loop_delivered_at_call 1 k cmd j _ (by omega) hp, rfl⟩
  | succ n ih =>
    intro j h
    by_cases h1 : k ≤ j
    · exact ⟨_, loop_delivered_at_call (n + 2) k cmd j _ h1 hp, rfl⟩
    · by_cases h2 : k = j + 1
      · exact ⟨_, loop_delivered_at_operator (n + 1) k cmd j x h2 hp, rfl⟩
      · rw [loop_iteration (n + 1) k cmd j (by omega)]
        exact ih (j + 2) (by omega)

end helpers

/-- for EVERY step k at which ABORT becomes available, the endless loop ends with an abort (given enough fuel to get there);
without the command it would exhaust any fuel -/
theorem endless_loop_aborted (k : Nat) :
    ∃ fuel st', evalInternal fuel (loopSt k cs!"ABORT") loopCall .nil cs!"default" 0 = (.err .nil, st') ∧
      st'.modules = (loopSt k cs!"ABORT").modules :=
  ⟨k + 2, loop_stopped k cs!"ABORT" .nil
    (fun st ha hi ht => pollDebugger_abort st ⟨k, cs!"ABORT"⟩ [] ha hi rfl ht) k 0 (by omega)⟩

theorem endless_loop_interrupted (k : Nat) :
    ∃ fuel st', evalInternal fuel (loopSt k cs!"INTERRUPT") loopCall .nil cs!"default" 0 = (.err (interrupted cs!"eval"), st') ∧
      st'.modules = (loopSt k cs!"INTERRUPT").modules :=
  ⟨k + 2, loop_stopped k cs!"INTERRUPT" (interrupted cs!"eval")
    (fun st ha hi ht => pollDebugger_interrupt st ⟨k, cs!"INTERRUPT"⟩ [] ha hi rfl ht) k 0 (by omega)⟩

end Pici.C19
