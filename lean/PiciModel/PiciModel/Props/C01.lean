/-
C01 — GC safety: nothing reachable is ever reclaimed, altered or left dangling.

Client-level theorems: a client holds handles in slots, the current module holds one handle per global definition;
`HeapState.step` (`Model/Heap.lean`) performs one operation of the heap API — allocate number / character / cons /
symbol / function / trap / metadata wrapper (with the natural collection when the free list is empty, or a forced one),
clone / drop a handle, read a component, define / undefine a global, collect.  For EVERY finite history of such operations
the invariant holds, no operation panics, every reachable cell keeps its content, and the tree a handle denotes never changes.
-/
import PiciModel.Props.HeapCollect
import PiciModel.Lemmas.Client

namespace Pici.C01
open Pici Pici.Heap Pici.HeapState

/-- the number of handles on a cell: in the client's slots and in the global definitions -/
def heldCount (s : HeapState) (a : Addr) : Nat :=
  s.slots.count (some (some a)) + (s.heap.globals.map (·.2)).count (some a)

/-- the invariant of a client state -/
structure SInv (s : HeapState) : Prop where
  heap : Inv s.heap
  /-- the handle count of every cell is exactly the number of handles that exist (`GcRef` is RAII) -/
  rc   : ∀ a, (s.heap.cell a).rc = heldCount s a
  /-- handles only point to cells in use -/
  held : ∀ a, 0 < heldCount s a → Used s.heap a
  /-- a module table is a map: one definition per name.  (Needed: `.define` / `.undefine` rewrite or remove EVERY entry of the
  name but drop only the handle of the first one; with globals `[(g, some 0), (g, some 1)]` — a state no history from
  `HeapState.init` produces — `.undefine g` would leave cell 1 with handle count 1 and no handle on it.) -/
  gnodup : (s.heap.globals.map (·.1)).Nodup

/-- the state after a history of operations, from a fresh heap -/
def run (ops : List HeapOp) : HeapState := ops.foldl (fun s op => (s.step op).1) HeapState.init

section helpers

/-! ### helpers: the invariant with one handle pending, one slot update, the result of one operation -/

theorem heldCount_eq (s : HeapState) (a : Addr) :
    heldCount s a = s.slots.count (some (some a)) + gcount s.heap.globals a := rfl

theorem heldCount_congr {s s' : HeapState} (hs : s'.slots = s.slots) (hg : s'.heap.globals = s.heap.globals) (a : Addr) :
    heldCount s' a = heldCount s a := by
  rw [heldCount_eq, heldCount_eq, hs, hg]

theorem sinv_congr {s s' : HeapState} (h : SInv s) (hh : s'.heap = s.heap) (hs : s'.slots = s.slots) : SInv s' := by
  have hc : ∀ a, heldCount s' a = heldCount s a := heldCount_congr hs (by rw [hh])
  refine ⟨by rw [hh]; exact h.heap, ?_, ?_, by rw [hh]; exact h.gnodup⟩
  · intro a; rw [hc, hh]; exact h.rc a
  · intro a ha; rw [hc] at ha; rw [hh]; exact h.held a ha

theorem held_reach' (s : HeapState) (h : SInv s) (a : Addr) (hh : 0 < heldCount s a) : Reach s.heap a := by
  apply Reach.root
  rw [mem_roots_iff]
  exact ⟨h.held a hh, by rw [h.rc a]; exact hh⟩

theorem slot_held {s : HeapState} {i : Nat} {a : Addr} (hi : s.slots[i]? = some (some (some a))) : 0 < heldCount s a := by
  have : (some (some a) : Slot) ∈ s.slots := List.mem_of_getElem? hi
  have := List.count_pos_iff.2 this
  rw [heldCount_eq]
  omega

theorem arg_held {s : HeapState} {i : Int} {a : Addr} (hi : s.arg i = some (some a)) : 0 < heldCount s a := by
  unfold HeapState.arg at hi
  split at hi
  · cases hi
  · split at hi
    · rename_i x hx
      cases hi
      exact slot_held hx
    · cases hi

theorem global_held {s : HeapState} {n : Name} {a : Addr} (hl : s.heap.globals.lookup n = some (some a)) :
    0 < heldCount s a := by
  have hm := lookup_mem _ _ _ hl
  have : some a ∈ s.heap.globals.map (·.2) := List.mem_map.2 ⟨_, hm, rfl⟩
  have := List.count_pos_iff.2 this
  rw [heldCount_eq, gcount]
  omega

/-- the handle a slot holds (what `setSlot` drops) -/
def oldOf (s : HeapState) (dst : Nat) : Option Addr :=
  match s.slots[dst]? with
  | some (some x) => x
  | _             => none

theorem oldOf_eq_some {s : HeapState} {dst : Nat} {b : Addr} :
    oldOf s dst = some b ↔ s.slots[dst]? = some (some (some b)) := by
  unfold oldOf
  split
  · rename_i x hx
    rw [hx]
    simp
  · rename_i hx
    constructor
    · intro e; cases e
    · intro e; exact (hx _ e).elim

theorem join_eq_some {v : Slot} {b : Addr} : v.join = some b ↔ v = some (some b) := by
  cases v with
  | none => simp
  | some x => simp

/-- the client invariant with one more handle on `x` than the slots and globals hold -/
structure PInv (s : HeapState) (x : Option Addr) : Prop where
  heap  : Inv s.heap
  rc    : ∀ b, (s.heap.cell b).rc = heldCount s b + (if x = some b then 1 else 0)
  held  : ∀ b, 0 < heldCount s b → Used s.heap b
  xused : ∀ a, x = some a → Used s.heap a
  gnodup : (s.heap.globals.map (·.1)).Nodup

theorem SInv.toPInv {s : HeapState} (h : SInv s) : PInv s none :=
  ⟨h.heap, fun b => by simp [h.rc b], h.held, fun a e => (by cases e), h.gnodup⟩

/-- replacing the content of one slot by the pending handle (or by nothing), dropping the handle that was there -/
theorem slot_update (s : HeapState) (dst : Nat) (v : Slot) (hp : PInv s v.join) :
    ∃ h', s.heap.decRc? (oldOf s dst) = some h' ∧
      SInv { s with heap := h', slots := setSlotList s.slots dst v } ∧ RcOnly s.heap h' ∧ h'.globals = s.heap.globals := by
  have hx : ∀ a, oldOf s dst = some a → (s.heap.cell a).rc ≠ 0 := by
    intro a ha
    have := slot_held (oldOf_eq_some.1 ha)
    rw [hp.rc a]
    omega
  obtain ⟨h', e, i', r, g, hrc⟩ := decRc?_spec s.heap hp.heap (oldOf s dst) hx
  have hcount : ∀ b, heldCount { s with heap := h', slots := setSlotList s.slots dst v } b +
      (if oldOf s dst = some b then 1 else 0) = heldCount s b + (if v.join = some b then 1 else 0) := by
    intro b
    have := count_setSlotList (some (some b)) (by simp) dst s.slots v
    rw [heldCount_eq, heldCount_eq]
    simp only [g]
    have e1 : (oldOf s dst = some b) ↔ (s.slots[dst]? = some (some (some b))) := oldOf_eq_some
    have e2 : (v.join = some b) ↔ (v = some (some b)) := join_eq_some
    simp only [e1, e2]
    omega
  refine ⟨h', e, ⟨i', ?_, ?_, by rw [g]; exact hp.gnodup⟩, r, g⟩
  · intro b
    have h1 := hrc b
    have h2 := hcount b
    have h3 := hp.rc b
    show (h'.cell b).rc = _
    omega
  · intro b hb
    show Used h' b
    rw [r.used]
    have h2 := hcount b
    by_cases hv : v.join = some b
    · exact hp.xused b hv
    · rw [if_neg hv] at h2
      exact hp.held b (by omega)

theorem setSlot_eq (s : HeapState) (dst : Nat) (x : Option Addr) :
    s.setSlot dst x = match s.heap.decRc? (oldOf s dst) with
      | some h => some { s with heap := h, slots := setSlotList s.slots dst (some x) }
      | none   => none := rfl

theorem setSlot_ok (s : HeapState) (dst : Nat) (x : Option Addr) (hp : PInv s x) :
    ∃ s', s.setSlot dst x = some s' ∧ SInv s' ∧ RcOnly s.heap s'.heap ∧ s'.heap.globals = s.heap.globals ∧
      s'.slots = setSlotList s.slots dst (some x) := by
  obtain ⟨h', e, i, r, g⟩ := slot_update s dst (some x) hp
  refine ⟨_, ?_, i, r, g, rfl⟩
  rw [setSlot_eq, e]

/-- handing out one more handle on a used cell (or on nil) and storing it in a slot -/
theorem give_ok (s : HeapState) (dst : Nat) (x : Option Addr) (h : SInv s) (hx : ∀ a, x = some a → Used s.heap a) :
    ∃ s', ({ s with heap := s.heap.incRc? x } : HeapState).setSlot dst x = some s' ∧ SInv s' ∧
      RcOnly s.heap s'.heap ∧ s'.heap.globals = s.heap.globals ∧ s'.slots = setSlotList s.slots dst (some x) := by
  have hp : PInv ({ s with heap := s.heap.incRc? x } : HeapState) x := by
    have hc : ∀ b, heldCount ({ s with heap := s.heap.incRc? x } : HeapState) b = heldCount s b :=
      heldCount_congr rfl (incRc?_globals _ _)
    refine ⟨inv_incRc? s.heap h.heap x hx, ?_, ?_, ?_, by rw [incRc?_globals]; exact h.gnodup⟩
    · intro b
      rw [hc]
      show ((s.heap.incRc? x).cell b).rc = _
      rw [incRc?_rc s.heap h.heap x hx b, h.rc b]
    · intro b hb
      rw [hc] at hb
      exact ((rcOnly_incRc? s.heap x).used b).2 (h.held b hb)
    · intro a ha
      exact ((rcOnly_incRc? s.heap x).used a).2 (hx a ha)
  obtain ⟨s', e, i, r, g, sl⟩ := setSlot_ok _ dst x hp
  exact ⟨s', e, i, (rcOnly_incRc? s.heap x).trans r, g.trans (incRc?_globals _ _), sl⟩

/-- storing the first handle of a freshly allocated cell in a slot -/
theorem finish_ok (s : HeapState) (dst : Nat) (h' : Heap) (a : Addr) (h : SInv s) (hal : Alloc s.heap h' a) :
    ∃ s', s.finish dst (some (h', a)) = (s', .ok) ∧ SInv s' ∧ RcOnly h' s'.heap ∧ s'.heap.globals = s.heap.globals ∧
      s'.slots = setSlotList s.slots dst (some (some a)) := by
  have hc : ∀ b, heldCount ({ s with heap := h' } : HeapState) b = heldCount s b :=
    heldCount_congr rfl hal.globals
  have hp : PInv ({ s with heap := h' } : HeapState) (some a) := by
    refine ⟨hal.inv, ?_, ?_, ?_, by rw [hal.globals]; exact h.gnodup⟩
    · intro b
      rw [hc]
      show (h'.cell b).rc = _
      by_cases hba : b = a
      · subst hba
        have h0 : heldCount s b = 0 := by
          rcases Nat.eq_zero_or_pos (heldCount s b) with h0 | h0
          · exact h0
          · exact (hal.fresh (held_reach' s h b h0)).elim
        rw [hal.rc, h0]
        simp
      · have : ¬ (some a = some b) := fun e => hba (Option.some.inj e).symm
        rw [hal.cell b hba, h.rc b, if_neg this]
        rfl
    · intro b hb
      rw [hc] at hb
      exact hal.keeps b (held_reach' s h b hb)
    · intro b hb
      cases hb
      exact hal.used
  obtain ⟨s', e, i, r, g, sl⟩ := setSlot_ok _ dst (some a) hp
  refine ⟨s', ?_, i, r, g.trans hal.globals, sl⟩
  unfold HeapState.finish
  simp only [e]

theorem ok_nocrash (why : String) : HeapResp.ok ≠ .crash why := fun e => by cases e

/-- what every operation guarantees -/
structure StepOK (s s' : HeapState) (r : HeapResp) : Prop where
  sinv    : SInv s'
  nocrash : ∀ why, r ≠ .crash why
  content : ∀ a, Reach s.heap a → (s'.heap.cell a).content = (s.heap.cell a).content
  size    : s'.heap.order.size ≤ max s.heap.order.size (growthOf (liveCount s.heap))

theorem StepOK.same {s : HeapState} (h : SInv s) {r : HeapResp} (hr : ∀ why, r ≠ .crash why) : StepOK s s r :=
  ⟨h, hr, fun _ _ => rfl, Nat.le_max_left _ _⟩

theorem StepOK.rcOnly {s s' : HeapState} (h' : SInv s') (r : RcOnly s.heap s'.heap) : StepOK s s' .ok :=
  ⟨h', ok_nocrash, fun a _ => r.content a, by rw [r.order]; exact Nat.le_max_left _ _⟩

theorem StepOK.alloc {s s1 : HeapState} (hh : s1.heap = s.heap) (hsl : s1.slots = s.slots) (h : SInv s) (dst : Nat)
    (r : Option (Heap × Addr)) (hr : ∃ h' a, r = some (h', a) ∧ Alloc s.heap h' a) :
    StepOK s (s1.finish dst r).1 (s1.finish dst r).2 := by
  obtain ⟨h', a, rfl, hal⟩ := hr
  have h1 : SInv s1 := sinv_congr h hh hsl
  obtain ⟨s', e, i, ro, _, _⟩ := finish_ok s1 dst h' a h1 (by rw [hh]; exact hal)
  rw [e]
  refine ⟨i, ok_nocrash, ?_, ?_⟩
  · intro b hb
    have hba : b ≠ a := by rintro rfl; exact hal.fresh hb
    show (s'.heap.cell b).content = _
    rw [ro.content b, hal.cell b hba]
  · show s'.heap.order.size ≤ _
    rw [ro.order]
    exact hal.size

theorem tick_heap (s : HeapState) : s.tick.1.heap = s.heap := rfl
theorem tick_slots (s : HeapState) : s.tick.1.slots = s.slots := rfl

/-- an operation that allocates a cell whose children are held by slots -/
theorem step_allocHandle (s : HeapState) (dst : Nat) (c : Content) (h : SInv s)
    (hkids : ∀ b ∈ c.children, 0 < heldCount s b) (hsym : ∀ n o, c ≠ .sym (some n) o) :
    StepOK s (s.tick.1.finish dst (s.tick.1.heap.allocHandle c s.tick.2)).1
      (s.tick.1.finish dst (s.tick.1.heap.allocHandle c s.tick.2)).2 := by
  apply StepOK.alloc (tick_heap s) (tick_slots s) h dst
  obtain ⟨h', a, e, al, _⟩ := allocHandle_alloc s.heap h.heap c s.tick.2
    (fun b hb => held_reach' s h b (hkids b hb)) hsym
  exact ⟨h', a, e, al⟩

theorem stepOK_ite {s : HeapState} {c : Prop} [Decidable c] {A B : HeapState × HeapResp}
    (hA : c → StepOK s A.1 A.2) (hB : ¬ c → StepOK s B.1 B.2) :
    StepOK s (if c then A else B).1 (if c then A else B).2 := by
  by_cases hc : c
  · rw [if_pos hc]; exact hA hc
  · rw [if_neg hc]; exact hB hc

theorem notFound_nocrash (why : String) : HeapResp.notFound ≠ .crash why := fun e => by cases e
theorem collected_nocrash (u f : Nat) (why : String) : HeapResp.collected u f ≠ .crash why := fun e => by cases e

theorem refused_nocrash (m why : String) : HeapResp.refused m ≠ .crash why := fun e => by cases e

theorem toList_held {s : HeapState} {i : Int} {x : Option Addr} (hx : s.arg i = some x) : ∀ b ∈ x.toList, 0 < heldCount s b := by
  intro b hb
  cases x with
  | none => simp at hb
  | some a =>
    simp only [Option.toList_some, List.mem_singleton] at hb
    subst hb
    exact arg_held hx

theorem oldOf_of {s : HeapState} {i : Nat} {x : Option Addr} (hi : s.slots[i]? = some (some x)) : oldOf s i = x := by
  unfold oldOf
  rw [hi]

/-- `.define`: the new handle is counted before the old definition's handle is dropped -/
theorem define_ok (s : HeapState) (h : SInv s) (name : Name) (x : Option Addr) (hx : ∀ a, x = some a → 0 < heldCount s a) :
    ∃ h2, (s.heap.incRc? x).decRc? ((s.heap.incRc? x).globals.lookup name).join = some h2 ∧ RcOnly s.heap h2 ∧
      SInv { s with heap := { h2 with globals := if (h2.globals.lookup name).isSome then redefine name x h2.globals
                                                  else h2.globals ++ [(name, x)] } } := by
  have hxu : ∀ a, x = some a → Used s.heap a := fun a e => h.held a (hx a e)
  have i1 := inv_incRc? s.heap h.heap x hxu
  have r1 := rcOnly_incRc? s.heap x
  have g1 : (s.heap.incRc? x).globals = s.heap.globals := incRc?_globals _ _
  have hrc1 := incRc?_rc s.heap h.heap x hxu
  rw [g1]
  have hold : ∀ a, (s.heap.globals.lookup name).join = some a → ((s.heap.incRc? x).cell a).rc ≠ 0 := by
    intro a ha
    have : s.heap.globals.lookup name = some (some a) := by
      cases hl : s.heap.globals.lookup name with
      | none => rw [hl] at ha; cases ha
      | some v => rw [hl] at ha; simp only [Option.join_some] at ha; rw [ha]
    have := global_held this
    rw [hrc1 a, h.rc a]
    omega
  obtain ⟨h2, e, i2, r2, g2, hrc2⟩ := decRc?_spec _ i1 _ hold
  refine ⟨h2, e, r1.trans r2, ?_⟩
  rw [g2, g1]
  have hcount : ∀ b, gcount (if (s.heap.globals.lookup name).isSome then redefine name x s.heap.globals
        else s.heap.globals ++ [(name, x)]) b + (if (s.heap.globals.lookup name).join = some b then 1 else 0) =
      gcount s.heap.globals b + (if x = some b then 1 else 0) := by
    intro b
    cases hl : s.heap.globals.lookup name with
    | none =>
      simp only [Option.isSome_none, Bool.false_eq_true, if_false, Option.join_none]
      rw [gcount_append, gcount_cons]
      simp [gcount]
    | some v =>
      simp only [Option.isSome_some, if_true, Option.join_some]
      exact gcount_redefine name x b _ v h.gnodup hl
  have hheld : ∀ b, heldCount { s with heap := { h2 with globals :=
          if (s.heap.globals.lookup name).isSome then redefine name x s.heap.globals else s.heap.globals ++ [(name, x)] } } b +
        (if (s.heap.globals.lookup name).join = some b then 1 else 0) = heldCount s b + (if x = some b then 1 else 0) := by
    intro b
    have := hcount b
    rw [heldCount_eq, heldCount_eq]
    simp only
    omega
  refine ⟨inv_setGlobals i2 _, ?_, ?_, ?_⟩
  · intro b
    have h1 := hheld b
    have h2' := hrc2 b
    have h3 := hrc1 b
    have h4 := h.rc b
    show (h2.cell b).rc = _
    omega
  · intro b hb
    show Used h2 b
    rw [(r1.trans r2).used]
    have h1 := hheld b
    by_cases hv : x = some b
    · exact hxu b hv
    · rw [if_neg hv] at h1
      exact h.held b (by omega)
  · show (List.map (·.1) (if (s.heap.globals.lookup name).isSome then redefine name x s.heap.globals
        else s.heap.globals ++ [(name, x)])).Nodup
    cases hl : s.heap.globals.lookup name with
    | none =>
      simp only [Option.isSome_none, Bool.false_eq_true, if_false, List.map_append, List.map_cons, List.map_nil]
      rw [List.nodup_append]
      refine ⟨h.gnodup, by simp, ?_⟩
      intro a ha b hb
      rw [List.mem_singleton] at hb
      subst hb
      rintro rfl
      exact lookup_none_absent _ _ hl ha
    | some v =>
      simp only [Option.isSome_some, if_true]
      rw [redefine_keys]
      exact h.gnodup

/-- `.undefine` -/
theorem undefine_ok (s : HeapState) (h : SInv s) (name : Name) (v : Option Addr) (hl : s.heap.globals.lookup name = some v) :
    ∃ h2, s.heap.decRc? v = some h2 ∧ RcOnly s.heap h2 ∧
      SInv { s with heap := { h2 with globals := h2.globals.filter (·.1 != name) } } := by
  have hold : ∀ a, v = some a → (s.heap.cell a).rc ≠ 0 := by
    intro a ha
    subst ha
    have := global_held hl
    rw [h.rc a]
    omega
  obtain ⟨h2, e, i2, r2, g2, hrc2⟩ := decRc?_spec _ h.heap _ hold
  refine ⟨h2, e, r2, ?_⟩
  rw [g2]
  have hheld : ∀ b, heldCount { s with heap := { h2 with globals := s.heap.globals.filter (·.1 != name) } } b +
        (if v = some b then 1 else 0) = heldCount s b := by
    intro b
    have := gcount_remove name b _ v h.gnodup hl
    rw [heldCount_eq, heldCount_eq]
    simp only
    omega
  refine ⟨inv_setGlobals i2 _, ?_, ?_, ?_⟩
  · intro b
    have h1 := hheld b
    have h2' := hrc2 b
    have h4 := h.rc b
    show (h2.cell b).rc = _
    omega
  · intro b hb
    show Used h2 b
    rw [r2.used]
    have h1 := hheld b
    exact h.held b (by omega)
  · show (List.map (·.1) (s.heap.globals.filter (·.1 != name))).Nodup
    exact h.gnodup.sublist (List.filter_sublist.map _)

/-- `.collect` -/
theorem collect_ok (s : HeapState) (h : SInv s) :
    ∃ h', s.heap.collectFast = some h' ∧ SInv { s with heap := h' } ∧ h'.store = s.heap.store ∧
      h'.order.size ≤ s.heap.order.size ∧ (∀ a, Used h' a ↔ Reach s.heap a) := by
  obtain ⟨h', e, i, st, g, u, _, sz⟩ := collectFast_spec' s.heap h.heap
  have hc : ∀ b, heldCount ({ s with heap := h' } : HeapState) b = heldCount s b := heldCount_congr rfl g
  refine ⟨h', e, ⟨i, ?_, ?_, by rw [g]; exact h.gnodup⟩, st, sz, u⟩
  · intro b
    rw [hc]
    show (h'.cell b).rc = _
    rw [cell_congr st b]
    exact h.rc b
  · intro b hb
    rw [hc] at hb
    exact (u b).2 (held_reach' s h b hb)

theorem step_ok (s : HeapState) (op : HeapOp) (h : SInv s) : StepOK s (s.step op).1 (s.step op).2 := by
  cases op with
  | num dst n =>
    unfold HeapState.step
    dsimp only
    exact step_allocHandle s dst _ h (by simp [Content.children]) (by intro n o e; cases e)
  | chr dst n =>
    unfold HeapState.step
    dsimp only
    exact step_allocHandle s dst _ h (by simp [Content.children]) (by intro n o e; cases e)
  | cons dst a d =>
    unfold HeapState.step
    dsimp only
    cases hx : s.arg a with
    | none => exact StepOK.same h (refused_nocrash _)
    | some x =>
      cases hy : s.arg d with
      | none => exact StepOK.same h (refused_nocrash _)
      | some y =>
        dsimp only
        refine step_allocHandle s dst _ h ?_ (by intro n o e; cases e)
        intro b hb
        simp only [Content.children, List.mem_append] at hb
        rcases hb with hb | hb
        · exact toList_held hx b hb
        · exact toList_held hy b hb
  | trap dst a d =>
    unfold HeapState.step
    dsimp only
    cases hx : s.arg a with
    | none => exact StepOK.same h (refused_nocrash _)
    | some x =>
      cases hy : s.arg d with
      | none => exact StepOK.same h (refused_nocrash _)
      | some y =>
        dsimp only
        refine step_allocHandle s dst _ h ?_ (by intro n o e; cases e)
        intro b hb
        simp only [Content.children, List.mem_append] at hb
        rcases hb with hb | hb
        · exact toList_held hx b hb
        · exact toList_held hy b hb
  | sym dst name =>
    unfold HeapState.step
    dsimp only
    cases hl : s.heap.symtab.lookup name with
    | some a =>
      dsimp only
      rw [symbolFor_found s.heap name a false hl]
      have hu : Used s.heap a := (h.heap.symSound name a (lookup_mem _ _ _ hl)).1
      obtain ⟨s', e, i, r, _, _⟩ := give_ok s dst (some a) h (fun b hb => by cases hb; exact hu)
      have e' : ({ s with heap := s.heap.incRc a } : HeapState).setSlot dst (some a) = some s' := e
      unfold HeapState.finish
      simp only [e']
      exact StepOK.rcOnly i r
    | none =>
      dsimp only
      apply StepOK.alloc (tick_heap s) (tick_slots s) h dst
      obtain ⟨h', a, e, al, _⟩ := symbolFor_alloc s.heap h.heap name s.tick.2 hl
      exact ⟨h', a, e, al⟩
  | gensym dst =>
    unfold HeapState.step
    dsimp only
    apply StepOK.alloc (tick_heap s) (tick_slots s) h dst
    obtain ⟨h', a, e, al, _⟩ := uniqueSymbol_alloc s.heap h.heap s.tick.2
    exact ⟨h', a, e, al⟩
  | fn dst kind rest body env mod params =>
    unfold HeapState.step
    dsimp only
    cases hx : s.arg body with
    | none => exact StepOK.same h (refused_nocrash _)
    | some x =>
      cases hy : s.arg env with
      | none => exact StepOK.same h (refused_nocrash _)
      | some y =>
        dsimp only
        split
        · exact StepOK.same h (refused_nocrash _)
        · split
          · exact StepOK.same h (refused_nocrash _)
          · refine step_allocHandle s dst _ h ?_ (by intro n o e; cases e)
            intro b hb
            simp only [Content.children, List.mem_append, List.mem_filterMap, List.mem_map] at hb
            rcases hb with (hb | hb) | ⟨p, ⟨q, _, hq⟩, hp⟩
            · exact toList_held hx b hb
            · exact toList_held hy b hb
            · apply arg_held (i := Int.ofNat q)
              rw [hq]
              exact join_eq_some.1 hp
  | md dst src m =>
    unfold HeapState.step
    dsimp only
    cases hx : s.arg src with
    | none => exact StepOK.same h (refused_nocrash _)
    | some x =>
      dsimp only
      refine stepOK_ite (fun _ => StepOK.same h (refused_nocrash _)) (fun _ => ?_)
      · refine step_allocHandle s dst _ h ?_ (by intro n o e; cases e)
        intro b hb
        simp only [Content.children] at hb
        exact toList_held hx b hb
  | clone dst src =>
    unfold HeapState.step
    dsimp only
    cases hx : s.arg src with
    | none => exact StepOK.same h (refused_nocrash _)
    | some x =>
      dsimp only
      obtain ⟨s', e, i, r, _, _⟩ := give_ok s dst x h (fun b hb => h.held b (arg_held (hb ▸ hx)))
      simp only [e]
      exact StepOK.rcOnly i r
  | drop i =>
    unfold HeapState.step
    dsimp only
    cases hx : s.slots[i]? with
    | none => exact StepOK.same h ok_nocrash
    | some sl =>
      cases sl with
      | none => exact StepOK.same h ok_nocrash
      | some x =>
        dsimp only
        obtain ⟨h', e, i', r, _⟩ := slot_update s i none h.toPInv
        rw [oldOf_of hx] at e
        simp only [e]
        exact StepOK.rcOnly i' r
  | car dst src =>
    unfold HeapState.step
    dsimp only
    cases hx : s.arg src with
    | none => exact StepOK.same h (refused_nocrash _)
    | some x =>
      cases x with
      | none => exact StepOK.same h (refused_nocrash _)
      | some a =>
        dsimp only
        have hua : Used s.heap a := h.held a (arg_held hx)
        split
        · rename_i x y hc
          have hv : ∀ b, x = some b → Used s.heap b := by
            intro b hb
            split at hc
            · rename_i t m hca
              have htu : Used s.heap t := h.heap.closed a hua _ (by simp [kids, hca, Content.children])
              exact h.heap.closed t htu b (by simp [kids, hc, Content.children, hb])
            · exact h.heap.closed a hua b (by simp [kids, hc, Content.children, hb])
          obtain ⟨s', e, i, r, _, _⟩ := give_ok s dst x h hv
          simp only [e]
          exact StepOK.rcOnly i r
        · exact StepOK.same h (refused_nocrash _)
  | cdr dst src =>
    unfold HeapState.step
    dsimp only
    cases hx : s.arg src with
    | none => exact StepOK.same h (refused_nocrash _)
    | some x =>
      cases x with
      | none => exact StepOK.same h (refused_nocrash _)
      | some a =>
        dsimp only
        have hua : Used s.heap a := h.held a (arg_held hx)
        split
        · rename_i x y hc
          have hv : ∀ b, y = some b → Used s.heap b := by
            intro b hb
            split at hc
            · rename_i t m hca
              have htu : Used s.heap t := h.heap.closed a hua _ (by simp [kids, hca, Content.children])
              exact h.heap.closed t htu b (by simp [kids, hc, Content.children, hb])
            · exact h.heap.closed a hua b (by simp [kids, hc, Content.children, hb])
          obtain ⟨s', e, i, r, _, _⟩ := give_ok s dst y h hv
          simp only [e]
          exact StepOK.rcOnly i r
        · exact StepOK.same h (refused_nocrash _)
  | define name src =>
    unfold HeapState.step
    dsimp only
    cases hx : s.arg src with
    | none => exact StepOK.same h (refused_nocrash _)
    | some x =>
      dsimp only
      obtain ⟨h2, e, r, i⟩ := define_ok s h name x (fun a ha => arg_held (ha ▸ hx))
      simp only [e]
      exact StepOK.rcOnly i (r.trans (RcOnly.setGlobals _))
  | undefine name =>
    unfold HeapState.step
    dsimp only
    cases hl : s.heap.globals.lookup name with
    | none => exact StepOK.same h ok_nocrash
    | some v =>
      dsimp only
      obtain ⟨h2, e, r, i⟩ := undefine_ok s h name v hl
      simp only [e]
      exact StepOK.rcOnly i (r.trans (RcOnly.setGlobals _))
  | getGlobal dst name =>
    unfold HeapState.step
    dsimp only
    cases hl : s.heap.globals.lookup name with
    | none => exact StepOK.same h notFound_nocrash
    | some v =>
      dsimp only
      obtain ⟨s', e, i, r, _, _⟩ := give_ok s dst v h (fun b hb => h.held b (global_held (hb ▸ hl)))
      simp only [e]
      exact StepOK.rcOnly i r
  | collect =>
    unfold HeapState.step
    dsimp only
    obtain ⟨h', e, i, st, sz, _⟩ := collect_ok s h
    simp only [e]
    exact ⟨i, collected_nocrash _ _, fun a _ => (by rw [cell_congr st a]), Nat.le_trans sz (Nat.le_max_left _ _)⟩

theorem sinv_foldl (ops : List HeapOp) : ∀ s, SInv s → SInv (ops.foldl (fun s op => (s.step op).1) s) := by
  induction ops with
  | nil => intro s h; exact h
  | cons op ops ih => intro s h; exact ih _ (step_ok s op h).sinv

theorem no_dangling {s : HeapState} (h : SInv s) (a : Addr) (hr : Reach s.heap a) :
    Used s.heap a ∧ ∀ b ∈ kids s.heap a, Used s.heap b ∧ Reach s.heap b := by
  have hu := reach_used s.heap h.heap a hr
  exact ⟨hu, fun b hb => ⟨h.heap.closed a hu b hb, Reach.step hr hb⟩⟩

end helpers

theorem sinv_init : SInv HeapState.init := by
  have hc : ∀ a, heldCount HeapState.init a = 0 := fun a => rfl
  refine ⟨init_inv, ?_, ?_, ?_⟩
  · intro a
    rw [hc]
    by_cases ha : a < Config.initialFreeCells
    · simp [HeapState.init, Heap.init, Heap.cell, ha]
    · exact congrArg Cell.rc (cell_ge Heap.init a (by simpa [Heap.init] using ha))
  · intro a ha
    rw [hc] at ha
    exact (Nat.lt_irrefl 0 ha).elim
  · exact List.nodup_nil

/-- every operation preserves the invariant -/
theorem sinv_step (s : HeapState) (op : HeapOp) (h : SInv s) : SInv (s.step op).1 := by
  exact (step_ok s op h).sinv

/-- … so it holds at every point of every history -/
theorem sinv_run (ops : List HeapOp) : SInv (run ops) := by
  exact sinv_foldl ops HeapState.init sinv_init

/-- no operation panics (handle counts never go below zero, the cell vector is never empty, the mark loop never starves) -/
theorem step_no_crash (s : HeapState) (op : HeapOp) (h : SInv s) (why : String) : (s.step op).2 ≠ .crash why := by
  exact (step_ok s op h).nocrash why

/-- THE safety theorem: whatever the operation — including an allocation that triggers a collection, growth or shrinking —
every cell that was reachable before keeps its type, payload and the identity of everything it refers to -/
theorem step_preserves (s : HeapState) (op : HeapOp) (h : SInv s) (a : Addr) (hr : Reach s.heap a) :
    ((s.step op).1.heap.cell a).content = (s.heap.cell a).content := by
  exact (step_ok s op h).content a hr

/-- and if it is still reachable afterwards it is still in use, and so is everything it refers to: nothing dangles -/
theorem step_no_dangling (s : HeapState) (op : HeapOp) (h : SInv s) (a : Addr) (hr : Reach (s.step op).1.heap a) :
    Used (s.step op).1.heap a ∧ ∀ b ∈ kids (s.step op).1.heap a, Used (s.step op).1.heap b ∧ Reach (s.step op).1.heap b := by
  exact no_dangling (sinv_step s op h) a hr

/-- at every point of every history: a reachable cell is in use and refers only to cells in use -/
theorem run_no_dangling (ops : List HeapOp) (a : Addr) (hr : Reach (run ops).heap a) :
    Used (run ops).heap a ∧ ∀ b ∈ kids (run ops).heap a, Used (run ops).heap b := by
  have := no_dangling (sinv_run ops) a hr
  exact ⟨this.1, fun b hb => (this.2 b hb).1⟩

/-- the tree a reachable cell denotes (as the evaluator model sees values) is unchanged by any operation -/
theorem abs_stable (s : HeapState) (op : HeapOp) (h : SInv s) (a : Addr) (hr : Reach s.heap a) (fuel : Nat) :
    Heap.abs (s.step op).1.heap fuel (some a) = Heap.abs s.heap fuel (some a) := by
  exact (abs_congr s.heap (s.step op).1.heap (fun b hb => step_preserves s op h b hb) fuel).1 (some a)
    (fun b e => by cases e; exact hr)

/-- a cell with a handle on it is reachable (it is a root) -/
theorem held_reach (s : HeapState) (h : SInv s) (a : Addr) (hh : 0 < heldCount s a) : Reach s.heap a := by
  exact held_reach' s h a hh

/-! non-vacuity: a closure whose only root is a global, a metadata-wrapped cons and a trap, collected twice under a forced schedule -/
def exOps : List HeapOp :=
  [.sym 0 cs!"x", .num 1 7, .cons 2 1 (-1), .md 3 2 ⟨cs!"m", ⟨.stdin, 1, 1⟩, []⟩, .fn 4 .lambda false 3 2 cs!"default" [0], .trap 5 4 3,
   .define cs!"g" 4, .drop 4, .drop 3, .drop 2, .collect, .num 6 9, .drop 5, .collect, .getGlobal 7 cs!"g"]
example : (run exOps).heap.firstFree = 6 := by decide +kernel
example : Heap.abs (run exOps).heap 10 ((run exOps).slots.getD 7 none).join =
    .fn .lambda .nil (.cons (.sym (.named cs!"x")) .nil) (.md (.cons (.num 7) .nil) ⟨cs!"m", ⟨.stdin, 1, 1⟩, []⟩) (.cons (.num 7) .nil) cs!"default" := by decide +kernel

end Pici.C01
