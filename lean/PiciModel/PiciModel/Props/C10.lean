/-
C10 — print/read round trip on data.

For every datum made of integers, characters, symbols, strings and nested proper lists, the printed text
(`printInternal`, mirroring `src/native/print/mod.rs`) reads back (`readInternal`, mirroring
`src/native/read/mod.rs`) as exactly one datum with nothing left over, denoting the original, and printing the
result again reproduces the same text.  (After the fixes: `\` is escaped in strings; the character after `%` is literal.)
-/
import PiciModel.Model.Natives
import PiciModel.Lemmas.Tokenizer

namespace Pici.C10
open Pici

/-- names the reader tokenises as one symbol and nothing else: non-empty; no delimiter, `\`; not starting with `%` or a
digit; not a sign followed by a digit.  After a leading sign the tokenizer stays undecided (`symbolOrNumber`) over any run
of `+`, `-`, `%`, and the first digit after such a run makes the token a number: so a sign, then any run of `+ - %`, then
a digit is excluded too (`+-1`, `--1`, `-%1` are rejected by the reader as invalid numbers). -/
def ReadableSym (s : List Char) : Bool :=
  match s with
  | [] => false
  | c :: rest =>
    s.all (fun x => !isDelimiter x && x != '\\') && c != '%' && !isAsciiDigit c &&
    !((c == '+' || c == '-') &&
      (match rest.dropWhile (fun x => x == '+' || x == '-' || x == '%') with | d :: _ => isAsciiDigit d | [] => false))

inductive Datum where
  | int (n : Int)
  | chr (c : Char)
  | sym (s : List Char)
  | str (cs : List Char)
  | list (ds : List Datum)

/-- a list of data that the printer would show as a string: non-empty and all characters, possibly headed by the symbol `list` -/
def stringLike : List Datum → Bool
  | [] => false
  | .sym s :: rest => s == cs!"list" && rest.all (fun d => match d with | .chr _ => true | _ => false)
  | ds => ds.all (fun d => match d with | .chr _ => true | _ => false)

mutual
/-- well-formed data: 64-bit integers, readable symbol names, lists that are not strings in disguise, nesting depth `≤ k` -/
def Datum.ok : Nat → Datum → Bool
  | _, .int n => inRange n
  | _, .chr _ => true
  | _, .sym s => ReadableSym s
  | _, .str _ => true
  | 0, .list _ => false
  | k + 1, .list ds => !stringLike ds && Datum.okList k ds
def Datum.okList : Nat → List Datum → Bool
  | _, [] => true
  | k, d :: ds => Datum.ok k d && Datum.okList k ds
end

mutual
/-- the value of a datum (as `quote` or a primitive would hand it to `print`): strings carry the `list` head -/
def Datum.toVal : Datum → Val
  | .int n => .num n
  | .chr c => .chr c
  | .sym s => .symName s
  | .str cs => .ofString cs
  | .list ds => Datum.toVals ds
def Datum.toVals : List Datum → Val
  | [] => .nil
  | d :: ds => .cons d.toVal (Datum.toVals ds)
end

mutual
/-- what a value read back must look like to denote the datum (metadata anywhere is irrelevant) -/
def Denotes : Val → Datum → Prop
  | v, .int n => v.get = .num n
  | v, .chr c => v.get = .chr c
  | v, .sym s => v.get = .sym (.named s)
  | v, .str cs => listToString v = some cs ∧ v.isNil = false
  | v, .list ds => DenotesList v ds
def DenotesList : Val → List Datum → Prop
  | v, [] => v.isNil = true
  | v, d :: ds => ∃ a r, v.get = .cons a r ∧ Denotes a d ∧ DenotesList r ds
end

/-- the reader applied to plain text -/
def readChars (cs : List Char) (loc : Loc) : Except ReadError (Val × Rest) := readInternal (.ofChars cs) loc

/-- what may follow a datum in the text: nothing, or a delimiter -/
def EndsToken (t : List Char) : Prop := t = [] ∨ ∃ c r, t = c :: r ∧ isDelimiter c = true

/-! ### the pieces -/

section helpers

theorem endsB_of_EndsToken {t : List Char} (ht : EndsToken t) : endsB t = true := by
  rcases ht with rfl | ⟨c, r, rfl, h⟩
  · rfl
  · exact h

/-- reading a text that is one atom token followed by `t`, at top level -/
theorem readChars_atom (text t : List Char) (loc L tloc : Loc) (tv : TokenValue) (x : Val)
    (h : nextToken (itemsOf (text ++ t)) .eof loc = .token tv tloc (restAt L t) (itemsOf t) L)
    (ha : tokenAtom tv tloc = some x) :
    readChars (text ++ t) loc = .ok (x, restAt L t) := by
  rw [readChars, readInternal_ofChars]
  exact readLoop_atom _ text t loc L tloc tv x h ha []

theorem readableSym_iff (s : List Char) (hs : ReadableSym s = true) :
    ∃ c rest, s = c :: rest ∧ (∀ x ∈ c :: rest, isDelimiter x = false ∧ x ≠ '\\') ∧ c ≠ '%' ∧ isAsciiDigit c = false ∧
      ((c = '+' ∨ c = '-') → digitAfterSigns rest = false) := by
  cases s with
  | nil => cases hs
  | cons c rest =>
    refine ⟨c, rest, rfl, ?_⟩
    simp only [ReadableSym, Bool.and_eq_true, List.all_eq_true, Bool.not_eq_true', bne_iff_ne, ne_eq,
      Bool.and_eq_false_iff, Bool.or_eq_false_iff, beq_eq_false_iff_ne] at hs
    obtain ⟨⟨⟨h1, h2⟩, h3⟩, h4⟩ := hs
    refine ⟨h1, h2, h3, ?_⟩
    intro hsign
    rcases h4 with h4 | h4
    · rcases hsign with h | h
      · exact absurd h h4.1
      · exact absurd h h4.2
    · exact h4

end helpers

theorem char_roundtrip (c : Char) (t : List Char) (ht : EndsToken t) (loc : Loc) :
    ∃ v rest, readChars (printAtom (.chr c) ++ t) loc = .ok (v, rest) ∧ v.get = .chr c ∧ rest.string = .ofChars t := by
  exact ⟨_, _, readChars_atom _ t loc _ _ _ _ (tok_char c t (endsB_of_EndsToken ht) loc) rfl, rfl, rfl⟩

theorem int_roundtrip (n : Int) (hn : inRange n = true) (t : List Char) (ht : EndsToken t) (loc : Loc) :
    ∃ v rest, readChars (printAtom (.num n) ++ t) loc = .ok (v, rest) ∧ v.get = .num n ∧ rest.string = .ofChars t := by
  obtain ⟨tloc, h⟩ := tok_formatInt n hn t (endsB_of_EndsToken ht) loc
  exact ⟨_, _, readChars_atom _ t loc _ _ _ _ h rfl, rfl, rfl⟩

theorem sym_roundtrip (s : List Char) (hs : ReadableSym s = true) (t : List Char) (ht : EndsToken t) (loc : Loc) :
    ∃ v rest, readChars (printAtom (.symName s) ++ t) loc = .ok (v, rest) ∧ v.get = .sym (.named s) ∧ rest.string = .ofChars t := by
  obtain ⟨c, r, rfl, h1, h2, h3, h4⟩ := readableSym_iff s hs
  exact ⟨_, _, readChars_atom _ t loc _ _ _ _ (tok_symbol c r h1 h2 h3 h4 t (endsB_of_EndsToken ht) loc) rfl, rfl, rfl⟩

section helpers

theorem listToVec_ofList (vs : List Val) : listToVec (Val.ofList vs) = some vs := by
  induction vs with
  | nil => rfl
  | cons v vs ih => simp only [Val.ofList, listToVec, ih, Option.map_some]

theorem charsOf_map_chr (cs : List Char) : charsOf (cs.map Val.chr) = some cs := by
  induction cs with
  | nil => rfl
  | cons c cs ih => simp only [List.map_cons, charsOf, Val.get, ih, Option.map_some]

theorem listToString_ofString (cs : List Char) : listToString (.ofString cs) = some cs := by
  simp only [listToString, Val.ofString, listToVec, Val.ofChars, listToVec_ofList, Option.map_some, Val.isSymNamed,
    Val.symName, Val.get, beq_self_eq_true, if_true, charsOf_map_chr]

theorem listToString_md_ofString (cs : List Char) (m : Meta) : listToString (.md (.ofString cs) m) = some cs := by
  simp only [listToString, Val.ofString, listToVec, Val.ofChars, listToVec_ofList, Option.map_some, Val.isSymNamed,
    Val.symName, Val.get, beq_self_eq_true, if_true, charsOf_map_chr]

end helpers

/-- every string — quotes, backslashes, newlines, delimiters, any Unicode scalar inside — reads back as itself -/
theorem str_roundtrip (cs : List Char) (t : List Char) (loc : Loc) :
    ∃ v rest, readChars (printString cs ++ t) loc = .ok (v, rest) ∧ listToString v = some cs ∧ v.isNil = false ∧ rest.string = .ofChars t := by
  exact ⟨_, _, readChars_atom _ t loc _ _ _ _ (tok_string cs t loc) rfl, listToString_md_ofString cs _, rfl, rfl⟩

/-! ### the round trip -/

section helpers

mutual
def printed : Datum → List Char
  | .int n => formatInt n
  | .chr c => '%' :: charEscape c
  | .sym s => s
  | .str cs => printString cs
  | .list ds => printList (printedList ds)
def printedList : List Datum → List (List Char)
  | [] => []
  | d :: ds => printed d :: printedList ds
end

mutual
/-- the shape of a value that prints like the datum: the value handed to `print`, or the value read back
(atoms and strings inside a metadata cell, lists bare) -/
def Mirrors : Val → Datum → Prop
  | v, .int n => v = .num n ∨ ∃ m, v = .md (.num n) m
  | v, .chr c => v = .chr c ∨ ∃ m, v = .md (.chr c) m
  | v, .sym s => v = .symName s ∨ ∃ m, v = .md (.symName s) m
  | v, .str cs => v = .ofString cs ∨ ∃ m, v = .md (.ofString cs) m
  | v, .list ds => ∃ vs, v = Val.ofList vs ∧ MirrorsList vs ds
def MirrorsList : List Val → List Datum → Prop
  | vs, [] => vs = []
  | vs, d :: ds => ∃ v vs', vs = v :: vs' ∧ Mirrors v d ∧ MirrorsList vs' ds
end

theorem toVals_eq (ds : List Datum) : Datum.toVals ds = Val.ofList (ds.map Datum.toVal) := by
  induction ds with
  | nil => rfl
  | cons d ds ih => simp only [Datum.toVals, List.map_cons, Val.ofList, ih]

mutual
theorem mirrors_toVal : ∀ d : Datum, Mirrors d.toVal d
  | .int _ => Or.inl rfl
  | .chr _ => Or.inl rfl
  | .sym _ => Or.inl rfl
  | .str _ => Or.inl rfl
  | .list ds => ⟨_, toVals_eq ds, mirrorsList_toVal ds⟩
theorem mirrorsList_toVal : ∀ ds : List Datum, MirrorsList (ds.map Datum.toVal) ds
  | [] => rfl
  | d :: ds => ⟨_, _, rfl, mirrors_toVal d, mirrorsList_toVal ds⟩
end

mutual
theorem denotes_of_mirrors : ∀ (d : Datum) (v : Val), Mirrors v d → Denotes v d
  | .int n, v, h => by
    rcases h with rfl | ⟨m, rfl⟩ <;> rfl
  | .chr c, v, h => by
    rcases h with rfl | ⟨m, rfl⟩ <;> rfl
  | .sym s, v, h => by
    rcases h with rfl | ⟨m, rfl⟩ <;> rfl
  | .str cs, v, h => by
    rcases h with rfl | ⟨m, rfl⟩
    · exact ⟨listToString_ofString cs, rfl⟩
    · exact ⟨listToString_md_ofString cs m, rfl⟩
  | .list ds, v, h => by
    obtain ⟨vs, rfl, h⟩ := h
    exact denotesList_of_mirrors ds vs h
theorem denotesList_of_mirrors : ∀ (ds : List Datum) (vs : List Val), MirrorsList vs ds → DenotesList (Val.ofList vs) ds
  | [], vs, h => by
    cases h; rfl
  | d :: ds, vs, h => by
    obtain ⟨v, vs', rfl, h1, h2⟩ := h
    exact ⟨v, Val.ofList vs', rfl, denotes_of_mirrors d v h1, denotesList_of_mirrors ds vs' h2⟩
end


def isChrD : Datum → Bool
  | .chr _ => true
  | _ => false

/-- neither a character nor a symbol behind the metadata -/
def Plain (v : Val) : Prop := (∀ c, v.get ≠ .chr c) ∧ (∀ s, v.get ≠ .sym s)

theorem plain_ofList (vs : List Val) : Plain (Val.ofList vs) := by
  cases vs <;> constructor <;> intro _ h <;> cases h

theorem get_of_mirrors (v : Val) (d : Datum) (h : Mirrors v d) :
    match d with
    | .chr c => v.get = .chr c
    | .sym s => v.get = .sym (.named s)
    | _ => Plain v := by
  cases d with
  | int n => rcases h with rfl | ⟨m, rfl⟩ <;> constructor <;> intro _ h <;> cases h
  | chr c => rcases h with rfl | ⟨m, rfl⟩ <;> rfl
  | sym s => rcases h with rfl | ⟨m, rfl⟩ <;> rfl
  | str cs => rcases h with rfl | ⟨m, rfl⟩ <;> constructor <;> intro _ h <;> cases h
  | list ds => obtain ⟨vs, rfl, -⟩ := h; exact plain_ofList vs

theorem charsOf_cons_chr {v : Val} {c : Char} (h : v.get = .chr c) (vs : List Val) :
    charsOf (v :: vs) = (charsOf vs).map (c :: ·) := by
  rw [charsOf, h]

theorem charsOf_cons_sym {v : Val} {s : Sym} (h : v.get = .sym s) (vs : List Val) : charsOf (v :: vs) = none := by
  rw [charsOf, h]

theorem charsOf_cons_plain {v : Val} (h : Plain v) (vs : List Val) : charsOf (v :: vs) = none := by
  rw [charsOf]
  split
  · rename_i c hc; exact absurd hc (h.1 c)
  · rfl

theorem isSymNamed_sym {v : Val} {s : Name} (h : v.get = .sym (.named s)) (n : Name) : v.isSymNamed n = (s == n) := by
  rw [Val.isSymNamed, h]

theorem isSymNamed_chr {v : Val} {c : Char} (h : v.get = .chr c) (n : Name) : v.isSymNamed n = false := by
  rw [Val.isSymNamed, h]

theorem isSymNamed_plain {v : Val} (h : Plain v) (n : Name) : v.isSymNamed n = false := by
  rw [Val.isSymNamed]
  split
  · rename_i m hm; exact absurd hm (h.2 _)
  · rfl

theorem charsOf_none (ds : List Datum) (vs : List Val) (h : MirrorsList vs ds) (hc : ds.all isChrD = false) :
    charsOf vs = none := by
  induction ds generalizing vs with
  | nil => cases hc
  | cons d ds ih =>
    obtain ⟨v, vs', rfl, h1, h2⟩ := h
    have hg := get_of_mirrors v d h1
    cases d with
    | chr c =>
      simp only [List.all_cons, isChrD, Bool.true_and] at hc
      rw [charsOf_cons_chr hg, ih vs' h2 hc, Option.map_none]
    | sym s => exact charsOf_cons_sym hg _
    | int n => exact charsOf_cons_plain hg _
    | str cs => exact charsOf_cons_plain hg _
    | list ds' => exact charsOf_cons_plain hg _

theorem stringLike_eq (ds : List Datum) :
    stringLike ds = match ds with
      | [] => false
      | .sym s :: rest => s == cs!"list" && rest.all isChrD
      | ds => ds.all isChrD := by
  cases ds with
  | nil => rfl
  | cons d ds => cases d <;> rfl

theorem listToString_ofList_cons (v : Val) (vs : List Val) :
    listToString (Val.ofList (v :: vs)) = if v.isSymNamed cs!"list" then charsOf vs else charsOf (v :: vs) := by
  simp only [listToString, listToVec_ofList]

theorem listToString_none (ds : List Datum) (vs : List Val) (h : MirrorsList vs ds) (hs : stringLike ds = false)
    (hne : ds ≠ []) : listToString (Val.ofList vs) = none := by
  cases ds with
  | nil => exact absurd rfl hne
  | cons d ds =>
    obtain ⟨v, vs', rfl, h1, h2⟩ := h
    have hg := get_of_mirrors v d h1
    have hall : ∀ d', isChrD d' = false → (d' :: ds).all isChrD = false := by
      intro d' hd'; simp only [List.all_cons, hd', Bool.false_and]
    rw [stringLike_eq] at hs
    rw [listToString_ofList_cons]
    cases d with
    | sym s =>
      rw [isSymNamed_sym hg]
      simp only [Bool.and_eq_false_iff] at hs
      by_cases hl : (s == cs!"list") = true
      · rw [if_pos hl]
        rcases hs with hs | hs
        · rw [hs] at hl; cases hl
        · exact charsOf_none ds vs' h2 hs
      · rw [if_neg hl]; exact charsOf_cons_sym hg _
    | chr c =>
      rw [isSymNamed_chr hg, if_neg Bool.false_ne_true]
      exact charsOf_none (.chr c :: ds) (v :: vs') ⟨v, vs', rfl, h1, h2⟩ hs
    | int n =>
      rw [isSymNamed_plain hg, if_neg Bool.false_ne_true]; exact charsOf_cons_plain hg _
    | str cs =>
      rw [isSymNamed_plain hg, if_neg Bool.false_ne_true]; exact charsOf_cons_plain hg _
    | list ds' =>
      rw [isSymNamed_plain hg, if_neg Bool.false_ne_true]; exact charsOf_cons_plain hg _


theorem ok_list_iff (k : Nat) (ds : List Datum) (h : Datum.ok k (.list ds) = true) :
    ∃ k', k = k' + 1 ∧ stringLike ds = false ∧ Datum.okList k' ds = true := by
  cases k with
  | zero => simp only [Datum.ok] at h; cases h
  | succ k' =>
    simp only [Datum.ok, Bool.and_eq_true, Bool.not_eq_true'] at h
    exact ⟨k', rfl, h.1, h.2⟩

mutual
theorem print_mirrors : ∀ (d : Datum) (v : Val) (k fuel depth : Nat), Mirrors v d → Datum.ok k d = true →
    depth + k ≤ Config.maxRecursionDepth → k + 1 ≤ fuel → printInternal fuel v depth = .ok (printed d)
  | .int n, v, k, fuel, depth, h, _, hdep, hf => by
    obtain ⟨f, rfl⟩ : ∃ f, fuel = f + 1 := ⟨fuel - 1, by omega⟩
    have hd : ¬ depth > Config.maxRecursionDepth := by omega
    rcases h with rfl | ⟨m, rfl⟩ <;>
      simp only [printInternal, if_neg hd, Val.isNil, listToString, listToVec, printAtom, printed, Bool.false_eq_true, if_false]
  | .chr c, v, k, fuel, depth, h, _, hdep, hf => by
    obtain ⟨f, rfl⟩ : ∃ f, fuel = f + 1 := ⟨fuel - 1, by omega⟩
    have hd : ¬ depth > Config.maxRecursionDepth := by omega
    rcases h with rfl | ⟨m, rfl⟩ <;>
      simp only [printInternal, if_neg hd, Val.isNil, listToString, listToVec, printAtom, printed, Bool.false_eq_true, if_false]
  | .sym s, v, k, fuel, depth, h, _, hdep, hf => by
    obtain ⟨f, rfl⟩ : ∃ f, fuel = f + 1 := ⟨fuel - 1, by omega⟩
    have hd : ¬ depth > Config.maxRecursionDepth := by omega
    rcases h with rfl | ⟨m, rfl⟩ <;>
      simp only [printInternal, if_neg hd, Val.isNil, Val.symName, listToString, listToVec, printAtom, Sym.print, printed,
        Bool.false_eq_true, if_false]
  | .str cs, v, k, fuel, depth, h, _, hdep, hf => by
    obtain ⟨f, rfl⟩ : ∃ f, fuel = f + 1 := ⟨fuel - 1, by omega⟩
    have hd : ¬ depth > Config.maxRecursionDepth := by omega
    rcases h with rfl | ⟨m, rfl⟩
    · rw [printInternal, if_neg hd, listToString_ofString]; rfl
    · rw [printInternal, if_neg hd, listToString_md_ofString]; rfl
  | .list ds, v, k, fuel, depth, h, hok, hdep, hf => by
    have ih := print_mirrorsList ds
    obtain ⟨vs, rfl, hm⟩ := h
    obtain ⟨k', rfl, hsl, hokl⟩ := ok_list_iff k ds hok
    obtain ⟨f, rfl⟩ : ∃ f, fuel = f + 1 := ⟨fuel - 1, by omega⟩
    have hd : ¬ depth > Config.maxRecursionDepth := by omega
    rw [printInternal, if_neg hd]
    cases ds with
    | nil => cases hm; rfl
    | cons d ds =>
      have hnone := listToString_none (d :: ds) vs hm hsl (List.cons_ne_nil _ _)
      obtain ⟨v, vs', rfl, h1, h2⟩ := hm
      rw [show (Val.ofList (v :: vs')).isNil = false from rfl]
      simp only [Bool.false_eq_true, if_false, hnone, listToVec_ofList]
      rw [ih (v :: vs') k' f (depth + 1) ⟨v, vs', rfl, h1, h2⟩ hokl (by omega) (by omega)]
      simp only [printed]
theorem print_mirrorsList : ∀ (ds : List Datum) (vs : List Val) (k fuel depth : Nat), MirrorsList vs ds →
    Datum.okList k ds = true → depth + k ≤ Config.maxRecursionDepth → k + 1 ≤ fuel →
    collectTexts (vs.map fun x => printInternal fuel x depth) = some (printedList ds)
  | [], vs, k, fuel, depth, h, _, _, _ => by
    cases h; rfl
  | d :: ds, vs, k, fuel, depth, h, hok, hdep, hf => by
    obtain ⟨v, vs', rfl, h1, h2⟩ := h
    simp only [Datum.okList, Bool.and_eq_true] at hok
    simp only [List.map_cons, print_mirrors d v k fuel depth h1 hok.1 hdep hf, collectTexts,
      print_mirrorsList ds vs' k fuel depth h2 hok.2 hdep hf, Option.map_some, printedList]
end


/-- the text of a list after the opening parenthesis (`first`) or after an element: the remaining elements, each
after one space except the first of the list, and the closing parenthesis -/
def elemsText (first : Bool) : List (List Char) → List Char
  | [] => [')']
  | x :: xs => (if first then [] else [' ']) ++ (x ++ elemsText false xs)

theorem joinSpace_close (x : List Char) (xs : List (List Char)) :
    joinSpace (x :: xs) ++ [')'] = x ++ elemsText false xs := by
  induction xs generalizing x with
  | nil => rfl
  | cons y ys ih =>
    show (x ++ ' ' :: joinSpace (y :: ys)) ++ [')'] = x ++ ([' '] ++ (y ++ elemsText false ys))
    rw [List.append_assoc, List.cons_append, ih]
    rfl

theorem printList_eq (xs : List (List Char)) : printList xs = '(' :: elemsText true xs := by
  cases xs with
  | nil => rfl
  | cons x xs => rw [printList, joinSpace_close]; rfl

theorem endsB_elemsText_false (xs : List (List Char)) (t : List Char) : endsB (elemsText false xs ++ t) = true := by
  cases xs <;> rfl

mutual
/-- the number of tokens of the printed datum -/
def ntok : Datum → Nat
  | .int _ => 1
  | .chr _ => 1
  | .sym _ => 1
  | .str _ => 1
  | .list ds => ntoks ds + 2
def ntoks : List Datum → Nat
  | [] => 0
  | d :: ds => ntok d + ntoks ds
end

theorem formatInt_length (n : Int) : 1 ≤ (formatInt n).length := by
  unfold formatInt
  split
  · simp only [List.length_cons]; omega
  · cases h : Nat.toDigits 10 n.toNat with
    | nil => exact absurd h Nat.toDigits_ne_nil
    | cons d ds => simp only [List.length_cons]; omega

mutual
theorem ntok_le : ∀ (d : Datum) (k : Nat), Datum.ok k d = true → ntok d ≤ (printed d).length
  | .int n, _, _ => formatInt_length n
  | .chr c, _, _ => by simp only [ntok, printed, List.length_cons]; omega
  | .sym s, _, h => by
    obtain ⟨c, r, rfl, -⟩ := readableSym_iff s h
    simp only [ntok, printed, List.length_cons]; omega
  | .str cs, _, _ => by simp only [ntok, printed, printString, List.length_cons]; omega
  | .list ds, k, h => by
    obtain ⟨k', rfl, -, hokl⟩ := ok_list_iff k ds h
    have := ntoks_le ds k' hokl true
    simp only [ntok, printed, printList_eq, List.length_cons]
    omega
theorem ntoks_le : ∀ (ds : List Datum) (k : Nat), Datum.okList k ds = true → ∀ first : Bool,
    ntoks ds + 1 ≤ (elemsText first (printedList ds)).length
  | [], _, _, _ => by simp only [ntoks, printedList, elemsText, List.length_cons, List.length_nil]; omega
  | d :: ds, k, h, first => by
    simp only [Datum.okList, Bool.and_eq_true] at h
    have h1 := ntok_le d k h.1
    have h2 := ntoks_le ds k h.2 false
    simp only [ntoks, printedList, elemsText, List.length_append]
    omega
end


theorem elemsText_cons_false (x : List Char) (xs : List (List Char)) :
    elemsText false (x :: xs) = ' ' :: (x ++ elemsText false xs) := rfl

theorem elemsText_cons_true (x : List Char) (xs : List (List Char)) :
    elemsText true (x :: xs) = x ++ elemsText false xs := rfl

mutual
/-- reading the printed datum followed by `t` continues like reading `t` after the datum has been delivered -/
theorem read_datum : ∀ (d : Datum) (k : Nat), Datum.ok k d = true → ∀ (t : List Char), endsB t = true →
    ∀ (fuel : Nat) (loc : Loc) (S : List (List Val)),
    ∃ v L, Mirrors v d ∧
      readLoop (fuel + ntok d) (itemsOf (printed d ++ t)) .eof loc (frames S) false = deliver fuel t L S v
  | .int n, _, h, t, ht, fuel, loc, S => by
    obtain ⟨tloc, htok⟩ := tok_formatInt n h t ht loc
    exact ⟨_, _, Or.inr ⟨_, rfl⟩, readLoop_atom fuel _ t loc _ _ _ _ htok rfl S⟩
  | .chr c, _, _, t, ht, fuel, loc, S =>
    ⟨_, _, Or.inr ⟨_, rfl⟩, readLoop_atom fuel _ t loc _ _ _ _ (tok_char c t ht loc) rfl S⟩
  | .sym s, _, h, t, ht, fuel, loc, S => by
    obtain ⟨c, r, rfl, h1, h2, h3, h4⟩ := readableSym_iff s h
    exact ⟨_, _, Or.inr ⟨_, rfl⟩, readLoop_atom fuel _ t loc _ _ _ _ (tok_symbol c r h1 h2 h3 h4 t ht loc) rfl S⟩
  | .str cs, _, _, t, _, fuel, loc, S =>
    ⟨_, _, Or.inr ⟨_, rfl⟩, readLoop_atom fuel _ t loc _ _ _ _ (tok_string cs t loc) rfl S⟩
  | .list ds, k, h, t, _, fuel, loc, S => by
    obtain ⟨k', rfl, -, hokl⟩ := ok_list_iff k ds h
    obtain ⟨vs, L, hm, hr⟩ := read_elems ds k' hokl t fuel (loc.step '(') [] S true
    refine ⟨Val.ofList vs, L, ⟨vs, rfl, hm⟩, ?_⟩
    have e : fuel + ntok (.list ds) = (fuel + ntoks ds + 1) + 1 := by simp only [ntok]; omega
    rw [e, printed, printList_eq, List.cons_append, readLoop_open, hr]
    rfl
/-- reading the rest of a list: the remaining elements and the closing parenthesis -/
theorem read_elems : ∀ (ds : List Datum) (k : Nat), Datum.okList k ds = true → ∀ (t : List Char)
    (fuel : Nat) (loc : Loc) (vec : List Val) (S : List (List Val)) (first : Bool),
    ∃ vs L, MirrorsList vs ds ∧
      readLoop (fuel + ntoks ds + 1) (itemsOf (elemsText first (printedList ds) ++ t)) .eof loc (frames (vec :: S)) false =
        deliver fuel t L S (Val.ofList (vec.reverse ++ vs))
  | [], _, _, t, fuel, loc, vec, S, first => by
    refine ⟨[], loc.step ')', ?_, ?_⟩
    · rfl
    · rw [List.append_nil]
      exact readLoop_close fuel t loc vec S
  | d :: ds, k, h, t, fuel, loc, vec, S, first => by
    simp only [Datum.okList, Bool.and_eq_true] at h
    have key : ∀ loc', ∃ vs L, MirrorsList vs (d :: ds) ∧
        readLoop (fuel + ntoks (d :: ds) + 1) (itemsOf (printed d ++ (elemsText false (printedList ds) ++ t))) .eof loc'
          (frames (vec :: S)) false = deliver fuel t L S (Val.ofList (vec.reverse ++ vs)) := by
      intro loc'
      obtain ⟨v, L1, hv, hr1⟩ := read_datum d k h.1 (elemsText false (printedList ds) ++ t)
        (endsB_elemsText_false _ _) (fuel + ntoks ds + 1) loc' (vec :: S)
      obtain ⟨vs, L2, hvs, hr2⟩ := read_elems ds k h.2 t fuel L1 (v :: vec) S false
      refine ⟨v :: vs, L2, ⟨v, vs, rfl, hv, hvs⟩, ?_⟩
      have e : fuel + ntoks (d :: ds) + 1 = (fuel + ntoks ds + 1) + ntok d := by simp only [ntoks]; omega
      rw [e, hr1]
      show readLoop (fuel + ntoks ds + 1) _ .eof L1 (frames ((v :: vec) :: S)) false = _
      rw [hr2]
      simp only [List.reverse_cons, List.append_assoc, List.singleton_append]
    cases first
    · obtain ⟨vs, L, hm, hr⟩ := key (loc.step ' ')
      refine ⟨vs, L, hm, ?_⟩
      rw [printedList, elemsText_cons_false, List.cons_append, readLoop_space, List.append_assoc]
      exact hr
    · obtain ⟨vs, L, hm, hr⟩ := key loc
      refine ⟨vs, L, hm, ?_⟩
      rw [printedList, elemsText_cons_true, List.append_assoc]
      exact hr
end

end helpers

/-- THE theorem: the printed text of a well-formed datum nested at most `maxRecursionDepth - 2` deep reads back as exactly
one datum denoting the original, leaving exactly what followed (`t`), and prints again to the same text -/
theorem print_read (d : Datum) (k : Nat) (hk : k + 2 ≤ Config.maxRecursionDepth) (hd : Datum.ok k d = true)
    (t : List Char) (ht : EndsToken t) (loc : Loc) :
    ∃ text v rest, printAt d.toVal 1 = .ok text ∧ readChars (text ++ t) loc = .ok (v, rest) ∧
      Denotes v d ∧ rest.string = .ofChars t ∧ printAt v 1 = .ok text := by
  have hm := mirrors_toVal d
  have hp : ∀ v, Mirrors v d → printAt v 1 = .ok (printed d) := fun v hv =>
    print_mirrors d v k _ 1 hv hd (by omega) (by omega)
  have hlen := ntok_le d k hd
  obtain ⟨fuel, hfuel⟩ : ∃ fuel, (printed d ++ t).length + 1 = fuel + ntok d :=
    ⟨(printed d ++ t).length + 1 - ntok d, by rw [List.length_append]; omega⟩
  obtain ⟨v, L, hv, hr⟩ := read_datum d k hd t (endsB_of_EndsToken ht) fuel loc []
  refine ⟨printed d, v, restAt L t, hp _ hm, ?_, denotes_of_mirrors d v hv, rfl, hp v hv⟩
  rw [readChars, readInternal_ofChars, hfuel]
  exact hr

/-- the side conditions are necessary: names outside `ReadableSym` do not come back as one symbol -/
theorem unreadable_symbol_witness :
    ¬ ∃ v rest, readChars (printAtom (.symName cs!"a b")) ⟨.stdin, 1, 0⟩ = .ok (v, rest) ∧ v.get = .sym (.named cs!"a b") ∧ rest.string = .ofChars [] := by
  rintro ⟨v, rest, h1, h2, -⟩
  have h : (match readChars (printAtom (.symName cs!"a b")) ⟨.stdin, 1, 0⟩ with
            | .ok (v, _) => v.get == .sym (.named cs!"a") | _ => false) = true := by decide +kernel
  rw [h1] at h
  simp only [h2] at h
  revert h
  decide

/-- a sign, a run of `+ - %`, then a digit: not a `ReadableSym`, and indeed the reader rejects the text (as an invalid number) -/
example : ReadableSym cs!"+-1" = false ∧ ReadableSym cs!"-%1" = false ∧ ReadableSym cs!"+-" = true ∧ ReadableSym cs!"-a1" = true := by decide
example : (match readChars (printAtom (.symName cs!"+-1")) ⟨.stdin, 1, 0⟩ with | .ok _ => true | .error _ => false) = false := by
  decide +kernel

/-! non-vacuity: the witnesses of the two original defects, now round-tripping -/
example : (match readChars (printString cs!"a\\b\"c") ⟨.stdin, 1, 0⟩ with
           | .ok (v, _) => listToString v == some cs!"a\\b\"c" | _ => false) = true := by decide +kernel
example : (match readChars (printAtom (.chr '(')) ⟨.stdin, 1, 0⟩ with
           | .ok (v, _) => v.get == .chr '(' | _ => false) = true := by decide +kernel
example : Datum.ok 3 (.list [.int 1, .str cs!"x", .list [.sym cs!"a", .chr ')']]) = true := by decide

end Pici.C10
