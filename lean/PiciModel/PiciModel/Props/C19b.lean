/-
C19 (blocked input) — An evaluation BLOCKED waiting for input is stopped by a command.

`(input-file *stdin*)` on a standard input that can time out (`inputStdin` in `Model/Natives.lean`, mirroring the
`ErrorKind::TimedOut` arm of `src/native/io/mod.rs`; only the in-process pipe of the GUI times out): `timeoutChunk` among
`St.stdinChunks` stands for "this read timed out".  At every time-out that comes before the current line is complete
(`firstTimeout … = some (before, after)`) the debugger channel is polled:

* INTERRUPT raises `(kind interrupted source input-file)` — an error property list, hence trappable;
* ABORT aborts (`.err .nil`), which no trap intercepts;
* any other command is consumed and ignored, nothing pending or no debugger: the wait goes on;
* with no time-out ahead the primitive is the `St.readLine` of `Props/C18.lean`, unchanged.

What was already read of the line when the evaluation is stopped is lost (`stdinBuf := []`, the chunks before the marker
are gone): a half-typed line does not survive an INTERRUPT.
-/
import PiciModel.Props.C19
import PiciModel.Props.C08
import PiciModel.Lemmas.InputStdin
import PiciModel.Lemmas.Stdin

namespace Pici.C19
open Pici

/-- the signal of an interrupted `input-file` -/
theorem interrupted_inputFile : interrupted cs!"input-file" = makeError cs!"interrupted" cs!"input-file" [] := rfl

/-- `(input-file *stdin*)` is `inputStdin`, with one unit of fuel per chunk and one to spare -/
theorem inputFile_stdin (st : St) (src : Val) (d : Nat) (hsrc : src.isSymNamed cs!"*stdin*" = true) :
    simpleNative .inputFile [src] d st = inputStdin (st.stdinChunks.length + 1) st := by
  simp only [simpleNative, arity1, hsrc, if_true]

/-- the fuel of `inputStdin` does not matter once there is one unit per chunk (at most one time-out per chunk) -/
theorem inputStdin_fuel_irrelevant (n m : Nat) (st : St) (hn : st.stdinChunks.length ≤ n) (hm : st.stdinChunks.length ≤ m) :
    inputStdin n st = inputStdin m st :=
  Pici.inputStdin_fuel_irrelevant n m st hn hm

/-- … so `(input-file *stdin*)` is `inputStdin` at any such fuel -/
theorem inputFile_stdin_fuel (st : St) (src : Val) (d n : Nat) (hsrc : src.isSymNamed cs!"*stdin*" = true)
    (hn : st.stdinChunks.length ≤ n) : simpleNative .inputFile [src] d st = inputStdin n st := by
  rw [inputFile_stdin st src d hsrc]
  exact Pici.inputStdin_fuel_irrelevant _ _ st (by omega) hn

/-- BLOCKED, INTERRUPT.  The line is not complete, the next thing that happens is a time-out, a debugger is attached and
its first pending command is INTERRUPT: `(input-file *stdin*)` raises `(kind interrupted source input-file)`; the command
is consumed, what was read of the line is dropped, the input continues after the time-out.  The signal is an error
property list and is not nil: a trap catches it (`C08.trap_catches`, see `blocked_interrupt_is_caught`). -/
theorem blocked_input_interrupt (st : St) (src : Val) (d : Nat) (before after : List (List UInt8))
    (c : Command) (rest : List Command) (hsrc : src.isSymNamed cs!"*stdin*" = true) (ha : st.attached = true)
    (hft : firstTimeout st.stdinBuf st.stdinChunks = some (before, after))
    (hi : st.inbox = c :: rest) (hc : c.text = cs!"INTERRUPT") :
    simpleNative .inputFile [src] d st =
      (.err (makeError cs!"interrupted" cs!"input-file" []),
       { st with inbox := rest, stdinBuf := [], stdinChunks := after }) ∧
    C08.IsErrorPlist (makeError cs!"interrupted" cs!"input-file" []) ∧
    (makeError cs!"interrupted" cs!"input-file" []).isNil = false := by
  refine ⟨?_, ⟨_, _, _, rfl⟩, makeError_isNil _ _ _⟩
  rw [inputFile_stdin st src d hsrc]
  exact inputStdin_interrupt _ st before after c rest hft ha hi hc

/-- BLOCKED, ABORT.  The same with ABORT pending: the outcome is `.err .nil`, the language's abort, which no trap
intercepts (`C08.abort_passes`, see `blocked_abort_passes`). -/
theorem blocked_input_abort (st : St) (src : Val) (d : Nat) (before after : List (List UInt8))
    (c : Command) (rest : List Command) (hsrc : src.isSymNamed cs!"*stdin*" = true) (ha : st.attached = true)
    (hft : firstTimeout st.stdinBuf st.stdinChunks = some (before, after))
    (hi : st.inbox = c :: rest) (hc : c.text = cs!"ABORT") :
    simpleNative .inputFile [src] d st =
      (.err .nil, { st with inbox := rest, stdinBuf := [], stdinChunks := after }) ∧
    (Val.nil).isNil = true := by
  refine ⟨?_, rfl⟩
  rw [inputFile_stdin st src d hsrc]
  exact inputStdin_abort _ st before after c rest hft ha hi hc

/-- BLOCKED, ANOTHER COMMAND.  Any other command is consumed and the wait goes on: the outcome is that of
`(input-file *stdin*)` in the state with the command consumed and that time-out marker removed. -/
theorem blocked_input_ignores (st : St) (src : Val) (d : Nat) (before after : List (List UInt8))
    (c : Command) (rest : List Command) (hsrc : src.isSymNamed cs!"*stdin*" = true) (ha : st.attached = true)
    (hft : firstTimeout st.stdinBuf st.stdinChunks = some (before, after))
    (hi : st.inbox = c :: rest) (h1 : c.text ≠ cs!"INTERRUPT") (h2 : c.text ≠ cs!"ABORT") :
    simpleNative .inputFile [src] d st =
      simpleNative .inputFile [src] d { st with inbox := rest, stdinChunks := before ++ after } := by
  have hlen := firstTimeout_length _ _ _ _ hft
  rw [inputFile_stdin st src d hsrc, inputStdin_other _ st before after c rest hft ha hi h1 h2]
  exact (inputFile_stdin_fuel _ src d _ hsrc (by dsimp only; omega)).symm

/-- BLOCKED, NOTHING TO DO.  No debugger, or a debugger with nothing pending: the time-out is simply skipped — the
outcome is that of `(input-file *stdin*)` in the state with that marker removed. -/
theorem blocked_input_waits (st : St) (src : Val) (d : Nat) (before after : List (List UInt8))
    (hsrc : src.isSymNamed cs!"*stdin*" = true)
    (hft : firstTimeout st.stdinBuf st.stdinChunks = some (before, after))
    (hw : st.attached = false ∨ st.inbox = []) :
    simpleNative .inputFile [src] d st =
      simpleNative .inputFile [src] d { st with stdinChunks := before ++ after } := by
  have hlen := firstTimeout_length _ _ _ _ hft
  have hstep : inputStdin (st.stdinChunks.length + 1) st =
      inputStdin st.stdinChunks.length { st with stdinChunks := before ++ after } := by
    rcases hw with hw | hw
    · exact inputStdin_detached _ st before after hft hw
    · rcases Bool.eq_false_or_eq_true st.attached with hatt | hatt
      · exact inputStdin_nothing _ st before after hft hatt hw
      · exact inputStdin_detached _ st before after hft hatt
  rw [inputFile_stdin st src d hsrc, hstep]
  exact (inputFile_stdin_fuel _ src d _ hsrc (by dsimp only; omega)).symm

/-- NO TIME-OUT AHEAD.  When the current line is complete — or the input ends — before any time-out, the primitive is
exactly one `St.readLine`, as before: the theorems of `Props/C18.lean` about `readLine` still describe `input-file`. -/
theorem no_timeout_is_readLine (st : St) (src : Val) (d : Nat) (hsrc : src.isSymNamed cs!"*stdin*" = true)
    (hft : firstTimeout st.stdinBuf st.stdinChunks = none) :
    simpleNative .inputFile [src] d st =
      (match st.readLine with
       | (.line text, st1)   => (.ok (.ofChars text), st1)
       | (.eof, st1)         => (.err (makeError cs!"eof" cs!"input-file" []), st1)
       | (.invalidData, st1) => (.err (makeError cs!"cannot-read-file" cs!"input-file"
                                  [(cs!"details", .ofChars cs!"invalid data")]), st1)) := by
  rw [inputFile_stdin st src d hsrc]
  exact inputStdin_succ_none _ st hft

/-- in particular a standard input without any time-out marker is read by `St.readLine` -/
theorem no_marker_is_readLine (st : St) (src : Val) (d : Nat) (hsrc : src.isSymNamed cs!"*stdin*" = true)
    (hnm : timeoutChunk ∉ st.stdinChunks) :
    simpleNative .inputFile [src] d st =
      (match st.readLine with
       | (.line text, st1)   => (.ok (.ofChars text), st1)
       | (.eof, st1)         => (.err (makeError cs!"eof" cs!"input-file" []), st1)
       | (.invalidData, st1) => (.err (makeError cs!"cannot-read-file" cs!"input-file"
                                  [(cs!"details", .ofChars cs!"invalid data")]), st1)) := by
  refine no_timeout_is_readLine st src d hsrc ?_
  have hin : ∀ (chunks seen : List (List UInt8)), timeoutChunk ∉ chunks → firstTimeoutIn chunks seen = none := by
    intro chunks
    induction chunks with
    | nil => intro _ _; rfl
    | cons c cs ih =>
      intro seen hm
      rw [firstTimeoutIn, if_neg (fun h : c = timeoutChunk => hm (by subst h; exact List.mem_cons_self))]
      split
      · rfl
      · split
        · rfl
        · exact ih _ (fun h => hm (List.mem_cons_of_mem _ h))
  unfold firstTimeout
  split
  · rfl
  · exact hin _ _ hnm

/-- A HALF-TYPED LINE.  Part of a line has arrived (a non-empty chunk without a newline), then the read times out: the
partial line does not prevent the poll — with INTERRUPT pending the outcome is the interrupted error, and the partial line
is lost. -/
theorem interrupt_even_after_partial_line (st : St) (src : Val) (d : Nat) (asciiData : List UInt8)
    (more : List (List UInt8)) (c : Command) (rest : List Command)
    (hsrc : src.isSymNamed cs!"*stdin*" = true) (ha : st.attached = true)
    (hbuf : st.stdinBuf = []) (hch : st.stdinChunks = asciiData :: timeoutChunk :: more)
    (hne : asciiData ≠ []) (hnl : (10 : UInt8) ∉ asciiData) (hnt : asciiData ≠ timeoutChunk)
    (hi : st.inbox = c :: rest) (hc : c.text = cs!"INTERRUPT") :
    simpleNative .inputFile [src] d st =
      (.err (makeError cs!"interrupted" cs!"input-file" []),
       { st with inbox := rest, stdinBuf := [], stdinChunks := more }) := by
  have hsplit : splitAfterNewline asciiData = none := (splitAfterNewline_eq_none_iff asciiData).mpr hnl
  have hft : firstTimeout st.stdinBuf st.stdinChunks = some ([asciiData], more) := by
    rw [hbuf, hch]
    simp [firstTimeout, firstTimeoutIn, splitAfterNewline, hne, hnt, hsplit]
  exact (blocked_input_interrupt st src d [asciiData] more c rest hsrc ha hft hi hc).1

/-! ### the two outcomes under a trap -/

/-- the interrupted `input-file` inside the normal body of a trap: control goes to the handler, with
`*trapped-signal*` bound to the signal -/
theorem blocked_interrupt_is_caught (fuel : Nat) (st st1 st2 : St) (e n h env : Val) (mod : Name) (d : Nat)
    (he : C08.IsTrap e n h) (hd : d ≤ Config.maxRecursionDepth) (hpoll : pollDebugger st = (none, st1))
    (hbody : evalInternal fuel st1 n env mod (d + 1) = (.err (makeError cs!"interrupted" cs!"input-file" []), st2)) :
    evalInternal (fuel + 1) st e env mod d =
      evalInternal fuel st2 h
        (.cons (.cons (.symName cs!"*trapped-signal*") (makeError cs!"interrupted" cs!"input-file" [])) env) mod (d + 1) :=
  C08.trap_catches fuel st st1 st2 e n h env mod d _ he hd hpoll hbody (makeError_isNil _ _ _)

/-- the aborted `input-file` inside the normal body of a trap: the abort passes through -/
theorem blocked_abort_passes (fuel : Nat) (st st1 st2 : St) (e n h env : Val) (mod : Name) (d : Nat)
    (he : C08.IsTrap e n h) (hd : d ≤ Config.maxRecursionDepth) (hpoll : pollDebugger st = (none, st1))
    (hbody : evalInternal fuel st1 n env mod (d + 1) = (.err .nil, st2)) :
    evalInternal (fuel + 1) st e env mod d = (.err .nil, st2) :=
  C08.abort_passes fuel st st1 st2 e n h env mod d _ he hd hpoll hbody rfl

/-- afterwards the interpreter still has its global definitions, its current module, its output and its link -/
theorem usable_after_blocked_input (st : St) (src : Val) (d : Nat) :
    (simpleNative .inputFile [src] d st).2.modules = st.modules ∧
    (simpleNative .inputFile [src] d st).2.current = st.current ∧
    (simpleNative .inputFile [src] d st).2.out = st.out ∧
    (simpleNative .inputFile [src] d st).2.attached = st.attached ∧
    (simpleNative .inputFile [src] d st).2.sent = st.sent := by
  simp only [simpleNative, arity1]
  split
  · obtain ⟨buf, chunks, inbox, h⟩ := inputStdin_frame (st.stdinChunks.length + 1) st
    rw [h]
    exact ⟨rfl, rfl, rfl, rfl, rfl⟩
  · split <;> exact ⟨rfl, rfl, rfl, rfl, rfl⟩

/-! ### non-vacuity: "ab", a time-out, then "c\n" -/

/- decidable equality of outcomes, for the examples below (`Val` has it already) -/
deriving instance DecidableEq for Command, Module, St, Res

/-- a debugger attached; the chunk "ab" has arrived, the next read times out, then "c\n" arrives -/
def blockedSt (inbox : List Command) : St :=
  { (default : St) with attached := true, inbox := inbox, stdinChunks := [[97, 98], timeoutChunk, [99, 10]] }

example : firstTimeout (blockedSt []).stdinBuf (blockedSt []).stdinChunks = some ([[97, 98]], [[99, 10]]) := by
  decide +kernel

/-- INTERRUPT pending: interrupted; "ab" is lost, "c\n" is still to come -/
example : simpleNative .inputFile [.symName cs!"*stdin*"] 0 (blockedSt [⟨0, cs!"INTERRUPT"⟩]) =
    (.err (makeError cs!"interrupted" cs!"input-file" []),
     { blockedSt [] with stdinBuf := [], stdinChunks := [[99, 10]] }) := by decide +kernel

/-- ABORT pending: the abort -/
example : simpleNative .inputFile [.symName cs!"*stdin*"] 0 (blockedSt [⟨0, cs!"ABORT"⟩]) =
    (.err .nil, { blockedSt [] with stdinBuf := [], stdinChunks := [[99, 10]] }) := by decide +kernel

/-- another command: consumed, and the line "abc\n" is delivered -/
example : simpleNative .inputFile [.symName cs!"*stdin*"] 0 (blockedSt [⟨0, cs!"STEP-IN"⟩]) =
    (.ok (.ofChars cs!"abc\n"), { blockedSt [] with stdinBuf := [], stdinChunks := [] }) := by decide +kernel

/-- nothing pending: the line "abc\n" is delivered -/
example : simpleNative .inputFile [.symName cs!"*stdin*"] 0 (blockedSt []) =
    (.ok (.ofChars cs!"abc\n"), { blockedSt [] with stdinBuf := [], stdinChunks := [] }) := by decide +kernel

/-- the same input read by `readLine` alone would have taken the marker for data -/
example : (blockedSt []).readLine.1 matches .invalidData := by decide +kernel

end Pici.C19
