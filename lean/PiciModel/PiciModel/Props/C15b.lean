/-
C15 (continued) — loading a source under the name of an existing module REPLACES that module (`Memory::define_module`):
the module starts empty, so no definition of the replaced module can be reached through the table any more, and no other
module is touched.  (Seed r3c01 kept a raw reference to a replaced definition; this is the model-side statement of what
must hold.)
-/
import PiciModel.Props.C15

namespace Pici.C15
open Pici

/-- after `define_module name` the table's module of that name is the fresh, empty one -/
theorem defineModule_fresh (st : St) (name : Name) :
    (st.defineModule name).modules.find? (·.name == name) = some ⟨name, [], none⟩ :=
  find_putModule_self st.modules ⟨name, [], none⟩

/-- every other module is untouched -/
theorem defineModule_others (st : St) (name other : Name) (h : other ≠ name) :
    (st.defineModule name).modules.find? (·.name == other) = st.modules.find? (·.name == other) :=
  find_putModule_ne st.modules ⟨name, [], none⟩ other h

/-- a fresh module defines nothing: whatever the old module of that name held is not visible through it, from anywhere -/
theorem fresh_module_defines_nothing (name n home : Name) : (⟨name, [], none⟩ : Module).get n home = none := by
  simp [Module.get]

/-- the current module after `define_module` is the new one -/
theorem defineModule_current (st : St) (name : Name) : (st.defineModule name).current = name := rfl

end Pici.C15
