/-
C13 — `=` is a structural equivalence on data and ignores source metadata.

Theorems about `equalInternal` (`Model/Natives.lean`, mirroring `equal_internal` of `src/native/misc/mod.rs`)
for ALL pairs and triples of data: atoms of every type, proper and improper lists, strings, nested to any
depth, with and without metadata wrappers.
-/
import PiciModel.Model.Natives
import PiciModel.Lemmas.Equal

namespace Pici.C13
open Pici

mutual
/-- a datum without a metadata wrapper at the top: free of functions and traps -/
inductive Plain : Val → Prop where
  | nil : Plain .nil
  | num (n : Int) : Plain (.num n)
  | chr (c : Char) : Plain (.chr c)
  | sym (s : Sym) : Plain (.sym s)
  | cons (a d : Val) : Data a → Data d → Plain (.cons a d)
/-- a datum: plain, or a plain datum inside one metadata cell (metadata cells never nest) -/
inductive Data : Val → Prop where
  | plain (v : Val) : Plain v → Data v
  | wrapped (v : Val) (m : Meta) : Plain v → Data (.md v m)
end

/-! ### helper lemmas (they mention `Plain`/`Data`; the `Plain`/`Data`-free ones are in `Lemmas/Equal.lean`) -/
section helpers

theorem Plain.cons_inv {a d : Val} (h : Plain (.cons a d)) : Data a ∧ Data d := by
  cases h; exact ⟨‹_›, ‹_›⟩

theorem Data.cons_inv {a d : Val} (h : Data (.cons a d)) : Data a ∧ Data d := by
  cases h with
  | plain _ h => exact h.cons_inv

theorem Data.md_inv {v : Val} {m : Meta} (h : Data (.md v m)) : Plain v := by
  cases h with
  | plain _ h => cases h
  | wrapped _ _ h => exact h

theorem Plain.get_eq {p : Val} (h : Plain p) : p.get = p := by
  cases h <;> rfl

theorem Plain.listToVec_md {p : Val} (h : Plain p) (m : Meta) : listToVec (.md p m) = listToVec p := by
  cases h <;> simp [listToVec]

theorem Plain.isNil_md {p : Val} (h : Plain p) (m : Meta) : Val.isNil (.md p m) = p.isNil := by
  cases h <;> simp [Val.isNil]

theorem Data.view {b : Val} (h : Data b) :
    Plain b.get ∧ b.isNil = b.get.isNil ∧ listToVec b = listToVec b.get := by
  cases h with
  | plain _ h => simp [h.get_eq, h]
  | wrapped v m h => simp [Val.get, h.get_eq, h, h.listToVec_md, h.isNil_md]


theorem Data.listToVec_strip {v : Val} (h : Data v) :
    listToVec v.strip = (listToVec v).map (List.map Val.strip) := by
  induction v with
  | cons a d _ ihd =>
    have hd := ihd h.cons_inv.2
    simp [Val.strip, listToVec, hd, Option.map_map, Function.comp_def]
  | md v m ih =>
    have hp := h.md_inv
    rw [hp.listToVec_md, Val.strip]
    exact ih (.plain _ hp)
  | _ => simp [Val.strip, listToVec]

theorem Data.isProperList_strip {v : Val} (h : Data v) : isProperList v.strip = isProperList v := by
  simp [isProperList, h.listToVec_strip]

theorem Data.of_mem_listToVec {v : Val} (h : Data v) :
    ∀ l, listToVec v = some l → ∀ x ∈ l, Data x := by
  induction v with
  | cons a d _ ihd =>
    intro l hl x hx
    simp [listToVec] at hl
    obtain ⟨l', hl', rfl⟩ := hl
    rcases List.mem_cons.1 hx with rfl | hx
    · exact h.cons_inv.1
    · exact ihd h.cons_inv.2 l' hl' x hx
  | md v m ih =>
    have hp := h.md_inv
    rw [hp.listToVec_md]
    exact ih (.plain _ hp)
  | nil => intro l hl x hx; simp [listToVec] at hl; subst hl; cases hx
  | _ => intro l hl; simp [listToVec] at hl


theorem Plain.isNil_iff {p : Val} (h : Plain p) : p.isNil = true ↔ p.strip = .nil := by
  cases h <;> simp [Val.isNil, Val.strip]

theorem equal_aux (a : Val) : Data a → ∀ b, Data b →
    (equalInternal a b = true ↔ a.strip = b.strip) ∧
    (isProperList a = true → isProperList b = true → (equalTail a b = true ↔ a.strip = b.strip)) := by
  induction a with
  | nil =>
    intro _ b hb
    obtain ⟨hp, hnil, hvec⟩ := hb.view
    rw [← Val.strip_get b]
    simp only [equalInternal, equalTail, hnil, hp.isNil_iff, Val.strip, eq_comm, implies_true, and_self]
  | num n =>
    intro _ b hb
    obtain ⟨hp, hnil, hvec⟩ := hb.view
    rw [← Val.strip_get b]
    simp only [equalInternal, equalTail]
    generalize b.get = p at *
    cases hp <;> simp [Val.strip, isProperList, listToVec]
  | chr n =>
    intro _ b hb
    obtain ⟨hp, hnil, hvec⟩ := hb.view
    rw [← Val.strip_get b]
    simp only [equalInternal, equalTail]
    generalize b.get = p at *
    cases hp <;> simp [Val.strip, isProperList, listToVec]
  | sym n =>
    intro _ b hb
    obtain ⟨hp, hnil, hvec⟩ := hb.view
    rw [← Val.strip_get b]
    simp only [equalInternal, equalTail]
    generalize b.get = p at *
    cases hp <;> simp [Val.strip, isProperList, listToVec]
  | cons x d ihx ihd =>
    intro ha b hb
    obtain ⟨hx, hd⟩ := ha.cons_inv
    obtain ⟨hp, hnil, hvec⟩ := hb.view
    rw [← Val.strip_get b]
    simp only [isProperList, hvec]
    simp only [equalInternal, equalTail]
    generalize b.get = p at *
    cases hp with
    | cons y e hy he =>
      have h1 := (ihx hx y hy).1
      have h2 := (ihd hd e he).1
      have h3 := (ihd hd e he).2
      have h4 := hd.isProperList_strip
      have h5 := he.isProperList_strip
      simp only [Val.strip, Val.cons.injEq, listToVec, Option.isSome_map]
      change _ ∧ (isProperList d = true → isProperList e = true → _)
      cases hpd : isProperList d <;> cases hpe : isProperList e
      · simp [h1, h2]
      · simp [h1, h2]
      · simp only [hpd, hpe] at h4 h5
        have : d.strip ≠ e.strip := fun h => by rw [h, h5] at h4; cases h4
        simp [this]
      · simp [h1, h3 hpd hpe]
    | _ => simp [Val.strip]
  | md v m ih =>
    intro ha b hb
    have hp := ha.md_inv
    simp only [equalInternal, equalTail, Val.strip, isProperList, hp.listToVec_md]
    exact ih (.plain _ hp) b hb
  | fn => intro h; cases h with | plain _ h => cases h
  | native => intro h; cases h with | plain _ h => cases h
  | trap => intro h; cases h with | plain _ h => cases h


theorem Data.isNil_strip {x : Val} (h : Data x) : x.strip.isNil = x.isNil := by
  obtain ⟨hp, hnil, -⟩ := h.view
  rw [← Val.strip_get x, hnil]
  generalize x.get = p at *
  cases hp <;> simp [Val.strip, Val.isNil]

theorem Data.isSymNamed_strip {x : Val} (h : Data x) (n : Name) : x.strip.isSymNamed n = x.isSymNamed n := by
  obtain ⟨hp, -, -⟩ := h.view
  unfold Val.isSymNamed
  rw [← Val.strip_get x]
  generalize x.get = p at *
  cases hp <;> simp [Val.strip, Val.get]

theorem charsOf_strip (xs : List Val) (h : ∀ x ∈ xs, Data x) : charsOf (xs.map Val.strip) = charsOf xs := by
  induction xs with
  | nil => rfl
  | cons x xs ih =>
    have hx := h x (List.mem_cons_self ..)
    have ih := ih (fun y hy => h y (List.mem_cons_of_mem _ hy))
    obtain ⟨hp, -, -⟩ := hx.view
    simp only [List.map_cons, charsOf, ih]
    rw [← Val.strip_get x]
    generalize x.get = p at *
    cases hp <;> simp [Val.strip, Val.get]

theorem Data.listToString_strip {v : Val} (h : Data v) : listToString v.strip = listToString v := by
  unfold listToString
  rw [h.listToVec_strip]
  cases hl : listToVec v with
  | none => rfl
  | some l =>
    have hd := h.of_mem_listToVec l hl
    cases l with
    | nil => rfl
    | cons x xs =>
      have hx := hd x (List.mem_cons_self ..)
      simp only [Option.map_some, List.map_cons, hx.isSymNamed_strip]
      rw [← List.map_cons, charsOf_strip _ hd, charsOf_strip _ (fun y hy => hd y (List.mem_cons_of_mem _ hy))]

end helpers

/-! ### the properties -/

/-- THE characterisation: on data, `=` holds exactly when the two values are the same tree once every
metadata wrapper is removed — same type, numbers by value, characters by code point, symbols by identity,
conses component-wise, nil only with nil (a proper list never equals an improper one) -/
theorem equal_iff_strip (a b : Val) (ha : Data a) (hb : Data b) :
    equalInternal a b = true ↔ a.strip = b.strip := by
  exact (equal_aux a ha b hb).1

theorem equal_refl (a : Val) (ha : Data a) : equalInternal a a = true := by
  exact (equal_iff_strip a a ha ha).2 rfl

theorem equal_symm (a b : Val) (ha : Data a) (hb : Data b) : equalInternal a b = equalInternal b a := by
  rw [Bool.eq_iff_iff, equal_iff_strip a b ha hb, equal_iff_strip b a hb ha]
  exact eq_comm

theorem equal_trans (a b c : Val) (ha : Data a) (hb : Data b) (hc : Data c)
    (hab : equalInternal a b = true) (hbc : equalInternal b c = true) : equalInternal a c = true := by
  rw [equal_iff_strip _ _ ha hb] at hab
  rw [equal_iff_strip _ _ hb hc] at hbc
  exact (equal_iff_strip _ _ ha hc).2 (hab.trans hbc)

/-- the result does not depend on whether either operand carries reader metadata, anywhere -/
theorem equal_meta_irrelevant (a b a' b' : Val) (ha : Data a) (hb : Data b) (ha' : Data a') (hb' : Data b')
    (h1 : a'.strip = a.strip) (h2 : b'.strip = b.strip) : equalInternal a' b' = equalInternal a b := by
  rw [Bool.eq_iff_iff, equal_iff_strip a' b' ha' hb', equal_iff_strip a b ha hb, h1, h2]

/-- functions and traps are equal to nothing, not even to themselves -/
theorem function_never_equal (k : Kind) (r p b e : Val) (m : Name) (x : Val) :
    equalInternal (.fn k r p b e m) x = false ∧ equalInternal (.native .cons) x = false ∧ equalInternal (.trap p b) x = false := by
  exact ⟨equalInternal_fn .., equalInternal_native .., equalInternal_trap ..⟩

/-- printing depends only on the metadata-free tree … -/
theorem print_strip (fuel : Nat) (v : Val) (hv : Data v) (depth : Nat) :
    printInternal fuel v depth = printInternal fuel v.strip depth := by
  induction fuel generalizing v depth with
  | zero => rfl
  | succ fuel ih =>
    simp only [printInternal, hv.isNil_strip, hv.listToString_strip, hv.listToVec_strip, printAtom_strip]
    cases hl : listToVec v with
    | none => rfl
    | some l =>
      have hd := hv.of_mem_listToVec l hl
      have : (l.map Val.strip).map (fun x => printInternal fuel x (depth + 1)) =
          l.map (fun x => printInternal fuel x (depth + 1)) := by
        rw [List.map_map]
        apply List.map_congr_left
        intro x hx
        exact (ih x (hd x hx) _).symm
      simp only [Option.map_some, this]

/-- … hence equal data print identically -/
theorem equal_print (a b : Val) (ha : Data a) (hb : Data b) (h : equalInternal a b = true) (fuel depth : Nat) :
    printInternal fuel a depth = printInternal fuel b depth := by
  rw [print_strip fuel a ha, print_strip fuel b hb, (equal_iff_strip a b ha hb).1 h]

/-! non-vacuity: a metadata-wrapped string against its bare character list, and a proper against an improper list -/
example : equalInternal (.md (.cons (.md (.chr 'a') ⟨[], ⟨.stdin, 1, 1⟩, []⟩) .nil) ⟨[], ⟨.stdin, 1, 1⟩, []⟩) (.cons (.chr 'a') (.md .nil ⟨[], ⟨.stdin, 1, 1⟩, []⟩)) = true := by decide
example : equalInternal (.cons (.num 1) (.cons (.num 2) .nil)) (.cons (.num 1) (.cons (.num 2) (.num 3))) = false := by decide

end Pici.C13
