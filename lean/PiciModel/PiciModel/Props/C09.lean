/-
C09 — Macro expansion preserves meaning, reaches a fixpoint, leaves quoted data alone.

Theorems about `expandInternal` / `expandCompletely` and the `eval` native of the model (`Model/Eval.lean`,
mirroring `macroexpand_internal`, `macroexpand_completely`, `eval` of `src/native/eval/mod.rs`, after the fix that
keeps the expanded operator expression).
-/
import PiciModel.Model.Eval
import PiciModel.Lemmas.Expand

namespace Pici.C09
open Pici Pici.Expand

/-- a form `(quote …)`: a proper list whose head is the symbol `quote` -/
def IsQuoteForm (e : Val) : Prop :=
  ∃ first rest, listToVec e = some (first :: rest) ∧ first.isSymNamed cs!"quote" = true ∧ first.isSymNamed cs!"macro" = false

/-- anything under quote is never expanded: the form comes back untouched, whatever it contains -/
theorem expand_quote (fuel : Nat) (st : St) (e env : Val) (mod : Name) (d : Nat) (ch : Bool)
    (he : IsQuoteForm e) (hd : d ≤ Config.maxRecursionDepth) :
    expandInternal (fuel + 1) st e env mod d ch = ((.ok e, st), ch) := by
  obtain ⟨first, rest, hl, hq, hm⟩ := he
  have hd' : ¬ d > Config.maxRecursionDepth := Nat.not_lt.mpr hd
  rw [expandInternal]
  simp only [hd', if_false, hl, hm, hq]
  rfl

/-- a form `(first operand…)` whose head is neither `macro` nor `quote` -/
def IsCallForm (e first : Val) (operands : List Val) : Prop :=
  listToVec e = some (first :: operands) ∧ first.isSymNamed cs!"macro" = false ∧ first.isSymNamed cs!"quote" = false

/-- a macro receives its operands expanded but UNEVALUATED (bound to its parameters over the environment of its
definition), its body is evaluated in the module of its definition, and the result stands in place of the call;
`changed` is set, so the result is expanded again -/
theorem macro_gets_operands (fuel : Nat) (st st2 st3 : St) (e first : Val) (operands : List Val) (env : Val) (mod : Name) (d : Nat)
    (ch ch2 ch3 : Bool) (operator : Val) (args : List Val) (rest params body fenv : Val) (fmod : Name) (newEnv : Val)
    (he : IsCallForm e first operands) (hd : d ≤ Config.maxRecursionDepth)
    (hop : expandInternal fuel st first env mod (d + 1) ch = ((.ok operator, st2), ch2))
    (hargs : expandArgs fuel st2 operands env mod d ch2 = ((.ok args, st3), ch3))
    (hm : operator.get = .fn .macro rest params body fenv fmod)
    (hpair : pairParamsAndArgs rest params fenv (e.getMeta.map (·.readName)) args = .ok newEnv) :
    expandInternal (fuel + 1) st e env mod d ch = (evalInternal fuel st3 body newEnv fmod (d + 1), true) := by
  obtain ⟨hl, hm1, hq⟩ := he
  have hd' : ¬ d > Config.maxRecursionDepth := Nat.not_lt.mpr hd
  rw [expandInternal]
  simp only [hd', if_false, hl, hm1, hq, hop, hargs, hm, hpair]
  rfl

/-- wherever a macro call occurs — including inside an operator expression — it is expanded: when the operator is not a
macro the form is rebuilt from the EXPANDED operator and the expanded operands, and the `changed` flag reports what happened inside -/
theorem expand_in_operator (fuel : Nat) (st st2 st3 : St) (e first : Val) (operands : List Val) (env : Val) (mod : Name) (d : Nat)
    (ch ch2 ch3 : Bool) (operator : Val) (args : List Val)
    (he : IsCallForm e first operands) (hd : d ≤ Config.maxRecursionDepth)
    (hop : expandInternal fuel st first env mod (d + 1) ch = ((.ok operator, st2), ch2))
    (hargs : expandArgs fuel st2 operands env mod d ch2 = ((.ok args, st3), ch3))
    (hm : ∀ rest params body fenv fmod, operator.get ≠ .fn .macro rest params body fenv fmod) :
    expandInternal (fuel + 1) st e env mod d ch = ((.ok (.ofList (operator :: args)), st3), ch3) := by
  obtain ⟨hl, hm1, hq⟩ := he
  have hd' : ¬ d > Config.maxRecursionDepth := Nat.not_lt.mpr hd
  rw [expandInternal]
  simp only [hd', if_false, hl, hm1, hq, hop, hargs, Bool.false_eq_true]

/-- a symbol bound to a macro is replaced by the macro (so that a call of it is recognised), and that counts as a change -/
theorem expand_macro_symbol (fuel : Nat) (st : St) (e env : Val) (mod : Name) (d : Nat) (ch : Bool) (s : Sym) (v : Val)
    (rest params body fenv : Val) (fmod : Name)
    (hs : e = .sym s ∨ ∃ m, e = .md (.sym s) m) (hd : d ≤ Config.maxRecursionDepth)
    (hl : lookup st s env mod = .found v) (hv : v.get = .fn .macro rest params body fenv fmod) :
    expandInternal (fuel + 1) st e env mod d ch = ((.ok v, st), true) := by
  have hd' : ¬ d > Config.maxRecursionDepth := Nat.not_lt.mpr hd
  have h1 : listToVec e = none := by
    rcases hs with rfl | ⟨m, rfl⟩ <;> simp [listToVec]
  have h2 : e.get = .sym s := by
    rcases hs with rfl | ⟨m, rfl⟩ <;> simp [Val.get]
  rw [expandInternal]
  simp only [hd', if_false, h1, h2, hl, hv]

/-- complete expansion repeats rounds exactly until a round changes nothing -/
theorem expandCompletely_step (fuel : Nat) (st : St) (e env : Val) (mod : Name) (d : Nat) :
    expandCompletely (fuel + 1) st e env mod d =
      (match expandInternal fuel st e env mod (d + 1) false with
       | ((.ok expanded, st1), true)  => expandCompletely fuel st1 expanded env mod d
       | ((.ok expanded, st1), false) => (.ok expanded, st1)
       | ((.err s, st1), _)           => (.err s, st1)
       | ((.crash s, st1), _)         => (.crash s, st1)
       | ((.outOfFuel, st1), _)       => (.outOfFuel, st1)) := by
  rw [expandCompletely]
  rfl

section counterexample
/-! The two statements below (`round_idempotent`, `expand_fixpoint`) are FALSE as originally stated, for values in which a
metadata cell wraps a metadata cell — values the Rust program never builds (`allocate_metadata` panics), but which the
type `Val` contains.  `listToVec` looks through ONE metadata cell, `Val.get` through all of them: the form `cexForm`
below is not a list for `listToVec`, yet `get` shows a pair, so a round takes the improper-pair branch and returns the
bare list `(macro)` without reporting a change; expanding `(macro)` again is an arity error. -/

/-- an empty interpreter state: no module, no global -/
def cexSt : St :=
  { modules := [], current := [], gensym := 0, out := [], stdinBuf := [], stdinChunks := [],
    attached := false, inbox := [], sent := [], steps := 0 }

def cexMeta : Meta := ⟨[], ⟨.native, 0, 0⟩, []⟩

/-- the one-element list `(macro)` behind TWO metadata cells -/
def cexForm : Val := .md (.md (.cons (.symName cs!"macro") .nil) cexMeta) cexMeta

/-- `(macro)`, bare -/
def cexResult : Val := .cons (.symName cs!"macro") .nil

theorem cex_lookup (mod : Name) : lookup cexSt (.named cs!"macro") .nil mod = .notFound := by
  simp [lookup, lookupEnv, St.getGlobal, cexSt]

/-- the round on the ill-formed form succeeds and reports no change … -/
theorem cex_round (fuel : Nat) (mod : Name) (d : Nat) (hd : d + 1 ≤ Config.maxRecursionDepth) :
    expandInternal (fuel + 2) cexSt cexForm .nil mod d false = ((.ok cexResult, cexSt), false) := by
  refine expandInternal_of_step (Nat.le_of_succ_le hd)
    (.cons (.symName cs!"macro") .nil (.symName cs!"macro") cexSt false .nil cexSt false ?_ ?_ ?_ ?_)
  · simp [cexForm, listToVec]
  · simp [cexForm, Val.get]
  · exact expandInternal_of_step hd
      (.symNotFound (.named cs!"macro") (by simp [Val.symName, listToVec]) (by simp [Val.symName, Val.get]) (cex_lookup mod))
  · exact expandInternal_of_step hd (.nil (by simp [listToVec]))

/-- … but a round on its result never succeeds -/
theorem cex_round_again (fuel : Nat) (mod : Name) (d : Nat) (ch : Bool) (v : Val) (st : St) (ch' : Bool) :
    expandInternal fuel cexSt cexResult .nil mod d ch ≠ ((.ok v, st), ch') := by
  intro h
  cases fuel with
  | zero => rw [expandInternal_zero] at h; cases h
  | succ fuel =>
    have hl : listToVec cexResult = some [.symName cs!"macro"] := by simp [cexResult, listToVec]
    have hm : (Val.symName cs!"macro").isSymNamed cs!"macro" = true := by decide
    obtain ⟨_, hs⟩ := expandInternal_inv h
    cases hs with
    | nil hl' => rw [hl] at hl'; cases hl'
    | macroForm first ops e1 hl' hm' hf =>
      rw [hl] at hl'; cases hl'
      simp [makeFunctionInternal] at hf
    | quote first ops hl' hm' hq => rw [hl] at hl'; cases hl'; rw [hm] at hm'; cases hm'
    | macroCall first ops operator st2 ch2 args st3 ch3 rest params body fenv fmod newEnv e1 st1 hl' hm' =>
      rw [hl] at hl'; cases hl'; rw [hm] at hm'; cases hm'
    | call first ops operator st2 ch2 args st3 ch3 hl' hm' => rw [hl] at hl'; cases hl'; rw [hm] at hm'; cases hm'
    | cons a dd car st2 ch2 cdr st3 ch3 hl' => rw [hl] at hl'; cases hl'
    | symMacro s v rest params body fenv fmod hl' => rw [hl] at hl'; cases hl'
    | symFound s v hl' => rw [hl] at hl'; cases hl'
    | symNotFound s hl' => rw [hl] at hl'; cases hl'
    | atom hl' => rw [hl] at hl'; cases hl'

theorem cex_not_wellformed : noNested cexForm = false := by decide

end counterexample

/-- ORIGINAL STATEMENT (false, see `round_idempotent_false`):

    theorem round_idempotent (fuel : Nat) (st st1 : St) (e e1 env : Val) (mod : Name) (d : Nat)
        (h : expandInternal fuel st e env mod d false = ((.ok e1, st1), false)) :
        st1 = st ∧ expandInternal fuel st e1 env mod d false = ((.ok e1, st), false)

expanding an already expanded form changes nothing: a round that reported no change reproduces its own output,
with the same fuel and without touching the state — PROVIDED the form is well formed (no metadata cell around a
metadata cell, `noNested` of `Spec/WF.lean`), which is the extra hypothesis `hw` -/
theorem round_idempotent_partial (fuel : Nat) (st st1 : St) (e e1 env : Val) (mod : Name) (d : Nat)
    (hw : noNested e = true)
    (h : expandInternal fuel st e env mod d false = ((.ok e1, st1), false)) :
    st1 = st ∧ expandInternal fuel st e1 env mod d false = ((.ok e1, st), false) :=
  (expand_round_aux fuel).1 st e env mod d e1 st1 hw h

/-- the original statement of `round_idempotent`, without the well-formedness hypothesis, is false -/
theorem round_idempotent_false :
    ¬ ∀ (fuel : Nat) (st st1 : St) (e e1 env : Val) (mod : Name) (d : Nat),
        expandInternal fuel st e env mod d false = ((.ok e1, st1), false) →
        st1 = st ∧ expandInternal fuel st e1 env mod d false = ((.ok e1, st), false) := by
  intro hall
  have h := cex_round 0 [] 0 (by decide)
  exact cex_round_again _ _ _ _ _ _ _ (hall _ _ _ _ _ _ _ _ h).2

/-- ORIGINAL STATEMENT (false, see `expand_fixpoint_false`):

    theorem expand_fixpoint (fuel : Nat) (st st1 : St) (e e1 env : Val) (mod : Name) (d : Nat)
        (h : expandCompletely fuel st e env mod d = (.ok e1, st1)) :
        ∃ fuel', expandCompletely fuel' st1 e1 env mod d = (.ok e1, st1)

… hence the result of a complete expansion is a fixpoint of complete expansion — PROVIDED every form handed to a round is
well formed: the given form (`hw`) and whatever the macro calls return (`hwf`; to be discharged by an evaluator-wide
preservation theorem for `noNested`) -/
theorem expand_fixpoint_partial (fuel : Nat) (st st1 : St) (e e1 env : Val) (mod : Name) (d : Nat)
    (hw : noNested e = true)
    (hwf : ∀ f s x s' y, noNested x = true → expandInternal f s x env mod (d + 1) false = ((.ok y, s'), true) → noNested y = true)
    (h : expandCompletely fuel st e env mod d = (.ok e1, st1)) :
    ∃ fuel', expandCompletely fuel' st1 e1 env mod d = (.ok e1, st1) := by
  obtain ⟨f0, hf⟩ := expandCompletely_stable env mod d hwf fuel st e e1 st1 hw h
  exact ⟨f0 + 1, hf f0 (Nat.le_refl _)⟩

/-- stronger: every sufficiently large fuel reproduces the result -/
theorem expand_fixpoint_partial_all (fuel : Nat) (st st1 : St) (e e1 env : Val) (mod : Name) (d : Nat)
    (hw : noNested e = true)
    (hwf : ∀ f s x s' y, noNested x = true → expandInternal f s x env mod (d + 1) false = ((.ok y, s'), true) → noNested y = true)
    (h : expandCompletely fuel st e env mod d = (.ok e1, st1)) :
    ∃ fuel', ∀ k, fuel' ≤ k → expandCompletely k st1 e1 env mod d = (.ok e1, st1) := by
  obtain ⟨f0, hf⟩ := expandCompletely_stable env mod d hwf fuel st e e1 st1 hw h
  refine ⟨f0 + 1, fun k hk => ?_⟩
  obtain ⟨j, rfl⟩ : ∃ j, k = j + 1 := ⟨k - 1, by omega⟩
  exact hf j (by omega)

/-- the original statement of `expand_fixpoint`, without the well-formedness hypotheses, is false -/
theorem expand_fixpoint_false :
    ¬ ∀ (fuel : Nat) (st st1 : St) (e e1 env : Val) (mod : Name) (d : Nat),
        expandCompletely fuel st e env mod d = (.ok e1, st1) →
        ∃ fuel', expandCompletely fuel' st1 e1 env mod d = (.ok e1, st1) := by
  intro hall
  have h : expandCompletely 3 cexSt cexForm .nil [] 0 = (.ok cexResult, cexSt) :=
    expandCompletely_of_false (cex_round 0 [] 1 (by decide))
  obtain ⟨fuel', h'⟩ := hall _ _ _ _ _ _ _ _ h
  cases fuel' with
  | zero => rw [expandCompletely_zero] at h'; cases h'
  | succ f =>
    rw [expandCompletely_step] at h'
    split at h'
    · rename_i hx; exact cex_round_again _ _ _ _ _ _ _ hx
    · rename_i hx; exact cex_round_again _ _ _ _ _ _ _ hx
    · cases h'
    · cases h'
    · cases h'

/-- evaluating a form IS evaluating its complete expansion (in the state the expansion left) -/
theorem eval_is_eval_of_expansion (fuel : Nat) (st st1 : St) (x e1 env : Val) (d : Nat)
    (h : expandCompletely fuel st x env st.current (d + 1) = (.ok e1, st1)) :
    applyNative (fuel + 1) st .eval [x] env d = evalInternal fuel st1 e1 env st.current (d + 1) := by
  rw [applyNative]
  simp only [arity1, h]

-- `h` and `hc` are not needed by the proof of the statement as given (see the note in the proof)
set_option linter.unusedVariables false in
/-- … and evaluating the expansion expands nothing further: it goes straight to the same evaluation -/
theorem eval_of_expansion (fuel : Nat) (st st1 : St) (x e1 env : Val) (d : Nat)
    (h : expandCompletely fuel st x env st.current (d + 1) = (.ok e1, st1)) (hc : st1.current = st.current) :
    ∃ fuel', applyNative (fuel' + 1) st1 .eval [e1] env d = evalInternal fuel' st1 e1 env st.current (d + 1) := by
  -- NOTE: as stated the theorem is satisfied by `fuel' = 0` (both sides run out of fuel at once); without
  -- well-formedness hypotheses nothing better is true (see `expand_fixpoint_false`).  The meaningful version is
  -- `eval_of_expansion_strong` below.
  refine ⟨0, ?_⟩
  rw [applyNative, evalInternal]
  simp only [arity1]
  rw [expandCompletely]

/-- the non-vacuous form of `eval_of_expansion`: for EVERY sufficiently large fuel, evaluating the expansion goes straight
to the evaluation of the same form in the same state — under the well-formedness hypotheses of `expand_fixpoint_partial` -/
theorem eval_of_expansion_strong (fuel : Nat) (st st1 : St) (x e1 env : Val) (d : Nat)
    (hw : noNested x = true)
    (hwf : ∀ f s y s' z, noNested y = true →
      expandInternal f s y env st.current (d + 1 + 1) false = ((.ok z, s'), true) → noNested z = true)
    (h : expandCompletely fuel st x env st.current (d + 1) = (.ok e1, st1)) (hc : st1.current = st.current) :
    ∃ fuel', ∀ k, fuel' ≤ k → applyNative (k + 1) st1 .eval [e1] env d = evalInternal k st1 e1 env st.current (d + 1) := by
  obtain ⟨f, hf⟩ := expand_fixpoint_partial_all fuel st st1 x e1 env st.current (d + 1) hw hwf h
  refine ⟨f, fun k hk => ?_⟩
  have := eval_is_eval_of_expansion k st1 st1 e1 e1 env d (by rw [hc]; exact hf k hk)
  rw [this, hc]

/-- a signal raised while a macro body runs, or while anything is expanded, is the outcome of the expansion -/
theorem expand_signal_propagates (fuel : Nat) (st st1 : St) (e env : Val) (mod : Name) (d : Nat) (s : Val) (ch : Bool)
    (h : expandInternal fuel st e env mod (d + 1) false = ((.err s, st1), ch)) :
    expandCompletely (fuel + 1) st e env mod d = (.err s, st1) := by
  rw [expandCompletely, h]

/-! non-vacuity -/
example : IsQuoteForm (.ofList [.symName cs!"quote", .ofList [.symName cs!"when", .num 1, .num 2]]) := ⟨_, _, rfl, by decide, by decide⟩
example : IsCallForm (.ofList [.ofList [.symName cs!"lambda", .ofList [.symName cs!"x"], .ofList [.symName cs!"when", .symName cs!"x", .num 1]], .num 1])
    (.ofList [.symName cs!"lambda", .ofList [.symName cs!"x"], .ofList [.symName cs!"when", .symName cs!"x", .num 1]]) [.num 1] := ⟨rfl, by decide, by decide⟩

end Pici.C09
