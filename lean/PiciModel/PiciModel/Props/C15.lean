/-
C15 — Globals are constants; define/undefine/load leave module state consistent.

Theorems about `define`, `undefine` (`simpleNative`, mirroring `src/native/globals/mod.rs`) and about the
whole evaluator (`Model/Eval.lean`, mirroring `src/native/eval/mod.rs`): evaluation — including `load-all`
of any text, failing at any form or succeeding, nested loads included — leaves the current module as it was.
-/
import PiciModel.Model.Eval
import PiciModel.Lemmas.ModuleState

namespace Pici.C15
open Pici

/-- the definition of `name` in module `mod`, if any -/
def lookupDef (st : St) (mod name : Name) : Option Val :=
  (st.findModule mod).bind fun m => m.defs.lookup name

/-- the current module is in the module table -/
def ModulesOK (st : St) : Prop := (st.findModule st.current).isSome = true

/-! ### helpers -/

section helpers

theorem modulesOK_iff (st : St) : ModulesOK st ↔ HasModule st st.current := Iff.rfl

theorem lookupDef_of_modules {a b : St} (h : a.modules = b.modules) (mod n : Name) :
    lookupDef a mod n = lookupDef b mod n := by
  unfold lookupDef; rw [St.findModule_of_modules h]

theorem modulesOK_of_modules {a b : St} (h : a.modules = b.modules) (hc : a.current = b.current) (hb : ModulesOK b) :
    ModulesOK a := by
  unfold ModulesOK at *; rw [St.findModule_of_modules h, hc]; exact hb

/-- what an update of the current module does to the definitions, module by module -/
theorem lookupDef_updateCurrent (st : St) (f : Module → Module) (hok : ModulesOK st)
    (hf : (f st.currentModule).name = st.current) :
    (∀ n, lookupDef (st.updateCurrent f) st.current n = (f st.currentModule).defs.lookup n) ∧
    (∀ n, lookupDef st st.current n = st.currentModule.defs.lookup n) ∧
    (∀ mod n, mod ≠ st.current → lookupDef (st.updateCurrent f) mod n = lookupDef st mod n) ∧
    ModulesOK (st.updateCurrent f) := by
  refine ⟨fun n => ?_, fun n => ?_, fun mod n hne => ?_, ?_⟩
  · unfold lookupDef; rw [St.findModule_updateCurrent_self st f hf]; rfl
  · unfold lookupDef; rw [St.findModule_current st hok]; rfl
  · unfold lookupDef; rw [St.findModule_updateCurrent_ne st f hf mod hne]
  · exact (St.keeps_updateCurrent st f).2 _ hok

theorem pair_ne {mod n cur name : Name} (h : (mod, n) ≠ (cur, name)) (hm : mod = cur) : n ≠ name := by
  intro hn; apply h; rw [hm, hn]

/-- `define` with the stored value known -/
theorem define_store (st : St) (name : Name) (stored : Val) (hok : ModulesOK st) (st' : St)
    (hm : st'.modules = (st.defineGlobal name stored).modules) (hc : st'.current = st.current) :
    lookupDef st' st.current name = some stored ∧
      (∀ mod n, (mod, n) ≠ (st.current, name) → lookupDef st' mod n = lookupDef st mod n) ∧
      st'.current = st.current ∧ ModulesOK st' := by
  obtain ⟨h1, h2, h3, h4⟩ := lookupDef_updateCurrent st (fun m => { m with defs := St.insertDef m.defs name stored }) hok
    (St.currentModule_name st)
  refine ⟨?_, fun mod n hne => ?_, hc, modulesOK_of_modules hm hc h4⟩
  · rw [lookupDef_of_modules hm]
    exact (h1 name).trans (lookup_insertDef_self _ _ _)
  · rw [lookupDef_of_modules hm]
    by_cases hmod : mod = st.current
    · subst hmod
      exact ((h1 n).trans (lookup_insertDef_ne _ _ _ _ (pair_ne hne rfl))).trans (h2 n).symm
    · exact h3 mod n hmod

/-- the evaluator-wide invariant (`Lemmas/ModuleState.lean`, `goodAll`) in the vocabulary of this file -/
theorem good_keeps {α : Type} {st : St} {out : Res α × St} (hg : Good st out) (h : ModulesOK st) :
    out.2.current = st.current ∧ ModulesOK out.2 :=
  ⟨(hg.good h).1.1, hg.keeps.hasCurrent h⟩

end helpers

/-! ### the properties -/

/-- `define` never overwrites: defining an existing name signals and leaves the state — in particular the old value — untouched -/
theorem define_existing (st : St) (d : Nat) (name value doc : Val) (s : Sym) (text : List Char)
    (hs : name.get = .sym s) (hd : listToString doc = some text)
    (hdef : st.isGlobalDefined s.globalName = true) :
    simpleNative .define [name, value, doc] d st =
      (.err (makeError cs!"already-defined" cs!"define" [(cs!"symbol", name)]), st) := by
  simp only [simpleNative, arity3, asSymbol, asString, hs, hd, hdef, if_true]

/-- defining a fresh name succeeds, binds exactly that name in the current module (to the value, carrying at most
new documentation metadata) and changes no other (module, name) pair and not the current module -/
theorem define_fresh (st : St) (d : Nat) (name value doc : Val) (s : Sym) (text : List Char)
    (hok : ModulesOK st)
    (hs : name.get = .sym s) (hd : listToString doc = some text)
    (hfresh : st.isGlobalDefined s.globalName = false)
    (hplain : ∀ v m, value.unmeta ≠ .md v m) :
    ∃ st' stored, simpleNative .define [name, value, doc] d st = (.ok (.symName cs!"ok"), st') ∧
      lookupDef st' st.current s.globalName = some stored ∧ stored.unmeta = value.unmeta ∧
      (∀ mod n, (mod, n) ≠ (st.current, s.globalName) → lookupDef st' mod n = lookupDef st mod n) ∧
      st'.current = st.current ∧ ModulesOK st' := by
  simp only [simpleNative, arity3, asSymbol, asString, hs, hd, hfresh]
  cases name.getMeta with
  | none =>
    refine ⟨_, value, rfl, ?_⟩
    split
    · obtain ⟨h1, h2, h3, h4⟩ := define_store st s.globalName value hok _ (St.send_modules _ _) (St.send_current _ _)
      exact ⟨h1, rfl, h2, h3, h4⟩
    · obtain ⟨h1, h2, h3, h4⟩ := define_store st s.globalName value hok _ rfl rfl
      exact ⟨h1, rfl, h2, h3, h4⟩
  | some m =>
    refine ⟨_, Val.md value.unmeta { m with doc := text }, rfl, ?_⟩
    split
    · obtain ⟨h1, h2, h3, h4⟩ := define_store st s.globalName _ hok _ (St.send_modules _ _) (St.send_current _ _)
      exact ⟨h1, rfl, h2, h3, h4⟩
    · obtain ⟨h1, h2, h3, h4⟩ := define_store st s.globalName _ hok _ rfl rfl
      exact ⟨h1, rfl, h2, h3, h4⟩

/-- `undefine` removes just that name from the current module, so that it can be defined again -/
theorem undefine_only (st : St) (d : Nat) (name : Val) (s : Sym) (hok : ModulesOK st) (hs : name.get = .sym s) :
    ∃ st', simpleNative .undefine [name] d st = (.ok (.symName cs!"ok"), st') ∧
      lookupDef st' st.current s.globalName = none ∧
      st'.isGlobalDefined s.globalName = false ∧
      (∀ mod n, (mod, n) ≠ (st.current, s.globalName) → lookupDef st' mod n = lookupDef st mod n) ∧
      st'.current = st.current ∧ ModulesOK st' := by
  simp only [simpleNative, arity1, asSymbol, hs]
  refine ⟨_, rfl, ?_⟩
  have hm := St.send_modules (st.undefineGlobal s.globalName)
    (insertField (insertField [] cs!"kind" cs!"GLOBAL_UNDEFINED") cs!"name" s.globalName)
  have hc := St.send_current (st.undefineGlobal s.globalName)
    (insertField (insertField [] cs!"kind" cs!"GLOBAL_UNDEFINED") cs!"name" s.globalName)
  obtain ⟨h1, h2, h3, h4⟩ := lookupDef_updateCurrent st
    (fun m => { m with defs := m.defs.filter (·.1 != s.globalName) }) hok (St.currentModule_name st)
  refine ⟨?_, ?_, fun mod n hne => ?_, hc, modulesOK_of_modules hm hc h4⟩
  · rw [lookupDef_of_modules hm]
    exact (h1 _).trans (lookup_filter_self _ _)
  · unfold St.isGlobalDefined
    rw [St.currentModule_of_modules hm hc]
    show (((st.updateCurrent _).currentModule).defs.lookup s.globalName).isSome = false
    rw [St.currentModule_updateCurrent st _ (St.currentModule_name st)]
    show ((st.currentModule.defs.filter (·.1 != s.globalName)).lookup s.globalName).isSome = false
    rw [lookup_filter_self]; rfl
  · rw [lookupDef_of_modules hm]
    by_cases hmod : mod = st.current
    · subst hmod
      exact ((h1 n).trans (lookup_filter_ne _ _ _ (pair_ne hne rfl))).trans (h2 n).symm
    · exact h3 mod n hmod

/-- THE invariant of the whole evaluator: whatever is evaluated, with whatever outcome (value, signal, abort,
interrupt, stackoverflow, out of fuel), the current module afterwards is the one that was current before.
Stated for every entry point of the mutual recursion. -/
theorem eval_keeps_current (fuel : Nat) (st : St) (e env : Val) (mod : Name) (d : Nat) (h : ModulesOK st) :
    (evalInternal fuel st e env mod d).2.current = st.current ∧ ModulesOK (evalInternal fuel st e env mod d).2 :=
  good_keeps ((goodAll fuel).eval st e env mod d) h

theorem expand_keeps_current (fuel : Nat) (st : St) (e env : Val) (mod : Name) (d : Nat) (ch : Bool) (h : ModulesOK st) :
    (expandInternal fuel st e env mod d ch).1.2.current = st.current ∧ ModulesOK (expandInternal fuel st e env mod d ch).1.2 :=
  good_keeps ((goodAll fuel).expand st e env mod d ch) h

theorem native_keeps_current (fuel : Nat) (st : St) (id : NativeId) (args : List Val) (env : Val) (d : Nat) (h : ModulesOK st) :
    (applyNative fuel st id args env d).2.current = st.current ∧ ModulesOK (applyNative fuel st id args env d).2 :=
  good_keeps ((goodAll fuel).native st id args env d) h

/-- loading source text: afterwards the current module is again the one that was current before the load — whether the
load succeeded or was stopped by a read error, incomplete input, an invalid string, a signal at any form, an abort,
an interrupt or a stack overflow; nested loads included (they are just evaluations) -/
theorem load_restores (fuel : Nat) (st : St) (input source env : Val) (d : Nat) (h : ModulesOK st) :
    (applyNative fuel st .loadAll [input, source] env d).2.current = st.current :=
  (native_keeps_current fuel st .loadAll [input, source] env d h).1

/-- and it never crashes on the restoration (`set_current_module(&old_module).unwrap()`) -/
theorem load_restore_never_panics (fuel : Nat) (st : St) (input source env : Val) (d : Nat) (h : ModulesOK st) :
    (applyNative fuel st .loadAll [input, source] env d).1 ≠ .crash cs!"load-all: the previous module no longer exists" :=
  (((goodAll fuel).native st .loadAll [input, source] env d).good h).2

/-- while the forms of the text are evaluated, the module named after the source is current (and fresh) -/
theorem load_enters (fuel : Nat) (st : St) (input source env : Val) (d : Nat) (text name : List Char)
    (hi : listToString input = some text) (hn : listToString source = some name) :
    applyNative (fuel + 1) st .loadAll [input, source] env d =
      (match loadForms fuel (st.defineModule name) input source 1 1 d with
       | (r, st1) =>
         match st1.setCurrentModule st.current with
         | none     => (.crash cs!"load-all: the previous module no longer exists", st1)
         | some st2 =>
           match r with
           | .ok _      => (.ok (.symName cs!"ok"), st2)
           | .err s     => (.err s, st2)
           | .crash s   => (.crash s, st2)
           | .outOfFuel => (.outOfFuel, st2)) ∧
    (st.defineModule name).current = name ∧ lookupDef (st.defineModule name) name = fun _ => none := by
  refine ⟨?_, rfl, ?_⟩
  · rw [applyNative]
    simp only [arity2, asString, hi, hn]
    rfl
  · funext n
    unfold lookupDef
    rw [St.findModule_defineModule]
    rfl

/-! non-vacuity: the initial state satisfies `ModulesOK` -/
example : ModulesOK { (default : St) with modules := [⟨cs!"default", [], none⟩], current := cs!"default" } := by unfold ModulesOK; decide

end Pici.C15
