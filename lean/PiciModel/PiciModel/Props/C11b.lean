/-
C11 (continued) — `incomplete` precisely when the text is a proper prefix of some valid form.

`Props/C11.lean` proves: `error` can not be repaired by any continuation (`error_stable`), an `ok` result is the shortest
prefix holding one form (`ok_stable`), `nothing` iff blank.  This file proves the remaining direction: a text reported
`incomplete` CAN be completed — there is a continuation after which the reader returns a datum — so among the texts
that do not yet hold a form, `incomplete` is reported exactly for the proper prefixes of valid forms, and `error` exactly
for the texts no continuation can repair.
-/
import PiciModel.Props.C11
import PiciModel.Lemmas.ReaderComplete
import PiciModel.Lemmas.ReaderTotal

namespace Pici.C11
open Pici

section helpers

/-- the continuation: non-empty, and the completed text reads as a datum -/
theorem incomplete_completion (cs : List Char) (loc : Loc) (h : readChars cs loc = .error .incomplete) :
    ∃ (t : List Char) (v : Val) (rest : Rest), t ≠ [] ∧ readChars (cs ++ t) loc = .ok (v, rest) := by
  rw [readChars_eq] at h
  obtain ⟨t, hne, -, hok⟩ := ReaderSpec.readLoop_incomplete_completable _ _ _ _ _ h
  obtain ⟨v, rest, hv⟩ := hok ((ReaderSpec.items (cs ++ t)).length + 1) (by
    rw [ReaderSpec.items_length, ReaderSpec.items_length, List.length_append]; omega)
  exact ⟨t, v, rest, hne, by rw [readChars_eq]; exact hv⟩

end helpers

/-- every text reported `incomplete` has a continuation that reads as one datum -/
theorem incomplete_completable (cs : List Char) (loc : Loc) (h : readChars cs loc = .error .incomplete) :
    ∃ (t : List Char) (v : Val) (rest : Rest), readChars (cs ++ t) loc = .ok (v, rest) := by
  obtain ⟨t, v, rest, -, hok⟩ := incomplete_completion cs loc h
  exact ⟨t, v, rest, hok⟩

/-- the continuation is never empty: an incomplete text is a PROPER prefix of a valid form -/
theorem incomplete_proper_prefix (cs : List Char) (loc : Loc) (h : readChars cs loc = .error .incomplete) :
    ∃ (t : List Char) (v : Val) (rest : Rest), t ≠ [] ∧ readChars (cs ++ t) loc = .ok (v, rest) :=
  incomplete_completion cs loc h

/-- `incomplete` exactly when completable, among the texts that are not blank and do not yet hold a form:
a text whose status is neither `ok` nor `nothing` is `incomplete` iff some continuation makes it read as a datum -/
theorem incomplete_iff_completable (cs : List Char) (loc : Loc)
    (hnot : ∀ v rest, readChars cs loc ≠ .ok (v, rest)) (hnb : blank cs = false) :
    readChars cs loc = .error .incomplete ↔ ∃ (t : List Char) (v : Val) (rest : Rest), readChars (cs ++ t) loc = .ok (v, rest) := by
  constructor
  · exact incomplete_completable cs loc
  · rintro ⟨t, v, rest, hok⟩
    cases hr : readChars cs loc with
    | ok p => exact absurd hr (hnot p.1 p.2)
    | error e =>
      cases e with
      | invalidString => exact absurd hr (text_never_invalid cs loc)
      | incomplete => rfl
      | nothing =>
        rw [(nothing_iff cs loc).1 hr] at hnb
        cases hnb
      | error msg eloc rest' =>
        obtain ⟨m', l', r', h'⟩ := error_stable cs loc msg eloc rest' t hr
        rw [h'] at hok
        cases hok
      | crash site => exact absurd hr (readInternal_noCrash _ _ _)

/-! non-vacuity -/
example : (match readChars cs!"(a \"b" ⟨.stdin, 1, 0⟩ with | .error .incomplete => true | _ => false) = true := by decide +kernel
example : (match readChars (cs!"(a \"b" ++ cs!"\")") ⟨.stdin, 1, 0⟩ with | .ok _ => true | _ => false) = true := by decide +kernel
example : (match readChars cs!"(a '" ⟨.stdin, 1, 0⟩ with | .error .incomplete => true | _ => false) = true := by decide +kernel

/-! the completions the proof constructs, on examples: the text may end inside a comment, after an atom, after a backslash -/
example : (match readChars (cs!"(a ; c" ++ cs!"\na)") ⟨.stdin, 1, 0⟩ with | .ok _ => true | _ => false) = true := by decide +kernel
example : (match readChars (cs!"('(ab" ++ cs!"\na))") ⟨.stdin, 1, 0⟩ with | .ok _ => true | _ => false) = true := by decide +kernel
example : (match readChars (cs!"(a \"b\\" ++ cs!"n\")") ⟨.stdin, 1, 0⟩ with | .ok _ => true | _ => false) = true := by decide +kernel
example : (match readChars (cs!"(%" ++ cs!"a)") ⟨.stdin, 1, 0⟩ with | .ok _ => true | _ => false) = true := by decide +kernel

end Pici.C11
