/-
C18 (layer 1) — Standard input is consumed line by line exactly once, however the operating system
batches the bytes.

Theorems about `readUntilNewline` / `St.readLine` (`Model/State.lean`, mirroring `input-file *stdin*` of
`src/native/io/mod.rs` with the interpreter's single `BufReader`) for EVERY chunking of the input.
-/
import PiciModel.Model.State
import PiciModel.Lemmas.Stdin

namespace Pici.C18
open Pici

/-- the first line of a byte sequence (up to and including the first newline, or everything) and the rest -/
def firstLine (bs : List UInt8) : List UInt8 × List UInt8 :=
  match splitAfterNewline bs with
  | some (pre, post) => (pre, post)
  | none             => (bs, [])

/-- the OS never delivers an empty read before end of input -/
def NoEmpty (chunks : List (List UInt8)) : Prop := ∀ c ∈ chunks, c ≠ []

section helpers

theorem firstLine_nil : firstLine [] = ([], []) := rfl

theorem firstLine_of_some {bs pre post : List UInt8} (h : splitAfterNewline bs = some (pre, post)) :
    firstLine bs = (pre, post) := by
  simp [firstLine, h]

theorem firstLine_of_none {bs : List UInt8} (h : splitAfterNewline bs = none) : firstLine bs = (bs, []) := by
  simp [firstLine, h]

theorem firstLine_append_some {a pre post : List UInt8} (b : List UInt8)
    (h : splitAfterNewline a = some (pre, post)) : firstLine (a ++ b) = (pre, post ++ b) :=
  firstLine_of_some (splitAfterNewline_append_some b h)

theorem firstLine_append_none {a : List UInt8} (b : List UInt8) (h : splitAfterNewline a = none) :
    firstLine (a ++ b) = (a ++ (firstLine b).1, (firstLine b).2) := by
  have := splitAfterNewline_append_none b h
  cases hs : splitAfterNewline b with
  | none =>
    rw [hs] at this
    rw [firstLine_of_none this, firstLine_of_none hs]
  | some pp =>
    obtain ⟨p, q⟩ := pp
    rw [hs] at this
    rw [firstLine_of_some this, firstLine_of_some hs]

theorem firstLine_append_eq (bs : List UInt8) : (firstLine bs).1 ++ (firstLine bs).2 = bs := by
  cases hs : splitAfterNewline bs with
  | none => simp [firstLine_of_none hs]
  | some pp =>
    obtain ⟨p, q⟩ := pp
    rw [firstLine_of_some hs]
    exact (splitAfterNewline_some hs).1

theorem firstLine_fst_eq_nil_iff (bs : List UInt8) : (firstLine bs).1 = [] ↔ bs = [] := by
  cases hs : splitAfterNewline bs with
  | none => simp [firstLine_of_none hs]
  | some pp =>
    obtain ⟨p, q⟩ := pp
    rw [firstLine_of_some hs]
    have hp := splitAfterNewline_some_ne_nil hs
    have hbs : bs ≠ [] := by
      intro h; subst h; simp [splitAfterNewline_nil] at hs
    simp [hp, hbs]

theorem firstLine_snd_length_lt {bs : List UInt8} (h : bs ≠ []) : (firstLine bs).2.length < bs.length := by
  have h1 := firstLine_append_eq bs
  have h2 : (firstLine bs).1 ≠ [] := fun e => h ((firstLine_fst_eq_nil_iff bs).mp e)
  have h3 : 0 < (firstLine bs).1.length := List.length_pos_iff.mpr h2
  have h4 := congrArg List.length h1
  rw [List.length_append] at h4
  omega

theorem NoEmpty_nil : NoEmpty [] := fun _ h => by cases h

theorem NoEmpty_cons {c : List UInt8} {cs : List (List UInt8)} (h : NoEmpty (c :: cs)) : c ≠ [] ∧ NoEmpty cs :=
  ⟨h c (by simp), fun d hd => h d (by simp [hd])⟩

/-- `readUntilNewline_spec` generalised over the accumulator -/
theorem readUntilNewline_spec_acc (buf : List UInt8) (chunks : List (List UInt8)) (acc : List UInt8)
    (h : NoEmpty chunks) :
    (readUntilNewline buf chunks acc).1 = acc ++ (firstLine (buf ++ chunks.flatten)).1 ∧
    (readUntilNewline buf chunks acc).2.1 ++ (readUntilNewline buf chunks acc).2.2.flatten
      = (firstLine (buf ++ chunks.flatten)).2 ∧
    NoEmpty (readUntilNewline buf chunks acc).2.2 := by
  induction chunks generalizing buf acc with
  | nil =>
    cases hs : splitAfterNewline buf with
    | none =>
      rw [readUntilNewline_none_nil _ hs]
      simp [firstLine_of_none hs, NoEmpty_nil]
    | some pp =>
      obtain ⟨p, q⟩ := pp
      rw [readUntilNewline_of_some _ _ hs]
      simp [firstLine_of_some hs, NoEmpty_nil]
  | cons c cs ih =>
    cases hs : splitAfterNewline buf with
    | some pp =>
      obtain ⟨p, q⟩ := pp
      rw [readUntilNewline_of_some _ _ hs, firstLine_append_some _ hs]
      exact ⟨rfl, rfl, h⟩
    | none =>
      obtain ⟨hc, hcs⟩ := NoEmpty_cons h
      rw [readUntilNewline_none_cons cs acc hs hc, firstLine_append_none _ hs, List.flatten_cons]
      obtain ⟨i1, i2, i3⟩ := ih c (acc ++ buf) hcs
      refine ⟨?_, i2, i3⟩
      rw [i1, List.append_assoc]

end helpers

/-- one `read_line`: the line is the first line of all the bytes not yet delivered, and nothing else is lost -/
theorem readUntilNewline_spec (buf : List UInt8) (chunks : List (List UInt8)) (h : NoEmpty chunks) :
    (readUntilNewline buf chunks []).1 = (firstLine (buf ++ chunks.flatten)).1 ∧
    (readUntilNewline buf chunks []).2.1 ++ (readUntilNewline buf chunks []).2.2.flatten = (firstLine (buf ++ chunks.flatten)).2 ∧
    NoEmpty (readUntilNewline buf chunks []).2.2 := by
  have := readUntilNewline_spec_acc buf chunks [] h
  simpa using this

/-- `k` successive `read_line` calls -/
def drain : Nat → List UInt8 → List (List UInt8) → List (List UInt8)
  | 0, _, _ => []
  | k + 1, buf, chunks =>
    let r := readUntilNewline buf chunks []
    r.1 :: drain k r.2.1 r.2.2

/-- the first `k` lines of a byte sequence -/
def splitLines : Nat → List UInt8 → List (List UInt8)
  | 0, _ => []
  | k + 1, bs => (firstLine bs).1 :: splitLines k (firstLine bs).2

section helpers

theorem splitLines_nil_flatten (k : Nat) : (splitLines k []).flatten = [] := by
  induction k with
  | zero => rfl
  | succ k ih =>
    show ((firstLine []).1 :: splitLines k (firstLine []).2).flatten = []
    rw [firstLine_nil, List.flatten_cons, ih]
    rfl

end helpers

/-- the sequence of lines delivered is the sequence of lines of the concatenated input -/
theorem drain_eq_splitLines (k : Nat) (buf : List UInt8) (chunks : List (List UInt8)) (h : NoEmpty chunks) :
    drain k buf chunks = splitLines k (buf ++ chunks.flatten) := by
  induction k generalizing buf chunks with
  | zero => rfl
  | succ k ih =>
    obtain ⟨h1, h2, h3⟩ := readUntilNewline_spec buf chunks h
    show (readUntilNewline buf chunks []).1 ::
          drain k (readUntilNewline buf chunks []).2.1 (readUntilNewline buf chunks []).2.2
        = (firstLine (buf ++ chunks.flatten)).1 :: splitLines k (firstLine (buf ++ chunks.flatten)).2
    rw [ih _ _ h3, h1, h2]

/-- … whatever the chunking: two ways of batching the same bytes deliver the same lines -/
theorem lines_chunking_invariant (k : Nat) (b1 b2 : List UInt8) (c1 c2 : List (List UInt8))
    (h1 : NoEmpty c1) (h2 : NoEmpty c2) (heq : b1 ++ c1.flatten = b2 ++ c2.flatten) :
    drain k b1 c1 = drain k b2 c2 := by
  rw [drain_eq_splitLines k b1 c1 h1, drain_eq_splitLines k b2 c2 h2, heq]

/-- exactly once and in order: the delivered lines, concatenated, are the input (once enough lines are read) -/
theorem splitLines_flatten (k : Nat) (bs : List UInt8) (hk : bs.length < k) : (splitLines k bs).flatten = bs := by
  induction k generalizing bs with
  | zero => omega
  | succ k ih =>
    by_cases hbs : bs = []
    · subst hbs; exact splitLines_nil_flatten _
    · show ((firstLine bs).1 :: splitLines k (firstLine bs).2).flatten = bs
      have hlt := firstLine_snd_length_lt hbs
      rw [List.flatten_cons, ih _ (by omega)]
      exact firstLine_append_eq bs

/-- every delivered line is a line: it ends at its first newline -/
theorem firstLine_is_line (bs : List UInt8) :
    (firstLine bs).1 ++ (firstLine bs).2 = bs ∧
    (∀ pre, (firstLine bs).1 = pre ++ [10] → 10 ∉ pre) ∧
    ((10 : UInt8) ∉ (firstLine bs).1 → (firstLine bs).2 = []) := by
  refine ⟨firstLine_append_eq bs, ?_, ?_⟩
  · intro pre hpre
    cases hs : splitAfterNewline bs with
    | none =>
      rw [firstLine_of_none hs] at hpre
      have hn := (splitAfterNewline_eq_none_iff bs).mp hs
      have hbs : bs = pre ++ [10] := hpre
      exact absurd (by rw [hbs]; simp) hn
    | some pp =>
      obtain ⟨p, q⟩ := pp
      rw [firstLine_of_some hs] at hpre
      obtain ⟨_, p', hp', hn⟩ := splitAfterNewline_some hs
      have hpre' : pre ++ [10] = p' ++ [10] := by
        have : p = pre ++ [10] := hpre
        rw [← this, hp']
      have := List.append_inj_left' hpre' rfl
      rw [this]; exact hn
  · intro hn
    cases hs : splitAfterNewline bs with
    | none => rw [firstLine_of_none hs]
    | some pp =>
      obtain ⟨p, q⟩ := pp
      rw [firstLine_of_some hs] at hn
      obtain ⟨_, p', hp', _⟩ := splitAfterNewline_some hs
      exact absurd (by rw [hp']; simp) hn

/-- end of input is reported exactly when nothing is left -/
theorem readLine_eof_iff (st : St) (h : NoEmpty st.stdinChunks) :
    (match st.readLine.1 with | .eof => True | _ => False) ↔ st.stdinBuf ++ st.stdinChunks.flatten = [] := by
  obtain ⟨h1, _, _⟩ := readUntilNewline_spec st.stdinBuf st.stdinChunks h
  rw [← firstLine_fst_eq_nil_iff, ← h1]
  unfold St.readLine
  by_cases hb : (readUntilNewline st.stdinBuf st.stdinChunks []).1 = []
  · simp [hb]
  · simp only [hb, if_false]
    cases utf8Decode (readUntilNewline st.stdinBuf st.stdinChunks []).1 <;> simp

/-! non-vacuity: three lines in one OS read (the witness of the original defect), byte by byte, and split mid-line -/
example : drain 4 [] [[49, 10, 50, 10, 51, 10]] = [[49, 10], [50, 10], [51, 10], []] := by decide
example : drain 4 [] [[49], [10], [50], [10], [51], [10]] = [[49, 10], [50, 10], [51, 10], []] := by decide
example : drain 4 [] [[49, 10, 50], [10, 51, 10]] = [[49, 10], [50, 10], [51, 10], []] := by decide

end Pici.C18
