/-
C16 (continued) — more prelude functions: map, foldr, zip, enumerate, last, init, + and *.

Same set-up as `Props/C16.lean`: the bodies are the constants of `Generated/Prelude.lean` (regenerated from
/repo/src/prelude.lisp on every run); each theorem evaluates the BODY of the definition with its parameters bound as a
call binds them, for ALL lists and ALL (pure) function values.
-/
import PiciModel.Props.C16
import PiciModel.Lemmas.PreludeSteps2

namespace Pici.C16
open Pici

section helpers
open Pici.Ref

/-- `foldl_via` for a list value with an arbitrary nil tail (`nil` of the source is a global whose value need not be the
bare null pointer) -/
theorem foldl_via' {st : St} (hl : Loaded st) (fv : Val) (d : Nat) (hd : d + 3 ≤ Config.maxRecursionDepth)
    (C : Val → Val → Val → Prop) (hcall : ∀ i x r, C i x r → Applies st fv [i, x] r (d + 1))
    (t : Val) (ht : t.isNil = true) :
    ∀ i xs z, FoldsVia C i xs z → ∀ env,
      pairParamsAndArgs Prelude.foldl_rest Prelude.foldl_params .nil none [fv, i, xs.foldr Val.cons t] = .ok env →
      RunsJ st Prelude.foldl_body env cs!"prelude" d (.ok z) := by
  obtain ⟨p1, p2, p3, hp⟩ := Prelude.foldl_params_shape
  obtain ⟨m1, m2, m3, m4, m5, m6, m7, m8, m9, m10, m11, hb⟩ := Prelude.foldl_body_shape
  obtain ⟨wf, hwf, hwfg⟩ := hl.prelude _ _ Prelude.foldl_mem
  obtain ⟨wcar, hwcar, hwcarg⟩ := hl.native .car (by decide)
  obtain ⟨wcdr, hwcdr, hwcdrg⟩ := hl.native .cdr (by decide)
  have hs := hl.sees
  have hd0 : d ≤ Config.maxRecursionDepth := by omega
  have hd1 : d + 1 ≤ Config.maxRecursionDepth := by omega
  have hd2 : d + 1 + 1 ≤ Config.maxRecursionDepth := by omega
  have hd3 : d + 1 + 1 + 1 ≤ Config.maxRecursionDepth := by omega
  intro i xs z h
  induction h with
  | nil i =>
    intro env henv
    have hE : env = .cons (.cons (symA cs!"things" p3) t) (.cons (.cons (symA cs!"init" p2) i)
        (.cons (.cons (symA cs!"f" p1) fv) .nil)) := by
      rw [hp, Prelude.foldl_rest_eq, pair3] at henv
      exact (Res.ok.inj henv).symm
    rw [hb]
    exact RunsJ.of_eval hs (ev_if_false hd0 (ev_local hd1 (by lk hE)) ht (ev_local hd0 (by lk hE)))
  | cons i x r z xs hc _ ih =>
    intro env henv
    have hE : env = .cons (.cons (symA cs!"things" p3) (.cons x (xs.foldr Val.cons t))) (.cons (.cons (symA cs!"init" p2) i)
        (.cons (.cons (symA cs!"f" p1) fv) .nil)) := by
      rw [hp, Prelude.foldl_rest_eq, pair3] at henv
      exact (Res.ok.inj henv).symm
    have hpair : pairParamsAndArgs Prelude.foldl_rest Prelude.foldl_params .nil none [fv, r, xs.foldr Val.cons t] =
        .ok (.cons (.cons (symA cs!"things" p3) (xs.foldr Val.cons t)) (.cons (.cons (symA cs!"init" p2) r)
          (.cons (.cons (symA cs!"f" p1) fv) .nil))) := by
      rw [hp, Prelude.foldl_rest_eq, pair3]
    rw [hb]
    refine RunsJ.ifTrue hl.detached hd0 (RunsJ.of_eval hs (ev_local hd1 (by lk hE))) rfl ?_
    refine RunsJ.callClosure hl.detached hd0 (listToVec_ofList _) rfl
      (RunsJ.of_eval hs (ev_global hd1 (by lk hE) hwf)) (hwfg.trans Prelude.foldl_fn_eq)
      (RunsArgsJ.cons (RunsJ.of_eval hs (ev_local hd1 (by lk hE)))
        (RunsArgsJ.cons ?_ (RunsArgsJ.cons (RunsJ.of_eval hs ?_) (RunsArgsJ.nil _ _ _ _))))
      hpair (ih _ hpair)
    · refine hcall i x r hc _ env cs!"prelude" _ _ (listToVec_ofList _) rfl rfl
        (RunsJ.of_eval hs (ev_local hd2 (by lk hE)))
        (RunsArgsJ.of_evalArgs hs (evs_two (ev_local hd2 (by lk hE)) ?_))
      exact ev_prim hd2 rfl (ev_global hd3 (by lk hE) hwcar) hwcarg rfl (evs_one (ev_local hd3 (by lk hE)))
        (prim_car _ x _ _ rfl)
    · exact ev_prim hd1 rfl (ev_global hd2 (by lk hE) hwcdr) hwcdrg rfl (evs_one (ev_local hd2 (by lk hE)))
        (prim_cdr _ x _ _ rfl)

/-- the body of `reverse` on a list value with an arbitrary nil tail, from every later step count; the tail of the result
is the value of the global `nil` -/
theorem reverse_runs {st : St} (hl : Loaded st) (xs : List Val) (t : Val) (ht : t.isNil = true) (env : Val) (d : Nat)
    (hd : d + 6 ≤ Config.maxRecursionDepth) (tail : Val) (htail : st.getGlobal cs!"nil" cs!"prelude" = .found tail)
    (henv : pairParamsAndArgs Prelude.reverse_rest Prelude.reverse_params .nil none [xs.foldr Val.cons t] = .ok env) :
    RunsJ st Prelude.reverse_body env cs!"prelude" d (.ok (xs.reverse.foldr Val.cons tail)) := by
  obtain ⟨p1, hp⟩ := Prelude.reverse_params_shape
  obtain ⟨m1, m2, m3, m4, m5, m6, m7, m8, m9, hb⟩ := Prelude.reverse_body_shape
  obtain ⟨q1, q2, q3, hq⟩ := Prelude.foldl_params_shape
  have hE : env = .cons (.cons (symA cs!"things" p1) (xs.foldr Val.cons t)) .nil := by
    rw [hp, Prelude.reverse_rest_eq, pair1] at henv
    exact (Res.ok.inj henv).symm
  obtain ⟨wf, hwf, hwfg⟩ := hl.prelude _ _ Prelude.foldl_mem
  obtain ⟨wcons, hwcons, hwconsg⟩ := hl.native .cons (by decide)
  have htail' : globalsOf st cs!"nil" cs!"prelude" = .found tail := htail
  have hs := hl.sees
  have hd0 : d ≤ Config.maxRecursionDepth := by omega
  have hd1 : d + 1 ≤ Config.maxRecursionDepth := by omega
  have hd2 : d + 1 + 1 ≤ Config.maxRecursionDepth := by omega
  let clo : Val := .fn .lambda .nil (.ofList [symA cs!"xs" m3, symA cs!"x" m4])
    (.ofList [symA cs!"cons" m5, symA cs!"x" m6, symA cs!"xs" m7]) env cs!"prelude"
  have hclo : makeFunctionInternal [.ofList [symA cs!"xs" m3, symA cs!"x" m4],
      .ofList [symA cs!"cons" m5, symA cs!"x" m6, symA cs!"xs" m7]] env cs!"prelude" cs!"lambda" .lambda = .ok clo := rfl
  have happ : ∀ i x r, r = Val.cons x i → Applies st clo [i, x] r (d + 1) := by
    intro i x r hr e env' home first operands hlv hsp hmeta hop hargs
    subst hr
    refine RunsJ.callClosure hl.detached hd1 hlv hsp hop rfl hargs (by rw [hmeta]; exact pair2 _ _ _ _ _ _) ?_
    exact RunsJ.of_eval hs (ev_prim hd1 rfl
      (ev_global hd2 (by lk hE) hwcons) hwconsg rfl
      (evs_two (ev_local hd2 (by lk0)) (ev_local hd2 (by lk0))) rfl)
  have hpair : pairParamsAndArgs Prelude.foldl_rest Prelude.foldl_params .nil none [clo, tail, xs.foldr Val.cons t] =
      .ok (.cons (.cons (symA cs!"things" q3) (xs.foldr Val.cons t)) (.cons (.cons (symA cs!"init" q2) tail)
        (.cons (.cons (symA cs!"f" q1) clo) .nil))) := by
    rw [hq, Prelude.foldl_rest_eq, pair3]
  have hfold := foldl_via' hl clo d (by omega) _ happ t ht tail xs _ (foldsVia_cons xs tail) _ hpair
  rw [hb]
  refine RunsJ.callClosure hl.detached hd0 (listToVec_ofList _) rfl
    (RunsJ.of_eval hs (ev_global hd1 (by lk hE) hwf)) (hwfg.trans Prelude.foldl_fn_eq)
    (RunsArgsJ.of_evalArgs hs (.cons (hclo ▸ ev_lambda hd1) (.cons (ev_global hd1 (by lk hE) htail')
      (.cons (ev_local hd1 (by lk hE)) .nil))))
    hpair hfold

/-- the call `(reverse e)` from a body of the prelude, when `e` runs to a list value -/
theorem call_reverse {st : St} (hl : Loaded st) {env : Val} {d : Nat} {m : Meta} {e : Val} {xs : List Val} {t : Val}
    (ht : t.isNil = true) (hd : d + 6 ≤ Config.maxRecursionDepth)
    (hlocal : lookupEnv (.named cs!"reverse") env = none)
    (tail : Val) (htail : st.getGlobal cs!"nil" cs!"prelude" = .found tail)
    (he : RunsJ st e env cs!"prelude" (d + 1) (.ok (xs.foldr Val.cons t))) :
    RunsJ st (.ofList [symA cs!"reverse" m, e]) env cs!"prelude" d (.ok (xs.reverse.foldr Val.cons tail)) := by
  obtain ⟨p1, hp⟩ := Prelude.reverse_params_shape
  obtain ⟨wf, hwf, hwfg⟩ := hl.prelude _ _ Prelude.reverse_mem
  have hpair : pairParamsAndArgs Prelude.reverse_rest Prelude.reverse_params .nil none [xs.foldr Val.cons t] =
      .ok (.cons (.cons (symA cs!"things" p1) (xs.foldr Val.cons t)) .nil) := by
    rw [hp, Prelude.reverse_rest_eq, pair1]
  exact RunsJ.callClosure hl.detached (by omega) (listToVec_ofList _) rfl
    (RunsJ.of_eval hl.sees (ev_global (by omega) hlocal hwf)) (hwfg.trans Prelude.reverse_fn_eq)
    (RunsArgsJ.cons he (RunsArgsJ.nil _ _ _ _)) hpair
    (reverse_runs hl xs t ht _ d hd tail htail hpair)

end helpers

/-- one pure call per element, left to right -/
inductive MapsTo (st : St) (f : Val) : List Val → List Val → Prop where
  | nil : MapsTo st f [] []
  | cons (x y : Val) (xs ys : List Val) : CallsTo st f [x] y → MapsTo st f xs ys → MapsTo st f (x :: xs) (y :: ys)

section helpers
open Pici.Ref

/-- the helper `-map`: `(if things (-map f (cdr things) (cons (f (car things)) init)) init)` puts the results, last one
first, in front of `init` -/
theorem fmap_runs {st : St} (hl : Loaded st) (fv : Val) (d : Nat) (hd : d + 10 ≤ Config.maxRecursionDepth)
    (t : Val) (ht : t.isNil = true) :
    ∀ xs ys, MapsTo st fv xs ys → ∀ acc env,
      pairParamsAndArgs Prelude.f_map_rest Prelude.f_map_params .nil none [fv, xs.foldr Val.cons t, acc] = .ok env →
      RunsJ st Prelude.f_map_body env cs!"prelude" d (.ok (ys.reverse.foldr Val.cons acc)) := by
  obtain ⟨p1, p2, p3, hp⟩ := Prelude.f_map_params_shape
  obtain ⟨m1, m2, m3, m4, m5, m6, m7, m8, m9, m10, m11, m12, hb⟩ := Prelude.f_map_body_shape
  obtain ⟨wf, hwf, hwfg⟩ := hl.prelude _ _ Prelude.f_map_mem
  obtain ⟨wcar, hwcar, hwcarg⟩ := hl.native .car (by decide)
  obtain ⟨wcdr, hwcdr, hwcdrg⟩ := hl.native .cdr (by decide)
  obtain ⟨wcons, hwcons, hwconsg⟩ := hl.native .cons (by decide)
  have hs := hl.sees
  have hd0 : d ≤ Config.maxRecursionDepth := by omega
  have hd1 : d + 1 ≤ Config.maxRecursionDepth := by omega
  have hd2 : d + 1 + 1 ≤ Config.maxRecursionDepth := by omega
  have hd3 : d + 1 + 1 + 1 ≤ Config.maxRecursionDepth := by omega
  have hd4 : d + 1 + 1 + 1 + 1 ≤ Config.maxRecursionDepth := by omega
  intro xs ys h
  induction h with
  | nil =>
    intro acc env henv
    have hE : env = .cons (.cons (symA cs!"init" p3) acc) (.cons (.cons (symA cs!"things" p2) t)
        (.cons (.cons (symA cs!"f" p1) fv) .nil)) := by
      rw [hp, Prelude.f_map_rest_eq, pair3] at henv
      exact (Res.ok.inj henv).symm
    rw [hb]
    exact RunsJ.of_eval hs (ev_if_false hd0 (ev_local hd1 (by lk hE)) ht (ev_local hd0 (by lk hE)))
  | cons x y xs ys hc _ ih =>
    intro acc env henv
    have hE : env = .cons (.cons (symA cs!"init" p3) acc) (.cons (.cons (symA cs!"things" p2) (.cons x (xs.foldr Val.cons t)))
        (.cons (.cons (symA cs!"f" p1) fv) .nil)) := by
      rw [hp, Prelude.f_map_rest_eq, pair3] at henv
      exact (Res.ok.inj henv).symm
    have hpair : pairParamsAndArgs Prelude.f_map_rest Prelude.f_map_params .nil none [fv, xs.foldr Val.cons t, .cons y acc] =
        .ok (.cons (.cons (symA cs!"init" p3) (.cons y acc)) (.cons (.cons (symA cs!"things" p2) (xs.foldr Val.cons t))
          (.cons (.cons (symA cs!"f" p1) fv) .nil))) := by
      rw [hp, Prelude.f_map_rest_eq, pair3]
    rw [foldr_cons_reverse_cons, hb]
    refine RunsJ.ifTrue hl.detached hd0 (RunsJ.of_eval hs (ev_local hd1 (by lk hE))) rfl ?_
    refine RunsJ.callClosure hl.detached hd0 (listToVec_ofList _) rfl
      (RunsJ.of_eval hs (ev_global hd1 (by lk hE) hwf)) (hwfg.trans Prelude.f_map_fn_eq)
      (RunsArgsJ.cons (RunsJ.of_eval hs (ev_local hd1 (by lk hE)))
        (RunsArgsJ.cons (RunsJ.of_eval hs ?_) (RunsArgsJ.cons ?_ (RunsArgsJ.nil _ _ _ _))))
      hpair (ih _ _ hpair)
    · -- `(cdr things)`
      exact ev_prim hd1 rfl (ev_global hd2 (by lk hE) hwcdr) hwcdrg rfl (evs_one (ev_local hd2 (by lk hE)))
        (prim_cdr _ x _ _ rfl)
    · -- `(cons (f (car things)) init)`: the call of `f` two levels below the body
      refine RunsJ.callPrim hl.detached hd1 (listToVec_ofList _) rfl
        (RunsJ.of_eval hs (ev_global hd2 (by lk hE) hwcons)) hwconsg rfl
        (RunsArgsJ.cons ?_ (RunsArgsJ.cons (RunsJ.of_eval hs (ev_local hd2 (by lk hE))) (RunsArgsJ.nil _ _ _ _))) rfl
      refine hc.applies hl.detached (d + 1 + 1) (by omega) _ env cs!"prelude" _ _ (listToVec_ofList _) rfl rfl
        (RunsJ.of_eval hs (ev_local hd3 (by lk hE)))
        (RunsArgsJ.of_evalArgs hs (evs_one ?_))
      exact ev_prim hd3 rfl (ev_global hd4 (by lk hE) hwcar) hwcarg rfl (evs_one (ev_local hd4 (by lk hE)))
        (prim_car _ x _ _ rfl)

end helpers

/-- `(map f things)`: the list of the results of `f` on each element, in order — for every list and every pure function
value, in depth independent of the length -/
theorem map_spec (st : St) (hl : Loaded st) (f : Val) (xs ys : List Val) (env : Val) (d : Nat)
    (hd : d + 14 ≤ Config.maxRecursionDepth)
    (hmap : MapsTo st f xs ys)
    (henv : callEnv Prelude.map_rest Prelude.map_params [f, Val.ofList xs] = some env) :
    ∃ fuel k tail, tail.isNil = true ∧
      evalInternal fuel st Prelude.map_body env cs!"prelude" d = (.ok (ys.foldr Val.cons tail), bump st k) := by
  obtain ⟨p1, p2, hp⟩ := Prelude.map_params_shape
  obtain ⟨m1, m2, m3, m4, m5, hb⟩ := Prelude.map_body_shape
  obtain ⟨q1, q2, q3, hq⟩ := Prelude.f_map_params_shape
  rw [hp, Prelude.map_rest_eq] at henv
  have hE := callEnv2 henv
  obtain ⟨wf, hwf, hwfg⟩ := hl.prelude _ _ Prelude.f_map_mem
  obtain ⟨tail, htail, htailp⟩ := hl.nil
  have hs := hl.sees
  have hd1 : d + 1 ≤ Config.maxRecursionDepth := by omega
  have hd2 : d + 1 + 1 ≤ Config.maxRecursionDepth := by omega
  have hpair : pairParamsAndArgs Prelude.f_map_rest Prelude.f_map_params .nil none [f, xs.foldr Val.cons .nil, tail] =
      .ok (.cons (.cons (symA cs!"init" q3) tail) (.cons (.cons (symA cs!"things" q2) (xs.foldr Val.cons .nil))
        (.cons (.cons (symA cs!"f" q1) f) .nil))) := by
    rw [hq, Prelude.f_map_rest_eq, pair3]
  have hmapr := fmap_runs hl f (d + 1) (by omega) .nil rfl xs ys hmap tail _ hpair
  rw [hb]
  refine ex_reorder1 tail htailp (realiseJ ?_)
  rw [← List.reverse_reverse ys]
  refine call_reverse hl htailp (by omega) (by lk hE) tail htail ?_
  rw [ofList_eq_foldr] at hE
  exact RunsJ.callClosure hl.detached hd1 (listToVec_ofList _) rfl
    (RunsJ.of_eval hs (ev_global hd2 (by lk hE) hwf)) (hwfg.trans Prelude.f_map_fn_eq)
    (RunsArgsJ.of_evalArgs hs (evs_three (ev_local hd2 (by lk hE)) (ev_local hd2 (by lk hE))
      (ev_global hd2 (by lk hE) htail)))
    hpair hmapr

/-- the right fold a list denotes under `f`, as a relation -/
inductive FoldsRight (st : St) (f : Val) (init : Val) : List Val → Val → Prop where
  | nil : FoldsRight st f init [] init
  | cons (x r z : Val) (xs : List Val) : FoldsRight st f init xs r → CallsTo st f [x, r] z → FoldsRight st f init (x :: xs) z

section helpers
open Pici.Ref

/-- the body of `foldr`, from every later step count: one level of depth per element -/
theorem foldr_runs {st : St} (hl : Loaded st) (fv init : Val) :
    ∀ xs z, FoldsRight st fv init xs z → ∀ d, d + xs.length + 12 ≤ Config.maxRecursionDepth → ∀ env,
      pairParamsAndArgs Prelude.foldr_rest Prelude.foldr_params .nil none [fv, init, .ofList xs] = .ok env →
      RunsJ st Prelude.foldr_body env cs!"prelude" d (.ok z) := by
  obtain ⟨p1, p2, p3, hp⟩ := Prelude.foldr_params_shape
  obtain ⟨m1, m2, m3, m4, m5, m6, m7, m8, m9, m10, m11, hb⟩ := Prelude.foldr_body_shape
  obtain ⟨wf, hwf, hwfg⟩ := hl.prelude _ _ Prelude.foldr_mem
  obtain ⟨wcar, hwcar, hwcarg⟩ := hl.native .car (by decide)
  obtain ⟨wcdr, hwcdr, hwcdrg⟩ := hl.native .cdr (by decide)
  have hs := hl.sees
  intro xs z h
  induction h with
  | nil =>
    intro d hd env henv
    have hE : env = .cons (.cons (symA cs!"things" p3) (.ofList [])) (.cons (.cons (symA cs!"init" p2) init)
        (.cons (.cons (symA cs!"f" p1) fv) .nil)) := by
      rw [hp, Prelude.foldr_rest_eq, pair3] at henv
      exact (Res.ok.inj henv).symm
    rw [hb]
    exact RunsJ.of_eval hs (ev_if_false (by omega) (ev_local (by omega) (by lk hE)) rfl (ev_local (by omega) (by lk hE)))
  | cons x r z xs _ hc ih =>
    intro d hd env henv
    have hlen : (x :: xs).length = xs.length + 1 := rfl
    have hd0 : d ≤ Config.maxRecursionDepth := by omega
    have hd1 : d + 1 ≤ Config.maxRecursionDepth := by omega
    have hd2 : d + 1 + 1 ≤ Config.maxRecursionDepth := by omega
    have hd3 : d + 1 + 1 + 1 ≤ Config.maxRecursionDepth := by omega
    have hE : env = .cons (.cons (symA cs!"things" p3) (.ofList (x :: xs))) (.cons (.cons (symA cs!"init" p2) init)
        (.cons (.cons (symA cs!"f" p1) fv) .nil)) := by
      rw [hp, Prelude.foldr_rest_eq, pair3] at henv
      exact (Res.ok.inj henv).symm
    have hpair : pairParamsAndArgs Prelude.foldr_rest Prelude.foldr_params .nil none [fv, init, .ofList xs] =
        .ok (.cons (.cons (symA cs!"things" p3) (.ofList xs)) (.cons (.cons (symA cs!"init" p2) init)
          (.cons (.cons (symA cs!"f" p1) fv) .nil))) := by
      rw [hp, Prelude.foldr_rest_eq, pair3]
    rw [hb]
    refine RunsJ.ifTrue hl.detached hd0 (RunsJ.of_eval hs (ev_local hd1 (by lk hE))) (ofList_isNil_cons x xs) ?_
    -- `(f (car things) (foldr f init (cdr things)))`: the call of `f` at the depth of the body
    refine hc.applies hl.detached d (by omega) _ env cs!"prelude" _ _ (listToVec_ofList _) rfl rfl
      (RunsJ.of_eval hs (ev_local hd1 (by lk hE)))
      (RunsArgsJ.cons (RunsJ.of_eval hs ?_) (RunsArgsJ.cons ?_ (RunsArgsJ.nil _ _ _ _)))
    · exact ev_prim hd1 rfl (ev_global hd2 (by lk hE) hwcar) hwcarg rfl (evs_one (ev_local hd2 (by lk hE)))
        (prim_car _ x _ _ (ofList_get_cons x xs))
    · -- the recursive call, one level down
      refine RunsJ.callClosure hl.detached hd1 (listToVec_ofList _) rfl
        (RunsJ.of_eval hs (ev_global hd2 (by lk hE) hwf)) (hwfg.trans Prelude.foldr_fn_eq)
        (RunsArgsJ.of_evalArgs hs (evs_three (ev_local hd2 (by lk hE)) (ev_local hd2 (by lk hE)) ?_))
        hpair (ih (d + 1) (by omega) _ hpair)
      exact ev_prim hd2 rfl (ev_global hd3 (by lk hE) hwcdr) hwcdrg rfl (evs_one (ev_local hd3 (by lk hE)))
        (prim_cdr _ x _ _ (ofList_get_cons x xs))

end helpers

/-- `(foldr f init things)`: f applied to the last element and init, then to the element before and that result, … —
for every list that fits below the depth limit (foldr is not tail recursive: one level per element) -/
theorem foldr_spec (st : St) (hl : Loaded st) (f init z : Val) (xs : List Val) (env : Val) (d : Nat)
    (hd : d + xs.length + 12 ≤ Config.maxRecursionDepth)
    (hfold : FoldsRight st f init xs z)
    (henv : callEnv Prelude.foldr_rest Prelude.foldr_params [f, init, Val.ofList xs] = some env) :
    ∃ fuel k, evalInternal fuel st Prelude.foldr_body env cs!"prelude" d = (.ok z, bump st k) :=
  realiseJ (foldr_runs hl f init xs z hfold d hd env (callEnv_ok henv))

section helpers
open Pici.Ref

/-- the helper `-zip`: puts the pairs of corresponding elements, last pair first, in front of `init` -/
theorem fzip_eval {st : St} (hl : Loaded st) (d : Nat) (hd : d + 4 ≤ Config.maxRecursionDepth)
    (t1 t2 : Val) (ht1 : t1.isNil = true) (ht2 : t2.isNil = true) :
    ∀ (xs ys : List Val) (acc env : Val),
      pairParamsAndArgs Prelude.f_zip_rest Prelude.f_zip_params .nil none
        [xs.foldr Val.cons t1, ys.foldr Val.cons t2, acc] = .ok env →
      Eval (globalsOf st) env cs!"prelude" d Prelude.f_zip_body
        (.ok ((List.zipWith Val.cons xs ys).reverse.foldr Val.cons acc)) := by
  obtain ⟨p1, p2, p3, hp⟩ := Prelude.f_zip_params_shape
  obtain ⟨m1, m2, m3, m4, m5, m6, m7, m8, m9, m10, m11, m12, m13, m14, m15, m16, m17, m18, hb⟩ := Prelude.f_zip_body_shape
  obtain ⟨wf, hwf, hwfg⟩ := hl.prelude _ _ Prelude.f_zip_mem
  obtain ⟨wcar, hwcar, hwcarg⟩ := hl.native .car (by decide)
  obtain ⟨wcdr, hwcdr, hwcdrg⟩ := hl.native .cdr (by decide)
  obtain ⟨wcons, hwcons, hwconsg⟩ := hl.native .cons (by decide)
  have hd0 : d ≤ Config.maxRecursionDepth := by omega
  have hd1 : d + 1 ≤ Config.maxRecursionDepth := by omega
  have hd2 : d + 1 + 1 ≤ Config.maxRecursionDepth := by omega
  have hd3 : d + 1 + 1 + 1 ≤ Config.maxRecursionDepth := by omega
  have hd4 : d + 1 + 1 + 1 + 1 ≤ Config.maxRecursionDepth := by omega
  intro xs
  induction xs with
  | nil =>
    intro ys acc env henv
    have hE : env = .cons (.cons (symA cs!"init" p3) acc) (.cons (.cons (symA cs!"things2" p2) (ys.foldr Val.cons t2))
        (.cons (.cons (symA cs!"things1" p1) t1) .nil)) := by
      rw [hp, Prelude.f_zip_rest_eq, pair3] at henv
      exact (Res.ok.inj henv).symm
    rw [hb]
    exact ev_if_false hd0 (ev_local hd1 (by lk hE)) ht1 (ev_local hd0 (by lk hE))
  | cons x xs ih =>
    intro ys acc env henv
    cases ys with
    | nil =>
      have hE : env = .cons (.cons (symA cs!"init" p3) acc) (.cons (.cons (symA cs!"things2" p2) t2)
          (.cons (.cons (symA cs!"things1" p1) (.cons x (xs.foldr Val.cons t1))) .nil)) := by
        rw [hp, Prelude.f_zip_rest_eq, pair3] at henv
        exact (Res.ok.inj henv).symm
      rw [hb]
      exact ev_if_true hd0 (ev_local hd1 (by lk hE)) rfl
        (ev_if_false hd0 (ev_local hd1 (by lk hE)) ht2 (ev_local hd0 (by lk hE)))
    | cons y ys =>
      have hE : env = .cons (.cons (symA cs!"init" p3) acc)
          (.cons (.cons (symA cs!"things2" p2) (.cons y (ys.foldr Val.cons t2)))
          (.cons (.cons (symA cs!"things1" p1) (.cons x (xs.foldr Val.cons t1))) .nil)) := by
        rw [hp, Prelude.f_zip_rest_eq, pair3] at henv
        exact (Res.ok.inj henv).symm
      have hpair : pairParamsAndArgs Prelude.f_zip_rest Prelude.f_zip_params .nil none
          [xs.foldr Val.cons t1, ys.foldr Val.cons t2, .cons (.cons x y) acc] =
          .ok (.cons (.cons (symA cs!"init" p3) (.cons (.cons x y) acc))
            (.cons (.cons (symA cs!"things2" p2) (ys.foldr Val.cons t2))
            (.cons (.cons (symA cs!"things1" p1) (xs.foldr Val.cons t1)) .nil))) := by
        rw [hp, Prelude.f_zip_rest_eq, pair3]
      have hev := ih ys (.cons (.cons x y) acc) _ hpair
      rw [List.zipWith_cons_cons, foldr_cons_reverse_cons, hb]
      refine ev_if_true hd0 (ev_local hd1 (by lk hE)) rfl (ev_if_true hd0 (ev_local hd1 (by lk hE)) rfl ?_)
      refine ev_call hd0 rfl (ev_global hd1 (by lk hE) hwf) (hwfg.trans Prelude.f_zip_fn_eq) (evs_three ?_ ?_ ?_) hpair hev
      · exact ev_prim hd1 rfl (ev_global hd2 (by lk hE) hwcdr) hwcdrg rfl (evs_one (ev_local hd2 (by lk hE)))
          (prim_cdr _ x _ _ rfl)
      · exact ev_prim hd1 rfl (ev_global hd2 (by lk hE) hwcdr) hwcdrg rfl (evs_one (ev_local hd2 (by lk hE)))
          (prim_cdr _ y _ _ rfl)
      · refine ev_prim hd1 rfl (ev_global hd2 (by lk hE) hwcons) hwconsg rfl
          (evs_two ?_ (ev_local hd2 (by lk hE))) rfl
        refine ev_prim hd2 rfl (ev_global hd3 (by lk hE) hwcons) hwconsg rfl (evs_two ?_ ?_) rfl
        · exact ev_prim hd3 rfl (ev_global hd4 (by lk hE) hwcar) hwcarg rfl (evs_one (ev_local hd4 (by lk hE)))
            (prim_car _ x _ _ rfl)
        · exact ev_prim hd3 rfl (ev_global hd4 (by lk hE) hwcar) hwcarg rfl (evs_one (ev_local hd4 (by lk hE)))
            (prim_car _ y _ _ rfl)

/-- the body of `zip` on list values with arbitrary nil tails, from every later step count -/
theorem zip_runs {st : St} (hl : Loaded st) (xs ys : List Val) (t1 t2 : Val) (ht1 : t1.isNil = true) (ht2 : t2.isNil = true)
    (env : Val) (d : Nat) (hd : d + 6 ≤ Config.maxRecursionDepth)
    (tail : Val) (htail : st.getGlobal cs!"nil" cs!"prelude" = .found tail)
    (henv : pairParamsAndArgs Prelude.zip_rest Prelude.zip_params .nil none
      [xs.foldr Val.cons t1, ys.foldr Val.cons t2] = .ok env) :
    RunsJ st Prelude.zip_body env cs!"prelude" d (.ok ((List.zipWith Val.cons xs ys).foldr Val.cons tail)) := by
  obtain ⟨p1, p2, hp⟩ := Prelude.zip_params_shape
  obtain ⟨m1, m2, m3, m4, m5, hb⟩ := Prelude.zip_body_shape
  obtain ⟨q1, q2, q3, hq⟩ := Prelude.f_zip_params_shape
  have hE : env = .cons (.cons (symA cs!"things2" p2) (ys.foldr Val.cons t2))
      (.cons (.cons (symA cs!"things1" p1) (xs.foldr Val.cons t1)) .nil) := by
    rw [hp, Prelude.zip_rest_eq, pair2] at henv
    exact (Res.ok.inj henv).symm
  obtain ⟨wf, hwf, hwfg⟩ := hl.prelude _ _ Prelude.f_zip_mem
  obtain ⟨tail', htail', htailp⟩ := hl.nil
  have hs := hl.sees
  have hd1 : d + 1 ≤ Config.maxRecursionDepth := by omega
  have hd2 : d + 1 + 1 ≤ Config.maxRecursionDepth := by omega
  have hpair : pairParamsAndArgs Prelude.f_zip_rest Prelude.f_zip_params .nil none
      [xs.foldr Val.cons t1, ys.foldr Val.cons t2, tail'] =
      .ok (.cons (.cons (symA cs!"init" q3) tail') (.cons (.cons (symA cs!"things2" q2) (ys.foldr Val.cons t2))
        (.cons (.cons (symA cs!"things1" q1) (xs.foldr Val.cons t1)) .nil))) := by
    rw [hq, Prelude.f_zip_rest_eq, pair3]
  have hz := fzip_eval hl (d + 1) (by omega) t1 t2 ht1 ht2 xs ys tail' _ hpair
  rw [hb]
  rw [← List.reverse_reverse (List.zipWith Val.cons xs ys)]
  refine call_reverse hl htailp (by omega) (by lk hE) tail htail (RunsJ.of_eval hs ?_)
  exact ev_call hd1 rfl (ev_global hd2 (by lk hE) hwf) (hwfg.trans Prelude.f_zip_fn_eq)
    (evs_three (ev_local hd2 (by lk hE)) (ev_local hd2 (by lk hE)) (ev_global hd2 (by lk hE) htail')) hpair hz

end helpers

/-- `(zip things1 things2)`: the pairs of corresponding elements, as many as the shorter list has -/
theorem zip_spec (st : St) (hl : Loaded st) (xs ys : List Val) (env : Val) (d : Nat)
    (hd : d + 12 ≤ Config.maxRecursionDepth)
    (henv : callEnv Prelude.zip_rest Prelude.zip_params [Val.ofList xs, Val.ofList ys] = some env) :
    ∃ fuel k tail, tail.isNil = true ∧
      evalInternal fuel st Prelude.zip_body env cs!"prelude" d =
        (.ok ((List.zipWith Val.cons xs ys).foldr Val.cons tail), bump st k) := by
  obtain ⟨tail, htail, htailp⟩ := hl.nil
  have henv' := callEnv_ok henv
  rw [ofList_eq_foldr, ofList_eq_foldr] at henv'
  exact ex_reorder1 tail htailp (realiseJ (zip_runs hl xs ys .nil .nil rfl rfl env d (by omega) tail htail henv'))

section helpers
open Pici.Ref

/-- the body of `length` in the reference semantics -/
theorem length_eval {st : St} (hl : Loaded st) (xs : List Val) (env : Val) (d : Nat)
    (hlen : (xs.length : Int) ≤ i64Max) (hd : d + 2 ≤ Config.maxRecursionDepth)
    (henv : pairParamsAndArgs Prelude.length_rest Prelude.length_params .nil none [Val.ofList xs] = .ok env) :
    ∃ r, r.get = .num xs.length ∧ Eval (globalsOf st) env cs!"prelude" d Prelude.length_body (.ok r) := by
  obtain ⟨p1, hp⟩ := Prelude.length_params_shape
  obtain ⟨m1, m2, m3, hb⟩ := Prelude.length_body_shape
  obtain ⟨q1, q2, hq⟩ := Prelude.f_length_params_shape
  have hE : env = .cons (.cons (symA cs!"things" p1) (.ofList xs)) .nil := by
    rw [hp, Prelude.length_rest_eq, pair1] at henv
    exact (Res.ok.inj henv).symm
  obtain ⟨wf, hwf, hwfg⟩ := hl.prelude _ _ Prelude.f_length_mem
  have hd0 : d ≤ Config.maxRecursionDepth := by omega
  have hd1 : d + 1 ≤ Config.maxRecursionDepth := by omega
  have hpair : pairParamsAndArgs Prelude.f_length_rest Prelude.f_length_params .nil none [.ofList xs, numA 0 m3] =
      .ok (.cons (.cons (symA cs!"n" q2) (numA 0 m3)) (.cons (.cons (symA cs!"things" q1) (.ofList xs)) .nil)) := by
    rw [hq, Prelude.f_length_rest_eq, pair2]
  obtain ⟨r, hr, hev⟩ := flength_eval hl d (by omega) xs 0 (numA 0 m3) _ rfl (by omega) (by omega) hpair
  refine ⟨r, by rw [hr, Int.zero_add], ?_⟩
  rw [hb]
  exact ev_call hd0 rfl (ev_global hd1 (by lk hE) hwf) (hwfg.trans Prelude.f_length_fn_eq)
    (evs_two (ev_local hd1 (by lk hE)) (ev_num hd1)) hpair hev

/-- the body of `range` in the reference semantics, on a number value that may carry metadata -/
theorem range_eval {st : St} (hl : Loaded st) (n : Int) (nv env : Val) (d : Nat) (hnv : nv.get = .num n)
    (hn : i64Min < n ∧ n ≤ i64Max) (hd : d + 4 ≤ Config.maxRecursionDepth)
    (tail : Val) (htail : st.getGlobal cs!"nil" cs!"prelude" = .found tail)
    (henv : pairParamsAndArgs Prelude.range_rest Prelude.range_params .nil none [nv] = .ok env) :
    Eval (globalsOf st) env cs!"prelude" d Prelude.range_body
      (.ok (((List.range n.toNat).map fun (i : Nat) => Val.num (Int.ofNat i)).foldr Val.cons tail)) := by
  obtain ⟨p1, hp⟩ := Prelude.range_params_shape
  obtain ⟨m1, m2, m3, m4, m5, hb⟩ := Prelude.range_body_shape
  obtain ⟨q1, q2, hq⟩ := Prelude.f_range_params_shape
  have hE : env = .cons (.cons (symA cs!"n" p1) nv) .nil := by
    rw [hp, Prelude.range_rest_eq, pair1] at henv
    exact (Res.ok.inj henv).symm
  obtain ⟨wf, hwf, hwfg⟩ := hl.prelude _ _ Prelude.f_range_mem
  obtain ⟨wsub, hwsub, hwsubg⟩ := hl.native .substract (by decide)
  have htail' : globalsOf st cs!"nil" cs!"prelude" = .found tail := htail
  have hd0 : d ≤ Config.maxRecursionDepth := by omega
  have hd1 : d + 1 ≤ Config.maxRecursionDepth := by omega
  have hd2 : d + 1 + 1 ≤ Config.maxRecursionDepth := by omega
  have hrn : inRange n = true := by rw [inRange_iff]; unfold i64Min i64Max at hn; omega
  have hrn1 : inRange (n - 1) = true := by rw [inRange_iff]; unfold i64Min i64Max at hn; omega
  have hpair : pairParamsAndArgs Prelude.f_range_rest Prelude.f_range_params .nil none [.num (n - 1), tail] =
      .ok (.cons (.cons (symA cs!"init" q2) tail) (.cons (.cons (symA cs!"n" q1) (.num (n - 1))) .nil)) := by
    rw [hq, Prelude.f_range_rest_eq, pair2]
  have hev := frange_eval hl d (by omega) n.toNat (n - 1) tail _ hrn1 (by rw [Int.sub_add_cancel]) hpair
  rw [hb]
  refine ev_call hd0 rfl (ev_global hd1 (by lk hE) hwf) (hwfg.trans Prelude.f_range_fn_eq) (evs_two ?_ ?_) hpair hev
  · exact ev_prim hd1 rfl (ev_global hd2 (by lk hE) hwsub) hwsubg rfl
      (evs_two (ev_local hd2 (by lk hE)) (ev_num hd2))
      (prim_substract _ _ n 1 _ hnv (numA_get 1 m4) hrn (by decide) hrn1)
  · exact ev_global hd1 (by lk hE) htail'

end helpers

/-- `(enumerate things)`: every element paired with its index, starting from 0 -/
theorem enumerate_spec (st : St) (hl : Loaded st) (xs : List Val) (env : Val) (d : Nat)
    (hlen : (xs.length : Int) ≤ i64Max) (hd : d + 14 ≤ Config.maxRecursionDepth)
    (henv : callEnv Prelude.enumerate_rest Prelude.enumerate_params [Val.ofList xs] = some env) :
    ∃ fuel k tail, tail.isNil = true ∧
      evalInternal fuel st Prelude.enumerate_body env cs!"prelude" d =
        (.ok ((List.zipWith Val.cons xs ((List.range xs.length).map fun (i : Nat) => Val.num (Int.ofNat i))).foldr Val.cons tail),
         bump st k) := by
  obtain ⟨p1, hp⟩ := Prelude.enumerate_params_shape
  obtain ⟨m1, m2, m3, m4, m5, hb⟩ := Prelude.enumerate_body_shape
  obtain ⟨q1, hq⟩ := Prelude.length_params_shape
  obtain ⟨r1, hr⟩ := Prelude.range_params_shape
  obtain ⟨z1, z2, hz⟩ := Prelude.zip_params_shape
  rw [hp, Prelude.enumerate_rest_eq] at henv
  have hE := callEnv1 henv
  obtain ⟨wzip, hwzip, hwzipg⟩ := hl.prelude _ _ Prelude.zip_mem
  obtain ⟨wrange, hwrange, hwrangeg⟩ := hl.prelude _ _ Prelude.range_mem
  obtain ⟨wlen, hwlen, hwleng⟩ := hl.prelude _ _ Prelude.length_mem
  obtain ⟨tail, htail, htailp⟩ := hl.nil
  have hs := hl.sees
  have hd0 : d ≤ Config.maxRecursionDepth := by omega
  have hd1 : d + 1 ≤ Config.maxRecursionDepth := by omega
  have hd2 : d + 1 + 1 ≤ Config.maxRecursionDepth := by omega
  have hd3 : d + 1 + 1 + 1 ≤ Config.maxRecursionDepth := by omega
  -- `(length things)`, two levels down
  have hpairL : pairParamsAndArgs Prelude.length_rest Prelude.length_params .nil none [Val.ofList xs] =
      .ok (.cons (.cons (symA cs!"things" q1) (.ofList xs)) .nil) := by
    rw [hq, Prelude.length_rest_eq, pair1]
  obtain ⟨nv, hnv, hlenE⟩ := length_eval hl xs _ (d + 1 + 1) hlen (by omega) hpairL
  -- `(range …)`, one level down
  have hpairR : pairParamsAndArgs Prelude.range_rest Prelude.range_params .nil none [nv] =
      .ok (.cons (.cons (symA cs!"n" r1) nv) .nil) := by
    rw [hr, Prelude.range_rest_eq, pair1]
  have hnr : i64Min < (xs.length : Int) ∧ (xs.length : Int) ≤ i64Max := by
    refine ⟨?_, hlen⟩
    unfold i64Min; omega
  have hrangeE := range_eval hl (xs.length : Int) nv _ (d + 1) hnv hnr (by omega) tail htail hpairR
  rw [Int.toNat_natCast] at hrangeE
  -- `(zip things …)`
  have hpairZ : pairParamsAndArgs Prelude.zip_rest Prelude.zip_params .nil none
      [xs.foldr Val.cons .nil,
       ((List.range xs.length).map fun (i : Nat) => Val.num (Int.ofNat i)).foldr Val.cons tail] =
      .ok (.cons (.cons (symA cs!"things2" z2)
          (((List.range xs.length).map fun (i : Nat) => Val.num (Int.ofNat i)).foldr Val.cons tail))
        (.cons (.cons (symA cs!"things1" z1) (xs.foldr Val.cons .nil)) .nil)) := by
    rw [hz, Prelude.zip_rest_eq, pair2]
  have hzip := zip_runs hl xs ((List.range xs.length).map fun (i : Nat) => Val.num (Int.ofNat i)) .nil tail rfl htailp
    _ d (by omega) tail htail hpairZ
  have hE' : env = .cons (.cons (symA cs!"things" p1) (xs.foldr Val.cons .nil)) .nil := by
    rw [← ofList_eq_foldr]; exact hE
  rw [hb]
  refine ex_reorder1 tail htailp (realiseJ ?_)
  refine RunsJ.callClosure hl.detached hd0 (listToVec_ofList _) rfl
    (RunsJ.of_eval hs (ev_global hd1 (by lk hE) hwzip)) (hwzipg.trans Prelude.zip_fn_eq)
    (RunsArgsJ.of_evalArgs hs (evs_two (ev_local hd1 (by lk hE')) ?_))
    hpairZ hzip
  refine ev_call hd1 rfl (ev_global hd2 (by lk hE) hwrange) (hwrangeg.trans Prelude.range_fn_eq) (evs_one ?_) hpairR hrangeE
  exact ev_call hd2 rfl (ev_global hd3 (by lk hE) hwlen) (hwleng.trans Prelude.length_fn_eq)
    (evs_one (ev_local hd3 (by lk hE))) hpairL hlenE

section helpers
open Pici.Ref

/-- the body of `last` on a non-empty list, in the reference semantics -/
theorem last_eval {st : St} (hl : Loaded st) (d : Nat) (hd : d + 2 ≤ Config.maxRecursionDepth) (x : Val) :
    ∀ (xs : List Val) (env : Val),
      pairParamsAndArgs Prelude.last_rest Prelude.last_params .nil none [Val.ofList (xs ++ [x])] = .ok env →
      Eval (globalsOf st) env cs!"prelude" d Prelude.last_body (.ok x) := by
  obtain ⟨p1, hp⟩ := Prelude.last_params_shape
  obtain ⟨m1, m2, m3, m4, m5, m6, m7, m8, m9, m10, m11, m12, m13, m14, m15, m16, m17, m18, hb⟩ := Prelude.last_body_shape
  obtain ⟨wf, hwf, hwfg⟩ := hl.prelude _ _ Prelude.last_mem
  obtain ⟨wcar, hwcar, hwcarg⟩ := hl.native .car (by decide)
  obtain ⟨wcdr, hwcdr, hwcdrg⟩ := hl.native .cdr (by decide)
  have hd0 : d ≤ Config.maxRecursionDepth := by omega
  have hd1 : d + 1 ≤ Config.maxRecursionDepth := by omega
  have hd2 : d + 1 + 1 ≤ Config.maxRecursionDepth := by omega
  intro xs
  induction xs with
  | nil =>
    intro env henv
    have hE : env = .cons (.cons (symA cs!"things" p1) (.ofList [x])) .nil := by
      rw [hp, Prelude.last_rest_eq, pair1] at henv
      exact (Res.ok.inj henv).symm
    rw [hb]
    refine ev_if_true hd0 (ev_local hd1 (by lk hE)) rfl (ev_if_false (v := .nil) hd0 ?_ rfl ?_)
    · exact ev_prim hd1 rfl (ev_global hd2 (by lk hE) hwcdr) hwcdrg rfl (evs_one (ev_local hd2 (by lk hE)))
        (prim_cdr _ x _ _ rfl)
    · exact ev_prim hd0 rfl (ev_global hd1 (by lk hE) hwcar) hwcarg rfl (evs_one (ev_local hd1 (by lk hE)))
        (prim_car _ x _ _ rfl)
  | cons y ys ih =>
    intro env henv
    have hE : env = .cons (.cons (symA cs!"things" p1) (.ofList (y :: (ys ++ [x])))) .nil := by
      rw [hp, Prelude.last_rest_eq, pair1] at henv
      exact (Res.ok.inj henv).symm
    have hpair : pairParamsAndArgs Prelude.last_rest Prelude.last_params .nil none [Val.ofList (ys ++ [x])] =
        .ok (.cons (.cons (symA cs!"things" p1) (.ofList (ys ++ [x]))) .nil) := by
      rw [hp, Prelude.last_rest_eq, pair1]
    have hne : (Val.ofList (ys ++ [x])).isNil = false := by
      cases ys <;> rfl
    rw [hb]
    refine ev_if_true hd0 (ev_local hd1 (by lk hE)) rfl (ev_if_true (v := .ofList (ys ++ [x])) hd0 ?_ hne ?_)
    · exact ev_prim hd1 rfl (ev_global hd2 (by lk hE) hwcdr) hwcdrg rfl (evs_one (ev_local hd2 (by lk hE)))
        (prim_cdr _ y _ _ rfl)
    · refine ev_call hd0 rfl (ev_global hd1 (by lk hE) hwf) (hwfg.trans Prelude.last_fn_eq) (evs_one ?_) hpair
        (ih _ hpair)
      exact ev_prim hd1 rfl (ev_global hd2 (by lk hE) hwcdr) hwcdrg rfl (evs_one (ev_local hd2 (by lk hE)))
        (prim_cdr _ y _ _ rfl)

end helpers

/-- `(last things)`: the last element of every non-empty list, in depth independent of the length -/
theorem last_spec (st : St) (hl : Loaded st) (xs : List Val) (x : Val) (env : Val) (d : Nat)
    (hd : d + 6 ≤ Config.maxRecursionDepth)
    (henv : callEnv Prelude.last_rest Prelude.last_params [Val.ofList (xs ++ [x])] = some env) :
    ∃ fuel k, evalInternal fuel st Prelude.last_body env cs!"prelude" d = (.ok x, bump st k) :=
  hl.realise (last_eval hl d (by omega) x xs env (callEnv_ok henv))

/-- `(last nil)` signals: the outcome is an error, never a value -/
theorem last_empty (st : St) (hl : Loaded st) (env : Val) (d : Nat)
    (hd : d + 6 ≤ Config.maxRecursionDepth)
    (henv : callEnv Prelude.last_rest Prelude.last_params [Val.ofList []] = some env) :
    ∃ fuel k payload, payload.isNil = false ∧
      evalInternal fuel st Prelude.last_body env cs!"prelude" d = (.err payload, bump st k) := by
  obtain ⟨p1, hp⟩ := Prelude.last_params_shape
  obtain ⟨m1, m2, m3, m4, m5, m6, m7, m8, m9, m10, m11, m12, m13, m14, m15, m16, m17, m18, hb⟩ := Prelude.last_body_shape
  rw [hp, Prelude.last_rest_eq] at henv
  have hE := callEnv1 henv
  obtain ⟨wsig, hwsig, hwsigg⟩ := hl.native .signal (by decide)
  obtain ⟨wlist, hwlist, hwlistg⟩ := hl.native .list (by decide)
  have hs := hl.sees
  have hd0 : d ≤ Config.maxRecursionDepth := by omega
  have hd1 : d + 1 ≤ Config.maxRecursionDepth := by omega
  have hd2 : d + 1 + 1 ≤ Config.maxRecursionDepth := by omega
  -- the payload: the list of the six quoted symbols, each with its reader metadata
  let payload : Val := .ofList [symA cs!"kind" m13, symA cs!"wrong-argument" m14, symA cs!"soruce" m15,
    symA cs!"last" m16, symA cs!"details" m17, symA cs!"empty-list" m18]
  have hrun : RunsJ st Prelude.last_body env cs!"prelude" d (.err payload) := by
    rw [hb]
    refine RunsJ.ifFalse hl.detached hd0 (RunsJ.of_eval hs (ev_local hd1 (by lk hE))) rfl ?_
    refine RunsJ.callNativeRes hl.detached hd0 (listToVec_ofList _) rfl
      (RunsJ.of_eval hs (ev_global hd1 (by lk hE) hwsig)) hwsigg (by decide)
      (RunsArgsJ.of_evalArgs hs (evs_one ?_)) (fun fuel j => applyNative_signal fuel _ payload env (d + 1) rfl)
    exact ev_prim hd1 rfl (ev_global hd2 (by lk hE) hwlist) hwlistg rfl
      (.cons (ev_quoA hd2) (.cons (ev_quoA hd2) (.cons (ev_quoA hd2) (.cons (ev_quoA hd2)
        (.cons (ev_quoA hd2) (.cons (ev_quoA hd2) .nil)))))) rfl
  obtain ⟨fuel, k, h⟩ := hrun.at_zero
  exact ⟨fuel, k, payload, rfl, h⟩

section helpers
open Pici.Ref

/-- the body of `init` in the reference semantics: one level of depth per element -/
theorem init_eval {st : St} (hl : Loaded st) (tail : Val) (htail : st.getGlobal cs!"nil" cs!"prelude" = .found tail) :
    ∀ (xs : List Val) (d : Nat), d + xs.length + 3 ≤ Config.maxRecursionDepth → ∀ (env : Val),
      pairParamsAndArgs Prelude.init_rest Prelude.init_params .nil none [Val.ofList xs] = .ok env →
      Eval (globalsOf st) env cs!"prelude" d Prelude.init_body (.ok (xs.dropLast.foldr Val.cons tail)) := by
  obtain ⟨p1, hp⟩ := Prelude.init_params_shape
  obtain ⟨m1, m2, m3, m4, m5, m6, m7, m8, m9, m10, m11, m12, m13, hb⟩ := Prelude.init_body_shape
  obtain ⟨wf, hwf, hwfg⟩ := hl.prelude _ _ Prelude.init_mem
  obtain ⟨wcar, hwcar, hwcarg⟩ := hl.native .car (by decide)
  obtain ⟨wcdr, hwcdr, hwcdrg⟩ := hl.native .cdr (by decide)
  obtain ⟨wcons, hwcons, hwconsg⟩ := hl.native .cons (by decide)
  have htail' : globalsOf st cs!"nil" cs!"prelude" = .found tail := htail
  intro xs
  induction xs with
  | nil =>
    intro d hd env henv
    have hE : env = .cons (.cons (symA cs!"things" p1) (.ofList [])) .nil := by
      rw [hp, Prelude.init_rest_eq, pair1] at henv
      exact (Res.ok.inj henv).symm
    rw [hb]
    exact ev_if_false (by omega) (ev_local (by omega) (by lk hE)) rfl (ev_global (by omega) (by lk hE) htail')
  | cons x xs ih =>
    intro d hd env henv
    have hlen : (x :: xs).length = xs.length + 1 := rfl
    have hd0 : d ≤ Config.maxRecursionDepth := by omega
    have hd1 : d + 1 ≤ Config.maxRecursionDepth := by omega
    have hd2 : d + 1 + 1 ≤ Config.maxRecursionDepth := by omega
    have hd3 : d + 1 + 1 + 1 ≤ Config.maxRecursionDepth := by omega
    have hE : env = .cons (.cons (symA cs!"things" p1) (.ofList (x :: xs))) .nil := by
      rw [hp, Prelude.init_rest_eq, pair1] at henv
      exact (Res.ok.inj henv).symm
    rw [hb]
    refine ev_if_true hd0 (ev_local hd1 (by lk hE)) rfl ?_
    have hcdr : Eval (globalsOf st) env cs!"prelude" (d + 1)
        (.ofList [symA cs!"cdr" m4, symA cs!"things" m5]) (.ok (.ofList xs)) :=
      ev_prim hd1 rfl (ev_global hd2 (by lk hE) hwcdr) hwcdrg rfl (evs_one (ev_local hd2 (by lk hE)))
        (prim_cdr _ x _ _ rfl)
    cases xs with
    | nil =>
      exact ev_if_false hd0 hcdr rfl (ev_global hd0 (by lk hE) htail')
    | cons y ys =>
      have hpair : pairParamsAndArgs Prelude.init_rest Prelude.init_params .nil none [Val.ofList (y :: ys)] =
          .ok (.cons (.cons (symA cs!"things" p1) (.ofList (y :: ys))) .nil) := by
        rw [hp, Prelude.init_rest_eq, pair1]
      have hlen2 : (y :: ys).length = ys.length + 1 := rfl
      have hrec := ih (d + 1) (by omega) _ hpair
      rw [List.dropLast_cons_cons, List.foldr_cons]
      refine ev_if_true hd0 hcdr rfl ?_
      refine ev_prim hd0 rfl (ev_global hd1 (by lk hE) hwcons) hwconsg rfl (evs_two ?_ ?_) rfl
      · exact ev_prim hd1 rfl (ev_global hd2 (by lk hE) hwcar) hwcarg rfl (evs_one (ev_local hd2 (by lk hE)))
          (prim_car _ x _ _ rfl)
      · refine ev_call hd1 rfl (ev_global hd2 (by lk hE) hwf) (hwfg.trans Prelude.init_fn_eq) (evs_one ?_) hpair hrec
        exact ev_prim hd2 rfl (ev_global hd3 (by lk hE) hwcdr) hwcdrg rfl (evs_one (ev_local hd3 (by lk hE)))
          (prim_cdr _ x _ _ rfl)

end helpers

/-- `(init things)`: all elements except the last one, for every list that fits below the depth limit (init is not
tail recursive); the empty list gives the empty list -/
theorem init_spec (st : St) (hl : Loaded st) (xs : List Val) (env : Val) (d : Nat)
    (hd : d + xs.length + 6 ≤ Config.maxRecursionDepth)
    (henv : callEnv Prelude.init_rest Prelude.init_params [Val.ofList xs] = some env) :
    ∃ fuel k tail, tail.isNil = true ∧
      evalInternal fuel st Prelude.init_body env cs!"prelude" d = (.ok (xs.dropLast.foldr Val.cons tail), bump st k) := by
  obtain ⟨tail, htail, htailp⟩ := hl.nil
  exact ex_reorder1 tail htailp (hl.realise (init_eval hl tail htail xs d (by omega) env (callEnv_ok henv)))

/-- the partial sums of a list of integers all fit into 64 bits -/
def SumsFit : Int → List Int → Prop
  | _, [] => True
  | acc, n :: ns => i64Min ≤ acc + n ∧ acc + n ≤ i64Max ∧ SumsFit (acc + n) ns

section helpers
open Pici.Ref

/-- one application of a binary arithmetic primitive to two numbers in range with a result in range -/
def ArithCall (f : Int → Int → Int) (i x r : Val) : Prop :=
  ∃ a b, i.get = .num a ∧ x.get = .num b ∧ inRange a = true ∧ inRange b = true ∧ inRange (f a b) = true ∧ r = .num (f a b)

theorem inRange_of_bounds {n : Int} (h : i64Min ≤ n ∧ n ≤ i64Max) : inRange n = true := by
  rw [inRange_iff]; unfold i64Min i64Max at h; omega

/-- the left fold of `add` over numbers whose partial sums fit -/
theorem foldsVia_add : ∀ (ns : List Int) (acc : Int) (iv : Val), iv.get = .num acc → inRange acc = true →
    (∀ n ∈ ns, i64Min ≤ n ∧ n ≤ i64Max) → SumsFit acc ns →
    ∃ z, z.get = .num (acc + ns.sum) ∧ FoldsVia (ArithCall (· + ·)) iv (ns.map Val.num) z := by
  intro ns
  induction ns with
  | nil => intro acc iv hiv _ _ _; exact ⟨iv, by simpa using hiv, .nil iv⟩
  | cons n ns ih =>
    intro acc iv hiv hacc hin hfit
    obtain ⟨h1, h2, hfit'⟩ := hfit
    have hr : inRange (acc + n) = true := inRange_of_bounds ⟨h1, h2⟩
    obtain ⟨z, hz, hfold⟩ := ih (acc + n) (.num (acc + n)) rfl hr (fun m hm => hin m (List.mem_cons_of_mem _ hm)) hfit'
    refine ⟨z, ?_, .cons iv (.num n) (.num (acc + n)) z _ ?_ hfold⟩
    · rw [hz, List.sum_cons, Int.add_assoc]
    · exact ⟨acc, n, hiv, rfl, hacc, inRange_of_bounds (hin n List.mem_cons_self), hr, rfl⟩

/-- `(foldl op k numbers)` — the body of `+` and of `*` — for a core primitive `op` that computes `f` on numbers in range -/
theorem arith_fold_runs {st : St} (hl : Loaded st) (id : NativeId) (hid : id ∈ [NativeId.add, .multiply])
    (f : Int → Int → Int)
    (hprim : ∀ a b x y dd, a.get = .num x → b.get = .num y → inRange x = true → inRange y = true →
      inRange (f x y) = true → primResult id [a, b] dd = .ok (.num (f x y)))
    (k : Int) (m1 m2 m3 m4 p : Meta) (args : List Val) (z : Val) (d : Nat) (hd : d + 3 ≤ Config.maxRecursionDepth)
    (hfold : FoldsVia (ArithCall f) (numA k m3) args z) :
    RunsJ st (.ofList [symA cs!"foldl" m1, symA id.name m2, numA k m3, symA cs!"numbers" m4])
      (.cons (.cons (symA cs!"numbers" p) (.ofList args)) .nil) cs!"prelude" d (.ok z) := by
  obtain ⟨q1, q2, q3, hq⟩ := Prelude.foldl_params_shape
  obtain ⟨wf, hwf, hwfg⟩ := hl.prelude _ _ Prelude.foldl_mem
  have hcore : corePrim id = true := by
    simp only [List.mem_cons, List.not_mem_nil, or_false] at hid
    rcases hid with rfl | rfl <;> rfl
  obtain ⟨wop, hwop, hwopg⟩ := hl.native id (by
    simp only [List.mem_cons, List.not_mem_nil, or_false] at hid
    rcases hid with rfl | rfl <;> decide)
  have hs := hl.sees
  have hd0 : d ≤ Config.maxRecursionDepth := by omega
  have hd1 : d + 1 ≤ Config.maxRecursionDepth := by omega
  have hcall : ∀ i x r, ArithCall f i x r → Applies st wop [i, x] r (d + 1) := by
    rintro i x r ⟨a, b, hi, hx, ha, hb, hr, rfl⟩ e env' home first operands hlv hsp _ hop hargs
    exact RunsJ.callPrim hl.detached hd1 hlv hsp hop hwopg hcore hargs (hprim i x a b _ hi hx ha hb hr)
  have hpair : pairParamsAndArgs Prelude.foldl_rest Prelude.foldl_params .nil none [wop, numA k m3, .ofList args] =
      .ok (.cons (.cons (symA cs!"things" q3) (.ofList args)) (.cons (.cons (symA cs!"init" q2) (numA k m3))
        (.cons (.cons (symA cs!"f" q1) wop) .nil))) := by
    rw [hq, Prelude.foldl_rest_eq, pair3]
  have hbody := foldl_via hl wop d hd _ hcall (numA k m3) args z hfold _ hpair
  have hname : id.name ≠ cs!"numbers" := by
    simp only [List.mem_cons, List.not_mem_nil, or_false] at hid
    rcases hid with rfl | rfl <;> decide
  have hlook : lookupEnv (.named id.name) (.cons (.cons (symA cs!"numbers" p) (.ofList args)) .nil) = none := by
    rw [lookupEnv_miss _ _ _ _ _ hname.symm, lookupEnv_nil]
  exact RunsJ.callClosure hl.detached hd0 (listToVec_ofList _) rfl
    (RunsJ.of_eval hs (ev_global hd1 (by lk0) hwf)) (hwfg.trans Prelude.foldl_fn_eq)
    (RunsArgsJ.of_evalArgs hs (evs_three (ev_global hd1 hlook hwop) (ev_num hd1) (ev_local hd1 (by lk0))))
    hpair hbody

end helpers

/-- `(+ n1 n2 …)`: the sum, for every list of 64-bit integers whose partial sums fit; `(+)` is 0.  The result is a number
value (for the empty list it is the literal `0` of the source with its metadata, which `r.get` looks through).
CORRECTED: the hypothesis `hin` (every argument is itself a 64-bit integer) was added.  `SumsFit` alone does not imply it
(`-5 + 9223372036854775810` fits although the second summand does not), and on a number value outside the 64-bit range
`add` works on its two's complement image — see the counterexample at the end of this file. -/
theorem plus_spec (st : St) (hl : Loaded st) (ns : List Int) (env : Val) (d : Nat)
    (hin : ∀ n ∈ ns, i64Min ≤ n ∧ n ≤ i64Max)
    (hfit : SumsFit 0 ns) (hd : d + 12 ≤ Config.maxRecursionDepth)
    (henv : callEnv Prelude.plus_rest Prelude.plus_params (ns.map Val.num) = some env) :
    ∃ fuel k r, r.get = .num ns.sum ∧
      evalInternal fuel st Prelude.plus_body env cs!"prelude" d = (.ok r, bump st k) := by
  obtain ⟨p, hp⟩ := Prelude.plus_rest_shape
  obtain ⟨m1, m2, m3, m4, hb⟩ := Prelude.plus_body_shape
  have hE : env = .cons (.cons (symA cs!"numbers" p) (.ofList (ns.map Val.num))) .nil := by
    have := callEnv_ok henv
    rw [hp, Prelude.plus_params_eq, pairRest] at this
    exact (Res.ok.inj this).symm
  obtain ⟨z, hz, hfold⟩ := foldsVia_add ns 0 (numA 0 m3) rfl (by decide) hin hfit
  rw [hb, hE]
  refine ex_reorder1 z (by rw [hz, Int.zero_add]) (realiseJ ?_)
  exact arith_fold_runs hl .add (by decide) (· + ·) (fun a b x y dd => prim_add a b x y dd) 0 m1 m2 m3 m4 p _ z d
    (by omega) hfold

/-- the partial products of a list of integers all fit into 64 bits -/
def ProdsFit : Int → List Int → Prop
  | _, [] => True
  | acc, n :: ns => i64Min ≤ acc * n ∧ acc * n ≤ i64Max ∧ ProdsFit (acc * n) ns

section helpers

/-- the left fold of `multiply` over numbers whose partial products fit -/
theorem foldsVia_mul : ∀ (ns : List Int) (acc : Int) (iv : Val), iv.get = .num acc → inRange acc = true →
    (∀ n ∈ ns, i64Min ≤ n ∧ n ≤ i64Max) → ProdsFit acc ns →
    ∃ z, z.get = .num (ns.foldl (· * ·) acc) ∧ FoldsVia (ArithCall (· * ·)) iv (ns.map Val.num) z := by
  intro ns
  induction ns with
  | nil => intro acc iv hiv _ _ _; exact ⟨iv, by simpa using hiv, .nil iv⟩
  | cons n ns ih =>
    intro acc iv hiv hacc hin hfit
    obtain ⟨h1, h2, hfit'⟩ := hfit
    have hr : inRange (acc * n) = true := inRange_of_bounds ⟨h1, h2⟩
    obtain ⟨z, hz, hfold⟩ := ih (acc * n) (.num (acc * n)) rfl hr (fun m hm => hin m (List.mem_cons_of_mem _ hm)) hfit'
    refine ⟨z, ?_, .cons iv (.num n) (.num (acc * n)) z _ ?_ hfold⟩
    · rw [hz, List.foldl_cons]
    · exact ⟨acc, n, hiv, rfl, hacc, inRange_of_bounds (hin n List.mem_cons_self), hr, rfl⟩

end helpers

/-- `(* n1 n2 …)`: the product, for every list of 64-bit integers whose partial products fit; `(*)` is 1.
CORRECTED: the hypothesis `hin` (every argument is itself a 64-bit integer) was added; `ProdsFit` alone does not imply it
(`-1 * 9223372036854775808` fits although the second factor does not) — see the counterexample at the end of this file. -/
theorem times_spec (st : St) (hl : Loaded st) (ns : List Int) (env : Val) (d : Nat)
    (hin : ∀ n ∈ ns, i64Min ≤ n ∧ n ≤ i64Max)
    (hfit : ProdsFit 1 ns) (hd : d + 12 ≤ Config.maxRecursionDepth)
    (henv : callEnv Prelude.times_rest Prelude.times_params (ns.map Val.num) = some env) :
    ∃ fuel k r, r.get = .num (ns.foldl (· * ·) 1) ∧
      evalInternal fuel st Prelude.times_body env cs!"prelude" d = (.ok r, bump st k) := by
  obtain ⟨p, hp⟩ := Prelude.times_rest_shape
  obtain ⟨m1, m2, m3, m4, hb⟩ := Prelude.times_body_shape
  have hE : env = .cons (.cons (symA cs!"numbers" p) (.ofList (ns.map Val.num))) .nil := by
    have := callEnv_ok henv
    rw [hp, Prelude.times_params_eq, pairRest] at this
    exact (Res.ok.inj this).symm
  obtain ⟨z, hz, hfold⟩ := foldsVia_mul ns 1 (numA 1 m3) rfl (by decide) hin hfit
  rw [hb, hE]
  refine ex_reorder1 z hz (realiseJ ?_)
  exact arith_fold_runs hl .multiply (by decide) (· * ·) (fun a b x y dd => prim_multiply a b x y dd) 1 m1 m2 m3 m4 p _ z d
    (by omega) hfold

/-! ### non-vacuity: the theorems apply to the example state of `Props/C16.lean` -/

/-- `(map (lambda (x) (cons x x)) '(1 2))` in `exSt`: hypotheses of `map_spec` are satisfiable — the call binds -/
example : (callEnv Prelude.map_rest Prelude.map_params [.native .car, Val.ofList [.cons (.num 1) .nil]]).isSome = true := by
  decide +kernel

example : (callEnv Prelude.last_rest Prelude.last_params [Val.ofList ([.num 1] ++ [.num 2])]).isSome = true := by
  decide +kernel

example : (callEnv Prelude.plus_rest Prelude.plus_params ([1, 2, 3].map Val.num)).isSome = true ∧ SumsFit 0 [1, 2, 3] := by
  refine ⟨by decide +kernel, ?_⟩
  simp [SumsFit, i64Min, i64Max]

/-- if the body, run with 40 units of fuel in `exSt`, signals, then no fuel makes it yield a value -/
theorem ex_refutes_err (body env : Val)
    (hrun : (match (evalInternal 40 exSt body env cs!"prelude" 0).1 with | .err _ => true | _ => false) = true) :
    ¬ ∃ fuel k v, evalInternal fuel exSt body env cs!"prelude" 0 = (.ok v, bump exSt k) := by
  rintro ⟨fuel, k, v, h⟩
  have h1 := evalInternal_fuel_mono fuel 40 _ _ _ _ _ _ _ exSt_current h (by intro h; cases h)
  generalize hr : evalInternal 40 exSt body env cs!"prelude" 0 = out at hrun
  obtain ⟨r, st'⟩ := out
  have h2 := evalInternal_fuel_mono 40 fuel _ _ _ _ _ _ _ exSt_current hr (by intro h; subst h; cases hrun)
  rw [Nat.add_comm, h1] at h2
  cases h2
  cases hrun

/-- the UNCORRECTED `plus_spec` (without `hin`) fails: the partial sums of `-5, 9223372036854775810` fit, but the second
number value is outside the 64-bit range and `add` signals an overflow on its two's complement image -/
example : SumsFit 0 [-5, 9223372036854775810] ∧
    callEnv Prelude.plus_rest Prelude.plus_params ([-5, 9223372036854775810].map Val.num) =
      some (envOf Prelude.plus_rest Prelude.plus_params ([-5, 9223372036854775810].map Val.num)) ∧
    ¬ ∃ fuel k r, evalInternal fuel exSt Prelude.plus_body
        (envOf Prelude.plus_rest Prelude.plus_params ([-5, 9223372036854775810].map Val.num)) cs!"prelude" 0 =
          (.ok r, bump exSt k) := by
  refine ⟨by simp [SumsFit, i64Min, i64Max], by decide +kernel, ?_⟩
  exact ex_refutes_err _ _ (by decide +kernel)

/-- the UNCORRECTED `times_spec` (without `hin`) fails in the same way on `-1, 9223372036854775808` -/
example : ProdsFit 1 [-1, 9223372036854775808] ∧
    callEnv Prelude.times_rest Prelude.times_params ([-1, 9223372036854775808].map Val.num) =
      some (envOf Prelude.times_rest Prelude.times_params ([-1, 9223372036854775808].map Val.num)) ∧
    ¬ ∃ fuel k r, evalInternal fuel exSt Prelude.times_body
        (envOf Prelude.times_rest Prelude.times_params ([-1, 9223372036854775808].map Val.num)) cs!"prelude" 0 =
          (.ok r, bump exSt k) := by
  refine ⟨by simp [ProdsFit, i64Min, i64Max], by decide +kernel, ?_⟩
  exact ex_refutes_err _ _ (by decide +kernel)

/-- and the corrected theorems apply to `exSt`: `(+ 1 2 3)` there is 6 -/
example : ∃ fuel k r, r.get = .num 6 ∧
    evalInternal fuel exSt Prelude.plus_body (envOf Prelude.plus_rest Prelude.plus_params ([1, 2, 3].map Val.num))
      cs!"prelude" 0 = (.ok r, bump exSt k) :=
  plus_spec exSt exSt_loaded [1, 2, 3] _ 0 (by simp [i64Min, i64Max]) (by simp [SumsFit, i64Min, i64Max]) (by decide)
    (by decide +kernel)

/-- `(last nil)` signals in `exSt` -/
example : ∃ fuel k payload, payload.isNil = false ∧
    evalInternal fuel exSt Prelude.last_body (envOf Prelude.last_rest Prelude.last_params [Val.ofList []])
      cs!"prelude" 0 = (.err payload, bump exSt k) :=
  last_empty exSt exSt_loaded _ 0 (by decide) (by decide +kernel)

/-- `(map car '((1)))` in `exSt` is `(1)` -/
example : ∃ fuel k tail, tail.isNil = true ∧
    evalInternal fuel exSt Prelude.map_body
      (envOf Prelude.map_rest Prelude.map_params [.native .car, Val.ofList [.cons (.num 1) .nil]])
      cs!"prelude" 0 = (.ok ([Val.num 1].foldr Val.cons tail), bump exSt k) := by
  refine map_spec exSt exSt_loaded (.native .car) [.cons (.num 1) .nil] [.num 1] _ 0 (by decide) ?_ (by decide +kernel)
  refine .cons _ _ _ _ (Or.inl ⟨.car, rfl, fun env d fuel j => ?_⟩) .nil
  simp [applyNative, simpleNative, arity1, Val.get]

end Pici.C16
