/-
C20 (continued) — the stepping evaluator on the WHOLE core language: `Props/C20b.lean` excludes two rules of the reference
semantics because there the two evaluators return differently REPRESENTED empty lists (`nil` versus a metadata cell around
`nil` — both `Val.isNil`, `=`-equal, printed identically): the literal `()` as the reader produces it, and the call of a
closure with a rest parameter.  Here the conclusion is equality up to that representation (`Sim`), and the two rules are
back in full.
-/
import PiciModel.Props.C20b
import PiciModel.Lemmas.DebuggerRest

namespace Pici.C20
open Pici Pici.Ref

/-- the same value up to the representation of the empty list: wherever one side has an empty list (`nil`, or a metadata
cell around `nil`) the other has one too; everything else — numbers, characters, symbols, the structure of conses, the
code, parameters, kind and module of a function — is identical, and the environments captured by two related closures are
related.

The rule `md` (same metadata around related values) is for values that are not empty lists: two empty lists are related by
`empty` whatever their metadata, and a metadata cell around an empty list that itself carries metadata — a value the
interpreter never builds (`allocate_metadata` panics on it) — is NOT an empty list for `Val.isNil`, although the cell
inside is.  Without the two side conditions `Sim` would relate `#md(nil)` to `#md(#md(nil))`, which `if` tells apart (see
the last example of this file). -/
inductive Sim : Val → Val → Prop where
  | same (a : Val) : Sim a a
  | empty {a b : Val} : a.isNil = true → b.isNil = true → Sim a b
  | cons {a a' d d' : Val} : Sim a a' → Sim d d' → Sim (.cons a d) (.cons a' d')
  | md {v v' : Val} {m : Meta} : Sim v v' → v.isNil = false → v'.isNil = false → Sim (.md v m) (.md v' m)
  | fn {k : Kind} {r p b e e' : Val} {m : Name} : Sim e e' → Sim (.fn k r p b e m) (.fn k r p b e' m)

mutual
/-- the value-producing rules of `Ref.Eval` for the core language, height-indexed as `Evals` in `Props/C20b.lean`, WITHOUT
the two restrictions made there (`emptyList` for every empty list, `callClosure` with or without a rest parameter); the
other side conditions of `Evals` are kept, each is a confirmed deviation of the stepping evaluator (see there) -/
inductive EvalsF (G : Globals) : Val → Name → Val → Val → Nat → Prop where
  | emptyList {env home e h} : listToVec e = some [] → EvalsF G env home e .nil h
  | selfEval {env home e h} : listToVec e = none →
      (∀ a b, e.get ≠ .cons a b) → (∀ n t, e.get ≠ .trap n t) → (∀ s, e.get ≠ .sym s) → EvalsF G env home e e h
  | varLocal {env home e s v h} : listToVec e = none → e.get = .sym s → lookupEnv s env = some v →
      envWalks s env = true → EvalsF G env home e v h
  | varGlobal {env home e s v h} : listToVec e = none → e.get = .sym s → lookupEnv s env = none →
      G s.globalName home = .found v → envWalks s env = true → EvalsF G env home e v h
  | lambda {env home e first operands f h} : listToVec e = some (first :: operands) → first.isSymNamed cs!"lambda" = true →
      makeFunctionInternal operands env home cs!"lambda" .lambda = .ok f → EvalsF G env home e f h
  | quote {env home e first x h} : listToVec e = some [first, x] →
      first.isSymNamed cs!"lambda" = false → first.isSymNamed cs!"quote" = true → EvalsF G env home e x h
  | ifBranch {env home e first c t o cv v h} : listToVec e = some [first, c, t, o] →
      first.isSymNamed cs!"lambda" = false → first.isSymNamed cs!"quote" = false → first.isSymNamed cs!"if" = true →
      EvalsF G env home c cv h → EvalsF G env home (if !cv.isNil then t else o) v h → EvalsF G env home e v (h + 1)
  | callClosure {env home e first operands f k rest params body fenv fmod args newEnv v h} :
      listToVec e = some (first :: operands) → isSpecialD first = false →
      EvalsF G env home first f h → f.get = .fn k rest params body fenv fmod →
      EvalsFArgs G env home operands args h →
      pairParamsAndArgs rest params fenv (e.getMeta.map (·.readName)) args = .ok newEnv →
      EvalsF G newEnv fmod body v h →
      body.isNil = false → ((listToVec params).getD []).all (fun p => !p.isSymNamed cs!"&") = true →
      (operands.length : Int) < i64Max → EvalsF G env home e v (h + 1)
  | callPrim {env home e first operands f id args v h d} :
      listToVec e = some (first :: operands) → isSpecialD first = false →
      EvalsF G env home first f h → f.get = .native id → corePrim id = true →
      EvalsFArgs G env home operands args h → primResult id args d = .ok v →
      (operands.length : Int) < i64Max → EvalsF G env home e v (h + 1)
inductive EvalsFArgs (G : Globals) : Val → Name → List Val → List Val → Nat → Prop where
  | nil {env home h} : EvalsFArgs G env home [] [] h
  | cons {env home x xs v vs h} : EvalsF G env home x v h → EvalsFArgs G env home xs vs h → EvalsFArgs G env home (x :: xs) (v :: vs) h
end


section helpers
open Pici.Dbg Pici.DebuggerX

/-! #### the relation `Sim` -/

theorem Sim.symm {a b : Val} (h : Sim a b) : Sim b a := by
  induction h with
  | same a => exact .same a
  | empty ha hb => exact .empty hb ha
  | cons _ _ ih1 ih2 => exact .cons ih1 ih2
  | md _ h1 h2 ih => exact .md ih h2 h1
  | fn _ ih => exact .fn ih

theorem isNil_md_of_not {v : Val} {m : Meta} (h : v.isNil = false) : (Val.md v m).isNil = false := by
  cases v <;> first | rfl | cases h

theorem Sim.isNil_eq {a b : Val} (h : Sim a b) : a.isNil = b.isNil := by
  cases h with
  | same a => rfl
  | empty ha hb => rw [ha, hb]
  | cons _ _ => rfl
  | md _ h1 h2 => rw [isNil_md_of_not h1, isNil_md_of_not h2]
  | fn _ => rfl

theorem get_of_isNil {a : Val} (h : a.isNil = true) : a.get = .nil := by
  cases a with
  | nil => rfl
  | md w m => cases w <;> first | rfl | cases h
  | _ => cases h

theorem isNil_cases {a : Val} (h : a.isNil = true) : a = .nil ∨ ∃ m, a = .md .nil m := by
  cases a with
  | nil => exact Or.inl rfl
  | md w m => cases w <;> first | exact Or.inr ⟨_, rfl⟩ | cases h
  | _ => cases h

/-- what related values are behind their metadata: two cons cells with related parts, two closures that differ in related
environments, or the same value -/
theorem Sim.get_cases {a b : Val} (h : Sim a b) :
    (∃ x y x' y', a.get = .cons x y ∧ b.get = .cons x' y' ∧ Sim x x' ∧ Sim y y') ∨
    (∃ k r p bd e e' m, a.get = .fn k r p bd e m ∧ b.get = .fn k r p bd e' m ∧ Sim e e') ∨
    (a.get = b.get ∧ (∀ x y, a.get ≠ .cons x y) ∧ (∀ k r p bd e m, a.get ≠ .fn k r p bd e m)) := by
  induction h with
  | same a =>
    cases hg : a.get with
    | cons x y => exact Or.inl ⟨x, y, x, y, rfl, rfl, .same x, .same y⟩
    | fn k r p bd e m => exact Or.inr (Or.inl ⟨k, r, p, bd, e, e, m, rfl, rfl, .same e⟩)
    | _ => exact Or.inr (Or.inr ⟨rfl, fun _ _ h => (by cases h), fun _ _ _ _ _ _ h => (by cases h)⟩)
  | empty ha hb =>
    rw [get_of_isNil ha, get_of_isNil hb]
    exact Or.inr (Or.inr ⟨rfl, fun _ _ h => (by cases h), fun _ _ _ _ _ _ h => (by cases h)⟩)
  | cons h1 h2 _ _ => exact Or.inl ⟨_, _, _, _, rfl, rfl, h1, h2⟩
  | md _ _ _ ih => simpa [Val.get] using ih
  | fn h1 _ => exact Or.inr (Or.inl ⟨_, _, _, _, _, _, _, rfl, rfl, h1⟩)

theorem Sim.get_cons {a b x y : Val} (h : Sim a b) (hg : a.get = .cons x y) :
    ∃ x' y', b.get = .cons x' y' ∧ Sim x x' ∧ Sim y y' := by
  rcases h.get_cases with ⟨x1, y1, x', y', h1, h2, h3, h4⟩ | ⟨k, r, p, bd, e, e', m, h1, _⟩ | ⟨_, h1, _⟩
  · rw [hg] at h1; cases h1; exact ⟨x', y', h2, h3, h4⟩
  · rw [hg] at h1; cases h1
  · exact absurd hg (h1 x y)

theorem Sim.get_fn {a b : Val} {k : Kind} {r p bd e : Val} {m : Name} (h : Sim a b) (hg : a.get = .fn k r p bd e m) :
    ∃ e', b.get = .fn k r p bd e' m ∧ Sim e e' := by
  rcases h.get_cases with ⟨x1, y1, x', y', h1, _⟩ | ⟨k1, r1, p1, bd1, e1, e', m1, h1, h2, h3⟩ | ⟨_, _, h1⟩
  · rw [hg] at h1; cases h1
  · rw [hg] at h1; cases h1; exact ⟨e', h2, h3⟩
  · exact absurd hg (h1 _ _ _ _ _ _)

/-- behind the metadata, anything that is neither a cons cell nor a closure is related to itself only -/
theorem Sim.get_atom {a b : Val} (h : Sim a b) (h1 : ∀ x y, a.get ≠ .cons x y) (h2 : ∀ k r p bd e m, a.get ≠ .fn k r p bd e m) :
    b.get = a.get := by
  rcases h.get_cases with ⟨x1, y1, x', y', h3, _⟩ | ⟨k1, r1, p1, bd1, e1, e', m1, h3, _⟩ | ⟨h3, _, _⟩
  · exact absurd h3 (h1 _ _)
  · exact absurd h3 (h2 _ _ _ _ _ _)
  · exact h3.symm

theorem Sim.get_sym {a b : Val} {s : Sym} (h : Sim a b) (hg : a.get = .sym s) : b.get = .sym s := by
  rw [h.get_atom (by rw [hg]; intro _ _ h; cases h) (by rw [hg]; intro _ _ _ _ _ _ h; cases h), hg]

theorem Sim.get_num {a b : Val} {n : Int} (h : Sim a b) (hg : a.get = .num n) : b.get = .num n := by
  rw [h.get_atom (by rw [hg]; intro _ _ h; cases h) (by rw [hg]; intro _ _ _ _ _ _ h; cases h), hg]

theorem Sim.get_native {a b : Val} {id : NativeId} (h : Sim a b) (hg : a.get = .native id) : b.get = .native id := by
  rw [h.get_atom (by rw [hg]; intro _ _ h; cases h) (by rw [hg]; intro _ _ _ _ _ _ h; cases h), hg]

/-- related values are proper lists together -/
theorem Sim.isProperList_eq {a b : Val} (h : Sim a b) : isProperList a = isProperList b := by
  induction h with
  | same a => rfl
  | empty ha hb =>
    rcases isNil_cases ha with rfl | ⟨m, rfl⟩ <;> rcases isNil_cases hb with rfl | ⟨m', rfl⟩ <;> rfl
  | cons _ _ _ ih => simpa [isProperList, listToVec] using ih
  | @md v v' m hs h1 h2 ih =>
    cases hs with
    | same a => rfl
    | empty ha hb => rw [ha] at h1; cases h1
    | cons _ _ => simpa [isProperList, listToVec] using ih
    | md _ _ _ => rfl
    | fn _ => rfl
  | fn _ _ => rfl

/-! #### `=` on related values -/

theorem equalInternal_of_isNil {a : Val} (h : a.isNil = true) (b : Val) : equalInternal a b = b.isNil := by
  rcases isNil_cases h with rfl | ⟨m, rfl⟩
  · rw [equalInternal]
  · rw [equalInternal, equalInternal]

theorem equalTail_of_isNil {a : Val} (h : a.isNil = true) (b : Val) : equalTail a b = b.isNil := by
  rcases isNil_cases h with rfl | ⟨m, rfl⟩
  · rw [equalTail]
  · rw [equalTail, equalTail]

/-- `=` and its helper for the remainders of proper lists cannot tell related values apart -/
theorem sim_equal_both (a : Val) :
    (∀ a' b b', Sim a a' → Sim b b' → equalInternal a b = equalInternal a' b') ∧
    (∀ a' b b', Sim a a' → Sim b b' → equalTail a b = equalTail a' b') := by
  induction a with
  | nil =>
    refine ⟨fun a' b b' ha hb => ?_, fun a' b b' ha hb => ?_⟩
    · have ha' : a'.isNil = true := by rw [← ha.isNil_eq]; rfl
      rw [equalInternal_of_isNil rfl, equalInternal_of_isNil ha', hb.isNil_eq]
    · have ha' : a'.isNil = true := by rw [← ha.isNil_eq]; rfl
      rw [equalTail_of_isNil rfl, equalTail_of_isNil ha', hb.isNil_eq]
  | num n =>
    refine ⟨fun a' b b' ha hb => ?_, fun a' b b' ha hb => ?_⟩
    · cases ha with
      | same _ =>
        rw [equalInternal, equalInternal]
        rcases hb.get_cases with ⟨x, y, x', y', h1, h2, _⟩ | ⟨k, r, p, bd, e, e', m, h1, h2, _⟩ | ⟨h1, _⟩
        · rw [h1, h2]
        · rw [h1, h2]
        · rw [h1]
      | empty h _ => cases h
    · cases ha with
      | same _ => simp [equalTail]
      | empty h _ => cases h
  | chr c =>
    refine ⟨fun a' b b' ha hb => ?_, fun a' b b' ha hb => ?_⟩
    · cases ha with
      | same _ =>
        rw [equalInternal, equalInternal]
        rcases hb.get_cases with ⟨x, y, x', y', h1, h2, _⟩ | ⟨k, r, p, bd, e, e', m, h1, h2, _⟩ | ⟨h1, _⟩
        · rw [h1, h2]
        · rw [h1, h2]
        · rw [h1]
      | empty h _ => cases h
    · cases ha with
      | same _ => simp [equalTail]
      | empty h _ => cases h
  | sym t =>
    refine ⟨fun a' b b' ha hb => ?_, fun a' b b' ha hb => ?_⟩
    · cases ha with
      | same _ =>
        rw [equalInternal, equalInternal]
        rcases hb.get_cases with ⟨x, y, x', y', h1, h2, _⟩ | ⟨k, r, p, bd, e, e', m, h1, h2, _⟩ | ⟨h1, _⟩
        · rw [h1, h2]
        · rw [h1, h2]
        · rw [h1]
      | empty h _ => cases h
    · cases ha with
      | same _ => simp [equalTail]
      | empty h _ => cases h
  | cons x y ihx ihy =>
    have key : ∀ x' y', Sim x x' → Sim y y' → ∀ b b', Sim b b' →
        equalInternal (.cons x y) b = equalInternal (.cons x' y') b' ∧ equalTail (.cons x y) b = equalTail (.cons x' y') b' := by
      intro x' y' hx hy b b' hb
      rw [equalInternal, equalInternal, equalTail, equalTail]
      rcases hb.get_cases with ⟨b1, d2, b1', d2', h1, h2, h3, h4⟩ | ⟨k, r, p, bd, e, e', m, h1, h2, _⟩ | ⟨h1, h2, _⟩
      · rw [h1, h2]
        simp only
        rw [ihx.1 x' b1 b1' hx h3, ihy.1 y' d2 d2' hy h4, ihy.2 y' d2 d2' hy h4, hy.isProperList_eq, h4.isProperList_eq]
        exact ⟨rfl, rfl⟩
      · rw [h1, h2]; exact ⟨rfl, rfl⟩
      · rw [← h1]
        cases hg : b.get with
        | cons u w => exact absurd hg (h2 u w)
        | _ => exact ⟨rfl, rfl⟩
    refine ⟨fun a' b b' ha hb => ?_, fun a' b b' ha hb => ?_⟩
    · cases ha with
      | same _ => exact (key x y (.same x) (.same y) b b' hb).1
      | empty h _ => cases h
      | cons hx hy => exact (key _ _ hx hy b b' hb).1
    · cases ha with
      | same _ => exact (key x y (.same x) (.same y) b b' hb).2
      | empty h _ => cases h
      | cons hx hy => exact (key _ _ hx hy b b' hb).2
  | fn k r p bd e m _ _ _ _ =>
    refine ⟨fun a' b b' ha hb => ?_, fun a' b b' ha hb => ?_⟩
    · cases ha with
      | same _ => rw [equalInternal, equalInternal]
      | empty h _ => cases h
      | fn _ => rw [equalInternal, equalInternal]
    · cases ha with
      | same _ => simp [equalTail]
      | empty h _ => cases h
      | fn _ => simp [equalTail]
  | native id =>
    refine ⟨fun a' b b' ha hb => ?_, fun a' b b' ha hb => ?_⟩
    · cases ha with
      | same _ => rw [equalInternal, equalInternal]
      | empty h _ => cases h
    · cases ha with
      | same _ => simp [equalTail]
      | empty h _ => cases h
  | trap n t _ _ =>
    refine ⟨fun a' b b' ha hb => ?_, fun a' b b' ha hb => ?_⟩
    · cases ha with
      | same _ => rw [equalInternal, equalInternal]
      | empty h _ => cases h
    · cases ha with
      | same _ => simp [equalTail]
      | empty h _ => cases h
  | md w m ih =>
    refine ⟨fun a' b b' ha hb => ?_, fun a' b b' ha hb => ?_⟩
    · cases ha with
      | same _ => rw [equalInternal, equalInternal]; exact ih.1 w b b' (.same w) hb
      | empty h1 h2 => rw [equalInternal_of_isNil h1, equalInternal_of_isNil h2, hb.isNil_eq]
      | md hw _ _ => rw [equalInternal, equalInternal]; exact ih.1 _ b b' hw hb
    · cases ha with
      | same _ => rw [equalTail, equalTail]; exact ih.2 w b b' (.same w) hb
      | empty h1 h2 => rw [equalTail_of_isNil h1, equalTail_of_isNil h2, hb.isNil_eq]
      | md hw _ _ => rw [equalTail, equalTail]; exact ih.2 _ b b' hw hb

/-! #### environments -/

/-- what two lookups in related environments give -/
def LookRel : Option Val → Option Val → Prop
  | some v, some v' => Sim v v'
  | none, none      => True
  | _, _            => False

theorem LookRel.refl (o : Option Val) : LookRel o o := by
  cases o with
  | none => trivial
  | some v => exact Sim.same v

theorem sim_lookup_cons (s : Sym) {kv kv' rest rest' : Val} (hkv : Sim kv kv')
    (ih : envWalks s rest = true → envWalks s rest' = true ∧ LookRel (lookupEnv s rest) (lookupEnv s rest'))
    (hw : envWalks s (.cons kv rest) = true) :
    envWalks s (.cons kv' rest') = true ∧ LookRel (lookupEnv s (.cons kv rest)) (lookupEnv s (.cons kv' rest')) := by
  simp only [envWalks, lookupEnv] at hw ⊢
  cases hg : kv.get with
  | cons k v =>
    obtain ⟨k', v', hg', hk, hv⟩ := hkv.get_cons hg
    rw [hg] at hw
    rw [hg']
    simp only at hw ⊢
    rcases hk.get_cases with ⟨x, y, x', y', h1, h2, _⟩ | ⟨_, _, _, _, _, _, _, h1, h2, _⟩ | ⟨h1, _⟩
    · rw [h1] at hw; rw [h1, h2]; exact ih hw
    · rw [h1] at hw; rw [h1, h2]; exact ih hw
    · rw [← h1]
      cases hkg : k.get with
      | sym t =>
        rw [hkg] at hw
        simp only at hw ⊢
        by_cases hts : t = s
        · subst hts
          simp only [beq_self_eq_true, Bool.true_or, if_true]
          exact ⟨trivial, hv⟩
        · have hb : (t == s) = false := by simpa using hts
          simp only [hb, Bool.false_or, Bool.false_eq_true, if_false] at hw ⊢
          exact ih hw
      | _ => rw [hkg] at hw; exact ih hw
  | _ => rw [hg] at hw; simp at hw

/-- related environments: the walk of `lookup` goes through in both or in neither, and finds related values -/
theorem sim_lookup (s : Sym) {env env' : Val} (h : Sim env env') (hw : envWalks s env = true) :
    envWalks s env' = true ∧ LookRel (lookupEnv s env) (lookupEnv s env') := by
  induction h with
  | same a =>
    exact ⟨hw, LookRel.refl _⟩
  | empty ha hb =>
    rcases isNil_cases ha with rfl | ⟨m, rfl⟩ <;> rcases isNil_cases hb with rfl | ⟨m', rfl⟩ <;>
      exact ⟨rfl, by simp [lookupEnv, LookRel]⟩
  | cons hkv _ _ ih => exact sim_lookup_cons s hkv ih hw
  | @md v v' m hs h1 h2 ih =>
    cases hs with
    | same a =>
      exact ⟨hw, LookRel.refl _⟩
    | empty ha hb => rw [ha] at h1; cases h1
    | cons hkv hr =>
      have e1 : ∀ kv rest, envWalks s (.md (.cons kv rest) m) = envWalks s (.cons kv rest) := fun _ _ => by
        simp [envWalks]
      have e2 : ∀ kv rest, lookupEnv s (.md (.cons kv rest) m) = lookupEnv s (.cons kv rest) := fun _ _ => by
        simp [lookupEnv]
      rw [e1] at hw ⊢
      rw [e2, e2]
      exact ih hw
    | md _ _ _ => simp [envWalks, Val.isNil] at hw
    | fn _ => simp [envWalks, Val.isNil] at hw
  | fn _ _ => simp [envWalks, Val.isNil] at hw

/-- `lambda` in related environments builds related closures -/
theorem sim_makeFunction {operands : List Val} {env env' f : Val} {home : Name} (h : Sim env env')
    (hmk : makeFunctionInternal operands env home cs!"lambda" .lambda = .ok f) :
    ∃ f', makeFunctionInternal operands env' home cs!"lambda" .lambda = .ok f' ∧ Sim f f' := by
  unfold makeFunctionInternal at hmk ⊢
  split at hmk
  · rename_i params body
    split at hmk
    · cases hmk
    · rename_i ps hps
      split at hmk
      · cases hmk; exact ⟨_, rfl, .fn h⟩
      · cases hmk
  · cases hmk

/-! #### parameter binding -/

/-- lists of pairwise related values -/
inductive SimL : List Val → List Val → Prop where
  | nil : SimL [] []
  | cons {x x' : Val} {xs xs' : List Val} : Sim x x' → SimL xs xs' → SimL (x :: xs) (x' :: xs')

theorem SimL.length_eq {xs xs' : List Val} (h : SimL xs xs') : xs.length = xs'.length := by
  induction h with
  | nil => rfl
  | cons _ _ ih => simp [ih]

theorem SimL.drop {xs xs' : List Val} (h : SimL xs xs') (n : Nat) : SimL (xs.drop n) (xs'.drop n) := by
  induction h generalizing n with
  | nil => simpa using SimL.nil
  | cons hx hxs ih =>
    cases n with
    | zero => exact .cons hx hxs
    | succ n => simpa using ih n

/-- the evaluator's fresh list and a list that ends in some other empty list -/
theorem SimL.ofList_foldr {xs xs' : List Val} (h : SimL xs xs') {t : Val} (ht : t.isNil = true) :
    Sim (.ofList xs) (xs'.foldr Val.cons t) := by
  induction h with
  | nil => exact .empty rfl ht
  | cons hx _ ih => exact .cons hx ih

theorem SimL.ofList {xs xs' : List Val} (h : SimL xs xs') : Sim (.ofList xs) (.ofList xs') := by
  induction h with
  | nil => exact .same _
  | cons hx _ ih => exact .cons hx ih

theorem sim_bindAll (ps : List Val) {args args' : List Val} (h : SimL args args') :
    ∀ {env env' : Val}, Sim env env' → Sim (bindAll ps args env) (bindAll ps args' env') := by
  induction ps generalizing args args' with
  | nil => intro env env' he; rw [bindAll_nil, bindAll_nil]; exact he
  | cons p ps ih =>
    intro env env' he
    cases h with
    | nil => exact he
    | cons hx hxs => exact ih hxs (.cons (.cons (.same p) hx) he)

theorem sim_restEnv (rest : Val) {r r' env env' : Val} (hr : Sim r r') (he : Sim env env') :
    Sim (restEnv rest r env) (restEnv rest r' env') := by
  unfold restEnv
  cases rest.restParam? with
  | none => exact he
  | some x => exact .cons (.cons (.same x) hr) he

/-- the environment `pair_params_and_args` builds, with or without a rest parameter -/
theorem pair_is_restEnv (rest params fenv : Val) (name : Option Name) (args : List Val) (newEnv : Val)
    (h : pairParamsAndArgs rest params fenv name args = .ok newEnv) :
    newEnv = restEnv rest (.ofList (args.drop ((listToVec params).getD []).length))
      (bindAll ((listToVec params).getD []) args fenv) ∧ ((listToVec params).getD []).length ≤ args.length := by
  unfold pairParamsAndArgs at h
  simp only at h
  split at h
  · cases h
  · rename_i env' remaining i hb
    obtain ⟨h1, h2, h3⟩ := bindParams_bindAll _ _ _ _ _ _ _ _ _ hb
    refine ⟨?_, h3⟩
    unfold restEnv
    split at h
    · rename_i r hr
      cases h
      rw [hr, h1, h2]
    · rename_i hr
      rw [hr]
      split at h
      · cases h; exact h1
      · cases h

/-! #### the core primitives -/

theorem arity1_ok {α : Type} {src : Name} {args : List Val} {st : St} {k : Val → Res α × St} {r : α}
    (h : (arity1 src args st k).1 = .ok r) : ∃ x, args = [x] ∧ (k x).1 = .ok r := by
  rcases args with _ | ⟨a, _ | ⟨b, rest⟩⟩
  · simp [arity1] at h
  · exact ⟨a, rfl, h⟩
  · simp [arity1] at h

theorem arity2_ok {α : Type} {src : Name} {args : List Val} {st : St} {k : Val → Val → Res α × St} {r : α}
    (h : (arity2 src args st k).1 = .ok r) : ∃ x y, args = [x, y] ∧ (k x y).1 = .ok r := by
  rcases args with _ | ⟨a, _ | ⟨b, _ | ⟨c, rest⟩⟩⟩
  · simp [arity2] at h
  · simp [arity2] at h
  · exact ⟨a, b, rfl, h⟩
  · simp [arity2] at h

theorem asNumber_ok {α : Type} {src : Name} {v : Val} {st : St} {k : Int → Res α × St} {r : α}
    (h : (asNumber src v st k).1 = .ok r) : ∃ n, v.get = .num n ∧ (k n).1 = .ok r := by
  unfold asNumber at h
  split at h
  · rename_i n hn; exact ⟨n, hn, h⟩
  · cases h

theorem simL_one {x : Val} {args' : List Val} (h : SimL [x] args') : ∃ x', args' = [x'] ∧ Sim x x' := by
  cases h with
  | cons hx hr => cases hr; exact ⟨_, rfl, hx⟩

theorem simL_two {x y : Val} {args' : List Val} (h : SimL [x, y] args') :
    ∃ x' y', args' = [x', y'] ∧ Sim x x' ∧ Sim y y' := by
  cases h with
  | cons hx hr =>
    cases hr with
    | cons hy hr => cases hr; exact ⟨_, _, rfl, hx, hy⟩

/-- arithmetic and comparison answer the same on related arguments (a number is related to itself only) -/
theorem sim_arith (src : Name) (op : I64 → I64 → Option I64) {args args' : List Val} (ha : SimL args args') {v : Val}
    (hr : (arith src op args default).1 = .ok v) : (arith src op args' default).1 = .ok v := by
  unfold arith at hr
  obtain ⟨x, y, rfl, hr⟩ := arity2_ok hr
  obtain ⟨a, hxa, hr⟩ := asNumber_ok hr
  obtain ⟨b, hyb, hr⟩ := asNumber_ok hr
  obtain ⟨x', y', rfl, hx, hy⟩ := simL_two ha
  rw [← hr]
  simp [arith, arity2, asNumber, hx.get_num hxa, hy.get_num hyb]

theorem sim_compare (src : Name) (op : I64 → I64 → Bool) {args args' : List Val} (ha : SimL args args') {v : Val}
    (hr : (compare src op args default).1 = .ok v) : (compare src op args' default).1 = .ok v := by
  unfold compare at hr
  obtain ⟨x, y, rfl, hr⟩ := arity2_ok hr
  obtain ⟨a, hxa, hr⟩ := asNumber_ok hr
  obtain ⟨b, hyb, hr⟩ := asNumber_ok hr
  obtain ⟨x', y', rfl, hx, hy⟩ := simL_two ha
  rw [← hr]
  simp [compare, arity2, asNumber, hx.get_num hxa, hy.get_num hyb]

theorem sim_divide {args args' : List Val} (ha : SimL args args') {v : Val}
    (hr : (divideNative args default).1 = .ok v) : (divideNative args' default).1 = .ok v := by
  unfold divideNative at hr
  obtain ⟨x, y, rfl, hr⟩ := arity2_ok hr
  obtain ⟨a, hxa, hr⟩ := asNumber_ok hr
  obtain ⟨b, hyb, hr⟩ := asNumber_ok hr
  obtain ⟨x', y', rfl, hx, hy⟩ := simL_two ha
  rw [← hr]
  simp [divideNative, arity2, asNumber, hx.get_num hxa, hy.get_num hyb]

/-- the core primitives respect the relation -/
theorem sim_primResult {id : NativeId} {args args' : List Val} {d : Nat} {v : Val} (hc : corePrim id = true)
    (ha : SimL args args') (hr : primResult id args d = .ok v) :
    ∃ v', primResult id args' d = .ok v' ∧ Sim v v' := by
  unfold primResult at hr ⊢
  cases id <;> first | (exfalso; revert hc; decide) | skip
  case cons =>
    simp only [simpleNative] at hr ⊢
    obtain ⟨x, y, rfl, hr⟩ := arity2_ok hr
    obtain ⟨x', y', rfl, hx, hy⟩ := simL_two ha
    cases hr
    exact ⟨_, rfl, .cons hx hy⟩
  case car =>
    simp only [simpleNative] at hr ⊢
    obtain ⟨x, rfl, hr2⟩ := arity1_ok hr
    obtain ⟨x', rfl, hx⟩ := simL_one ha
    split at hr2
    · rename_i a b hg
      cases hr2
      obtain ⟨a', b', hg', h1, h2⟩ := hx.get_cons hg
      exact ⟨a', by simp [arity1, hg'], h1⟩
    · cases hr2
  case cdr =>
    simp only [simpleNative] at hr ⊢
    obtain ⟨x, rfl, hr2⟩ := arity1_ok hr
    obtain ⟨x', rfl, hx⟩ := simL_one ha
    split at hr2
    · rename_i a b hg
      cases hr2
      obtain ⟨a', b', hg', h1, h2⟩ := hx.get_cons hg
      exact ⟨b', by simp [arity1, hg'], h2⟩
    · cases hr2
  case list =>
    simp only [simpleNative] at hr ⊢
    cases hr
    exact ⟨_, rfl, ha.ofList⟩
  case add => exact ⟨v, sim_arith _ _ ha hr, .same v⟩
  case substract => exact ⟨v, sim_arith _ _ ha hr, .same v⟩
  case multiply => exact ⟨v, sim_arith _ _ ha hr, .same v⟩
  case divide => exact ⟨v, sim_divide ha hr, .same v⟩
  case less => exact ⟨v, sim_compare _ _ ha hr, .same v⟩
  case greater => exact ⟨v, sim_compare _ _ ha hr, .same v⟩
  case equal =>
    simp only [simpleNative] at hr ⊢
    obtain ⟨x, y, rfl, hr⟩ := arity2_ok hr
    obtain ⟨x', y', rfl, hx, hy⟩ := simL_two ha
    cases hr
    refine ⟨_, rfl, ?_⟩
    rw [(sim_equal_both x).1 x' y y' hx hy]
    exact .same _

/-! #### the induction -/

variable {st : St}

/-- an application whose operator evaluates to a closure, with or without a rest parameter (`dei_callClosure` of
`Props/C20b.lean`, generalised) -/
theorem dei_callClosure_gen (hl : DLoaded st) (e first env mv f : Val) (operands args : List Val) (k : Kind)
    (rest params body fenv : Val) (fmod : Name) (v : Val) (d : Nat) (hd : d + 19 ≤ Config.maxRecursionDepth)
    (tail : Val) (htail : st.getGlobal cs!"nil" cs!"prelude" = .found tail)
    (hlv : listToVec e = some (first :: operands)) (hsp : isSpecialD first = false) (hchr : first.getType ≠ .character)
    (hlen : (operands.length : Int) < i64Max)
    (hall : C16.MapsVia (DeiRuns st env mv (d + 6)) (first :: operands) (f :: args))
    (hf : f.get = .fn k rest params body fenv fmod) (hbody : body.isNil = false)
    (hamp : ∀ p ∈ (listToVec params).getD [], p.isSymNamed cs!"&" = false)
    (hlenp : ((listToVec params).getD []).length ≤ args.length)
    (hrun : DeiRuns st (restEnv rest ((args.drop ((listToVec params).getD []).length).foldr Val.cons tail)
      (bindAll ((listToVec params).getD []) args fenv)) (.sym (.named fmod)) (d + 2) body v) :
    DeiRuns st env mv d e v := by
  obtain ⟨ifs, clo, hifs, hspec, hlist⟩ := dei_list hl
  obtain ⟨ab, hab, hsel⟩ := ifs_app hl hifs
  obtain ⟨_, dd, he, hdd⟩ := listToVec_cons_inv hlv
  obtain ⟨hs1, heval⟩ := isSpecialD_false hsp
  obtain ⟨hlam, hq, hif, htrap⟩ := isSpecial_false hs1
  refine hlist e first dd operands env mv d v hlv hchr he (by omega) ?_
  intro sv hsv a b c q1 q2 q3 q4
  exact hsel _ first (d + 2) _ (by omega) (by lke) (by lke) hq hif heval htrap hlam
    (app_closure_gen hl hab hspec a b c q1 q2 q3 q4 first dd e env mv sv (first :: operands) f args k rest params body fenv
      fmod v (d + 2) tail htail hsv (by omega) hlv (by simp only [List.length_cons]; omega) hall hf hbody hamp hlenp hrun)

/-- a character only evaluates to itself -/
theorem evalsF_chr {G : Globals} {env : Val} {home : Name} {e v : Val} {h : Nat} (hev : EvalsF G env home e v h)
    (hc : e.getType = .character) : v = e := by
  have hcons : ∀ x xs, listToVec e = some (x :: xs) → False := by
    intro x xs hl
    obtain ⟨_, dd, hg, _⟩ := listToVec_cons_inv hl
    rw [getType_get, hg] at hc
    cases hc
  cases hev with
  | emptyList hl => rw [getType_get, get_of_isNil (listToVec_nil_inv hl)] at hc; cases hc
  | selfEval => rfl
  | varLocal _ hg => rw [getType_get, hg] at hc; cases hc
  | varGlobal _ hg => rw [getType_get, hg] at hc; cases hc
  | lambda hl => exact (hcons _ _ hl).elim
  | quote hl => exact (hcons _ _ hl).elim
  | ifBranch hl => exact (hcons _ _ hl).elim
  | callClosure hl => exact (hcons _ _ hl).elim
  | callPrim hl => exact (hcons _ _ hl).elim

/-- the operator of an application that evaluates to a function is not a character -/
theorem operatorF_not_chr {G : Globals} {env : Val} {home : Name} {first f : Val} {h : Nat}
    (hev : EvalsF G env home first f h) (hf : (∃ k r p b fe fm, f.get = .fn k r p b fe fm) ∨ (∃ id, f.get = .native id)) :
    first.getType ≠ .character := by
  intro hc
  have := evalsF_chr hev hc
  subst this
  rw [getType_get] at hc
  rcases hf with ⟨k, r, p, b, fe, fm, hf⟩ | ⟨id, hf⟩ <;> rw [hf] at hc <;> cases hc

/-- every derivation is realised by the stepping evaluator up to the representation of the empty list, started in any
related environment, at every depth that leaves room for the overhead -/
theorem dei_of_evalsF (hl : DLoaded st) {env : Val} {home : Name} {e v : Val} {h : Nat}
    (hev : EvalsF (globalsOf st) env home e v h) :
    ∀ env', Sim env env' → ∀ d, d + overhead h ≤ Config.maxRecursionDepth →
      ∃ v', Sim v v' ∧ DeiRuns st env' (.sym (.named home)) d e v' := by
  obtain ⟨tail, htail, htailp⟩ := hl.base.nil
  apply EvalsF.rec (G := globalsOf st)
    (motive_1 := fun env home e v h _ => ∀ env', Sim env env' → ∀ d, d + overhead h ≤ Config.maxRecursionDepth →
      ∃ v', Sim v v' ∧ DeiRuns st env' (.sym (.named home)) d e v')
    (motive_2 := fun env home xs vs h _ => ∀ env', Sim env env' → ∀ d, d + overhead h ≤ Config.maxRecursionDepth →
      ∃ vs', SimL vs vs' ∧ C16.MapsVia (DeiRuns st env' (.sym (.named home)) d) xs vs')
    (t := hev)
  case emptyList =>
    intro env home e h hlv env' henv d hd
    unfold overhead at hd
    have hnil := listToVec_nil_inv hlv
    have hg := get_of_isNil hnil
    exact ⟨e, .empty rfl hnil, dei_atom hl e env' _ d (by omega) (fun a b h => by rw [hg] at h; cases h)
      (fun a b h => by rw [hg] at h; cases h) (fun a h => by rw [hg] at h; cases h)⟩
  case selfEval =>
    intro env home e h _ h1 h2 h3 env' henv d hd
    unfold overhead at hd
    exact ⟨e, .same e, dei_atom hl e env' _ d (by omega) h1 h2 h3⟩
  case varLocal =>
    intro env home e s v h _ hg hlk hwalk env' henv d hd
    unfold overhead at hd
    obtain ⟨hwalk', hrel⟩ := sim_lookup s henv hwalk
    rw [hlk] at hrel
    cases hlk' : lookupEnv s env' with
    | none => rw [hlk'] at hrel; exact hrel.elim
    | some v' =>
      rw [hlk'] at hrel
      exact ⟨v', hrel, dei_symbol hl e env' s home v' d (by omega) hg (some v') (hlk' ▸ envWalks_walk s env' hwalk')
        (Or.inl rfl)⟩
  case varGlobal =>
    intro env home e s v h _ hg hlk hG hwalk env' henv d hd
    unfold overhead at hd
    obtain ⟨hwalk', hrel⟩ := sim_lookup s henv hwalk
    rw [hlk] at hrel
    cases hlk' : lookupEnv s env' with
    | some v' => rw [hlk'] at hrel; exact hrel.elim
    | none =>
      exact ⟨v, .same v, dei_symbol hl e env' s home v d (by omega) hg none (hlk' ▸ envWalks_walk s env' hwalk')
        (Or.inr ⟨rfl, hG⟩)⟩
  case lambda =>
    intro env home e first operands f h hlv hlam hmk env' henv d hd
    unfold overhead at hd
    obtain ⟨f', hmk', hf⟩ := sim_makeFunction henv hmk
    exact ⟨f', hf, dei_lambda hl e first env' f' operands home d (by omega) hlv hlam hmk'⟩
  case quote =>
    intro env home e first x h hlv _ hq env' henv d hd
    unfold overhead at hd
    exact ⟨x, .same x, dei_quote hl e first x env' _ d (by omega) hlv hq⟩
  case ifBranch =>
    intro env home e first c t o cv v h hlv _ _ hif _ _ ih1 ih2 env' henv d hd
    unfold overhead at hd
    obtain ⟨cv', hcv, hc⟩ := ih1 env' henv (d + 3) (by unfold overhead; omega)
    obtain ⟨v', hv, hb⟩ := ih2 env' henv (d + 2) (by unfold overhead; omega)
    rw [hcv.isNil_eq] at hb
    exact ⟨v', hv, dei_if hl e first c t o env' _ cv' v' d (by omega) hlv hif hc hb⟩
  case callClosure =>
    intro env home e first operands f k rest params body fenv fmod args newEnv v h hlv hsp hfirst hf _ hp _
      hbody hamp hlen ih1 ih2 ih3 env' henv d hd
    unfold overhead at hd
    obtain ⟨f', hff, hrunf⟩ := ih1 env' henv (d + 6) (by unfold overhead; omega)
    obtain ⟨args', hargs, hrunargs⟩ := ih2 env' henv (d + 6) (by unfold overhead; omega)
    obtain ⟨fenv', hf', hfenv⟩ := hff.get_fn hf
    obtain ⟨hnew, hlenp⟩ := pair_is_restEnv rest params fenv _ args newEnv hp
    have hsim : Sim newEnv (restEnv rest ((args'.drop ((listToVec params).getD []).length).foldr Val.cons tail)
        (bindAll ((listToVec params).getD []) args' fenv')) := by
      rw [hnew]
      exact sim_restEnv rest ((hargs.drop _).ofList_foldr htailp) (sim_bindAll _ hargs hfenv)
    obtain ⟨v', hv, hrunb⟩ := ih3 _ hsim (d + 2) (by unfold overhead; omega)
    refine ⟨v', hv, dei_callClosure_gen hl e first env' _ f' operands args' k rest params body fenv' fmod v' d (by omega)
      tail htail hlv hsp (operatorF_not_chr hfirst (Or.inl ⟨_, _, _, _, _, _, hf⟩)) hlen
      (.cons _ _ _ _ hrunf hrunargs) hf' hbody
      (fun p hp => by simpa using List.all_eq_true.mp hamp p hp) (by rw [← hargs.length_eq]; exact hlenp) hrunb⟩
  case callPrim =>
    intro env home e first operands f id args v h dp hlv hsp hfirst hf hc _ hr hlen ih1 ih2 env' henv d hd
    unfold overhead at hd
    obtain ⟨f', hff, hrunf⟩ := ih1 env' henv (d + 6) (by unfold overhead; omega)
    obtain ⟨args', hargs, hrunargs⟩ := ih2 env' henv (d + 6) (by unfold overhead; omega)
    obtain ⟨v', hr', hv⟩ := sim_primResult hc hargs hr
    exact ⟨v', hv, dei_callPrim hl e first env' _ f' operands args' id v' d dp (by omega) hlv hsp
      (operatorF_not_chr hfirst (Or.inr ⟨_, hf⟩)) hlen (.cons _ _ _ _ hrunf hrunargs) (hff.get_native hf) hc hr'⟩
  case nil => intro env home h env' henv d hd; exact ⟨[], .nil, .nil⟩
  case cons =>
    intro env home x xs v vs h _ _ ih1 ih2 env' henv d hd
    obtain ⟨v', hv, h1⟩ := ih1 env' henv d hd
    obtain ⟨vs', hvs, h2⟩ := ih2 env' henv d hd
    exact ⟨v' :: vs', .cons hv hvs, .cons _ _ _ _ h1 h2⟩

end helpers

/-- the unrestricted rules are sound for the reference semantics too -/
theorem evalsF_sound (G : Globals) (env : Val) (home : Name) (e v : Val) (h d : Nat)
    (hev : EvalsF G env home e v h) (hd : d + h ≤ Config.maxRecursionDepth) :
    Ref.Eval G env home d e (.ok v) := by
  revert d
  apply EvalsF.rec (G := G)
    (motive_1 := fun env home e v h _ => ∀ d, d + h ≤ Config.maxRecursionDepth → Ref.Eval G env home d e (.ok v))
    (motive_2 := fun env home xs vs h _ => ∀ d, d + 1 + h ≤ Config.maxRecursionDepth →
      Ref.EvalArgs G env home d xs (.ok vs))
    (t := hev)
  case emptyList => intro env home e h hl d hd; exact .emptyList (by omega) hl
  case selfEval => intro env home e h hl h1 h2 h3 d hd; exact .selfEval (by omega) hl h1 h2 h3
  case varLocal => intro env home e s v h hl hg hlk _ d hd; exact .varLocal (by omega) hl hg hlk
  case varGlobal => intro env home e s v h hl hg hlk hG _ d hd; exact .varGlobal (by omega) hl hg hlk hG
  case lambda => intro env home e first operands f h hl hlam hmk d hd; exact hmk ▸ .lambda (by omega) hl hlam
  case quote => intro env home e first x h hl hlam hq d hd; exact .quote (by omega) hl hlam hq
  case ifBranch =>
    intro env home e first c t o cv v h hl hlam hq hif _ _ ih1 ih2 d hd
    exact .ifBranch (by omega) hl hlam hq hif (ih1 (d + 1) (by omega)) (ih2 d (by omega))
  case callClosure =>
    intro env home e first operands f k rest params body fenv fmod args newEnv v h hl hsp _ hf _ hp _ _ _ _
      ih1 ih2 ih3 d hd
    exact .callClosure (by omega) hl (isSpecialD_false hsp).1 (ih1 (d + 1) (by omega)) hf (ih2 d (by omega)) hp
      (ih3 d (by omega))
  case callPrim =>
    intro env home e first operands f id args v h d' hl hsp _ hf hc _ hr _ ih1 ih2 d hd
    have := Ref.Eval.callPrim (G := G) (env := env) (home := home) (d := d) (e := e) (by omega) hl
      (isSpecialD_false hsp).1 (ih1 (d + 1) (by omega)) hf hc (ih2 d (by omega))
    rwa [Dbg.primResult_depth id hc args (d + 1) d', hr] at this
  case nil => intro env home h d hd; exact .nil
  case cons => intro env home x xs v vs h _ _ ih1 ih2 d hd; exact .cons (ih1 (d + 1) (by omega)) (ih2 d hd)

/-- THE THEOREM for the whole core language: whatever value the reference semantics derives for an expression, the body
of `debug-eval-internal` (detached, stepping over), started in an environment that is the same up to the representation
of the empty list, returns the same value up to the representation of the empty list -/
theorem debug_eval_internal_agrees (st : St) (hl : LoadedD st) (env env' : Val) (home : Name) (e v : Val) (h d : Nat)
    (hev : EvalsF (globalsOf st) env home e v h) (henvs : Sim env env')
    (hd : d + overhead h ≤ Config.maxRecursionDepth) (dbgEnv : Val)
    (henv : C16.callEnv DebuggerX.debug_eval_internal_rest DebuggerX.debug_eval_internal_params
              [e, env', .sym (.named home), .nil] = some dbgEnv) :
    ∃ fuel k v', Sim v v' ∧
      evalInternal fuel st DebuggerX.debug_eval_internal_body dbgEnv cs!"debugger" d = (.ok v', C16.bump st k) := by
  obtain ⟨p1, p2, p3, p4, hq⟩ := DebuggerX.debug_eval_internal_params_shape
  have hE := C16.callEnv_ok henv
  rw [hq, DebuggerX.debug_eval_internal_rest_eq, Dbg.pair4] at hE
  cases hE
  obtain ⟨v', hv, hrun⟩ := dei_of_evalsF hl.toD hev env' henvs d hd
  obtain ⟨fuel, k, hk⟩ := C16.realiseJ (hrun p1 p2 p3 p4 .nil rfl)
  exact ⟨fuel, k, v', hv, hk⟩

/-- related values are indistinguishable by the language: `=` answers the same, and they print the same -/
theorem sim_equal (a a' b b' : Val) (ha : Sim a a') (hb : Sim b b') : equalInternal a b = equalInternal a' b' :=
  (sim_equal_both a).1 a' b b' ha hb

/-! ### non-vacuity: the two rules that `Props/C20b.lean` leaves out

In `exStD` the global `nil` is bound to the bare `nil`, so there the list a rest parameter is bound to ends in the bare nil
in both evaluators; in the interpreter `nil` is bound by `define`, which wraps the value in the metadata of the name.
`exStM` is `exStD` with that binding: there the two results differ. -/

def nilMeta : Meta := ⟨cs!"nil", ⟨.prelude, 1, 1⟩, []⟩

/-- `exStD`, with `nil` bound to a metadata cell around nil (as `define` binds it) -/
def exStM : St := { (default : St) with
  modules := [⟨cs!"prelude", NativeId.all.map (fun id => (id.name, Val.native id)) ++
                [(cs!"nil", .md .nil nilMeta), (cs!"t", .symName cs!"t")] ++ Prelude.table ++ PreludeX.table, none⟩,
              ⟨cs!"debugger", DebuggerX.table, none⟩],
  current := cs!"prelude" }

theorem exStM_table (tbl : List (Name × Val)) (home : Name)
    (hall : tbl.all (fun p => match exStM.getGlobal p.1 home with | .found w => w.get == p.2 | _ => false) = true) :
    ∀ name v, (name, v) ∈ tbl → ∃ w, exStM.getGlobal name home = .found w ∧ w.get = v := by
  intro name v hmem
  obtain ⟨w, hw, hp⟩ := C16.found_of_check (List.all_eq_true.mp hall (name, v) hmem)
  exact ⟨w, hw, eq_of_beq hp⟩

theorem exStM_natives (home : Name)
    (hall : NativeId.all.all (fun id => match exStM.getGlobal id.name home with
      | .found w => w.get == .native id | _ => false) = true) :
    ∀ id : NativeId, ∃ w, exStM.getGlobal id.name home = .found w ∧ w.get = .native id := by
  intro id
  have hmem : id ∈ NativeId.all := by cases id <;> decide
  obtain ⟨w, hw, hp⟩ := C16.found_of_check (List.all_eq_true.mp hall id hmem)
  exact ⟨w, hw, eq_of_beq hp⟩

theorem exStM_base : C16.Loaded exStM where
  detached := rfl
  current := by unfold HasModule; decide +kernel
  prelude := exStM_table _ _ (by decide +kernel)
  natives := fun id _ => exStM_natives cs!"prelude" (by decide +kernel) id
  nil := C16.found_of_check (P := Val.isNil) (by decide +kernel)
  t := by
    obtain ⟨w, hw, hp⟩ := C16.found_of_check (l := exStM.getGlobal cs!"t" cs!"prelude") (P := fun w => !w.isNil)
      (by decide +kernel)
    exact ⟨w, hw, by simpa using hp⟩

theorem exStM_loaded : LoadedD exStM where
  base := exStM_base
  debugger := exStM_table _ _ (by decide +kernel)
  preludeD := exStM_table _ _ (by decide +kernel)
  preludeXD := exStM_table _ _ (by decide +kernel)
  nativesD := exStM_natives cs!"debugger" (by decide +kernel)
  nilD := C16.found_of_check (P := Val.isNil) (by decide +kernel)
  tD := by
    obtain ⟨w, hw, hp⟩ := C16.found_of_check (l := exStM.getGlobal cs!"t" cs!"debugger") (P := fun w => !w.isNil)
      (by decide +kernel)
    exact ⟨w, hw, by simpa using hp⟩

/-- the environment of a call `(debug-eval-internal e nil 'prelude nil)` -/
def dbgEnvOf (e : Val) : Val :=
  C16.envOf DebuggerX.debug_eval_internal_rest DebuggerX.debug_eval_internal_params [e, .nil, .sym (.named cs!"prelude"), .nil]

/-- `((lambda (& r) r) 1 2)` -/
def restProgram : Val :=
  .ofList [.ofList [.symName cs!"lambda", .ofList [.symName cs!"&", .symName cs!"r"], .symName cs!"r"], .num 1, .num 2]

/-- the reference semantics gives it the value `(1 2)`, a fresh list ending in the bare nil — in every state -/
theorem restProgram_evals (G : Globals) : EvalsF G .nil cs!"prelude" restProgram (.ofList [.num 1, .num 2]) 1 :=
  EvalsF.callClosure (first := .ofList [.symName cs!"lambda", .ofList [.symName cs!"&", .symName cs!"r"], .symName cs!"r"])
    (operands := [.num 1, .num 2]) (args := [.num 1, .num 2]) (k := .lambda) (rest := .symName cs!"r")
    (params := .ofList []) (body := .symName cs!"r") (fenv := .nil) (fmod := cs!"prelude")
    (newEnv := .cons (.cons (.symName cs!"r") (.ofList [.num 1, .num 2])) .nil) rfl rfl
    (EvalsF.lambda (first := .symName cs!"lambda") rfl rfl rfl) rfl
    (.cons (.selfEval rfl (fun _ _ h => by cases h) (fun _ _ h => by cases h) (fun _ h => by cases h))
      (.cons (.selfEval rfl (fun _ _ h => by cases h) (fun _ _ h => by cases h) (fun _ h => by cases h)) .nil))
    rfl (EvalsF.varLocal (s := .named cs!"r") rfl rfl rfl rfl) rfl rfl (by decide)

/-- the value the stepping evaluator returns for it in `exStM`: the list ends in the value of the global `nil` -/
def restResultM : Val := .cons (.num 1) (.cons (.num 2) (.md .nil nilMeta))

/-- the theorem applies to a call of a closure with a rest parameter (in `exStM` and in `exStD`) -/
example : ∃ fuel k v', Sim (.ofList [.num 1, .num 2]) v' ∧
    evalInternal fuel exStM DebuggerX.debug_eval_internal_body (dbgEnvOf restProgram) cs!"debugger" 0 =
      (.ok v', C16.bump exStM k) :=
  debug_eval_internal_agrees exStM exStM_loaded .nil .nil cs!"prelude" restProgram _ 1 0 (restProgram_evals _) (.same _)
    (by decide) _ (by decide +kernel)

example : ∃ fuel k v', Sim (.ofList [.num 1, .num 2]) v' ∧
    evalInternal fuel exStD DebuggerX.debug_eval_internal_body (dbgEnvOf restProgram) cs!"debugger" 0 =
      (.ok v', C16.bump exStD k) :=
  debug_eval_internal_agrees exStD exStD_loaded .nil .nil cs!"prelude" restProgram _ 1 0 (restProgram_evals _) (.same _)
    (by decide) _ (by decide +kernel)

/-- what the two evaluators actually return in `exStM` (checked by evaluation): the evaluator `(1 2)` ending in the bare
nil, the stepping evaluator `(1 2)` ending in the metadata cell the global `nil` is bound to … -/
example : (match (evalInternal 50 exStM restProgram .nil cs!"prelude" 0).1 with
           | .ok v => v == .ofList [.num 1, .num 2] | _ => false) = true := by decide +kernel
example : (match (evalInternal 300 exStM DebuggerX.debug_eval_internal_body (dbgEnvOf restProgram) cs!"debugger" 0).1 with
           | .ok v => v == restResultM | _ => false) = true := by decide +kernel
/-- … related, but not equal -/
example : Sim (.ofList [.num 1, .num 2]) restResultM ∧ Val.ofList [.num 1, .num 2] ≠ restResultM :=
  ⟨.cons (.same _) (.cons (.same _) (.empty rfl rfl)), by decide⟩

/-- the empty list as the reader produces it -/
def unitLiteral : Val := .md .nil ⟨[], ⟨.stdin, 1, 17⟩, []⟩

/-- `((lambda (x) x) ())` -/
def unitProgram : Val :=
  .ofList [.ofList [.symName cs!"lambda", .ofList [.symName cs!"x"], .symName cs!"x"], unitLiteral]

/-- the reference semantics gives it the bare nil -/
theorem unitProgram_evals (G : Globals) : EvalsF G .nil cs!"prelude" unitProgram .nil 1 :=
  EvalsF.callClosure (first := .ofList [.symName cs!"lambda", .ofList [.symName cs!"x"], .symName cs!"x"])
    (operands := [unitLiteral]) (args := [.nil]) (k := .lambda) (rest := .nil)
    (params := .ofList [.symName cs!"x"]) (body := .symName cs!"x") (fenv := .nil) (fmod := cs!"prelude")
    (newEnv := .cons (.cons (.symName cs!"x") .nil) .nil) rfl rfl
    (EvalsF.lambda (first := .symName cs!"lambda") rfl rfl rfl) rfl
    (.cons (.emptyList rfl) .nil)
    rfl (EvalsF.varLocal (s := .named cs!"x") rfl rfl rfl rfl) rfl rfl (by decide)

/-- the theorem applies to the reader's `()`, alone and as an operand -/
example : ∃ fuel k v', Sim .nil v' ∧
    evalInternal fuel exStD DebuggerX.debug_eval_internal_body (dbgEnvOf unitLiteral) cs!"debugger" 0 =
      (.ok v', C16.bump exStD k) :=
  debug_eval_internal_agrees exStD exStD_loaded .nil .nil cs!"prelude" unitLiteral _ 0 0 (.emptyList rfl) (.same _)
    (by decide) _ (by decide +kernel)

example : ∃ fuel k v', Sim .nil v' ∧
    evalInternal fuel exStD DebuggerX.debug_eval_internal_body (dbgEnvOf unitProgram) cs!"debugger" 0 =
      (.ok v', C16.bump exStD k) :=
  debug_eval_internal_agrees exStD exStD_loaded .nil .nil cs!"prelude" unitProgram _ 1 0 (unitProgram_evals _) (.same _)
    (by decide) _ (by decide +kernel)

/-- what the two evaluators actually return in `exStD` (checked by evaluation): the evaluator a fresh nil, the stepping
evaluator the literal with its metadata … -/
example : (match (evalInternal 50 exStD unitProgram .nil cs!"prelude" 0).1 with
           | .ok v => v == .nil | _ => false) = true := by decide +kernel
example : (match (evalInternal 300 exStD DebuggerX.debug_eval_internal_body (dbgEnvOf unitProgram) cs!"debugger" 0).1 with
           | .ok v => v == unitLiteral | _ => false) = true := by decide +kernel
example : (match (evalInternal 50 exStD unitLiteral .nil cs!"prelude" 0).1 with
           | .ok v => v == .nil | _ => false) = true := by decide +kernel
example : (match (evalInternal 300 exStD DebuggerX.debug_eval_internal_body (dbgEnvOf unitLiteral) cs!"debugger" 0).1 with
           | .ok v => v == unitLiteral | _ => false) = true := by decide +kernel
/-- … related, but not equal -/
example : Sim .nil unitLiteral ∧ Val.nil ≠ unitLiteral := ⟨.empty rfl rfl, by decide⟩

/-- why the rule `Sim.md` has side conditions: `#md(nil)` is an empty list, `#md(#md(nil))` is not — `(if x 1 2)` yields 2
in the evaluator with `x` bound to the one, and 1 in the stepping evaluator (as in the evaluator) with `x` bound to the other;
with the unrestricted rule (`md` applied to `empty`) the two environments would be related, and the theorem false -/
example :
    let prog : Val := .ofList [.symName cs!"if", .symName cs!"x", .num 1, .num 2]
    let m : Meta := ⟨[], ⟨.stdin, 1, 1⟩, []⟩
    let env : Val := .ofList [.cons (.symName cs!"x") (.md .nil m)]
    let env' : Val := .ofList [.cons (.symName cs!"x") (.md (.md .nil m) m)]
    (Val.md .nil m).isNil = true ∧ (Val.md (.md .nil m) m).isNil = false ∧
    (match (evalInternal 50 exStD prog env cs!"prelude" 0).1 with | .ok v => v == .num 2 | _ => false) = true ∧
    (match (evalInternal 50 exStD prog env' cs!"prelude" 0).1 with | .ok v => v == .num 1 | _ => false) = true ∧
    (match (evalInternal 300 exStD DebuggerX.debug_eval_internal_body
        (C16.envOf DebuggerX.debug_eval_internal_rest DebuggerX.debug_eval_internal_params
          [prog, env', .sym (.named cs!"prelude"), .nil]) cs!"debugger" 0).1 with
      | .ok v => v == .num 1 | _ => false) = true := by decide +kernel

end Pici.C20
