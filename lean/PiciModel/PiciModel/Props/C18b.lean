/-
C18 (layer 2) — The REPL processes a session correctly: every line of the script is read, evaluated and printed exactly
once, in order, whatever the chunks in which the operating system delivers the bytes; end of input ends the session
cleanly.

The REPL is the PiciLisp function `repl` of repl.lisp, as the model binds it after loading the current file: the stored,
macro-expanded closure `ReplX.repl_fn` (`Generated/ReplExpanded.lean`), interpreted by the evaluator model
`evalInternal` (`Model/Eval.lean`).

Main results: `repl_iteration` (one line), `repl_eof` (end of input), `repl_session` / `repl_session_from` (a whole
script, by induction), `repl_session_chunking_invariant`.  Everything that changes the state (output, consumed input) is
handled by `RunsS` (`Lemmas/ReplSteps.lean`), the generalisation of `RunsJ` to arbitrary changes of the state.

What the proof showed about the REPL (none of it repaired here):
* the user's form is evaluated by the INLINED `eval` of the evaluator, i.e. in the REPL's local environment and in the
  module `repl`, not in an empty environment and the current module: a form sees `prompt`, `initial-input`,
  `current-input`, `read-result`, `read-status` (typing `prompt` prints `">>> "`) and the private functions of repl.lisp —
  hence the hypothesis `Entry.evals` quantifies over the values of these five variables (`ReplLocals`);
* `(repl ">>> " nil)` is called INSIDE the `try` of the calling `repl`: one evaluator level per line (`depthA`, F17b);
  a blank line or a comment (read status `nothing`) also costs a level, and prints nothing but the prompt again;
* whatever follows the first form on a line is dropped (F17a), and every line is read as line 1 of `stdin`;
* the prelude function `input` uses `block`, so what is bound is a macro-expanded closure that the generated files do not
  contain: it is described by `IsInputFn` (`Lemmas/ReplShapes.lean`) and, for the example state, reproduced by loading the
  definition with the model itself (`loadedInput`).
-/
import PiciModel.Props.C16d
import PiciModel.Props.C18
import PiciModel.Lemmas.ReplSteps
import PiciModel.Lemmas.ReplShapes
import PiciModel.Lemmas.Expand

namespace Pici.C18b
open Pici Pici.Ref Pici.C16

/-! ### the state -/

/-- `s` differs from `st` only by its output, its standard input and its step counter -/
def IOVariant (st s : St) : Prop :=
  s.modules = st.modules ∧ s.current = st.current ∧ s.gensym = st.gensym ∧ s.attached = st.attached ∧
  s.inbox = st.inbox ∧ s.sent = st.sent

/-- a state in which the REPL is loaded: the whole prelude as code of the module `prelude` sees it (`C16.LoadedX`: no
debugger attached, …); the natives and global values that the prelude functions `input` and `output` use resolve from the
module `prelude`; and, from the module `repl` — the module of the REPL's code —: every function of repl.lisp resolves to
the stored closure of `ReplX.table`, the prelude functions to the values of `Prelude.table`, the macro-using prelude
functions to the stored closures of `PreludeX.table`, `input` to its stored closure, the natives the REPL calls to the
natives, `nil` to a nil value and `t` to a non-nil one -/
structure LoadedR (st : St) : Prop where
  baseX     : LoadedX st
  ioNatives : ∀ id, id ∈ [NativeId.inputFile, .outputFile] →
                ∃ w, st.getGlobal id.name cs!"prelude" = .found w ∧ w.get = .native id
  stdin     : ∃ w, st.getGlobal cs!"*stdin*" cs!"prelude" = .found w ∧ w.isSymNamed cs!"*stdin*" = true
  stdout    : ∃ w, st.getGlobal cs!"*stdout*" cs!"prelude" = .found w ∧ w.isSymNamed cs!"*stdout*" = true
  replFns   : ∀ name v, (name, v) ∈ ReplX.table → ∃ w, st.getGlobal name cs!"repl" = .found w ∧ w.get = v
  preludeR  : ∀ name v, (name, v) ∈ Prelude.table → ∃ w, st.getGlobal name cs!"repl" = .found w ∧ w.get = v
  preludeXR : ∀ name v, (name, v) ∈ PreludeX.table → ∃ w, st.getGlobal name cs!"repl" = .found w ∧ w.get = v
  inputR    : ∃ w, st.getGlobal cs!"input" cs!"repl" = .found w ∧ IsInputFn w.get
  nativesR  : ∀ id, id ∈ [NativeId.eval, .equal, .signal, .list, .getProperty, .read, .print] →
                ∃ w, st.getGlobal id.name cs!"repl" = .found w ∧ w.get = .native id
  nilR      : ∃ w, st.getGlobal cs!"nil" cs!"repl" = .found w ∧ w.isNil = true
  tR        : ∃ w, st.getGlobal cs!"t" cs!"repl" = .found w ∧ w.isNil = false

/-! ### a line of the script -/

/-- the environment in which the REPL evaluates the user's form: exactly the five local variables of `repl`, innermost
first, with any values -/
def ReplLocals (env : Val) : Prop :=
  ∃ m1 m2 m3 m4 m5 v1 v2 v3 v4 v5, env =
    .cons (.cons (symA cs!"read-status" m1) v1) (.cons (.cons (symA cs!"read-result" m2) v2)
      (.cons (.cons (symA cs!"current-input" m3) v3) (.cons (.cons (symA cs!"initial-input" m4) v4)
        (.cons (.cons (symA cs!"prompt" m5) v5) .nil))))

/-- one line of a session with the interpreter in state `st`: ASCII text ending in its only newline, that holds one
complete form which reads, evaluates to a value — without any effect on the state but the step counter, at every depth
that leaves `need` levels — and prints -/
structure Entry (st : St) (need : Nat) where
  /-- the text of the line, without the newline -/
  body  : List Char
  /-- what `read` returns for the line -/
  form  : Val
  rest  : Rest
  /-- the value of the form -/
  value : Val
  /-- the printed value -/
  text  : List Char
  ascii : ∀ c ∈ body, c.toNat < 128
  oneLine : '\n' ∉ body
  /-- the `read` native, called as the REPL calls it — `(read line 'stdin 1 1)` — answers status `ok` with the form (whatever
  follows the form on the line is ignored by the REPL: finding F17a) -/
  reads : readCore [.ofChars (body ++ ['\n']), .symName cs!"stdin", .num 1, .num 1] 0 = .ok (.ok form rest)
  /-- `(eval form)` as the REPL's code calls it — complete macro expansion, then evaluation, in the REPL's local
  environment and the module `repl` (`evalInline`) — yields the value and changes nothing but the step counter: in every
  state that differs from `st` only by output, consumed input and steps, whatever the values of the REPL's local variables -/
  evals : ∀ s, IOVariant st s → ∀ env, ReplLocals env → ∀ dd, dd + need ≤ Config.maxRecursionDepth →
            ∃ F k, ∀ n, F ≤ n → evalInline n s form env cs!"repl" dd = (.ok value, C05.bump s k)
  /-- the `print` native prints the value -/
  prints : ∀ pd, pd + need ≤ Config.maxRecursionDepth → printText [value] pd = .ok text

/-- the line as typed: the text and the newline -/
def Entry.line {st : St} {need : Nat} (e : Entry st need) : List Char := e.body ++ ['\n']

/-- the bytes of a script -/
def script {st : St} {need : Nat} (es : List (Entry st need)) : List UInt8 :=
  (es.map fun e => asciiBytes e.line).flatten

/-- what a session prints: the prompt before every line, the printed value and a newline after every form, the prompt
`>>> ` from the second line on, and the empty line that `(output "")` prints at end of input -/
def transcript (prompt : List Char) : List (List Char) → List Char
  | []      => prompt ++ ['\n']
  | t :: ts => prompt ++ t ++ ['\n'] ++ transcript cs!">>> " ts

theorem transcript_eq (prompt : List Char) (ts : List (List Char)) :
    transcript prompt ts = prompt ++ (ts.map fun t => t ++ ['\n'] ++ cs!">>> ").flatten ++ ['\n'] := by
  induction ts generalizing prompt with
  | nil => simp [transcript]
  | cons t ts ih => simp [transcript, ih, List.append_assoc]

section helpers

/-! ### the state predicates under changes of output and input -/

theorem IOVariant.refl (st : St) : IOVariant st st := ⟨rfl, rfl, rfl, rfl, rfl, rfl⟩

theorem IOVariant.bump {st s : St} (h : IOVariant st s) (j : Nat) : IOVariant st (C05.bump s j) := h

theorem IOVariant.write {st s : St} (h : IOVariant st s) (text : List Char) : IOVariant st (s.write text) := h

theorem IOVariant.io {st s : St} (h : IOVariant st s) (out : List Char) (buf : List UInt8) (chunks : List (List UInt8)) :
    IOVariant st { s with out := out, stdinBuf := buf, stdinChunks := chunks } := h

theorem getGlobal_congr {st s : St} (h : s.modules = st.modules) (name home : Name) :
    s.getGlobal name home = st.getGlobal name home := by
  simp only [St.getGlobal, h]

theorem hasModule_congr {st s : St} (hm : s.modules = st.modules) (hc : s.current = st.current)
    (h : HasModule st st.current) : HasModule s s.current := by
  unfold HasModule St.findModule at *
  rw [hm, hc]; exact h

theorem LoadedR.variant {st s : St} (hl : LoadedR st) (hv : IOVariant st s) : LoadedR s := by
  obtain ⟨hm, hc, _, ha, _, _⟩ := hv
  have hg := getGlobal_congr hm
  refine ⟨⟨⟨?_, ?_, ?_, ?_, ?_, ?_⟩, ?_, ?_, ?_⟩, ?_, ?_, ?_, ?_, ?_, ?_, ?_, ?_, ?_, ?_⟩
  · rw [ha]; exact hl.baseX.base.detached
  · exact hasModule_congr hm hc hl.baseX.base.current
  · intro n v h; rw [hg]; exact hl.baseX.base.prelude n v h
  · intro id h; rw [hg]; exact hl.baseX.base.natives id h
  · rw [hg]; exact hl.baseX.base.nil
  · rw [hg]; exact hl.baseX.base.t
  · intro n v h; rw [hg]; exact hl.baseX.preludeX n v h
  · rw [hg]; exact hl.baseX.gensymN
  · intro id h; rw [hg]; exact hl.baseX.nativesX id h
  · intro id h; rw [hg]; exact hl.ioNatives id h
  · rw [hg]; exact hl.stdin
  · rw [hg]; exact hl.stdout
  · intro n v h; rw [hg]; exact hl.replFns n v h
  · intro n v h; rw [hg]; exact hl.preludeR n v h
  · intro n v h; rw [hg]; exact hl.preludeXR n v h
  · rw [hg]; exact hl.inputR
  · intro id h; rw [hg]; exact hl.nativesR id h
  · rw [hg]; exact hl.nilR
  · rw [hg]; exact hl.tR

theorem LoadedR.sees {s : St} (hl : LoadedR s) : C05.Sees s (globalsOf s) := hl.baseX.base.sees

theorem LoadedR.detached {s : St} (hl : LoadedR s) : s.attached = false := hl.baseX.base.detached

/-! ### `concat`, on any values that are proper lists -/

/-- `as` are proper lists (possibly behind metadata, possibly ending in a nil behind metadata) with the elements `ls` -/
inductive ListsOf : List Val → List (List Val) → Prop
  | nil : ListsOf [] []
  | cons {a : Val} {x : List Val} {as : List Val} {l : List (List Val)} :
      listToVec a = some x → ListsOf as l → ListsOf (a :: as) (x :: l)

/-- `(concat a1 … an)`, n > 0, each `ai` a proper list (possibly behind metadata, possibly ending in a nil behind
metadata): the fresh bare list of all the elements, in order -/
theorem concat_runs {s : St} (hl : LoadedX s) (as : List Val) (ls : List (List Val))
    (hls : ListsOf as ls) (hne : as ≠ [])
    (name : Option Name) (env : Val) (d : Nat) (hd : d + as.length + 4 ≤ Config.maxRecursionDepth)
    (henv : pairParamsAndArgs PreludeX.concat_rest PreludeX.concat_params .nil name as = .ok env) :
    RunsJ s PreludeX.concat_body env cs!"prelude" d (.ok (.ofList ls.flatten)) := by
  obtain ⟨p, hp⟩ := PreludeX.concat_rest_shape
  obtain ⟨m1, m2, m3, m4, m5, m6, m7, m8, m9, m10, m11, m12, m13, m14, m15, m16, m17, m18, hb⟩ := PreludeX.concat_body_shape
  have hlb := hl.base
  have hE : env = .cons (.cons (symA cs!"lists" p) (.ofList as)) .nil := by
    rw [hp, PreludeX.concat_params_eq, pairRest] at henv
    exact (Res.ok.inj henv).symm
  obtain ⟨wcar, hwcar, hwcarg⟩ := hlb.native .car (by decide)
  obtain ⟨wcdr, hwcdr, hwcdrg⟩ := hlb.native .cdr (by decide)
  obtain ⟨wapp, hwapp, hwappg⟩ := hl.nativesX .append (by decide)
  obtain ⟨nilV, hnil, hnilp⟩ := hlb.nil
  have hwapp' : globalsOf s cs!"append" cs!"prelude" = .found wapp := hwapp
  have hatt := hlb.detached
  have hs := hlb.sees
  have hd0 : d ≤ Config.maxRecursionDepth := by omega
  have hd1 : d + 1 ≤ Config.maxRecursionDepth := by omega
  let ifForm : Val := .ofList [symA cs!"if" m9, symA cs!"xs" m10,
    .ofList [symA cs!"append" m11, .ofList [symA cs!"car" m12, symA cs!"xs" m13],
             .ofList [symA cs!"f" m14, symA cs!"f" m15, .ofList [symA cs!"cdr" m16, symA cs!"xs" m17]]],
    symA cs!"nil" m18]
  let lam2Form : Val := .ofList [symA cs!"lambda" m6, .ofList [symA cs!"f" m7, symA cs!"xs" m8], ifForm]
  let callForm : Val := .ofList [symA cs!"f" m3, symA cs!"f" m4, symA cs!"lists" m5]
  let lam1Form : Val := .ofList [symA cs!"lambda" m1, .ofList [symA cs!"f" m2], callForm]
  let clo2 : Val := .fn .lambda .nil (.ofList [symA cs!"f" m7, symA cs!"xs" m8]) ifForm env cs!"prelude"
  have hclo2 : makeFunctionInternal [.ofList [symA cs!"f" m7, symA cs!"xs" m8], ifForm] env cs!"prelude" cs!"lambda" .lambda =
      .ok clo2 := rfl
  let clo1 : Val := .fn .lambda .nil (.ofList [symA cs!"f" m2]) callForm env cs!"prelude"
  have hclo1 : makeFunctionInternal [.ofList [symA cs!"f" m2], callForm] env cs!"prelude" cs!"lambda" .lambda = .ok clo1 := rfl
  have hrec : ∀ (as : List Val) (ls : List (List Val)), ListsOf as ls →
      ∀ (dd : Nat), dd + as.length + 4 ≤ Config.maxRecursionDepth →
      ∃ r, listToVec r = some ls.flatten ∧ (as ≠ [] → r = .ofList ls.flatten) ∧
        RunsJ s ifForm (.cons (.cons (symA cs!"xs" m8) (.ofList as)) (.cons (.cons (symA cs!"f" m7) clo2) env))
          cs!"prelude" dd (.ok r) := by
    intro as ls h
    induction h with
    | nil =>
      intro dd hdd
      generalize hE2 : Val.cons (.cons (symA cs!"xs" m8) (.ofList [])) (.cons (.cons (symA cs!"f" m7) clo2) env) = env2
      have hE2' := hE2.symm
      refine ⟨nilV, listToVec_foldr_cons [] nilV hnilp, fun h => absurd rfl h, ?_⟩
      exact RunsJ.of_eval hs (ev_if_false (by omega) (ev_local (by omega) (by lk hE2')) rfl
        (ev_global (by omega) (by lk2 hE2' hE) hnil))
    | @cons a x as l hax _ ih =>
      intro dd hdd
      have hlen : (a :: as).length = as.length + 1 := rfl
      have hdd0 : dd ≤ Config.maxRecursionDepth := by omega
      have hdd1 : dd + 1 ≤ Config.maxRecursionDepth := by omega
      have hdd2 : dd + 1 + 1 ≤ Config.maxRecursionDepth := by omega
      have hdd3 : dd + 1 + 1 + 1 ≤ Config.maxRecursionDepth := by omega
      obtain ⟨r', hr'l, _, hr'⟩ := ih (dd + 1) (by omega)
      generalize hE2 : Val.cons (.cons (symA cs!"xs" m8) (.ofList (a :: as)))
        (.cons (.cons (symA cs!"f" m7) clo2) env) = env2
      have hE2' := hE2.symm
      refine ⟨.ofList (x ++ l.flatten), by rw [List.flatten_cons]; exact listToVec_ofList _,
        fun _ => by rw [List.flatten_cons], ?_⟩
      refine RunsJ.ifTrue hatt hdd0 (RunsJ.of_eval hs (ev_local hdd1 (by lk hE2'))) rfl ?_
      refine RunsJ.callNative hatt hdd0 (listToVec_ofList _) rfl (RunsJ.of_eval hs (ev_global hdd1 (by lk2 hE2' hE) hwapp'))
        hwappg (by decide)
        (RunsArgsJ.cons (RunsJ.of_eval hs ?_) (RunsArgsJ.cons ?_ (RunsArgsJ.nil _ _ _ _)))
        (fun fuel j => applyNative_append fuel _ _ _ _ x l.flatten _ hax hr'l)
      · exact ev_prim hdd1 rfl (ev_global hdd2 (by lk2 hE2' hE) hwcar) hwcarg rfl (evs_one (ev_local hdd2 (by lk hE2')))
          (prim_car _ a _ _ rfl)
      · refine RunsJ.callClosure hatt (args := [clo2, .ofList as]) hdd1 (listToVec_ofList _) rfl
          (RunsJ.of_eval hs (ev_local hdd2 (by lk hE2'))) rfl
          (RunsArgsJ.of_evalArgs hs (evs_two (ev_local hdd2 (by lk hE2')) ?_)) (pair2 _ _ _ _ _ _) hr'
        exact ev_prim hdd2 rfl (ev_global hdd3 (by lk2 hE2' hE) hwcdr) hwcdrg rfl (evs_one (ev_local hdd3 (by lk hE2')))
          (prim_cdr _ a _ _ rfl)
  obtain ⟨r, _, hr, hrun⟩ := hrec as ls hls d hd
  rw [hr hne] at hrun
  generalize hE1 : Val.cons (.cons (symA cs!"f" m2) clo2) env = env1
  have hE1' := hE1.symm
  rw [hb]
  refine RunsJ.callClosure hatt (first := lam1Form) (operands := [lam2Form]) (args := [clo2]) hd0 rfl rfl
    (RunsJ.of_eval hs (hclo1 ▸ ev_lambda hd1)) rfl (RunsArgsJ.of_evalArgs hs (evs_one (hclo2 ▸ ev_lambda hd1)))
    (pair1 _ _ _ _) ?_
  rw [hE1]
  exact RunsJ.callClosure hatt (args := [clo2, .ofList as]) hd0 (listToVec_ofList _) rfl
    (RunsJ.of_eval hs (ev_local hd1 (by lk hE1'))) rfl
    (RunsArgsJ.of_evalArgs hs (evs_two (ev_local hd1 (by lk hE1')) (ev_local hd1 (by lk2 hE1' hE)))) (pair2 _ _ _ _ _ _) hrun

/-! ### bare atoms of the stored bodies -/

/-- a bare global symbol (the `list` of a string literal, the `quote` of a quoted datum are read without metadata) -/
theorem ev_globalB {G : Globals} {env : Val} {home : Name} {d : Nat} {n : Name} {v : Val}
    (hd : d ≤ Config.maxRecursionDepth) (h : lookupEnv (.named n) env = none) (hG : G n home = .found v) :
    Eval G env home d (.symName n) (.ok v) :=
  Eval.varGlobal (s := .named n) hd rfl rfl h hG

/-- a character evaluates to itself -/
theorem ev_chr {G : Globals} {env : Val} {home : Name} {d : Nat} {c : Char} (hd : d ≤ Config.maxRecursionDepth) :
    Eval G env home d (.chr c) (.ok (.chr c)) :=
  Eval.selfEval hd rfl (fun _ _ h => by cases h) (fun _ _ h => by cases h) (fun _ h => by cases h)

/-- a string literal `"…"` is read as `(list %c1 … %cn)`: the fresh list of its characters -/
theorem ev_string {G : Globals} {env : Val} {home : Name} {d : Nat} {cs : List Char} {w : Val}
    (hd : d + 1 ≤ Config.maxRecursionDepth) (h : lookupEnv (.named cs!"list") env = none)
    (hG : G cs!"list" home = .found w) (hw : w.get = .native .list) :
    Eval G env home d (.ofList (.symName cs!"list" :: cs.map Val.chr)) (.ok (.ofChars cs)) := by
  have hargs : ∀ cs : List Char, EvalArgs G env home d (cs.map Val.chr) (.ok (cs.map Val.chr)) := by
    intro cs
    induction cs with
    | nil => exact .nil
    | cons c cs ih => exact .cons (ev_chr hd) ih
  exact ev_prim (by omega) rfl (ev_globalB hd h hG) hw rfl (hargs cs) rfl

/-! ### `output` -/

/-- `(output msg)`: the characters of `msg` and a newline are appended to the output -/
theorem output_runs {s : St} (hl : LoadedR s) (msg : Val) (cs : List Char) (hmsg : listToVec msg = some (cs.map Val.chr))
    (name : Option Name) (env : Val) (d : Nat) (hd : d + 7 ≤ Config.maxRecursionDepth)
    (henv : pairParamsAndArgs Prelude.output_rest Prelude.output_params .nil name [msg] = .ok env) :
    RunsS s Prelude.output_body env cs!"prelude" d (.ok (.symName cs!"ok")) (s.write (cs ++ ['\n'])) := by
  obtain ⟨p1, hp⟩ := Prelude.output_params_shape
  obtain ⟨m1, m2, m3, m4, hb⟩ := Prelude.output_body_shape
  obtain ⟨pc, hpc⟩ := PreludeX.concat_rest_shape
  have hlx := hl.baseX
  have hlb := hlx.base
  have hatt := hlb.detached
  have hs := hlb.sees
  have hE : env = .cons (.cons (symA cs!"msg" p1) msg) .nil := by
    rw [hp, Prelude.output_rest_eq, pair1] at henv
    exact (Res.ok.inj henv).symm
  obtain ⟨wout, hwout, hwoutg⟩ := hl.ioNatives .outputFile (by decide)
  obtain ⟨wso, hwso, hwsop⟩ := hl.stdout
  obtain ⟨wcat, hwcat, hwcatg⟩ := hlx.preludeX _ _ PreludeX.concat_mem
  obtain ⟨wlist, hwlist, hwlistg⟩ := hlb.native .list (by decide)
  have hd0 : d ≤ Config.maxRecursionDepth := by omega
  have hd1 : d + 1 ≤ Config.maxRecursionDepth := by omega
  have hd2 : d + 1 + 1 ≤ Config.maxRecursionDepth := by omega
  have hd3 : d + 1 + 1 + 1 ≤ Config.maxRecursionDepth := by omega
  have hpair : pairParamsAndArgs PreludeX.concat_rest PreludeX.concat_params .nil none [msg, .ofChars ['\n']] =
      .ok (.cons (.cons (symA cs!"lists" pc) (.ofList [msg, .ofChars ['\n']])) .nil) := by
    rw [hpc, PreludeX.concat_params_eq, pairRest]
  have hcat : RunsJ s (.ofList [symA cs!"concat" m3, symA cs!"msg" m4, .ofList [.symName cs!"list", .chr '\n']]) env
      cs!"prelude" (d + 1) (.ok (.ofList [cs.map Val.chr, ['\n'].map Val.chr].flatten)) := by
    refine RunsJ.callClosure hatt hd1 (listToVec_ofList _) rfl (RunsJ.of_eval hs (ev_global hd2 (by lk hE) hwcat))
      (hwcatg.trans PreludeX.concat_fn_eq)
      (RunsArgsJ.of_evalArgs hs (evs_two (ev_local hd2 (by lk hE))
        (ev_string (cs := ['\n']) hd3 (by lk hE) hwlist hwlistg))) hpair ?_
    exact concat_runs hlx _ _ (.cons hmsg (.cons (listToVec_ofChars _) .nil)) (by simp) none _ (d + 1)
      (by simp only [List.length_cons, List.length_nil]; omega) hpair
  have hstr : listToString (.ofList [cs.map Val.chr, ['\n'].map Val.chr].flatten) = some (cs ++ ['\n']) := by
    have : [cs.map Val.chr, ['\n'].map Val.chr].flatten = (cs ++ ['\n']).map Val.chr := by simp
    rw [this]
    exact listToString_ofChars _
  rw [hb]
  refine RunsS.callNativeRes hatt hd0 (listToVec_ofList _) rfl
    (RunsS.of_pure (RunsJ.of_eval hs (ev_global hd1 (by lk hE) hwout))) hwoutg (by decide)
    (RunsArgsS.of_pure (RunsArgsJ.cons (RunsJ.of_eval hs (ev_global hd1 (by lk hE) hwso))
      (RunsArgsJ.cons hcat (RunsArgsJ.nil _ _ _ _))))
    (fun fuel j => ?_)
  rw [applyNative_outputFile fuel _ _ _ _ _ _ hwsop hstr]
  rfl

/-! ### `input` -/

/-- what `input-file` answers for the outcome of `read_line` -/
def inputOutcome : LineResult → Res Val
  | .line text   => .ok (.ofChars text)
  | .eof         => .err (makeError cs!"eof" cs!"input-file" [])
  | .invalidData => .err (makeError cs!"cannot-read-file" cs!"input-file" [(cs!"details", .ofChars cs!"invalid data")])

/-- `(input prompt)`, the stored body: the prompt is written, then one line is read (no read times out before the line is
complete: `hnt`) -/
theorem input_runs {s : St} (hl : LoadedR s) (g : Nat) (m1 m2 m3 m4 m5 m6 p : Meta) (t1 t2 : Val)
    (ht1 : t1.isNil = true) (ht2 : t2.isNil = true) (P : Val) (ptext : List Char) (hP : listToString P = some ptext)
    (hnt : firstTimeout s.stdinBuf s.stdinChunks = none)
    (d : Nat) (hd : d + 3 ≤ Config.maxRecursionDepth) :
    RunsS s (inputBody g m1 m2 m3 m4 m5 m6 t1 t2) (.cons (.cons (symA cs!"prompt" p) P) .nil) cs!"prelude" d
      (inputOutcome ((s.write ptext).readLine).1) ((s.write ptext).readLine).2 := by
  have hatt := hl.detached
  have hs := hl.sees
  have hl' : LoadedR (s.write ptext) := hl.variant ((IOVariant.refl s).write ptext)
  have hatt' := hl'.detached
  have hs' := hl'.sees
  obtain ⟨wout, hwout, hwoutg⟩ := hl.ioNatives .outputFile (by decide)
  obtain ⟨wso, hwso, hwsop⟩ := hl.stdout
  obtain ⟨win, hwin, hwing⟩ := hl'.ioNatives .inputFile (by decide)
  obtain ⟨wsi, hwsi, hwsip⟩ := hl'.stdin
  have hd0 : d ≤ Config.maxRecursionDepth := by omega
  have hd1 : d + 1 ≤ Config.maxRecursionDepth := by omega
  have hd2 : d + 1 + 1 ≤ Config.maxRecursionDepth := by omega
  generalize hE : Val.cons (.cons (symA cs!"prompt" p) P) .nil = env
  have hE' := hE.symm
  let inForm : Val := .ofList [symA cs!"input-file" m2, symA cs!"*stdin*" m3]
  let lamForm : Val := .ofList [symA cs!"lambda" m1, .cons (.sym (.gen g)) t1, inForm]
  let outForm : Val := .ofList [symA cs!"output-file" m4, symA cs!"*stdout*" m5, symA cs!"prompt" m6]
  let clo : Val := .fn .lambda .nil (.ofList [.sym (.gen g)]) inForm env cs!"prelude"
  have hclo : makeFunctionInternal [.cons (.sym (.gen g)) t1, inForm] env cs!"prelude" cs!"lambda" .lambda = .ok clo := by
    have hlv : listToVec (.cons (.sym (.gen g)) t1) = some [.sym (.gen g)] := listToVec_foldr_cons [.sym (.gen g)] t1 ht1
    simp [makeFunctionInternal, hlv, collectParams, Val.get, ampersand, clo, Val.ofList]
  have hlv : listToVec (inputBody g m1 m2 m3 m4 m5 m6 t1 t2) = some [lamForm, outForm] :=
    listToVec_foldr_cons [lamForm, outForm] t2 ht2
  generalize hE2 : Val.cons (.cons (.sym (.gen g)) (.symName cs!"ok")) env = env2
  have hE2' := hE2.symm
  refine RunsS.callClosure (s2 := s.write ptext) hatt (first := lamForm) (operands := [outForm])
    (args := [.symName cs!"ok"]) hd0 hlv rfl
    (RunsS.of_pure (RunsJ.of_eval hs (hclo ▸ ev_lambda hd1))) rfl
    (RunsArgsS.cons ?_ (RunsArgsS.nil _ _ _ _)) (pair1 _ _ _ _) ?_
  · -- `(output-file *stdout* prompt)`
    refine RunsS.callNativeRes hatt hd1 (listToVec_ofList _) rfl
      (RunsS.of_pure (RunsJ.of_eval hs (ev_global hd2 (by lk hE') hwout))) hwoutg (by decide)
      (RunsArgsS.of_pure (RunsArgsJ.of_evalArgs hs (evs_two (ev_global hd2 (by lk hE') hwso) (ev_local hd2 (by lk hE')))))
      (fun fuel j => ?_)
    rw [applyNative_outputFile fuel _ _ _ _ _ _ hwsop hP]
    rfl
  · -- `(input-file *stdin*)`
    rw [hE2]
    refine RunsS.callNativeRes hatt' hd0 (listToVec_ofList _) rfl
      (RunsS.of_pure (RunsJ.of_eval hs' (ev_global hd1 (by rw [hE2', lookupEnv_missGen]; lk hE') hwin))) hwing (by decide)
      (RunsArgsS.of_pure (RunsArgsJ.of_evalArgs hs'
        (evs_one (ev_global hd1 (by rw [hE2', lookupEnv_missGen]; lk hE') hwsi))))
      (fun fuel j => ?_)
    rw [applyNative_inputFile fuel (C05.bump (s.write ptext) j) _ _ _ hwsip hnt, readLine_bump]
    generalize (s.write ptext).readLine = res
    obtain ⟨lr, s1⟩ := res
    cases lr <;> rfl

/-! ### `get-property-safe` -/

/-- `(get-property-safe key plist)` on a well-formed property list: the property -/
theorem gps_runs {s : St} (hl : LoadedX s) (key pl : Val) (xs : List Val) (k : Sym) (v : Val)
    (hpl : listToVec pl = some xs) (hk : key.get = .sym k) (hget : getPropertyInternal k xs = some v)
    (name : Option Name) (env : Val) (d : Nat) (hd : d + 3 ≤ Config.maxRecursionDepth)
    (henv : pairParamsAndArgs Prelude.get_property_safe_rest Prelude.get_property_safe_params .nil name [key, pl] = .ok env) :
    RunsJ s Prelude.get_property_safe_body env cs!"prelude" d (.ok v) := by
  obtain ⟨p1, p2, hp⟩ := Prelude.get_property_safe_params_shape
  obtain ⟨m1, m2, m3, m4, m5, m6, hb⟩ := Prelude.get_property_safe_body_shape
  have hlb := hl.base
  have hatt := hlb.detached
  have hs := hlb.sees
  have hE : env = .cons (.cons (symA cs!"plist" p2) pl) (.cons (.cons (symA cs!"key" p1) key) .nil) := by
    rw [hp, Prelude.get_property_safe_rest_eq, pair2] at henv
    exact (Res.ok.inj henv).symm
  obtain ⟨wev, hwev, hwevg⟩ := hl.nativesX .eval (by decide)
  obtain ⟨wdot, hwdot, hwdotg⟩ := hl.nativesX .getProperty (by decide)
  have hd0 : d ≤ Config.maxRecursionDepth := by omega
  have hd1 : d + 1 ≤ Config.maxRecursionDepth := by omega
  have hd2 : d + 1 + 1 ≤ Config.maxRecursionDepth := by omega
  rw [hb]
  refine RunsJ.callEval hatt hd0 (listToVec_ofList _) rfl (RunsJ.of_eval hs (ev_global hd1 (by lk hE) hwev)) hwevg
    (RunsArgsJ.cons (RunsJ.trapForm hatt hd1) (RunsArgsJ.nil _ _ _ _))
    (fun n st' => expandCompletely_trapVal n st' _ _ env cs!"prelude" (d + 1) hd2) ?_
  refine RunsJ.trapVal hatt hd0 ?_
  exact RunsJ.callNative hatt hd1 (listToVec_ofList _) rfl (RunsJ.of_eval hs (ev_global hd2 (by lk hE) hwdot)) hwdotg
    (by decide) (RunsArgsJ.of_evalArgs hs (evs_two (ev_local hd2 (by lk hE)) (ev_local hd2 (by lk hE))))
    (fun fuel j => applyNative_getProperty fuel _ _ _ _ xs k v _ hpl hk hget)

/-! ### the pieces of the REPL -/

theorem eqTest (a b : Name) (m : Meta) :
    (if equalInternal (.symName a) (symA b m) then Val.symName cs!"t" else Val.nil).isNil = !(a == b) := by
  simp [equalInternal, symA, Val.symName, Val.get]
  by_cases h : a = b <;> simp [h, Val.isNil]

theorem IOVariant.readLine {st s : St} (h : IOVariant st s) : IOVariant st (s.readLine).2 := by
  rw [readLine_eq]
  split
  · exact h
  · split <;> exact h

/-- the call `(input prompt)` in the REPL: the prompt is written, then one line is read -/
theorem inputCall_runs {s : St} (hl : LoadedR s) (m5 m6 : Meta) (P : Val) (ptext : List Char)
    (hP : listToString P = some ptext) (env : Val) (hprompt : lookupEnv (.named cs!"prompt") env = some P)
    (hmiss : lookupEnv (.named cs!"input") env = none) (hnt : firstTimeout s.stdinBuf s.stdinChunks = none)
    (d : Nat) (hd : d + 3 ≤ Config.maxRecursionDepth) :
    RunsS s (.ofList [symA cs!"input" m5, symA cs!"prompt" m6]) env cs!"repl" d
      (inputOutcome ((s.write ptext).readLine).1) ((s.write ptext).readLine).2 := by
  obtain ⟨w, hw, p, g, m1, m2, m3, m4, m5', m6', t1, t2, ht1, ht2, hwf⟩ := hl.inputR
  have hatt := hl.detached
  have hs := hl.sees
  exact RunsS.callClosure hatt (by omega) (listToVec_ofList _) rfl
    (RunsS.of_pure (RunsJ.of_eval hs (ev_global (by omega) hmiss hw))) hwf
    (RunsArgsS.of_pure (RunsArgsJ.of_evalArgs hs (evs_one (ev_local (by omega) hprompt)))) (pair1 _ _ _ _)
    (input_runs hl g m1 m2 m3 m4 m5' m6' p t1 t2 ht1 ht2 P ptext hP hnt d hd)

/-- `(concat initial-input (input prompt))` when a line is delivered: the line -/
theorem replA_line {s s1 : St} (hl : LoadedR s) (m3 m4 m5 m6 : Meta) (P ii : Val) (ptext : List Char)
    (hP : listToString P = some ptext) (hii : ii.isNil = true) (env : Val)
    (hprompt : lookupEnv (.named cs!"prompt") env = some P) (hinit : lookupEnv (.named cs!"initial-input") env = some ii)
    (hmissI : lookupEnv (.named cs!"input") env = none) (hmissC : lookupEnv (.named cs!"concat") env = none)
    (text : List Char) (hread : (s.write ptext).readLine = (.line text, s1))
    (hnt : firstTimeout s.stdinBuf s.stdinChunks = none)
    (d : Nat) (hd : d + 6 ≤ Config.maxRecursionDepth) :
    RunsS s (.ofList [symA cs!"concat" m3, symA cs!"initial-input" m4, .ofList [symA cs!"input" m5, symA cs!"prompt" m6]])
      env cs!"repl" d (.ok (.ofChars text)) s1 := by
  obtain ⟨pc, hpc⟩ := PreludeX.concat_rest_shape
  obtain ⟨wcat, hwcat, hwcatg⟩ := hl.preludeXR _ _ PreludeX.concat_mem
  have hatt := hl.detached
  have hs := hl.sees
  have hs1 : s1 = ((s.write ptext).readLine).2 := by rw [hread]
  have hl1 : LoadedR s1 := hs1 ▸ hl.variant ((IOVariant.refl s).write ptext).readLine
  have hin := inputCall_runs hl m5 m6 P ptext hP env hprompt hmissI hnt (d + 1) (by omega)
  rw [hread] at hin
  have hpair : pairParamsAndArgs PreludeX.concat_rest PreludeX.concat_params .nil none [ii, .ofChars text] =
      .ok (.cons (.cons (symA cs!"lists" pc) (.ofList [ii, .ofChars text])) .nil) := by
    rw [hpc, PreludeX.concat_params_eq, pairRest]
  have hres : Val.ofList [[], text.map Val.chr].flatten = .ofChars text := by simp [Val.ofChars]
  rw [← hres]
  refine RunsS.callClosure hatt (by omega) (listToVec_ofList _) rfl
    (RunsS.of_pure (RunsJ.of_eval hs (ev_global (by omega) hmissC hwcat))) (hwcatg.trans PreludeX.concat_fn_eq)
    (RunsArgsS.cons (RunsS.of_pure (RunsJ.of_eval hs (ev_local (by omega) hinit)))
      (RunsArgsS.cons hin (RunsArgsS.nil _ _ _ _))) hpair
    (RunsS.of_pure (concat_runs hl1.baseX _ _ (.cons (listToVec_foldr_cons [] ii hii) (.cons (listToVec_ofChars _) .nil))
      (by simp) none _ d (by simp only [List.length_cons, List.length_nil]; omega) hpair))

/-- `(concat initial-input (input prompt))` when `input-file` signals: the signal -/
theorem replA_err {s s1 : St} (hl : LoadedR s) (m3 m4 m5 m6 : Meta) (P ii : Val) (ptext : List Char)
    (hP : listToString P = some ptext) (env : Val)
    (hprompt : lookupEnv (.named cs!"prompt") env = some P) (hinit : lookupEnv (.named cs!"initial-input") env = some ii)
    (hmissI : lookupEnv (.named cs!"input") env = none) (hmissC : lookupEnv (.named cs!"concat") env = none)
    (lr : LineResult) (sig : Val) (hread : (s.write ptext).readLine = (lr, s1)) (hlr : inputOutcome lr = .err sig)
    (hnt : firstTimeout s.stdinBuf s.stdinChunks = none)
    (d : Nat) (hd : d + 4 ≤ Config.maxRecursionDepth) :
    RunsS s (.ofList [symA cs!"concat" m3, symA cs!"initial-input" m4, .ofList [symA cs!"input" m5, symA cs!"prompt" m6]])
      env cs!"repl" d (.err sig) s1 := by
  obtain ⟨wcat, hwcat, hwcatg⟩ := hl.preludeXR _ _ PreludeX.concat_mem
  have hatt := hl.detached
  have hs := hl.sees
  have hin := inputCall_runs hl m5 m6 P ptext hP env hprompt hmissI hnt (d + 1) (by omega)
  rw [hread] at hin
  simp only [hlr] at hin
  exact RunsS.operandErr hatt (by omega) (listToVec_ofList _) rfl
    (RunsS.of_pure (RunsJ.of_eval hs (ev_global (by omega) hmissC hwcat)))
    (Or.inl ⟨_, _, _, _, _, _, hwcatg.trans PreludeX.concat_fn_eq⟩)
    (RunsArgsS.later (RunsS.of_pure (RunsJ.of_eval hs (ev_local (by omega) hinit))) (RunsArgsS.here hin))

/-- the `case` of the REPL on the read status `ok`: the fifth arm is taken -/
theorem replCase_ok {s s' : St} (hl : LoadedR s) (env : Val) (dd : Nat) (hd : dd + 2 ≤ Config.maxRecursionDepth)
    (r : Res Val) (hrs : lookupEnv (.named cs!"read-status") env = some (.symName cs!"ok"))
    (heq : lookupEnv (.named cs!"=") env = none)
    (hok : RunsS s ReplX.replOK env cs!"repl" dd r s') : RunsS s ReplX.replC1 env cs!"repl" dd r s' := by
  obtain ⟨a1, a2, a3, a4, h1⟩ := ReplX.replC1_shape
  obtain ⟨b1, b2, b3, b4, h2⟩ := ReplX.replC2_shape
  obtain ⟨c1, c2, c3, c4, h3⟩ := ReplX.replC3_shape
  obtain ⟨d1, d2, d3, d4, h4⟩ := ReplX.replC4_shape
  obtain ⟨e1, e2, e3, e4, h5⟩ := ReplX.replC5_shape
  obtain ⟨weq, hweq, hweqg⟩ := hl.nativesR .equal (by decide)
  have hatt := hl.detached
  have hs := hl.sees
  have hd0 : dd ≤ Config.maxRecursionDepth := by omega
  have hd1 : dd + 1 ≤ Config.maxRecursionDepth := by omega
  have hd2 : dd + 1 + 1 ≤ Config.maxRecursionDepth := by omega
  have test : ∀ (b : Name) (m2 m3 m4 : Meta),
      RunsS s (.ofList [symA cs!"=" m2, symA cs!"read-status" m3, quoA b m4]) env cs!"repl" (dd + 1)
        (.ok (if equalInternal (.symName cs!"ok") (symA b m4) then Val.symName cs!"t" else Val.nil)) s :=
    fun b m2 m3 m4 => RunsS.of_pure (RunsJ.of_eval hs (ev_prim hd1 rfl (ev_global hd2 heq hweq) hweqg rfl
      (evs_two (ev_local hd2 hrs) (ev_quoA hd2)) (prim_equal _ _ _)))
  rw [h1]
  refine RunsS.ifFalse hatt hd0 (test _ _ _ _) (by rw [eqTest]; rfl) ?_
  rw [h2]
  refine RunsS.ifFalse hatt hd0 (test _ _ _ _) (by rw [eqTest]; rfl) ?_
  rw [h3]
  refine RunsS.ifFalse hatt hd0 (test _ _ _ _) (by rw [eqTest]; rfl) ?_
  rw [h4]
  refine RunsS.ifFalse hatt hd0 (test _ _ _ _) (by rw [eqTest]; rfl) ?_
  rw [h5]
  exact RunsS.ifTrue hatt hd0 (test _ _ _ _) (by rw [eqTest]; rfl) hok

/-- the `ok` arm: the form is evaluated, its value printed, the text and a newline written, and the REPL called again —
`(repl ">>> " nil)`, at the depth of the arm -/
theorem replOK_runs {st0 : St} {need : Nat} (e : Entry st0 need) {s sF : St} (hv : IOVariant st0 s) (hl : LoadedR s)
    (q1 q2 q3 q4 q5 : Meta) (v1 v3 v4 v5 : Val) (dd : Nat) (hd : dd + 8 ≤ Config.maxRecursionDepth)
    (hneed : dd + 3 + need ≤ Config.maxRecursionDepth) (x : Val)
    (hcont : ∀ P' ii' env', listToString P' = some cs!">>> " → ii'.isNil = true →
      pairParamsAndArgs ReplX.repl_rest ReplX.repl_params .nil none [P', ii'] = .ok env' →
      RunsS (s.write (e.text ++ ['\n'])) ReplX.repl_body env' cs!"repl" dd (.ok x) sF) :
    RunsS s ReplX.replOK
      (.cons (.cons (symA cs!"read-status" q1) v1) (.cons (.cons (symA cs!"read-result" q2) (ReadOutcome.ok e.form e.rest).toPlist)
        (.cons (.cons (symA cs!"current-input" q3) v3) (.cons (.cons (symA cs!"initial-input" q4) v4)
          (.cons (.cons (symA cs!"prompt" q5) v5) .nil)))))
      cs!"repl" dd (.ok x) sF := by
  obtain ⟨g, m1, m2, m3, m4, m5, m6, m7, m8, m9, hshape⟩ := ReplX.replOK_shape
  obtain ⟨po, hpo⟩ := Prelude.output_params_shape
  have hatt := hl.detached
  have hs := hl.sees
  have hl2 : LoadedR (s.write (e.text ++ ['\n'])) := hl.variant ((IOVariant.refl s).write _)
  have hatt2 := hl2.detached
  have hs2 := hl2.sees
  obtain ⟨wout, hwout, hwoutg⟩ := hl.preludeR _ _ Prelude.output_mem
  obtain ⟨wprint, hwprint, hwprintg⟩ := hl.nativesR .print (by decide)
  obtain ⟨wev, hwev, hwevg⟩ := hl.nativesR .eval (by decide)
  obtain ⟨wdot, hwdot, hwdotg⟩ := hl.nativesR .getProperty (by decide)
  obtain ⟨wrepl, hwrepl, hwreplg⟩ := hl2.replFns _ _ ReplX.repl_mem
  obtain ⟨wlist, hwlist, hwlistg⟩ := hl2.nativesR .list (by decide)
  obtain ⟨nilV, hnil, hnilp⟩ := hl2.nilR
  have hd0 : dd ≤ Config.maxRecursionDepth := by omega
  have hd1 : dd + 1 ≤ Config.maxRecursionDepth := by omega
  have hd2 : dd + 1 + 1 ≤ Config.maxRecursionDepth := by omega
  have hd3 : dd + 1 + 1 + 1 ≤ Config.maxRecursionDepth := by omega
  have hd4 : dd + 1 + 1 + 1 + 1 ≤ Config.maxRecursionDepth := by omega
  have hd5 : dd + 1 + 1 + 1 + 1 + 1 ≤ Config.maxRecursionDepth := by omega
  have hRL : ReplLocals (.cons (.cons (symA cs!"read-status" q1) v1)
      (.cons (.cons (symA cs!"read-result" q2) (ReadOutcome.ok e.form e.rest).toPlist)
        (.cons (.cons (symA cs!"current-input" q3) v3) (.cons (.cons (symA cs!"initial-input" q4) v4)
          (.cons (.cons (symA cs!"prompt" q5) v5) .nil))))) := ⟨_, _, _, _, _, _, _, _, _, _, rfl⟩
  generalize hE : Val.cons (.cons (symA cs!"read-status" q1) v1)
      (.cons (.cons (symA cs!"read-result" q2) (ReadOutcome.ok e.form e.rest).toPlist)
        (.cons (.cons (symA cs!"current-input" q3) v3) (.cons (.cons (symA cs!"initial-input" q4) v4)
          (.cons (.cons (symA cs!"prompt" q5) v5) .nil)))) = env at hRL
  have hE' := hE.symm
  let replCall : Val := .ofList [symA cs!"repl" m2, .ofList [.symName cs!"list", .chr '>', .chr '>', .chr '>', .chr ' '],
    symA cs!"nil" m3]
  let dotForm : Val := .ofList [symA cs!"." m7, symA cs!"read-result" m8, quoA cs!"result" m9]
  let evalForm : Val := .ofList [symA cs!"eval" m6, dotForm]
  let printForm : Val := .ofList [symA cs!"print" m5, evalForm]
  let outForm : Val := .ofList [symA cs!"output" m4, printForm]
  let lamForm : Val := .ofList [symA cs!"lambda" m1, .ofList [.sym (.gen g)], replCall]
  let clo : Val := .fn .lambda .nil (.ofList [.sym (.gen g)]) replCall env cs!"repl"
  have hclo : makeFunctionInternal [.ofList [.sym (.gen g)], replCall] env cs!"repl" cs!"lambda" .lambda = .ok clo := rfl
  -- `(. read-result 'result)` is the form
  have hdot : RunsJ s dotForm env cs!"repl" (dd + 1 + 1 + 1 + 1) (.ok e.form) :=
    RunsJ.callNative hatt hd4 (listToVec_ofList _) rfl (RunsJ.of_eval hs (ev_global hd5 (by lk hE') hwdot)) hwdotg
      (by decide) (RunsArgsJ.of_evalArgs hs (evs_two (ev_local hd5 (by lk hE')) (ev_quoA hd5)))
      (fun fuel j => applyNative_getProperty fuel _ _ _ _ _ (.named cs!"result") e.form _ (listToVec_ofList _) rfl rfl)
  -- `(eval …)`: the value, nothing changes
  have heval : RunsS s evalForm env cs!"repl" (dd + 1 + 1 + 1) (.ok e.value) s := by
    refine RunsS.callEvalInline hatt hd3 (listToVec_ofList _) rfl
      (RunsS.of_pure (RunsJ.of_eval hs (ev_global hd4 (by lk hE') hwev))) hwevg
      (RunsArgsS.of_pure (RunsArgsJ.cons hdot (RunsArgsJ.nil _ _ _ _))) (fun j => ?_)
    obtain ⟨F, k, h⟩ := e.evals (C05.bump s j) (hv.bump j) env hRL (dd + 1 + 1 + 1) (by omega)
    exact ⟨F, k, fun n hn => by rw [h n hn, C05.bump_bump]⟩
  -- `(print …)`: the text
  have hprint : RunsS s printForm env cs!"repl" (dd + 1 + 1) (.ok (.ofChars e.text)) s := by
    refine RunsS.callNativeRes hatt hd2 (listToVec_ofList _) rfl
      (RunsS.of_pure (RunsJ.of_eval hs (ev_global hd3 (by lk hE') hwprint))) hwprintg (by decide)
      (RunsArgsS.cons heval (RunsArgsS.nil _ _ _ _)) (fun fuel j => ?_)
    rw [applyNative_print, printNative, e.prints (dd + 1 + 1 + 1) (by omega)]
  -- `(output …)`: the text and a newline are written
  have hout : RunsS s outForm env cs!"repl" (dd + 1) (.ok (.symName cs!"ok")) (s.write (e.text ++ ['\n'])) := by
    have hpair : pairParamsAndArgs Prelude.output_rest Prelude.output_params .nil none [.ofChars e.text] =
        .ok (.cons (.cons (symA cs!"msg" po) (.ofChars e.text)) .nil) := by
      rw [hpo, Prelude.output_rest_eq, pair1]
    exact RunsS.callClosure hatt hd1 (listToVec_ofList _) rfl
      (RunsS.of_pure (RunsJ.of_eval hs (ev_global hd2 (by lk hE') hwout))) (hwoutg.trans Prelude.output_fn_eq)
      (RunsArgsS.cons hprint (RunsArgsS.nil _ _ _ _)) hpair
      (output_runs hl _ e.text (listToVec_ofChars _) none _ (dd + 1) (by omega) hpair)
  -- the closure of `block`, then `(repl ">>> " nil)`
  generalize hE2 : Val.cons (.cons (.sym (.gen g)) (.symName cs!"ok")) env = env2
  have hE2' := hE2.symm
  obtain ⟨p1, p2, hpp⟩ := ReplX.repl_params_shape
  have hpairR : pairParamsAndArgs ReplX.repl_rest ReplX.repl_params .nil none [.ofChars cs!">>> ", nilV] =
      .ok (.cons (.cons (symA cs!"initial-input" p2) nilV) (.cons (.cons (symA cs!"prompt" p1) (.ofChars cs!">>> ")) .nil)) := by
    rw [hpp, ReplX.repl_rest_eq, pair2]
  rw [hshape]
  refine RunsS.callClosure hatt (first := lamForm) (operands := [outForm]) (args := [.symName cs!"ok"]) hd0 rfl rfl
    (RunsS.of_pure (RunsJ.of_eval hs (hclo ▸ ev_lambda hd1))) rfl
    (RunsArgsS.cons hout (RunsArgsS.nil _ _ _ _)) (pair1 _ _ _ _) ?_
  rw [hE2]
  refine RunsS.callClosure hatt2 hd0 (listToVec_ofList _) rfl
    (RunsS.of_pure (RunsJ.of_eval hs2 (ev_global hd1 (by rw [hE2', lookupEnv_missGen]; lk hE') hwrepl)))
    (hwreplg.trans ReplX.repl_fn_eq)
    (RunsArgsS.of_pure (RunsArgsJ.of_evalArgs hs2 (evs_two
      (ev_string (cs := cs!">>> ") hd2 (by rw [hE2', lookupEnv_missGen]; lk hE') hwlist hwlistg)
      (ev_global hd1 (by rw [hE2', lookupEnv_missGen]; lk hE') hnil))))
    hpairR (hcont _ _ _ (listToString_ofChars _) hnilp hpairR)

/-- the normal body of the REPL's `try` on a line that holds one form: the prompt is written, the line read, the form
read, evaluated and printed, and the REPL called again at the same depth -/
theorem replN_ok {st0 : St} {need : Nat} (e : Entry st0 need) {s : St} (hv : IOVariant st0 s) (hl : LoadedR s)
    (p1 p2 : Meta) (P ii : Val) (ptext : List Char) (hP : listToString P = some ptext) (hii : ii.isNil = true)
    (rest : List UInt8) (hne : C18.NoEmpty s.stdinChunks)
    (hin : s.stdinBuf ++ s.stdinChunks.flatten = asciiBytes e.line ++ rest)
    (dN : Nat) (hd : dN + 8 ≤ Config.maxRecursionDepth) (hneed : dN + 3 + need ≤ Config.maxRecursionDepth) :
    ∃ buf chunks, buf ++ chunks.flatten = rest ∧ C18.NoEmpty chunks ∧
      ∀ (x : Val) (sF : St),
        (∀ P' ii' env', listToString P' = some cs!">>> " → ii'.isNil = true →
          pairParamsAndArgs ReplX.repl_rest ReplX.repl_params .nil none [P', ii'] = .ok env' →
          RunsS { s with out := s.out ++ ptext ++ (e.text ++ ['\n']), stdinBuf := buf, stdinChunks := chunks }
            ReplX.repl_body env' cs!"repl" dN (.ok x) sF) →
        RunsS s ReplX.replN
          (.cons (.cons (symA cs!"initial-input" p2) ii) (.cons (.cons (symA cs!"prompt" p1) P) .nil))
          cs!"repl" dN (.ok x) sF := by
  obtain ⟨buf, chunks, hread, hrest, hne'⟩ :=
    readLine_ascii_line (s.write ptext) e.body rest e.ascii e.oneLine hne hin
  refine ⟨buf, chunks, hrest, hne', fun x sF hcont => ?_⟩
  obtain ⟨a1, a2, a3, a4, a5, a6, hN⟩ := ReplX.replN_shape
  obtain ⟨b1, b2, b3, b4, b5, b6, b7, hB1⟩ := ReplX.replB1_shape
  obtain ⟨c1, c2, c3, c4, c5, hB2⟩ := ReplX.replB2_shape
  generalize hs1 : ({ s.write ptext with stdinBuf := buf, stdinChunks := chunks } : St) = s1 at hread
  have hv1 : IOVariant st0 s1 := hs1 ▸ hv
  have hl1 : LoadedR s1 := hs1 ▸ hl.variant (IOVariant.refl s)
  have hatt := hl.detached
  have hs := hl.sees
  have hatt1 := hl1.detached
  have hss1 := hl1.sees
  obtain ⟨wread, hwread, hwreadg⟩ := hl1.nativesR .read (by decide)
  obtain ⟨wdot, hwdot, hwdotg⟩ := hl1.nativesR .getProperty (by decide)
  have hd0 : dN ≤ Config.maxRecursionDepth := by omega
  have hd1 : dN + 1 ≤ Config.maxRecursionDepth := by omega
  have hd2 : dN + 1 + 1 ≤ Config.maxRecursionDepth := by omega
  generalize hE0 : Val.cons (.cons (symA cs!"initial-input" p2) ii) (.cons (.cons (symA cs!"prompt" p1) P) .nil) = env0
  have hE0' := hE0.symm
  let cur : Val := .ofChars (e.body ++ ['\n'])
  let rr : Val := (ReadOutcome.ok e.form e.rest).toPlist
  generalize hE1 : Val.cons (.cons (symA cs!"current-input" a2) cur) env0 = env1
  have hE1' := hE1.symm
  generalize hE2 : Val.cons (.cons (symA cs!"read-result" b2) rr) env1 = env2
  have hE2' := hE2.symm
  let clo1 : Val := .fn .lambda .nil (.ofList [symA cs!"current-input" a2]) ReplX.replB1 env0 cs!"repl"
  have hclo1 : makeFunctionInternal [.ofList [symA cs!"current-input" a2], ReplX.replB1] env0 cs!"repl" cs!"lambda" .lambda =
      .ok clo1 := rfl
  let clo2 : Val := .fn .lambda .nil (.ofList [symA cs!"read-result" b2]) ReplX.replB2 env1 cs!"repl"
  have hclo2 : makeFunctionInternal [.ofList [symA cs!"read-result" b2], ReplX.replB2] env1 cs!"repl" cs!"lambda" .lambda =
      .ok clo2 := rfl
  let clo3 : Val := .fn .lambda .nil (.ofList [symA cs!"read-status" c2]) ReplX.replC1 env2 cs!"repl"
  have hclo3 : makeFunctionInternal [.ofList [symA cs!"read-status" c2], ReplX.replC1] env2 cs!"repl" cs!"lambda" .lambda =
      .ok clo3 := rfl
  -- the line
  have hA := replA_line hl a3 a4 a5 a6 P ii ptext hP hii env0 (by lk hE0') (by lk hE0') (by lk hE0') (by lk hE0')
    (e.body ++ ['\n']) hread (firstTimeout_none_ascii_line _ _ e.body rest e.ascii e.oneLine hin) (dN + 1) (by omega)
  -- `(read current-input 'stdin 1 1)`
  have hreadCall : RunsS s1 (.ofList [symA cs!"read" b3, symA cs!"current-input" b4, quoA cs!"stdin" b5, numA 1 b6, numA 1 b7])
      env1 cs!"repl" (dN + 1) (.ok rr) s1 := by
    refine RunsS.callNativeRes hatt1 hd1 (listToVec_ofList _) rfl
      (RunsS.of_pure (RunsJ.of_eval hss1 (ev_global hd2 (by lk2 hE1' hE0') hwread))) hwreadg (by decide)
      (RunsArgsS.of_pure (RunsArgsJ.of_evalArgs hss1
        (.cons (ev_local hd2 (by lk hE1')) (.cons (ev_quoA hd2) (.cons (ev_num hd2) (.cons (ev_num hd2) .nil))))))
      (fun fuel j => ?_)
    rw [applyNative_read, readNative, readCore_repl _ _ _ _ _ hd2, e.reads]
  -- `(. read-result 'status)`
  have hstatus : RunsS s1 (.ofList [symA cs!"." c3, symA cs!"read-result" c4, quoA cs!"status" c5]) env2 cs!"repl" (dN + 1)
      (.ok (.symName cs!"ok")) s1 :=
    RunsS.of_pure (RunsJ.callNative hatt1 hd1 (listToVec_ofList _) rfl
      (RunsJ.of_eval hss1 (ev_global hd2 (by lk2 hE2' hE1'; lk hE0') hwdot)) hwdotg (by decide)
      (RunsArgsJ.of_evalArgs hss1 (evs_two (ev_local hd2 (by lk hE2')) (ev_quoA hd2)))
      (fun fuel j => applyNative_getProperty fuel _ _ _ _ _ (.named cs!"status") (.symName cs!"ok") _
        (listToVec_ofList _) rfl rfl))
  -- the `ok` arm, in the environment of the three `let`s
  have hok : RunsS s1 ReplX.replOK (.cons (.cons (symA cs!"read-status" c2) (.symName cs!"ok")) env2) cs!"repl" dN (.ok x) sF := by
    rw [hE2', hE1', hE0']
    refine replOK_runs e hv1 hl1 c2 b2 a2 p2 p1 _ _ _ _ dN hd hneed x (fun P' ii' env' h1 h2 h3 => ?_)
    have := hcont P' ii' env' h1 h2 h3
    rw [← hs1]
    exact this
  rw [hN]
  refine RunsS.callClosure (s2 := s1) hatt hd0 (listToVec_ofList _) rfl
    (RunsS.of_pure (RunsJ.of_eval hs (hclo1 ▸ ev_lambda hd1))) rfl
    (RunsArgsS.cons hA (RunsArgsS.nil _ _ _ _)) (pair1 _ _ _ _) ?_
  rw [hE1, hB1]
  refine RunsS.callClosure (s2 := s1) hatt1 hd0 (listToVec_ofList _) rfl
    (RunsS.of_pure (RunsJ.of_eval hss1 (hclo2 ▸ ev_lambda hd1))) rfl
    (RunsArgsS.cons hreadCall (RunsArgsS.nil _ _ _ _)) (pair1 _ _ _ _) ?_
  rw [hE2, hB2]
  refine RunsS.callClosure (s2 := s1) hatt1 hd0 (listToVec_ofList _) rfl
    (RunsS.of_pure (RunsJ.of_eval hss1 (hclo3 ▸ ev_lambda hd1))) rfl
    (RunsArgsS.cons hstatus (RunsArgsS.nil _ _ _ _)) (pair1 _ _ _ _) ?_
  exact replCase_ok hl1 _ dN (by omega) _ (by lk0) (by rw [lookupEnv_miss _ _ _ _ _ (by decide)]; lk2 hE2' hE1'; lk hE0') hok

/-- the body of `repl` is `(eval (trap N H))`: the trap value, evaluated at the depth of the body -/
theorem repl_top {s s' : St} (hl : LoadedR s) (env : Val) (hmiss : lookupEnv (.named cs!"eval") env = none)
    (d : Nat) (hd : d + 2 ≤ Config.maxRecursionDepth) (r : Res Val)
    (h : RunsS s (.trap ReplX.replN ReplX.replH) env cs!"repl" d r s') :
    RunsS s ReplX.repl_body env cs!"repl" d r s' := by
  obtain ⟨m1, m2, hb⟩ := ReplX.repl_body_shape
  obtain ⟨wev, hwev, hwevg⟩ := hl.nativesR .eval (by decide)
  have hatt := hl.detached
  have hs := hl.sees
  rw [hb]
  exact RunsS.callEvalTrap hatt hd (listToVec_ofList _) rfl
    (RunsS.of_pure (RunsJ.of_eval hs (ev_global (by omega) hmiss hwev))) hwevg
    (RunsArgsS.of_pure (RunsArgsJ.cons (RunsJ.trapForm hatt (by omega)) (RunsArgsJ.nil _ _ _ _))) h

/-- the signal of `input-file` at end of input -/
def eofSignal : Val := makeError cs!"eof" cs!"input-file" []

/-- the normal body of the REPL's `try` at end of input: the prompt is written, `input-file` signals `eof` -/
theorem replN_eof {s : St} (hl : LoadedR s) (p1 p2 : Meta) (P ii : Val) (ptext : List Char)
    (hP : listToString P = some ptext) (hne : C18.NoEmpty s.stdinChunks)
    (hin : s.stdinBuf ++ s.stdinChunks.flatten = []) (dN : Nat) (hd : dN + 5 ≤ Config.maxRecursionDepth) :
    RunsS s ReplX.replN (.cons (.cons (symA cs!"initial-input" p2) ii) (.cons (.cons (symA cs!"prompt" p1) P) .nil))
      cs!"repl" dN (.err eofSignal) { s with out := s.out ++ ptext, stdinBuf := [], stdinChunks := [] } := by
  obtain ⟨a1, a2, a3, a4, a5, a6, hN⟩ := ReplX.replN_shape
  have hread := readLine_exhausted (s.write ptext) hne hin
  have hatt := hl.detached
  have hs := hl.sees
  generalize hE0 : Val.cons (.cons (symA cs!"initial-input" p2) ii) (.cons (.cons (symA cs!"prompt" p1) P) .nil) = env0
  have hE0' := hE0.symm
  let clo1 : Val := .fn .lambda .nil (.ofList [symA cs!"current-input" a2]) ReplX.replB1 env0 cs!"repl"
  have hclo1 : makeFunctionInternal [.ofList [symA cs!"current-input" a2], ReplX.replB1] env0 cs!"repl" cs!"lambda" .lambda =
      .ok clo1 := rfl
  have hA := replA_err hl a3 a4 a5 a6 P ii ptext hP env0 (by lk hE0') (by lk hE0') (by lk hE0') (by lk hE0')
    .eof eofSignal hread rfl (firstTimeout_none_exhausted _ _ hin) (dN + 1) (by omega)
  rw [hN]
  exact RunsS.operandErr hatt (by omega) (listToVec_ofList _) rfl
    (RunsS.of_pure (RunsJ.of_eval hs (hclo1 ▸ ev_lambda (by omega)))) (Or.inl ⟨_, _, _, _, _, _, rfl⟩)
    (RunsArgsS.here hA)

theorem lookupEnv_hitB (n : Name) (v rest : Val) :
    lookupEnv (.named n) (.cons (.cons (.symName n) v) rest) = some v := by
  simp [lookupEnv, Val.get, Val.symName]

theorem lookupEnv_missB (n n' : Name) (v rest : Val) (h : n' ≠ n) :
    lookupEnv (.named n) (.cons (.cons (.symName n') v) rest) = lookupEnv (.named n) rest := by
  simp [lookupEnv, Val.get, Val.symName, h]

/-- the handler of the REPL's `try` on the `eof` signal: the first catcher takes it, writes an empty line and answers
the symbol `ok` -/
theorem replH_eof : ∃ m, ∀ (s : St), LoadedR s → ∀ (p1 p2 : Meta) (P ii : Val) (dH : Nat),
    dH + 8 ≤ Config.maxRecursionDepth →
    RunsS s ReplX.replH
      (.cons (.cons (.symName cs!"*trapped-signal*") eofSignal)
        (.cons (.cons (symA cs!"initial-input" p2) ii) (.cons (.cons (symA cs!"prompt" p1) P) .nil)))
      cs!"repl" dH (.ok (symA cs!"ok" m)) (s.write ['\n']) := by
  obtain ⟨m1, m2, m3, m4, m5, m6, m7, m8, hH⟩ := ReplX.replH_shape
  obtain ⟨g, n1, n2, n3, n4, n5, n6, hHE⟩ := ReplX.replHE_shape
  obtain ⟨pk, pp, hgp⟩ := Prelude.get_property_safe_params_shape
  obtain ⟨po, hpo⟩ := Prelude.output_params_shape
  refine ⟨n4, fun s hl p1 p2 P ii dH hd => ?_⟩
  have hatt := hl.detached
  have hs := hl.sees
  have hl' : LoadedR (s.write ['\n']) := hl.variant ((IOVariant.refl s).write _)
  have hatt' := hl'.detached
  have hs' := hl'.sees
  obtain ⟨weq, hweq, hweqg⟩ := hl.nativesR .equal (by decide)
  obtain ⟨wgps, hwgps, hwgpsg⟩ := hl.preludeR _ _ Prelude.get_property_safe_mem
  obtain ⟨wout, hwout, hwoutg⟩ := hl.preludeR _ _ Prelude.output_mem
  obtain ⟨wlist, hwlist, hwlistg⟩ := hl.nativesR .list (by decide)
  have hd0 : dH ≤ Config.maxRecursionDepth := by omega
  have hd1 : dH + 1 ≤ Config.maxRecursionDepth := by omega
  have hd2 : dH + 1 + 1 ≤ Config.maxRecursionDepth := by omega
  have hd3 : dH + 1 + 1 + 1 ≤ Config.maxRecursionDepth := by omega
  generalize hE0 : Val.cons (.cons (symA cs!"initial-input" p2) ii) (.cons (.cons (symA cs!"prompt" p1) P) .nil) = env0
  have hE0' := hE0.symm
  generalize hEH : Val.cons (.cons (.symName cs!"*trapped-signal*") eofSignal) env0 = envH
  have hEH' := hEH.symm
  have hsigL : lookupEnv (.named cs!"*trapped-signal*") envH = some eofSignal := by rw [hEH', lookupEnv_hitB]
  have hmissH : ∀ n : Name, n ≠ cs!"*trapped-signal*" → n ≠ cs!"initial-input" → n ≠ cs!"prompt" →
      lookupEnv (.named n) envH = none := by
    intro n h1 h2 h3
    rw [hEH', lookupEnv_missB _ _ _ _ (Ne.symm h1), hE0', lookupEnv_miss _ _ _ _ _ (Ne.symm h2),
      lookupEnv_miss _ _ _ _ _ (Ne.symm h3), lookupEnv_nil]
  -- `(get-property-safe 'kind *trapped-signal*)` is `eof`
  have hpairG : pairParamsAndArgs Prelude.get_property_safe_rest Prelude.get_property_safe_params .nil none
      [symA cs!"kind" m5, eofSignal] =
      .ok (.cons (.cons (symA cs!"plist" pp) eofSignal) (.cons (.cons (symA cs!"key" pk) (symA cs!"kind" m5)) .nil)) := by
    rw [hgp, Prelude.get_property_safe_rest_eq, pair2]
  have hgps : RunsJ s (.ofList [symA cs!"get-property-safe" m3, .ofList [symA cs!"quote" m4, symA cs!"kind" m5],
      symA cs!"*trapped-signal*" m6]) envH cs!"repl" (dH + 1 + 1) (.ok (.symName cs!"eof")) :=
    RunsJ.callClosure hatt hd2 (listToVec_ofList _) rfl
      (RunsJ.of_eval hs (ev_global hd3 (hmissH _ (by decide) (by decide) (by decide)) hwgps))
      (hwgpsg.trans Prelude.get_property_safe_fn_eq)
      (RunsArgsJ.of_evalArgs hs (evs_two (Eval.quote (first := symA cs!"quote" m4) hd3 rfl rfl rfl) (ev_local hd3 hsigL)))
      hpairG
      (gps_runs hl.baseX _ _ _ (.named cs!"kind") (.symName cs!"eof") (listToVec_ofList _) rfl rfl none _ (dH + 1 + 1)
        (by omega) hpairG)
  have hcond : RunsS s (.ofList [symA cs!"=" m2,
      .ofList [symA cs!"get-property-safe" m3, .ofList [symA cs!"quote" m4, symA cs!"kind" m5], symA cs!"*trapped-signal*" m6],
      .ofList [symA cs!"quote" m7, symA cs!"eof" m8]]) envH cs!"repl" (dH + 1)
      (.ok (if equalInternal (.symName cs!"eof") (symA cs!"eof" m8) then Val.symName cs!"t" else Val.nil)) s :=
    RunsS.of_pure (RunsJ.callPrim hatt hd1 (listToVec_ofList _) rfl
      (RunsJ.of_eval hs (ev_global hd2 (hmissH _ (by decide) (by decide) (by decide)) hweq)) hweqg rfl
      (RunsArgsJ.cons hgps (RunsArgsJ.cons
        (RunsJ.of_eval hs (Eval.quote (first := symA cs!"quote" m7) hd2 rfl rfl rfl)) (RunsArgsJ.nil _ _ _ _)))
      (prim_equal _ _ _))
  -- the catcher
  let okForm : Val := quoA cs!"ok" n4
  let lamG : Val := .ofList [symA cs!"lambda" n3, .ofList [.sym (.gen g)], okForm]
  let outCall : Val := .ofList [symA cs!"output" n5, .ofList [.symName cs!"list"]]
  let hbForm : Val := .ofList [lamG, outCall]
  let lamU : Val := .ofList [symA cs!"lambda" n1, .ofList [symA cs!"_" n2], hbForm]
  let cloU : Val := .fn .lambda .nil (.ofList [symA cs!"_" n2]) hbForm envH cs!"repl"
  have hcloU : makeFunctionInternal [.ofList [symA cs!"_" n2], hbForm] envH cs!"repl" cs!"lambda" .lambda = .ok cloU := rfl
  generalize hE5 : Val.cons (.cons (symA cs!"_" n2) eofSignal) envH = env5
  have hE5' := hE5.symm
  let cloG : Val := .fn .lambda .nil (.ofList [.sym (.gen g)]) okForm env5 cs!"repl"
  have hcloG : makeFunctionInternal [.ofList [.sym (.gen g)], okForm] env5 cs!"repl" cs!"lambda" .lambda = .ok cloG := rfl
  have hmiss5 : ∀ n : Name, n ≠ cs!"_" → n ≠ cs!"*trapped-signal*" → n ≠ cs!"initial-input" → n ≠ cs!"prompt" →
      lookupEnv (.named n) env5 = none := by
    intro n h0 h1 h2 h3
    rw [hE5', lookupEnv_miss _ _ _ _ _ (Ne.symm h0)]
    exact hmissH n h1 h2 h3
  have hpairO : pairParamsAndArgs Prelude.output_rest Prelude.output_params .nil none [.ofChars []] =
      .ok (.cons (.cons (symA cs!"msg" po) (.ofChars [])) .nil) := by
    rw [hpo, Prelude.output_rest_eq, pair1]
  have hout : RunsS s outCall env5 cs!"repl" (dH + 1) (.ok (.symName cs!"ok")) (s.write ['\n']) :=
    RunsS.callClosure hatt hd1 (listToVec_ofList _) rfl
      (RunsS.of_pure (RunsJ.of_eval hs (ev_global hd2 (hmiss5 _ (by decide) (by decide) (by decide) (by decide)) hwout)))
      (hwoutg.trans Prelude.output_fn_eq)
      (RunsArgsS.of_pure (RunsArgsJ.of_evalArgs hs (evs_one
        (ev_string (cs := []) hd3 (hmiss5 _ (by decide) (by decide) (by decide) (by decide)) hwlist hwlistg))))
      hpairO (output_runs hl _ [] rfl none _ (dH + 1) (by omega) hpairO)
  rw [hH]
  refine RunsS.ifTrue hatt hd0 hcond (by rw [eqTest]; rfl) ?_
  rw [hHE]
  refine RunsS.callClosure hatt (first := lamU) hd0 (listToVec_ofList _) rfl
    (RunsS.of_pure (RunsJ.of_eval hs (hcloU ▸ ev_lambda hd1))) rfl
    (RunsArgsS.of_pure (RunsArgsJ.of_evalArgs hs (evs_one (ev_local hd1 hsigL)))) (pair1 _ _ _ _) ?_
  rw [hE5]
  exact RunsS.callClosure hatt (first := lamG) (operands := [outCall]) hd0 (listToVec_ofList _) rfl
    (RunsS.of_pure (RunsJ.of_eval hs (hcloG ▸ ev_lambda hd1))) rfl
    (RunsArgsS.cons hout (RunsArgsS.nil _ _ _ _)) (pair1 _ _ _ _)
    (RunsS.of_pure (RunsJ.of_eval hs' (ev_quoA hd0)))

theorem callEnv_of_pair {rest params : Val} {args : List Val} {env : Val}
    (h : pairParamsAndArgs rest params .nil none args = .ok env) : callEnv rest params args = some env := by
  unfold callEnv; rw [h]

theorem script_cons {st : St} {need : Nat} (e : Entry st need) (es : List (Entry st need)) :
    script (e :: es) = asciiBytes e.line ++ script es := by
  simp [script]

end helpers

/-! ### the depth a session needs -/

/-- evaluator levels per line: the REPL calls itself inside its own `try` (finding F17b) -/
def depthA : Nat := 1
/-- evaluator levels that the REPL's own code needs below the body of the last call -/
def depthB : Nat := 9

/-! ### one line, end of input, a session -/

/-- ONE ITERATION. The REPL — the body of `repl` with `prompt ↦ P`, `initial-input ↦ ii` (nil) — in a state whose standard
input begins with a line that holds one form: the prompt, the printed value of the form and a newline are appended to the
output, exactly the bytes of the line are consumed (however the input is chunked), and the run continues as the run of
`(repl ">>> " nil)` ONE level deeper: whatever value that call yields, from the state so changed, is the value of this one. -/
theorem repl_iteration (st : St) (need : Nat) (e : Entry st need) (s : St) (hv : IOVariant st s) (hl : LoadedR s)
    (P ii : Val) (ptext : List Char) (hP : listToString P = some ptext) (hii : ii.isNil = true) (env : Val)
    (henv : callEnv ReplX.repl_rest ReplX.repl_params [P, ii] = some env)
    (rest : List UInt8) (hne : C18.NoEmpty s.stdinChunks)
    (hin : s.stdinBuf ++ s.stdinChunks.flatten = asciiBytes e.line ++ rest)
    (d : Nat) (hd : d + depthB + need ≤ Config.maxRecursionDepth) :
    ∃ buf chunks, buf ++ chunks.flatten = rest ∧ C18.NoEmpty chunks ∧
      ∀ (x : Val) (sF : St),
        (∀ P' ii' env', listToString P' = some cs!">>> " → ii'.isNil = true →
          callEnv ReplX.repl_rest ReplX.repl_params [P', ii'] = some env' →
          RunsS { s with out := s.out ++ ptext ++ e.text ++ ['\n'], stdinBuf := buf, stdinChunks := chunks }
            ReplX.repl_body env' cs!"repl" (d + 1) (.ok x) sF) →
        RunsS s ReplX.repl_body env cs!"repl" d (.ok x) sF := by
  obtain ⟨p1, p2, hpp⟩ := ReplX.repl_params_shape
  rw [hpp, ReplX.repl_rest_eq] at henv
  have hE := callEnv2 henv
  unfold depthB at hd
  obtain ⟨buf, chunks, hrest, hne', h⟩ := replN_ok e hv hl p1 p2 P ii ptext hP hii rest hne hin (d + 1) (by omega) (by omega)
  refine ⟨buf, chunks, hrest, hne', fun x sF hcont => ?_⟩
  refine repl_top hl env (by lk hE) d (by omega) _ (RunsS.trapValOk hl.detached (by omega) ?_)
  rw [hE]
  refine h x sF fun P' ii' env' h1 h2 h3 => ?_
  have := hcont P' ii' env' h1 h2 (callEnv_of_pair h3)
  simpa only [List.append_assoc] using this

/-- END OF INPUT. The REPL in a state whose standard input is exhausted: the prompt and an empty line are written,
`input-file` signals `(kind eof source input-file)`, the `eof` catcher answers the symbol `ok` (the datum of the stored body,
with its reader metadata `m`); nothing else changes. -/
theorem repl_eof : ∃ m, ∀ (s : St), LoadedR s → ∀ (P ii : Val) (ptext : List Char), listToString P = some ptext →
    ∀ (env : Val), callEnv ReplX.repl_rest ReplX.repl_params [P, ii] = some env →
    C18.NoEmpty s.stdinChunks → s.stdinBuf ++ s.stdinChunks.flatten = [] →
    ∀ (d : Nat), d + depthB ≤ Config.maxRecursionDepth →
    RunsS s ReplX.repl_body env cs!"repl" d (.ok (symA cs!"ok" m))
      { s with out := s.out ++ ptext ++ ['\n'], stdinBuf := [], stdinChunks := [] } := by
  obtain ⟨m, hH⟩ := replH_eof
  refine ⟨m, fun s hl P ii ptext hP env henv hne hin d hd => ?_⟩
  obtain ⟨p1, p2, hpp⟩ := ReplX.repl_params_shape
  rw [hpp, ReplX.repl_rest_eq] at henv
  have hE := callEnv2 henv
  unfold depthB at hd
  have hl1 : LoadedR { s with out := s.out ++ ptext, stdinBuf := [], stdinChunks := [] } := hl.variant (IOVariant.refl s)
  refine repl_top hl env (by lk hE) d (by omega) _ ?_
  rw [hE]
  exact RunsS.trapValCatch hl.detached (by omega) (replN_eof hl p1 p2 P ii ptext hP hne hin (d + 1) (by omega))
    (makeError_isNil _ _ _) (hH _ hl1 p1 p2 P ii (d + 1) (by omega))

/-- A SESSION, in the "runs" form, from any state that differs from `st` by output, input and steps -/
theorem repl_session_runs (st : St) (hl : LoadedR st) (need : Nat) : ∃ m, ∀ (es : List (Entry st need)),
    ∀ (s : St), IOVariant st s → ∀ (P ii : Val) (ptext : List Char), listToString P = some ptext → ii.isNil = true →
    ∀ (env : Val), callEnv ReplX.repl_rest ReplX.repl_params [P, ii] = some env →
    C18.NoEmpty s.stdinChunks → s.stdinBuf ++ s.stdinChunks.flatten = script es →
    ∀ (d : Nat), d + depthA * es.length + depthB + need ≤ Config.maxRecursionDepth →
    RunsS s ReplX.repl_body env cs!"repl" d (.ok (symA cs!"ok" m))
      { s with out := s.out ++ transcript ptext (es.map (·.text)), stdinBuf := [], stdinChunks := [] } := by
  obtain ⟨m, heof⟩ := repl_eof
  refine ⟨m, fun es => ?_⟩
  induction es with
  | nil =>
    intro s hv P ii ptext hP _ env henv hne hin d hd
    have := heof s (hl.variant hv) P ii ptext hP env henv hne hin d (by omega)
    simpa only [List.map_nil, transcript, List.append_assoc] using this
  | cons e es ih =>
    intro s hv P ii ptext hP hii env henv hne hin d hd
    rw [script_cons] at hin
    simp only [List.length_cons, depthA, Nat.one_mul] at hd ih
    obtain ⟨buf, chunks, hrest, hne', h⟩ :=
      repl_iteration st need e s hv (hl.variant hv) P ii ptext hP hii env henv (script es) hne hin d (by omega)
    refine h _ _ fun P' ii' env' h1 h2 h3 => ?_
    have := ih { s with out := s.out ++ ptext ++ e.text ++ ['\n'], stdinBuf := buf, stdinChunks := chunks } hv
      P' ii' _ h1 h2 env' h3 hne' hrest (d + 1) (by omega)
    simpa only [List.map_cons, transcript, List.append_assoc] using this

/-- **The REPL processes a session correctly.**  For every script of `n` lines, each holding one form that reads,
evaluates to a value and prints (`Entry`), and for every way the operating system splits the bytes of the script into
chunks (`stdinBuf`, `stdinChunks`, no empty read before the end): evaluating the body of `repl` with `prompt ↦ P` and
`initial-input ↦ nil` returns the symbol `ok` and leaves the state unchanged except that its output has grown by EXACTLY
the transcript — the prompt before every line, the printed value and a newline after every form, in order, one result per
form, and the empty line at end of input — that its standard input is completely consumed, and that steps were counted.
The depth: `depthA = 1` evaluator level per line (the REPL calls itself inside its own `try`: finding F17b), `depthB = 9`
levels for the REPL's own code, `need` levels for the forms of the script.

The session starts in any state `s` that differs from `st` — the state the entries are about — by output, input and
steps only (so that one list of entries serves every chunking of the script). -/
theorem repl_session_from (st : St) (hl : LoadedR st) (need : Nat) (es : List (Entry st need)) (s : St) (hv : IOVariant st s)
    (P ii : Val) (ptext : List Char) (hP : listToString P = some ptext) (hii : ii.isNil = true)
    (env : Val) (henv : callEnv ReplX.repl_rest ReplX.repl_params [P, ii] = some env)
    (hne : C18.NoEmpty s.stdinChunks) (hin : s.stdinBuf ++ s.stdinChunks.flatten = script es)
    (d : Nat) (hd : d + depthA * es.length + depthB + need ≤ Config.maxRecursionDepth) :
    ∃ fuel k r, r.get = .sym (.named cs!"ok") ∧
      evalInternal fuel s ReplX.repl_body env cs!"repl" d =
        (.ok r, { s with steps := s.steps + k, out := s.out ++ transcript ptext (es.map (·.text)),
                         stdinBuf := [], stdinChunks := [] }) := by
  obtain ⟨m, h⟩ := repl_session_runs st hl need
  obtain ⟨fuel, k, hrun⟩ := (h es s hv P ii ptext hP hii env henv hne hin d hd).at_zero
  exact ⟨fuel, k, symA cs!"ok" m, rfl, hrun⟩

/-- the session from the state the entries are about -/
theorem repl_session (st : St) (hl : LoadedR st) (need : Nat) (es : List (Entry st need))
    (P ii : Val) (ptext : List Char) (hP : listToString P = some ptext) (hii : ii.isNil = true)
    (env : Val) (henv : callEnv ReplX.repl_rest ReplX.repl_params [P, ii] = some env)
    (hne : C18.NoEmpty st.stdinChunks) (hin : st.stdinBuf ++ st.stdinChunks.flatten = script es)
    (d : Nat) (hd : d + depthA * es.length + depthB + need ≤ Config.maxRecursionDepth) :
    ∃ fuel k r, r.get = .sym (.named cs!"ok") ∧
      evalInternal fuel st ReplX.repl_body env cs!"repl" d =
        (.ok r, { st with steps := st.steps + k, out := st.out ++ transcript ptext (es.map (·.text)),
                          stdinBuf := [], stdinChunks := [] }) :=
  repl_session_from st hl need es st (IOVariant.refl st) P ii ptext hP hii env henv hne hin d hd

/-- … whatever the chunking: two ways of batching the bytes of the same script give the same value and the same final
state (the same output, the input consumed), up to the number of steps -/
theorem repl_session_chunking_invariant (st : St) (hl : LoadedR st) (need : Nat) (es : List (Entry st need))
    (P ii : Val) (ptext : List Char) (hP : listToString P = some ptext) (hii : ii.isNil = true)
    (env : Val) (henv : callEnv ReplX.repl_rest ReplX.repl_params [P, ii] = some env)
    (b1 b2 : List UInt8) (c1 c2 : List (List UInt8)) (h1 : C18.NoEmpty c1) (h2 : C18.NoEmpty c2)
    (hb1 : b1 ++ c1.flatten = script es) (hb2 : b2 ++ c2.flatten = script es)
    (d : Nat) (hd : d + depthA * es.length + depthB + need ≤ Config.maxRecursionDepth) :
    ∃ fuel1 k1 fuel2 k2 r, r.get = .sym (.named cs!"ok") ∧
      evalInternal fuel1 { st with stdinBuf := b1, stdinChunks := c1 } ReplX.repl_body env cs!"repl" d =
        (.ok r, { st with steps := st.steps + k1, out := st.out ++ transcript ptext (es.map (·.text)),
                          stdinBuf := [], stdinChunks := [] }) ∧
      evalInternal fuel2 { st with stdinBuf := b2, stdinChunks := c2 } ReplX.repl_body env cs!"repl" d =
        (.ok r, { st with steps := st.steps + k2, out := st.out ++ transcript ptext (es.map (·.text)),
                          stdinBuf := [], stdinChunks := [] }) := by
  obtain ⟨m, h⟩ := repl_session_runs st hl need
  obtain ⟨fuel1, k1, hrun1⟩ := (h es { st with stdinBuf := b1, stdinChunks := c1 } (IOVariant.refl st) P ii ptext hP hii
    env henv h1 hb1 d hd).at_zero
  obtain ⟨fuel2, k2, hrun2⟩ := (h es { st with stdinBuf := b2, stdinChunks := c2 } (IOVariant.refl st) P ii ptext hP hii
    env henv h2 hb2 d hd).at_zero
  exact ⟨fuel1, k1, fuel2, k2, symA cs!"ok" m, rfl, hrun1, hrun2⟩


/-! ### non-vacuity: a state in which the REPL is loaded, and the session `1`, `(add 1 2)` -/

/-- the stored closure of the prelude function `input` (see `IsInputFn`), with the metadata of the current prelude.lisp;
`input` is the first user of `gensym` while the prelude loads -/
def exInputFn : Val :=
  .fn .lambda .nil (.ofList [symA cs!"prompt" ⟨cs!"prompt", ⟨.file cs!"prelude", 146, 15⟩, []⟩])
    (inputBody 0 ⟨cs!"lambda", ⟨.file cs!"prelude", 139, 24⟩, []⟩
      ⟨cs!"input-file", ⟨.file cs!"prelude", 150, 6⟩, []⟩ ⟨cs!"*stdin*", ⟨.file cs!"prelude", 150, 17⟩, []⟩
      ⟨cs!"output-file", ⟨.file cs!"prelude", 149, 6⟩, []⟩ ⟨cs!"*stdout*", ⟨.file cs!"prelude", 149, 18⟩, []⟩
      ⟨cs!"prompt", ⟨.file cs!"prelude", 149, 27⟩, []⟩ .nil .nil)
    .nil cs!"prelude"

/-- an example state: the module `prelude` (everything exported) with the natives, `nil`, `t`, `*stdin*`, `*stdout*`, the
prelude definitions and the stored closures of the macro-using ones; the module `repl` with the stored closures of
repl.lisp, exporting `repl` and `read-eval-print`; an empty current module `user` -/
def exStR : St := { (default : St) with
  modules := [⟨cs!"prelude", NativeId.all.map (fun id => (id.name, Val.native id)) ++
                [(cs!"nil", .nil), (cs!"t", .symName cs!"t"), (cs!"*stdin*", .symName cs!"*stdin*"),
                 (cs!"*stdout*", .symName cs!"*stdout*")] ++ Prelude.table ++ PreludeX.table ++
                [(cs!"input", exInputFn)], none⟩,
              ⟨cs!"repl", ReplX.table, some [cs!"repl", cs!"read-eval-print"]⟩,
              ⟨cs!"user", [], none⟩],
  current := cs!"user" }

section helpers

theorem exStR_table (tbl : List (Name × Val)) (home : Name)
    (hall : tbl.all (fun p => match exStR.getGlobal p.1 home with | .found w => w.get == p.2 | _ => false) = true) :
    ∀ name v, (name, v) ∈ tbl → ∃ w, exStR.getGlobal name home = .found w ∧ w.get = v := by
  intro name v hmem
  obtain ⟨w, hw, hp⟩ := found_of_check (List.all_eq_true.mp hall (name, v) hmem)
  exact ⟨w, hw, eq_of_beq hp⟩

theorem exStR_natives (ids : List NativeId) (home : Name)
    (hall : ids.all (fun id => match exStR.getGlobal id.name home with
      | .found w => w.get == .native id | _ => false) = true) :
    ∀ id, id ∈ ids → ∃ w, exStR.getGlobal id.name home = .found w ∧ w.get = .native id := by
  intro id hmem
  obtain ⟨w, hw, hp⟩ := found_of_check (List.all_eq_true.mp hall id hmem)
  exact ⟨w, hw, eq_of_beq hp⟩

theorem exStR_found (name home : Name) (P : Val → Bool)
    (h : (match exStR.getGlobal name home with | .found w => P w | _ => false) = true) :
    ∃ w, exStR.getGlobal name home = .found w ∧ P w = true := found_of_check h

end helpers

theorem exStR_base : Loaded exStR where
  detached := rfl
  current := by unfold HasModule; decide +kernel
  prelude := exStR_table _ _ (by decide +kernel)
  natives := exStR_natives _ _ (by decide +kernel)
  nil := exStR_found _ _ Val.isNil (by decide +kernel)
  t := by
    obtain ⟨w, hw, hp⟩ := exStR_found cs!"t" cs!"prelude" (fun w => !w.isNil) (by decide +kernel)
    exact ⟨w, hw, by simpa using hp⟩

theorem exStR_loadedX : LoadedX exStR where
  base := exStR_base
  preludeX := exStR_table _ _ (by decide +kernel)
  gensymN := by
    obtain ⟨w, hw, hp⟩ := exStR_found cs!"gensym" cs!"prelude" (fun w => w.get == .native .gensym) (by decide +kernel)
    exact ⟨w, hw, eq_of_beq hp⟩
  nativesX := exStR_natives _ _ (by decide +kernel)

theorem exStR_loaded : LoadedR exStR where
  baseX := exStR_loadedX
  ioNatives := exStR_natives _ _ (by decide +kernel)
  stdin := exStR_found _ _ (fun w => w.isSymNamed cs!"*stdin*") (by decide +kernel)
  stdout := exStR_found _ _ (fun w => w.isSymNamed cs!"*stdout*") (by decide +kernel)
  replFns := exStR_table _ _ (by decide +kernel)
  preludeR := exStR_table _ _ (by decide +kernel)
  preludeXR := exStR_table _ _ (by decide +kernel)
  inputR := by
    obtain ⟨w, hw, hp⟩ := exStR_found cs!"input" cs!"repl" (fun w => w.get == exInputFn) (by decide +kernel)
    exact ⟨w, hw, (eq_of_beq hp) ▸ ⟨_, _, _, _, _, _, _, _, _, _, rfl, rfl, rfl⟩⟩
  nativesR := exStR_natives _ _ (by decide +kernel)
  nilR := exStR_found _ _ Val.isNil (by decide +kernel)
  tR := by
    obtain ⟨w, hw, hp⟩ := exStR_found cs!"t" cs!"repl" (fun w => !w.isNil) (by decide +kernel)
    exact ⟨w, hw, by simpa using hp⟩

/-! the two lines of the example session -/

/-- what `read` returns for the line `1` -/
def exForm1 : Val := numA 1 ⟨cs!"1", ⟨.stdin, 1, 1⟩, []⟩
/-- what `read` returns for the line `(add 1 2)` -/
def exForm2 : Val := .ofList [symA cs!"add" ⟨cs!"add", ⟨.stdin, 1, 2⟩, []⟩, numA 1 ⟨cs!"1", ⟨.stdin, 1, 6⟩, []⟩,
  numA 2 ⟨cs!"2", ⟨.stdin, 1, 8⟩, []⟩]

/-- the line `1`: a number evaluates to itself (with its reader metadata) and prints as `1` -/
def exEntry1 : Entry exStR 3 where
  body := cs!"1"
  form := exForm1
  rest := ⟨.ofChars cs!"\n", 1, 2⟩
  value := exForm1
  text := cs!"1"
  ascii := by decide
  oneLine := by decide
  reads := readCore_of_check (by decide +kernel)
  evals := by
    intro s hv env _ dd hdd
    have hl := exStR_loaded.variant hv
    exact evalInline_of_round 1 (fun n => expand_numA n s _ _ env _ _ (by omega) false)
      (RunsJ.of_eval hl.sees (ev_num (by omega)))
  prints := fun pd hpd => printText_num 1 _ pd (by omega)

/-- the line `(add 1 2)`: nothing to expand, the native `add` answers 3, which prints as `3` -/
def exEntry2 : Entry exStR 3 where
  body := cs!"(add 1 2)"
  form := exForm2
  rest := ⟨.ofChars cs!"\n", 1, 10⟩
  value := .num 3
  text := cs!"3"
  ascii := by decide
  oneLine := by decide
  reads := readCore_of_check (by decide +kernel)
  evals := by
    intro s hv env henv dd hdd
    obtain ⟨m1, m2, m3, m4, m5, v1, v2, v3, v4, v5, hE⟩ := henv
    have hl := exStR_loaded.variant hv
    have hs := hl.sees
    obtain ⟨wadd, hwadd, hwaddp⟩ := exStR_found cs!"add" cs!"repl" (fun w => w.get == .native .add) (by decide +kernel)
    have hwaddg : wadd.get = .native .add := eq_of_beq hwaddp
    have hwadd' : s.getGlobal cs!"add" cs!"repl" = .found wadd := by rw [getGlobal_congr hv.1]; exact hwadd
    have hmiss : lookupEnv (.named cs!"add") env = none := by lk hE
    have hd2 : dd + 1 + 1 ≤ Config.maxRecursionDepth := by omega
    have hd3 : dd + 1 + 1 + 1 ≤ Config.maxRecursionDepth := by omega
    refine evalInline_of_round (x' := exForm2) 4 (fun n => ?_) ?_
    · -- one round of the expander: `add` is no macro, the numbers are atoms
      have hfn : ∀ rest params body fenv fmod, wadd.get ≠ .fn .macro rest params body fenv fmod := by
        intro _ _ _ _ _ h; rw [hwaddg] at h; cases h
      have hop : expandInternal (n + 3) s (symA cs!"add" ⟨cs!"add", ⟨.stdin, 1, 2⟩, []⟩) env cs!"repl" (dd + 1 + 1 + 1) false =
          ((.ok (symA cs!"add" ⟨cs!"add", ⟨.stdin, 1, 2⟩, []⟩), s), false) :=
        Expand.expandInternal_of_step hd3 (.symFound (.named cs!"add") wadd rfl rfl
          (by simp only [lookup, hmiss]; exact hwadd') hfn)
      exact Expand.expandInternal_of_step hd2 (.call _ _ _ s false _ s false (listToVec_ofList _) rfl rfl hop
        (Expand.expandArgs_cons_of (expand_numA _ s _ _ env _ _ hd3 false)
          (Expand.expandArgs_cons_of (expand_numA _ s _ _ env _ _ hd3 false) (Expand.expandArgs_nil n s env _ _ false)))
        (by intro _ _ _ _ _ h; cases h))
    · -- the evaluation
      exact RunsJ.of_eval hs (ev_prim (by omega) rfl (ev_global (by omega) hmiss hwadd') hwaddg rfl
        (evs_two (ev_num (by omega)) (ev_num (by omega)))
        (prim_add _ _ 1 2 _ rfl rfl (by decide) (by decide) (by decide)))
  prints := fun pd hpd => printText_bareNum 3 pd (by omega)

/-- the REPL's local environment at the start: `(repl ">>> " nil)` -/
def exEnv : Val := envOf ReplX.repl_rest ReplX.repl_params [.ofChars cs!">>> ", .nil]

/-- the session `1`, `(add 1 2)`, its ten bytes delivered by the operating system in one read -/
example : ∃ fuel k r, r.get = .sym (.named cs!"ok") ∧
    evalInternal fuel { exStR with stdinChunks := [asciiBytes cs!"1\n(add 1 2)\n"] } ReplX.repl_body exEnv cs!"repl" 0 =
      (.ok r, { exStR with steps := k, out := cs!">>> 1\n>>> 3\n>>> \n" }) := by
  obtain ⟨fuel, k, r, hr, h⟩ := repl_session_from exStR exStR_loaded 3 [exEntry1, exEntry2]
    { exStR with stdinChunks := [asciiBytes cs!"1\n(add 1 2)\n"] } (IOVariant.refl _)
    (.ofChars cs!">>> ") .nil cs!">>> " (listToString_ofChars _) rfl exEnv (by decide +kernel)
    (by intro c hc; simp at hc; subst hc; decide) (by decide +kernel) 0 (by decide)
  exact ⟨fuel, exStR.steps + k, r, hr, h⟩

/-- the same bytes delivered in three pieces that cut both lines: the same transcript -/
example : ∃ fuel k r, r.get = .sym (.named cs!"ok") ∧
    evalInternal fuel { exStR with stdinBuf := asciiBytes cs!"1", stdinChunks := [asciiBytes cs!"\n(ad", asciiBytes cs!"d 1 2)\n"] }
      ReplX.repl_body exEnv cs!"repl" 0 =
      (.ok r, { exStR with steps := k, out := cs!">>> 1\n>>> 3\n>>> \n" }) := by
  obtain ⟨fuel, k, r, hr, h⟩ := repl_session_from exStR exStR_loaded 3 [exEntry1, exEntry2]
    { exStR with stdinBuf := asciiBytes cs!"1", stdinChunks := [asciiBytes cs!"\n(ad", asciiBytes cs!"d 1 2)\n"] }
    (IOVariant.refl _) (.ofChars cs!">>> ") .nil cs!">>> " (listToString_ofChars _) rfl exEnv (by decide +kernel)
    (by intro c hc; simp at hc; rcases hc with rfl | rfl <;> decide) (by decide +kernel) 0 (by decide)
  exact ⟨fuel, exStR.steps + k, r, hr, h⟩

/-- … and by plain evaluation of the model (60 levels of fuel suffice), for both chunkings -/
example :
    let out := evalInternal 60 { exStR with stdinChunks := [asciiBytes cs!"1\n(add 1 2)\n"] } ReplX.repl_body exEnv cs!"repl" 0
    (match out.1 with | .ok r => r.get == .sym (.named cs!"ok") | _ => false) = true ∧
    out.2.out = cs!">>> 1\n>>> 3\n>>> \n" ∧ out.2.stdinBuf = [] ∧ out.2.stdinChunks = [] := by decide +kernel

example :
    let out := evalInternal 60
      { exStR with stdinBuf := asciiBytes cs!"1", stdinChunks := [asciiBytes cs!"\n(ad", asciiBytes cs!"d 1 2)\n"] }
      ReplX.repl_body exEnv cs!"repl" 0
    (match out.1 with | .ok r => r.get == .sym (.named cs!"ok") | _ => false) = true ∧
    out.2.out = cs!">>> 1\n>>> 3\n>>> \n" ∧ out.2.stdinBuf = [] ∧ out.2.stdinChunks = [] := by decide +kernel


/-- the text of the definition of `input` in prelude.lisp (lines 146–150) -/
def inputSource : List Char :=
  cs!"(defun input (prompt)\n  \"Write `prompt` to stdout then read a line from stdin.\"\n  (block\n    (output-file *stdout* prompt)\n    (input-file *stdin*)))\n"

/-- the prelude before `input` is defined (no symbol generated yet) -/
def exStP : St := { (default : St) with
  modules := [⟨cs!"prelude", NativeId.all.map (fun id => (id.name, Val.native id)) ++
                [(cs!"nil", .nil), (cs!"t", .symName cs!"t"), (cs!"*stdin*", .symName cs!"*stdin*"),
                 (cs!"*stdout*", .symName cs!"*stdout*")] ++ Prelude.table ++ PreludeX.table, none⟩],
  current := cs!"prelude" }

/-- what the model binds to `input` when it loads the definition: the text read by `read` at line 146 of the file
prelude, evaluated by the `eval` native (the macros `defun` and `block` expanded, `define` called) -/
def loadedInput (fuel : Nat) : Option Val :=
  match readCore [.ofChars inputSource, .ofString cs!"prelude", .num 146, .num 1] 0 with
  | .ok (.ok form _) =>
    match applyNative fuel exStP .eval [form] .nil 0 with
    | (.ok _, st) =>
      match st.getGlobal cs!"input" cs!"prelude" with
      | .found w => some w.get
      | _        => none
    | _ => none
  | _ => none

/-- `exInputFn` IS the closure that the model binds to `input` -/
example : loadedInput 100 = some exInputFn := by decide +kernel

end Pici.C18b
