/-
C16 (continued) — the remaining prelude definitions of the property's list: the macros `let`, `throw`, `catch`,
`catch-all`, `try`, `apply`, and the functions `-`, `/`, `concat`.

As in C16 / C16b / C16c the bodies are the regenerated constants (`Generated/Prelude.lean` for the macro-free definitions,
`Generated/PreludeExpanded.lean` for `-`, `/`, `concat`, whose stored bodies are macro-expanded).  The macro theorems give
the expansion UP TO READER METADATA AND THE REPRESENTATION OF THE EMPTY LIST (`Val.strip` removes every metadata cell, so
both sides are compared as plain trees): which operand goes where, each exactly once.
-/
import PiciModel.Props.C16c
import PiciModel.Lemmas.PreludeSteps4

namespace Pici.C16
open Pici

/-- `n1 e1 n2 e2 …` -/
def flatBindings : List (Val × Val) → List Val
  | [] => []
  | (n, e) :: rest => n :: e :: flatBindings rest

section helpers
open Pici.Ref

/-- the body of `unzip-list` on a list of name/expression pairs laid out flat, in the reference semantics: the names
and the expressions, each list ending in the value of the global `nil`; one level of depth per pair -/
theorem unzip_eval {st : St} (hl : Loaded st) (tail : Val) (htail : st.getGlobal cs!"nil" cs!"prelude" = .found tail) :
    ∀ (bs : List (Val × Val)) (d : Nat), d + bs.length + 6 ≤ Config.maxRecursionDepth → ∀ (env : Val),
      pairParamsAndArgs Prelude.unzip_list_rest Prelude.unzip_list_params .nil none [Val.ofList (flatBindings bs)] = .ok env →
      Eval (globalsOf st) env cs!"prelude" d Prelude.unzip_list_body
        (.ok (.cons ((bs.map (·.1)).foldr Val.cons tail) ((bs.map (·.2)).foldr Val.cons tail))) := by
  obtain ⟨p1, hp⟩ := Prelude.unzip_list_params_shape
  obtain ⟨m1, m2, m3, m4, m5, m6, m7, m8, m9, m10, m11, m12, m13, m14, m15, m16, m17, m18, m19, m20, m21, m22, m23, m24,
    m25, m26, S, hb⟩ := Prelude.unzip_list_body_shape
  obtain ⟨wf, hwf, hwfg⟩ := hl.prelude _ _ Prelude.unzip_list_mem
  obtain ⟨wcar, hwcar, hwcarg⟩ := hl.native .car (by decide)
  obtain ⟨wcdr, hwcdr, hwcdrg⟩ := hl.native .cdr (by decide)
  obtain ⟨wcons, hwcons, hwconsg⟩ := hl.native .cons (by decide)
  have htail' : globalsOf st cs!"nil" cs!"prelude" = .found tail := htail
  intro bs
  induction bs with
  | nil =>
    intro d hd env henv
    have hE : env = .cons (.cons (symA cs!"pairs" p1) (.ofList [])) .nil := by
      rw [hp, Prelude.unzip_list_rest_eq, pair1] at henv
      exact (Res.ok.inj henv).symm
    rw [hb]
    refine ev_if_false (by omega) (ev_local (by omega) (by lk hE)) rfl ?_
    exact ev_prim (by omega) rfl (ev_global (by omega) (by lk hE) hwcons) hwconsg rfl
      (evs_two (ev_global (by omega) (by lk hE) htail') (ev_global (by omega) (by lk hE) htail')) rfl
  | cons b bs ih =>
    obtain ⟨n, e⟩ := b
    intro d hd env henv
    have hlen : ((n, e) :: bs).length = bs.length + 1 := rfl
    have hd0 : d ≤ Config.maxRecursionDepth := by omega
    have hd1 : d + 1 ≤ Config.maxRecursionDepth := by omega
    have hd2 : d + 1 + 1 ≤ Config.maxRecursionDepth := by omega
    have hd3 : d + 1 + 1 + 1 ≤ Config.maxRecursionDepth := by omega
    have hd4 : d + 1 + 1 + 1 + 1 ≤ Config.maxRecursionDepth := by omega
    have hd5 : d + 1 + 1 + 1 + 1 + 1 ≤ Config.maxRecursionDepth := by omega
    have hE : env = .cons (.cons (symA cs!"pairs" p1) (.ofList (n :: e :: flatBindings bs))) .nil := by
      rw [hp, Prelude.unzip_list_rest_eq, pair1] at henv
      exact (Res.ok.inj henv).symm
    have hpair : pairParamsAndArgs Prelude.unzip_list_rest Prelude.unzip_list_params .nil none [Val.ofList (flatBindings bs)] =
        .ok (.cons (.cons (symA cs!"pairs" p1) (.ofList (flatBindings bs))) .nil) := by
      rw [hp, Prelude.unzip_list_rest_eq, pair1]
    have hrec := ih (d + 1) (by omega) _ hpair
    -- the forms
    let consForm : Val := .ofList [symA cs!"cons" m5,
      .ofList [symA cs!"cons" m6, .ofList [symA cs!"car" m7, symA cs!"pairs" m8],
               .ofList [symA cs!"car" m9, symA cs!"fsts-snds" m10]],
      .ofList [symA cs!"cons" m11, .ofList [symA cs!"car" m12, .ofList [symA cs!"cdr" m13, symA cs!"pairs" m14]],
               .ofList [symA cs!"cdr" m15, symA cs!"fsts-snds" m16]]]
    let clo : Val := .fn .lambda .nil (.ofList [symA cs!"fsts-snds" m4]) consForm env cs!"prelude"
    have hclo : makeFunctionInternal [.ofList [symA cs!"fsts-snds" m4], consForm] env cs!"prelude" cs!"lambda" .lambda = .ok clo := rfl
    generalize hE1 : Val.cons (.cons (symA cs!"fsts-snds" m4)
      (.cons ((bs.map (·.1)).foldr Val.cons tail) ((bs.map (·.2)).foldr Val.cons tail))) env = env1
    have hE1' := hE1.symm
    rw [hb]
    refine ev_if_true hd0 (ev_local hd1 (by lk hE)) rfl ?_
    refine Ref.Eval.callClosure (first := .ofList [symA cs!"lambda" m3, .ofList [symA cs!"fsts-snds" m4], consForm])
      (operands := [.ofList [symA cs!"unzip-list" m17,
        .ofList [symA cs!"cdr" m18,
          .ofList [symA cs!"if" m19, .ofList [symA cs!"cdr" m20, symA cs!"pairs" m21],
                   .ofList [symA cs!"cdr" m22, symA cs!"pairs" m23], S]]]])
      (args := [.cons ((bs.map (·.1)).foldr Val.cons tail) ((bs.map (·.2)).foldr Val.cons tail)])
      hd0 rfl rfl (hclo ▸ ev_lambda hd1) rfl (evs_one ?_) (pair1 _ _ _ _) ?_
    · -- the recursive call, one level down, on the list without its first two elements
      refine ev_call hd1 rfl (ev_global hd2 (by lk hE) hwf) (hwfg.trans Prelude.unzip_list_fn_eq) (evs_one ?_) hpair hrec
      refine ev_prim hd2 rfl (ev_global hd3 (by lk hE) hwcdr) hwcdrg rfl (evs_one ?_)
        (prim_cdr (.ofList (e :: flatBindings bs)) e _ _ rfl)
      refine ev_if_true (v := .ofList (e :: flatBindings bs)) hd3 ?_ rfl ?_
      · exact ev_prim hd4 rfl (ev_global hd5 (by lk hE) hwcdr) hwcdrg rfl (evs_one (ev_local hd5 (by lk hE)))
          (prim_cdr _ n _ _ rfl)
      · exact ev_prim hd3 rfl (ev_global hd4 (by lk hE) hwcdr) hwcdrg rfl (evs_one (ev_local hd4 (by lk hE)))
          (prim_cdr _ n _ _ rfl)
    · -- the body of the closure
      rw [hE1]
      simp only [List.map_cons, List.foldr_cons]
      refine ev_prim hd0 rfl (ev_global hd1 (by lk2 hE1' hE) hwcons) hwconsg rfl (evs_two ?_ ?_) rfl
      · refine ev_prim hd1 rfl (ev_global hd2 (by lk2 hE1' hE) hwcons) hwconsg rfl (evs_two ?_ ?_) rfl
        · exact ev_prim hd2 rfl (ev_global hd3 (by lk2 hE1' hE) hwcar) hwcarg rfl (evs_one (ev_local hd3 (by lk2 hE1' hE)))
            (prim_car _ n _ _ rfl)
        · exact ev_prim hd2 rfl (ev_global hd3 (by lk2 hE1' hE) hwcar) hwcarg rfl (evs_one (ev_local hd3 (by lk hE1')))
            (prim_car _ _ _ _ rfl)
      · refine ev_prim hd1 rfl (ev_global hd2 (by lk2 hE1' hE) hwcons) hwconsg rfl (evs_two ?_ ?_) rfl
        · refine ev_prim hd2 rfl (ev_global hd3 (by lk2 hE1' hE) hwcar) hwcarg rfl (evs_one ?_)
            (prim_car (.ofList (e :: flatBindings bs)) e _ _ rfl)
          exact ev_prim hd3 rfl (ev_global hd4 (by lk2 hE1' hE) hwcdr) hwcdrg rfl (evs_one (ev_local hd4 (by lk2 hE1' hE)))
            (prim_cdr _ n _ _ rfl)
        · exact ev_prim hd2 rfl (ev_global hd3 (by lk2 hE1' hE) hwcdr) hwcdrg rfl (evs_one (ev_local hd3 (by lk hE1')))
            (prim_cdr _ _ _ _ rfl)

end helpers

/-- `(let (n1 e1 … nk ek) body)` expands to `((lambda (n1 … nk) body) e1 … ek)`: every operand expression occurs exactly
once, as an operand of the application (so it is evaluated in the OUTER environment, left to right), the body once -/
theorem let_expands (st : St) (hl : LoadedX st) (bs : List (Val × Val)) (body : Val) (env : Val) (d : Nat)
    (hd : d + bs.length + 20 ≤ Config.maxRecursionDepth)
    (henv : callEnv Prelude.let_rest Prelude.let_params [Val.ofList (flatBindings bs), body] = some env) :
    ∃ fuel k r, r.strip = (Val.cons (Val.ofList [.symName cs!"lambda", Val.ofList (bs.map (·.1)), body])
                                    (Val.ofList (bs.map (·.2)))).strip ∧
      evalInternal fuel st Prelude.let_body env cs!"prelude" d = (.ok r, bump st k) := by
  obtain ⟨p1, p2, hp⟩ := Prelude.let_params_shape
  obtain ⟨m1, m2, m3, m4, m5, m6, m7, m8, m9, m10, m11, m12, m13, m14, m15, m16, m17, m18, m19, H, hb⟩ := Prelude.let_body_shape
  obtain ⟨q1, hq⟩ := Prelude.unzip_list_params_shape
  have hlb := hl.base
  rw [hp, Prelude.let_rest_eq] at henv
  have hE := callEnv2 henv
  obtain ⟨wf, hwf, hwfg⟩ := hlb.prelude _ _ Prelude.unzip_list_mem
  obtain ⟨wcar, hwcar, hwcarg⟩ := hlb.native .car (by decide)
  obtain ⟨wcdr, hwcdr, hwcdrg⟩ := hlb.native .cdr (by decide)
  obtain ⟨wcons, hwcons, hwconsg⟩ := hlb.native .cons (by decide)
  obtain ⟨wl, hwl, hwlg⟩ := hlb.native .list (by decide)
  obtain ⟨weval, hweval, hwevalg⟩ := hl.nativesX .eval (by decide)
  obtain ⟨tail, htail, htailp⟩ := hlb.nil
  have hweval' : globalsOf st cs!"eval" cs!"prelude" = .found weval := hweval
  have hatt := hlb.detached
  have hs := hlb.sees
  have hd0 : d ≤ Config.maxRecursionDepth := by omega
  have hd1 : d + 1 ≤ Config.maxRecursionDepth := by omega
  have hd2 : d + 1 + 1 ≤ Config.maxRecursionDepth := by omega
  have hd3 : d + 1 + 1 + 1 ≤ Config.maxRecursionDepth := by omega
  -- the forms
  let consForm : Val := .ofList [symA cs!"cons" m6,
    .ofList [symA cs!"list" m7, quoA cs!"lambda" m8, symA cs!"params" m9, symA cs!"body" m10], symA cs!"args" m11]
  let lam2Form : Val := .ofList [symA cs!"lambda" m3, .ofList [symA cs!"params" m4, symA cs!"args" m5], consForm]
  let body1 : Val := .ofList [lam2Form, .ofList [symA cs!"car" m12, symA cs!"params-args" m13],
    .ofList [symA cs!"cdr" m14, symA cs!"params-args" m15]]
  let lam1Form : Val := .ofList [symA cs!"lambda" m1, .ofList [symA cs!"params-args" m2], body1]
  let unzipForm : Val := .ofList [symA cs!"unzip-list" m18, symA cs!"bindings" m19]
  let evalForm : Val := .ofList [symA cs!"eval" m16, .ofList [symA cs!"trap" m17, unzipForm, H]]
  let fsts : Val := (bs.map (·.1)).foldr Val.cons tail
  let snds : Val := (bs.map (·.2)).foldr Val.cons tail
  -- `(unzip-list bindings)`, two levels down
  have hpairU : pairParamsAndArgs Prelude.unzip_list_rest Prelude.unzip_list_params .nil none [Val.ofList (flatBindings bs)] =
      .ok (.cons (.cons (symA cs!"pairs" q1) (.ofList (flatBindings bs))) .nil) := by
    rw [hq, Prelude.unzip_list_rest_eq, pair1]
  have hunzip : Ref.Eval (globalsOf st) env cs!"prelude" (d + 1 + 1) unzipForm (.ok (.cons fsts snds)) :=
    ev_call hd2 rfl (ev_global hd3 (by lk hE) hwf) (hwfg.trans Prelude.unzip_list_fn_eq)
      (evs_one (ev_local hd3 (by lk hE))) hpairU (unzip_eval hlb tail htail bs (d + 1 + 1) (by omega) _ hpairU)
  -- `(eval (trap (unzip-list bindings) …))`, one level down: the trap value is evaluated, its normal body yields the pair
  have heval : RunsJ st evalForm env cs!"prelude" (d + 1) (.ok (.cons fsts snds)) :=
    RunsJ.callEval hatt hd1 (listToVec_ofList _) rfl (RunsJ.of_eval hs (ev_global hd2 (by lk hE) hweval')) hwevalg
      (RunsArgsJ.cons (RunsJ.trapForm hatt hd2) (RunsArgsJ.nil _ _ _ _))
      (fun n st' => expandCompletely_trapVal n st' _ _ _ _ _ (by omega))
      (RunsJ.trapVal hatt hd1 (RunsJ.of_eval hs hunzip))
  -- the two closures
  let clo1 : Val := .fn .lambda .nil (.ofList [symA cs!"params-args" m2]) body1 env cs!"prelude"
  have hclo1 : makeFunctionInternal [.ofList [symA cs!"params-args" m2], body1] env cs!"prelude" cs!"lambda" .lambda =
      .ok clo1 := rfl
  generalize hE1 : Val.cons (.cons (symA cs!"params-args" m2) (.cons fsts snds)) env = env1
  have hE1' := hE1.symm
  let clo2 : Val := .fn .lambda .nil (.ofList [symA cs!"params" m4, symA cs!"args" m5]) consForm env1 cs!"prelude"
  have hclo2 : makeFunctionInternal [.ofList [symA cs!"params" m4, symA cs!"args" m5], consForm] env1 cs!"prelude"
      cs!"lambda" .lambda = .ok clo2 := rfl
  generalize hE2 : Val.cons (.cons (symA cs!"args" m5) snds) (.cons (.cons (symA cs!"params" m4) fsts) env1) = env2
  have hE2' := hE2.symm
  have hbody : Ref.Eval (globalsOf st) env1 cs!"prelude" d body1
      (.ok (.cons (.ofList [symA cs!"lambda" m8, fsts, body]) snds)) := by
    refine Ref.Eval.callClosure (first := lam2Form)
      (operands := [.ofList [symA cs!"car" m12, symA cs!"params-args" m13], .ofList [symA cs!"cdr" m14, symA cs!"params-args" m15]])
      (args := [fsts, snds]) hd0 rfl rfl (hclo2 ▸ ev_lambda hd1) rfl (evs_two ?_ ?_) (pair2 _ _ _ _ _ _) ?_
    · exact ev_prim hd1 rfl (ev_global hd2 (by lk2 hE1' hE) hwcar) hwcarg rfl (evs_one (ev_local hd2 (by lk hE1')))
        (prim_car _ _ _ _ rfl)
    · exact ev_prim hd1 rfl (ev_global hd2 (by lk2 hE1' hE) hwcdr) hwcdrg rfl (evs_one (ev_local hd2 (by lk hE1')))
        (prim_cdr _ _ _ _ rfl)
    · rw [hE2]
      refine ev_prim hd0 rfl (ev_global hd1 (by simp only [hE2']; lk2 hE1' hE) hwcons) hwconsg rfl
        (evs_two ?_ (ev_local hd1 (by lk hE2'))) rfl
      exact ev_prim hd1 rfl (ev_global hd2 (by simp only [hE2']; lk2 hE1' hE) hwl) hwlg rfl
        (evs_three (ev_quoA hd2) (ev_local hd2 (by lk hE2')) (ev_local hd2 (by simp only [hE2']; lk2 hE1' hE))) rfl
  rw [hb]
  refine ex_reorder1 (.cons (.ofList [symA cs!"lambda" m8, fsts, body]) snds) ?_ (realiseJ ?_)
  · simp only [Val.ofList, strip_cons, strip_symA, strip_symName, strip_nil, fsts, snds, strip_foldr_cons _ _ htailp]
  · refine RunsJ.callClosure hatt (first := lam1Form) (operands := [evalForm]) hd0 rfl rfl
      (RunsJ.of_eval hs (hclo1 ▸ ev_lambda hd1)) rfl (RunsArgsJ.cons heval (RunsArgsJ.nil _ _ _ _)) (pair1 _ _ _ _) ?_
    rw [hE1]
    exact RunsJ.of_eval hs hbody

/-- `(throw a b …)` expands to `(signal (list a b …))` -/
theorem throw_expands (st : St) (hl : LoadedX st) (args : List Val) (env : Val) (d : Nat)
    (hd : d + 8 ≤ Config.maxRecursionDepth)
    (henv : callEnv Prelude.throw_rest Prelude.throw_params args = some env) :
    ∃ fuel k r, r.strip = (Val.ofList [.symName cs!"signal", .cons (.symName cs!"list") (Val.ofList args)]).strip ∧
      evalInternal fuel st Prelude.throw_body env cs!"prelude" d = (.ok r, bump st k) := by
  obtain ⟨p, hp⟩ := Prelude.throw_rest_shape
  obtain ⟨m1, m2, m3, m4, m5, hb⟩ := Prelude.throw_body_shape
  have hlb := hl.base
  have hE : env = .cons (.cons (symA cs!"body" p) (.ofList args)) .nil := by
    have := callEnv_ok henv
    rw [hp, Prelude.throw_params_eq, pairRest] at this
    exact (Res.ok.inj this).symm
  obtain ⟨wl, hwl, hwlg⟩ := hlb.native .list (by decide)
  obtain ⟨wc, hwc, hwcg⟩ := hlb.native .cons (by decide)
  have hd1 : d + 1 ≤ Config.maxRecursionDepth := by omega
  have hd2 : d + 1 + 1 ≤ Config.maxRecursionDepth := by omega
  rw [hb]
  refine ex_reorder1 (.ofList [symA cs!"signal" m2, .cons (symA cs!"list" m4) (.ofList args)]) ?_ (hlb.realise ?_)
  · simp only [Val.ofList, strip_cons, strip_symA, strip_symName, strip_nil]
  · exact ev_prim (by omega) rfl (ev_global hd1 (by lk hE) hwl) hwlg rfl
      (evs_two (ev_quoA hd1) (ev_prim hd1 rfl (ev_global hd2 (by lk hE) hwc) hwcg rfl
        (evs_two (ev_quoA hd2) (ev_local hd2 (by lk hE))) rfl)) rfl

/-- `(catch-all f)` is the catcher `(test t body f)`: its test is always true -/
theorem catch_all_expands (st : St) (hl : LoadedX st) (f : Val) (env : Val) (d : Nat)
    (hd : d + 8 ≤ Config.maxRecursionDepth)
    (henv : callEnv Prelude.catch_all_rest Prelude.catch_all_params [f] = some env) :
    ∃ fuel k r tv, tv.isNil = false ∧
      r.strip = (Val.ofList [.symName cs!"test", tv, .symName cs!"body", f]).strip ∧
      evalInternal fuel st Prelude.catch_all_body env cs!"prelude" d = (.ok r, bump st k) := by
  obtain ⟨p1, hp⟩ := Prelude.catch_all_params_shape
  obtain ⟨m1, m2, m3, m4, m5, hb⟩ := Prelude.catch_all_body_shape
  have hlb := hl.base
  rw [hp, Prelude.catch_all_rest_eq] at henv
  have hE := callEnv1 henv
  obtain ⟨wl, hwl, hwlg⟩ := hlb.native .list (by decide)
  obtain ⟨tV, ht, htp⟩ := hlb.t
  have hd1 : d + 1 ≤ Config.maxRecursionDepth := by omega
  rw [hb]
  have hev : Ref.Eval (globalsOf st) env cs!"prelude" d
      (.ofList [symA cs!"list" m1, quoA cs!"test" m2, symA cs!"t" m3, quoA cs!"body" m4, symA cs!"body" m5])
      (.ok (.ofList [symA cs!"test" m2, tV, symA cs!"body" m4, f])) :=
    ev_prim (by omega) rfl (ev_global hd1 (by lk hE) hwl) hwlg rfl
      (.cons (ev_quoA hd1) (.cons (ev_global hd1 (by lk hE) ht) (.cons (ev_quoA hd1) (.cons (ev_local hd1 (by lk hE)) .nil)))) rfl
  obtain ⟨fuel, k, h⟩ := hlb.realise hev
  exact ⟨fuel, k, _, tV, htp, by simp only [Val.ofList, strip_cons, strip_symA, strip_symName, strip_nil], h⟩

/-- `(catch K f)` is the catcher `(test (= (get-property-safe 'kind *trapped-signal*) 'K) body f)` -/
theorem catch_expands (st : St) (hl : LoadedX st) (kind f : Val) (env : Val) (d : Nat)
    (hd : d + 8 ≤ Config.maxRecursionDepth)
    (henv : callEnv Prelude.catch_rest Prelude.catch_params [kind, f] = some env) :
    ∃ fuel k r,
      r.strip = (Val.ofList [.symName cs!"test",
                   Val.ofList [.symName cs!"=",
                     Val.ofList [.symName cs!"get-property-safe", Val.ofList [.symName cs!"quote", .symName cs!"kind"], .symName cs!"*trapped-signal*"],
                     Val.ofList [.symName cs!"quote", kind]],
                   .symName cs!"body", f]).strip ∧
      evalInternal fuel st Prelude.catch_body env cs!"prelude" d = (.ok r, bump st k) := by
  obtain ⟨p1, p2, hp⟩ := Prelude.catch_params_shape
  obtain ⟨m1, m2, m3, m4, m5, m6, m7, m8, m9, m10, m11, m12, m13, m14, m15, hb⟩ := Prelude.catch_body_shape
  have hlb := hl.base
  rw [hp, Prelude.catch_rest_eq] at henv
  have hE := callEnv2 henv
  obtain ⟨wl, hwl, hwlg⟩ := hlb.native .list (by decide)
  have hd1 : d + 1 ≤ Config.maxRecursionDepth := by omega
  have hd2 : d + 1 + 1 ≤ Config.maxRecursionDepth := by omega
  have hd3 : d + 1 + 1 + 1 ≤ Config.maxRecursionDepth := by omega
  have hd4 : d + 1 + 1 + 1 + 1 ≤ Config.maxRecursionDepth := by omega
  rw [hb]
  refine ex_reorder1 (.ofList [symA cs!"test" m2,
      .ofList [symA cs!"=" m4,
        .ofList [symA cs!"get-property-safe" m6, .ofList [symA cs!"quote" m8, symA cs!"kind" m9], symA cs!"*trapped-signal*" m10],
        .ofList [symA cs!"quote" m12, kind]],
      symA cs!"body" m14, f]) ?_ (hlb.realise ?_)
  · simp only [Val.ofList, strip_cons, strip_symA, strip_symName, strip_nil]
  · refine ev_prim (by omega) rfl (ev_global hd1 (by lk hE) hwl) hwlg rfl
      (.cons (ev_quoA hd1) (.cons ?_ (.cons (ev_quoA hd1) (.cons (ev_local hd1 (by lk hE)) .nil)))) rfl
    refine ev_prim hd1 rfl (ev_global hd2 (by lk hE) hwl) hwlg rfl (evs_three (ev_quoA hd2) ?_ ?_) rfl
    · refine ev_prim hd2 rfl (ev_global hd3 (by lk hE) hwl) hwlg rfl (evs_three (ev_quoA hd3) ?_ (ev_quoA hd3)) rfl
      exact ev_prim hd3 rfl (ev_global hd4 (by lk hE) hwl) hwlg rfl (evs_two (ev_quoA hd4) (ev_quoA hd4)) rfl
    · exact ev_prim hd2 rfl (ev_global hd3 (by lk hE) hwl) hwlg rfl (evs_two (ev_quoA hd3) (ev_local hd3 (by lk hE))) rfl

/-- a catcher as `catch` / `catch-all` produce it -/
def catcher (test body : Val) : Val := Val.ofList [.symName cs!"test", test, .symName cs!"body", body]

section helpers
open Pici.Ref

/-- the body of `map` on a list value with an arbitrary nil tail, from every later step count; the tail of the result is
the value of the global `nil` -/
theorem map_runs {st : St} (hl : Loaded st) (f : Val) (xs ys : List Val) (t : Val) (ht : t.isNil = true) (env : Val) (d : Nat)
    (hd : d + 14 ≤ Config.maxRecursionDepth) (hmap : MapsTo st f xs ys)
    (tail : Val) (htail : st.getGlobal cs!"nil" cs!"prelude" = .found tail) (htailp : tail.isNil = true)
    (henv : pairParamsAndArgs Prelude.map_rest Prelude.map_params .nil none [f, xs.foldr Val.cons t] = .ok env) :
    RunsJ st Prelude.map_body env cs!"prelude" d (.ok (ys.foldr Val.cons tail)) := by
  obtain ⟨p1, p2, hp⟩ := Prelude.map_params_shape
  obtain ⟨m1, m2, m3, m4, m5, hb⟩ := Prelude.map_body_shape
  obtain ⟨q1, q2, q3, hq⟩ := Prelude.f_map_params_shape
  have hE : env = .cons (.cons (symA cs!"things" p2) (xs.foldr Val.cons t)) (.cons (.cons (symA cs!"f" p1) f) .nil) := by
    rw [hp, Prelude.map_rest_eq, pair2] at henv
    exact (Res.ok.inj henv).symm
  obtain ⟨wf, hwf, hwfg⟩ := hl.prelude _ _ Prelude.f_map_mem
  have htail' : globalsOf st cs!"nil" cs!"prelude" = .found tail := htail
  have hs := hl.sees
  have hd1 : d + 1 ≤ Config.maxRecursionDepth := by omega
  have hd2 : d + 1 + 1 ≤ Config.maxRecursionDepth := by omega
  have hpair : pairParamsAndArgs Prelude.f_map_rest Prelude.f_map_params .nil none [f, xs.foldr Val.cons t, tail] =
      .ok (.cons (.cons (symA cs!"init" q3) tail) (.cons (.cons (symA cs!"things" q2) (xs.foldr Val.cons t))
        (.cons (.cons (symA cs!"f" q1) f) .nil))) := by
    rw [hq, Prelude.f_map_rest_eq, pair3]
  have hmapr := fmap_runs hl f (d + 1) (by omega) t ht xs ys hmap tail _ hpair
  rw [hb, ← List.reverse_reverse ys]
  refine call_reverse hl htailp (by omega) (by lk hE) tail htail ?_
  exact RunsJ.callClosure hl.detached hd1 (listToVec_ofList _) rfl
    (RunsJ.of_eval hs (ev_global hd2 (by lk hE) hwf)) (hwfg.trans Prelude.f_map_fn_eq)
    (RunsArgsJ.of_evalArgs hs (evs_three (ev_local hd2 (by lk hE)) (ev_local hd2 (by lk hE))
      (ev_global hd2 (by lk hE) htail')))
    hpair hmapr

end helpers

/-- `(try body c1 … cn)`, the catchers being `(test Ti body Bi)`, expands to
`(eval (trap body (case (T1 (B1 *trapped-signal*)) … (Tn (Bn *trapped-signal*)))))`: the body once inside the trap, the
tests in order, each handler applied to the trapped signal -/
theorem try_expands (st : St) (hl : LoadedX st) (body : Val) (cs : List (Val × Val)) (env : Val) (d : Nat)
    (hd : d + 24 ≤ Config.maxRecursionDepth)
    (henv : callEnv Prelude.try_rest Prelude.try_params (body :: cs.map fun (t, b) => catcher t b) = some env) :
    ∃ fuel k r,
      r.strip = (Val.ofList [.symName cs!"eval",
                   Val.ofList [.symName cs!"trap", body,
                     .cons (.symName cs!"case") (Val.ofList (cs.map fun (t, b) => Val.ofList [t, Val.ofList [b, .symName cs!"*trapped-signal*"]]))]]).strip ∧
      evalInternal fuel st Prelude.try_body env cs!"prelude" d = (.ok r, bump st k) := by
  obtain ⟨p1, hp⟩ := Prelude.try_params_shape
  obtain ⟨p2, hpr⟩ := Prelude.try_rest_shape
  obtain ⟨m1, m2, m3, m4, m5, m6, m7, m8, m9, m10, m11, m12, m13, m14, m15, m16, m17, m18, m19, m20, hb⟩ :=
    Prelude.try_body_shape
  obtain ⟨qm1, qm2, hqm⟩ := Prelude.map_params_shape
  have hlb := hl.base
  have hE : env = .cons (.cons (symA cs!"catchers" p2) (.ofList (cs.map fun (t, b) => catcher t b)))
      (.cons (.cons (symA cs!"body" p1) body) .nil) := by
    have := callEnv_ok henv
    rw [hp, hpr] at this
    simp [pairParamsAndArgs, listToVec_ofList, bindParams, Val.restParam?, symA] at this
    exact this.symm
  obtain ⟨wl, hwl, hwlg⟩ := hlb.native .list (by decide)
  obtain ⟨wcons, hwcons, hwconsg⟩ := hlb.native .cons (by decide)
  obtain ⟨wmap, hwmap, hwmapg⟩ := hlb.prelude _ _ Prelude.map_mem
  obtain ⟨wdot, hwdot, hwdotg⟩ := hl.nativesX .getProperty (by decide)
  obtain ⟨tail, htail, htailp⟩ := hlb.nil
  have hwdot' : globalsOf st cs!"." cs!"prelude" = .found wdot := hwdot
  have hatt := hlb.detached
  have hs := hlb.sees
  have hd0 : d ≤ Config.maxRecursionDepth := by omega
  have hd1 : d + 1 ≤ Config.maxRecursionDepth := by omega
  have hd2 : d + 1 + 1 ≤ Config.maxRecursionDepth := by omega
  have hd3 : d + 1 + 1 + 1 ≤ Config.maxRecursionDepth := by omega
  have hd4 : d + 1 + 1 + 1 + 1 ≤ Config.maxRecursionDepth := by omega
  -- the closure `(lambda (catcher) (list (. catcher 'test) (list (. catcher 'body) '*trapped-signal*)))`
  let bodyC : Val := .ofList [symA cs!"list" m11, .ofList [symA cs!"." m12, symA cs!"catcher" m13, quoA cs!"test" m14],
    .ofList [symA cs!"list" m15, .ofList [symA cs!"." m16, symA cs!"catcher" m17, quoA cs!"body" m18],
             quoA cs!"*trapped-signal*" m19]]
  let lamC : Val := .ofList [symA cs!"lambda" m9, .ofList [symA cs!"catcher" m10], bodyC]
  let cloC : Val := .fn .lambda .nil (.ofList [symA cs!"catcher" m10]) bodyC env cs!"prelude"
  have hcloC : makeFunctionInternal [.ofList [symA cs!"catcher" m10], bodyC] env cs!"prelude" cs!"lambda" .lambda = .ok cloC := rfl
  -- one call of the closure, on a catcher
  have hcall : ∀ t b, CallsTo st cloC [catcher t b] (.ofList [t, .ofList [b, symA cs!"*trapped-signal*" m19]]) := by
    intro t b
    refine callsTo_closure (f := cloC) rfl (pair1 _ _ _ _) fun dd hdd => ?_
    have hdd0 : dd ≤ Config.maxRecursionDepth := by omega
    have hdd1 : dd + 1 ≤ Config.maxRecursionDepth := by omega
    have hdd2 : dd + 1 + 1 ≤ Config.maxRecursionDepth := by omega
    have hdd3 : dd + 1 + 1 + 1 ≤ Config.maxRecursionDepth := by omega
    generalize hE1 : Val.cons (.cons (symA cs!"catcher" m10) (catcher t b)) env = env1
    have hE1' := hE1.symm
    refine RunsJ.callPrim hatt hdd0 (listToVec_ofList _) rfl (RunsJ.of_eval hs (ev_global hdd1 (by lk2 hE1' hE) hwl)) hwlg rfl
      (RunsArgsJ.cons ?_ (RunsArgsJ.cons ?_ (RunsArgsJ.nil _ _ _ _))) rfl
    · exact RunsJ.callNative hatt hdd1 (listToVec_ofList _) rfl (RunsJ.of_eval hs (ev_global hdd2 (by lk2 hE1' hE) hwdot'))
        hwdotg (by decide) (RunsArgsJ.of_evalArgs hs (evs_two (ev_local hdd2 (by lk hE1')) (ev_quoA hdd2)))
        (fun fuel j => applyNative_getProperty fuel _ _ _ _ [.symName cs!"test", t, .symName cs!"body", b] (.named cs!"test") t _
          (listToVec_ofList _) rfl rfl)
    · refine RunsJ.callPrim hatt hdd1 (listToVec_ofList _) rfl (RunsJ.of_eval hs (ev_global hdd2 (by lk2 hE1' hE) hwl)) hwlg rfl
        (RunsArgsJ.cons ?_ (RunsArgsJ.cons (RunsJ.of_eval hs (ev_quoA hdd2)) (RunsArgsJ.nil _ _ _ _))) rfl
      exact RunsJ.callNative hatt hdd2 (listToVec_ofList _) rfl (RunsJ.of_eval hs (ev_global hdd3 (by lk2 hE1' hE) hwdot'))
        hwdotg (by decide) (RunsArgsJ.of_evalArgs hs (evs_two (ev_local hdd3 (by lk hE1')) (ev_quoA hdd3)))
        (fun fuel j => applyNative_getProperty fuel _ _ _ _ [.symName cs!"test", t, .symName cs!"body", b] (.named cs!"body") b _
          (listToVec_ofList _) rfl rfl)
  have hmaps : ∀ l : List (Val × Val), MapsTo st cloC (l.map fun (t, b) => catcher t b)
      (l.map fun (t, b) => Val.ofList [t, .ofList [b, symA cs!"*trapped-signal*" m19]]) := by
    intro l
    induction l with
    | nil => exact .nil
    | cons tb l ih =>
      obtain ⟨t, b⟩ := tb
      exact .cons _ _ _ _ (hcall t b) ih
  -- `(map (lambda …) catchers)`, three levels down
  have hpairM : pairParamsAndArgs Prelude.map_rest Prelude.map_params .nil none
      [cloC, (cs.map fun (t, b) => catcher t b).foldr Val.cons .nil] =
      .ok (.cons (.cons (symA cs!"things" qm2) ((cs.map fun (t, b) => catcher t b).foldr Val.cons .nil))
        (.cons (.cons (symA cs!"f" qm1) cloC) .nil)) := by
    rw [hqm, Prelude.map_rest_eq, pair2]
  have hmapB := map_runs hlb cloC _ _ .nil rfl _ (d + 1 + 1 + 1) (by omega) (hmaps cs) tail htail htailp hpairM
  have hE' : env = .cons (.cons (symA cs!"catchers" p2) ((cs.map fun (t, b) => catcher t b).foldr Val.cons .nil))
      (.cons (.cons (symA cs!"body" p1) body) .nil) := by
    rw [← ofList_eq_foldr]; exact hE
  have hmapCall : RunsJ st (.ofList [symA cs!"map" m8, lamC, symA cs!"catchers" m20]) env cs!"prelude" (d + 1 + 1 + 1)
      (.ok ((cs.map fun (t, b) => Val.ofList [t, .ofList [b, symA cs!"*trapped-signal*" m19]]).foldr Val.cons tail)) :=
    RunsJ.callClosure hatt hd3 (listToVec_ofList _) rfl
      (RunsJ.of_eval hs (ev_global hd4 (by lk hE) hwmap)) (hwmapg.trans Prelude.map_fn_eq)
      (RunsArgsJ.of_evalArgs hs (evs_two (hcloC ▸ ev_lambda hd4) (ev_local hd4 (by lk hE'))))
      hpairM hmapB
  rw [hb]
  refine ex_reorder1 (.ofList [symA cs!"eval" m2, .ofList [symA cs!"trap" m4, body,
    .cons (symA cs!"case" m7)
      ((cs.map fun (t, b) => Val.ofList [t, .ofList [b, symA cs!"*trapped-signal*" m19]]).foldr Val.cons tail)]]) ?_ (realiseJ ?_)
  · simp only [Val.ofList, strip_cons, strip_symA, strip_symName, strip_nil, strip_foldr_cons _ _ htailp]
    simp only [strip_ofList, List.map_map]
    rfl
  · refine RunsJ.callPrim hatt hd0 (listToVec_ofList _) rfl (RunsJ.of_eval hs (ev_global hd1 (by lk hE) hwl)) hwlg rfl
      (RunsArgsJ.cons (RunsJ.of_eval hs (ev_quoA hd1)) (RunsArgsJ.cons ?_ (RunsArgsJ.nil _ _ _ _))) rfl
    refine RunsJ.callPrim hatt hd1 (listToVec_ofList _) rfl (RunsJ.of_eval hs (ev_global hd2 (by lk hE) hwl)) hwlg rfl
      (RunsArgsJ.cons (RunsJ.of_eval hs (ev_quoA hd2)) (RunsArgsJ.cons (RunsJ.of_eval hs (ev_local hd2 (by lk hE)))
        (RunsArgsJ.cons ?_ (RunsArgsJ.nil _ _ _ _)))) rfl
    exact RunsJ.callPrim hatt hd2 (listToVec_ofList _) rfl (RunsJ.of_eval hs (ev_global hd3 (by lk hE) hwcons)) hwconsg rfl
      (RunsArgsJ.cons (RunsJ.of_eval hs (ev_quoA hd3)) (RunsArgsJ.cons hmapCall (RunsArgsJ.nil _ _ _ _))) rfl

/-- `(apply f args)` expands to `((unrest f) args)` — which is the documented application only when `f` has a rest
parameter (known finding F20) -/
theorem apply_expands (st : St) (hl : LoadedX st) (f args : Val) (env : Val) (d : Nat)
    (hd : d + 8 ≤ Config.maxRecursionDepth)
    (henv : callEnv Prelude.apply_rest Prelude.apply_params [f, args] = some env) :
    ∃ fuel k r, r.strip = (Val.ofList [Val.ofList [.symName cs!"unrest", f], args]).strip ∧
      evalInternal fuel st Prelude.apply_body env cs!"prelude" d = (.ok r, bump st k) := by
  obtain ⟨p1, p2, hp⟩ := Prelude.apply_params_shape
  obtain ⟨m1, m2, m3, m4, m5, hb⟩ := Prelude.apply_body_shape
  have hlb := hl.base
  rw [hp, Prelude.apply_rest_eq] at henv
  have hE := callEnv2 henv
  obtain ⟨wl, hwl, hwlg⟩ := hlb.native .list (by decide)
  have hd1 : d + 1 ≤ Config.maxRecursionDepth := by omega
  have hd2 : d + 1 + 1 ≤ Config.maxRecursionDepth := by omega
  rw [hb]
  refine ex_reorder1 (.ofList [.ofList [symA cs!"unrest" m3, f], args]) ?_ (hlb.realise ?_)
  · simp only [Val.ofList, strip_cons, strip_symA, strip_symName, strip_nil]
  · exact ev_prim (by omega) rfl (ev_global hd1 (by lk hE) hwl) hwlg rfl
      (evs_two (ev_prim hd1 rfl (ev_global hd2 (by lk hE) hwl) hwlg rfl (evs_two (ev_quoA hd2) (ev_local hd2 (by lk hE))) rfl)
        (ev_local hd1 (by lk hE))) rfl

/-- 64-bit range -/
def fits (n : Int) : Prop := i64Min ≤ n ∧ n ≤ i64Max

section helpers
open Pici.Ref

/-- `arith_fold_runs` for any list variable in any environment: `(foldl op k v)` where `v` is bound to a list of numbers
and neither `foldl` nor the operator is shadowed -/
theorem arith_fold_runs' {st : St} (hl : Loaded st) (id : NativeId) (hid : id ∈ [NativeId.add, .multiply])
    (f : Int → Int → Int)
    (hprim : ∀ a b x y dd, a.get = .num x → b.get = .num y → inRange x = true → inRange y = true →
      inRange (f x y) = true → primResult id [a, b] dd = .ok (.num (f x y)))
    (k : Int) (m1 m2 m3 m4 : Meta) (v : Name) (env : Val) (args : List Val) (z : Val) (d : Nat)
    (hd : d + 3 ≤ Config.maxRecursionDepth)
    (hfoldl : lookupEnv (.named cs!"foldl") env = none) (hop : lookupEnv (.named id.name) env = none)
    (hv : lookupEnv (.named v) env = some (.ofList args))
    (hfold : FoldsVia (ArithCall f) (numA k m3) args z) :
    RunsJ st (.ofList [symA cs!"foldl" m1, symA id.name m2, numA k m3, symA v m4]) env cs!"prelude" d (.ok z) := by
  obtain ⟨q1, q2, q3, hq⟩ := Prelude.foldl_params_shape
  obtain ⟨wf, hwf, hwfg⟩ := hl.prelude _ _ Prelude.foldl_mem
  have hcore : corePrim id = true := by
    simp only [List.mem_cons, List.not_mem_nil, or_false] at hid
    rcases hid with rfl | rfl <;> rfl
  obtain ⟨wop, hwop, hwopg⟩ := hl.native id (by
    simp only [List.mem_cons, List.not_mem_nil, or_false] at hid
    rcases hid with rfl | rfl <;> decide)
  have hs := hl.sees
  have hd0 : d ≤ Config.maxRecursionDepth := by omega
  have hd1 : d + 1 ≤ Config.maxRecursionDepth := by omega
  have hcall : ∀ i x r, ArithCall f i x r → Applies st wop [i, x] r (d + 1) := by
    rintro i x r ⟨a, b, hi, hx, ha, hb, hr, rfl⟩ e env' home first operands hlv hsp _ hop hargs
    exact RunsJ.callPrim hl.detached hd1 hlv hsp hop hwopg hcore hargs (hprim i x a b _ hi hx ha hb hr)
  have hpair : pairParamsAndArgs Prelude.foldl_rest Prelude.foldl_params .nil none [wop, numA k m3, .ofList args] =
      .ok (.cons (.cons (symA cs!"things" q3) (.ofList args)) (.cons (.cons (symA cs!"init" q2) (numA k m3))
        (.cons (.cons (symA cs!"f" q1) wop) .nil))) := by
    rw [hq, Prelude.foldl_rest_eq, pair3]
  have hbody := foldl_via hl wop d hd _ hcall (numA k m3) args z hfold _ hpair
  exact RunsJ.callClosure hl.detached hd0 (listToVec_ofList _) rfl
    (RunsJ.of_eval hs (ev_global hd1 hfoldl hwf)) (hwfg.trans Prelude.foldl_fn_eq)
    (RunsArgsJ.of_evalArgs hs (evs_three (ev_global hd1 hop hwop) (ev_num hd1) (ev_local hd1 hv)))
    hpair hbody

/-- when all partial sums fit, so does the total -/
theorem sumsFit_total : ∀ (ns : List Int) (acc : Int), inRange acc = true → SumsFit acc ns → inRange (acc + ns.sum) = true := by
  intro ns
  induction ns with
  | nil => intro acc h _; simpa using h
  | cons n ns ih =>
    intro acc _ hfit
    obtain ⟨h1, h2, hfit'⟩ := hfit
    rw [List.sum_cons, ← Int.add_assoc]
    exact ih (acc + n) (inRange_of_bounds ⟨h1, h2⟩) hfit'

/-- when all partial products fit, so does the product -/
theorem prodsFit_total : ∀ (ns : List Int) (acc : Int), inRange acc = true → ProdsFit acc ns →
    inRange (ns.foldl (· * ·) acc) = true := by
  intro ns
  induction ns with
  | nil => intro acc h _; simpa using h
  | cons n ns ih =>
    intro acc _ hfit
    obtain ⟨h1, h2, hfit'⟩ := hfit
    rw [List.foldl_cons]
    exact ih (acc * n) (inRange_of_bounds ⟨h1, h2⟩) hfit'

end helpers

/-- `(-)` is 0, `(- a)` is the negation, `(- a b c …)` is a minus the sum of the others — whenever every intermediate
result the definition computes (the partial sums of the others, the final difference / product by -1) fits into 64 bits -/
theorem minus_spec (st : St) (hl : LoadedX st) (ns : List Int) (env : Val) (d : Nat)
    (hin : ∀ n ∈ ns, fits n)
    (hfit : match ns with
            | [] => True
            | [a] => fits (-a)
            | a :: rest => SumsFit 0 rest ∧ fits (a - rest.sum))
    (hd : d + 16 ≤ Config.maxRecursionDepth)
    (henv : callEnv PreludeX.f__rest PreludeX.f__params (ns.map Val.num) = some env) :
    ∃ fuel k r, r.get = .num (match ns with | [] => 0 | [a] => -a | a :: rest => a - rest.sum) ∧
      evalInternal fuel st PreludeX.f__body env cs!"prelude" d = (.ok r, bump st k) := by
  obtain ⟨p, hp⟩ := PreludeX.minus_rest_shape
  obtain ⟨m1, m2, m3, m4, m5, m6, m7, m8, m9, m10, m11, m12, m13, m14, m15, m16, m17, m18, m19, m20, m21, hb⟩ :=
    PreludeX.minus_body_shape
  have hlb := hl.base
  have hE : env = .cons (.cons (symA cs!"numbers" p) (.ofList (ns.map Val.num))) .nil := by
    have := callEnv_ok henv
    rw [hp, PreludeX.minus_params_eq, pairRest] at this
    exact (Res.ok.inj this).symm
  obtain ⟨wcar, hwcar, hwcarg⟩ := hlb.native .car (by decide)
  obtain ⟨wcdr, hwcdr, hwcdrg⟩ := hlb.native .cdr (by decide)
  obtain ⟨wsub, hwsub, hwsubg⟩ := hlb.native .substract (by decide)
  obtain ⟨wmul, hwmul, hwmulg⟩ := hlb.native .multiply (by decide)
  have hatt := hlb.detached
  have hs := hlb.sees
  have hd0 : d ≤ Config.maxRecursionDepth := by omega
  have hd1 : d + 1 ≤ Config.maxRecursionDepth := by omega
  have hd2 : d + 1 + 1 ≤ Config.maxRecursionDepth := by omega
  rw [hb]
  cases ns with
  | nil =>
    refine ex_reorder1 (numA 0 m21) rfl (hlb.realise ?_)
    exact ev_if_false hd0 (ev_local hd1 (by lk hE)) rfl (ev_num hd0)
  | cons a tl =>
    have ha : inRange a = true := inRange_of_bounds (hin a List.mem_cons_self)
    -- the forms and the closure
    let subForm : Val := .ofList [symA cs!"substract" m8, symA cs!"first" m9,
      .ofList [symA cs!"foldl" m10, symA cs!"add" m11, numA 0 m12, symA cs!"rest" m13]]
    let mulForm : Val := .ofList [symA cs!"multiply" m14, numA (-1) m15, symA cs!"first" m16]
    let ifForm : Val := .ofList [symA cs!"if" m6, symA cs!"rest" m7, subForm, mulForm]
    let lamForm : Val := .ofList [symA cs!"lambda" m3, .ofList [symA cs!"first" m4, symA cs!"rest" m5], ifForm]
    let clo : Val := .fn .lambda .nil (.ofList [symA cs!"first" m4, symA cs!"rest" m5]) ifForm env cs!"prelude"
    have hclo : makeFunctionInternal [.ofList [symA cs!"first" m4, symA cs!"rest" m5], ifForm] env cs!"prelude" cs!"lambda"
        .lambda = .ok clo := rfl
    generalize hE1 : Val.cons (.cons (symA cs!"rest" m5) (.ofList (tl.map Val.num)))
      (.cons (.cons (symA cs!"first" m4) (.num a)) env) = env1
    have hE1' := hE1.symm
    -- the call of the closure on `(car numbers)` and `(cdr numbers)`
    have hcallC : ∀ r, RunsJ st ifForm env1 cs!"prelude" d (.ok r) →
        RunsJ st (.ofList [symA cs!"if" m1, symA cs!"numbers" m2,
          .ofList [lamForm, .ofList [symA cs!"car" m17, symA cs!"numbers" m18], .ofList [symA cs!"cdr" m19, symA cs!"numbers" m20]],
          numA 0 m21]) env cs!"prelude" d (.ok r) := by
      intro r hr
      refine RunsJ.ifTrue hatt hd0 (RunsJ.of_eval hs (ev_local hd1 (by lk hE))) rfl ?_
      refine RunsJ.callClosure hatt (first := lamForm)
        (operands := [.ofList [symA cs!"car" m17, symA cs!"numbers" m18], .ofList [symA cs!"cdr" m19, symA cs!"numbers" m20]])
        (args := [.num a, .ofList (tl.map Val.num)]) hd0 rfl rfl
        (RunsJ.of_eval hs (hclo ▸ ev_lambda hd1)) rfl (RunsArgsJ.of_evalArgs hs (evs_two ?_ ?_)) (pair2 _ _ _ _ _ _) ?_
      · exact ev_prim hd1 rfl (ev_global hd2 (by lk hE) hwcar) hwcarg rfl (evs_one (ev_local hd2 (by lk hE)))
          (prim_car _ (.num a) _ _ rfl)
      · exact ev_prim hd1 rfl (ev_global hd2 (by lk hE) hwcdr) hwcdrg rfl (evs_one (ev_local hd2 (by lk hE)))
          (prim_cdr _ (.num a) _ _ rfl)
      · rw [hE1]; exact hr
    cases tl with
    | nil =>
      have hr : inRange (-1 * a) = true := by
        have : fits (-a) := hfit
        rw [Int.neg_one_mul]; exact inRange_of_bounds this
      refine ex_reorder1 (.num (-1 * a)) (by simp [Val.get]) (realiseJ (hcallC _ ?_))
      refine RunsJ.ifFalse hatt hd0 (RunsJ.of_eval hs (ev_local hd1 (by lk hE1'))) rfl ?_
      exact RunsJ.of_eval hs (ev_prim hd0 rfl (ev_global hd1 (by lk2 hE1' hE) hwmul) hwmulg rfl
        (evs_two (ev_num hd1) (ev_local hd1 (by lk hE1')))
        (prim_multiply _ _ (-1) a _ rfl rfl (by decide) ha hr))
    | cons b tl' =>
      obtain ⟨hsums, hdiff⟩ : SumsFit 0 (b :: tl') ∧ fits (a - (b :: tl').sum) := hfit
      have hin' : ∀ n ∈ b :: tl', i64Min ≤ n ∧ n ≤ i64Max := fun n hn => hin n (List.mem_cons_of_mem _ hn)
      obtain ⟨z, hz, hfold⟩ := foldsVia_add (b :: tl') 0 (numA 0 m12) rfl (by decide) hin' hsums
      have hzr : inRange (0 + (b :: tl').sum) = true := sumsFit_total _ 0 (by decide) hsums
      have hrr : inRange (a - (0 + (b :: tl').sum)) = true := by
        rw [Int.zero_add]; exact inRange_of_bounds hdiff
      refine ex_reorder1 (.num (a - (0 + (b :: tl').sum))) (by simp [Val.get]) (realiseJ (hcallC _ ?_))
      refine RunsJ.ifTrue hatt hd0 (RunsJ.of_eval hs (ev_local hd1 (by lk hE1'))) rfl ?_
      refine RunsJ.callPrim hatt hd0 (listToVec_ofList _) rfl (RunsJ.of_eval hs (ev_global hd1 (by lk2 hE1' hE) hwsub)) hwsubg rfl
        (RunsArgsJ.cons (RunsJ.of_eval hs (ev_local hd1 (by lk hE1'))) (RunsArgsJ.cons ?_ (RunsArgsJ.nil _ _ _ _)))
        (prim_substract _ _ a _ _ rfl hz ha hzr hrr)
      exact arith_fold_runs' hlb .add (by decide) (· + ·) (fun a b x y dd => prim_add a b x y dd) 0 m10 m11 m12 m13
        cs!"rest" env1 _ z (d + 1) (by omega) (by lk2 hE1' hE) (by lk2 hE1' hE) (by lk hE1') hfold

/-- `(/)` is 1, `(/ a)` is 1 divided by a, `(/ a b c …)` is a divided by the product of the others (integer division,
truncating) — whenever the partial products fit, no divisor is zero and the quotient fits -/
theorem slash_spec (st : St) (hl : LoadedX st) (ns : List Int) (env : Val) (d : Nat)
    (hin : ∀ n ∈ ns, fits n)
    (hfit : match ns with
            | [] => True
            | [a] => a ≠ 0
            | a :: rest => ProdsFit 1 rest ∧ rest.foldl (· * ·) 1 ≠ 0 ∧ fits (Int.tdiv a (rest.foldl (· * ·) 1)))
    (hd : d + 16 ≤ Config.maxRecursionDepth)
    (henv : callEnv PreludeX.slash_rest PreludeX.slash_params (ns.map Val.num) = some env) :
    ∃ fuel k r, r.get = .num (match ns with | [] => 1 | [a] => Int.tdiv 1 a | a :: rest => Int.tdiv a (rest.foldl (· * ·) 1)) ∧
      evalInternal fuel st PreludeX.slash_body env cs!"prelude" d = (.ok r, bump st k) := by
  obtain ⟨p, hp⟩ := PreludeX.slash_rest_shape
  obtain ⟨m1, m2, m3, m4, m5, m6, m7, m8, m9, m10, m11, m12, m13, m14, m15, m16, m17, m18, m19, m20, m21, hb⟩ :=
    PreludeX.slash_body_shape
  have hlb := hl.base
  have hE : env = .cons (.cons (symA cs!"numbers" p) (.ofList (ns.map Val.num))) .nil := by
    have := callEnv_ok henv
    rw [hp, PreludeX.slash_params_eq, pairRest] at this
    exact (Res.ok.inj this).symm
  obtain ⟨wcar, hwcar, hwcarg⟩ := hlb.native .car (by decide)
  obtain ⟨wcdr, hwcdr, hwcdrg⟩ := hlb.native .cdr (by decide)
  obtain ⟨wdiv, hwdiv, hwdivg⟩ := hl.nativesX .divide (by decide)
  have hwdiv' : globalsOf st cs!"divide" cs!"prelude" = .found wdiv := hwdiv
  have hatt := hlb.detached
  have hs := hlb.sees
  have hd0 : d ≤ Config.maxRecursionDepth := by omega
  have hd1 : d + 1 ≤ Config.maxRecursionDepth := by omega
  have hd2 : d + 1 + 1 ≤ Config.maxRecursionDepth := by omega
  rw [hb]
  cases ns with
  | nil =>
    refine ex_reorder1 (numA 1 m21) rfl (hlb.realise ?_)
    exact ev_if_false hd0 (ev_local hd1 (by lk hE)) rfl (ev_num hd0)
  | cons a tl =>
    have ha : inRange a = true := inRange_of_bounds (hin a List.mem_cons_self)
    -- the forms and the closure
    let divForm : Val := .ofList [symA cs!"divide" m8, symA cs!"first" m9,
      .ofList [symA cs!"foldl" m10, symA cs!"multiply" m11, numA 1 m12, symA cs!"rest" m13]]
    let invForm : Val := .ofList [symA cs!"divide" m14, numA 1 m15, symA cs!"first" m16]
    let ifForm : Val := .ofList [symA cs!"if" m6, symA cs!"rest" m7, divForm, invForm]
    let lamForm : Val := .ofList [symA cs!"lambda" m3, .ofList [symA cs!"first" m4, symA cs!"rest" m5], ifForm]
    let clo : Val := .fn .lambda .nil (.ofList [symA cs!"first" m4, symA cs!"rest" m5]) ifForm env cs!"prelude"
    have hclo : makeFunctionInternal [.ofList [symA cs!"first" m4, symA cs!"rest" m5], ifForm] env cs!"prelude" cs!"lambda"
        .lambda = .ok clo := rfl
    generalize hE1 : Val.cons (.cons (symA cs!"rest" m5) (.ofList (tl.map Val.num)))
      (.cons (.cons (symA cs!"first" m4) (.num a)) env) = env1
    have hE1' := hE1.symm
    -- the call of the closure on `(car numbers)` and `(cdr numbers)`
    have hcallC : ∀ r, RunsJ st ifForm env1 cs!"prelude" d (.ok r) →
        RunsJ st (.ofList [symA cs!"if" m1, symA cs!"numbers" m2,
          .ofList [lamForm, .ofList [symA cs!"car" m17, symA cs!"numbers" m18], .ofList [symA cs!"cdr" m19, symA cs!"numbers" m20]],
          numA 1 m21]) env cs!"prelude" d (.ok r) := by
      intro r hr
      refine RunsJ.ifTrue hatt hd0 (RunsJ.of_eval hs (ev_local hd1 (by lk hE))) rfl ?_
      refine RunsJ.callClosure hatt (first := lamForm)
        (operands := [.ofList [symA cs!"car" m17, symA cs!"numbers" m18], .ofList [symA cs!"cdr" m19, symA cs!"numbers" m20]])
        (args := [.num a, .ofList (tl.map Val.num)]) hd0 rfl rfl
        (RunsJ.of_eval hs (hclo ▸ ev_lambda hd1)) rfl (RunsArgsJ.of_evalArgs hs (evs_two ?_ ?_)) (pair2 _ _ _ _ _ _) ?_
      · exact ev_prim hd1 rfl (ev_global hd2 (by lk hE) hwcar) hwcarg rfl (evs_one (ev_local hd2 (by lk hE)))
          (prim_car _ (.num a) _ _ rfl)
      · exact ev_prim hd1 rfl (ev_global hd2 (by lk hE) hwcdr) hwcdrg rfl (evs_one (ev_local hd2 (by lk hE)))
          (prim_cdr _ (.num a) _ _ rfl)
      · rw [hE1]; exact hr
    cases tl with
    | nil =>
      have ha0 : a ≠ 0 := hfit
      have hr : inRange (Int.tdiv 1 a) = true := by
        rw [← Bool.not_eq_false, div_overflow_iff' 1 a (by decide) ha ha0]
        rintro ⟨h, _⟩
        exact absurd h (by decide)
      refine ex_reorder1 (.num (Int.tdiv 1 a)) (by simp [Val.get]) (realiseJ (hcallC _ ?_))
      refine RunsJ.ifFalse hatt hd0 (RunsJ.of_eval hs (ev_local hd1 (by lk hE1'))) rfl ?_
      exact RunsJ.of_eval hs (ev_prim hd0 rfl (ev_global hd1 (by lk2 hE1' hE) hwdiv') hwdivg rfl
        (evs_two (ev_num hd1) (ev_local hd1 (by lk hE1')))
        (prim_divide _ _ 1 a _ rfl rfl (by decide) ha ha0 hr))
    | cons b tl' =>
      obtain ⟨hprods, hne, hquot⟩ : ProdsFit 1 (b :: tl') ∧ (b :: tl').foldl (· * ·) 1 ≠ 0 ∧
        fits (Int.tdiv a ((b :: tl').foldl (· * ·) 1)) := hfit
      have hin' : ∀ n ∈ b :: tl', i64Min ≤ n ∧ n ≤ i64Max := fun n hn => hin n (List.mem_cons_of_mem _ hn)
      obtain ⟨z, hz, hfold⟩ := foldsVia_mul (b :: tl') 1 (numA 1 m12) rfl (by decide) hin' hprods
      have hzr : inRange ((b :: tl').foldl (· * ·) 1) = true := prodsFit_total _ 1 (by decide) hprods
      have hrr : inRange (Int.tdiv a ((b :: tl').foldl (· * ·) 1)) = true := inRange_of_bounds hquot
      refine ex_reorder1 (.num (Int.tdiv a ((b :: tl').foldl (· * ·) 1))) (by simp [Val.get]) (realiseJ (hcallC _ ?_))
      refine RunsJ.ifTrue hatt hd0 (RunsJ.of_eval hs (ev_local hd1 (by lk hE1'))) rfl ?_
      refine RunsJ.callPrim hatt hd0 (listToVec_ofList _) rfl (RunsJ.of_eval hs (ev_global hd1 (by lk2 hE1' hE) hwdiv')) hwdivg rfl
        (RunsArgsJ.cons (RunsJ.of_eval hs (ev_local hd1 (by lk hE1'))) (RunsArgsJ.cons ?_ (RunsArgsJ.nil _ _ _ _)))
        (prim_divide _ _ a _ _ rfl hz ha hzr hne hrr)
      exact arith_fold_runs' hlb .multiply (by decide) (· * ·) (fun a b x y dd => prim_multiply a b x y dd) 1 m10 m11 m12 m13
        cs!"rest" env1 _ z (d + 1) (by omega) (by lk2 hE1' hE) (by lk2 hE1' hE) (by lk hE1') hfold

/-- `(concat l1 … ln)` is the concatenation of the lists, in order (concat is not tail recursive: one level per list) -/
theorem concat_spec (st : St) (hl : LoadedX st) (ls : List (List Val)) (env : Val) (d : Nat)
    (hd : d + ls.length + 16 ≤ Config.maxRecursionDepth)
    (henv : callEnv PreludeX.concat_rest PreludeX.concat_params (ls.map Val.ofList) = some env) :
    ∃ fuel k r, r.strip = (Val.ofList ls.flatten).strip ∧
      evalInternal fuel st PreludeX.concat_body env cs!"prelude" d = (.ok r, bump st k) := by
  obtain ⟨p, hp⟩ := PreludeX.concat_rest_shape
  obtain ⟨m1, m2, m3, m4, m5, m6, m7, m8, m9, m10, m11, m12, m13, m14, m15, m16, m17, m18, hb⟩ := PreludeX.concat_body_shape
  have hlb := hl.base
  have hE : env = .cons (.cons (symA cs!"lists" p) (.ofList (ls.map Val.ofList))) .nil := by
    have := callEnv_ok henv
    rw [hp, PreludeX.concat_params_eq, pairRest] at this
    exact (Res.ok.inj this).symm
  obtain ⟨wcar, hwcar, hwcarg⟩ := hlb.native .car (by decide)
  obtain ⟨wcdr, hwcdr, hwcdrg⟩ := hlb.native .cdr (by decide)
  obtain ⟨wapp, hwapp, hwappg⟩ := hl.nativesX .append (by decide)
  obtain ⟨nilV, hnil, hnilp⟩ := hlb.nil
  have hwapp' : globalsOf st cs!"append" cs!"prelude" = .found wapp := hwapp
  have hatt := hlb.detached
  have hs := hlb.sees
  have hd0 : d ≤ Config.maxRecursionDepth := by omega
  have hd1 : d + 1 ≤ Config.maxRecursionDepth := by omega
  -- the forms and the two closures
  let ifForm : Val := .ofList [symA cs!"if" m9, symA cs!"xs" m10,
    .ofList [symA cs!"append" m11, .ofList [symA cs!"car" m12, symA cs!"xs" m13],
             .ofList [symA cs!"f" m14, symA cs!"f" m15, .ofList [symA cs!"cdr" m16, symA cs!"xs" m17]]],
    symA cs!"nil" m18]
  let lam2Form : Val := .ofList [symA cs!"lambda" m6, .ofList [symA cs!"f" m7, symA cs!"xs" m8], ifForm]
  let callForm : Val := .ofList [symA cs!"f" m3, symA cs!"f" m4, symA cs!"lists" m5]
  let lam1Form : Val := .ofList [symA cs!"lambda" m1, .ofList [symA cs!"f" m2], callForm]
  let clo2 : Val := .fn .lambda .nil (.ofList [symA cs!"f" m7, symA cs!"xs" m8]) ifForm env cs!"prelude"
  have hclo2 : makeFunctionInternal [.ofList [symA cs!"f" m7, symA cs!"xs" m8], ifForm] env cs!"prelude" cs!"lambda" .lambda =
      .ok clo2 := rfl
  let clo1 : Val := .fn .lambda .nil (.ofList [symA cs!"f" m2]) callForm env cs!"prelude"
  have hclo1 : makeFunctionInternal [.ofList [symA cs!"f" m2], callForm] env cs!"prelude" cs!"lambda" .lambda = .ok clo1 := rfl
  -- the recursion: `(if xs (append (car xs) (f f (cdr xs))) nil)` with `f` bound to the closure, one level per list
  have hrec : ∀ (l : List (List Val)) (dd : Nat), dd + l.length + 4 ≤ Config.maxRecursionDepth →
      ∃ r, r.strip = (Val.ofList l.flatten).strip ∧ listToVec r = some l.flatten ∧
        RunsJ st ifForm (.cons (.cons (symA cs!"xs" m8) (.ofList (l.map Val.ofList))) (.cons (.cons (symA cs!"f" m7) clo2) env))
          cs!"prelude" dd (.ok r) := by
    intro l
    induction l with
    | nil =>
      intro dd hdd
      generalize hE2 : Val.cons (.cons (symA cs!"xs" m8) (.ofList ([].map Val.ofList))) (.cons (.cons (symA cs!"f" m7) clo2) env) = env2
      have hE2' := hE2.symm
      refine ⟨nilV, strip_of_isNil hnilp, listToVec_foldr_cons [] nilV hnilp, ?_⟩
      exact RunsJ.of_eval hs (ev_if_false (by omega) (ev_local (by omega) (by lk hE2')) rfl
        (ev_global (by omega) (by lk2 hE2' hE) hnil))
    | cons x l ih =>
      intro dd hdd
      have hlen : (x :: l).length = l.length + 1 := rfl
      have hdd0 : dd ≤ Config.maxRecursionDepth := by omega
      have hdd1 : dd + 1 ≤ Config.maxRecursionDepth := by omega
      have hdd2 : dd + 1 + 1 ≤ Config.maxRecursionDepth := by omega
      have hdd3 : dd + 1 + 1 + 1 ≤ Config.maxRecursionDepth := by omega
      obtain ⟨r', _, hr'l, hr'⟩ := ih (dd + 1) (by omega)
      generalize hE2 : Val.cons (.cons (symA cs!"xs" m8) (.ofList ((x :: l).map Val.ofList)))
        (.cons (.cons (symA cs!"f" m7) clo2) env) = env2
      have hE2' := hE2.symm
      refine ⟨.ofList (x ++ l.flatten), by rw [List.flatten_cons], by rw [List.flatten_cons]; exact listToVec_ofList _, ?_⟩
      refine RunsJ.ifTrue hatt hdd0 (RunsJ.of_eval hs (ev_local hdd1 (by lk hE2'))) rfl ?_
      refine RunsJ.callNative hatt hdd0 (listToVec_ofList _) rfl (RunsJ.of_eval hs (ev_global hdd1 (by lk2 hE2' hE) hwapp'))
        hwappg (by decide)
        (RunsArgsJ.cons (RunsJ.of_eval hs ?_) (RunsArgsJ.cons ?_ (RunsArgsJ.nil _ _ _ _)))
        (fun fuel j => applyNative_append fuel _ _ _ _ x l.flatten _ (listToVec_ofList x) hr'l)
      · -- `(car xs)`
        exact ev_prim hdd1 rfl (ev_global hdd2 (by lk2 hE2' hE) hwcar) hwcarg rfl (evs_one (ev_local hdd2 (by lk hE2')))
          (prim_car _ (.ofList x) _ _ rfl)
      · -- `(f f (cdr xs))`, one level down
        refine RunsJ.callClosure hatt (args := [clo2, .ofList (l.map Val.ofList)]) hdd1 (listToVec_ofList _) rfl
          (RunsJ.of_eval hs (ev_local hdd2 (by lk hE2'))) rfl
          (RunsArgsJ.of_evalArgs hs (evs_two (ev_local hdd2 (by lk hE2')) ?_)) (pair2 _ _ _ _ _ _) hr'
        exact ev_prim hdd2 rfl (ev_global hdd3 (by lk2 hE2' hE) hwcdr) hwcdrg rfl (evs_one (ev_local hdd3 (by lk hE2')))
          (prim_cdr _ (.ofList x) _ _ rfl)
  obtain ⟨r, hrs, _, hrun⟩ := hrec ls d (by omega)
  generalize hE1 : Val.cons (.cons (symA cs!"f" m2) clo2) env = env1
  have hE1' := hE1.symm
  rw [hb]
  refine ex_reorder1 r hrs (realiseJ ?_)
  refine RunsJ.callClosure hatt (first := lam1Form) (operands := [lam2Form]) (args := [clo2]) hd0 rfl rfl
    (RunsJ.of_eval hs (hclo1 ▸ ev_lambda hd1)) rfl (RunsArgsJ.of_evalArgs hs (evs_one (hclo2 ▸ ev_lambda hd1)))
    (pair1 _ _ _ _) ?_
  rw [hE1]
  exact RunsJ.callClosure hatt (args := [clo2, .ofList (ls.map Val.ofList)]) hd0 (listToVec_ofList _) rfl
    (RunsJ.of_eval hs (ev_local hd1 (by lk hE1'))) rfl
    (RunsArgsJ.of_evalArgs hs (evs_two (ev_local hd1 (by lk hE1')) (ev_local hd1 (by lk2 hE1' hE)))) (pair2 _ _ _ _ _ _) hrun

/-! ### non-vacuity: the theorems apply to the example state of `Props/C16c.lean` -/

/-- `(let (x 1 y 2) b)` in `exStX` expands to `((lambda (x y) b) 1 2)` -/
example : ∃ fuel k r,
    r.strip = (Val.cons (Val.ofList [.symName cs!"lambda", Val.ofList [.symName cs!"x", .symName cs!"y"], .symName cs!"b"])
                        (Val.ofList [.num 1, .num 2])).strip ∧
    evalInternal fuel exStX Prelude.let_body
      (envOf Prelude.let_rest Prelude.let_params
        [Val.ofList (flatBindings [(.symName cs!"x", .num 1), (.symName cs!"y", .num 2)]), .symName cs!"b"])
      cs!"prelude" 0 = (.ok r, bump exStX k) :=
  let_expands exStX exStX_loaded [(.symName cs!"x", .num 1), (.symName cs!"y", .num 2)] (.symName cs!"b") _ 0
    (by decide) (by decide +kernel)

/-- `(try b (catch-all h1) (catch K h2))`, the catchers already expanded, in `exStX` expands to
`(eval (trap b (case (t1 (h1 *trapped-signal*)) (t2 (h2 *trapped-signal*)))))` -/
example : ∃ fuel k r,
    r.strip = (Val.ofList [.symName cs!"eval",
                 Val.ofList [.symName cs!"trap", .symName cs!"b",
                   .cons (.symName cs!"case") (Val.ofList [
                     Val.ofList [.symName cs!"t1", Val.ofList [.symName cs!"h1", .symName cs!"*trapped-signal*"]],
                     Val.ofList [.symName cs!"t2", Val.ofList [.symName cs!"h2", .symName cs!"*trapped-signal*"]]])]]).strip ∧
    evalInternal fuel exStX Prelude.try_body
      (envOf Prelude.try_rest Prelude.try_params
        (.symName cs!"b" :: [(Val.symName cs!"t1", Val.symName cs!"h1"), (Val.symName cs!"t2", Val.symName cs!"h2")].map
          fun (t, b) => catcher t b))
      cs!"prelude" 0 = (.ok r, bump exStX k) :=
  try_expands exStX exStX_loaded (.symName cs!"b") [(.symName cs!"t1", .symName cs!"h1"), (.symName cs!"t2", .symName cs!"h2")]
    _ 0 (by decide) (by decide +kernel)

/-- `(- 10 1 2 3)` in `exStX` is 4, `(- 5)` is -5 and `(-)` is 0 -/
example : ∃ fuel k r, r.get = .num 4 ∧
    evalInternal fuel exStX PreludeX.f__body (envOf PreludeX.f__rest PreludeX.f__params ([10, 1, 2, 3].map Val.num))
      cs!"prelude" 0 = (.ok r, bump exStX k) :=
  minus_spec exStX exStX_loaded [10, 1, 2, 3] _ 0 (by simp [fits, i64Min, i64Max])
    (by simp [SumsFit, fits, i64Min, i64Max]) (by decide) (by decide +kernel)

example : ∃ fuel k r, r.get = .num (-5) ∧
    evalInternal fuel exStX PreludeX.f__body (envOf PreludeX.f__rest PreludeX.f__params ([5].map Val.num))
      cs!"prelude" 0 = (.ok r, bump exStX k) :=
  minus_spec exStX exStX_loaded [5] _ 0 (by simp [fits, i64Min, i64Max]) (by simp [fits, i64Min, i64Max]) (by decide)
    (by decide +kernel)

/-- `(/ 100 2 5)` in `exStX` is 10, and `(/ -7 2)` is -3: the division truncates toward zero -/
example : ∃ fuel k r, r.get = .num 10 ∧
    evalInternal fuel exStX PreludeX.slash_body (envOf PreludeX.slash_rest PreludeX.slash_params ([100, 2, 5].map Val.num))
      cs!"prelude" 0 = (.ok r, bump exStX k) :=
  by
    have h := slash_spec exStX exStX_loaded [100, 2, 5]
      (envOf PreludeX.slash_rest PreludeX.slash_params ([100, 2, 5].map Val.num)) 0 (by simp [fits, i64Min, i64Max])
      (by refine ⟨by simp [ProdsFit, i64Min, i64Max], by decide, by unfold fits i64Min i64Max; decide⟩) (by decide)
      (by decide +kernel)
    exact h

example : ∃ fuel k r, r.get = .num (-3) ∧
    evalInternal fuel exStX PreludeX.slash_body (envOf PreludeX.slash_rest PreludeX.slash_params ([-7, 2].map Val.num))
      cs!"prelude" 0 = (.ok r, bump exStX k) :=
  by
    have h := slash_spec exStX exStX_loaded [-7, 2]
      (envOf PreludeX.slash_rest PreludeX.slash_params ([-7, 2].map Val.num)) 0 (by simp [fits, i64Min, i64Max])
      (by refine ⟨by simp [ProdsFit, i64Min, i64Max], by decide, by unfold fits i64Min i64Max; decide⟩) (by decide)
      (by decide +kernel)
    exact h

/-- `(concat '(1 2) '() '(3))` in `exStX` is `(1 2 3)` -/
example : ∃ fuel k r, r.strip = (Val.ofList [.num 1, .num 2, .num 3]).strip ∧
    evalInternal fuel exStX PreludeX.concat_body
      (envOf PreludeX.concat_rest PreludeX.concat_params ([[.num 1, .num 2], [], [.num 3]].map Val.ofList))
      cs!"prelude" 0 = (.ok r, bump exStX k) :=
  concat_spec exStX exStX_loaded [[.num 1, .num 2], [], [.num 3]] _ 0 (by decide) (by decide +kernel)

/-- `(throw a b)` in `exStX` expands to `(signal (list a b))` -/
example : ∃ fuel k r, r.strip = (Val.ofList [.symName cs!"signal", .cons (.symName cs!"list")
      (Val.ofList [.symName cs!"a", .symName cs!"b"])]).strip ∧
    evalInternal fuel exStX Prelude.throw_body
      (envOf Prelude.throw_rest Prelude.throw_params [.symName cs!"a", .symName cs!"b"]) cs!"prelude" 0 = (.ok r, bump exStX k) :=
  throw_expands exStX exStX_loaded [.symName cs!"a", .symName cs!"b"] _ 0 (by decide) (by decide +kernel)

end Pici.C16
