/-
C20 (continued) — SIGNALS: the stepping evaluator yields the same signal as the evaluator.

`Props/C20c.lean` covers the value outcomes of the core language.  Here: the signal outcomes that a well-formed program can
have — a signal raised by the `signal` primitive (a user signal, payload of any shape), an error raised by a core primitive
on its evaluated arguments (type errors, division by zero, overflow …), and the `abort` primitive — raised anywhere: in the
operator, in an operand (the first signalling operand wins), in the condition or the chosen branch of an `if`, in the body
of a called closure.  The stepping evaluator wraps every level in a trap that re-signals `*trapped-signal*`, so the payload
arrives unchanged (up to the representation of the empty list, `Sim`), and an abort stays an abort.
Not covered (listed finding F22): the errors of ILL-FORMED programs — wrong number of arguments, unbound variables, a
non-function in operator position — where the stepping evaluator raises different signals.
-/
import PiciModel.Props.C20c
import PiciModel.Lemmas.DebuggerSignalsApp

namespace Pici.C20
open Pici Pici.Ref

/-- the primitives that only raise: `signal` (its argument is the payload) and `abort` -/
def raises (id : NativeId) (args : List Val) : Option Val :=
  match id, args with
  | .signal, [v] => if v.isNil then none else some v
  | .abort, []   => some .nil
  | _, _         => none

mutual
/-- `Raises G env home e s h`: the reference semantics of the core language makes `e` end in the signal `s` (`s = nil`: the
abort), by a derivation of height at most `h`; sub-evaluations that finish normally are `EvalsF` derivations -/
inductive Raises (G : Globals) : Val → Name → Val → Val → Nat → Prop where
  /-- the condition of an `if` signals -/
  | ifCond {env home e first c t o s h} : listToVec e = some [first, c, t, o] →
      first.isSymNamed cs!"lambda" = false → first.isSymNamed cs!"quote" = false → first.isSymNamed cs!"if" = true →
      Raises G env home c s h → Raises G env home e s (h + 1)
  /-- the chosen branch signals -/
  | ifBranch {env home e first c t o cv s h} : listToVec e = some [first, c, t, o] →
      first.isSymNamed cs!"lambda" = false → first.isSymNamed cs!"quote" = false → first.isSymNamed cs!"if" = true →
      EvalsF G env home c cv h → Raises G env home (if !cv.isNil then t else o) s h → Raises G env home e s (h + 1)
  /-- the operator expression signals: the operands are not evaluated -/
  | operator {env home e first operands s h} : listToVec e = some (first :: operands) → isSpecialD first = false →
      (operands.length : Int) < i64Max →
      Raises G env home first s h → Raises G env home e s (h + 1)
  /-- an operand signals (the operator evaluated to a function): the first one that does wins -/
  | operand {env home e first operands f s h} : listToVec e = some (first :: operands) → isSpecialD first = false →
      (operands.length : Int) < i64Max →
      EvalsF G env home first f h → ((∃ k r p b fe m, f.get = .fn k r p b fe m) ∨ (∃ id, f.get = .native id)) →
      RaisesArgs G env home operands s h → Raises G env home e s (h + 1)
  /-- the body of the called closure signals -/
  | body {env home e first operands f k rest params body fenv fmod args newEnv s h} :
      listToVec e = some (first :: operands) → isSpecialD first = false →
      EvalsF G env home first f h → f.get = .fn k rest params body fenv fmod →
      EvalsFArgs G env home operands args h →
      pairParamsAndArgs rest params fenv (e.getMeta.map (·.readName)) args = .ok newEnv →
      Raises G newEnv fmod body s h →
      body.isNil = false → ((listToVec params).getD []).all (fun p => !p.isSymNamed cs!"&") = true →
      (operands.length : Int) < i64Max → Raises G env home e s (h + 1)
  /-- a core primitive raises an error on its evaluated arguments -/
  | prim {env home e first operands f id args s h d} :
      listToVec e = some (first :: operands) → isSpecialD first = false →
      EvalsF G env home first f h → f.get = .native id → corePrim id = true →
      EvalsFArgs G env home operands args h → primResult id args d = .err s →
      (operands.length : Int) < i64Max → Raises G env home e s (h + 1)
  /-- `(signal v)` / `(abort)` -/
  | raise {env home e first operands f id args s h} :
      listToVec e = some (first :: operands) → isSpecialD first = false →
      EvalsF G env home first f h → f.get = .native id →
      EvalsFArgs G env home operands args h → raises id args = some s →
      (operands.length : Int) < i64Max → Raises G env home e s (h + 1)
/-- the first operand that signals, the ones before it having values -/
inductive RaisesArgs (G : Globals) : Val → Name → List Val → Val → Nat → Prop where
  | here {env home x xs s h} : Raises G env home x s h → RaisesArgs G env home (x :: xs) s h
  | later {env home x xs v s h} : EvalsF G env home x v h → RaisesArgs G env home xs s h → RaisesArgs G env home (x :: xs) s h
end


section helpers
open Pici.Dbg Pici.DebuggerX

/-! #### the two primitives that only raise -/

theorem raises_cases {id : NativeId} {args : List Val} {s : Val} (h : raises id args = some s) :
    (id = .signal ∧ args = [s] ∧ s.isNil = false) ∨ (id = .abort ∧ args = [] ∧ s = .nil) := by
  unfold raises at h
  split at h
  · rename_i v
    split at h
    · cases h
    · rename_i hv
      cases h
      exact Or.inl ⟨rfl, rfl, by simpa using hv⟩
  · cases h; exact Or.inr ⟨rfl, rfl, rfl⟩
  · cases h

theorem applyNative_abort (fuel : Nat) (st : St) (env : Val) (d : Nat) :
    applyNative (fuel + 1) st .abort [] env d = (.err .nil, st) := by
  simp [applyNative, simpleNative, arity0]

/-! #### the operands, one by one -/

theorem evalsFArgs_sound (G : Globals) (env : Val) (home : Name) (h : Nat) :
    ∀ (xs vs : List Val) (d : Nat), EvalsFArgs G env home xs vs h → d + 1 + h ≤ Config.maxRecursionDepth →
      Ref.EvalArgs G env home d xs (.ok vs) := by
  intro xs
  induction xs with
  | nil => intro vs d hev _; cases hev; exact .nil
  | cons x xs ih =>
    intro vs d hev hd
    cases hev with
    | cons h1 h2 => exact .cons (evalsF_sound G env home x _ h (d + 1) h1 (by omega)) (ih _ d h2 hd)

variable {st : St}

theorem dei_of_evalsFArgs (hl : DLoaded st) {env : Val} {home : Name} {h : Nat} :
    ∀ (xs vs : List Val), EvalsFArgs (globalsOf st) env home xs vs h →
      ∀ env', Sim env env' → ∀ d, d + overhead h ≤ Config.maxRecursionDepth →
        ∃ vs', SimL vs vs' ∧ C16.MapsVia (DeiRuns st env' (.sym (.named home)) d) xs vs' := by
  intro xs
  induction xs with
  | nil => intro vs hev env' _ d _; cases hev; exact ⟨[], .nil, .nil⟩
  | cons x xs ih =>
    intro vs hev env' henv d hd
    cases hev with
    | cons h1 h2 =>
      obtain ⟨v', hv, hr⟩ := dei_of_evalsF hl h1 env' henv d hd
      obtain ⟨vs', hvs, hrs⟩ := ih _ h2 env' henv d hd
      exact ⟨v' :: vs', .cons hv hvs, .cons _ _ _ _ hr hrs⟩

/-! #### the evaluator -/

/-- every `Raises` derivation is realised by the evaluator, from every later step count -/
theorem runs_of_raises (hl : LoadedD st) {env : Val} {home : Name} {e s : Val} {h : Nat}
    (hev : Raises (globalsOf st) env home e s h) :
    ∀ d, d + h + 2 ≤ Config.maxRecursionDepth → RunsJ st e env home d (.err s) := by
  have hs : C05.Sees st (globalsOf st) := hl.base.sees
  have hatt := hl.base.detached
  apply Raises.rec (G := globalsOf st)
    (motive_1 := fun env home e s h _ => ∀ d, d + h + 2 ≤ Config.maxRecursionDepth → RunsJ st e env home d (.err s))
    (motive_2 := fun env home xs s h _ => ∀ d, d + 1 + h + 2 ≤ Config.maxRecursionDepth →
      RunsArgsJ st xs env home d (.err s))
    (t := hev)
  case ifCond =>
    intro env home e first c t o s h hlv hlam hq hif _ ih d hd
    exact RunsJ.ifErr hatt (by omega) hlv hlam hq hif (ih (d + 1) (by omega))
  case ifBranch =>
    intro env home e first c t o cv s h hlv hlam hq hif hc _ ih d hd
    exact RunsJ.ifOk hatt (by omega) hlv hlam hq hif
      (RunsJ.of_eval hs (evalsF_sound _ env home c cv h (d + 1) hc (by omega))) (ih d (by omega))
  case operator =>
    intro env home e first operands s h hlv hsp _ _ ih d hd
    exact RunsJ.operatorErr hatt (by omega) hlv (isSpecialD_false hsp).1 (ih (d + 1) (by omega))
  case operand =>
    intro env home e first operands f s h hlv hsp _ hfirst hf _ ih d hd
    exact RunsJ.operandErr hatt (by omega) hlv (isSpecialD_false hsp).1
      (RunsJ.of_eval hs (evalsF_sound _ env home first f h (d + 1) hfirst (by omega))) hf (ih d (by omega))
  case body =>
    intro env home e first operands f k rest params body fenv fmod args newEnv s h hlv hsp hfirst hf hargs hp _ _ _ _ ih d hd
    exact RunsJ.callClosure hatt (by omega) hlv (isSpecialD_false hsp).1
      (RunsJ.of_eval hs (evalsF_sound _ env home first f h (d + 1) hfirst (by omega))) hf
      (RunsArgsJ.of_evalArgs hs (evalsFArgs_sound _ env home h operands args d hargs (by omega))) hp (ih d (by omega))
  case prim =>
    intro env home e first operands f id args s h dp hlv hsp hfirst hf hc hargs hr _ d hd
    exact RunsJ.callPrim hatt (by omega) hlv (isSpecialD_false hsp).1
      (RunsJ.of_eval hs (evalsF_sound _ env home first f h (d + 1) hfirst (by omega))) hf hc
      (RunsArgsJ.of_evalArgs hs (evalsFArgs_sound _ env home h operands args d hargs (by omega)))
      (by rw [Dbg.primResult_depth id hc args (d + 1) dp, hr])
  case raise =>
    intro env home e first operands f id args s h hlv hsp hfirst hf hargs hr _ d hd
    have hop := RunsJ.of_eval hs (evalsF_sound _ env home first f h (d + 1) hfirst (by omega))
    have ha := RunsArgsJ.of_evalArgs hs (evalsFArgs_sound _ env home h operands args d hargs (by omega))
    rcases raises_cases hr with ⟨rfl, rfl, hnn⟩ | ⟨rfl, rfl, rfl⟩
    · exact RunsJ.callNativeRes hatt (by omega) hlv (isSpecialD_false hsp).1 hop hf (by decide) ha
        (fun fuel j => applyNative_signal fuel _ s env (d + 1) hnn)
    · exact RunsJ.callNativeRes hatt (by omega) hlv (isSpecialD_false hsp).1 hop hf (by decide) ha
        (fun fuel j => applyNative_abort fuel _ env (d + 1))
  case here =>
    intro env home x xs s h _ ih d hd
    exact RunsArgsJ.here (ih (d + 1) (by omega))
  case later =>
    intro env home x xs v s h hx _ ih d hd
    exact RunsArgsJ.later (RunsJ.of_eval hs (evalsF_sound _ env home x v h (d + 1) hx (by omega))) (ih d hd)

/-! #### the errors of the core primitives on related arguments -/

/-- outcomes that are the same up to the representation of the empty list -/
def RelRes : Res Val → Res Val → Prop
  | .ok v, .ok v'   => Sim v v'
  | .err s, .err s' => Sim s s'
  | .crash a, .crash b => a = b
  | .outOfFuel, .outOfFuel => True
  | _, _ => False

theorem RelRes.refl (r : Res Val) : RelRes r r := by
  cases r with
  | ok v => exact Sim.same v
  | err s => exact Sim.same s
  | crash a => rfl
  | outOfFuel => trivial

theorem getType_of_isNil {a : Val} (h : a.isNil = true) : a.getType = .nil := by
  rcases isNil_cases h with rfl | ⟨m, rfl⟩ <;> rfl

theorem Sim.getType_eq {a b : Val} (h : Sim a b) : a.getType = b.getType := by
  induction h with
  | same a => rfl
  | empty ha hb => rw [getType_of_isNil ha, getType_of_isNil hb]
  | cons _ _ _ _ => rfl
  | md _ _ _ ih => simpa [Val.getType] using ih
  | fn _ _ => rfl

theorem consTypeAux_of_isNil {a : Val} (h : a.isNil = true) (s : Bool) : consTypeAux a s = ⟨true, s⟩ := by
  rcases isNil_cases h with rfl | ⟨m, rfl⟩ <;> rfl

theorem Sim.consTypeAux_eq {a b : Val} (h : Sim a b) : ∀ s, consTypeAux a s = consTypeAux b s := by
  induction h with
  | same a => intro s; rfl
  | empty ha hb => intro s; rw [consTypeAux_of_isNil ha, consTypeAux_of_isNil hb]
  | cons ha _ _ ih => intro s; simp only [consTypeAux]; rw [ha.getType_eq]; exact ih _
  | @md v v' m hs h1 h2 ih =>
    intro s
    cases hs with
    | same a => rfl
    | empty ha hb => rw [ha] at h1; cases h1
    | cons ha hd => simpa [consTypeAux] using ih s
    | md _ _ _ => rfl
    | fn _ => rfl
  | fn _ _ => intro s; rfl

theorem Sim.extendedGetType_eq {a b : Val} (h : Sim a b) : extendedGetType a = extendedGetType b := by
  unfold extendedGetType consType
  rw [h.getType_eq, h.consTypeAux_eq]

theorem sim_wrongType (src : Name) {a b : Val} (h : Sim a b) (t : TypeLabel) : Sim (wrongType src a t) (wrongType src b t) := by
  unfold wrongType makeError plist
  rw [h.extendedGetType_eq]
  simp only [List.foldr]
  exact SimL.ofList (.cons (.same _) (.cons (.same _) (.cons (.same _) (.cons (.same _) (.cons (.same _) (.cons h
    (.cons (.same _) (.cons (.same _) (.cons (.same _) (.cons (.same _) .nil))))))))))

theorem relRes_arity1 {src : Name} {args args' : List Val} (ha : SimL args args') {k k' : Val → Res Val × St}
    (hk : ∀ x x', Sim x x' → RelRes (k x).1 (k' x').1) :
    RelRes (arity1 src args default k).1 (arity1 src args' default k').1 := by
  cases ha with
  | nil => exact Sim.same _
  | cons hx hr =>
    cases hr with
    | nil => exact hk _ _ hx
    | cons hy hr =>
      simp only [arity1, List.length_cons, hr.length_eq]
      exact Sim.same _

theorem relRes_arity2 {src : Name} {args args' : List Val} (ha : SimL args args') {k k' : Val → Val → Res Val × St}
    (hk : ∀ x x' y y', Sim x x' → Sim y y' → RelRes (k x y).1 (k' x' y').1) :
    RelRes (arity2 src args default k).1 (arity2 src args' default k').1 := by
  cases ha with
  | nil => exact Sim.same _
  | cons hx hr =>
    cases hr with
    | nil => exact Sim.same _
    | cons hy hr =>
      cases hr with
      | nil => exact hk _ _ _ _ hx hy
      | cons hz hr =>
        simp only [arity2, List.length_cons, hr.length_eq]
        exact Sim.same _

theorem asNumber_not_num {α : Type} (src : Name) (v : Val) (st : St) (k : Int → Res α × St) (h : ∀ n, v.get ≠ .num n) :
    asNumber src v st k = (.err (wrongType src v .number), st) := by
  unfold asNumber
  split
  · rename_i n hn; exact absurd hn (h n)
  · rfl

theorem relRes_asNumber {src : Name} {x x' : Val} (hx : Sim x x') {k k' : Int → Res Val × St}
    (hk : ∀ n, RelRes (k n).1 (k' n).1) :
    RelRes (asNumber src x default k).1 (asNumber src x' default k').1 := by
  by_cases hn : ∃ n, x.get = .num n
  · obtain ⟨n, hn⟩ := hn
    have hn' := hx.get_num hn
    simp only [asNumber, hn, hn']
    exact hk n
  · have h1 : ∀ n, x.get ≠ .num n := fun n h => hn ⟨n, h⟩
    have h2 : ∀ n, x'.get ≠ .num n := fun n h => hn ⟨n, hx.symm.get_num h⟩
    rw [asNumber_not_num src x _ _ h1, asNumber_not_num src x' _ _ h2]
    exact sim_wrongType src hx _

/-- the core primitives answer the same — value or error — up to the representation of the empty list on related
arguments -/
theorem relRes_primResult {id : NativeId} {args args' : List Val} {d : Nat} (hc : corePrim id = true)
    (ha : SimL args args') : RelRes (primResult id args d) (primResult id args' d) := by
  unfold primResult
  cases id <;> first | (exfalso; revert hc; decide) | skip
  case cons =>
    simp only [simpleNative]
    exact relRes_arity2 ha (fun x x' y y' hx hy => Sim.cons hx hy)
  case car =>
    simp only [simpleNative]
    refine relRes_arity1 ha (fun x x' hx => ?_)
    rcases hx.get_cases with ⟨a, b, a', b', h1, h2, h3, _⟩ | ⟨k, r, p, bd, e, e', m, h1, h2, _⟩ | ⟨h1, h2, _⟩
    · simp only [h1, h2]; exact h3
    · simp only [h1, h2]; exact sim_wrongType _ hx _
    · rw [← h1]
      cases hg : x.get with
      | cons u w => exact absurd hg (h2 u w)
      | _ => exact sim_wrongType _ hx _
  case cdr =>
    simp only [simpleNative]
    refine relRes_arity1 ha (fun x x' hx => ?_)
    rcases hx.get_cases with ⟨a, b, a', b', h1, h2, _, h4⟩ | ⟨k, r, p, bd, e, e', m, h1, h2, _⟩ | ⟨h1, h2, _⟩
    · simp only [h1, h2]; exact h4
    · simp only [h1, h2]; exact sim_wrongType _ hx _
    · rw [← h1]
      cases hg : x.get with
      | cons u w => exact absurd hg (h2 u w)
      | _ => exact sim_wrongType _ hx _
  case list =>
    simp only [simpleNative]
    exact ha.ofList
  case add =>
    simp only [simpleNative, arith]
    exact relRes_arity2 ha (fun x x' y y' hx hy => relRes_asNumber hx (fun a => relRes_asNumber hy (fun b => RelRes.refl _)))
  case substract =>
    simp only [simpleNative, arith]
    exact relRes_arity2 ha (fun x x' y y' hx hy => relRes_asNumber hx (fun a => relRes_asNumber hy (fun b => RelRes.refl _)))
  case multiply =>
    simp only [simpleNative, arith]
    exact relRes_arity2 ha (fun x x' y y' hx hy => relRes_asNumber hx (fun a => relRes_asNumber hy (fun b => RelRes.refl _)))
  case divide =>
    simp only [simpleNative, divideNative]
    exact relRes_arity2 ha (fun x x' y y' hx hy => relRes_asNumber hx (fun a => relRes_asNumber hy (fun b => RelRes.refl _)))
  case less =>
    simp only [simpleNative, compare]
    exact relRes_arity2 ha (fun x x' y y' hx hy => relRes_asNumber hx (fun a => relRes_asNumber hy (fun b => RelRes.refl _)))
  case greater =>
    simp only [simpleNative, compare]
    exact relRes_arity2 ha (fun x x' y y' hx hy => relRes_asNumber hx (fun a => relRes_asNumber hy (fun b => RelRes.refl _)))
  case equal =>
    simp only [simpleNative]
    refine relRes_arity2 ha (fun x x' y y' hx hy => ?_)
    show Sim _ _
    rw [(sim_equal_both x).1 x' y y' hx hy]
    exact .same _

/-- an error of a core primitive is not an abort -/
theorem primResult_err_not_nil {id : NativeId} {args : List Val} {d : Nat} {s : Val} (hc : corePrim id = true)
    (hr : primResult id args d = .err s) : s.isNil = false := by
  unfold primResult at hr
  have hsn : simpleNative id args d default = (.err s, (simpleNative id args d default).2) := by
    rw [← hr]
  rcases C08.native_errors_are_plists id args d default _ s hsn with h | ⟨_, _, h⟩ | ⟨hid, _⟩ | ⟨hid, _⟩ | ⟨hid, _⟩
  · exact C08.errorPlist_not_nil s h
  · exact h
  · subst hid; exact absurd hc (by decide)
  · subst hid; exact absurd hc (by decide)
  · subst hid; exact absurd hc (by decide)

/-! #### one run of `debug-eval-internal` per rule -/

/-- an `if` whose condition signals -/
theorem dei_if_cond_err (hl : DLoaded st) (e first c t o env mv s : Val) (d : Nat) (hd : d + 6 ≤ Config.maxRecursionDepth)
    (hgood : s = .nil ∨ s.isNil = false) (hlv : listToVec e = some [first, c, t, o])
    (hif : first.isSymNamed cs!"if" = true) (hc : DeiRunsR st env mv (d + 3) c (.err s)) :
    DeiRunsR st env mv d e (.err s) := by
  obtain ⟨ifs, clo, hifs, hspec, hlist⟩ := dei_list_err hl
  obtain ⟨ib, hib, hsel⟩ := ifs_if hl hifs
  obtain ⟨_, dd, he, hdd⟩ := listToVec_cons_inv hlv
  obtain ⟨_, d2, hd2, hdd2⟩ := listToVec_cons_inv hdd
  obtain ⟨_, d3, hd3, hdd3⟩ := listToVec_cons_inv hdd2
  obtain ⟨_, d4, hd4, _⟩ := listToVec_cons_inv hdd3
  refine hlist e first dd [c, t, o] env mv d s hlv (getType_of_isSymNamed hif) he (by omega) hgood ?_
  intro sv hsv a b c' q1 q2 q3 q4
  exact hsel _ first (d + 2) _ (by omega) (by lke) (by lke) (isSymNamed_unique hif (by decide)) hif
    (if_branch_cond_err hl hib hspec a b c' q1 q2 q3 q4 first dd e env mv sv c t o d2 d3 d4 s (d + 2) hsv (by omega)
      hd2 hd3 hd4 hc)

/-- an `if` whose chosen branch signals -/
theorem dei_if_branch_err (hl : DLoaded st) (e first c t o env mv cv s : Val) (d : Nat)
    (hd : d + 6 ≤ Config.maxRecursionDepth) (hgood : s = .nil ∨ s.isNil = false)
    (hlv : listToVec e = some [first, c, t, o]) (hif : first.isSymNamed cs!"if" = true)
    (hc : DeiRuns st env mv (d + 3) c cv) (hb : DeiRunsR st env mv (d + 2) (if !cv.isNil then t else o) (.err s)) :
    DeiRunsR st env mv d e (.err s) := by
  obtain ⟨ifs, clo, hifs, hspec, hlist⟩ := dei_list_err hl
  obtain ⟨ib, hib, hsel⟩ := ifs_if hl hifs
  obtain ⟨_, dd, he, hdd⟩ := listToVec_cons_inv hlv
  obtain ⟨_, d2, hd2, hdd2⟩ := listToVec_cons_inv hdd
  obtain ⟨_, d3, hd3, hdd3⟩ := listToVec_cons_inv hdd2
  obtain ⟨_, d4, hd4, _⟩ := listToVec_cons_inv hdd3
  refine hlist e first dd [c, t, o] env mv d s hlv (getType_of_isSymNamed hif) he (by omega) hgood ?_
  intro sv hsv a b c' q1 q2 q3 q4
  exact hsel _ first (d + 2) _ (by omega) (by lke) (by lke) (isSymNamed_unique hif (by decide)) hif
    (if_branch_r hl hib hspec a b c' q1 q2 q3 q4 first dd e env mv sv c t o d2 d3 d4 cv _ (d + 2) hsv (by omega)
      hd2 hd3 hd4 hc hb)

/-- an application one of whose elements — the operator or an operand — signals, the elements before it having values -/
theorem dei_elem_err (hl : DLoaded st) (e first env mv : Val) (operands pre : List Val) (x0 : Val) (post ys : List Val)
    (s : Val) (d : Nat) (hd : d + 19 ≤ Config.maxRecursionDepth) (hgood : s = .nil ∨ s.isNil = false)
    (hlv : listToVec e = some (first :: operands)) (hsp : isSpecialD first = false) (hchr : first.getType ≠ .character)
    (hlen : (operands.length : Int) < i64Max) (hsplit : first :: operands = pre ++ x0 :: post)
    (hall : C16.MapsVia (DeiRuns st env mv (d + 6)) pre ys) (herr : DeiRunsR st env mv (d + 6) x0 (.err s)) :
    DeiRunsR st env mv d e (.err s) := by
  obtain ⟨ifs, clo, hifs, hspec, hlist⟩ := dei_list_err hl
  obtain ⟨ab, hab, hsel⟩ := ifs_app hl hifs
  obtain ⟨_, dd, he, hdd⟩ := listToVec_cons_inv hlv
  obtain ⟨hs1, heval⟩ := isSpecialD_false hsp
  obtain ⟨hlam, hq, hif, htrap⟩ := isSpecial_false hs1
  refine hlist e first dd operands env mv d s hlv hchr he (by omega) hgood ?_
  intro sv hsv a b c q1 q2 q3 q4
  exact hsel _ first (d + 2) _ (by omega) (by lke) (by lke) hq hif heval htrap hlam
    (app_elem_err hl hab hspec a b c q1 q2 q3 q4 first dd e env mv sv pre x0 post ys s (d + 2) hsv (by omega)
      (hsplit ▸ hlv) (by rw [← hsplit]; simp only [List.length_cons]; omega) hall herr)

/-- an application whose operator evaluates to a closure the body of which signals -/
theorem dei_body_err (hl : DLoaded st) (e first env mv f : Val) (operands args : List Val) (k : Kind)
    (rest params body fenv : Val) (fmod : Name) (s : Val) (d : Nat) (hd : d + 19 ≤ Config.maxRecursionDepth)
    (hgood : s = .nil ∨ s.isNil = false)
    (tail : Val) (htail : st.getGlobal cs!"nil" cs!"prelude" = .found tail)
    (hlv : listToVec e = some (first :: operands)) (hsp : isSpecialD first = false) (hchr : first.getType ≠ .character)
    (hlen : (operands.length : Int) < i64Max)
    (hall : C16.MapsVia (DeiRuns st env mv (d + 6)) (first :: operands) (f :: args))
    (hf : f.get = .fn k rest params body fenv fmod) (hbody : body.isNil = false)
    (hamp : ∀ p ∈ (listToVec params).getD [], p.isSymNamed cs!"&" = false)
    (hlenp : ((listToVec params).getD []).length ≤ args.length)
    (hrun : DeiRunsR st (restEnv rest ((args.drop ((listToVec params).getD []).length).foldr Val.cons tail)
      (bindAll ((listToVec params).getD []) args fenv)) (.sym (.named fmod)) (d + 2) body (.err s)) :
    DeiRunsR st env mv d e (.err s) := by
  obtain ⟨ifs, clo, hifs, hspec, hlist⟩ := dei_list_err hl
  obtain ⟨ab, hab, hsel⟩ := ifs_app hl hifs
  obtain ⟨_, dd, he, hdd⟩ := listToVec_cons_inv hlv
  obtain ⟨hs1, heval⟩ := isSpecialD_false hsp
  obtain ⟨hlam, hq, hif, htrap⟩ := isSpecial_false hs1
  refine hlist e first dd operands env mv d s hlv hchr he (by omega) hgood ?_
  intro sv hsv a b c q1 q2 q3 q4
  exact hsel _ first (d + 2) _ (by omega) (by lke) (by lke) hq hif heval htrap hlam
    (app_closure_r hl hab hspec.toHadSpec a b c q1 q2 q3 q4 first dd e env mv sv (first :: operands) f args k rest params
      body fenv fmod _ (d + 2) tail htail hsv (by omega) hlv (by simp only [List.length_cons]; omega) hall hf hbody hamp
      hlenp hrun)

/-- an application whose operator evaluates to a native that signals on the values of the operands -/
theorem dei_native_err (hl : DLoaded st) (e first env mv f : Val) (operands args : List Val) (id : NativeId) (s : Val)
    (d : Nat) (hd : d + 19 ≤ Config.maxRecursionDepth) (hgood : s = .nil ∨ s.isNil = false)
    (hlv : listToVec e = some (first :: operands)) (hsp : isSpecialD first = false) (hchr : first.getType ≠ .character)
    (hlen : (operands.length : Int) < i64Max)
    (hall : C16.MapsVia (DeiRuns st env mv (d + 6)) (first :: operands) (f :: args))
    (hf : f.get = .native id)
    (hr : ∀ fuel j, applyNative (fuel + 1) (C05.bump st j) id args env (d + 2 + 1 + 1) = (.err s, C05.bump st j)) :
    DeiRunsR st env mv d e (.err s) := by
  obtain ⟨ifs, clo, hifs, hspec, hlist⟩ := dei_list_err hl
  obtain ⟨ab, hab, hsel⟩ := ifs_app hl hifs
  obtain ⟨_, dd, he, hdd⟩ := listToVec_cons_inv hlv
  obtain ⟨hs1, heval⟩ := isSpecialD_false hsp
  obtain ⟨hlam, hq, hif, htrap⟩ := isSpecial_false hs1
  refine hlist e first dd operands env mv d s hlv hchr he (by omega) hgood ?_
  intro sv hsv a b c q1 q2 q3 q4
  exact hsel _ first (d + 2) _ (by omega) (by lke) (by lke) hq hif heval htrap hlam
    (app_native_r hl hab hspec.toHadSpec a b c q1 q2 q3 q4 first dd e env mv sv (first :: operands) f args id _ (d + 2)
      hsv (by omega) hlv (by simp only [List.length_cons]; omega) hall hf hr)

/-! #### the induction -/

/-- the signal and its counterpart in the stepping evaluator: both the abort, or neither -/
def Good (s s' : Val) : Prop := (s = .nil ∧ s' = .nil) ∨ (s.isNil = false ∧ s'.isNil = false)

theorem Good.right {s s' : Val} (h : Good s s') : s' = .nil ∨ s'.isNil = false := by
  rcases h with ⟨_, h⟩ | ⟨_, h⟩
  · exact Or.inl h
  · exact Or.inr h

theorem Good.of_not_nil {s s' : Val} (hs : Sim s s') (h : s.isNil = false) : Good s s' :=
  Or.inr ⟨h, by rw [← hs.isNil_eq]; exact h⟩

/-- an expression that signals is an application (or an `if`): not a character -/
theorem raises_not_chr {G : Globals} {env : Val} {home : Name} {e s : Val} {h : Nat} (hev : Raises G env home e s h) :
    e.getType ≠ .character := by
  have key : ∀ x xs, listToVec e = some (x :: xs) → e.getType ≠ .character := by
    intro x xs hl hc
    obtain ⟨_, dd, hg, _⟩ := listToVec_cons_inv hl
    rw [getType_get, hg] at hc
    cases hc
  cases hev with
  | ifCond hl => exact key _ _ hl
  | ifBranch hl => exact key _ _ hl
  | operator hl => exact key _ _ hl
  | operand hl => exact key _ _ hl
  | body hl => exact key _ _ hl
  | prim hl => exact key _ _ hl
  | raise hl => exact key _ _ hl

/-- every `Raises` derivation is realised by the stepping evaluator up to the representation of the empty list, started
in any related environment, at every depth that leaves room for the overhead -/
theorem dei_of_raises (hl : DLoaded st) {env : Val} {home : Name} {e s : Val} {h : Nat}
    (hev : Raises (globalsOf st) env home e s h) :
    ∀ env', Sim env env' → ∀ d, d + overhead h ≤ Config.maxRecursionDepth →
      ∃ s', Sim s s' ∧ Good s s' ∧ DeiRunsR st env' (.sym (.named home)) d e (.err s') := by
  obtain ⟨tail, htail, htailp⟩ := hl.base.nil
  apply Raises.rec (G := globalsOf st)
    (motive_1 := fun env home e s h _ => ∀ env', Sim env env' → ∀ d, d + overhead h ≤ Config.maxRecursionDepth →
      ∃ s', Sim s s' ∧ Good s s' ∧ DeiRunsR st env' (.sym (.named home)) d e (.err s'))
    (motive_2 := fun env home xs s h _ => ∀ env', Sim env env' → ∀ d, d + overhead h ≤ Config.maxRecursionDepth →
      ∃ s' pre x0 post ys, Sim s s' ∧ Good s s' ∧ xs = pre ++ x0 :: post ∧
        C16.MapsVia (DeiRuns st env' (.sym (.named home)) d) pre ys ∧
        DeiRunsR st env' (.sym (.named home)) d x0 (.err s'))
    (t := hev)
  case ifCond =>
    intro env home e first c t o s h hlv _ _ hif _ ih env' henv d hd
    unfold overhead at hd
    obtain ⟨s', hs, hg, hc⟩ := ih env' henv (d + 3) (by unfold overhead; omega)
    exact ⟨s', hs, hg, dei_if_cond_err hl e first c t o env' _ s' d (by omega) hg.right hlv hif hc⟩
  case ifBranch =>
    intro env home e first c t o cv s h hlv _ _ hif hcev _ ih env' henv d hd
    unfold overhead at hd
    obtain ⟨cv', hcv, hc⟩ := dei_of_evalsF hl hcev env' henv (d + 3) (by unfold overhead; omega)
    obtain ⟨s', hs, hg, hb⟩ := ih env' henv (d + 2) (by unfold overhead; omega)
    rw [hcv.isNil_eq] at hb
    exact ⟨s', hs, hg, dei_if_branch_err hl e first c t o env' _ cv' s' d (by omega) hg.right hlv hif hc hb⟩
  case operator =>
    intro env home e first operands s h hlv hsp hlen hr ih env' henv d hd
    unfold overhead at hd
    obtain ⟨s', hs, hg, hrun⟩ := ih env' henv (d + 6) (by unfold overhead; omega)
    exact ⟨s', hs, hg, dei_elem_err hl e first env' _ operands [] first operands [] s' d (by omega) hg.right hlv hsp
      (raises_not_chr hr) hlen rfl .nil hrun⟩
  case operand =>
    intro env home e first operands f s h hlv hsp hlen hfirst hf _ ih env' henv d hd
    unfold overhead at hd
    obtain ⟨f', hff, hrunf⟩ := dei_of_evalsF hl hfirst env' henv (d + 6) (by unfold overhead; omega)
    obtain ⟨s', pre, x0, post, ys, hs, hg, hsplit, hall, herr⟩ := ih env' henv (d + 6) (by unfold overhead; omega)
    exact ⟨s', hs, hg, dei_elem_err hl e first env' _ operands (first :: pre) x0 post (f' :: ys) s' d (by omega) hg.right
      hlv hsp (operatorF_not_chr hfirst hf) hlen (by rw [hsplit]; rfl) (.cons _ _ _ _ hrunf hall) herr⟩
  case body =>
    intro env home e first operands f k rest params body fenv fmod args newEnv s h hlv hsp hfirst hf hargsev hp _
      hbody hamp hlen ih env' henv d hd
    unfold overhead at hd
    obtain ⟨f', hff, hrunf⟩ := dei_of_evalsF hl hfirst env' henv (d + 6) (by unfold overhead; omega)
    obtain ⟨args', hargs, hrunargs⟩ := dei_of_evalsFArgs hl operands args hargsev env' henv (d + 6)
      (by unfold overhead; omega)
    obtain ⟨fenv', hf', hfenv⟩ := hff.get_fn hf
    obtain ⟨hnew, hlenp⟩ := pair_is_restEnv rest params fenv _ args newEnv hp
    have hsim : Sim newEnv (restEnv rest ((args'.drop ((listToVec params).getD []).length).foldr Val.cons tail)
        (bindAll ((listToVec params).getD []) args' fenv')) := by
      rw [hnew]
      exact sim_restEnv rest ((hargs.drop _).ofList_foldr htailp) (sim_bindAll _ hargs hfenv)
    obtain ⟨s', hs, hg, hrunb⟩ := ih _ hsim (d + 2) (by unfold overhead; omega)
    exact ⟨s', hs, hg, dei_body_err hl e first env' _ f' operands args' k rest params body fenv' fmod s' d (by omega)
      hg.right tail htail hlv hsp (operatorF_not_chr hfirst (Or.inl ⟨_, _, _, _, _, _, hf⟩)) hlen
      (.cons _ _ _ _ hrunf hrunargs) hf' hbody
      (fun p hp => by simpa using List.all_eq_true.mp hamp p hp) (by rw [← hargs.length_eq]; exact hlenp) hrunb⟩
  case prim =>
    intro env home e first operands f id args s h dp hlv hsp hfirst hf hc hargsev hr hlen env' henv d hd
    unfold overhead at hd
    obtain ⟨f', hff, hrunf⟩ := dei_of_evalsF hl hfirst env' henv (d + 6) (by unfold overhead; omega)
    obtain ⟨args', hargs, hrunargs⟩ := dei_of_evalsFArgs hl operands args hargsev env' henv (d + 6)
      (by unfold overhead; omega)
    have hrel := relRes_primResult (d := dp) hc hargs
    rw [hr] at hrel
    cases hr' : primResult id args' dp with
    | err s' =>
      rw [hr'] at hrel
      have hs : Sim s s' := hrel
      have hg := Good.of_not_nil hs (primResult_err_not_nil hc hr)
      refine ⟨s', hs, hg, dei_native_err hl e first env' _ f' operands args' id s' d (by omega) hg.right hlv hsp
        (operatorF_not_chr hfirst (Or.inr ⟨_, hf⟩)) hlen (.cons _ _ _ _ hrunf hrunargs) (hff.get_native hf) ?_⟩
      intro fuel j
      rw [applyNative_corePrim fuel _ id args' env' _ hc, primResult_depth id hc args' _ dp, hr']
    | ok v => rw [hr'] at hrel; exact hrel.elim
    | crash c => rw [hr'] at hrel; exact hrel.elim
    | outOfFuel => rw [hr'] at hrel; exact hrel.elim
  case raise =>
    intro env home e first operands f id args s h hlv hsp hfirst hf hargsev hr hlen env' henv d hd
    unfold overhead at hd
    obtain ⟨f', hff, hrunf⟩ := dei_of_evalsF hl hfirst env' henv (d + 6) (by unfold overhead; omega)
    obtain ⟨args', hargs, hrunargs⟩ := dei_of_evalsFArgs hl operands args hargsev env' henv (d + 6)
      (by unfold overhead; omega)
    rcases raises_cases hr with ⟨rfl, rfl, hnn⟩ | ⟨rfl, rfl, rfl⟩
    · obtain ⟨s', rfl, hs⟩ := simL_one hargs
      have hg := Good.of_not_nil hs hnn
      refine ⟨s', hs, hg, dei_native_err hl e first env' _ f' operands [s'] .signal s' d (by omega) hg.right hlv hsp
        (operatorF_not_chr hfirst (Or.inr ⟨_, hf⟩)) hlen (.cons _ _ _ _ hrunf hrunargs) (hff.get_native hf) ?_⟩
      intro fuel j
      exact applyNative_signal fuel _ s' env' _ (by rw [← hs.isNil_eq]; exact hnn)
    · cases hargs
      refine ⟨.nil, .same _, Or.inl ⟨rfl, rfl⟩, dei_native_err hl e first env' _ f' operands [] .abort .nil d (by omega)
        (Or.inl rfl) hlv hsp (operatorF_not_chr hfirst (Or.inr ⟨_, hf⟩)) hlen (.cons _ _ _ _ hrunf hrunargs)
        (hff.get_native hf) ?_⟩
      intro fuel j
      exact applyNative_abort fuel _ env' _
  case here =>
    intro env home x xs s h _ ih env' henv d hd
    obtain ⟨s', hs, hg, hrun⟩ := ih env' henv d hd
    exact ⟨s', [], x, xs, [], hs, hg, rfl, .nil, hrun⟩
  case later =>
    intro env home x xs v s h hx _ ih env' henv d hd
    obtain ⟨v', hv, hrunx⟩ := dei_of_evalsF hl hx env' henv d hd
    obtain ⟨s', pre, x0, post, ys, hs, hg, hsplit, hall, herr⟩ := ih env' henv d hd
    exact ⟨s', x :: pre, x0, post, v' :: ys, hs, hg, by rw [hsplit]; rfl, .cons _ _ _ _ hrunx hall, herr⟩

end helpers

/-- the evaluator itself ends in that signal (tie to the model evaluator: the `Raises` rules describe what `evalInternal`
does), for a detached state -/
theorem raises_sound (st : St) (hl : LoadedD st) (env : Val) (home : Name) (e s : Val) (h d : Nat)
    (hev : Raises (globalsOf st) env home e s h) (hd : d + h + 2 ≤ Config.maxRecursionDepth) :
    ∃ fuel k, evalInternal fuel st e env home d = (.err s, C16.bump st k) :=
  (runs_of_raises hl hev d hd).at_zero

/-- THE THEOREM for signals: the stepping evaluator (detached, stepping over), started in an environment that is the same
up to the representation of the empty list, ends in the same signal up to the representation of the empty list; an abort
(`s = nil`) stays an abort -/
theorem debug_eval_internal_signals (st : St) (hl : LoadedD st) (env env' : Val) (home : Name) (e s : Val) (h d : Nat)
    (hev : Raises (globalsOf st) env home e s h) (henvs : Sim env env')
    (hd : d + overhead h ≤ Config.maxRecursionDepth) (dbgEnv : Val)
    (henv : C16.callEnv DebuggerX.debug_eval_internal_rest DebuggerX.debug_eval_internal_params
              [e, env', .sym (.named home), .nil] = some dbgEnv) :
    ∃ fuel k s', Sim s s' ∧ (s.isNil = true → s' = .nil) ∧
      evalInternal fuel st DebuggerX.debug_eval_internal_body dbgEnv cs!"debugger" d = (.err s', C16.bump st k) := by
  obtain ⟨p1, p2, p3, p4, hq⟩ := DebuggerX.debug_eval_internal_params_shape
  have hE := C16.callEnv_ok henv
  rw [hq, DebuggerX.debug_eval_internal_rest_eq, Dbg.pair4] at hE
  cases hE
  obtain ⟨s', hs, hg, hrun⟩ := dei_of_raises hl.toD hev env' henvs d hd
  obtain ⟨fuel, k, hk⟩ := (hrun p1 p2 p3 p4 .nil rfl).at_zero
  refine ⟨fuel, k, s', hs, fun hnil => ?_, hk⟩
  rcases hg with ⟨_, h⟩ | ⟨h, _⟩
  · exact h
  · rw [h] at hnil; cases hnil

/-- corollary: the evaluator and the stepping evaluator end in the same signal up to the representation of the empty
list, and an abort is an abort in both -/
theorem debugger_signals_with_eval (st : St) (hl : LoadedD st) (env : Val) (home : Name) (e s : Val) (h d : Nat)
    (hev : Raises (globalsOf st) env home e s h)
    (hd : d + overhead h ≤ Config.maxRecursionDepth) (dbgEnv : Val)
    (henv : C16.callEnv DebuggerX.debug_eval_internal_rest DebuggerX.debug_eval_internal_params
              [e, env, .sym (.named home), .nil] = some dbgEnv) :
    (∃ fuel k, evalInternal fuel st e env home d = (.err s, C16.bump st k)) ∧
    (∃ fuel k s', Sim s s' ∧ (s.isNil = true → s' = .nil) ∧
      evalInternal fuel st DebuggerX.debug_eval_internal_body dbgEnv cs!"debugger" d = (.err s', C16.bump st k)) :=
  ⟨raises_sound st hl env home e s h d hev (by unfold overhead at hd; omega),
   debug_eval_internal_signals st hl env env home e s h d hev (.same _) hd dbgEnv henv⟩

/-! ### non-vacuity -/

theorem exStD_global (name : Name) (v : Val)
    (h : (match exStD.getGlobal name cs!"prelude" with | .found w => w == v | _ => false) = true) :
    globalsOf exStD name cs!"prelude" = .found v := by
  obtain ⟨w, hw, hp⟩ := C16.found_of_check (l := exStD.getGlobal name cs!"prelude") (P := fun w => w == v) h
  rw [← eq_of_beq hp]; exact hw

theorem exStM_global (name : Name) (v : Val)
    (h : (match exStM.getGlobal name cs!"prelude" with | .found w => w == v | _ => false) = true) :
    globalsOf exStM name cs!"prelude" = .found v := by
  obtain ⟨w, hw, hp⟩ := C16.found_of_check (l := exStM.getGlobal name cs!"prelude") (P := fun w => w == v) h
  rw [← eq_of_beq hp]; exact hw

theorem evalsF_num {G : Globals} {env : Val} {home : Name} (n : Int) (h : Nat) : EvalsF G env home (.num n) (.num n) h :=
  .selfEval rfl (fun _ _ h => by cases h) (fun _ _ h => by cases h) (fun _ h => by cases h)

/-- `((lambda (x) (signal (list 'kind x))) 5)`: a user signal raised in the body of a called closure -/
def sigProgram : Val :=
  .ofList [.ofList [.symName cs!"lambda", .ofList [.symName cs!"x"],
      .ofList [.symName cs!"signal", .ofList [.symName cs!"list", .ofList [.symName cs!"quote", .symName cs!"kind"],
        .symName cs!"x"]]],
    .num 5]

/-- its payload `(kind 5)` -/
def sigPayload : Val := .ofList [.symName cs!"kind", .num 5]

theorem sigProgram_raises (G : Globals) (hsig : G cs!"signal" cs!"prelude" = .found (.native .signal))
    (hlist : G cs!"list" cs!"prelude" = .found (.native .list)) :
    Raises G .nil cs!"prelude" sigProgram sigPayload 3 := by
  refine Raises.body (first := .ofList [.symName cs!"lambda", .ofList [.symName cs!"x"],
      .ofList [.symName cs!"signal", .ofList [.symName cs!"list", .ofList [.symName cs!"quote", .symName cs!"kind"],
        .symName cs!"x"]]])
    (operands := [.num 5]) (args := [.num 5]) (k := .lambda) (rest := .nil) (params := .ofList [.symName cs!"x"])
    (fenv := .nil) (fmod := cs!"prelude") (newEnv := .cons (.cons (.symName cs!"x") (.num 5)) .nil) rfl rfl
    (EvalsF.lambda (first := .symName cs!"lambda") rfl rfl rfl) rfl (.cons (evalsF_num 5 2) .nil) rfl ?_ rfl rfl (by decide)
  refine Raises.raise (first := .symName cs!"signal")
    (operands := [.ofList [.symName cs!"list", .ofList [.symName cs!"quote", .symName cs!"kind"], .symName cs!"x"]])
    (args := [sigPayload]) (id := .signal) rfl rfl
    (EvalsF.varGlobal (s := .named cs!"signal") rfl rfl rfl hsig rfl) rfl (.cons ?_ .nil) rfl (by decide)
  exact EvalsF.callPrim (first := .symName cs!"list")
    (operands := [.ofList [.symName cs!"quote", .symName cs!"kind"], .symName cs!"x"])
    (args := [.symName cs!"kind", .num 5]) (id := .list) (d := 0) rfl rfl
    (EvalsF.varGlobal (s := .named cs!"list") rfl rfl rfl hlist rfl) rfl rfl
    (.cons (EvalsF.quote (first := .symName cs!"quote") rfl rfl rfl)
      (.cons (EvalsF.varLocal (s := .named cs!"x") rfl rfl rfl rfl) .nil)) rfl (by decide)

/-- `(car 5)`: an error of a core primitive -/
def carProgram : Val := .ofList [.symName cs!"car", .num 5]

/-- the error plist `(kind wrong-argument-type source car argument-value 5 expected conscell-type actual number-type)` -/
def carError : Val := wrongType cs!"car" (.num 5) .cons

theorem carProgram_raises (G : Globals) (hcar : G cs!"car" cs!"prelude" = .found (.native .car)) :
    Raises G .nil cs!"prelude" carProgram carError 1 :=
  Raises.prim (first := .symName cs!"car") (operands := [.num 5]) (args := [.num 5]) (id := .car) (d := 0) rfl rfl
    (EvalsF.varGlobal (s := .named cs!"car") rfl rfl rfl hcar rfl) rfl rfl (.cons (evalsF_num 5 0) .nil) rfl (by decide)

/-- `(if (abort) 1 2)`: the abort, raised in the condition of an `if` -/
def abortProgram : Val := .ofList [.symName cs!"if", .ofList [.symName cs!"abort"], .num 1, .num 2]

theorem abortProgram_raises (G : Globals) (habort : G cs!"abort" cs!"prelude" = .found (.native .abort)) :
    Raises G .nil cs!"prelude" abortProgram .nil 2 :=
  Raises.ifCond (first := .symName cs!"if") (c := .ofList [.symName cs!"abort"]) (t := .num 1) (o := .num 2) rfl rfl rfl rfl
    (Raises.raise (first := .symName cs!"abort") (operands := []) (args := []) (id := .abort) rfl rfl
      (EvalsF.varGlobal (s := .named cs!"abort") rfl rfl rfl habort rfl) rfl .nil rfl (by decide))

/-- `(cons 1 (signal 'second-operand))`: a signal raised in the second operand -/
def operandProgram : Val :=
  .ofList [.symName cs!"cons", .num 1, .ofList [.symName cs!"signal", .ofList [.symName cs!"quote", .symName cs!"second-operand"]]]

theorem operandProgram_raises (G : Globals) (hcons : G cs!"cons" cs!"prelude" = .found (.native .cons))
    (hsig : G cs!"signal" cs!"prelude" = .found (.native .signal)) :
    Raises G .nil cs!"prelude" operandProgram (.symName cs!"second-operand") 2 :=
  Raises.operand (first := .symName cs!"cons")
    (operands := [.num 1, .ofList [.symName cs!"signal", .ofList [.symName cs!"quote", .symName cs!"second-operand"]]])
    rfl rfl (by decide) (EvalsF.varGlobal (s := .named cs!"cons") rfl rfl rfl hcons rfl) (Or.inr ⟨_, rfl⟩)
    (.later (evalsF_num 1 1) (.here
      (Raises.raise (first := .symName cs!"signal") (operands := [.ofList [.symName cs!"quote", .symName cs!"second-operand"]])
        (args := [.symName cs!"second-operand"]) (id := .signal) rfl rfl
        (EvalsF.varGlobal (s := .named cs!"signal") rfl rfl rfl hsig rfl) rfl
        (.cons (EvalsF.quote (first := .symName cs!"quote") rfl rfl rfl) .nil) rfl (by decide))))

theorem exStD_signal : globalsOf exStD cs!"signal" cs!"prelude" = .found (.native .signal) :=
  exStD_global _ _ (by decide +kernel)
theorem exStD_list : globalsOf exStD cs!"list" cs!"prelude" = .found (.native .list) := exStD_global _ _ (by decide +kernel)
theorem exStD_car : globalsOf exStD cs!"car" cs!"prelude" = .found (.native .car) := exStD_global _ _ (by decide +kernel)
theorem exStD_abort : globalsOf exStD cs!"abort" cs!"prelude" = .found (.native .abort) := exStD_global _ _ (by decide +kernel)
theorem exStD_cons : globalsOf exStD cs!"cons" cs!"prelude" = .found (.native .cons) := exStD_global _ _ (by decide +kernel)
theorem exStM_abort : globalsOf exStM cs!"abort" cs!"prelude" = .found (.native .abort) := exStM_global _ _ (by decide +kernel)
theorem exStM_signal : globalsOf exStM cs!"signal" cs!"prelude" = .found (.native .signal) :=
  exStM_global _ _ (by decide +kernel)
theorem exStM_list : globalsOf exStM cs!"list" cs!"prelude" = .found (.native .list) := exStM_global _ _ (by decide +kernel)

/-- the theorems apply: evaluator and stepping evaluator both end in the signal `(kind 5)` … -/
example :
    (∃ fuel k, evalInternal fuel exStD sigProgram .nil cs!"prelude" 0 = (.err sigPayload, C16.bump exStD k)) ∧
    (∃ fuel k s', Sim sigPayload s' ∧ (sigPayload.isNil = true → s' = .nil) ∧
      evalInternal fuel exStD DebuggerX.debug_eval_internal_body (dbgEnvOf sigProgram) cs!"debugger" 0 =
        (.err s', C16.bump exStD k)) :=
  debugger_signals_with_eval exStD exStD_loaded .nil cs!"prelude" sigProgram _ 3 0
    (sigProgram_raises _ exStD_signal exStD_list) (by decide) _ (by decide +kernel)

/-- … also in the state in which `nil` is bound as `define` binds it … -/
example :
    (∃ fuel k, evalInternal fuel exStM sigProgram .nil cs!"prelude" 0 = (.err sigPayload, C16.bump exStM k)) ∧
    (∃ fuel k s', Sim sigPayload s' ∧ (sigPayload.isNil = true → s' = .nil) ∧
      evalInternal fuel exStM DebuggerX.debug_eval_internal_body (dbgEnvOf sigProgram) cs!"debugger" 0 =
        (.err s', C16.bump exStM k)) :=
  debugger_signals_with_eval exStM exStM_loaded .nil cs!"prelude" sigProgram _ 3 0
    (sigProgram_raises _ exStM_signal exStM_list) (by decide) _ (by decide +kernel)

/-- … in the error of `(car 5)` … -/
example :
    (∃ fuel k, evalInternal fuel exStD carProgram .nil cs!"prelude" 0 = (.err carError, C16.bump exStD k)) ∧
    (∃ fuel k s', Sim carError s' ∧ (carError.isNil = true → s' = .nil) ∧
      evalInternal fuel exStD DebuggerX.debug_eval_internal_body (dbgEnvOf carProgram) cs!"debugger" 0 =
        (.err s', C16.bump exStD k)) :=
  debugger_signals_with_eval exStD exStD_loaded .nil cs!"prelude" carProgram _ 1 0
    (carProgram_raises _ exStD_car) (by decide) _ (by decide +kernel)

/-- … in the abort (the stepping evaluator's signal is exactly `nil`: no trap on the way intercepts it) … -/
example :
    (∃ fuel k, evalInternal fuel exStD abortProgram .nil cs!"prelude" 0 = (.err .nil, C16.bump exStD k)) ∧
    (∃ fuel k, evalInternal fuel exStD DebuggerX.debug_eval_internal_body (dbgEnvOf abortProgram) cs!"debugger" 0 =
        (.err .nil, C16.bump exStD k)) := by
  obtain ⟨h1, fuel, k, s', _, hnil, h2⟩ := debugger_signals_with_eval exStD exStD_loaded .nil cs!"prelude" abortProgram _ 2 0
    (abortProgram_raises _ exStD_abort) (by decide) _ (by decide +kernel : C16.callEnv _ _ _ = some (dbgEnvOf abortProgram))
  exact ⟨h1, fuel, k, by rw [← hnil rfl]; exact h2⟩

example :
    (∃ fuel k, evalInternal fuel exStM abortProgram .nil cs!"prelude" 0 = (.err .nil, C16.bump exStM k)) ∧
    (∃ fuel k, evalInternal fuel exStM DebuggerX.debug_eval_internal_body (dbgEnvOf abortProgram) cs!"debugger" 0 =
        (.err .nil, C16.bump exStM k)) := by
  obtain ⟨h1, fuel, k, s', _, hnil, h2⟩ := debugger_signals_with_eval exStM exStM_loaded .nil cs!"prelude" abortProgram _ 2 0
    (abortProgram_raises _ exStM_abort) (by decide) _ (by decide +kernel : C16.callEnv _ _ _ = some (dbgEnvOf abortProgram))
  exact ⟨h1, fuel, k, by rw [← hnil rfl]; exact h2⟩

/-- … and in the signal of the second operand -/
example :
    (∃ fuel k, evalInternal fuel exStD operandProgram .nil cs!"prelude" 0 =
      (.err (.symName cs!"second-operand"), C16.bump exStD k)) ∧
    (∃ fuel k s', Sim (.symName cs!"second-operand") s' ∧ ((Val.symName cs!"second-operand").isNil = true → s' = .nil) ∧
      evalInternal fuel exStD DebuggerX.debug_eval_internal_body (dbgEnvOf operandProgram) cs!"debugger" 0 =
        (.err s', C16.bump exStD k)) :=
  debugger_signals_with_eval exStD exStD_loaded .nil cs!"prelude" operandProgram _ 2 0
    (operandProgram_raises _ exStD_cons exStD_signal) (by decide) _ (by decide +kernel)

/-- what the two evaluators actually return (checked by evaluation), in `exStD` and in `exStM`: the same signals -/
def signalsAs (st : St) (prog expected : Val) : Bool :=
  (match (evalInternal 100 st prog .nil cs!"prelude" 0).1 with | .err v => v == expected | _ => false) &&
  (match (evalInternal 600 st DebuggerX.debug_eval_internal_body (dbgEnvOf prog) cs!"debugger" 0).1 with
   | .err v => v == expected | _ => false)

example : signalsAs exStD sigProgram sigPayload = true := by decide +kernel
example : signalsAs exStM sigProgram sigPayload = true := by decide +kernel
example : signalsAs exStD carProgram carError = true := by decide +kernel
example : signalsAs exStM carProgram carError = true := by decide +kernel
example : signalsAs exStD abortProgram .nil = true := by decide +kernel
example : signalsAs exStM abortProgram .nil = true := by decide +kernel
example : signalsAs exStD operandProgram (.symName cs!"second-operand") = true := by decide +kernel
example : signalsAs exStM operandProgram (.symName cs!"second-operand") = true := by decide +kernel

/-- the side condition of `raises` on `signal`: `(signal nil)` does not raise `nil` (that would be an abort) but an
ordinary error plist (`C08.signal_nil_is_error`), in both evaluators -/
example : signalsAs exStD (.ofList [.symName cs!"signal", .symName cs!"nil"])
    (makeError cs!"wrong-argument-type" cs!"signal" [(cs!"argument-value", .nil),
      (cs!"expected", .symName cs!"any-non-nil-type"), (cs!"actual", .symName cs!"nil-type")]) = true := by decide +kernel

end Pici.C20
