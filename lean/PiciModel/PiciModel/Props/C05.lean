/-
C05 — Core evaluation: call-by-value, left-to-right, lexical scope, exact arity.

The evaluator model (`Model/Eval.lean`, mirroring `eval_internal` of `src/native/eval/mod.rs`) realises every
derivation of the reference big-step semantics of the core language (`Spec/RefEval.lean`): whatever value or signal the
reference rules assign to a program, the evaluator computes — given enough fuel — exactly that value or signal, and
leaves the interpreter state unchanged up to its step counter.
-/
import PiciModel.Spec.RefEval
import PiciModel.Lemmas.FuelMono
import PiciModel.Lemmas.RefSteps

namespace Pici.C05
open Pici Pici.Ref

/-- the state after `k` more passes through the evaluator loop head: nothing else changes while core programs run -/
def bump (st : St) (k : Nat) : St := { st with steps := st.steps + k }

/-- an interpreter state as core programs see it: no debugger attached, its globals given by `G`, its current module in the table -/
structure Sees (st : St) (G : Globals) : Prop where
  detached : st.attached = false
  globals  : ∀ name home, st.getGlobal name home = G name home
  current  : HasModule st st.current

section helpers

theorem bump_zero (st : St) : bump st 0 = st := rfl

theorem bump_bump (st : St) (a b : Nat) : bump (bump st a) b = bump st (a + b) := by
  simp [bump, Nat.add_assoc]

/-- the step counter is invisible to core programs -/
theorem Sees.bump {st : St} {G : Globals} (hs : Sees st G) (k : Nat) : Sees (bump st k) G :=
  ⟨hs.detached, hs.globals, hs.current⟩

theorem poll_sees {st : St} {G : Globals} (hs : Sees st G) : pollDebugger st = (none, bump st 1) := by
  simp [pollDebugger, hs.detached, bump]

theorem lookup_local {st : St} {s : Sym} {env : Val} {home : Name} {v : Val} (h : lookupEnv s env = some v) :
    lookup st s env home = .found v := by
  simp [lookup, h]

theorem lookup_global {st : St} {G : Globals} (hs : Sees st G) {s : Sym} {env : Val} {home : Name}
    (h : lookupEnv s env = none) : lookup st s env home = G s.globalName home := by
  simp [lookup, h, hs.globals]

/-- with enough fuel the evaluator answers `r` and only counts steps -/
def Runs (st : St) (e env : Val) (home : Name) (d : Nat) (r : Res Val) : Prop :=
  ∃ F k, ∀ n, F ≤ n → evalInternal n st e env home d = (r, bump st k)

def RunsArgs (st : St) (xs : List Val) (env : Val) (home : Name) (d : Nat) (r : Res (List Val)) : Prop :=
  ∃ F k, ∀ n, F ≤ n → evalArgs n st xs env home d = (r, bump st k)

theorem Runs.step {st : St} {e env : Val} {home : Name} {d : Nat} {r : Res Val} (F k : Nat)
    (h : ∀ n, F ≤ n → evalInternal (n + 1) st e env home d = (r, bump st k)) : Runs st e env home d r := by
  refine ⟨F + 1, k, fun n hn => ?_⟩
  obtain ⟨m, rfl⟩ : ∃ m, n = m + 1 := ⟨n - 1, by omega⟩
  exact h m (by omega)

theorem RunsArgs.step {st : St} {xs : List Val} {env : Val} {home : Name} {d : Nat} {r : Res (List Val)} (F k : Nat)
    (h : ∀ n, F ≤ n → evalArgs (n + 1) st xs env home d = (r, bump st k)) : RunsArgs st xs env home d r := by
  refine ⟨F + 1, k, fun n hn => ?_⟩
  obtain ⟨m, rfl⟩ : ∃ m, n = m + 1 := ⟨n - 1, by omega⟩
  exact h m (by omega)

/-! the four rules for operand lists -/

theorem runsArgs_nil (st : St) (env : Val) (home : Name) (d : Nat) : RunsArgs st [] env home d (.ok []) :=
  RunsArgs.step 0 0 fun n _ => step_args_nil n st env home d

theorem runsArgs_cons {G : Globals} {env : Val} {home : Name} {d : Nat} {x : Val} {xs : List Val} {v : Val} {vs : List Val}
    (ih1 : ∀ st, Sees st G → Runs st x env home (d + 1) (.ok v))
    (ih2 : ∀ st, Sees st G → RunsArgs st xs env home d (.ok vs)) (st : St) (hs : Sees st G) :
    RunsArgs st (x :: xs) env home d (.ok (v :: vs)) := by
  obtain ⟨F1, k1, h1⟩ := ih1 st hs
  obtain ⟨F2, k2, h2⟩ := ih2 (bump st k1) (hs.bump k1)
  refine RunsArgs.step (F1 + F2) (k1 + k2) fun n hn => ?_
  rw [step_args_cons n st _ _ x xs env home d v vs (h1 n (by omega)) (h2 n (by omega)), bump_bump]

theorem runsArgs_here {G : Globals} {env : Val} {home : Name} {d : Nat} {x : Val} {xs : List Val} {s : Val}
    (ih1 : ∀ st, Sees st G → Runs st x env home (d + 1) (.err s)) (st : St) (hs : Sees st G) :
    RunsArgs st (x :: xs) env home d (.err s) := by
  obtain ⟨F1, k1, h1⟩ := ih1 st hs
  exact RunsArgs.step F1 k1 fun n hn => step_args_here n st _ x xs env home d s (h1 n hn)

theorem runsArgs_later {G : Globals} {env : Val} {home : Name} {d : Nat} {x : Val} {xs : List Val} {v s : Val}
    (ih1 : ∀ st, Sees st G → Runs st x env home (d + 1) (.ok v))
    (ih2 : ∀ st, Sees st G → RunsArgs st xs env home d (.err s)) (st : St) (hs : Sees st G) :
    RunsArgs st (x :: xs) env home d (.err s) := by
  obtain ⟨F1, k1, h1⟩ := ih1 st hs
  obtain ⟨F2, k2, h2⟩ := ih2 (bump st k1) (hs.bump k1)
  refine RunsArgs.step (F1 + F2) (k1 + k2) fun n hn => ?_
  rw [step_args_later n st _ _ x xs env home d v s (h1 n (by omega)) (h2 n (by omega)), bump_bump]

/-- every derivation of the reference semantics is realised, for every sufficiently large fuel -/
theorem eval_runs {G : Globals} {env : Val} {home : Name} {d : Nat} {e : Val} {r : Res Val}
    (h : Eval G env home d e r) : ∀ st, Sees st G → Runs st e env home d r := by
  apply Eval.rec (motive_1 := fun env home d e r _ => ∀ st, Sees st G → Runs st e env home d r)
    (motive_2 := fun env home d xs r _ => ∀ st, Sees st G → RunsArgs st xs env home d r) (t := h)
  case overflow =>
    intro env home d e hd st hs
    exact Runs.step 0 0 fun n _ => by rw [evalInternal, if_pos hd]; rfl
  case emptyList =>
    intro env home d e hd hl st hs
    exact Runs.step 0 1 fun n _ => step_emptyList n st _ e env home d hd (poll_sees hs) hl
  case selfEval =>
    intro env home d e hd hl h1 h2 h3 st hs
    exact Runs.step 0 1 fun n _ => step_selfEval n st _ e env home d hd (poll_sees hs) hl h1 h2 h3
  case varLocal =>
    intro env home d e s v hd hl hg hlk st hs
    refine Runs.step 0 1 fun n _ => ?_
    rw [step_sym n st _ e env home d hd (poll_sees hs) s hl hg, lookup_local hlk]
  case varGlobal =>
    intro env home d e s v hd hl hg hlk hG st hs
    refine Runs.step 0 1 fun n _ => ?_
    rw [step_sym n st _ e env home d hd (poll_sees hs) s hl hg, lookup_global (hs.bump 1) hlk, hG]
  case varUnbound =>
    intro env home d e s hd hl hg hlk hG st hs
    refine Runs.step 0 1 fun n _ => ?_
    rw [step_sym n st _ e env home d hd (poll_sees hs) s hl hg, lookup_global (hs.bump 1) hlk, hG]
  case varAmbiguous =>
    intro env home d e s ms hd hl hg hlk hG st hs
    refine Runs.step 0 1 fun n _ => ?_
    rw [step_sym n st _ e env home d hd (poll_sees hs) s hl hg, lookup_global (hs.bump 1) hlk, hG]
  case lambda =>
    intro env home d e first operands hd hl hlam st hs
    exact Runs.step 0 1 fun n _ => step_lambda n st _ e env home d hd (poll_sees hs) first operands hl hlam
  case quote =>
    intro env home d e first x hd hl hlam hq st hs
    exact Runs.step 0 1 fun n _ => step_quote n st _ e env home d hd (poll_sees hs) first x hl hlam hq
  case quoteArity =>
    intro env home d e first operands hd hl hlam hq hlen st hs
    exact Runs.step 0 1 fun n _ => step_quoteArity n st _ e env home d hd (poll_sees hs) first operands hl hlam hq hlen
  case ifBranch =>
    intro env home d e first c t o v r hd hl hlam hq hif _ _ ih1 ih2 st hs
    obtain ⟨F1, k1, h1⟩ := ih1 (bump st 1) (hs.bump 1)
    obtain ⟨F2, k2, h2⟩ := ih2 (bump (bump st 1) k1) ((hs.bump 1).bump k1)
    refine Runs.step (F1 + F2) (1 + k1 + k2) fun n hn => ?_
    rw [step_ifOk n st _ e env home d hd (poll_sees hs) first c t o _ v hl hlam hq hif (h1 n (by omega)),
      h2 n (by omega)]
    simp only [bump_bump, Nat.add_assoc]
  case ifSignal =>
    intro env home d e first c t o s hd hl hlam hq hif _ ih1 st hs
    obtain ⟨F1, k1, h1⟩ := ih1 (bump st 1) (hs.bump 1)
    refine Runs.step F1 (1 + k1) fun n hn => ?_
    rw [step_ifErr n st _ e env home d hd (poll_sees hs) first c t o _ s hl hlam hq hif (h1 n hn), bump_bump]
  case ifArity =>
    intro env home d e first operands hd hl hlam hq hif hlen st hs
    exact Runs.step 0 1 fun n _ => step_ifArity n st _ e env home d hd (poll_sees hs) first operands hl hlam hq hif hlen
  case operatorSignal =>
    intro env home d e first operands s hd hl hsp _ ih1 st hs
    obtain ⟨F1, k1, h1⟩ := ih1 (bump st 1) (hs.bump 1)
    refine Runs.step F1 (1 + k1) fun n hn => ?_
    rw [step_operatorErr n st _ e env home d hd (poll_sees hs) first operands _ s hl hsp (h1 n hn), bump_bump]
  case badOperator =>
    intro env home d e first operands f hd hl hsp _ hfn hnat ih1 st hs
    obtain ⟨F1, k1, h1⟩ := ih1 (bump st 1) (hs.bump 1)
    refine Runs.step F1 (1 + k1) fun n hn => ?_
    rw [step_badOperator n st _ e env home d hd (poll_sees hs) first operands _ f hl hsp (h1 n hn) hfn hnat, bump_bump]
  case operandSignal =>
    intro env home d e first operands f s hd hl hsp _ hf _ ih1 ih2 st hs
    obtain ⟨F1, k1, h1⟩ := ih1 (bump st 1) (hs.bump 1)
    obtain ⟨F2, k2, h2⟩ := ih2 (bump (bump st 1) k1) ((hs.bump 1).bump k1)
    refine Runs.step (F1 + F2) (1 + k1 + k2) fun n hn => ?_
    rw [step_operandErr n st _ e env home d hd (poll_sees hs) first operands _ _ f s hl hsp (h1 n (by omega)) hf
      (h2 n (by omega))]
    simp only [bump_bump, Nat.add_assoc]
  case callClosure =>
    intro env home d e first operands f k rest params body fenv fmod args newEnv r hd hl hsp _ hf _ hpair _ ih1 ih2 ih3 st hs
    obtain ⟨F1, k1, h1⟩ := ih1 (bump st 1) (hs.bump 1)
    obtain ⟨F2, k2, h2⟩ := ih2 (bump (bump st 1) k1) ((hs.bump 1).bump k1)
    obtain ⟨F3, k3, h3⟩ := ih3 (bump (bump (bump st 1) k1) k2) (((hs.bump 1).bump k1).bump k2)
    refine Runs.step (F1 + F2 + F3) (1 + k1 + k2 + k3) fun n hn => ?_
    rw [step_callClosure n st _ e env home d hd (poll_sees hs) first operands _ _ f k rest params body fenv fmod args newEnv
      hl hsp (h1 n (by omega)) hf (h2 n (by omega)) hpair, h3 n (by omega)]
    simp only [bump_bump, Nat.add_assoc]
  case callArity =>
    intro env home d e first operands f k rest params body fenv fmod args s hd hl hsp _ hf _ hpair ih1 ih2 st hs
    obtain ⟨F1, k1, h1⟩ := ih1 (bump st 1) (hs.bump 1)
    obtain ⟨F2, k2, h2⟩ := ih2 (bump (bump st 1) k1) ((hs.bump 1).bump k1)
    refine Runs.step (F1 + F2) (1 + k1 + k2) fun n hn => ?_
    rw [step_callArity n st _ e env home d hd (poll_sees hs) first operands _ _ f k rest params body fenv fmod args s
      hl hsp (h1 n (by omega)) hf (h2 n (by omega)) hpair]
    simp only [bump_bump, Nat.add_assoc]
  case callPrim =>
    intro env home d e first operands f id args hd hl hsp _ hf hcore _ ih1 ih2 st hs
    obtain ⟨F1, k1, h1⟩ := ih1 (bump st 1) (hs.bump 1)
    obtain ⟨F2, k2, h2⟩ := ih2 (bump (bump st 1) k1) ((hs.bump 1).bump k1)
    refine Runs.step (F1 + F2 + 1) (1 + k1 + k2) fun n hn => ?_
    obtain ⟨m, rfl⟩ : ∃ m, n = m + 1 := ⟨n - 1, by omega⟩
    rw [step_callPrim m st _ e env home d hd (poll_sees hs) first operands _ _ f id args
      hl hsp (h1 (m + 1) (by omega)) hf hcore (h2 (m + 1) (by omega))]
    simp only [bump_bump, Nat.add_assoc]
  case nil =>
    intro env home d st hs
    exact runsArgs_nil st env home d
  case cons =>
    intro env home d x xs v vs _ _ ih1 ih2 st hs
    exact runsArgs_cons ih1 ih2 st hs
  case signalHere =>
    intro env home d x xs s _ ih1 st hs
    exact runsArgs_here ih1 st hs
  case signalLater =>
    intro env home d x xs v s _ _ ih1 ih2 st hs
    exact runsArgs_later ih1 ih2 st hs

theorem evalArgs_runs {G : Globals} {env : Val} {home : Name} {d : Nat} {xs : List Val} {r : Res (List Val)}
    (h : EvalArgs G env home d xs r) : ∀ st, Sees st G → RunsArgs st xs env home d r := by
  induction xs generalizing r with
  | nil =>
    cases h
    intro st _; exact runsArgs_nil st env home d
  | cons x xs ih =>
    cases h with
    | cons h1 h2 => exact runsArgs_cons (eval_runs h1) (ih h2)
    | signalHere h1 => exact runsArgs_here (eval_runs h1)
    | signalLater h1 h2 => exact runsArgs_later (eval_runs h1) (ih h2)

end helpers

/-- THE refinement theorem: every reference derivation is realised by the evaluator -/
theorem eval_realises_reference (G : Globals) (env : Val) (home : Name) (d : Nat) (e : Val) (r : Res Val)
    (h : Eval G env home d e r) (st : St) (hs : Sees st G) :
    ∃ fuel k, evalInternal fuel st e env home d = (r, bump st k) := by
  obtain ⟨F, k, hF⟩ := eval_runs h st hs
  exact ⟨F, k, hF F (Nat.le_refl F)⟩

theorem evalArgs_realises_reference (G : Globals) (env : Val) (home : Name) (d : Nat) (xs : List Val) (r : Res (List Val))
    (h : EvalArgs G env home d xs r) (st : St) (hs : Sees st G) :
    ∃ fuel k, evalArgs fuel st xs env home d = (r, bump st k) := by
  obtain ⟨F, k, hF⟩ := evalArgs_runs h st hs
  exact ⟨F, k, hF F (Nat.le_refl F)⟩

/-- the reference semantics assigns at most one outcome to a program (so "the value or signal the reference evaluator
computes" is well defined) -/
theorem reference_deterministic (G : Globals) (env : Val) (home : Name) (d : Nat) (e : Val) (r1 r2 : Res Val)
    (h1 : Eval G env home d e r1) (h2 : Eval G env home d e r2) : r1 = r2 :=
  Ref.eval_deterministic h1 r2 h2

/-- lexical scope, stated outright: the innermost binding shadows outer ones and globals -/
theorem innermost_binding_wins (s : Sym) (v w : Val) (env : Val) :
    lookupEnv s (.cons (.cons (.sym s) v) (.cons (.cons (.sym s) w) env)) = some v := by
  simp [lookupEnv, Val.get]

/-- exact arity: without a rest parameter the call succeeds iff the numbers of parameters and arguments agree -/
theorem arity_exact (params : List Val) (fenv : Val) (name : Option Name) (args : List Val) :
    (∃ env', pairParamsAndArgs .nil (.ofList params) fenv name args = .ok env') ↔ params.length = args.length := by
  unfold pairParamsAndArgs
  simp only [listToVec_ofList, Option.getD_some, Val.restParam?]
  by_cases hle : params.length ≤ args.length
  · obtain ⟨env', he⟩ := bindParams_ok (name.getD cs!"#<function>") args.length params args 0 fenv hle
    rw [he]
    simp only [List.isEmpty_iff, List.drop_eq_nil_iff]
    constructor
    · rintro ⟨env'', h⟩
      split at h
      · omega
      · cases h
    · intro h
      exact ⟨env', by rw [if_pos (by omega)]⟩
  · obtain ⟨s, he⟩ := bindParams_err (name.getD cs!"#<function>") args.length params args 0 fenv (by omega)
    rw [he]
    constructor
    · rintro ⟨env'', h⟩; cases h
    · intro h; omega

/-- with a rest parameter the surplus arguments are collected, in order, as a list -/
theorem rest_collects (params : List Val) (restParam fenv : Val) (name : Option Name) (args : List Val)
    (hr : restParam.restParam? = some restParam) (hlen : params.length ≤ args.length) :
    ∃ env', pairParamsAndArgs restParam (.ofList params) fenv name args = .ok (.cons (.cons restParam (.ofList (args.drop params.length))) env') := by
  unfold pairParamsAndArgs
  simp only [listToVec_ofList, Option.getD_some]
  obtain ⟨env', he⟩ := bindParams_ok (name.getD cs!"#<function>") args.length params args 0 fenv hlen
  rw [he]
  exact ⟨env', by simp only [hr]⟩

/-! non-vacuity: a closure that returns a closure, applied — the reference semantics derives 3 for ((lambda (x) ((lambda (y) x) 2)) 3) -/
def exG : Globals := fun _ _ => .notFound
def exProgram : Val :=
  .ofList [.ofList [.symName cs!"lambda", .ofList [.symName cs!"x"],
                    .ofList [.ofList [.symName cs!"lambda", .ofList [.symName cs!"y"], .symName cs!"x"], .num 2]], .num 3]
example : (match (evalInternal 50 { (default : St) with modules := [⟨cs!"default", [], none⟩], current := cs!"default" } exProgram .nil cs!"default" 0).1 with
           | .ok (.num 3) => true | _ => false) = true := by decide +kernel

/-- the hypothesis `Sees` is satisfiable: the state of the example above sees the empty globals -/
example : Sees { (default : St) with modules := [⟨cs!"default", [], none⟩], current := cs!"default" } exG :=
  ⟨rfl, fun name home => by simp [exG, St.getGlobal, Module.get, List.lookup], by unfold HasModule; decide⟩

end Pici.C05
