/-
C07 — Tail calls run in constant depth; deep recursion signals instead of crashing.

Theorems about the recursion-depth accounting of the evaluator model (`Model/Eval.lean`, mirroring
`src/native/eval/mod.rs`): calls in tail position re-enter `evalInternal` at the SAME depth; every entry above the
configured limit answers with the `stackoverflow` signal (a property list, trappable); a tail-recursive loop runs for
EVERY iteration count at a depth that does not depend on the count.
(The bytes of native stack per level are outside the model: measured by the process-level part of the check.)
-/
import PiciModel.Model.Eval
import PiciModel.Lemmas.Depth

namespace Pici.C07
open Pici

/-! ### every recursive entry point is guarded by the depth limit -/

theorem eval_depth_guard (fuel : Nat) (st : St) (e env : Val) (mod : Name) (d : Nat) (h : d > Config.maxRecursionDepth) :
    evalInternal (fuel + 1) st e env mod d = (.err (stackoverflow cs!"eval"), st) := by
  rw [evalInternal, if_pos h]

theorem expand_depth_guard (fuel : Nat) (st : St) (e env : Val) (mod : Name) (d : Nat) (ch : Bool) (h : d > Config.maxRecursionDepth) :
    expandInternal (fuel + 1) st e env mod d ch = ((.err (stackoverflow cs!"macroexpand"), st), ch) := by
  rw [expandInternal, if_pos h]

theorem print_depth_guard (fuel : Nat) (v : Val) (d : Nat) (h : d > Config.maxRecursionDepth) :
    printInternal (fuel + 1) v d = .overflow := by
  rw [printInternal, if_pos h]

theorem read_depth_guard (args : List Val) (d : Nat) (h : d > Config.maxRecursionDepth) :
    readCore args d = .err (stackoverflow cs!"read") := by
  unfold readCore; rw [if_pos h]; rfl

theorem call_native_depth_guard (fuel : Nat) (st : St) (args : List Val) (env : Val) (d : Nat) (h : d > Config.maxRecursionDepth) :
    applyNative (fuel + 1) st .callNativeFunction args env d = (.err (stackoverflow cs!"call-native-function"), st) := by
  rw [applyNative, if_pos h]

/-- the signal is an ordinary non-nil value: a trap can handle it -/
theorem stackoverflow_trappable (source : Name) : (stackoverflow source).isNil = false := by
  rfl

/-- the printer's fuel is never the reason for an overflow: the depth limit strikes first -/
theorem print_fuel_sufficient (fuel : Nat) (v : Val) (d : Nat) (h : Config.maxRecursionDepth + 2 ≤ fuel + d) :
    printInternal fuel v d = printInternal (fuel + 1) v d := by
  induction fuel generalizing v d with
  | zero =>
    have hd : d > Config.maxRecursionDepth := by omega
    rw [printInternal, printInternal, if_pos hd]
  | succ n ih =>
    -- the recursive calls on the elements are one level deeper, with one level less fuel
    have key : (fun x => printInternal n x (d + 1)) = fun x => printInternal (n + 1) x (d + 1) :=
      funext fun x => ih x (d + 1) (by omega)
    rw [printInternal, printInternal, key]

/-! ### tail positions keep the depth -/

/-- an `if` form as the evaluator sees it: a proper list `(if c t o)` whose head is the symbol `if` -/
def IsIf (e c t o : Val) : Prop := ∃ first, listToVec e = some [first, c, t, o] ∧ first.isSymNamed cs!"if" = true ∧
  first.isSymNamed cs!"lambda" = false ∧ first.isSymNamed cs!"quote" = false

/-- either branch of an `if` is evaluated at the depth of the `if` itself (only the condition goes one level down) -/
theorem tail_if (fuel : Nat) (st st1 st2 : St) (e c t o env : Val) (mod : Name) (d : Nat) (v : Val)
    (he : IsIf e c t o) (hd : d ≤ Config.maxRecursionDepth) (hpoll : pollDebugger st = (none, st1))
    (hc : evalInternal fuel st1 c env mod (d + 1) = (.ok v, st2)) :
    evalInternal (fuel + 1) st e env mod d = evalInternal fuel st2 (if !v.isNil then t else o) env mod d := by
  obtain ⟨first, hl, hif, hlam, hq⟩ := he
  rw [evalInternal, if_neg (Nat.not_lt.mpr hd), hpoll]
  simp only [hl, hif, hlam, hq, arity3, hc]
  simp

/-- an application `(f a₁ … aₙ)` whose head is not a special operator -/
def IsApp (e first : Val) (operands : List Val) : Prop :=
  listToVec e = some (first :: operands) ∧ first.isSymNamed cs!"lambda" = false ∧ first.isSymNamed cs!"quote" = false ∧
  first.isSymNamed cs!"if" = false ∧ first.isSymNamed cs!"trap" = false

/-- the body of a called function is evaluated at the depth of the call, in the CALLEE's environment and module -/
theorem tail_call (fuel : Nat) (st st1 st2 st3 : St) (e first : Val) (operands : List Val) (env : Val) (mod : Name) (d : Nat)
    (operator : Val) (k : Kind) (rest params body fenv : Val) (fmod : Name) (args : List Val) (newEnv : Val)
    (he : IsApp e first operands) (hd : d ≤ Config.maxRecursionDepth) (hpoll : pollDebugger st = (none, st1))
    (hop : evalInternal fuel st1 first env mod (d + 1) = (.ok operator, st2))
    (hf : operator.get = .fn k rest params body fenv fmod)
    (hargs : evalArgs fuel st2 operands env mod d = (.ok args, st3))
    (hpair : pairParamsAndArgs rest params fenv (e.getMeta.map (·.readName)) args = .ok newEnv) :
    evalInternal (fuel + 1) st e env mod d = evalInternal fuel st3 body newEnv fmod d := by
  obtain ⟨hl, hlam, hq, hif, htrap⟩ := he
  rw [evalInternal, if_neg (Nat.not_lt.mpr hd), hpoll]
  simp only [hl, hif, hlam, hq, htrap, hop, hf, hargs, hpair]
  simp

/-- the argument of `eval` in operator position is (expanded and) evaluated at the depth of the call -/
theorem tail_eval (fuel : Nat) (st st1 st2 st3 st4 : St) (e first x : Val) (env : Val) (mod : Name) (d : Nat)
    (operator v expanded : Val)
    (he : IsApp e first [x]) (hd : d ≤ Config.maxRecursionDepth) (hpoll : pollDebugger st = (none, st1))
    (hop : evalInternal fuel st1 first env mod (d + 1) = (.ok operator, st2))
    (hf : operator.get = .native .eval)
    (hargs : evalArgs fuel st2 [x] env mod d = (.ok [v], st3))
    (hexp : expandCompletely fuel st3 v env mod (d + 1) = (.ok expanded, st4)) :
    evalInternal (fuel + 1) st e env mod d = evalInternal fuel st4 expanded env mod d := by
  obtain ⟨hl, hlam, hq, hif, htrap⟩ := he
  rw [evalInternal, if_neg (Nat.not_lt.mpr hd), hpoll]
  simp only [hl, hif, hlam, hq, htrap, hop, hf, hargs, arity1, hexp]
  simp

/-! ### a tail-recursive loop runs for every iteration count, in constant depth -/

/-- `(lambda (n) (if (= n 0) (quote done) (lp (substract n 1))))`, bound to the global `lp`; `=` and `substract` are the natives -/
def countdownBody : Val :=
  .ofList [.symName cs!"if", .ofList [.symName cs!"=", .symName cs!"n", .num 0],
           .ofList [.symName cs!"quote", .symName cs!"done"],
           .ofList [.symName cs!"lp", .ofList [.symName cs!"substract", .symName cs!"n", .num 1]]]
def countdownFn : Val := .fn .lambda .nil (.ofList [.symName cs!"n"]) countdownBody .nil cs!"default"
def countdownSt : St :=
  { (default : St) with
    modules := [⟨cs!"default", [(cs!"lp", countdownFn), (cs!"=", .native .equal), (cs!"substract", .native .substract)], none⟩],
    current := cs!"default" }
def countdownCall (n : Nat) : Val := .ofList [.symName cs!"lp", .num n]

/-! helpers for `countdown_all_n`: symbolic evaluation of one iteration of the loop.  `cdS j` is `countdownSt` after `j`
loop heads (no debugger is attached, so the step counter is all that changes); every lemma states the exact fuel it
consumes, so no fuel-monotonicity argument is needed. -/
section helpers

/-- `countdownSt` after `j` loop heads of the evaluator: nothing but the step counter ever changes -/
def cdS (j : Nat) : St := { countdownSt with steps := j }
/-- the environment of one iteration: `((n . m))` in front of the closure's (empty) environment -/
def cdEnv (m : Int) : Val := .cons (.cons (.symName cs!"n") (.num m)) .nil

def cdCond : Val := .ofList [.symName cs!"=", .symName cs!"n", .num 0]
def cdDone : Val := .ofList [.symName cs!"quote", .symName cs!"done"]
def cdSub : Val := .ofList [.symName cs!"substract", .symName cs!"n", .num 1]
def cdRec : Val := .ofList [.symName cs!"lp", cdSub]

theorem maxDepth_eq : Config.maxRecursionDepth = 1024 := rfl

theorem poll_cdS (j : Nat) : pollDebugger (cdS j) = (none, cdS (j + 1)) := rfl

theorem lookup_global (j : Nat) (env : Val) (name : Name) (v : Val)
    (henv : lookupEnv (.named name) env = none) (hg : countdownSt.getGlobal name cs!"default" = .found v) :
    lookup (cdS j) (.named name) env cs!"default" = .found v := by
  unfold lookup; rw [henv]; exact hg

theorem lookup_n (j : Nat) (m : Int) : lookup (cdS j) (.named cs!"n") (cdEnv m) cs!"default" = .found (.num m) := rfl

/-- `(= n 0)` with `n` bound to `m` -/
theorem eval_cond (F j : Nat) (m : Int) (d : Nat) (hd : d + 2 ≤ Config.maxRecursionDepth) :
    evalInternal (F + 4) (cdS j) cdCond (cdEnv m) cs!"default" (d + 1) =
      (.ok (if m = 0 then .symName cs!"t" else .nil), cdS (j + 4)) := by
  have hm := maxDepth_eq
  have hop : evalInternal (F + 3) (cdS (j + 1)) (.symName cs!"=") (cdEnv m) cs!"default" (d + 1 + 1) =
      (.ok (.native .equal), cdS (j + 2)) :=
    evalInternal_sym _ _ _ _ _ _ _ _ (by omega) (poll_cdS _) (lookup_global _ _ _ _ rfl rfl)
  have hn : evalInternal (F + 2) (cdS (j + 2)) (.symName cs!"n") (cdEnv m) cs!"default" (d + 1 + 1) =
      (.ok (.num m), cdS (j + 3)) :=
    evalInternal_sym _ _ _ _ _ _ _ _ (by omega) (poll_cdS _) (lookup_n _ _)
  have h0 : evalInternal (F + 1) (cdS (j + 3)) (.num 0) (cdEnv m) cs!"default" (d + 1 + 1) =
      (.ok (.num 0), cdS (j + 4)) :=
    evalInternal_num _ _ _ _ _ _ _ (by omega) (poll_cdS _)
  have hargs : evalArgs (F + 3) (cdS (j + 2)) [.symName cs!"n", .num 0] (cdEnv m) cs!"default" (d + 1) =
      (.ok [.num m, .num 0], cdS (j + 4)) :=
    evalArgs_cons _ _ _ _ _ _ _ _ _ _ _ hn (evalArgs_cons _ _ _ _ _ _ _ _ _ _ _ h0 (evalArgs_nil _ _ _ _ _))
  rw [evalInternal_native (F + 3) (cdS j) (cdS (j + 1)) (cdS (j + 2)) (cdS (j + 4)) cdCond (.symName cs!"=")
    [.symName cs!"n", .num 0] (cdEnv m) cs!"default" (d + 1) (.native .equal) .equal [.num m, .num 0]
    rfl rfl rfl rfl rfl (by omega) (poll_cdS j) hop rfl (by decide) hargs, applyNative_equal]
  simp [equalInternal, Val.get]


/-- `(substract n 1)` with `n` bound to `k + 1` -/
theorem eval_sub (F j k : Nat) (hk : ((k + 1 : Nat) : Int) ≤ i64Max) (d : Nat) (hd : d + 2 ≤ Config.maxRecursionDepth) :
    evalInternal (F + 4) (cdS j) cdSub (cdEnv ((k + 1 : Nat) : Int)) cs!"default" (d + 1) =
      (.ok (.num (k : Int)), cdS (j + 4)) := by
  have hm := maxDepth_eq
  have hop : evalInternal (F + 3) (cdS (j + 1)) (.symName cs!"substract") (cdEnv ((k + 1 : Nat) : Int)) cs!"default"
      (d + 1 + 1) = (.ok (.native .substract), cdS (j + 2)) :=
    evalInternal_sym _ _ _ _ _ _ _ _ (by omega) (poll_cdS _) (lookup_global _ _ _ _ rfl rfl)
  have hn : evalInternal (F + 2) (cdS (j + 2)) (.symName cs!"n") (cdEnv ((k + 1 : Nat) : Int)) cs!"default" (d + 1 + 1) =
      (.ok (.num ((k + 1 : Nat) : Int)), cdS (j + 3)) :=
    evalInternal_sym _ _ _ _ _ _ _ _ (by omega) (poll_cdS _) (lookup_n _ _)
  have h1 : evalInternal (F + 1) (cdS (j + 3)) (.num 1) (cdEnv ((k + 1 : Nat) : Int)) cs!"default" (d + 1 + 1) =
      (.ok (.num 1), cdS (j + 4)) :=
    evalInternal_num _ _ _ _ _ _ _ (by omega) (poll_cdS _)
  have hargs : evalArgs (F + 3) (cdS (j + 2)) [.symName cs!"n", .num 1] (cdEnv ((k + 1 : Nat) : Int)) cs!"default" (d + 1) =
      (.ok [.num ((k + 1 : Nat) : Int), .num 1], cdS (j + 4)) :=
    evalArgs_cons _ _ _ _ _ _ _ _ _ _ _ hn (evalArgs_cons _ _ _ _ _ _ _ _ _ _ _ h1 (evalArgs_nil _ _ _ _ _))
  rw [evalInternal_native (F + 3) (cdS j) (cdS (j + 1)) (cdS (j + 2)) (cdS (j + 4)) cdSub (.symName cs!"substract")
    [.symName cs!"n", .num 1] (cdEnv ((k + 1 : Nat) : Int)) cs!"default" (d + 1) (.native .substract) .substract
    [.num ((k + 1 : Nat) : Int), .num 1]
    rfl rfl rfl rfl rfl (by omega) (poll_cdS j) hop rfl (by decide) hargs, substract_succ_one _ _ _ hk]

/-- the body reduces to one of its branches, at the depth of the body -/
theorem eval_body (G j : Nat) (m : Int) (d : Nat) (hd : d + 2 ≤ Config.maxRecursionDepth) :
    evalInternal (G + 5) (cdS j) countdownBody (cdEnv m) cs!"default" d =
      evalInternal (G + 4) (cdS (j + 5)) (if m = 0 then cdDone else cdRec) (cdEnv m) cs!"default" d := by
  have hm := maxDepth_eq
  rw [tail_if (G + 4) (cdS j) (cdS (j + 1)) (cdS (j + 5)) countdownBody cdCond cdDone cdRec (cdEnv m) cs!"default" d _
    ⟨_, rfl, rfl, rfl, rfl⟩ (by omega) (poll_cdS j) (eval_cond G (j + 1) m d hd)]
  split <;> rfl

/-- base: with `n` bound to `0` the body answers `done` -/
theorem body_zero (G j : Nat) (d : Nat) (hd : d + 2 ≤ Config.maxRecursionDepth) :
    evalInternal (G + 5) (cdS j) countdownBody (cdEnv 0) cs!"default" d = (.ok (.symName cs!"done"), cdS (j + 6)) := by
  have hm := maxDepth_eq
  rw [eval_body G j 0 d hd, if_pos rfl]
  exact evalInternal_quote (G + 3) (cdS (j + 5)) (cdS (j + 6)) cdDone (.symName cs!"quote") (.symName cs!"done") _ _ d
    rfl rfl rfl (by omega) (poll_cdS _)

/-- `(lp (substract n 1))` with `n` bound to `k + 1` is the body with `n` bound to `k`, at the SAME depth -/
theorem eval_rec (F j k : Nat) (hk : ((k + 1 : Nat) : Int) ≤ i64Max) (d : Nat) (hd : d + 2 ≤ Config.maxRecursionDepth) :
    evalInternal (F + 6) (cdS j) cdRec (cdEnv ((k + 1 : Nat) : Int)) cs!"default" d =
      evalInternal (F + 5) (cdS (j + 6)) countdownBody (cdEnv (k : Int)) cs!"default" d := by
  have hm := maxDepth_eq
  have hop : evalInternal (F + 5) (cdS (j + 1)) (.symName cs!"lp") (cdEnv ((k + 1 : Nat) : Int)) cs!"default" (d + 1) =
      (.ok countdownFn, cdS (j + 2)) :=
    evalInternal_sym _ _ _ _ _ _ _ _ (by omega) (poll_cdS _) (lookup_global _ _ _ _ rfl rfl)
  have hargs : evalArgs (F + 5) (cdS (j + 2)) [cdSub] (cdEnv ((k + 1 : Nat) : Int)) cs!"default" d =
      (.ok [.num (k : Int)], cdS (j + 6)) :=
    evalArgs_cons _ _ _ _ _ _ _ _ _ _ _ (eval_sub F (j + 2) k hk d hd) (evalArgs_nil _ _ _ _ _)
  exact tail_call (F + 5) (cdS j) (cdS (j + 1)) (cdS (j + 2)) (cdS (j + 6)) cdRec (.symName cs!"lp") [cdSub]
    (cdEnv ((k + 1 : Nat) : Int)) cs!"default" d countdownFn .lambda .nil (.ofList [.symName cs!"n"]) countdownBody .nil
    cs!"default" [.num (k : Int)] (cdEnv (k : Int))
    ⟨rfl, rfl, rfl, rfl, rfl⟩ (by omega) (poll_cdS j) hop rfl hargs rfl

/-- step: one iteration is a tail call — the body with `n = k + 1` continues as the body with `n = k`, same depth -/
theorem body_succ (F j k : Nat) (hk : ((k + 1 : Nat) : Int) ≤ i64Max) (d : Nat) (hd : d + 2 ≤ Config.maxRecursionDepth) :
    evalInternal (F + 7) (cdS j) countdownBody (cdEnv ((k + 1 : Nat) : Int)) cs!"default" d =
      evalInternal (F + 5) (cdS (j + 11)) countdownBody (cdEnv (k : Int)) cs!"default" d := by
  have hne : ¬ ((k + 1 : Nat) : Int) = 0 := by omega
  rw [eval_body (F + 2) j _ d hd, if_neg hne]
  exact eval_rec F (j + 5) k hk d hd

/-- the loop, from any iteration count: two levels of fuel per iteration, constant depth -/
theorem body_all (k : Nat) (hk : (k : Int) ≤ i64Max) (j d : Nat) (hd : d + 2 ≤ Config.maxRecursionDepth) :
    evalInternal (2 * k + 5) (cdS j) countdownBody (cdEnv (k : Int)) cs!"default" d =
      (.ok (.symName cs!"done"), cdS (j + 11 * k + 6)) := by
  induction k generalizing j with
  | zero => exact body_zero 0 j d hd
  | succ k ih =>
    have hk' : (k : Int) ≤ i64Max := by omega
    have := body_succ (2 * k) j k hk d hd
    rw [show 2 * (k + 1) + 5 = 2 * k + 7 by omega, this, ih hk' (j + 11)]
    congr 2; omega

/-- the call `(lp n)` enters the body at the depth of the call -/
theorem eval_call (F j n : Nat) (d : Nat) (hd : d + 1 ≤ Config.maxRecursionDepth) :
    evalInternal (F + 3) (cdS j) (countdownCall n) .nil cs!"default" d =
      evalInternal (F + 2) (cdS (j + 3)) countdownBody (cdEnv (n : Int)) cs!"default" d := by
  have hm := maxDepth_eq
  have hop : evalInternal (F + 2) (cdS (j + 1)) (.symName cs!"lp") .nil cs!"default" (d + 1) =
      (.ok countdownFn, cdS (j + 2)) :=
    evalInternal_sym _ _ _ _ _ _ _ _ (by omega) (poll_cdS _) (lookup_global _ _ _ _ rfl rfl)
  have hx : evalInternal (F + 1) (cdS (j + 2)) (.num (n : Int)) .nil cs!"default" (d + 1) =
      (.ok (.num (n : Int)), cdS (j + 3)) :=
    evalInternal_num _ _ _ _ _ _ _ (by omega) (poll_cdS _)
  have hargs : evalArgs (F + 2) (cdS (j + 2)) [.num (n : Int)] .nil cs!"default" d =
      (.ok [.num (n : Int)], cdS (j + 3)) :=
    evalArgs_cons _ _ _ _ _ _ _ _ _ _ _ hx (evalArgs_nil _ _ _ _ _)
  exact tail_call (F + 2) (cdS j) (cdS (j + 1)) (cdS (j + 2)) (cdS (j + 3)) (countdownCall n) (.symName cs!"lp")
    [.num (n : Int)] .nil cs!"default" d countdownFn .lambda .nil (.ofList [.symName cs!"n"]) countdownBody .nil
    cs!"default" [.num (n : Int)] (cdEnv (n : Int))
    ⟨rfl, rfl, rfl, rfl, rfl⟩ (by omega) (poll_cdS j) hop rfl hargs rfl

end helpers

/-- for EVERY n (far beyond the depth limit) the loop ends with `done`, started at ANY depth that leaves three levels
of head-room — the depth needed does not grow with n -/
theorem countdown_all_n (n : Nat) (hn : (n : Int) ≤ i64Max) (d : Nat) (hd : d + 3 ≤ Config.maxRecursionDepth) :
    ∃ fuel st', evalInternal fuel countdownSt (countdownCall n) .nil cs!"default" d = (.ok (.symName cs!"done"), st') := by
  have hm := maxDepth_eq
  -- two levels of fuel per iteration; the state only counts the loop heads passed (11 per iteration)
  refine ⟨2 * n + 3 + 3, cdS (0 + 3 + 11 * n + 6), ?_⟩
  show evalInternal (2 * n + 3 + 3) (cdS 0) (countdownCall n) .nil cs!"default" d = _
  rw [eval_call (2 * n + 3) 0 n d (by omega)]
  exact body_all n hn (0 + 3) d (by omega)

/-! non-vacuity -/
example : IsIf (.ofList [.symName cs!"if", .num 1, .num 2, .num 3]) (.num 1) (.num 2) (.num 3) := ⟨_, rfl, by decide, by decide, by decide⟩
example : (match (evalInternal 100 countdownSt (countdownCall 3) .nil cs!"default" 0).1 with
           | .ok (.sym (.named n)) => n == cs!"done"
           | _ => false) = true := by decide +kernel

end Pici.C07
