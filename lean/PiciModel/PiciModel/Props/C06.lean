/-
C06 (part 1) — Totality of the reader, the printer and the natives that do not re-enter the evaluator:
on EVERY input they return a value or raise a Lisp signal; the panics of the Rust code (`unreachable!()`,
`unwrap()`, `panic!`) are explicit `crash` outcomes of the model, and these theorems show they are never reached.
(`Model/Reader.lean`, `Model/Printer.lean`, `Model/Natives.lean`; part 2, the evaluator, is `Props/C06Eval.lean`.)
-/
import PiciModel.Spec.WF
import PiciModel.Lemmas.ReaderTotal
import PiciModel.Lemmas.WellFormed

namespace Pici.C06
open Pici

/-- the tokenizer never reaches the `unreachable!()` of `TokenIterator::next`, for every character list,
every tail (clean or not a string) and every start position -/
theorem nextToken_no_crash (items : List (Char × Val)) (tail : Tail) (loc : Loc) (site : List Char) :
    nextToken items tail loc ≠ .err (.crash site) :=
  nextToken_noCrash items tail loc site

/-- every token consumes at least one character, so the token loop of `read_internal` ends -/
theorem nextToken_consumes (items remaining : List (Char × Val)) (tail : Tail) (loc tloc newLoc : Loc) (v : TokenValue) (rest : Rest)
    (h : nextToken items tail loc = .token v tloc rest remaining newLoc) :
    remaining.length < items.length :=
  nextToken_shorter h

/-- `read_internal` never panics, on ANY value handed to it (not only strings) -/
theorem readInternal_no_crash (input : Val) (loc : Loc) (site : List Char) :
    readInternal input loc ≠ .error (.crash site) :=
  readInternal_noCrash input loc site

/-- the `read` native never panics: any arguments of any type and shape, any start line and column (after the fix that
rejects positions below 1) -/
theorem readNative_no_crash (args : List Val) (d : Nat) (site : List Char) :
    readNative args d ≠ .crash site ∧ readNative args d ≠ .outOfFuel :=
  readNative_noCrash args d site

/-- what the reader returns is well formed: every metadata cell it makes wraps a bare value -/
theorem readInternal_wellformed (input : Val) (loc : Loc) (v : Val) (rest : Rest)
    (hin : noNested input = true) (h : readInternal input loc = .ok (v, rest)) :
    noNested v = true ∧ noNested rest.string = true :=
  (readInternal_ok input loc hin).1 v rest h

/-- the `print` native never panics and never runs out of fuel -/
theorem printNative_no_crash (args : List Val) (d : Nat) (site : List Char) :
    printNative args d ≠ .crash site ∧ printNative args d ≠ .outOfFuel :=
  printNative_noCrash args d site

/-- the natives handled by `simpleNative` (all but the five that re-enter the evaluator) never panic, on arguments of every
type and shape; the only panic site is `allocate_metadata` on a value that is already metadata of metadata, which
well-formed values exclude -/
theorem simpleNative_no_crash (id : NativeId) (args : List Val) (d : Nat) (st : St) (site : List Char)
    (hid : id ≠ .makeFunction ∧ id ≠ .callNativeFunction ∧ id ≠ .macroexpand ∧ id ≠ .eval ∧ id ≠ .loadAll)
    (hargs : ∀ v ∈ args, noNested v = true) :
    (simpleNative id args d st).1 ≠ .crash site :=
  simpleNative_noCrash id args d st site hid hargs

/-- … and they keep values and states well formed -/
theorem simpleNative_wellformed (id : NativeId) (args : List Val) (d : Nat) (st : St)
    (hst : StOK st) (hargs : ∀ v ∈ args, noNested v = true) :
    StOK (simpleNative id args d st).2 ∧
    (∀ v, (simpleNative id args d st).1 = .ok v → noNested v = true) ∧
    (∀ s, (simpleNative id args d st).1 = .err s → noNested s = true) :=
  simpleNative_wf id args d st hst hargs

/-! non-vacuity: the witnesses of the original panics are now signals -/
example : (match (simpleNative .divide [.num i64Min, .num (-1)] 0 default).1 with | .err _ => true | _ => false) = true := by decide +kernel
example : (match (simpleNative .send [.ofList [.symName cs!"a"]] 0 default).1 with | .err _ => true | _ => false) = true := by decide +kernel
example : (match readNative [.ofChars cs!"x", .symName cs!"stdin", .num 1, .num 0] 0 with | .err _ => true | _ => false) = true := by decide +kernel

end Pici.C06
