/-
C04 — Symbol identity: same name = same symbol, gensyms unique, across reclamation.

Client-level theorems over EVERY history of interning names, generating unique symbols, dropping them, collecting and
interning again: two handles obtained for the same name point to the same cell as long as one of them (or anything
referring to it) is alive; different names give different cells; a generated symbol's cell is shared with nothing
reachable, also when it is a reused cell; the symbol table never keeps an entry for reclaimed storage.
-/
import PiciModel.Props.C01

namespace Pici.C04
open Pici Pici.Heap Pici.HeapState Pici.C01

/-- the address a slot holds, if it holds a cell -/
def slotAddr (s : HeapState) (i : Nat) : Option Addr := (s.slots.getD i none).join

/-- the symbol a cell is, looking through one metadata wrapper (what `symbol_eq!` compares) -/
def symCell (h : Heap) (a : Addr) : Option Addr :=
  match (h.cell a).content with
  | .sym _ _       => some a
  | .md (some t) _ => (match (h.cell t).content with | .sym _ _ => some t | _ => none)
  | _              => none

section helpers

/-! ### helpers: the three ways a symbol operation ends -/

theorem slotAddr_set (s' : HeapState) (l : List Slot) (d : Nat) (a : Addr) (hs : s'.slots = setSlotList l d (some (some a))) :
    slotAddr s' d = some a := by
  unfold slotAddr
  rw [hs, List.getD_eq_getElem?_getD, getElem?_setSlotList]
  rfl

/-- interning a name that is in the table -/
theorem step_sym_found (s : HeapState) (h : SInv s) (d : Nat) (n : Name) (a : Addr) (hl : s.heap.symtab.lookup n = some a) :
    ∃ s', s.step (.sym d n) = (s', .ok) ∧ RcOnly s.heap s'.heap ∧ s'.slots = setSlotList s.slots d (some (some a)) := by
  unfold HeapState.step
  dsimp only
  rw [hl]
  dsimp only
  rw [symbolFor_found s.heap n a false hl]
  have hu : Used s.heap a := (h.heap.symSound n a (lookup_mem _ _ _ hl)).1
  obtain ⟨s', e, _, r, _, sl⟩ := give_ok s d (some a) h (fun b hb => by cases hb; exact hu)
  have e' : ({ s with heap := s.heap.incRc a } : HeapState).setSlot d (some a) = some s' := e
  unfold HeapState.finish
  simp only [e']
  exact ⟨s', rfl, r, sl⟩

/-- interning a name that is not in the table -/
theorem step_sym_fresh (s : HeapState) (h : SInv s) (d : Nat) (n : Name) (hl : s.heap.symtab.lookup n = none) :
    ∃ h' a s', s.step (.sym d n) = (s', .ok) ∧ Alloc s.heap h' a ∧ (h'.cell a).content = .sym (some n) (some a) ∧
      RcOnly h' s'.heap ∧ s'.slots = setSlotList s.slots d (some (some a)) := by
  unfold HeapState.step
  dsimp only
  rw [hl]
  dsimp only
  obtain ⟨h', a, e, al, hc⟩ := symbolFor_alloc s.heap h.heap n s.tick.2 hl
  have e' : s.tick.1.heap.symbolFor n s.tick.2 = some (h', a) := e
  rw [e']
  obtain ⟨s', e2, _, r, _, sl⟩ := finish_ok s.tick.1 d h' a (sinv_congr h (tick_heap s) (tick_slots s)) al
  exact ⟨h', a, s', e2, al, hc, r, sl⟩

/-- generating a symbol -/
theorem step_gensym (s : HeapState) (h : SInv s) (d : Nat) :
    ∃ h' a s', s.step (.gensym d) = (s', .ok) ∧ Alloc s.heap h' a ∧ (h'.cell a).content = .sym none (some a) ∧
      (∀ n, (n, a) ∉ h'.symtab) ∧ RcOnly h' s'.heap ∧ s'.slots = setSlotList s.slots d (some (some a)) := by
  unfold HeapState.step
  dsimp only
  obtain ⟨h', a, e, al, hc, hn⟩ := uniqueSymbol_alloc s.heap h.heap s.tick.2
  have e' : s.tick.1.heap.uniqueSymbol s.tick.2 = some (h', a) := e
  rw [e']
  obtain ⟨s', e2, _, r, _, sl⟩ := finish_ok s.tick.1 d h' a (sinv_congr h (tick_heap s) (tick_slots s)) al
  exact ⟨h', a, s', e2, al, hc, hn, r, sl⟩

/-- what interning does, whichever way it goes -/
theorem step_sym_spec (s : HeapState) (h : SInv s) (d : Nat) (n : Name) :
    ∃ a, slotAddr (s.step (.sym d n)).1 d = some a ∧ Used (s.step (.sym d n)).1.heap a ∧
      ((s.step (.sym d n)).1.heap.cell a).content = .sym (some n) (some a) ∧
      (∀ a0, s.heap.symtab.lookup n = some a0 → a = a0) := by
  cases hl : s.heap.symtab.lookup n with
  | some a0 =>
    obtain ⟨s', e, r, sl⟩ := step_sym_found s h d n a0 hl
    obtain ⟨hu, hc⟩ := h.heap.symSound n a0 (lookup_mem _ _ _ hl)
    rw [e]
    exact ⟨a0, slotAddr_set s' _ d a0 sl, (r.used a0).2 hu, by rw [r.content]; exact hc, fun _ e => (Option.some.inj e)⟩
  | none =>
    obtain ⟨h', a, s', e, al, hc, r, sl⟩ := step_sym_fresh s h d n hl
    rw [e]
    exact ⟨a, slotAddr_set s' _ d a sl, (r.used a).2 al.used, by rw [r.content]; exact hc, fun _ e => by cases e⟩

end helpers

/-- interning a name puts a handle on a used symbol cell of exactly that name in the slot -/
theorem intern_gives_named (s : HeapState) (h : SInv s) (d : Nat) (n : Name) :
    ∃ a, slotAddr (s.step (.sym d n)).1 d = some a ∧ Used (s.step (.sym d n)).1.heap a ∧
      ((s.step (.sym d n)).1.heap.cell a).content = .sym (some n) (some a) := by
  obtain ⟨a, h1, h2, h3, _⟩ := step_sym_spec s h d n
  exact ⟨a, h1, h2, h3⟩

/-- same name = same symbol: if a symbol cell of that name is still reachable — through a handle, a cons, a closure's
parameter list or a global — interning the name again returns that very cell -/
theorem intern_same_while_reachable (s : HeapState) (h : SInv s) (d : Nat) (n : Name) (a : Addr) (o : Option Addr)
    (hr : Reach s.heap a) (hc : (s.heap.cell a).content = .sym (some n) o) :
    slotAddr (s.step (.sym d n)).1 d = some a := by
  have hu := reach_used s.heap h.heap a hr
  have hl := lookup_of_mem s.heap.symtab h.heap.symNodup n a (h.heap.symComplete a n o hu hc)
  obtain ⟨b, h1, _, _, h4⟩ := step_sym_spec s h d n
  rw [h1, h4 a hl]

/-- different names = different symbols, at every point of every history -/
theorem different_names_different_cells (ops : List HeapOp) (a b : Addr) (n m : Name) (oa ob : Option Addr)
    (ha : Used (run ops).heap a) (hb : Used (run ops).heap b)
    (hca : ((run ops).heap.cell a).content = .sym (some n) oa) (hcb : ((run ops).heap.cell b).content = .sym (some m) ob) :
    a = b ↔ n = m := by
  constructor
  · rintro rfl
    rw [hca] at hcb
    cases hcb
    rfl
  · rintro rfl
    exact named_unique _ (sinv_run ops).heap a b n oa ob ha hb hca hcb

/-- a generated symbol is equal only to itself: its cell was not reachable before (so no live handle, cons, closure or
global refers to it), it carries no name and is not in the symbol table — also when the cell is a reused one -/
theorem gensym_unique (s : HeapState) (h : SInv s) (d : Nat) :
    ∃ a, slotAddr (s.step (.gensym d)).1 d = some a ∧ ¬ Reach s.heap a ∧
      ((s.step (.gensym d)).1.heap.cell a).content = .sym none (some a) ∧
      (∀ n, (n, a) ∉ (s.step (.gensym d)).1.heap.symtab) := by
  obtain ⟨h', a, s', e, al, hc, hn, r, sl⟩ := step_gensym s h d
  rw [e]
  refine ⟨a, slotAddr_set s' _ d a sl, al.fresh, by rw [r.content]; exact hc, ?_⟩
  intro n hna
  rw [r.symtab] at hna
  exact hn n hna

/-- the symbol table never names reclaimed, reused or released storage: every entry, at every point of every history,
is a used symbol cell carrying exactly that name -/
theorem symtab_sound (ops : List HeapOp) (n : Name) (a : Addr) (hin : (n, a) ∈ (run ops).heap.symtab) :
    Used (run ops).heap a ∧ ((run ops).heap.cell a).content = .sym (some n) (some a) := by
  exact (sinv_run ops).heap.symSound n a hin

/-! non-vacuity: a name kept alive only through a cons survives a collection and is re-interned to the same cell;
a dropped name is reclaimed, its cell reused for a number, and re-interning makes a fresh symbol -/
def exKeep : List HeapOp := [.sym 0 cs!"a", .cons 1 0 (-1), .drop 0, .collect, .sym 2 cs!"a", .car 3 1]
example : slotAddr (run exKeep) 2 = slotAddr (run exKeep) 3 := by decide +kernel
def exReuse : List HeapOp := [.sym 0 cs!"a", .drop 0, .collect, .num 1 5, .sym 2 cs!"a"]
example : slotAddr (run exReuse) 1 ≠ slotAddr (run exReuse) 2 ∧ (run exReuse).heap.symtab.length = 1 := by decide +kernel

end Pici.C04
