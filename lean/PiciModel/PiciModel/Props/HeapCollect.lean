/-
Collection and allocation on the heap model (`Model/Heap.lean`), assembled from the mark and sweep theorems:
the facts C01 (safety), C03 (exactness, growth) and C04 (symbol table) are corollaries of.
-/
import PiciModel.Props.HeapMark
import PiciModel.Props.HeapSweep
import PiciModel.Lemmas.Collect

namespace Pici.Heap

/-- every reachable cell is in use (roots are used cells, and used cells only refer to used cells) -/
theorem reach_used (h : Heap) (hinv : Inv h) (a : Addr) (hr : Reach h a) : Used h a := by
  exact reach_used' h hinv a hr

/-! ### one collection, with any correct mark result -/

/-- nothing reachable is reclaimed or altered: it stays in use, with its content, handle count and children untouched -/
theorem collectWith_keeps (h : Heap) (hinv : Inv h) (R : List Addr) (hm : Marked h R) (a : Addr) (hr : Reach h a) :
    Used (collectWith h R) a ∧ (collectWith h R).cell a = h.cell a := by
  exact ⟨(collectWith_used h hinv R hm a).2 hr, collectWith_cell h hinv R a⟩

/-- immediately after a collection exactly the reachable cells are in use -/
theorem collectWith_exact (h : Heap) (hinv : Inv h) (R : List Addr) (hm : Marked h R) (a : Addr) :
    Used (collectWith h R) a ↔ Reach h a := by
  exact collectWith_used h hinv R hm a

/-- reachability itself is unchanged -/
theorem collectWith_reach (h : Heap) (hinv : Inv h) (R : List Addr) (hm : Marked h R) (a : Addr) :
    Reach (collectWith h R) a ↔ Reach h a := by
  exact collectWith_reach' h hinv R hm a

/-- the invariant survives: in particular no cell in use afterwards refers to a reclaimed or released cell, free cells hold no
handles, and the symbol table names exactly the used named symbols (entries of reclaimed symbols are gone) -/
theorem collectWith_inv (h : Heap) (hinv : Inv h) (R : List Addr) (hm : Marked h R) : Inv (collectWith h R) := by
  exact collectWith_inv' h hinv R hm

/-- the executable collection always succeeds on a well-formed heap and has all of the above -/
theorem collectFast_spec (h : Heap) (hinv : Inv h) :
    ∃ h', h.collectFast = some h' ∧ Inv h' ∧ h'.store = h.store ∧ h'.globals = h.globals ∧
      (∀ a, Used h' a ↔ Reach h a) ∧ (∀ a, Reach h' a ↔ Reach h a) := by
  obtain ⟨h', e, i, s, g, u, r, _⟩ := collectFast_spec' h hinv
  exact ⟨h', e, i, s, g, u, r⟩

/-- the collection as written in the source (mark loop without a visited test) yields the same heap whenever it returns -/
theorem collect_eq_collectFast (h : Heap) (hinv : Inv h) (fuel : Nat) (h1 : Heap) (hc : h.collect fuel = some h1) :
    h.collectFast = some h1 := by
  exact collect_eq_collectFast' h hinv fuel h1 hc

/-! ### allocation -/

/-- the initial heap is well formed (the configured initial capacity is positive) -/
theorem init_inv : Inv Heap.init := by
  exact init_inv'

/-- `allocate_internal`: the content is placed in a cell that was NOT reachable before (a free cell, a reclaimed cell, or a new
one); every cell that was reachable keeps its content, handle count and stays in use; the invariant survives provided the
new content only refers to reachable cells (the callers hold handles on them). It never fails on a well-formed heap. -/
theorem allocate_spec (h : Heap) (hinv : Inv h) (c : Content) (forced : Bool)
    (hkids : ∀ b ∈ c.children, Reach h b)
    (hsym : ∀ n o, c ≠ .sym (some n) o) :
    ∃ h' a, h.allocate c forced = some (h', a) ∧ Inv h' ∧ ¬ Reach h a ∧ Used h' a ∧
      h'.cell a = ⟨c, 0⟩ ∧ h'.globals = h.globals ∧
      (∀ b, Reach h b → Used h' b ∧ h'.cell b = h.cell b) ∧
      (∀ b, Used h' b → b = a ∨ Used h b) := by
  exact allocate_spec' h hinv c forced hkids hsym

/-- the heap grows only when a collection found every cell reachable, and then by the configured factor
(`len + 1 + (⌊(len + 1) · ALLOCATION_RATIO⌋ - 1)` cells, i.e. `2·len + 1` with the current ratio) -/
theorem allocate_growth (h : Heap) (hinv : Inv h) (c : Content) (forced : Bool) (h' : Heap) (a : Addr)
    (ha : h.allocate c forced = some (h', a)) :
    h'.order.size ≤ h.order.size ∨
    (∃ hc, hc.firstFree = hc.order.size ∧ hc.order.size ≤ h.order.size ∧ (∀ b, Used hc b → Reach h b) ∧
      h'.order.size = hc.order.size + 1 + (ratio (hc.order.size + 1) Config.allocationRatioNum Config.allocationRatioDen - 1)) := by
  exact allocate_growth' h hinv c forced h' a ha

/-! ### symbols (C04) -/

/-- same name = same cell: two used symbol cells with the same name are one cell -/
theorem named_unique (h : Heap) (hinv : Inv h) (a b : Addr) (n : Name) (oa ob : Option Addr)
    (ha : Used h a) (hb : Used h b) (hca : (h.cell a).content = .sym (some n) oa) (hcb : (h.cell b).content = .sym (some n) ob) :
    a = b := by
  exact named_unique' h hinv a b n oa ob ha hb hca hcb

/-- interning a name whose symbol is still in use — through a handle, a cons, a closure or a global, it does not matter —
returns that very cell and allocates nothing -/
theorem intern_same (h : Heap) (hinv : Inv h) (n : Name) (a : Addr) (o : Option Addr) (forced : Bool)
    (ha : Used h a) (hc : (h.cell a).content = .sym (some n) o) :
    h.symbolFor n forced = some (h.incRc a, a) := by
  exact intern_same' h hinv n a o forced ha hc

/-- interning a name that has no cell in use (never interned, or reclaimed) makes a fresh well-formed symbol cell that was not
reachable before, enters it in the table, and keeps the invariant: no stale entry can resurrect reclaimed storage -/
theorem intern_fresh (h : Heap) (hinv : Inv h) (n : Name) (forced : Bool)
    (hno : ∀ a o, Used h a → (h.cell a).content ≠ .sym (some n) o) :
    ∃ h' a, h.symbolFor n forced = some (h', a) ∧ Inv h' ∧ ¬ Reach h a ∧ Used h' a ∧
      (h'.cell a).content = .sym (some n) (some a) ∧ (h'.cell a).rc = 1 ∧
      (∀ b, Reach h b → Used h' b ∧ h'.cell b = h.cell b) := by
  exact intern_fresh' h hinv n forced hno

/-- a generated symbol lives in a cell that was not reachable before and is not in the symbol table: it is equal
(by address) to no symbol any live handle can reach, also when its cell is a reused one -/
theorem gensym_fresh (h : Heap) (hinv : Inv h) (forced : Bool) :
    ∃ h' a, h.uniqueSymbol forced = some (h', a) ∧ Inv h' ∧ ¬ Reach h a ∧ Used h' a ∧
      (h'.cell a).content = .sym none (some a) ∧ (h'.cell a).rc = 1 ∧ (∀ n, (n, a) ∉ h'.symtab) ∧
      (∀ b, Reach h b → Used h' b ∧ h'.cell b = h.cell b) := by
  exact gensym_fresh' h hinv forced

end Pici.Heap
