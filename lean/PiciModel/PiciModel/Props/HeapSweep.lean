/-
Sweep and shrink (part of C01 / C03 / C04): `sweep` only permutes the cell vector and moves `firstFree`;
afterwards exactly the marked used cells are in use; no cell's content is touched; the symbol table loses exactly the
names of the swept named symbols; `shrink` only drops free cells.
-/
import PiciModel.Spec.HeapSpec
import PiciModel.Lemmas.Sweep

namespace Pici.Heap

/-- no cell content (and no handle count) is touched by sweeping -/
theorem sweep_store (h : Heap) (R : List Addr) : (sweep h R).store = h.store ∧ (sweep h R).globals = h.globals :=
  sweepLoop_store R _ _ _

/-- the cell vector is permuted, never lengthened, shortened or duplicated -/
theorem sweep_perm (h : Heap) (R : List Addr) (hff : h.firstFree ≤ h.order.size) :
    (sweep h R).order.toList.Perm h.order.toList ∧ (sweep h R).firstFree ≤ h.firstFree := by
  have _ := hff  -- not needed: `swapIfInBounds` is a permutation whatever the indices
  exact sweepLoop_perm R _ _ _

/-- after the sweep exactly the cells that were in use AND are marked are in use -/
theorem sweep_used (h : Heap) (R : List Addr) (hff : h.firstFree ≤ h.order.size) (hnd : h.order.toList.Nodup) (a : Addr) :
    Used (sweep h R) a ↔ Used h a ∧ a ∈ R := by
  unfold Used sweep
  rw [(sweepLoop_spec R h.firstFree 0 h (by omega) hff hnd).1 a]
  simp

/-- the symbol table keeps exactly the entries whose name does not belong to a swept named symbol cell -/
theorem sweep_symtab (h : Heap) (R : List Addr) (hff : h.firstFree ≤ h.order.size) (hnd : h.order.toList.Nodup) (n : Name) (a : Addr) :
    (n, a) ∈ (sweep h R).symtab ↔
      (n, a) ∈ h.symtab ∧ ¬ ∃ b o, Used h b ∧ b ∉ R ∧ (h.cell b).content = .sym (some n) o := by
  unfold Used sweep
  rw [(sweepLoop_spec R h.firstFree 0 h (by omega) hff hnd).2 n a]
  simp

/-- `shrink` keeps the store and the used prefix, and never empties the vector -/
theorem shrink_spec (h : Heap) (hff : h.firstFree ≤ h.order.size) :
    (shrink h).store = h.store ∧ (shrink h).firstFree = h.firstFree ∧ (shrink h).symtab = h.symtab ∧ (shrink h).globals = h.globals ∧
    usedList (shrink h) = usedList h ∧ h.firstFree ≤ (shrink h).order.size ∧
    (∀ a ∈ (shrink h).order.toList, a ∈ h.order.toList) ∧
    (h.order.toList.Nodup → (shrink h).order.toList.Nodup) ∧
    (0 < h.order.size → 0 < (shrink h).order.size) :=
  shrink_spec' h hff

/-- surplus free space beyond the configured ratio is released: afterwards the free cells are at most
`⌊used · MAXIMUM_FREE_RATIO⌋`, or exactly `⌊used · MINIMUM_FREE_RATIO⌋ + 1` -/
theorem shrink_post (h : Heap) (hff : h.firstFree ≤ h.order.size) :
    (shrink h).order.size - h.firstFree ≤ ratio h.firstFree Config.maximumFreeRatioNum Config.maximumFreeRatioDen ∨
    (shrink h).order.size - h.firstFree = ratio h.firstFree Config.minimumFreeRatioNum Config.minimumFreeRatioDen + 1 :=
  shrink_post' h hff

/-- the result of a collection depends on the mark result only as a set -/
theorem collectWith_congr (h : Heap) (R1 R2 : List Addr) (heq : ∀ a, a ∈ R1 ↔ a ∈ R2) :
    collectWith h R1 = collectWith h R2 := by
  unfold collectWith sweep
  rw [sweepLoop_congr R1 R2 heq]

end Pici.Heap
