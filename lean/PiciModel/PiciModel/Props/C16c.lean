/-
C16 (continued) — the definitions of the prelude whose body uses a macro: `case`, `or`, `block`, `/=`, `<=`, `>=`.

Their bodies are macro-expanded when the prelude is loaded, so the closure does not hold the source text.  The constants
of `Generated/PreludeExpanded.lean` are the closures the model binds after loading the CURRENT /repo/src/prelude.lisp
(regenerated on every run by `orchestrator/translate/prelude_expanded.py` through the model driver; the correspondence
check of C16 compares the same closures — `destructure-function` of every prelude name — between the real interpreter and
the model).  Each theorem evaluates the stored BODY with the parameters bound as a call binds them.

The control macros: the theorems give the EXPANSION, in which every operand occurs exactly where the documentation says:
`(case (c1 v1) … (cn vn))` is `(if c1 v1 (if c2 v2 … nil))` — a clause is evaluated only if all conditions before it
were false, and nothing after the first true condition; `(or x y)` is `((lambda (g) (if g g y)) x)` with a FRESH symbol
g — x is evaluated exactly once, y only if x is nil; `(block b1 … bn e)` is `((lambda (g1 … gn) e) b1 … bn)` with fresh
symbols — every form is evaluated once, in order, and the value is that of the last.
-/
import PiciModel.Props.C16b
import PiciModel.Generated.PreludeExpanded
import PiciModel.Lemmas.PreludeSteps3

namespace Pici.C16
open Pici

/-- a state in which the whole prelude is loaded: `Loaded`, and every macro-using definition resolves to the stored
(expanded) closure generated from the current prelude.lisp; `gensym` resolves to the native -/
structure LoadedX (st : St) : Prop where
  base     : Loaded st
  preludeX : ∀ name v, (name, v) ∈ PreludeX.table → ∃ w, st.getGlobal name cs!"prelude" = .found w ∧ w.get = v
  gensymN  : ∃ w, st.getGlobal cs!"gensym" cs!"prelude" = .found w ∧ w.get = .native .gensym
  /-- the natives the definitions of Props/C16d use beyond those of `Loaded`: `append` (concat), `.` (try), `divide` (/),
  `eval` (let) -/
  nativesX : ∀ id, id ∈ [NativeId.append, .getProperty, .divide, .eval] →
               ∃ w, st.getGlobal id.name cs!"prelude" = .found w ∧ w.get = .native id


section helpers
open Pici.Ref

/-- variable lookup in an environment given by two equations (an extension `h1` of a base environment `h2`) -/
macro "lk2" h1:ident h2:ident : tactic =>
  `(tactic| (simp only [$h1:ident, $h2:ident, lookupEnv_hit, lookupEnv_miss, lookupEnv_nil, ne_eq, List.cons.injEq, Char.reduceEq,
      and_true, and_false, false_and, true_and, not_false_eq_true, reduceCtorEq, Option.some.injEq]; try rfl))

/-- the symbol counter is invisible to the lookups `Loaded` is about -/
theorem Loaded.withG {st : St} (hl : Loaded st) (g : Nat) : Loaded (withG st g) :=
  ⟨hl.detached, hl.current, hl.prelude, hl.natives, hl.nil, hl.t⟩

/-- the state with `g` more generated symbols has the globals of `st` -/
theorem Loaded.seesG {st : St} (hl : Loaded st) (g : Nat) : C05.Sees (Pici.withG st g) (globalsOf st) :=
  ⟨hl.detached, fun _ _ => rfl, hl.current⟩

theorem lookupEnv_missGen (n : Name) (g : Nat) (v rest : Val) :
    lookupEnv (.named n) (.cons (.cons (.sym (.gen g)) v) rest) = lookupEnv (.named n) rest := by
  simp [lookupEnv, Val.get]

/-- a closure whose body runs to `r` (without side effects) at every depth with 8 levels to spare is a pure call -/
theorem callsTo_closure {st : St} {f : Val} {args : List Val} {r : Val} {k : Kind} {rest params body fenv env : Val}
    {fmod : Name} (hf : f.get = .fn k rest params body fenv fmod)
    (hp : pairParamsAndArgs rest params fenv none args = .ok env)
    (h : ∀ d, d + 8 ≤ Config.maxRecursionDepth → RunsJ st body env fmod d (.ok r)) : CallsTo st f args r := by
  refine Or.inr ⟨k, rest, params, body, fenv, fmod, env, hf, hp, fun d hd j => ?_⟩
  obtain ⟨F, i, hF⟩ := h d hd j
  exact ⟨F, i, fun extra => hF (F + extra) (by omega)⟩

end helpers

/-- the nested conditional a list of clauses denotes -/
def caseForm (ifV nilV : Val) : List (Val × Val) → Val
  | [] => nilV
  | (c, v) :: rest => .ofList [ifV, c, v, caseForm ifV nilV rest]

/-- `(case (c1 v1) … (cn vn))` expands to `(if c1 v1 (if c2 v2 (… nil)))`, for every list of clauses (the macro uses
`foldr`, which is not tail recursive: one level per clause) -/
theorem case_expands (st : St) (hl : LoadedX st) (clauses : List (Val × Val)) (env : Val) (d : Nat)
    (hd : d + clauses.length + 16 ≤ Config.maxRecursionDepth)
    (henv : callEnv PreludeX.case_rest PreludeX.case_params (clauses.map fun (c, v) => Val.ofList [c, v]) = some env) :
    ∃ fuel k ifV nilV, ifV.isSymNamed cs!"if" = true ∧ nilV.isNil = true ∧
      evalInternal fuel st PreludeX.case_body env cs!"prelude" d = (.ok (caseForm ifV nilV clauses), bump st k) := by
  obtain ⟨p, hp⟩ := PreludeX.case_rest_shape
  obtain ⟨m1, m2, m3, m4, m5, m6, m7, m8, m9, m10, m11, m12, m13, m14, m15, m16, m17, m18, m19, n1, n2, hb⟩ :=
    PreludeX.case_body_shape
  obtain ⟨q1, q2, q3, hq⟩ := Prelude.foldr_params_shape
  have hlb := hl.base
  have hE : env = .cons (.cons (symA cs!"cases" p) (.ofList (clauses.map fun (c, v) => Val.ofList [c, v]))) .nil := by
    have := callEnv_ok henv
    rw [hp, PreludeX.case_params_eq, pairRest] at this
    exact (Res.ok.inj this).symm
  obtain ⟨wf, hwf, hwfg⟩ := hlb.prelude _ _ Prelude.foldr_mem
  obtain ⟨wl, hwl, hwlg⟩ := hlb.native .list (by decide)
  obtain ⟨wcar, hwcar, hwcarg⟩ := hlb.native .car (by decide)
  obtain ⟨wcdr, hwcdr, hwcdrg⟩ := hlb.native .cdr (by decide)
  obtain ⟨nilV, hnil, hnilp⟩ := hlb.nil
  have hs := hlb.sees
  have hd0 : d ≤ Config.maxRecursionDepth := by omega
  have hd1 : d + 1 ≤ Config.maxRecursionDepth := by omega
  -- the closure `(lambda (c acc) ((lambda (condition value) (list 'if condition value acc)) (car c) (car (cdr c))))`
  let listForm : Val := .ofList [symA cs!"list" m8, quoA cs!"if" m9, symA cs!"condition" m10, symA cs!"value" m11,
    symA cs!"acc" m12]
  let inner : Val := .cons (.ofList [symA cs!"lambda" m5, .cons (symA cs!"condition" m6) (.cons (symA cs!"value" m7) (nilA n1)),
      listForm])
    (.cons (.ofList [symA cs!"car" m13, symA cs!"c" m14])
      (.cons (.ofList [symA cs!"car" m15, .ofList [symA cs!"cdr" m16, symA cs!"c" m17]]) (nilA n2)))
  let clo : Val := .fn .lambda .nil (.ofList [symA cs!"c" m3, symA cs!"acc" m4]) inner env cs!"prelude"
  have hclo : makeFunctionInternal [.ofList [symA cs!"c" m3, symA cs!"acc" m4], inner] env cs!"prelude" cs!"lambda" .lambda =
      .ok clo := rfl
  -- one call of the closure
  have hcall : ∀ c v r, CallsTo st clo [.ofList [c, v], r] (.ofList [symA cs!"if" m9, c, v, r]) := by
    intro c v r
    refine callsTo_closure (f := clo) rfl (pair2 _ _ _ _ _ _) fun dd hdd => RunsJ.of_eval hs ?_
    have hdd0 : dd ≤ Config.maxRecursionDepth := by omega
    have hdd1 : dd + 1 ≤ Config.maxRecursionDepth := by omega
    have hdd2 : dd + 1 + 1 ≤ Config.maxRecursionDepth := by omega
    have hdd3 : dd + 1 + 1 + 1 ≤ Config.maxRecursionDepth := by omega
    generalize hE1 : Val.cons (.cons (symA cs!"acc" m4) r) (.cons (.cons (symA cs!"c" m3) (.ofList [c, v])) env) = env1
    have hE1 := hE1.symm
    let clo2 : Val := .fn .lambda .nil (.ofList [symA cs!"condition" m6, symA cs!"value" m7]) listForm env1 cs!"prelude"
    have hclo2 : makeFunctionInternal [.cons (symA cs!"condition" m6) (.cons (symA cs!"value" m7) (nilA n1)), listForm]
        env1 cs!"prelude" cs!"lambda" .lambda = .ok clo2 := rfl
    refine Ref.Eval.callClosure (first := .ofList [symA cs!"lambda" m5,
        .cons (symA cs!"condition" m6) (.cons (symA cs!"value" m7) (nilA n1)), listForm])
      (operands := [.ofList [symA cs!"car" m13, symA cs!"c" m14],
        .ofList [symA cs!"car" m15, .ofList [symA cs!"cdr" m16, symA cs!"c" m17]]]) (args := [c, v])
      hdd0 rfl rfl (hclo2 ▸ ev_lambda hdd1) rfl (evs_two ?_ ?_) (pair2 _ _ _ _ _ _) ?_
    · exact ev_prim hdd1 rfl (ev_global hdd2 (by lk2 hE1 hE) hwcar) hwcarg rfl (evs_one (ev_local hdd2 (by lk hE1)))
        (prim_car _ c _ _ rfl)
    · refine ev_prim hdd1 rfl (ev_global hdd2 (by lk2 hE1 hE) hwcar) hwcarg rfl (evs_one ?_) (prim_car (.ofList [v]) v _ _ rfl)
      exact ev_prim hdd2 rfl (ev_global hdd3 (by lk2 hE1 hE) hwcdr) hwcdrg rfl (evs_one (ev_local hdd3 (by lk hE1)))
        (prim_cdr _ c _ _ rfl)
    · exact ev_prim hdd0 rfl (ev_global hdd1 (by lk2 hE1 hE) hwl) hwlg rfl
        (.cons (ev_quoA hdd1) (.cons (ev_local hdd1 (by lk0)) (.cons (ev_local hdd1 (by lk0))
          (.cons (ev_local hdd1 (by lk hE1)) .nil)))) rfl
  -- the fold
  have hfold : ∀ cl : List (Val × Val), FoldsRight st clo nilV (cl.map fun (c, v) => Val.ofList [c, v])
      (caseForm (symA cs!"if" m9) nilV cl) := by
    intro cl
    induction cl with
    | nil => exact .nil
    | cons cv rest ih =>
      obtain ⟨c, v⟩ := cv
      exact .cons _ _ _ _ ih (hcall c v _)
  have hpair : pairParamsAndArgs Prelude.foldr_rest Prelude.foldr_params .nil none
      [clo, nilV, .ofList (clauses.map fun (c, v) => Val.ofList [c, v])] =
      .ok (.cons (.cons (symA cs!"things" q3) (.ofList (clauses.map fun (c, v) => Val.ofList [c, v])))
        (.cons (.cons (symA cs!"init" q2) nilV) (.cons (.cons (symA cs!"f" q1) clo) .nil))) := by
    rw [hq, Prelude.foldr_rest_eq, pair3]
  have hbody := foldr_runs hlb clo nilV _ _ (hfold clauses) d (by rw [List.length_map]; omega) _ hpair
  rw [hb]
  refine ex_reorder2 (symA cs!"if" m9) nilV rfl hnilp (realiseJ ?_)
  exact RunsJ.callClosure hlb.detached hd0 (listToVec_ofList _) rfl
    (RunsJ.of_eval hs (ev_global hd1 (by lk hE) hwf)) (hwfg.trans Prelude.foldr_fn_eq)
    (RunsArgsJ.of_evalArgs hs (evs_three (hclo ▸ ev_lambda hd1) (ev_global hd1 (by lk hE) hnil)
      (ev_local hd1 (by lk hE))))
    hpair hbody

/-- `(or x y)` expands to `((lambda (g) (if g g y)) x)` where g is a symbol generated for this expansion (it occurs
nowhere else): x occurs once, y once; the only change of the state is the symbol counter -/
theorem or_expands (st : St) (hl : LoadedX st) (x y : Val) (env : Val) (d : Nat)
    (hd : d + 8 ≤ Config.maxRecursionDepth)
    (henv : callEnv PreludeX.or_rest PreludeX.or_params [x, y] = some env) :
    ∃ fuel k lambdaV ifV t1 t2 t3, lambdaV.isSymNamed cs!"lambda" = true ∧ ifV.isSymNamed cs!"if" = true ∧
      t1.isNil = true ∧ t2.isNil = true ∧ t3.isNil = true ∧
      evalInternal fuel st PreludeX.or_body env cs!"prelude" d =
        (.ok (.cons (.cons lambdaV (.cons (.cons (.sym (.gen st.gensym)) t1)
                (.cons (.cons ifV (.cons (.sym (.gen st.gensym)) (.cons (.sym (.gen st.gensym)) (.cons y t2)))) t3)))
              (.cons x .nil)),
         { bump st k with gensym := st.gensym + 1 }) := by
  obtain ⟨p1, p2, hp⟩ := PreludeX.or_params_shape
  obtain ⟨m1, m2, m3, m4, m5, m6, m7, m8, m9, m10, m11, m12, m13, m14, n1, n2, hb⟩ := PreludeX.or_body_shape
  rw [hp, PreludeX.or_rest_eq] at henv
  have hE := callEnv2 henv
  have hlb := hl.base
  obtain ⟨wl, hwl, hwlg⟩ := hlb.native .list (by decide)
  obtain ⟨wg, hwg, hwgg⟩ := hl.gensymN
  have hatt := hlb.detached
  have hs0 := hlb.seesG 0
  have hs1 := hlb.seesG 1
  have hd0 : d ≤ Config.maxRecursionDepth := by omega
  have hd1 : d + 1 ≤ Config.maxRecursionDepth := by omega
  have hd2 : d + 1 + 1 ≤ Config.maxRecursionDepth := by omega
  have hd3 : d + 1 + 1 + 1 ≤ Config.maxRecursionDepth := by omega
  -- the closure `(lambda (value) (list (list 'lambda (list value) (list 'if value value y)) x))`
  let body1 : Val := .ofList [symA cs!"list" m3,
    .ofList [symA cs!"list" m4, quoA cs!"lambda" m5, .ofList [symA cs!"list" m6, symA cs!"value" m7],
             .ofList [symA cs!"list" m8, quoA cs!"if" m9, symA cs!"value" m10, symA cs!"value" m11, symA cs!"y" m12]],
    symA cs!"x" m13]
  let clo : Val := .fn .lambda .nil (.ofList [symA cs!"value" m2]) body1 env cs!"prelude"
  have hclo : makeFunctionInternal [.cons (symA cs!"value" m2) (nilA n1), body1] env cs!"prelude" cs!"lambda" .lambda =
      .ok clo := rfl
  generalize hE1 : Val.cons (.cons (symA cs!"value" m2) (.sym (.gen (st.gensym + 0)))) env = env1
  have hE1' := hE1.symm
  -- the body of the closure, in the state with one more generated symbol
  have hbody : Ref.Eval (globalsOf st) env1 cs!"prelude" d body1
      (.ok (.ofList [.ofList [symA cs!"lambda" m5, .ofList [.sym (.gen (st.gensym + 0))],
                              .ofList [symA cs!"if" m9, .sym (.gen (st.gensym + 0)), .sym (.gen (st.gensym + 0)), y]], x])) := by
    refine ev_prim hd0 rfl (ev_global hd1 (by lk2 hE1' hE) hwl) hwlg rfl (evs_two ?_ (ev_local hd1 (by lk2 hE1' hE))) rfl
    refine ev_prim hd1 rfl (ev_global hd2 (by lk2 hE1' hE) hwl) hwlg rfl (evs_three (ev_quoA hd2) ?_ ?_) rfl
    · exact ev_prim hd2 rfl (ev_global hd3 (by lk2 hE1' hE) hwl) hwlg rfl (evs_one (ev_local hd3 (by lk hE1'))) rfl
    · exact ev_prim hd2 rfl (ev_global hd3 (by lk2 hE1' hE) hwl) hwlg rfl
        (.cons (ev_quoA hd3) (.cons (ev_local hd3 (by lk hE1')) (.cons (ev_local hd3 (by lk hE1'))
          (.cons (ev_local hd3 (by lk2 hE1' hE)) .nil)))) rfl
  have hrun : RunsG st PreludeX.or_body env cs!"prelude" d
      (.ok (.ofList [.ofList [symA cs!"lambda" m5, .ofList [.sym (.gen (st.gensym + 0))],
                              .ofList [symA cs!"if" m9, .sym (.gen (st.gensym + 0)), .sym (.gen (st.gensym + 0)), y]], x])) 0 1 := by
    rw [hb]
    refine RunsG.callClosure hatt (first := .ofList [symA cs!"lambda" m1, .cons (symA cs!"value" m2) (nilA n1), body1])
      (operands := [.ofList [symA cs!"gensym" m14]]) hd0 rfl rfl
      (RunsG.of_pure (RunsJ.of_eval hs0 (hclo ▸ ev_lambda hd1))) rfl
      (RunsArgsG.cons (RunsG.callGensym hatt hd1 (listToVec_ofList _) rfl
        (RunsG.of_pure (RunsJ.of_eval hs0 (ev_global hd2 (by lk hE) hwg))) hwgg) (RunsArgsG.nil _ _ _ _ _))
      (pair1 _ _ _ _) ?_
    rw [hE1]
    exact RunsG.of_pure (RunsJ.of_eval hs1 hbody)
  obtain ⟨fuel, k, h⟩ := hrun.at_zero
  exact ⟨fuel, k, symA cs!"lambda" m5, symA cs!"if" m9, .nil, .nil, .nil, rfl, rfl, rfl, rfl, rfl, h⟩

/-- the fresh symbols `g, g+1, …, g+n-1` -/
def freshSyms (g n : Nat) : List Val := (List.range n).map fun i => Val.sym (.gen (g + i))


section helpers
open Pici.Ref

theorem freshSyms_succ (g n : Nat) : freshSyms g (n + 1) = .sym (.gen g) :: freshSyms (g + 1) n := by
  simp only [freshSyms, List.range_succ_eq_map, List.map_cons, List.map_map, Nat.add_zero]
  congr 1
  apply List.map_congr_left
  intro i _
  simp only [Function.comp]
  congr 2
  omega

theorem freshSyms_length (g n : Nat) : (freshSyms g n).length = n := by
  simp [freshSyms]

/-- the helper `-map` applied to the closure `(lambda (_) (gensym))`: one fresh symbol per element, in order of the
elements, last one first, in front of `init`; the symbol counter advances by the number of elements -/
theorem fmap_gensym {st : St} (hl : Loaded st) {wg : Val} (hwg : st.getGlobal cs!"gensym" cs!"prelude" = .found wg)
    (hwgg : wg.get = .native .gensym) (clo cenv : Val) (pm gm : Meta)
    (hclo : clo.get = .fn .lambda .nil (.ofList [symA cs!"_" pm]) (.ofList [symA cs!"gensym" gm]) cenv cs!"prelude")
    (hcenv : lookupEnv (.named cs!"gensym") cenv = none)
    (d : Nat) (hd : d + 4 ≤ Config.maxRecursionDepth) (t : Val) (ht : t.isNil = true) :
    ∀ (xs : List Val) (g : Nat) (acc env : Val),
      pairParamsAndArgs Prelude.f_map_rest Prelude.f_map_params .nil none [clo, xs.foldr Val.cons t, acc] = .ok env →
      RunsG st Prelude.f_map_body env cs!"prelude" d
        (.ok ((freshSyms (st.gensym + g) xs.length).reverse.foldr Val.cons acc)) g (g + xs.length) := by
  obtain ⟨p1, p2, p3, hp⟩ := Prelude.f_map_params_shape
  obtain ⟨m1, m2, m3, m4, m5, m6, m7, m8, m9, m10, m11, m12, hb⟩ := Prelude.f_map_body_shape
  obtain ⟨wf, hwf, hwfg⟩ := hl.prelude _ _ Prelude.f_map_mem
  obtain ⟨wcar, hwcar, hwcarg⟩ := hl.native .car (by decide)
  obtain ⟨wcdr, hwcdr, hwcdrg⟩ := hl.native .cdr (by decide)
  obtain ⟨wcons, hwcons, hwconsg⟩ := hl.native .cons (by decide)
  have hatt := hl.detached
  have hs := hl.seesG
  have hwg' : globalsOf st cs!"gensym" cs!"prelude" = .found wg := hwg
  have hd0 : d ≤ Config.maxRecursionDepth := by omega
  have hd1 : d + 1 ≤ Config.maxRecursionDepth := by omega
  have hd2 : d + 1 + 1 ≤ Config.maxRecursionDepth := by omega
  have hd3 : d + 1 + 1 + 1 ≤ Config.maxRecursionDepth := by omega
  have hd4 : d + 1 + 1 + 1 + 1 ≤ Config.maxRecursionDepth := by omega
  intro xs
  induction xs with
  | nil =>
    intro g acc env henv
    have hE : env = .cons (.cons (symA cs!"init" p3) acc) (.cons (.cons (symA cs!"things" p2) t)
        (.cons (.cons (symA cs!"f" p1) clo) .nil)) := by
      rw [hp, Prelude.f_map_rest_eq, pair3] at henv
      exact (Res.ok.inj henv).symm
    rw [hb]
    exact RunsG.of_pure (RunsJ.of_eval (hs g) (ev_if_false hd0 (ev_local hd1 (by lk hE)) ht (ev_local hd0 (by lk hE))))
  | cons x xs ih =>
    intro g acc env henv
    have hE : env = .cons (.cons (symA cs!"init" p3) acc) (.cons (.cons (symA cs!"things" p2) (.cons x (xs.foldr Val.cons t)))
        (.cons (.cons (symA cs!"f" p1) clo) .nil)) := by
      rw [hp, Prelude.f_map_rest_eq, pair3] at henv
      exact (Res.ok.inj henv).symm
    have hpair : pairParamsAndArgs Prelude.f_map_rest Prelude.f_map_params .nil none
        [clo, xs.foldr Val.cons t, .cons (.sym (.gen (st.gensym + g))) acc] =
        .ok (.cons (.cons (symA cs!"init" p3) (.cons (.sym (.gen (st.gensym + g))) acc))
          (.cons (.cons (symA cs!"things" p2) (xs.foldr Val.cons t)) (.cons (.cons (symA cs!"f" p1) clo) .nil))) := by
      rw [hp, Prelude.f_map_rest_eq, pair3]
    have hih := ih (g + 1) _ _ hpair
    rw [List.length_cons, freshSyms_succ, foldr_cons_reverse_cons, show g + (xs.length + 1) = g + 1 + xs.length by omega,
      show st.gensym + g + 1 = st.gensym + (g + 1) by omega, hb]
    refine RunsG.ifTrue hatt hd0 (RunsG.of_pure (RunsJ.of_eval (hs g) (ev_local hd1 (by lk hE)))) rfl ?_
    refine RunsG.callClosure hatt hd0 (listToVec_ofList _) rfl
      (RunsG.of_pure (RunsJ.of_eval (hs g) (ev_global hd1 (by lk hE) hwf))) (hwfg.trans Prelude.f_map_fn_eq)
      (RunsArgsG.cons (RunsG.of_pure (RunsJ.of_eval (hs g) (ev_local hd1 (by lk hE))))
        (RunsArgsG.cons (RunsG.of_pure (RunsJ.of_eval (hs g) ?_)) (RunsArgsG.cons ?_ (RunsArgsG.nil _ _ _ _ _))))
      hpair hih
    · -- `(cdr things)`
      exact ev_prim hd1 rfl (ev_global hd2 (by lk hE) hwcdr) hwcdrg rfl (evs_one (ev_local hd2 (by lk hE)))
        (prim_cdr _ x _ _ rfl)
    · -- `(cons (f (car things)) init)`: the call of `f` two levels below the body generates the symbol
      refine RunsG.callPrim hatt hd1 (listToVec_ofList _) rfl
        (RunsG.of_pure (RunsJ.of_eval (hs g) (ev_global hd2 (by lk hE) hwcons))) hwconsg rfl
        (RunsArgsG.cons ?_ (RunsArgsG.cons (RunsG.of_pure (RunsJ.of_eval (hs (g + 1)) (ev_local hd2 (by lk hE))))
          (RunsArgsG.nil _ _ _ _ _))) rfl
      refine RunsG.callClosure (args := [x]) hatt hd2 (listToVec_ofList _) rfl
        (RunsG.of_pure (RunsJ.of_eval (hs g) (ev_local hd3 (by lk hE)))) hclo
        (RunsArgsG.of_pure (RunsArgsJ.of_evalArgs (hs g) (evs_one ?_))) (pair1 _ _ _ _) ?_
      · exact ev_prim hd3 rfl (ev_global hd4 (by lk hE) hwcar) hwcarg rfl (evs_one (ev_local hd4 (by lk hE)))
          (prim_car _ x _ _ rfl)
      · refine RunsG.callGensym hatt hd2 (listToVec_ofList _) rfl
          (RunsG.of_pure (RunsJ.of_eval (hs g) (ev_global hd3 ?_ hwg'))) hwgg
        rw [lookupEnv_miss _ _ _ _ _ (by decide)]
        exact hcenv

end helpers

/-- `(block b1 … bn e)` expands to `((lambda (g1 … gn) e) b1 … bn)` with n fresh symbols: every form occurs exactly once,
the forms before the last as operands (evaluated left to right), the last one as the body -/
theorem block_expands (st : St) (hl : LoadedX st) (bs : List Val) (e : Val) (env : Val) (d : Nat)
    (hd : d + bs.length + 24 ≤ Config.maxRecursionDepth)
    (henv : callEnv PreludeX.block_rest PreludeX.block_params (bs ++ [e]) = some env) :
    ∃ fuel k lambdaV t1 t2 t3, lambdaV.isSymNamed cs!"lambda" = true ∧ t1.isNil = true ∧ t2.isNil = true ∧ t3.isNil = true ∧
      evalInternal fuel st PreludeX.block_body env cs!"prelude" d =
        (.ok (.cons (.cons lambdaV (.cons ((freshSyms st.gensym bs.length).foldr Val.cons t1) (.cons e t2))) (bs.foldr Val.cons t3)),
         { bump st k with gensym := st.gensym + bs.length }) := by
  obtain ⟨p, hp⟩ := PreludeX.block_rest_shape
  obtain ⟨m1, m2, m3, m4, m5, m6, m7, m8, m9, m10, m11, m12, m13, m14, m15, m16, m17, m18, m19, m20, m21, m22, m23,
    n1, n2, n3, n4, hb⟩ := PreludeX.block_body_shape
  obtain ⟨qi, hqi⟩ := Prelude.init_params_shape
  obtain ⟨ql, hql⟩ := Prelude.last_params_shape
  obtain ⟨qm1, qm2, hqm⟩ := Prelude.map_params_shape
  obtain ⟨qf1, qf2, qf3, hqf⟩ := Prelude.f_map_params_shape
  obtain ⟨qr, hqr⟩ := Prelude.reverse_params_shape
  obtain ⟨k1, k2, k3, k4, k5, hmb⟩ := Prelude.map_body_shape
  have hlb := hl.base
  have hE : env = .cons (.cons (symA cs!"body" p) (.ofList (bs ++ [e]))) .nil := by
    have := callEnv_ok henv
    rw [hp, PreludeX.block_params_eq, pairRest] at this
    exact (Res.ok.inj this).symm
  obtain ⟨winit, hwinit, hwinitg⟩ := hlb.prelude _ _ Prelude.init_mem
  obtain ⟨wlast, hwlast, hwlastg⟩ := hlb.prelude _ _ Prelude.last_mem
  obtain ⟨wmap, hwmap, hwmapg⟩ := hlb.prelude _ _ Prelude.map_mem
  obtain ⟨wfmap, hwfmap, hwfmapg⟩ := hlb.prelude _ _ Prelude.f_map_mem
  obtain ⟨wrev, hwrev, hwrevg⟩ := hlb.prelude _ _ Prelude.reverse_mem
  obtain ⟨wcons, hwcons, hwconsg⟩ := hlb.native .cons (by decide)
  obtain ⟨wl, hwl, hwlg⟩ := hlb.native .list (by decide)
  obtain ⟨tail, htail, htailp⟩ := hlb.nil
  obtain ⟨wg, hwg, hwgg⟩ := hl.gensymN
  have hatt := hlb.detached
  have hs := hlb.seesG
  have hd0 : d ≤ Config.maxRecursionDepth := by omega
  have hd1 : d + 1 ≤ Config.maxRecursionDepth := by omega
  have hd2 : d + 1 + 1 ≤ Config.maxRecursionDepth := by omega
  have hd3 : d + 1 + 1 + 1 ≤ Config.maxRecursionDepth := by omega
  -- the forms of the body
  let consForm : Val := .ofList [symA cs!"cons" m8,
    .ofList [symA cs!"list" m9, quoA cs!"lambda" m10, symA cs!"params" m11, symA cs!"end" m12], symA cs!"init-body" m13]
  let lam2Form : Val := .ofList [symA cs!"lambda" m5, .cons (symA cs!"params" m6) (.cons (symA cs!"end" m7) (nilA n2)), consForm]
  let gensymLam : Val := .ofList [symA cs!"lambda" m15, .ofList [symA cs!"_" m16], .ofList [symA cs!"gensym" m17]]
  let mapForm : Val := .ofList [symA cs!"map" m14, gensymLam, symA cs!"init-body" m18]
  let lastForm : Val := .ofList [symA cs!"last" m19, symA cs!"body" m20]
  let body1 : Val := .cons lam2Form (.cons mapForm (.cons lastForm (nilA n3)))
  let lam1Form : Val := .ofList [symA cs!"lambda" m3, .cons (symA cs!"init-body" m4) (nilA n1), body1]
  let initForm : Val := .ofList [symA cs!"init" m21, symA cs!"body" m22]
  -- `(init body)`: all forms but the last
  have hpairI : pairParamsAndArgs Prelude.init_rest Prelude.init_params .nil none [Val.ofList (bs ++ [e])] =
      .ok (.cons (.cons (symA cs!"things" qi) (.ofList (bs ++ [e]))) .nil) := by
    rw [hqi, Prelude.init_rest_eq, pair1]
  have hinit := init_eval hlb tail htail (bs ++ [e]) (d + 1) (by rw [List.length_append]; simp only [List.length_singleton]; omega)
    _ hpairI
  rw [List.dropLast_concat] at hinit
  have hevalI : Ref.Eval (globalsOf st) env cs!"prelude" (d + 1) initForm (.ok (bs.foldr Val.cons tail)) :=
    ev_call hd1 rfl (ev_global hd2 (by lk hE) hwinit) (hwinitg.trans Prelude.init_fn_eq)
      (evs_one (ev_local hd2 (by lk hE))) hpairI hinit
  -- the first closure and its environment
  let clo1 : Val := .fn .lambda .nil (.ofList [symA cs!"init-body" m4]) body1 env cs!"prelude"
  have hclo1 : makeFunctionInternal [.cons (symA cs!"init-body" m4) (nilA n1), body1] env cs!"prelude" cs!"lambda" .lambda =
      .ok clo1 := rfl
  generalize hE1 : Val.cons (.cons (symA cs!"init-body" m4) (bs.foldr Val.cons tail)) env = env1
  have hE1' := hE1.symm
  -- `(last body)`
  have hpairL : pairParamsAndArgs Prelude.last_rest Prelude.last_params .nil none [Val.ofList (bs ++ [e])] =
      .ok (.cons (.cons (symA cs!"things" ql) (.ofList (bs ++ [e]))) .nil) := by
    rw [hql, Prelude.last_rest_eq, pair1]
  have hevalL : Ref.Eval (globalsOf st) env1 cs!"prelude" (d + 1) lastForm (.ok e) :=
    ev_call hd1 rfl (ev_global hd2 (by lk2 hE1' hE) hwlast) (hwlastg.trans Prelude.last_fn_eq)
      (evs_one (ev_local hd2 (by lk2 hE1' hE))) hpairL (last_eval hlb (d + 1) (by omega) e bs _ hpairL)
  -- `(map (lambda (_) (gensym)) init-body)`: one fresh symbol per form
  let cloG : Val := .fn .lambda .nil (.ofList [symA cs!"_" m16]) (.ofList [symA cs!"gensym" m17]) env1 cs!"prelude"
  have hcloG : makeFunctionInternal [.ofList [symA cs!"_" m16], .ofList [symA cs!"gensym" m17]] env1 cs!"prelude"
      cs!"lambda" .lambda = .ok cloG := rfl
  have hpairM : pairParamsAndArgs Prelude.map_rest Prelude.map_params .nil none [cloG, bs.foldr Val.cons tail] =
      .ok (.cons (.cons (symA cs!"things" qm2) (bs.foldr Val.cons tail)) (.cons (.cons (symA cs!"f" qm1) cloG) .nil)) := by
    rw [hqm, Prelude.map_rest_eq, pair2]
  generalize hEM : Val.cons (.cons (symA cs!"things" qm2) (bs.foldr Val.cons tail)) (.cons (.cons (symA cs!"f" qm1) cloG) .nil) = envM
    at hpairM
  have hEM' := hEM.symm
  have hpairF : pairParamsAndArgs Prelude.f_map_rest Prelude.f_map_params .nil none [cloG, bs.foldr Val.cons tail, tail] =
      .ok (.cons (.cons (symA cs!"init" qf3) tail) (.cons (.cons (symA cs!"things" qf2) (bs.foldr Val.cons tail))
        (.cons (.cons (symA cs!"f" qf1) cloG) .nil))) := by
    rw [hqf, Prelude.f_map_rest_eq, pair3]
  have hfmap := fmap_gensym hlb hwg hwgg cloG env1 m16 m17 rfl (by lk2 hE1' hE) (d + 1 + 1) (by omega) tail htailp
    bs 0 tail _ hpairF
  rw [Nat.zero_add] at hfmap
  have hpairR : pairParamsAndArgs Prelude.reverse_rest Prelude.reverse_params .nil none
      [(freshSyms (st.gensym + 0) bs.length).reverse.foldr Val.cons tail] =
      .ok (.cons (.cons (symA cs!"things" qr) ((freshSyms (st.gensym + 0) bs.length).reverse.foldr Val.cons tail)) .nil) := by
    rw [hqr, Prelude.reverse_rest_eq, pair1]
  have hrev := reverse_runs (hlb.withG bs.length) (freshSyms (st.gensym + 0) bs.length).reverse tail htailp _ (d + 1)
    (by omega) tail htail hpairR
  rw [List.reverse_reverse] at hrev
  have hmapBody : RunsG st Prelude.map_body envM cs!"prelude" (d + 1)
      (.ok ((freshSyms (st.gensym + 0) bs.length).foldr Val.cons tail)) 0 bs.length := by
    rw [hmb]
    refine RunsG.callClosure hatt hd1 (listToVec_ofList _) rfl
      (RunsG.of_pure (RunsJ.of_eval (hs 0) (ev_global hd2 (by lk hEM') hwrev))) (hwrevg.trans Prelude.reverse_fn_eq)
      (RunsArgsG.cons ?_ (RunsArgsG.nil _ _ _ _ _)) hpairR (RunsG.of_pure hrev)
    exact RunsG.callClosure hatt hd2 (listToVec_ofList _) rfl
      (RunsG.of_pure (RunsJ.of_eval (hs 0) (ev_global hd3 (by lk hEM') hwfmap))) (hwfmapg.trans Prelude.f_map_fn_eq)
      (RunsArgsG.of_pure (RunsArgsJ.of_evalArgs (hs 0) (evs_three (ev_local hd3 (by lk hEM')) (ev_local hd3 (by lk hEM'))
        (ev_global hd3 (by lk hEM') htail))))
      hpairF hfmap
  have hmapCall : RunsG st mapForm env1 cs!"prelude" (d + 1)
      (.ok ((freshSyms (st.gensym + 0) bs.length).foldr Val.cons tail)) 0 bs.length :=
    RunsG.callClosure hatt hd1 (listToVec_ofList _) rfl
      (RunsG.of_pure (RunsJ.of_eval (hs 0) (ev_global hd2 (by lk2 hE1' hE) hwmap))) (hwmapg.trans Prelude.map_fn_eq)
      (RunsArgsG.of_pure (RunsArgsJ.of_evalArgs (hs 0) (evs_two (hcloG ▸ ev_lambda hd2) (ev_local hd2 (by lk hE1')))))
      hpairM hmapBody
  -- the second closure and its body
  let clo2 : Val := .fn .lambda .nil (.ofList [symA cs!"params" m6, symA cs!"end" m7]) consForm env1 cs!"prelude"
  have hclo2 : makeFunctionInternal [.cons (symA cs!"params" m6) (.cons (symA cs!"end" m7) (nilA n2)), consForm] env1
      cs!"prelude" cs!"lambda" .lambda = .ok clo2 := rfl
  generalize hE2 : Val.cons (.cons (symA cs!"end" m7) e)
    (.cons (.cons (symA cs!"params" m6) ((freshSyms (st.gensym + 0) bs.length).foldr Val.cons tail)) env1) = env2
  have hE2' := hE2.symm
  have hevalC : Ref.Eval (globalsOf st) env2 cs!"prelude" d consForm
      (.ok (.cons (.ofList [symA cs!"lambda" m10, (freshSyms (st.gensym + 0) bs.length).foldr Val.cons tail, e])
        (bs.foldr Val.cons tail))) := by
    refine ev_prim hd0 rfl (ev_global hd1 (by simp only [hE2']; lk2 hE1' hE) hwcons) hwconsg rfl
      (evs_two ?_ (ev_local hd1 (by simp only [hE2']; lk hE1'))) rfl
    exact ev_prim hd1 rfl (ev_global hd2 (by simp only [hE2']; lk2 hE1' hE) hwl) hwlg rfl
      (evs_three (ev_quoA hd2) (ev_local hd2 (by lk hE2')) (ev_local hd2 (by lk hE2'))) rfl
  -- the whole body
  have hne : (Val.ofList (bs ++ [e])).isNil = false := by cases bs <;> rfl
  have hrun : RunsG st PreludeX.block_body env cs!"prelude" d
      (.ok (.cons (.ofList [symA cs!"lambda" m10, (freshSyms (st.gensym + 0) bs.length).foldr Val.cons tail, e])
        (bs.foldr Val.cons tail))) 0 bs.length := by
    rw [hb]
    refine RunsG.ifTrue hatt hd0 (RunsG.of_pure (RunsJ.of_eval (hs 0) (ev_local hd1 (by lk hE)))) hne ?_
    refine RunsG.callClosure hatt (first := lam1Form) (operands := [initForm]) hd0 rfl rfl
      (RunsG.of_pure (RunsJ.of_eval (hs 0) (hclo1 ▸ ev_lambda hd1))) rfl
      (RunsArgsG.of_pure (RunsArgsJ.of_evalArgs (hs 0) (evs_one hevalI))) (pair1 _ _ _ _) ?_
    rw [hE1]
    refine RunsG.callClosure hatt (first := lam2Form) (operands := [mapForm, lastForm]) hd0 rfl rfl
      (RunsG.of_pure (RunsJ.of_eval (hs 0) (hclo2 ▸ ev_lambda hd1))) rfl
      (RunsArgsG.cons hmapCall (RunsArgsG.cons (RunsG.of_pure (RunsJ.of_eval (hs bs.length) hevalL))
        (RunsArgsG.nil _ _ _ _ _))) (pair2 _ _ _ _ _ _) ?_
    rw [hE2]
    exact RunsG.of_pure (RunsJ.of_eval (hs bs.length) hevalC)
  obtain ⟨fuel, k, h⟩ := hrun.at_zero
  exact ⟨fuel, k, symA cs!"lambda" m10, tail, .nil, tail, rfl, htailp, rfl, htailp, h⟩

/-- `(block)` is nil -/
theorem block_empty (st : St) (hl : LoadedX st) (env : Val) (d : Nat)
    (hd : d + 8 ≤ Config.maxRecursionDepth)
    (henv : callEnv PreludeX.block_rest PreludeX.block_params [] = some env) :
    ∃ fuel k r, r.isNil = true ∧ evalInternal fuel st PreludeX.block_body env cs!"prelude" d = (.ok r, bump st k) := by
  obtain ⟨p, hp⟩ := PreludeX.block_rest_shape
  obtain ⟨m1, m2, m3, m4, m5, m6, m7, m8, m9, m10, m11, m12, m13, m14, m15, m16, m17, m18, m19, m20, m21, m22, m23,
    n1, n2, n3, n4, hb⟩ := PreludeX.block_body_shape
  have hlb := hl.base
  have hE : env = .cons (.cons (symA cs!"body" p) (.ofList [])) .nil := by
    have := callEnv_ok henv
    rw [hp, PreludeX.block_params_eq, pairRest] at this
    exact (Res.ok.inj this).symm
  obtain ⟨nilV, hnil, hnilp⟩ := hlb.nil
  rw [hb]
  exact ex_reorder1 nilV hnilp (hlb.realise
    (ev_if_false (by omega) (ev_local (by omega) (by lk hE)) rfl (ev_global (by omega) (by lk hE) hnil)))


section helpers
open Pici.Ref

/-- the stored body of `<=` and `>=`: `((lambda (g) (if g g (= x y))) (cmp x y))` on two integers, for a comparison
primitive `cmp` that computes `lt` -/
theorem or_cmp_eval {st : St} (hl : Loaded st) (id : NativeId) (hid : id ∈ [NativeId.less, .greater])
    (lt : Int → Int → Prop) [∀ a b, Decidable (lt a b)]
    (hprim : ∀ (a b : Val) (x y : Int) (dd : Nat), a.get = .num x → b.get = .num y → inRange x = true → inRange y = true →
      primResult id [a, b] dd = .ok (if lt x y then .symName cs!"t" else .nil))
    (x y : Int) (hx : inRange x = true) (hy : inRange y = true) (g : Nat) (m1 m2 m3 m4 m5 m6 m7 m8 p1 p2 : Meta)
    (d : Nat) (hd : d + 3 ≤ Config.maxRecursionDepth) :
    ∃ r, (r.isNil = false ↔ (lt x y ∨ x = y)) ∧
      Eval (globalsOf st) (.cons (.cons (symA cs!"y" p2) (.num y)) (.cons (.cons (symA cs!"x" p1) (.num x)) .nil)) cs!"prelude" d
        (.ofList [.ofList [symA cs!"lambda" m1, .ofList [.sym (.gen g)],
                   .ofList [symA cs!"if" m2, .sym (.gen g), .sym (.gen g), .ofList [symA cs!"=" m3, symA cs!"x" m4, symA cs!"y" m5]]],
                 .ofList [symA id.name m6, symA cs!"x" m7, symA cs!"y" m8]]) (.ok r) := by
  have hcore : corePrim id = true := by
    simp only [List.mem_cons, List.not_mem_nil, or_false] at hid
    rcases hid with rfl | rfl <;> rfl
  obtain ⟨wop, hwop, hwopg⟩ := hl.native id (by
    simp only [List.mem_cons, List.not_mem_nil, or_false] at hid
    rcases hid with rfl | rfl <;> decide)
  obtain ⟨weq, hweq, hweqg⟩ := hl.native .equal (by decide)
  have hnx : id.name ≠ cs!"x" := by
    simp only [List.mem_cons, List.not_mem_nil, or_false] at hid
    rcases hid with rfl | rfl <;> decide
  have hny : id.name ≠ cs!"y" := by
    simp only [List.mem_cons, List.not_mem_nil, or_false] at hid
    rcases hid with rfl | rfl <;> decide
  have hsp : isSpecial (symA id.name m6) = false := by
    simp only [List.mem_cons, List.not_mem_nil, or_false] at hid
    rcases hid with rfl | rfl <;> rfl
  have hd0 : d ≤ Config.maxRecursionDepth := by omega
  have hd1 : d + 1 ≤ Config.maxRecursionDepth := by omega
  have hd2 : d + 1 + 1 ≤ Config.maxRecursionDepth := by omega
  generalize hE : Val.cons (.cons (symA cs!"y" p2) (.num y)) (.cons (.cons (symA cs!"x" p1) (.num x)) .nil) = env
  have hE := hE.symm
  have hlook : lookupEnv (.named id.name) env = none := by
    rw [hE, lookupEnv_miss _ _ _ _ _ hny.symm, lookupEnv_miss _ _ _ _ _ hnx.symm, lookupEnv_nil]
  -- the closure and the comparison
  let ifb : Val := .ofList [symA cs!"if" m2, .sym (.gen g), .sym (.gen g), .ofList [symA cs!"=" m3, symA cs!"x" m4, symA cs!"y" m5]]
  let clo : Val := .fn .lambda .nil (.ofList [.sym (.gen g)]) ifb env cs!"prelude"
  have hclo : makeFunctionInternal [.ofList [.sym (.gen g)], ifb] env cs!"prelude" cs!"lambda" .lambda = .ok clo := rfl
  have hcmp : Eval (globalsOf st) env cs!"prelude" (d + 1) (.ofList [symA id.name m6, symA cs!"x" m7, symA cs!"y" m8])
      (.ok (if lt x y then .symName cs!"t" else .nil)) :=
    ev_prim hd1 hsp (ev_global hd2 hlook hwop) hwopg hcore
      (evs_two (ev_local hd2 (by lk hE)) (ev_local hd2 (by lk hE))) (hprim _ _ x y _ rfl rfl hx hy)
  by_cases hlt : lt x y
  · rw [if_pos hlt] at hcmp
    refine ⟨.symName cs!"t", ⟨fun _ => Or.inl hlt, fun _ => rfl⟩, ?_⟩
    refine ev_call hd0 rfl (hclo ▸ ev_lambda hd1) rfl (evs_one hcmp) (pair1 _ _ _ _) ?_
    exact ev_if_true hd0 (ev_localGen hd1 (lookupEnv_hitGen _ _ _)) rfl (ev_localGen hd0 (lookupEnv_hitGen _ _ _))
  · rw [if_neg hlt] at hcmp
    refine ⟨if equalInternal (.num x) (.num y) then .symName cs!"t" else .nil, ?_, ?_⟩
    · rw [equalInternal_num]
      by_cases hxy : x = y
      · subst hxy
        have : (x == x) = true := by simp
        rw [this, if_pos rfl]
        exact ⟨fun _ => Or.inr rfl, fun _ => rfl⟩
      · have : (x == y) = false := by simpa using hxy
        rw [this, if_neg (by decide)]
        constructor
        · intro h; cases h
        · rintro (h | h)
          · exact absurd h hlt
          · exact absurd h hxy
    refine ev_call hd0 rfl (hclo ▸ ev_lambda hd1) rfl (evs_one hcmp) (pair1 _ _ _ _) ?_
    refine ev_if_false hd0 (ev_localGen hd1 (lookupEnv_hitGen _ _ _)) rfl ?_
    exact ev_prim hd0 rfl (ev_global hd1 (by rw [lookupEnv_missGen]; lk hE) hweq) hweqg rfl
      (evs_two (ev_local hd1 (by rw [lookupEnv_missGen]; lk hE)) (ev_local hd1 (by rw [lookupEnv_missGen]; lk hE)))
      (prim_equal _ _ _)

end helpers

/-- `(/= x y)` is true exactly when `(= x y)` is not -/
theorem noteq_spec (st : St) (hl : LoadedX st) (x y : Val) (env : Val) (d : Nat)
    (hd : d + 8 ≤ Config.maxRecursionDepth)
    (henv : callEnv PreludeX.slasheq_rest PreludeX.slasheq_params [x, y] = some env) :
    ∃ fuel k r, (r.isNil = equalInternal x y) ∧
      evalInternal fuel st PreludeX.slasheq_body env cs!"prelude" d = (.ok r, bump st k) := by
  obtain ⟨p1, p2, hp⟩ := PreludeX.slasheq_params_shape
  obtain ⟨m1, m2, m3, m4, m5, hb⟩ := PreludeX.slasheq_body_shape
  rw [hp, PreludeX.slasheq_rest_eq] at henv
  have hE := callEnv2 henv
  have hlb := hl.base
  obtain ⟨weq, hweq, hweqg⟩ := hlb.native .equal (by decide)
  obtain ⟨tV, ht, htp⟩ := hlb.t
  have hd0 : d ≤ Config.maxRecursionDepth := by omega
  have hd1 : d + 1 ≤ Config.maxRecursionDepth := by omega
  have hd2 : d + 1 + 1 ≤ Config.maxRecursionDepth := by omega
  have hc : Ref.Eval (globalsOf st) env cs!"prelude" (d + 1) (.ofList [symA cs!"=" m2, symA cs!"x" m3, symA cs!"y" m4])
      (.ok (if equalInternal x y then .symName cs!"t" else .nil)) :=
    ev_prim hd1 rfl (ev_global hd2 (by lk hE) hweq) hweqg rfl
      (evs_two (ev_local hd2 (by lk hE)) (ev_local hd2 (by lk hE))) (prim_equal x y _)
  rw [hb]
  cases hxy : equalInternal x y with
  | true =>
    rw [hxy, if_pos rfl] at hc
    exact ex_reorder1 .nil rfl (hlb.realise (ev_if_true hd0 hc rfl (ev_nil hd0)))
  | false =>
    rw [hxy, if_neg (by decide)] at hc
    exact ex_reorder1 tV htp (hlb.realise (ev_if_false hd0 hc rfl (ev_global hd0 (by lk hE) ht)))

/-- `(<= x y)` on integers: true exactly when x ≤ y -/
theorem lteq_spec (st : St) (hl : LoadedX st) (x y : Int) (env : Val) (d : Nat)
    (hx : i64Min ≤ x ∧ x ≤ i64Max) (hy : i64Min ≤ y ∧ y ≤ i64Max)
    (hd : d + 8 ≤ Config.maxRecursionDepth)
    (henv : callEnv PreludeX.lteq_rest PreludeX.lteq_params [.num x, .num y] = some env) :
    ∃ fuel k r, (r.isNil = false ↔ x ≤ y) ∧
      evalInternal fuel st PreludeX.lteq_body env cs!"prelude" d = (.ok r, bump st k) := by
  obtain ⟨p1, p2, hp⟩ := PreludeX.lteq_params_shape
  obtain ⟨g, m1, m2, m3, m4, m5, m6, m7, m8, hb⟩ := PreludeX.lteq_body_shape
  rw [hp, PreludeX.lteq_rest_eq] at henv
  have hE := callEnv2 henv
  obtain ⟨r, hr, hev⟩ := or_cmp_eval hl.base .less (by decide) (· < ·) (fun a b x y dd ha hb hx hy => prim_less a b x y dd ha hb hx hy)
    x y (inRange_of_bounds hx) (inRange_of_bounds hy) g m1 m2 m3 m4 m5 m6 m7 m8 p1 p2 d (by omega)
  rw [hb, hE]
  refine ex_reorder1 r ?_ (hl.base.realise hev)
  rw [hr]
  omega

/-- `(>= x y)` on integers: true exactly when x ≥ y -/
theorem gteq_spec (st : St) (hl : LoadedX st) (x y : Int) (env : Val) (d : Nat)
    (hx : i64Min ≤ x ∧ x ≤ i64Max) (hy : i64Min ≤ y ∧ y ≤ i64Max)
    (hd : d + 8 ≤ Config.maxRecursionDepth)
    (henv : callEnv PreludeX.gteq_rest PreludeX.gteq_params [.num x, .num y] = some env) :
    ∃ fuel k r, (r.isNil = false ↔ y ≤ x) ∧
      evalInternal fuel st PreludeX.gteq_body env cs!"prelude" d = (.ok r, bump st k) := by
  obtain ⟨p1, p2, hp⟩ := PreludeX.gteq_params_shape
  obtain ⟨g, m1, m2, m3, m4, m5, m6, m7, m8, hb⟩ := PreludeX.gteq_body_shape
  rw [hp, PreludeX.gteq_rest_eq] at henv
  have hE := callEnv2 henv
  obtain ⟨r, hr, hev⟩ := or_cmp_eval hl.base .greater (by decide) (fun a b => b < a)
    (fun a b x y dd ha hb hx hy => prim_greater a b x y dd ha hb hx hy)
    x y (inRange_of_bounds hx) (inRange_of_bounds hy) g m1 m2 m3 m4 m5 m6 m7 m8 p1 p2 d (by omega)
  rw [hb, hE]
  refine ex_reorder1 r ?_ (hl.base.realise hev)
  rw [hr]
  omega


/-! ### non-vacuity: a state in which the whole prelude is loaded -/

/-- the example state of `Props/C16.lean`, with the macro-using definitions bound to their stored (expanded) closures -/
def exStX : St := { (default : St) with
  modules := [⟨cs!"prelude", NativeId.all.map (fun id => (id.name, Val.native id)) ++
                [(cs!"nil", .nil), (cs!"t", .symName cs!"t")] ++ Prelude.table ++ PreludeX.table, none⟩],
  current := cs!"prelude" }

theorem exStX_current : HasModule exStX exStX.current := by unfold HasModule; decide +kernel

theorem exStX_base : Loaded exStX where
  detached := rfl
  current := exStX_current
  prelude := by
    have hall : Prelude.table.all (fun p => match exStX.getGlobal p.1 cs!"prelude" with
        | .found w => w.get == p.2 | _ => false) = true := by decide +kernel
    intro name v hmem
    obtain ⟨w, hw, hp⟩ := found_of_check (List.all_eq_true.mp hall (name, v) hmem)
    exact ⟨w, hw, eq_of_beq hp⟩
  natives := by
    have hall : [NativeId.cons, .car, .cdr, .add, .substract, .multiply, .less, .greater, .equal, .list, .signal].all
        (fun id => match exStX.getGlobal id.name cs!"prelude" with
          | .found w => w.get == .native id | _ => false) = true := by decide +kernel
    intro id hmem
    obtain ⟨w, hw, hp⟩ := found_of_check (List.all_eq_true.mp hall id hmem)
    exact ⟨w, hw, eq_of_beq hp⟩
  nil := found_of_check (P := Val.isNil) (by decide +kernel)
  t := by
    obtain ⟨w, hw, hp⟩ := found_of_check (l := exStX.getGlobal cs!"t" cs!"prelude") (P := fun w => !w.isNil) (by decide +kernel)
    exact ⟨w, hw, by simpa using hp⟩

theorem exStX_loaded : LoadedX exStX where
  base := exStX_base
  preludeX := by
    have hall : PreludeX.table.all (fun p => match exStX.getGlobal p.1 cs!"prelude" with
        | .found w => w.get == p.2 | _ => false) = true := by decide +kernel
    intro name v hmem
    obtain ⟨w, hw, hp⟩ := found_of_check (List.all_eq_true.mp hall (name, v) hmem)
    exact ⟨w, hw, eq_of_beq hp⟩
  gensymN := by
    obtain ⟨w, hw, hp⟩ := found_of_check (l := exStX.getGlobal cs!"gensym" cs!"prelude")
      (P := fun w => w.get == .native .gensym) (by decide +kernel)
    exact ⟨w, hw, eq_of_beq hp⟩
  nativesX := by
    have hall : [NativeId.append, .getProperty, .divide, .eval].all
        (fun id => match exStX.getGlobal id.name cs!"prelude" with
          | .found w => w.get == .native id | _ => false) = true := by decide +kernel
    intro id hmem
    obtain ⟨w, hw, hp⟩ := found_of_check (List.all_eq_true.mp hall id hmem)
    exact ⟨w, hw, eq_of_beq hp⟩

/-- `(case (a 1) (b 2))` in `exStX` expands to `(if a 1 (if b 2 nil))` -/
example : ∃ fuel k ifV nilV, ifV.isSymNamed cs!"if" = true ∧ nilV.isNil = true ∧
    evalInternal fuel exStX PreludeX.case_body
      (envOf PreludeX.case_rest PreludeX.case_params
        ([(Val.symName cs!"a", Val.num 1), (Val.symName cs!"b", Val.num 2)].map fun (c, v) => Val.ofList [c, v]))
      cs!"prelude" 0 =
    (.ok (.ofList [ifV, .symName cs!"a", .num 1, .ofList [ifV, .symName cs!"b", .num 2, nilV]]), bump exStX k) :=
  case_expands exStX exStX_loaded [(.symName cs!"a", .num 1), (.symName cs!"b", .num 2)] _ 0 (by decide) (by decide +kernel)

/-- `(or a b)` in `exStX` (whose symbol counter is 0) expands to `((lambda (g0) (if g0 g0 b)) a)` and the counter becomes 1 -/
example : ∃ fuel k lambdaV ifV t1 t2 t3, lambdaV.isSymNamed cs!"lambda" = true ∧ ifV.isSymNamed cs!"if" = true ∧
    t1.isNil = true ∧ t2.isNil = true ∧ t3.isNil = true ∧
    evalInternal fuel exStX PreludeX.or_body (envOf PreludeX.or_rest PreludeX.or_params [.symName cs!"a", .symName cs!"b"])
      cs!"prelude" 0 =
    (.ok (.cons (.cons lambdaV (.cons (.cons (.sym (.gen 0)) t1)
            (.cons (.cons ifV (.cons (.sym (.gen 0)) (.cons (.sym (.gen 0)) (.cons (.symName cs!"b") t2)))) t3)))
          (.cons (.symName cs!"a") .nil)),
     { bump exStX k with gensym := 1 }) :=
  or_expands exStX exStX_loaded (.symName cs!"a") (.symName cs!"b") _ 0 (by decide) (by decide +kernel)

/-- `(block (f) (g) x)` in `exStX` expands to `((lambda (g0 g1) x) (f) (g))` and the counter becomes 2 -/
example : ∃ fuel k lambdaV t1 t2 t3, lambdaV.isSymNamed cs!"lambda" = true ∧ t1.isNil = true ∧ t2.isNil = true ∧ t3.isNil = true ∧
    evalInternal fuel exStX PreludeX.block_body
      (envOf PreludeX.block_rest PreludeX.block_params
        ([.ofList [.symName cs!"f"], .ofList [.symName cs!"g"]] ++ [.symName cs!"x"]))
      cs!"prelude" 0 =
    (.ok (.cons (.cons lambdaV (.cons (.cons (.sym (.gen 0)) (.cons (.sym (.gen 1)) t1)) (.cons (.symName cs!"x") t2)))
           (.cons (.ofList [.symName cs!"f"]) (.cons (.ofList [.symName cs!"g"]) t3))),
     { bump exStX k with gensym := 2 }) :=
  block_expands exStX exStX_loaded [.ofList [.symName cs!"f"], .ofList [.symName cs!"g"]] (.symName cs!"x") _ 0
    (by decide) (by decide +kernel)

/-- `(<= 2 3)` is true and `(>= 2 3)` is false in `exStX` -/
example : ∃ fuel k r, r.isNil = false ∧
    evalInternal fuel exStX PreludeX.lteq_body (envOf PreludeX.lteq_rest PreludeX.lteq_params [.num 2, .num 3])
      cs!"prelude" 0 = (.ok r, bump exStX k) := by
  obtain ⟨fuel, k, r, hr, h⟩ := lteq_spec exStX exStX_loaded 2 3 (envOf PreludeX.lteq_rest PreludeX.lteq_params [.num 2, .num 3]) 0 (by decide) (by decide) (by decide) (by decide +kernel)
  exact ⟨fuel, k, r, hr.mpr (by decide), h⟩

example : ∃ fuel k r, r.isNil = true ∧
    evalInternal fuel exStX PreludeX.gteq_body (envOf PreludeX.gteq_rest PreludeX.gteq_params [.num 2, .num 3])
      cs!"prelude" 0 = (.ok r, bump exStX k) := by
  obtain ⟨fuel, k, r, hr, h⟩ := gteq_spec exStX exStX_loaded 2 3 (envOf PreludeX.gteq_rest PreludeX.gteq_params [.num 2, .num 3]) 0 (by decide) (by decide) (by decide) (by decide +kernel)
  refine ⟨fuel, k, r, ?_, h⟩
  cases hn : r.isNil with
  | true => rfl
  | false => exact absurd (hr.mp hn) (by decide)

end Pici.C16
