/-
C12 — Integer arithmetic is exact or signals; it never wraps, truncates or crashes.

Theorems about the natives `add`, `substract`, `multiply`, `divide`, `<`, `>` of the model
(`simpleNative`, which mirrors `src/native/numbers/mod.rs`) over ALL pairs of 64-bit signed integers,
and about reading back printed integer literals.
-/
import PiciModel.Model.Natives
import PiciModel.Lemmas.Numbers

namespace Pici.C12
open Pici

def overflowError (source : Name) : Val := makeError cs!"arithmetic-overflow" source []
def divZeroError : Val := makeError cs!"divide-by-zero" cs!"divide" []
def tSym : Val := .symName cs!"t"

/-- a number argument as the evaluator may hand it over: bare or inside a metadata cell -/
inductive NumArg : Val → Int → Prop where
  | bare (n : Int) : NumArg (.num n) n
  | wrapped (n : Int) (m : Meta) : NumArg (.md (.num n) m) n

theorem NumArg.get_eq {a : Val} {x : Int} (h : NumArg a x) : a.get = .num x := by
  cases h <;> rfl

theorem add_exact (st : St) (d : Nat) (a b : Val) (x y : Int) (ha : NumArg a x) (hb : NumArg b y)
    (hx : inRange x = true) (hy : inRange y = true) :
    simpleNative .add [a, b] d st =
      if inRange (x + y) then (.ok (.num (x + y)), st) else (.err (overflowError cs!"add"), st) := by
  exact arith_exact cs!"add" checkedAdd (· + ·) a b x y st ha.get_eq hb.get_eq (checkedAdd_toI64 x y hx hy)

theorem sub_exact (st : St) (d : Nat) (a b : Val) (x y : Int) (ha : NumArg a x) (hb : NumArg b y)
    (hx : inRange x = true) (hy : inRange y = true) :
    simpleNative .substract [a, b] d st =
      if inRange (x - y) then (.ok (.num (x - y)), st) else (.err (overflowError cs!"substract"), st) := by
  exact arith_exact cs!"substract" checkedSub (· - ·) a b x y st ha.get_eq hb.get_eq (checkedSub_toI64 x y hx hy)

theorem mul_exact (st : St) (d : Nat) (a b : Val) (x y : Int) (ha : NumArg a x) (hb : NumArg b y)
    (hx : inRange x = true) (hy : inRange y = true) :
    simpleNative .multiply [a, b] d st =
      if inRange (x * y) then (.ok (.num (x * y)), st) else (.err (overflowError cs!"multiply"), st) := by
  exact arith_exact cs!"multiply" checkedMul (· * ·) a b x y st ha.get_eq hb.get_eq (checkedMul_toI64 x y hx hy)

/-- division truncates toward zero (`Int.tdiv`), signals on a zero divisor, and signals overflow exactly when
the exact quotient is not representable -/
theorem div_exact (st : St) (d : Nat) (a b : Val) (x y : Int) (ha : NumArg a x) (hb : NumArg b y)
    (hx : inRange x = true) (hy : inRange y = true) :
    simpleNative .divide [a, b] d st =
      if y = 0 then (.err divZeroError, st)
      else if inRange (Int.tdiv x y) then (.ok (.num (Int.tdiv x y)), st)
      else (.err (overflowError cs!"divide"), st) := by
  exact divide_exact a b x y st ha.get_eq hb.get_eq hx hy

/-- the only unrepresentable quotient is `MIN / -1` -/
theorem div_overflow_iff (x y : Int) (hx : inRange x = true) (hy : inRange y = true) (h0 : y ≠ 0) :
    inRange (Int.tdiv x y) = false ↔ (x = i64Min ∧ y = -1) := by
  exact div_overflow_iff' x y hx hy h0

theorem less_exact (st : St) (d : Nat) (a b : Val) (x y : Int) (ha : NumArg a x) (hb : NumArg b y)
    (hx : inRange x = true) (hy : inRange y = true) :
    simpleNative .less [a, b] d st = (.ok (if x < y then tSym else .nil), st) := by
  show compare cs!"<" lessI64 [a, b] st = _
  rw [compare_nums _ _ a b x y st ha.get_eq hb.get_eq, lessI64_toI64 x y hx hy, tSym]
  simp only [decide_eq_true_eq]

theorem greater_exact (st : St) (d : Nat) (a b : Val) (x y : Int) (ha : NumArg a x) (hb : NumArg b y)
    (hx : inRange x = true) (hy : inRange y = true) :
    simpleNative .greater [a, b] d st = (.ok (if x > y then tSym else .nil), st) := by
  show compare cs!">" (fun a b => lessI64 b a) [a, b] st = _
  rw [compare_nums _ _ a b x y st ha.get_eq hb.get_eq, lessI64_toI64 y x hy hx, tSym]
  simp only [decide_eq_true_eq, gt_iff_lt]

/-- every integer the reader accepts is a 64-bit value -/
theorem parse_in_range (s : List Char) (n : Int) (h : parseI64 s = .ok n) : inRange n = true := by
  exact parseI64_inRange s n h

/-- integer literals print and read back to the same value: all 2^64 of them -/
theorem literal_roundtrip (n : Int) (h : inRange n = true) : parseI64 (formatInt n) = .ok n := by
  exact parseI64_formatInt n h

/-! non-vacuity: the hypotheses are met by concrete boundary values, and both branches occur -/
example : inRange i64Max = true ∧ inRange i64Min = true ∧ inRange (i64Max + 1) = false ∧ inRange (i64Min * -1) = false := by decide

end Pici.C12
