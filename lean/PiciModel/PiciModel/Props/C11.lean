/-
C11 — The reader conforms to the grammar on every string, with exact positions.

Intrinsic characterisation of the four statuses of `readInternal` (`Model/Reader.lean`, mirroring
`src/native/read/mod.rs`) on EVERY text: `nothing` exactly on blank text; an `ok` result consumes a non-empty prefix,
returns the remaining text unchanged with its exact line and column, and is stable under any continuation of the text
(the shortest prefix holding one form); an `error` can not be repaired by any continuation; every token is tagged with
the position of its first character.  (Internally columns count from 0; the `read` native adds/subtracts 1.)
-/
import PiciModel.Model.Natives
import PiciModel.Lemmas.ReaderSpec

namespace Pici.C11
open Pici

/-- the reader applied to plain text -/
def readChars (cs : List Char) (loc : Loc) : Except ReadError (Val × Rest) := readInternal (.ofChars cs) loc

/-- the position after a piece of text: a newline starts a new line at column 0, any other character advances the column -/
def advance (loc : Loc) (cs : List Char) : Loc := cs.foldl Loc.step loc

/-- blank text: whitespace, commas, and `;` comments up to the end of their line -/
def blankFrom : Bool → List Char → Bool
  | _, [] => true
  | true, c :: cs => blankFrom (c != '\n') cs
  | false, c :: cs =>
    if c == ';' then blankFrom true cs
    else if isWhitespace c || c == ',' then blankFrom false cs
    else false

def blank (cs : List Char) : Bool := blankFrom false cs

section helpers
open Pici.ReaderSpec

/-- the reader on plain text, as the token loop on the exploded text -/
theorem readChars_eq (cs : List Char) (loc : Loc) :
    readChars cs loc = readLoop ((items cs).length + 1) (items cs) .eof loc [] false := by
  unfold readChars readInternal
  rw [explode_ofChars]

theorem blankFrom_true_cons (c : Char) (cs : List Char) : blankFrom true (c :: cs) = blankFrom (c != '\n') cs := rfl

theorem blankFrom_false_cons (c : Char) (cs : List Char) :
    blankFrom false (c :: cs) =
      if c == ';' then blankFrom true cs else if isWhitespace c || c == ',' then blankFrom false cs else false := rfl

/-- the tokenizer stops without a token exactly on blank text -/
theorem tokLoop_blank (cs : List Char) : ∀ (loc g : Loc),
    (tokLoop (items cs) .eof loc .whiteSpace [] g = .done ↔ blankFrom false cs = true) ∧
    (tokLoop (items cs) .eof loc .comment [] g = .done ↔ blankFrom true cs = true) := by
  induction cs with
  | nil =>
    intro loc g
    rw [items, tokLoop_nil, tokLoop_nil]
    simp [blankFrom]
  | cons c cs ih =>
    intro loc g
    constructor
    · rw [items_cons, tokLoop_cons, blankFrom_false_cons]
      by_cases hsc : c = ';'
      · subst hsc
        rw [act_ws_semicolon]
        simp only [runAct, finishF_nil, beq_self_eq_true, if_true]
        exact (ih _ _).2
      · rw [if_neg (by simpa using hsc)]
        by_cases hb : (isWhitespace c || c == ',') = true
        · rw [act_ws_blank _ _ _ hb, if_pos hb]
          simp only [runAct, finishF_nil]
          exact (ih _ _).1
        · rw [if_neg hb]
          have hb' : (isWhitespace c || c == ',') = false := by simpa using hb
          have hact := act_ws_start c (loc.step c) g hb' hsc
          constructor
          · intro h
            exfalso
            cases ha : act c (loc.step c) .whiteSpace [] g with
            | go s' b' g' => rw [ha] at hact; exact hact
            | tok v tl => rw [ha] at h; cases h
            | bad m => rw [ha] at h; cases h
            | fin s' b' g' =>
              rw [ha] at h hact
              exact (finishF_started cs _ _ _ _ _ hact.2).1 h
          · intro h; cases h
    · rw [items_cons, tokLoop_cons, act_comment, blankFrom_true_cons]
      simp only [runAct]
      by_cases hn : c = '\n'
      · subst hn
        simp only [if_true]
        exact (ih _ _).1
      · rw [if_neg hn]
        have : (c != '\n') = true := by simpa using hn
        rw [this]
        exact (ih _ _).2

theorem advance_cons (loc : Loc) (c : Char) (cs : List Char) : advance loc (c :: cs) = advance (loc.step c) cs := rfl

/-- the location of a token is the position of the first character after the blank text before it -/
theorem tokLoop_location (cs : List Char) : ∀ (loc g : Loc) (v : TokenValue) (tloc : Loc) (rest : Rest)
    (remaining : List (Char × Val)) (newLoc : Loc),
    (tokLoop (items cs) .eof loc .whiteSpace [] g = .token v tloc rest remaining newLoc →
      ∃ skipped c after, cs = skipped ++ c :: after ∧ blankFrom false skipped = true ∧ tloc = (advance loc skipped).step c) ∧
    (tokLoop (items cs) .eof loc .comment [] g = .token v tloc rest remaining newLoc →
      ∃ skipped c after, cs = skipped ++ c :: after ∧ blankFrom true skipped = true ∧ tloc = (advance loc skipped).step c) := by
  induction cs with
  | nil =>
    intro loc g v tloc rest remaining newLoc
    constructor <;> intro h <;> exact absurd h (tokLoop_nil_ne_token _ _ _ _ _ _ _ _ _)
  | cons c cs ih =>
    intro loc g v tloc rest remaining newLoc
    constructor
    · rw [items_cons, tokLoop_cons]
      intro h
      by_cases hsc : c = ';'
      · subst hsc
        rw [act_ws_semicolon] at h
        simp only [runAct, finishF_nil] at h
        obtain ⟨sk, c', after, h1, h2, h3⟩ := (ih _ _ _ _ _ _ _).2 h
        refine ⟨';' :: sk, c', after, by rw [h1]; rfl, ?_, by rw [advance_cons]; exact h3⟩
        rw [blankFrom_false_cons]
        simpa using h2
      · by_cases hb : (isWhitespace c || c == ',') = true
        · rw [act_ws_blank _ _ _ hb] at h
          simp only [runAct, finishF_nil] at h
          obtain ⟨sk, c', after, h1, h2, h3⟩ := (ih _ _ _ _ _ _ _).1 h
          refine ⟨c :: sk, c', after, by rw [h1]; rfl, ?_, by rw [advance_cons]; exact h3⟩
          rw [blankFrom_false_cons, if_neg (by simpa using hsc), if_pos hb]
          exact h2
        · have hb' : (isWhitespace c || c == ',') = false := by simpa using hb
          have hact := act_ws_start c (loc.step c) g hb' hsc
          refine ⟨[], c, cs, rfl, rfl, ?_⟩
          show tloc = loc.step c
          cases ha : act c (loc.step c) .whiteSpace [] g with
          | go s' b' g' => rw [ha] at hact; exact hact.elim
          | tok v' tl =>
            rw [ha] at h hact
            simp only [runAct] at h
            injection h with _ h
            rw [← h]; exact hact
          | bad m => rw [ha] at h; cases h
          | fin s' b' g' =>
            rw [ha] at h hact
            rw [(finishF_started cs _ _ _ _ _ hact.2).2 _ _ _ _ _ h]
            exact hact.1
    · rw [items_cons, tokLoop_cons, act_comment]
      simp only [runAct]
      intro h
      by_cases hn : c = '\n'
      · subst hn
        simp only [if_true] at h
        obtain ⟨sk, c', after, h1, h2, h3⟩ := (ih _ _ _ _ _ _ _).1 h
        exact ⟨'\n' :: sk, c', after, by rw [h1]; rfl, h2, by rw [advance_cons]; exact h3⟩
      · rw [if_neg hn] at h
        obtain ⟨sk, c', after, h1, h2, h3⟩ := (ih _ _ _ _ _ _ _).2 h
        refine ⟨c :: sk, c', after, by rw [h1]; rfl, ?_, by rw [advance_cons]; exact h3⟩
        rw [blankFrom_true_cons]
        have : (c != '\n') = true := by simpa using hn
        rw [this]; exact h2

end helpers

/-- `nothing` is reported exactly for blank text -/
theorem nothing_iff (cs : List Char) (loc : Loc) : readChars cs loc = .error .nothing ↔ blank cs = true := by
  open Pici.ReaderSpec in
  rw [readChars_eq, readLoop_succ]
  have hb := (tokLoop_blank cs loc loc).1
  have hclean := (tokLoop_clean cs loc .whiteSpace [] loc).2
  unfold blank
  unfold nextToken
  cases ht : tokLoop (items cs) .eof loc .whiteSpace [] loc with
  | err e =>
    rw [ht] at hb hclean
    have h1 : blankFrom false cs ≠ true := fun h => by cases hb.2 h
    have h2 : e ≠ .nothing := fun h => hclean (by rw [h])
    simp [h1, h2]
  | done =>
    rw [ht] at hb
    simp [hb.1 rfl]
  | token v tloc rest remaining newLoc =>
    rw [ht] at hb
    have h1 : blankFrom false cs = false := by
      cases hbf : blankFrom false cs with
      | false => rfl
      | true => cases hb.2 hbf
    obtain ⟨consumed, r, -, -, h3, -, -⟩ := tokLoop_token_prefix cs _ _ _ _ _ _ _ _ _ ht
    subst h3
    rw [h1]
    simp only [Bool.false_eq_true, iff_false]
    cases hr : rstep v tloc [] false with
    | cont st q => exact readLoop_ne_nothing _ _ _ _ _ (rstep_cont _ _ _ _ _ _ hr)
    | retOk x => simp [runR]
    | tooMany => simp [runR]
    | notAtom => simp [runR]

/-- text (a list of characters) is never `invalid` -/
theorem text_never_invalid (cs : List Char) (loc : Loc) : readChars cs loc ≠ .error .invalidString := by
  rw [readChars_eq]
  exact ReaderSpec.readLoop_ne_invalid _ _ _ _ _

/-- an `ok` result consumes a non-empty prefix of the text and returns the remaining text UNCHANGED together with its
exact line and column (column + 1 because the result counts columns from 1) -/
theorem ok_consumes_prefix (cs : List Char) (loc : Loc) (v : Val) (rest : Rest) (h : readChars cs loc = .ok (v, rest)) :
    ∃ consumed r, cs = consumed ++ r ∧ consumed ≠ [] ∧ rest.string = .ofChars r ∧
      rest.line = (advance loc consumed).line ∧ rest.column = (advance loc consumed).col + 1 := by
  rw [readChars_eq] at h
  obtain ⟨consumed, r, h1, h2, h3⟩ := ReaderSpec.readLoop_ok_prefix _ _ _ _ _ _ _ h
  refine ⟨consumed, r, h1, h2, ?_⟩
  rw [h3]
  exact ⟨rfl, rfl, rfl⟩

/-- so successive reads — feeding rest, line and column back, as `load-all` and the REPL do — see every form at the
position it has in the whole text -/
theorem sequential_positions (cs : List Char) (loc : Loc) (v : Val) (rest : Rest) (h : readChars cs loc = .ok (v, rest)) :
    ∃ consumed r, cs = consumed ++ r ∧ rest.string = .ofChars r ∧
      readChars r ⟨loc.src, rest.line, rest.column - 1⟩ = readChars r (advance loc consumed) := by
  rw [readChars_eq] at h
  obtain ⟨consumed, r, h1, -, h3⟩ := ReaderSpec.readLoop_ok_prefix _ _ _ _ _ _ _ h
  refine ⟨consumed, r, h1, by rw [h3], ?_⟩
  have hsrc : (advance loc consumed).src = loc.src := ReaderSpec.foldl_step_src consumed loc
  have : (⟨loc.src, rest.line, rest.column - 1⟩ : Loc) = advance loc consumed := by
    rw [h3, ← hsrc]
    rfl
  rw [this]

/-- the shortest prefix that holds one form: whatever is appended after a non-empty rest changes neither the datum nor where it ends -/
theorem ok_stable (cs : List Char) (loc : Loc) (v : Val) (r : List Char) (l c : Nat) (t : List Char)
    (h : readChars cs loc = .ok (v, ⟨.ofChars r, l, c⟩)) (hr : r ≠ []) :
    readChars (cs ++ t) loc = .ok (v, ⟨.ofChars (r ++ t), l, c⟩) := by
  rw [readChars_eq] at h ⊢
  exact ReaderSpec.readLoop_ok_ext _ _ _ _ _ _ _ _ _ h hr _ t (by
    rw [ReaderSpec.items_length, ReaderSpec.items_length, List.length_append]; omega)

/-- `error` means no continuation can make the text valid: whatever follows, the text stays an error (the message may
change when the offending token grows: `1-` is an invalid number, `1-a` has an unexpected character in a number) -/
theorem error_stable (cs : List Char) (loc : Loc) (msg : List Char) (eloc : Loc) (rest : Rest) (t : List Char)
    (h : readChars cs loc = .error (.error msg eloc rest)) :
    ∃ msg' eloc' rest', readChars (cs ++ t) loc = .error (.error msg' eloc' rest') := by
  rw [readChars_eq] at h ⊢
  exact ReaderSpec.readLoop_error_ext _ _ _ _ _ _ _ _ h _ t (by
    rw [ReaderSpec.items_length, ReaderSpec.items_length, List.length_append]; omega)

/-- every token is tagged with the position of its first character: the text before it is blank -/
theorem token_location (cs : List Char) (loc tloc newLoc : Loc) (v : TokenValue) (rest : Rest) (remaining : List (Char × Val))
    (h : nextToken (explode (.ofChars cs)).1 .eof loc = .token v tloc rest remaining newLoc) :
    ∃ skipped c after, cs = skipped ++ c :: after ∧ blank skipped = true ∧ tloc = (advance loc skipped).step c := by
  rw [ReaderSpec.explode_ofChars] at h
  exact (tokLoop_location cs loc loc v tloc rest remaining newLoc).1 h

/-- `incomplete` is never reported for text that already holds a complete form, and blank text is never incomplete -/
theorem incomplete_not_blank (cs : List Char) (loc : Loc) (h : readChars cs loc = .error .incomplete) : blank cs = false := by
  cases hb : blank cs with
  | false => rfl
  | true =>
    rw [(nothing_iff cs loc).2 hb] at h
    cases h

/-! non-vacuity: the witnesses of the repaired deviations, and positions across a newline -/
example : (match readChars cs!"'" ⟨.stdin, 1, 0⟩ with | .error .incomplete => true | _ => false) = true := by decide +kernel
example : (match readChars cs!"\"abc" ⟨.stdin, 1, 0⟩ with | .error .incomplete => true | _ => false) = true := by decide +kernel
example : (match readChars cs!"%" ⟨.stdin, 1, 0⟩ with | .error .incomplete => true | _ => false) = true := by decide +kernel
example : (match readChars cs!" ; c\n  (a\n b) x" ⟨.stdin, 1, 0⟩ with
           | .ok (_, rest) => rest.line == 3 && rest.column == 4 && rest.string == .ofChars cs!" x" | _ => false) = true := by decide +kernel

end Pici.C11
