/-
C20 (continued) — the stepping evaluator computes what the evaluator computes: a THEOREM for the core language,
detached (no debugger attached: `send` is a no-op, `receive` answers nil, every step is a step over).

`debugger.lisp` is a meta-circular evaluator written in PiciLisp.  Its functions, as the model binds them after loading the
CURRENT /repo/src/debugger.lisp (bodies macro-expanded at load time), are the constants of
`Generated/DebuggerExpanded.lean`, regenerated on every run.  The theorem: whenever the reference semantics of the core
language (literals, variables, quote, if, lambda, application of closures and core primitives) derives a VALUE for an
expression, running the body of `debug-eval-internal` on that expression — interpreted by the model evaluator — yields
the same value, provided the recursion depth limit leaves room for the interpretation overhead (the stepping evaluator
spends a bounded number of evaluator levels per level of the derivation, and does not run tail calls in constant depth:
that is known finding F22).
-/
import PiciModel.Props.C16b
import PiciModel.Props.C20
import PiciModel.Generated.PreludeExpanded
import PiciModel.Generated.DebuggerExpanded
import PiciModel.Lemmas.DebuggerApp

namespace Pici.C20
open Pici Pici.Ref

/-- heads the stepping evaluator treats specially: the special forms, and `eval` (recognised by name: known finding F32) -/
def isSpecialD (first : Val) : Bool := isSpecial first || first.isSymNamed cs!"eval"

/-- the walk of `lookup` (debugger.lisp) for `key` through the association list `env` goes through: every entry it passes
before it finds `key` is a pair, and if it does not find `key` the list ends in an empty list.  (The evaluator's own
lookup skips entries that are not pairs and stops at anything that is not a cons cell; the stepping evaluator takes `car`
and `cdr` of them, which signals.  Every environment the evaluator builds — nil extended by `(parameter . argument)`
pairs — passes for every key; an environment handed to `make-function` need not.) -/
def envWalks (key : Sym) : Val → Bool
  | .cons kv rest =>
    match kv.get with
    | .cons k _ => match k.get with
      | .sym s => s == key || envWalks key rest
      | _      => envWalks key rest
    | _ => false
  | .md (.cons kv rest) _ =>
    match kv.get with
    | .cons k _ => match k.get with
      | .sym s => s == key || envWalks key rest
      | _      => envWalks key rest
    | _ => false
  | v => v.isNil

mutual
/-- `Evals G env home e v h`: the reference semantics of the core language gives `e` the VALUE `v`, by a derivation of
height at most `h`.  The rules are the value-producing rules of `Ref.Eval` (`Spec/RefEval.lean`), without the depth
guard (see `evals_sound`). -/
inductive Evals (G : Globals) : Val → Name → Val → Val → Nat → Prop where
  /-- the empty list WITHOUT reader metadata (see the note at `debug_eval_internal_agrees_partial`) -/
  | emptyList {env home h} : Evals G env home .nil .nil h
  | selfEval {env home e h} : listToVec e = none →
      (∀ a b, e.get ≠ .cons a b) → (∀ n t, e.get ≠ .trap n t) → (∀ s, e.get ≠ .sym s) → Evals G env home e e h
  /-- side condition `envWalks`: see there -/
  | varLocal {env home e s v h} : listToVec e = none → e.get = .sym s → lookupEnv s env = some v →
      envWalks s env = true → Evals G env home e v h
  | varGlobal {env home e s v h} : listToVec e = none → e.get = .sym s → lookupEnv s env = none →
      G s.globalName home = .found v → envWalks s env = true → Evals G env home e v h
  | lambda {env home e first operands f h} : listToVec e = some (first :: operands) → first.isSymNamed cs!"lambda" = true →
      makeFunctionInternal operands env home cs!"lambda" .lambda = .ok f → Evals G env home e f h
  | quote {env home e first x h} : listToVec e = some [first, x] →
      first.isSymNamed cs!"lambda" = false → first.isSymNamed cs!"quote" = true → Evals G env home e x h
  | ifBranch {env home e first c t o cv v h} : listToVec e = some [first, c, t, o] →
      first.isSymNamed cs!"lambda" = false → first.isSymNamed cs!"quote" = false → first.isSymNamed cs!"if" = true →
      Evals G env home c cv h → Evals G env home (if !cv.isNil then t else o) v h → Evals G env home e v (h + 1)
  /-- side conditions (the stepping evaluator deviates from the evaluator without them): the closure's body is not an empty
  list (`debug-list` takes a function whose `body` part is nil for a native and hands it to `call-native-function`, which
  signals); no parameter is the symbol `&` (`add-parameters` would treat the parameter after it as a rest parameter; the
  closures `lambda` and `make-function` build never have one); the form has fewer than 2^63 - 1 operands (`enumerate`
  counts the elements with `add`, which overflows) -/
  | callClosure {env home e first operands f k rest params body fenv fmod args newEnv v h} :
      listToVec e = some (first :: operands) → isSpecialD first = false →
      Evals G env home first f h → f.get = .fn k rest params body fenv fmod → rest = .nil →
      EvalsArgs G env home operands args h →
      pairParamsAndArgs rest params fenv (e.getMeta.map (·.readName)) args = .ok newEnv →
      Evals G newEnv fmod body v h →
      body.isNil = false → ((listToVec params).getD []).all (fun p => !p.isSymNamed cs!"&") = true →
      (operands.length : Int) < i64Max → Evals G env home e v (h + 1)
  /-- side condition: the form has fewer than 2^63 - 1 operands (see `callClosure`) -/
  | callPrim {env home e first operands f id args v h d} :
      listToVec e = some (first :: operands) → isSpecialD first = false →
      Evals G env home first f h → f.get = .native id → corePrim id = true →
      EvalsArgs G env home operands args h → primResult id args d = .ok v →
      (operands.length : Int) < i64Max → Evals G env home e v (h + 1)
inductive EvalsArgs (G : Globals) : Val → Name → List Val → List Val → Nat → Prop where
  | nil {env home h} : EvalsArgs G env home [] [] h
  | cons {env home x xs v vs h} : Evals G env home x v h → EvalsArgs G env home xs vs h → EvalsArgs G env home (x :: xs) (v :: vs) h
end

/-- a state in which prelude and debugger are loaded and no debugger is attached: `Loaded`; every function of
debugger.lisp resolves, from the module `debugger`, to the stored closure generated from the current file; the prelude
functions and natives the stepping evaluator uses resolve from the module `debugger` as they do from `prelude` -/
structure LoadedD (st : St) : Prop where
  base      : C16.Loaded st
  debugger  : ∀ name v, (name, v) ∈ DebuggerX.table → ∃ w, st.getGlobal name cs!"debugger" = .found w ∧ w.get = v
  preludeD  : ∀ name v, (name, v) ∈ Prelude.table → ∃ w, st.getGlobal name cs!"debugger" = .found w ∧ w.get = v
  preludeXD : ∀ name v, (name, v) ∈ PreludeX.table → ∃ w, st.getGlobal name cs!"debugger" = .found w ∧ w.get = v
  nativesD  : ∀ id : NativeId, ∃ w, st.getGlobal id.name cs!"debugger" = .found w ∧ w.get = .native id
  nilD      : ∃ w, st.getGlobal cs!"nil" cs!"debugger" = .found w ∧ w.isNil = true
  tD        : ∃ w, st.getGlobal cs!"t" cs!"debugger" = .found w ∧ w.isNil = false

/-- the globals of a state -/
def globalsOf (st : St) : Globals := fun name home => st.getGlobal name home

/-- the evaluator levels the stepping evaluator needs for a derivation of height `h` (a constant number per level) -/
def overhead (h : Nat) : Nat := 40 * h + 40

section helpers
open Pici.Dbg Pici.DebuggerX

theorem isSpecialD_false {first : Val} (h : isSpecialD first = false) :
    isSpecial first = false ∧ first.isSymNamed cs!"eval" = false := by
  unfold isSpecialD at h
  simpa [Bool.or_eq_false_iff] using h

theorem LoadedD.toD {st : St} (hl : LoadedD st) : DLoaded st :=
  ⟨hl.base, hl.debugger, hl.preludeD, hl.nativesD, hl.nilD⟩

/-! #### the walk of `lookup` -/

theorem envWalk_md {s : Sym} {kv rest : Val} {m : Meta} {r : Option Val} (h : EnvWalk s (.cons kv rest) r) :
    EnvWalk s (.md (.cons kv rest) m) r := by
  cases h with
  | done hnil => cases hnil
  | hit hnil hg hkv hk => exact .hit rfl hg hkv hk
  | miss hnil hg hkv hk hrest => exact .miss rfl hg hkv hk hrest

theorem envWalks_cons (s : Sym) (kv rest : Val) (ih : envWalks s rest = true → EnvWalk s rest (lookupEnv s rest))
    (h : envWalks s (.cons kv rest) = true) : EnvWalk s (.cons kv rest) (lookupEnv s (.cons kv rest)) := by
  simp only [envWalks, lookupEnv] at h ⊢
  cases hkv : kv.get with
  | cons k v =>
    rw [hkv] at h
    simp only at h ⊢
    cases hk : k.get with
    | sym t =>
      rw [hk] at h
      simp only at h ⊢
      by_cases hts : t = s
      · subst hts
        simp only [beq_self_eq_true, if_true]
        exact .hit rfl rfl hkv hk
      · have hb : (t == s) = false := by simpa using hts
        simp only [hb, Bool.false_or, Bool.false_eq_true, if_false] at h ⊢
        exact .miss rfl rfl hkv (by rw [hk]; intro hc; cases hc; exact hts rfl) (ih h)
    | _ =>
      rw [hk] at h
      simp only at h ⊢
      exact .miss rfl rfl hkv (by rw [hk]; intro hc; cases hc) (ih h)
  | _ => rw [hkv] at h; simp at h

/-- an environment that passes `envWalks`: the walk of `lookup` gives what the evaluator's `lookupEnv` gives -/
theorem envWalks_walk (s : Sym) (env : Val) (h : envWalks s env = true) : EnvWalk s env (lookupEnv s env) := by
  induction env with
  | nil => exact .done rfl
  | cons kv rest _ ih => exact envWalks_cons s kv rest ih h
  | md w m ih =>
    cases w with
    | nil => exact .done rfl
    | cons kv rest =>
      have h1 : envWalks s (.cons kv rest) = true := by simpa [envWalks] using h
      have h2 : lookupEnv s (.md (.cons kv rest) m) = lookupEnv s (.cons kv rest) := by simp [lookupEnv]
      rw [h2]
      exact envWalk_md (ih h1)
    | _ => simp [envWalks, Val.isNil] at h
  | _ => simp [envWalks, Val.isNil] at h

/-! #### one run of `debug-eval-internal` per rule -/

variable {st : St}

/-- anything that is neither a list nor a symbol nor a trap evaluates to itself -/
theorem dei_atom (hl : DLoaded st) (e env mv : Val) (d : Nat) (hd : d + 5 ≤ Config.maxRecursionDepth)
    (h1 : ∀ a b, e.get ≠ .cons a b) (h2 : ∀ n t, e.get ≠ .trap n t) (h3 : ∀ s, e.get ≠ .sym s) :
    DeiRuns st env mv d e e := by
  intro p1 p2 p3 p4 sv hsv
  obtain ⟨cases, hcases, hwrap⟩ := dei_to_cases hl debug_eval_internal_body_shape
  obtain ⟨tn, hty, n1, n2, n3, n4⟩ := typeOf_atom e h1 h2 h3
  exact hwrap p1 p2 p3 p4 e env mv sv _ d e hsv hd hty
    (fun a g => cases_atom hl hcases a g p1 p2 p3 p4 e env mv sv tn (d + 2) (by omega) n1 n2 n3 n4)

/-- a symbol: the binding the walk of `lookup` finds, else the global -/
theorem dei_symbol (hl : DLoaded st) (e env : Val) (s : Sym) (home : Name) (v : Val) (d : Nat)
    (hd : d + 5 ≤ Config.maxRecursionDepth) (hg : e.get = .sym s) (r : Option Val) (hw : EnvWalk s env r)
    (hr : r = some v ∨ (r = none ∧ st.getGlobal s.globalName home = .found v)) :
    DeiRuns st env (.sym (.named home)) d e v := by
  intro p1 p2 p3 p4 sv hsv
  obtain ⟨cases, hcases, hwrap⟩ := dei_to_cases hl debug_eval_internal_body_shape
  exact hwrap p1 p2 p3 p4 e env _ sv _ d v hsv hd (fun dd st' => typeOf_sym st' dd e s hg)
    (fun a g => cases_symbol hl hcases a g p1 p2 p3 p4 e env _ sv (d + 2) _ (by omega)
      (fun q1 q2 q3 => lookup_runs hl e _ s home hg rfl v (d + 2) (by omega) env r hw hr q1 q2 q3))

/-- a non-empty list whose head is not a character: the `case` on the operator in `debug-list`, two levels below -/
theorem dei_list (hl : DLoaded st) :
    ∃ (ifs : Val) (clo : Val → Val), IsIfs ifs ∧ HadSpec st clo ∧
      ∀ (e first dd : Val) (operands : List Val) (env mv : Val) (d : Nat) (v : Val),
        listToVec e = some (first :: operands) → first.getType ≠ .character → e.get = .cons first dd →
        d + 5 ≤ Config.maxRecursionDepth →
        (∀ sv, sv.isNil = true → ∀ a b c q1 q2 q3 q4,
          RunsJ st ifs (dlEnv a b c first dd (clo (env4 q1 q2 q3 q4 e env mv sv)) (env4 q1 q2 q3 q4 e env mv sv))
            cs!"debugger" (d + 2) (.ok v)) →
        DeiRuns st env mv d e v := by
  obtain ⟨cases, hcases, hwrap⟩ := dei_to_cases hl debug_eval_internal_body_shape
  obtain ⟨ifs, clo, hifs, hspec, hdl⟩ := dl_to_ifs hl debug_list_body_shape
  refine ⟨ifs, clo, hifs, hspec, ?_⟩
  intro e first dd operands env mv d v hlv hc he hd hrun p1 p2 p3 p4 sv hsv
  exact hwrap p1 p2 p3 p4 e env mv sv _ d v hsv hd (fun dd' st' => typeOf_list st' dd' e first operands hlv hc)
    (fun a g => cases_list hl hcases a g p1 p2 p3 p4 e env mv sv (d + 2) _ (by omega)
      (fun q1 q2 q3 q4 => hdl q1 q2 q3 q4 e env mv sv first dd (d + 2) _ he (by omega)
        (fun a' b' c' => hrun sv hsv a' b' c' q1 q2 q3 q4)))

theorem getType_of_isSymNamed {first : Val} {n : Name} (h : first.isSymNamed n = true) : first.getType ≠ .character := by
  rw [getType_get]
  unfold Val.isSymNamed at h
  cases hg : first.get <;> rw [hg] at h <;> first | cases h | (intro hc; cases hc)

theorem isSymNamed_unique {first : Val} {n n' : Name} (h : first.isSymNamed n = true) (hne : n' ≠ n) :
    first.isSymNamed n' = false := by
  unfold Val.isSymNamed at h ⊢
  cases hg : first.get with
  | sym s =>
    rw [hg] at h
    cases s with
    | named x =>
      have : x = n := by simpa using h
      subst this
      simpa using fun h' => hne h'.symm
    | gen i => rfl
  | _ => rfl

/-- `(quote x)` -/
theorem dei_quote (hl : DLoaded st) (e first x env mv : Val) (d : Nat) (hd : d + 5 ≤ Config.maxRecursionDepth)
    (hlv : listToVec e = some [first, x]) (hq : first.isSymNamed cs!"quote" = true) : DeiRuns st env mv d e x := by
  obtain ⟨ifs, clo, hifs, hspec, hlist⟩ := dei_list hl
  obtain ⟨qb, hqb, hsel⟩ := ifs_quote hl hifs
  obtain ⟨_, dd, he, hdd⟩ := listToVec_cons_inv hlv
  obtain ⟨_, d2, hd2, _⟩ := listToVec_cons_inv hdd
  refine hlist e first dd [x] env mv d x hlv (getType_of_isSymNamed hq) he hd ?_
  intro sv hsv a b c q1 q2 q3 q4
  exact hsel _ first (d + 2) _ (by omega) (by lke) (by lke) hq
    (quote_branch hl hqb a b c q1 q2 q3 q4 first dd _ e env mv sv x d2 (d + 2) hsv (by omega) hd2)

/-- `(lambda params body)` -/
theorem dei_lambda (hl : DLoaded st) (e first env f : Val) (operands : List Val) (home : Name) (d : Nat)
    (hd : d + 6 ≤ Config.maxRecursionDepth) (hlv : listToVec e = some (first :: operands))
    (hlam : first.isSymNamed cs!"lambda" = true)
    (hmk : makeFunctionInternal operands env home cs!"lambda" .lambda = .ok f) :
    DeiRuns st env (.sym (.named home)) d e f := by
  obtain ⟨ifs, clo, hifs, hspec, hlist⟩ := dei_list hl
  obtain ⟨lb, hlb, hsel⟩ := ifs_lambda hl hifs
  obtain ⟨_, dd, he, hdd⟩ := listToVec_cons_inv hlv
  -- the operands are a parameter list and a body
  obtain ⟨params, body, rfl, xs, hps⟩ : ∃ params body, operands = [params, body] ∧ ∃ xs, listToVec params = some xs := by
    unfold makeFunctionInternal at hmk
    split at hmk
    · rename_i params body
      refine ⟨params, body, rfl, ?_⟩
      split at hmk
      · cases hmk
      · rename_i ps hps; exact ⟨ps, hps⟩
    · cases hmk
  obtain ⟨_, d2, hd2, hdd2⟩ := listToVec_cons_inv hdd
  obtain ⟨_, d3, hd3, _⟩ := listToVec_cons_inv hdd2
  refine hlist e first dd [params, body] env _ d f hlv (getType_of_isSymNamed hlam) he (by omega) ?_
  intro sv hsv a b c q1 q2 q3 q4
  rw [← hmk]
  exact hsel _ first (d + 2) _ (by omega) (by lke) (by lke) hlam
    (lambda_branch hl hlb a b c q1 q2 q3 q4 first dd _ e env _ sv params body d2 d3 home xs (d + 2) (by omega) rfl
      hd2 hd3 hps)

/-- `(if c t o)`: the condition three levels below, the chosen branch two levels below -/
theorem dei_if (hl : DLoaded st) (e first c t o env mv cv v : Val) (d : Nat) (hd : d + 6 ≤ Config.maxRecursionDepth)
    (hlv : listToVec e = some [first, c, t, o]) (hif : first.isSymNamed cs!"if" = true)
    (hc : DeiRuns st env mv (d + 3) c cv) (hb : DeiRuns st env mv (d + 2) (if !cv.isNil then t else o) v) :
    DeiRuns st env mv d e v := by
  obtain ⟨ifs, clo, hifs, hspec, hlist⟩ := dei_list hl
  obtain ⟨ib, hib, hsel⟩ := ifs_if hl hifs
  obtain ⟨_, dd, he, hdd⟩ := listToVec_cons_inv hlv
  obtain ⟨_, d2, hd2, hdd2⟩ := listToVec_cons_inv hdd
  obtain ⟨_, d3, hd3, hdd3⟩ := listToVec_cons_inv hdd2
  obtain ⟨_, d4, hd4, _⟩ := listToVec_cons_inv hdd3
  refine hlist e first dd [c, t, o] env mv d v hlv (getType_of_isSymNamed hif) he (by omega) ?_
  intro sv hsv a b c' q1 q2 q3 q4
  exact hsel _ first (d + 2) _ (by omega) (by lke) (by lke) (isSymNamed_unique hif (by decide)) hif
    (if_branch hl hib hspec a b c' q1 q2 q3 q4 first dd e env mv sv c t o d2 d3 d4 cv v (d + 2) hsv (by omega)
      hd2 hd3 hd4 hc hb)

/-- an application whose operator evaluates to a closure -/
theorem dei_callClosure (hl : DLoaded st) (e first env mv f : Val) (operands args : List Val) (k : Kind)
    (params body fenv : Val) (fmod : Name) (v : Val) (d : Nat) (hd : d + 19 ≤ Config.maxRecursionDepth)
    (hlv : listToVec e = some (first :: operands)) (hsp : isSpecialD first = false) (hchr : first.getType ≠ .character)
    (hlen : (operands.length : Int) < i64Max)
    (hall : C16.MapsVia (DeiRuns st env mv (d + 6)) (first :: operands) (f :: args))
    (hf : f.get = .fn k .nil params body fenv fmod) (hbody : body.isNil = false)
    (hamp : ∀ p ∈ (listToVec params).getD [], p.isSymNamed cs!"&" = false)
    (hlenp : ((listToVec params).getD []).length ≤ args.length)
    (hrun : DeiRuns st (bindAll ((listToVec params).getD []) args fenv) (.sym (.named fmod)) (d + 2) body v) :
    DeiRuns st env mv d e v := by
  obtain ⟨ifs, clo, hifs, hspec, hlist⟩ := dei_list hl
  obtain ⟨ab, hab, hsel⟩ := ifs_app hl hifs
  obtain ⟨_, dd, he, hdd⟩ := listToVec_cons_inv hlv
  obtain ⟨hs1, heval⟩ := isSpecialD_false hsp
  obtain ⟨hlam, hq, hif, htrap⟩ := isSpecial_false hs1
  refine hlist e first dd operands env mv d v hlv hchr he (by omega) ?_
  intro sv hsv a b c q1 q2 q3 q4
  exact hsel _ first (d + 2) _ (by omega) (by lke) (by lke) hq hif heval htrap hlam
    (app_closure hl hab hspec a b c q1 q2 q3 q4 first dd e env mv sv (first :: operands) f args k params body fenv fmod v
      (d + 2) hsv (by omega) hlv (by simp only [List.length_cons]; omega) hall hf hbody hamp hlenp hrun)

/-- an application whose operator evaluates to a core primitive -/
theorem dei_callPrim (hl : DLoaded st) (e first env mv f : Val) (operands args : List Val) (id : NativeId) (v : Val)
    (d dp : Nat) (hd : d + 19 ≤ Config.maxRecursionDepth)
    (hlv : listToVec e = some (first :: operands)) (hsp : isSpecialD first = false) (hchr : first.getType ≠ .character)
    (hlen : (operands.length : Int) < i64Max)
    (hall : C16.MapsVia (DeiRuns st env mv (d + 6)) (first :: operands) (f :: args))
    (hf : f.get = .native id) (hc : corePrim id = true) (hr : primResult id args dp = .ok v) :
    DeiRuns st env mv d e v := by
  obtain ⟨ifs, clo, hifs, hspec, hlist⟩ := dei_list hl
  obtain ⟨ab, hab, hsel⟩ := ifs_app hl hifs
  obtain ⟨_, dd, he, hdd⟩ := listToVec_cons_inv hlv
  obtain ⟨hs1, heval⟩ := isSpecialD_false hsp
  obtain ⟨hlam, hq, hif, htrap⟩ := isSpecial_false hs1
  refine hlist e first dd operands env mv d v hlv hchr he (by omega) ?_
  intro sv hsv a b c q1 q2 q3 q4
  exact hsel _ first (d + 2) _ (by omega) (by lke) (by lke) hq hif heval htrap hlam
    (app_native hl hab hspec a b c q1 q2 q3 q4 first dd e env mv sv (first :: operands) f args id v (d + 2) dp
      hsv (by omega) hlv (by simp only [List.length_cons]; omega) hall hf hc hr)

/-! #### the induction -/

/-- a character only evaluates to itself -/
theorem evals_chr {G : Globals} {env : Val} {home : Name} {e v : Val} {h : Nat} (hev : Evals G env home e v h)
    (hc : e.getType = .character) : v = e := by
  have hcons : ∀ x xs, listToVec e = some (x :: xs) → False := by
    intro x xs hl
    obtain ⟨_, dd, hg, _⟩ := listToVec_cons_inv hl
    rw [getType_get, hg] at hc
    cases hc
  cases hev with
  | emptyList => rfl
  | selfEval => rfl
  | varLocal _ hg => rw [getType_get, hg] at hc; cases hc
  | varGlobal _ hg => rw [getType_get, hg] at hc; cases hc
  | lambda hl => exact (hcons _ _ hl).elim
  | quote hl => exact (hcons _ _ hl).elim
  | ifBranch hl => exact (hcons _ _ hl).elim
  | callClosure hl => exact (hcons _ _ hl).elim
  | callPrim hl => exact (hcons _ _ hl).elim

/-- the operator of an application that evaluates to a function is not a character -/
theorem operator_not_chr {G : Globals} {env : Val} {home : Name} {first f : Val} {h : Nat}
    (hev : Evals G env home first f h) (hf : (∃ k r p b fe fm, f.get = .fn k r p b fe fm) ∨ (∃ id, f.get = .native id)) :
    first.getType ≠ .character := by
  intro hc
  have := evals_chr hev hc
  subst this
  rw [getType_get] at hc
  rcases hf with ⟨k, r, p, b, fe, fm, hf⟩ | ⟨id, hf⟩ <;> rw [hf] at hc <;> cases hc

/-- every derivation is realised by the stepping evaluator, at every depth that leaves room for the overhead.
(What the proof uses: the elements of an application run 6 evaluator levels below the run for the application itself, the
condition of an `if` 3, a branch or a closure body 2; a leaf needs 19 levels of headroom, for `enumerate` and `map`.
`overhead` is more generous.) -/
theorem dei_of_evals (hl : DLoaded st) {env : Val} {home : Name} {e v : Val} {h : Nat}
    (hev : Evals (globalsOf st) env home e v h) :
    ∀ d, d + overhead h ≤ Config.maxRecursionDepth → DeiRuns st env (.sym (.named home)) d e v := by
  apply Evals.rec (G := globalsOf st)
    (motive_1 := fun env home e v h _ => ∀ d, d + overhead h ≤ Config.maxRecursionDepth →
      DeiRuns st env (.sym (.named home)) d e v)
    (motive_2 := fun env home xs vs h _ => ∀ d, d + overhead h ≤ Config.maxRecursionDepth →
      C16.MapsVia (DeiRuns st env (.sym (.named home)) d) xs vs)
    (t := hev)
  case emptyList =>
    intro env home h d hd
    unfold overhead at hd
    exact dei_atom hl .nil env _ d (by omega) (fun a b h => by simp [Val.get] at h) (fun a b h => by simp [Val.get] at h)
      (fun a h => by simp [Val.get] at h)
  case selfEval =>
    intro env home e h _ h1 h2 h3 d hd
    unfold overhead at hd
    exact dei_atom hl e env _ d (by omega) h1 h2 h3
  case varLocal =>
    intro env home e s v h _ hg hlk hwalk d hd
    unfold overhead at hd
    exact dei_symbol hl e env s home v d (by omega) hg (some v) (hlk ▸ envWalks_walk s env hwalk) (Or.inl rfl)
  case varGlobal =>
    intro env home e s v h _ hg hlk hG hwalk d hd
    unfold overhead at hd
    exact dei_symbol hl e env s home v d (by omega) hg none (hlk ▸ envWalks_walk s env hwalk) (Or.inr ⟨rfl, hG⟩)
  case lambda =>
    intro env home e first operands f h hlv hlam hmk d hd
    unfold overhead at hd
    exact dei_lambda hl e first env f operands home d (by omega) hlv hlam hmk
  case quote =>
    intro env home e first x h hlv _ hq d hd
    unfold overhead at hd
    exact dei_quote hl e first x env _ d (by omega) hlv hq
  case ifBranch =>
    intro env home e first c t o cv v h hlv _ _ hif _ _ ih1 ih2 d hd
    unfold overhead at hd
    exact dei_if hl e first c t o env _ cv v d (by omega) hlv hif
      (ih1 (d + 3) (by unfold overhead; omega)) (ih2 (d + 2) (by unfold overhead; omega))
  case callClosure =>
    intro env home e first operands f k rest params body fenv fmod args newEnv v h hlv hsp hfirst hf hrest _ hp _
      hbody hamp hlen ih1 ih2 ih3 d hd
    unfold overhead at hd
    subst hrest
    obtain ⟨hnew, hlenp⟩ := pair_is_bindAll params fenv _ args newEnv hp
    subst hnew
    exact dei_callClosure hl e first env _ f operands args k params body fenv fmod v d (by omega) hlv hsp
      (operator_not_chr hfirst (Or.inl ⟨_, _, _, _, _, _, hf⟩)) hlen
      (.cons _ _ _ _ (ih1 (d + 6) (by unfold overhead; omega)) (ih2 (d + 6) (by unfold overhead; omega))) hf hbody
      (fun p hp => by simpa using List.all_eq_true.mp hamp p hp) hlenp (ih3 (d + 2) (by unfold overhead; omega))
  case callPrim =>
    intro env home e first operands f id args v h dp hlv hsp hfirst hf hc _ hr hlen ih1 ih2 d hd
    unfold overhead at hd
    exact dei_callPrim hl e first env _ f operands args id v d dp (by omega) hlv hsp
      (operator_not_chr hfirst (Or.inr ⟨_, hf⟩)) hlen
      (.cons _ _ _ _ (ih1 (d + 6) (by unfold overhead; omega)) (ih2 (d + 6) (by unfold overhead; omega))) hf hc hr
  case nil => intro env home h d hd; exact .nil
  case cons => intro env home x xs v vs h _ _ ih1 ih2 d hd; exact .cons _ _ _ _ (ih1 d hd) (ih2 d hd)

end helpers

/-- tie to the reference semantics of C05: a height-bounded value derivation is a derivation of `Ref.Eval` at every depth
that leaves room for its height — hence (by `C05.eval_realises_reference`) the evaluator computes `v` -/
theorem evals_sound (G : Globals) (env : Val) (home : Name) (e v : Val) (h d : Nat)
    (hev : Evals G env home e v h) (hd : d + h ≤ Config.maxRecursionDepth) :
    Ref.Eval G env home d e (.ok v) := by
  revert d
  apply Evals.rec (G := G)
    (motive_1 := fun env home e v h _ => ∀ d, d + h ≤ Config.maxRecursionDepth → Ref.Eval G env home d e (.ok v))
    (motive_2 := fun env home xs vs h _ => ∀ d, d + 1 + h ≤ Config.maxRecursionDepth →
      Ref.EvalArgs G env home d xs (.ok vs))
    (t := hev)
  case emptyList => intro env home h d hd; exact .emptyList (by omega) rfl
  case selfEval => intro env home e h hl h1 h2 h3 d hd; exact .selfEval (by omega) hl h1 h2 h3
  case varLocal => intro env home e s v h hl hg hlk _ d hd; exact .varLocal (by omega) hl hg hlk
  case varGlobal => intro env home e s v h hl hg hlk hG _ d hd; exact .varGlobal (by omega) hl hg hlk hG
  case lambda => intro env home e first operands f h hl hlam hmk d hd; exact hmk ▸ .lambda (by omega) hl hlam
  case quote => intro env home e first x h hl hlam hq d hd; exact .quote (by omega) hl hlam hq
  case ifBranch =>
    intro env home e first c t o cv v h hl hlam hq hif _ _ ih1 ih2 d hd
    exact .ifBranch (by omega) hl hlam hq hif (ih1 (d + 1) (by omega)) (ih2 d (by omega))
  case callClosure =>
    intro env home e first operands f k rest params body fenv fmod args newEnv v h hl hsp _ hf _ _ hp _ _ _ _
      ih1 ih2 ih3 d hd
    exact .callClosure (by omega) hl (isSpecialD_false hsp).1 (ih1 (d + 1) (by omega)) hf (ih2 d (by omega)) hp
      (ih3 d (by omega))
  case callPrim =>
    intro env home e first operands f id args v h d' hl hsp _ hf hc _ hr _ ih1 ih2 d hd
    have := Ref.Eval.callPrim (G := G) (env := env) (home := home) (d := d) (e := e) (by omega) hl
      (isSpecialD_false hsp).1 (ih1 (d + 1) (by omega)) hf hc (ih2 d (by omega))
    rwa [Dbg.primResult_depth id hc args (d + 1) d', hr] at this
  case nil => intro env home h d hd; exact .nil
  case cons => intro env home x xs v vs h _ _ ih1 ih2 d hd; exact .cons (ih1 (d + 1) (by omega)) (ih2 d hd)

/-- THE THEOREM (detached, stepping over): the body of `debug-eval-internal`, run on an expression of the core language
with its parameters bound as `(debug-eval-internal e env 'home nil)` binds them, returns the value the reference
semantics gives — for EVERY expression, environment and derivation.

PARTIAL.  The full statement is: for every derivation of `Ref.Eval` with a value, the stepping evaluator returns a value
that is equal to it UP TO THE REPRESENTATION OF THE EMPTY LIST (`nil` and a metadata cell around `nil` are both the empty
list: `Val.isNil`).  Two rules of the reference semantics are restricted here because the two evaluators produce
differently represented (but `=`-equal, identically printed) empty lists there, which would need a relation on values
instead of equality: the literal `()` as read by the reader (the evaluator returns a fresh `nil`, the stepping evaluator
the literal with its metadata) — `emptyList` covers the bare `nil` only; and the call of a closure WITH a rest parameter
(the evaluator binds a fresh list, the stepping evaluator the tail of a list built by the prelude's `map`, which ends in
the value of the global `nil`) — `callClosure` requires `rest = .nil`.  Both cases are covered by the differential check.
The side conditions of `varLocal`, `varGlobal`, `callClosure` and `callPrim` exclude inputs on which the stepping
evaluator signals although the evaluator returns a value (see `Evals`). -/
theorem debug_eval_internal_agrees_partial (st : St) (hl : LoadedD st) (env : Val) (home : Name) (e v : Val) (h d : Nat)
    (hev : Evals (globalsOf st) env home e v h)
    (hd : d + overhead h ≤ Config.maxRecursionDepth) (dbgEnv : Val)
    (henv : C16.callEnv DebuggerX.debug_eval_internal_rest DebuggerX.debug_eval_internal_params
              [e, env, .sym (.named home), .nil] = some dbgEnv) :
    ∃ fuel k, evalInternal fuel st DebuggerX.debug_eval_internal_body dbgEnv cs!"debugger" d = (.ok v, C16.bump st k) := by
  obtain ⟨p1, p2, p3, p4, hq⟩ := DebuggerX.debug_eval_internal_params_shape
  have hE := C16.callEnv_ok henv
  rw [hq, DebuggerX.debug_eval_internal_rest_eq, Dbg.pair4] at hE
  cases hE
  exact C16.realiseJ (dei_of_evals hl.toD hev d hd p1 p2 p3 p4 .nil rfl)

/-- corollary: the evaluator and the stepping evaluator agree on every core-language expression that has a value -/
theorem debugger_agrees_with_eval_partial (st : St) (hl : LoadedD st) (env : Val) (home : Name) (e v : Val) (h d : Nat)
    (hev : Evals (globalsOf st) env home e v h)
    (hd : d + overhead h ≤ Config.maxRecursionDepth) (dbgEnv : Val)
    (henv : C16.callEnv DebuggerX.debug_eval_internal_rest DebuggerX.debug_eval_internal_params
              [e, env, .sym (.named home), .nil] = some dbgEnv) :
    (∃ fuel k, evalInternal fuel st e env home d = (.ok v, C16.bump st k)) ∧
    (∃ fuel k, evalInternal fuel st DebuggerX.debug_eval_internal_body dbgEnv cs!"debugger" d = (.ok v, C16.bump st k)) :=
  ⟨hl.base.realise (evals_sound _ env home e v h d hev (by unfold overhead at hd; omega)),
   debug_eval_internal_agrees_partial st hl env home e v h d hev hd dbgEnv henv⟩

/-! ### non-vacuity: a state in which prelude and debugger are loaded, and a program -/

/-- the module `prelude` with the natives, `nil`, `t` and the prelude definitions (functions and macros), and the module
`debugger` with the functions of debugger.lisp; everything public -/
def exStD : St := { (default : St) with
  modules := [⟨cs!"prelude", NativeId.all.map (fun id => (id.name, Val.native id)) ++
                [(cs!"nil", .nil), (cs!"t", .symName cs!"t")] ++ Prelude.table ++ PreludeX.table, none⟩,
              ⟨cs!"debugger", DebuggerX.table, none⟩],
  current := cs!"prelude" }

theorem exStD_table (tbl : List (Name × Val)) (home : Name)
    (hall : tbl.all (fun p => match exStD.getGlobal p.1 home with | .found w => w.get == p.2 | _ => false) = true) :
    ∀ name v, (name, v) ∈ tbl → ∃ w, exStD.getGlobal name home = .found w ∧ w.get = v := by
  intro name v hmem
  obtain ⟨w, hw, hp⟩ := C16.found_of_check (List.all_eq_true.mp hall (name, v) hmem)
  exact ⟨w, hw, eq_of_beq hp⟩

theorem exStD_natives (home : Name)
    (hall : NativeId.all.all (fun id => match exStD.getGlobal id.name home with
      | .found w => w.get == .native id | _ => false) = true) :
    ∀ id : NativeId, ∃ w, exStD.getGlobal id.name home = .found w ∧ w.get = .native id := by
  intro id
  have hmem : id ∈ NativeId.all := by cases id <;> decide
  obtain ⟨w, hw, hp⟩ := C16.found_of_check (List.all_eq_true.mp hall id hmem)
  exact ⟨w, hw, eq_of_beq hp⟩

theorem exStD_base : C16.Loaded exStD where
  detached := rfl
  current := by unfold HasModule; decide +kernel
  prelude := exStD_table _ _ (by decide +kernel)
  natives := fun id _ => exStD_natives cs!"prelude" (by decide +kernel) id
  nil := C16.found_of_check (P := Val.isNil) (by decide +kernel)
  t := by
    obtain ⟨w, hw, hp⟩ := C16.found_of_check (l := exStD.getGlobal cs!"t" cs!"prelude") (P := fun w => !w.isNil)
      (by decide +kernel)
    exact ⟨w, hw, by simpa using hp⟩

theorem exStD_loaded : LoadedD exStD where
  base := exStD_base
  debugger := exStD_table _ _ (by decide +kernel)
  preludeD := exStD_table _ _ (by decide +kernel)
  preludeXD := exStD_table _ _ (by decide +kernel)
  nativesD := exStD_natives cs!"debugger" (by decide +kernel)
  nilD := C16.found_of_check (P := Val.isNil) (by decide +kernel)
  tD := by
    obtain ⟨w, hw, hp⟩ := C16.found_of_check (l := exStD.getGlobal cs!"t" cs!"debugger") (P := fun w => !w.isNil)
      (by decide +kernel)
    exact ⟨w, hw, by simpa using hp⟩

/-- `((lambda (x) (if x (cons x x) 0)) 5)` -/
def exProgram : Val :=
  .ofList [.ofList [.symName cs!"lambda", .ofList [.symName cs!"x"],
      .ofList [.symName cs!"if", .symName cs!"x", .ofList [.symName cs!"cons", .symName cs!"x", .symName cs!"x"], .num 0]],
    .num 5]

/-- the reference semantics gives it the value `(5 . 5)` -/
theorem exProgram_evals : Evals (globalsOf exStD) .nil cs!"prelude" exProgram (.cons (.num 5) (.num 5)) 3 := by
  have hcons : globalsOf exStD cs!"cons" cs!"prelude" = .found (.native .cons) := by
    obtain ⟨w, hw, hp⟩ := C16.found_of_check (l := exStD.getGlobal cs!"cons" cs!"prelude")
      (P := fun w => w == .native .cons) (by decide +kernel)
    rw [← eq_of_beq hp]; exact hw
  refine Evals.callClosure (first := .ofList [.symName cs!"lambda", .ofList [.symName cs!"x"],
      .ofList [.symName cs!"if", .symName cs!"x", .ofList [.symName cs!"cons", .symName cs!"x", .symName cs!"x"], .num 0]])
    (operands := [.num 5]) (args := [.num 5]) (k := .lambda) (rest := .nil) (params := .ofList [.symName cs!"x"])
    (fenv := .nil) (fmod := cs!"prelude") rfl rfl
    (Evals.lambda (first := .symName cs!"lambda") rfl rfl rfl) rfl rfl
    (.cons (.selfEval rfl (fun _ _ h => by cases h) (fun _ _ h => by cases h) (fun _ h => by cases h)) .nil)
    rfl ?_ rfl rfl (by decide)
  refine Evals.ifBranch (first := .symName cs!"if") (c := .symName cs!"x") (cv := .num 5) rfl rfl rfl rfl
    (Evals.varLocal (s := .named cs!"x") rfl rfl rfl rfl) ?_
  exact Evals.callPrim (first := .symName cs!"cons") (operands := [.symName cs!"x", .symName cs!"x"])
    (args := [.num 5, .num 5]) (id := .cons) (d := 0) rfl rfl
    (Evals.varGlobal (s := .named cs!"cons") rfl rfl rfl hcons rfl) rfl rfl
    (.cons (Evals.varLocal (s := .named cs!"x") rfl rfl rfl rfl)
      (.cons (Evals.varLocal (s := .named cs!"x") rfl rfl rfl rfl) .nil)) rfl (by decide)

/-- the theorem applies: the stepping evaluator, run by the model evaluator on `((lambda (x) (if x (cons x x) 0)) 5)` in
`exStD`, returns `(5 . 5)` — and so does the evaluator itself -/
example :
    (∃ fuel k, evalInternal fuel exStD exProgram .nil cs!"prelude" 0 = (.ok (.cons (.num 5) (.num 5)), C16.bump exStD k)) ∧
    (∃ fuel k, evalInternal fuel exStD DebuggerX.debug_eval_internal_body
      (C16.envOf DebuggerX.debug_eval_internal_rest DebuggerX.debug_eval_internal_params
        [exProgram, .nil, .sym (.named cs!"prelude"), .nil]) cs!"debugger" 0 =
      (.ok (.cons (.num 5) (.num 5)), C16.bump exStD k)) :=
  debugger_agrees_with_eval_partial exStD exStD_loaded .nil cs!"prelude" exProgram _ 3 0 exProgram_evals (by decide) _
    (by decide +kernel)

end Pici.C20
