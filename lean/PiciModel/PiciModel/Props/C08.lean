/-
C08 — Signals reach the innermost trap intact; abort untrappable; errors are plists.

Theorems about the trap branch of `evalInternal`, the propagation of `.err` through operands and operators,
`signal` / `abort`, and the shape of every error a native raises itself (`Model/Eval.lean`, `Model/Natives.lean`,
mirroring `src/native/eval/mod.rs`, `src/native/signal/mod.rs`, `src/error_utils/mod.rs`).
An abort is `.err v` with `v.isNil = true` (the Rust encoding `Err(nil)`).
-/
import PiciModel.Model.Eval
import PiciModel.Lemmas.EvalSteps
import PiciModel.Lemmas.InputStdin

namespace Pici.C08
open Pici

/-- an error raised by the interpreter itself: a property list carrying `kind` and `source` -/
def IsErrorPlist (s : Val) : Prop := ∃ kind source details, s = makeError kind source details

theorem errorPlist_not_nil (s : Val) (h : IsErrorPlist s) : s.isNil = false := by
  obtain ⟨kind, source, details, rfl⟩ := h
  exact makeError_isNil kind source details

/-- the value a trap expression denotes when it reaches the evaluator -/
def IsTrap (e n h : Val) : Prop := e = .trap n h ∨ ∃ m, e = .md (.trap n h) m


section helpers

/-! ### helpers: a trap expression reaches the trap branch of the evaluator -/

theorem IsTrap.listToVec_eq {e n h : Val} (he : IsTrap e n h) : listToVec e = none := by
  rcases he with rfl | ⟨m, rfl⟩
  · exact listToVec_trap n h
  · exact listToVec_md_trap n h m

theorem IsTrap.get_eq {e n h : Val} (he : IsTrap e n h) : e.get = .trap n h := by
  rcases he with rfl | ⟨m, rfl⟩
  · exact get_trap n h
  · exact get_md_trap n h m

/-- the trap branch of `evalInternal`, for any value denoting a trap -/
theorem IsTrap.step {e n h : Val} (he : IsTrap e n h) (fuel : Nat) (st st1 : St) (env : Val) (mod : Name) (d : Nat)
    (hd : d ≤ Config.maxRecursionDepth) (hpoll : pollDebugger st = (none, st1)) :
    evalInternal (fuel + 1) st e env mod d =
      (match evalInternal fuel st1 n env mod (d + 1) with
        | (.ok x, st)  => (.ok x, st)
        | (.err signal, st) =>
          if signal.isNil then (.err signal, st)
          else
            evalInternal fuel st h (Val.cons (.cons (.symName cs!"*trapped-signal*") signal) env) mod (d + 1)
        | (.crash s, st)   => (.crash s, st)
        | (.outOfFuel, st) => (.outOfFuel, st)) :=
  evalInternal_trap_step fuel st st1 e n h env mod d he.listToVec_eq he.get_eq hd hpoll

/-! ### helpers: the error values are property lists -/

theorem isErrorPlist_makeError (k src : Name) (d : List (Name × Val)) : IsErrorPlist (makeError k src d) :=
  ⟨k, src, d, rfl⟩
theorem isErrorPlist_wrongArity (src : Name) (a b : Nat) : IsErrorPlist (wrongArity src a b) := ⟨_, _, _, rfl⟩
theorem isErrorPlist_wrongType (src : Name) (v : Val) (t : TypeLabel) : IsErrorPlist (wrongType src v t) := ⟨_, _, _, rfl⟩
theorem isErrorPlist_stackoverflow (src : Name) : IsErrorPlist (stackoverflow src) := ⟨_, _, _, rfl⟩
theorem isErrorPlist_ambiguousError (src : Name) (e : Val) (ms : List Name) : IsErrorPlist (ambiguousError src e ms) :=
  ⟨_, _, _, rfl⟩

/-- every `.err` outcome carries an error plist -/
def ErrsArePlists {α : Type} (o : Res α × St) : Prop := ∀ s st', o = (.err s, st') → IsErrorPlist s

variable {α : Type}

theorem eap_ok (a : α) (st : St) : ErrsArePlists (Res.ok a, st) := by
  intro s st' h; cases h
theorem eap_crash (c : List Char) (st : St) : ErrsArePlists ((Res.crash c : Res α), st) := by
  intro s st' h; cases h
theorem eap_outOfFuel (st : St) : ErrsArePlists ((Res.outOfFuel : Res α), st) := by
  intro s st' h; cases h
theorem eap_err (s : Val) (st : St) (hs : IsErrorPlist s) : ErrsArePlists ((Res.err s : Res α), st) := by
  intro s' st' h; cases h; exact hs

/-! the combinators of `validate_args!` only add `wrongArity` / `wrongType` errors -/

theorem eap_arity0 (src : Name) (args : List Val) (k : Res α × St) (st : St) (hk : ErrsArePlists k) :
    ErrsArePlists (arity0 src args k st) := by
  unfold arity0; split
  · exact hk
  · exact eap_err _ _ (isErrorPlist_wrongArity ..)
theorem eap_arity1 (src : Name) (args : List Val) (st : St) (k : Val → Res α × St) (hk : ∀ x, ErrsArePlists (k x)) :
    ErrsArePlists (arity1 src args st k) := by
  unfold arity1; split
  · exact hk _
  · exact eap_err _ _ (isErrorPlist_wrongArity ..)
theorem eap_arity2 (src : Name) (args : List Val) (st : St) (k : Val → Val → Res α × St)
    (hk : ∀ x y, ErrsArePlists (k x y)) : ErrsArePlists (arity2 src args st k) := by
  unfold arity2; split
  · exact hk _ _
  · exact eap_err _ _ (isErrorPlist_wrongArity ..)
theorem eap_arity3 (src : Name) (args : List Val) (st : St) (k : Val → Val → Val → Res α × St)
    (hk : ∀ x y z, ErrsArePlists (k x y z)) : ErrsArePlists (arity3 src args st k) := by
  unfold arity3; split
  · exact hk _ _ _
  · exact eap_err _ _ (isErrorPlist_wrongArity ..)
theorem eap_asNumber (src : Name) (v : Val) (st : St) (k : Int → Res α × St) (hk : ∀ x, ErrsArePlists (k x)) :
    ErrsArePlists (asNumber src v st k) := by
  unfold asNumber; split
  · exact hk _
  · exact eap_err _ _ (isErrorPlist_wrongType ..)
theorem eap_asSymbol (src : Name) (v : Val) (st : St) (k : Sym → Res α × St) (hk : ∀ x, ErrsArePlists (k x)) :
    ErrsArePlists (asSymbol src v st k) := by
  unfold asSymbol; split
  · exact hk _
  · exact eap_err _ _ (isErrorPlist_wrongType ..)
theorem eap_asList (src : Name) (v : Val) (st : St) (k : List Val → Res α × St) (hk : ∀ x, ErrsArePlists (k x)) :
    ErrsArePlists (asList src v st k) := by
  unfold asList; split
  · exact hk _
  · exact eap_err _ _ (isErrorPlist_wrongType ..)
theorem eap_asString (src : Name) (v : Val) (st : St) (k : List Char → Res α × St) (hk : ∀ x, ErrsArePlists (k x)) :
    ErrsArePlists (asString src v st k) := by
  unfold asString; split
  · exact hk _
  · exact eap_err _ _ (isErrorPlist_wrongType ..)

/-- one step of the syntax-directed proof that an outcome only carries error plists -/
macro "eap_step" : tactic => `(tactic| first
  | exact eap_ok _ _
  | exact eap_crash _ _
  | exact eap_outOfFuel _
  | exact eap_err _ _ (isErrorPlist_makeError ..)
  | exact eap_err _ _ (isErrorPlist_wrongArity ..)
  | exact eap_err _ _ (isErrorPlist_wrongType ..)
  | exact eap_err _ _ (isErrorPlist_stackoverflow ..)
  | (apply eap_arity0)
  | (apply eap_arity1; intro _)
  | (apply eap_arity2; intro _ _)
  | (apply eap_arity3; intro _ _ _)
  | (apply eap_asNumber; intro _)
  | (apply eap_asSymbol; intro _)
  | (apply eap_asList; intro _)
  | (apply eap_asString; intro _)
  | split)

macro "eap_auto" : tactic => `(tactic| repeat' eap_step)

theorem eap_arith (src : Name) (op : I64 → I64 → Option I64) (args : List Val) (st : St) :
    ErrsArePlists (arith src op args st) := by
  unfold arith; eap_auto

theorem eap_compare (src : Name) (op : I64 → I64 → Bool) (args : List Val) (st : St) :
    ErrsArePlists (Pici.compare src op args st) := by
  unfold Pici.compare; eap_auto

theorem eap_divide (args : List Val) (st : St) : ErrsArePlists (divideNative args st) := by
  unfold divideNative; eap_auto

theorem eap_exportLoop (ns : List Val) (st : St) : ErrsArePlists (exportLoop st ns) := by
  induction ns generalizing st with
  | nil => unfold exportLoop; eap_auto
  | cons n ns ih =>
    unfold exportLoop; split
    · exact ih _
    · eap_auto

theorem readCore_err (args : List Val) (d : Nat) (s : Val) (h : readCore args d = .err s) : IsErrorPlist s := by
  unfold readCore at h
  repeat' (first | split at h | (dsimp only at h) | cases h)
  all_goals first
    | exact isErrorPlist_makeError ..
    | exact isErrorPlist_wrongArity ..
    | exact isErrorPlist_wrongType ..

theorem eap_readNative (args : List Val) (d : Nat) (st : St) : ErrsArePlists (readNative args d, st) := by
  unfold readNative
  split
  · eap_auto
  · exact eap_err _ _ (readCore_err _ _ _ ‹_›)
  · eap_auto
  · eap_auto

theorem printText_err (args : List Val) (d : Nat) (s : Val) (h : printText args d = .err s) : IsErrorPlist s := by
  unfold printText at h
  repeat' (first | split at h | cases h)
  all_goals first
    | exact isErrorPlist_stackoverflow ..
    | exact isErrorPlist_wrongArity ..

theorem eap_printNative (args : List Val) (d : Nat) (st : St) : ErrsArePlists (printNative args d, st) := by
  unfold printNative
  split
  · eap_auto
  · exact eap_err _ _ (printText_err _ _ _ ‹_›)
  · eap_auto
  · eap_auto

/-- unfold one native and walk through its validation combinators and case distinctions -/
macro "eap_native" : tactic => `(tactic| (
  simp only [simpleNative]
  repeat' (first
    | exact eap_arith _ _ _ _
    | exact eap_compare _ _ _ _
    | exact eap_divide _ _
    | exact eap_exportLoop _ _
    | exact eap_readNative _ _ _
    | exact eap_printNative _ _ _
    | eap_step
    | (dsimp only))))

/-- every native except `signal`, `abort`, `receive` and `input-file` only raises error plists -/
theorem eap_simpleNative (id : NativeId) (args : List Val) (d : Nat) (st : St)
    (h1 : id ≠ .signal) (h2 : id ≠ .abort) (h3 : id ≠ .receive) (h4 : id ≠ .inputFile) :
    ErrsArePlists (simpleNative id args d st) := by
  cases id <;> first | contradiction | eap_native

/-- `(input-file *stdin*)` raises error plists — and the abort, when the debugger's ABORT arrives while the read is
blocked (`C19.blocked_input_abort`) -/
theorem inputStdin_errors (n : Nat) (st st' : St) (s : Val) (h : inputStdin n st = (.err s, st')) :
    IsErrorPlist s ∨ s = .nil := by
  have ho := inputStdin_outcome n st
  rw [h] at ho
  generalize hr : (Res.err s : Res Val) = r at ho
  cases ho with
  | line text => cases hr
  | error kind source details => cases hr; exact .inl (isErrorPlist_makeError ..)
  | abort => cases hr; exact .inr rfl

end helpers

/-- the normal body yields a value: so does the trap, and the handler never runs -/
theorem trap_ok (fuel : Nat) (st st1 st2 : St) (e n h env : Val) (mod : Name) (d : Nat) (x : Val)
    (he : IsTrap e n h) (hd : d ≤ Config.maxRecursionDepth) (hpoll : pollDebugger st = (none, st1))
    (hbody : evalInternal fuel st1 n env mod (d + 1) = (.ok x, st2)) :
    evalInternal (fuel + 1) st e env mod d = (.ok x, st2) := by
  rw [he.step fuel st st1 env mod d hd hpoll, hbody]

/-- a non-nil signal raised anywhere while the normal body is evaluated transfers control to the handler, which is
evaluated in the trap's own environment extended by `*trapped-signal*` bound to EXACTLY that signal value -/
theorem trap_catches (fuel : Nat) (st st1 st2 : St) (e n h env : Val) (mod : Name) (d : Nat) (s : Val)
    (he : IsTrap e n h) (hd : d ≤ Config.maxRecursionDepth) (hpoll : pollDebugger st = (none, st1))
    (hbody : evalInternal fuel st1 n env mod (d + 1) = (.err s, st2)) (hs : s.isNil = false) :
    evalInternal (fuel + 1) st e env mod d =
      evalInternal fuel st2 h (.cons (.cons (.symName cs!"*trapped-signal*") s) env) mod (d + 1) := by
  rw [he.step fuel st st1 env mod d hd hpoll, hbody]
  simp only [hs, Bool.false_eq_true, if_false]

/-- an abort is never intercepted: it passes through the trap untouched (hence, by induction, through any nesting) -/
theorem abort_passes (fuel : Nat) (st st1 st2 : St) (e n h env : Val) (mod : Name) (d : Nat) (s : Val)
    (he : IsTrap e n h) (hd : d ≤ Config.maxRecursionDepth) (hpoll : pollDebugger st = (none, st1))
    (hbody : evalInternal fuel st1 n env mod (d + 1) = (.err s, st2)) (hs : s.isNil = true) :
    evalInternal (fuel + 1) st e env mod d = (.err s, st2) := by
  rw [he.step fuel st st1 env mod d hd hpoll, hbody]
  simp only [hs, if_true]

/-- a signal raised inside a handler is the outcome of the trap expression: it propagates to the next enclosing trap -/
theorem handler_signal_propagates (fuel : Nat) (st st1 st2 st3 : St) (e n h env : Val) (mod : Name) (d : Nat) (s s' : Val)
    (he : IsTrap e n h) (hd : d ≤ Config.maxRecursionDepth) (hpoll : pollDebugger st = (none, st1))
    (hbody : evalInternal fuel st1 n env mod (d + 1) = (.err s, st2)) (hs : s.isNil = false)
    (hh : evalInternal fuel st2 h (.cons (.cons (.symName cs!"*trapped-signal*") s) env) mod (d + 1) = (.err s', st3)) :
    evalInternal (fuel + 1) st e env mod d = (.err s', st3) := by
  rw [trap_catches fuel st st1 st2 e n h env mod d s he hd hpoll hbody hs, hh]

/-- `signal` hands its argument over unchanged (identity: no copy, metadata kept) … -/
theorem signal_payload (st : St) (d : Nat) (v : Val) (hv : v.isNil = false) :
    simpleNative .signal [v] d st = (.err v, st) := by
  simp only [simpleNative, arity1, hv, Bool.false_eq_true, if_false]

/-- … and cannot be used to fake an abort: `(signal nil)` is an ordinary, trappable error -/
theorem signal_nil_is_error (st : St) (d : Nat) (v : Val) (hv : v.isNil = true) :
    ∃ s, simpleNative .signal [v] d st = (.err s, st) ∧ IsErrorPlist s := by
  refine ⟨_, ?_, isErrorPlist_makeError cs!"wrong-argument-type" cs!"signal"
    [(cs!"argument-value", v), (cs!"expected", .symName cs!"any-non-nil-type"), (cs!"actual", .symName cs!"nil-type")]⟩
  simp only [simpleNative, arity1, hv, if_true]

theorem abort_is_abort (st : St) (d : Nat) : simpleNative .abort [] d st = (.err .nil, st) := by
  simp only [simpleNative, arity0]

/-- every error a native raises by itself is a property list carrying kind and source; the only other `.err`
outcomes are `signal` handing over its (non-nil) argument, `abort`, and the abort that the debugger's ABORT command
causes in a blocked `receive` or a blocked `input-file` (`C19.blocked_receive`, `C19.blocked_input_abort`) -/
theorem native_errors_are_plists (id : NativeId) (args : List Val) (d : Nat) (st st' : St) (s : Val)
    (h : simpleNative id args d st = (.err s, st')) :
    IsErrorPlist s ∨ (id = .signal ∧ args = [s] ∧ s.isNil = false) ∨ (id = .abort ∧ s = .nil) ∨
    (id = .receive ∧ s = .nil) ∨ (id = .inputFile ∧ s = .nil) := by
  by_cases h1 : id = .signal
  · subst h1
    simp only [simpleNative, arity1] at h
    split at h
    · split at h
      · cases h; exact .inl (isErrorPlist_makeError ..)
      · rename_i hn
        cases h
        exact .inr (.inl ⟨rfl, rfl, by simpa using hn⟩)
    · cases h; exact .inl (isErrorPlist_wrongArity ..)
  by_cases h2 : id = .abort
  · subst h2
    simp only [simpleNative, arity0] at h
    split at h
    · cases h; exact .inr (.inr (.inl ⟨rfl, rfl⟩))
    · cases h; exact .inl (isErrorPlist_wrongArity ..)
  by_cases h3 : id = .receive
  · subst h3
    simp only [simpleNative, arity0] at h
    repeat' (first | split at h | (dsimp only at h) | cases h)
    all_goals first
      | exact .inl (isErrorPlist_makeError ..)
      | exact .inl (isErrorPlist_wrongArity ..)
      | exact .inr (.inr (.inr (.inl ⟨rfl, rfl⟩)))
  by_cases h4 : id = .inputFile
  · subst h4
    simp only [simpleNative, arity1] at h
    split at h
    · split at h
      · rcases inputStdin_errors _ _ _ _ h with hp | rfl
        · exact .inl hp
        · exact .inr (.inr (.inr (.inr ⟨rfl, rfl⟩)))
      · split at h
        · cases h; exact .inl (isErrorPlist_makeError ..)
        · cases h; exact .inl (isErrorPlist_makeError ..)
    · cases h; exact .inl (isErrorPlist_wrongArity ..)
  exact .inl (eap_simpleNative id args d st h1 h2 h3 h4 s st' h)

/-- the first signalling operand wins: operands are evaluated left to right and a signal ends the evaluation of the operand list -/
theorem operand_signal_propagates (fuel : Nat) (st st1 : St) (x : Val) (xs : List Val) (env : Val) (mod : Name) (d : Nat) (s : Val)
    (hx : evalInternal fuel st x env mod (d + 1) = (.err s, st1)) :
    evalArgs (fuel + 1) st (x :: xs) env mod d = (.err s, st1) := by
  exact evalArgs_cons_err fuel st st1 x xs env mod d s hx

theorem operand_ok_continues (fuel : Nat) (st st1 : St) (x : Val) (xs : List Val) (env : Val) (mod : Name) (d : Nat) (v : Val)
    (hx : evalInternal fuel st x env mod (d + 1) = (.ok v, st1)) :
    evalArgs (fuel + 1) st (x :: xs) env mod d =
      (match evalArgs fuel st1 xs env mod d with
       | (.ok vs, st2)     => (.ok (v :: vs), st2)
       | (.err s, st2)     => (.err s, st2)
       | (.crash s, st2)   => (.crash s, st2)
       | (.outOfFuel, st2) => (.outOfFuel, st2)) := by
  rw [evalArgs_cons_ok fuel st st1 x xs env mod d v hx]
  rfl

/-- the signals of the evaluator itself are property lists -/
theorem evaluator_errors_are_plists :
    IsErrorPlist (stackoverflow cs!"eval") ∧
    (∀ e, IsErrorPlist (makeError cs!"unbound-symbol" cs!"eval" [(cs!"symbol", e)])) ∧
    (∀ e ms, IsErrorPlist (ambiguousError cs!"eval" e ms)) ∧
    (∀ e, IsErrorPlist (makeError cs!"eval-bad-operator" cs!"eval" [(cs!"symbol", e)])) ∧
    (∀ src a b, IsErrorPlist (wrongArity src a b)) ∧
    (∀ src v t, IsErrorPlist (wrongType src v t)) := by
  exact ⟨isErrorPlist_stackoverflow _, fun _ => isErrorPlist_makeError .., fun _ _ => isErrorPlist_ambiguousError ..,
   fun _ => isErrorPlist_makeError .., fun _ _ _ => isErrorPlist_wrongArity .., fun _ _ _ => isErrorPlist_wrongType ..⟩

/-! non-vacuity -/
example : IsTrap (.md (.trap (.num 1) .nil) ⟨[], ⟨.stdin, 1, 1⟩, []⟩) (.num 1) .nil := Or.inr ⟨_, rfl⟩
example : IsErrorPlist (makeError cs!"divide-by-zero" cs!"divide" []) := ⟨_, _, _, rfl⟩

end Pici.C08
