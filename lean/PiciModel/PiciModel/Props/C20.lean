/-
C20 — The stepping debugger computes what the evaluator computes.

`debugger.lisp` is a meta-circular evaluator interpreted by the evaluator itself; its agreement with `eval` on generated
programs is established by differential execution (the real interpreter and the model evaluator both run the real
debugger.lisp, detached and attached with every kind of STEP-IN / STEP-OVER answer sequence).  These theorems cover what that
evaluator is built from: detached, the debugger natives are no-ops, so every step is a "step over"; `make-function`
builds exactly the closures `lambda` builds; `call-native-function` applies a native exactly as the evaluator does;
`destructure-function` returns exactly the components of a closure; `with-current-module` is the evaluator's global lookup.
-/
import PiciModel.Model.Eval

namespace Pici.C20
open Pici

/-- detached, `receive` answers nil at once and changes nothing … -/
theorem receive_detached (st : St) (d : Nat) (h : st.attached = false) :
    simpleNative .receive [] d st = (.ok .nil, st) := by
  simp [simpleNative, arity0, h]

/-- … so the test `(= (. (receive) 'command) 'STEP-IN)` is nil: every step is a step over -/
theorem detached_means_step_over (st : St) (d : Nat) :
    simpleNative .getProperty [.nil, .symName cs!"command"] d st = (.ok .nil, st) ∧
    simpleNative .equal [.nil, .symName cs!"STEP-IN"] d st = (.ok .nil, st) := by
  constructor
  · simp [simpleNative, arity2, asList, asSymbol, listToVec, Val.symName, Val.get, getPropertyInternal]
  · simp [simpleNative, arity2, equalInternal, Val.symName, Val.isNil]

/-- detached, `send` of a well-formed message answers `ok` and changes nothing -/
theorem send_detached (st : St) (d : Nat) (data : Val) (xs : List Val) (msg : List (Name × List Char)) (h : st.attached = false)
    (hl : listToVec data = some xs) (hm : sendLoop d xs [] = some msg) :
    simpleNative .send [data] d st = (.ok (.symName cs!"ok"), st) := by
  simp [simpleNative, arity1, asList, hl, hm, St.send, h]

/-- `make-function` with kind `lambda-type` builds exactly the closure the special form `lambda` builds from the same
parameter list, body, environment and module -/
theorem make_function_is_lambda (fuel : Nat) (st : St) (params body environment : Val) (mod : Name) (env : Val) (d : Nat) (xs : List Val)
    (hd : d ≤ Config.maxRecursionDepth) (hp : listToVec params = some xs) :
    applyNative (fuel + 1) st .makeFunction [params, body, environment, .symName mod, .symName cs!"lambda-type"] env d =
      (makeFunctionInternal [params, body] environment mod cs!"lambda" .lambda, st) := by
  rw [applyNative]
  have hd' : ¬ d > Config.maxRecursionDepth := by omega
  simp [hd', asList, asSymbol, hp, Val.symName, Val.get, Sym.globalName]

/-- `call-native-function` applies a native to the given arguments exactly as the evaluator's application does (one level deeper) -/
theorem call_native_is_application (fuel : Nat) (st : St) (f arguments environment env : Val) (id : NativeId) (as : List Val) (d : Nat)
    (hd : d ≤ Config.maxRecursionDepth) (hf : f.get = .native id) (ha : listToVec arguments = some as) :
    applyNative (fuel + 1) st .callNativeFunction [f, arguments, environment] env d = applyNative fuel st id as environment (d + 1) := by
  rw [applyNative]
  have hd' : ¬ d > Config.maxRecursionDepth := by omega
  simp [hd', arity3, asList, hf, ha]

/-- `destructure-function` returns exactly the kind, parameters (the parameter symbols themselves, `&` before the rest
parameter), body, captured environment and captured module of a closure -/
theorem destructure_closure (st : St) (d : Nat) (f : Val) (k : Kind) (r p b e : Val) (m : Name) (hf : f.get = .fn k r p b e m) :
    simpleNative .destructureFunction [f] d st =
      (.ok (plist [(cs!"kind", .symName k.name), (cs!"parameters", functionParams r p), (cs!"body", b),
                   (cs!"environment", e), (cs!"module", .symName m)]), st) := by
  simp [simpleNative, arity1, hf]

/-- `with-current-module` is the evaluator's own global lookup, seen from the given module -/
theorem with_current_module_is_lookup (st : St) (d : Nat) (name mod : Val) (s m : Sym) (hs : name.get = .sym s) (hm : mod.get = .sym m) :
    simpleNative .withCurrentModule [name, mod] d st =
      (match st.getGlobal s.globalName m.globalName with
       | .found v      => (.ok v, st)
       | .ambiguous ms => (.err (makeError cs!"ambiguous-name" cs!"with-current-module"
                            [(cs!"symbol", name), (cs!"conflicting-modules", .ofList (ms.map Val.symName))]), st)
       | .notFound     => (.err (makeError cs!"unbound-symbol" cs!"with-current-module" [(cs!"symbol", name)]), st)) := by
  simp only [simpleNative, arity2, asSymbol, hs, hm]
  cases st.getGlobal s.globalName m.globalName <;> rfl

end Pici.C20
