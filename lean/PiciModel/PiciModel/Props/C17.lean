/-
C17 — The in-process I/O pipe is an exactly-once FIFO with message boundaries.

Refinement of the pipe model (`Model/Pipe.lean`, mirroring `src/io/mod.rs`) to one FIFO of
`byte | boundary` items, for every sequence of write / flush / read operations.
-/
import PiciModel.Model.Pipe

namespace Pici.C17
open Pici

inductive Item where
  | byte (b : UInt8)
  | boundary
  deriving DecidableEq, Repr

def msgItems : Msg → List Item
  | .bytes bs => bs.map .byte
  | .eof      => [.boundary]

/-- what is in flight: the receiver's buffer first, then the channel -/
def absPipe (p : Pipe) : List Item := p.buf.map .byte ++ p.chan.flatMap msgItems

/-- no empty `Bytes` message is in the channel (an invariant of every reachable pipe) -/
def WF (p : Pipe) : Prop := ∀ m ∈ p.chan, m ≠ .bytes []

inductive Op where
  | write (bs : List UInt8)
  | flush
  | read (n : Nat)
  deriving Repr

/-- what the FIFO specification allows a read with a buffer of `n > 0` bytes to return from the item list `s`,
leaving `s'`: a timeout exactly on the empty list, a zero-length read exactly on a boundary (which it consumes),
otherwise a non-empty run of at most `n` of the bytes at the front (short reads are allowed) -/
inductive SpecRead : List Item → Nat → ReadResult → List Item → Prop where
  | timedOut (n : Nat) : SpecRead [] n .timedOut []
  | zero (n : Nat) (s : List Item) : SpecRead (.boundary :: s) n .zero s
  | data (n : Nat) (bs : List UInt8) (s : List Item) (h1 : bs ≠ []) (h2 : bs.length ≤ n) :
      SpecRead (bs.map .byte ++ s) n (.data bs) s

/-! ### helper lemmas (refinement) -/

section helpers

/-- the local `deliver` of `Pipe.read`, named -/
def deliver (n : Nat) (p : Pipe) : ReadResult × Pipe :=
  let k := min n p.buf.length
  if k = 0 then (.zero, p) else (.data (p.buf.take k), { p with buf := p.buf.drop k })

theorem read_eq (p : Pipe) (n : Nat) :
    p.read n =
      if p.buf = [] then
        match p.chan with
        | []               => (.timedOut, p)
        | .eof :: rest     => (.zero, { p with chan := rest })
        | .bytes bs :: rest => deliver n { chan := rest, buf := bs }
      else deliver n p := rfl

theorem min_pos_of {n : Nat} {bs : List UInt8} (hn : 0 < n) (hb : bs ≠ []) : min n bs.length ≠ 0 := by
  have : 0 < bs.length := List.length_pos_iff.mpr hb
  omega

theorem deliver_eq {n : Nat} {p : Pipe} (hn : 0 < n) (hb : p.buf ≠ []) :
    deliver n p = (.data (p.buf.take (min n p.buf.length)), { p with buf := p.buf.drop (min n p.buf.length) }) := by
  simp only [deliver, if_neg (min_pos_of hn hb)]

theorem deliver_chan (n : Nat) (p : Pipe) : (deliver n p).2.chan = p.chan := by
  simp only [deliver]
  split <;> rfl

theorem deliver_spec {n : Nat} {p : Pipe} (hn : 0 < n) (hb : p.buf ≠ []) :
    SpecRead (absPipe p) n (deliver n p).1 (absPipe (deliver n p).2) := by
  rw [deliver_eq hn hb]
  have hk := min_pos_of hn hb
  have e : absPipe p = (p.buf.take (min n p.buf.length)).map Item.byte ++
      absPipe { p with buf := p.buf.drop (min n p.buf.length) } := by
    simp only [absPipe]
    rw [← List.append_assoc, ← List.map_append, List.take_append_drop]
  rw [e]
  refine SpecRead.data n _ _ ?_ ?_
  · intro h0
    have hl := congrArg List.length h0
    simp only [List.length_take, List.length_nil] at hl
    omega
  · simp only [List.length_take]
    omega

theorem spec_timedOut_inv {s s' : List Item} {n : Nat} {r : ReadResult}
    (h : SpecRead s n r s') (hr : r = .timedOut) : s = [] := by
  cases h with
  | timedOut => rfl
  | zero => cases hr
  | data => cases hr

theorem spec_nil_inv {s s' : List Item} {n : Nat} {r : ReadResult}
    (h : SpecRead s n r s') (hs : s = []) : r = .timedOut := by
  cases h with
  | timedOut => rfl
  | zero => cases hs
  | data n bs s h1 h2 =>
    cases bs with
    | nil => exact absurd rfl h1
    | cons b bs => cases hs

end helpers

/-! ### the properties -/

theorem wf_empty : WF Pipe.empty := by
  intro m hm
  simp [Pipe.empty] at hm

theorem wf_write (p : Pipe) (bs : List UInt8) (h : WF p) : WF (p.write bs) := by
  unfold Pipe.write
  split
  · exact h
  · rename_i hb
    intro m hm
    simp only [List.mem_append, List.mem_singleton] at hm
    rcases hm with hm | hm
    · exact h m hm
    · subst hm
      intro e
      exact hb (Msg.bytes.inj e)

theorem wf_flush (p : Pipe) (h : WF p) : WF p.flush := by
  intro m hm
  simp only [Pipe.flush, List.mem_append, List.mem_singleton] at hm
  rcases hm with hm | hm
  · exact h m hm
  · subst hm
    intro e
    cases e

theorem wf_read (p : Pipe) (n : Nat) (h : WF p) : WF (p.read n).2 := by
  rw [read_eq]
  split
  · cases hc : p.chan with
    | nil => exact h
    | cons m rest =>
      have hr : ∀ m' ∈ rest, m' ≠ Msg.bytes [] := fun m' hm' => h m' (by rw [hc]; exact List.mem_cons_of_mem _ hm')
      cases m with
      | eof => exact hr
      | bytes bs =>
        intro m' hm'
        simp only [deliver_chan] at hm'
        exact hr m' hm'
  · intro m hm
    rw [deliver_chan] at hm
    exact h m hm

theorem write_refines (p : Pipe) (bs : List UInt8) : absPipe (p.write bs) = absPipe p ++ bs.map .byte := by
  unfold Pipe.write
  split
  · rename_i hb; subst hb; simp
  · simp [absPipe, msgItems]

theorem flush_refines (p : Pipe) : absPipe p.flush = absPipe p ++ [.boundary] := by
  simp [Pipe.flush, absPipe, msgItems]

theorem read_refines (p : Pipe) (n : Nat) (hn : 0 < n) (h : WF p) :
    SpecRead (absPipe p) n (p.read n).1 (absPipe (p.read n).2) := by
  rw [read_eq]
  split
  · rename_i hb
    cases hc : p.chan with
    | nil =>
      have e : absPipe p = [] := by simp [absPipe, hb, hc]
      simp only [e]
      exact SpecRead.timedOut n
    | cons m rest =>
      cases m with
      | eof =>
        have e : absPipe p = Item.boundary :: absPipe { p with chan := rest } := by
          simp [absPipe, hb, hc, msgItems]
        simp only [e]
        exact SpecRead.zero n _
      | bytes bs =>
        have hbs : bs ≠ [] := fun e0 => h (Msg.bytes bs) (by rw [hc]; exact List.mem_cons_self) (by rw [e0])
        have e : absPipe p = absPipe { chan := rest, buf := bs } := by
          simp [absPipe, hb, hc, msgItems]
        simp only [e]
        exact deliver_spec (p := { chan := rest, buf := bs }) hn hbs
  · rename_i hb
    exact deliver_spec hn hb

/-- reading an empty pipe reports a timeout and changes nothing; and a timeout is reported only then -/
theorem timeout_iff_empty (p : Pipe) (n : Nat) (hn : 0 < n) (h : WF p) :
    (p.read n).1 = .timedOut ↔ absPipe p = [] := by
  have hs := read_refines p n hn h
  exact ⟨fun ht => spec_timedOut_inv hs ht, fun he => spec_nil_inv hs he⟩

/-! ### histories -/

/-- run a history from a pipe, collecting what the reads observed, in order -/
def observe : Pipe → List Op → List Item × Pipe
  | p, [] => ([], p)
  | p, .write bs :: ops => observe (p.write bs) ops
  | p, .flush :: ops => observe p.flush ops
  | p, .read n :: ops =>
    let (r, p') := p.read n
    let (rest, q) := observe p' ops
    ((match r with
      | .data bs  => bs.map Item.byte
      | .zero     => [Item.boundary]
      | .timedOut => []) ++ rest, q)

/-- everything written, as items, in order -/
def written : List Op → List Item
  | [] => []
  | .write bs :: ops => bs.map .byte ++ written ops
  | .flush :: ops => .boundary :: written ops
  | .read _ :: ops => written ops

def ReadsPositive (ops : List Op) : Prop := ∀ op ∈ ops, ∀ n, op = .read n → 0 < n

/-! helper lemmas (histories); they use the refinement theorems above -/

section helpers

/-- the items a read result stands for -/
def resItems : ReadResult → List Item
  | .data bs  => bs.map Item.byte
  | .zero     => [Item.boundary]
  | .timedOut => []

theorem observe_read (p : Pipe) (n : Nat) (ops : List Op) :
    observe p (.read n :: ops) =
      (resItems (p.read n).1 ++ (observe (p.read n).2 ops).1, (observe (p.read n).2 ops).2) := by
  simp only [observe]
  cases (p.read n).1 <;> rfl

theorem spec_items {s s' : List Item} {n : Nat} {r : ReadResult} (h : SpecRead s n r s') :
    resItems r ++ s' = s := by
  cases h <;> rfl

theorem readsPositive_tail {op : Op} {ops : List Op} (h : ReadsPositive (op :: ops)) : ReadsPositive ops :=
  fun o ho n e => h o (List.mem_cons_of_mem _ ho) n e

theorem exactly_once_aux (ops : List Op) : ∀ (p : Pipe), WF p → ReadsPositive ops →
    (observe p ops).1 ++ absPipe (observe p ops).2 = absPipe p ++ written ops := by
  induction ops with
  | nil => intro p _ _; simp [observe, written]
  | cons op ops ih =>
    intro p hp h
    have ht := readsPositive_tail h
    cases op with
    | write bs =>
      simp only [observe, written]
      rw [ih _ (wf_write p bs hp) ht, write_refines, List.append_assoc]
    | flush =>
      simp only [observe, written]
      rw [ih _ (wf_flush p hp) ht, flush_refines, List.append_assoc]
      rfl
    | read n =>
      have hn : 0 < n := h _ List.mem_cons_self n rfl
      rw [observe_read]
      simp only [written]
      rw [List.append_assoc, ih _ (wf_read p n hp) ht, ← List.append_assoc,
        spec_items (read_refines p n hn hp)]

end helpers

/-- exactly once, in order, boundaries at their positions: for EVERY history (any split into writes, any
read sizes > 0, any interleaving) what the reads observed followed by what is still in flight is exactly
what was written, byte for byte and boundary for boundary -/
theorem exactly_once_in_order (ops : List Op) (h : ReadsPositive ops) :
    (observe Pipe.empty ops).1 ++ absPipe (observe Pipe.empty ops).2 = written ops := by
  have e := exactly_once_aux ops Pipe.empty wf_empty h
  rw [e]
  rfl

/-- the same from any well-formed pipe -/
theorem exactly_once_in_order_from (p : Pipe) (hp : WF p) (ops : List Op) (h : ReadsPositive ops) :
    (observe p ops).1 ++ absPipe (observe p ops).2 = absPipe p ++ written ops :=
  exactly_once_aux ops p hp h

/-- non-vacuity: a history with a read arriving before the data, a buffer smaller than the message and a flush -/
example : (observe Pipe.empty [.read 2, .write [1, 2, 3], .read 2, .flush, .read 2, .read 2, .read 2]).1
    = [.byte 1, .byte 2, .byte 3, .boundary] := by decide

end Pici.C17
