/-
C06 (part 2) — Totality of the evaluator: for ANY expression tree, environment and state that are well formed (metadata
cells never nest — which the Rust code guarantees by construction), every entry point of the evaluator returns a value, a
signal or an abort, or is still running (`outOfFuel`): NEVER a panic.  All panics of `src/native/eval/mod.rs` and of the
natives it calls (`unwrap`, `as_conscell`, `unreachable!`, `set_current_module(..).unwrap()`, `allocate_metadata`) are
explicit `crash` outcomes of the model; this is the proof that none is reachable.  Well-formedness is preserved, so the
theorem applies to every later evaluation of a session.
-/
import PiciModel.Props.C06
import PiciModel.Lemmas.ModuleState
import PiciModel.Lemmas.EvalTotal
import PiciModel.Props.C09

namespace Pici.C06
open Pici

/-- an outcome that is not a panic, with a well-formed state and a well-formed value or signal -/
def OutOK (o : Res Val × St) : Prop :=
  (∀ site, o.1 ≠ .crash site) ∧ StOK o.2 ∧ (∀ v, o.1 = .ok v → noNested v = true) ∧ (∀ s, o.1 = .err s → noNested s = true)

theorem eval_total (fuel : Nat) (st : St) (e env : Val) (mod : Name) (d : Nat)
    (hst : StOK st) (he : noNested e = true) (henv : noNested env = true) :
    OutOK (evalInternal fuel st e env mod d) :=
  (totalAll fuel).eval st e env mod d hst he henv

theorem expand_total (fuel : Nat) (st : St) (e env : Val) (mod : Name) (d : Nat) (ch : Bool)
    (hst : StOK st) (he : noNested e = true) (henv : noNested env = true) :
    OutOK (expandInternal fuel st e env mod d ch).1 :=
  (totalAll fuel).expand st e env mod d ch hst he henv

theorem expandCompletely_total (fuel : Nat) (st : St) (e env : Val) (mod : Name) (d : Nat)
    (hst : StOK st) (he : noNested e = true) (henv : noNested env = true) :
    OutOK (expandCompletely fuel st e env mod d) :=
  (totalAll fuel).complete st e env mod d hst he henv

/-- every native — the 35 simple ones and `eval`, `macroexpand`, `call-native-function`, `make-function`, `load-all` —
applied to arguments of every type and shape -/
theorem native_total (fuel : Nat) (st : St) (id : NativeId) (args : List Val) (env : Val) (d : Nat)
    (hst : StOK st) (hargs : ∀ v ∈ args, noNested v = true) (henv : noNested env = true) :
    OutOK (applyNative fuel st id args env d) :=
  (totalAll fuel).native st id args env d hst hargs henv

/-- what `eval_external` runs -/
theorem evalTop_total (fuel : Nat) (st : St) (tree : Val) (hst : StOK st) (ht : noNested tree = true) :
    OutOK (evalTop fuel st tree) :=
  native_total fuel st .eval [tree] .nil 0 hst (fun v hv => by simp at hv; subst hv; exact ht) rfl

/-- the state a fresh interpreter starts from (only the `default` module) is well formed; by the theorems above so is every
state reached from it by loading the natives (plain values in metadata cells), the prelude and any program -/
theorem initial_state_ok : StOK { (default : St) with modules := [⟨cs!"default", [], none⟩], current := cs!"default" } := by
  refine ⟨by decide, fun m hm p hp => ?_⟩
  simp only [List.mem_cons, List.not_mem_nil, or_false] at hm
  subst hm
  cases hp

/-- complete macro expansion reaches a fixpoint on well-formed input (the full statement of C09's `expand_fixpoint`,
whose extra hypothesis is discharged by `expand_total`) -/
theorem expand_fixpoint_wf (fuel : Nat) (st st1 : St) (e e1 env : Val) (mod : Name) (d : Nat)
    (hst : StOK st) (he : noNested e = true) (henv : noNested env = true)
    (h : expandCompletely fuel st e env mod d = (.ok e1, st1)) :
    ∃ fuel', expandCompletely fuel' st1 e1 env mod d = (.ok e1, st1) := by
  induction fuel generalizing st e with
  | zero => rw [Expand.expandCompletely_zero] at h; cases h
  | succ fuel ih =>
    have hround := expand_total fuel st e env mod (d + 1) false hst he henv
    rw [expandCompletely] at h
    split at h
    · -- a round that changed something: go on with its (well-formed) result
      rename_i x s' hx
      rw [hx] at hround
      exact ih s' x hround.2.1 (hround.2.2.1 x rfl) h
    · -- the last round: it reproduces its own output
      rename_i x s' hx
      cases h
      obtain ⟨rfl, hagain⟩ := C09.round_idempotent_partial fuel st st1 e e1 env mod (d + 1) he hx
      exact ⟨fuel + 1, Expand.expandCompletely_of_false hagain⟩
    · cases h
    · cases h
    · cases h

/-! non-vacuity: the witnesses of the original panics in `lookup` are now signals, on a hand-made environment that is not an association list -/
example : (match (evalInternal 10 { (default : St) with modules := [⟨cs!"default", [], none⟩], current := cs!"default" }
                    (.symName cs!"x") (.num 5) cs!"default" 0).1 with | .err _ => true | _ => false) = true := by decide +kernel

end Pici.C06
