/-
C03 — Garbage is reclaimed and the heap stays proportional to live data.

Immediately after a collection exactly the reachable cells are in use; surplus free space beyond the configured ratio is
released; the heap grows only when a collection found every cell reachable, and then by the configured factor — so for
EVERY history the size of the cell vector is bounded by the initial capacity or the growth factor times the largest set of
reachable cells seen, whatever the length of the history.
-/
import PiciModel.Props.C01

namespace Pici.C03
open Pici Pici.Heap Pici.HeapState Pici.C01

/-- the number of reachable cells of a heap (the size of its used prefix right after a collection) -/
def reachCount (h : Heap) : Nat :=
  match h.collectFast with
  | some hc => hc.firstFree
  | none    => 0

section helpers

/-! ### helpers: the `collect` operation -/

theorem reachCount_eq (h : Heap) : reachCount h = liveCount h := rfl

/-- the `collect` operation, spelled out -/
theorem step_collect (s : HeapState) (h : SInv s) :
    ∃ h', s.heap.collectFast = some h' ∧
      s.step .collect = ({ s with heap := h' }, .collected h'.firstFree (h'.order.size - h'.firstFree)) ∧
      SInv { s with heap := h' } ∧ (∀ a, Used h' a ↔ Reach s.heap a) := by
  obtain ⟨h', e, i, _, _, u⟩ := collect_ok s h
  refine ⟨h', e, ?_, i, u⟩
  unfold HeapState.step
  simp only [e]

theorem reachCount_of {h h' : Heap} (e : h.collectFast = some h') : reachCount h = h'.firstFree := by
  unfold reachCount
  rw [e]

/-- a collection ends with `shrink`: the free space is within the configured ratio -/
theorem collectFast_free (h h' : Heap) (hinv : Inv h) (e : h.collectFast = some h') :
    h'.order.size - h'.firstFree ≤ ratio h'.firstFree Config.maximumFreeRatioNum Config.maximumFreeRatioDen ∨
    h'.order.size - h'.firstFree = ratio h'.firstFree Config.minimumFreeRatioNum Config.minimumFreeRatioDen + 1 := by
  unfold collectFast at e
  cases hm : markFast h (markFuel h) (roots h).reverse [] with
  | none => rw [hm] at e; cases e
  | some R =>
    rw [hm] at e
    simp only [Option.map_some, Option.some.injEq] at e
    subst e
    unfold collectWith
    obtain ⟨hp1, hp2⟩ := sweep_perm h R hinv.ff_le
    have hsz : (sweep h R).order.size = h.order.size := by simpa using hp1.length_eq
    have hff : (sweep h R).firstFree ≤ (sweep h R).order.size := by have := hinv.ff_le; omega
    have hf : (shrink (sweep h R)).firstFree = (sweep h R).firstFree := (shrink_spec (sweep h R) hff).2.1
    rw [hf]
    exact shrink_post (sweep h R) hff

theorem no_reach_of_none_held (s : HeapState) (h : SInv s) (hnone : ∀ a, heldCount s a = 0) (a : Addr) : ¬ Reach s.heap a := by
  intro hr
  induction hr with
  | root hroot =>
    rename_i b
    have := (mem_roots_iff.1 hroot).2
    rw [h.rc b, hnone b] at this
    exact Nat.lt_irrefl 0 this
  | step _ _ ih => exact ih

end helpers

/-- after the `collect` operation exactly the cells reachable from the client's handles and the global definitions are in use -/
theorem collect_exact (s : HeapState) (h : SInv s) (a : Addr) :
    Used (s.step .collect).1.heap a ↔ Reach s.heap a := by
  obtain ⟨h', _, e, _, u⟩ := step_collect s h
  rw [e]
  exact u a

/-- … and their number is what the operation reports as `used` -/
theorem collect_reports (s : HeapState) (h : SInv s) :
    ∃ free, (s.step .collect).2 = .collected (reachCount s.heap) free ∧
      (free ≤ ratio (reachCount s.heap) Config.maximumFreeRatioNum Config.maximumFreeRatioDen ∨
       free = ratio (reachCount s.heap) Config.minimumFreeRatioNum Config.minimumFreeRatioDen + 1) := by
  obtain ⟨h', ec, e, _, _⟩ := step_collect s h
  rw [e, reachCount_of ec]
  exact ⟨_, rfl, collectFast_free s.heap h' h.heap ec⟩

/-- when nothing is held — no handle in any slot, no global definition — a collection leaves nothing in use -/
theorem nothing_held_nothing_used (s : HeapState) (h : SInv s) (hnone : ∀ a, heldCount s a = 0) :
    (s.step .collect).1.heap.firstFree = 0 := by
  obtain ⟨h', _, e, i, u⟩ := step_collect s h
  rw [e]
  show h'.firstFree = 0
  have hnil : usedList h' = [] := by
    apply List.eq_nil_iff_forall_not_mem.2
    intro a ha
    exact no_reach_of_none_held s h hnone a ((u a).1 ha)
  rw [← usedList_length i.heap, hnil]
  rfl

/-- one operation lengthens the cell vector at most to the configured growth of the reachable set
(`len + 1 + (⌊(len + 1)·ALLOCATION_RATIO⌋ - 1)` with `len` = number of reachable cells; `2·len + 1` today) -/
theorem step_size (s : HeapState) (op : HeapOp) (h : SInv s) :
    (s.step op).1.heap.order.size ≤
      max s.heap.order.size
          (reachCount s.heap + 1 + (ratio (reachCount s.heap + 1) Config.allocationRatioNum Config.allocationRatioDen - 1)) := by
  exact (step_ok s op h).size

/-- the largest reachable set at any point of a history -/
def maxLive : List HeapOp → Nat
  | [] => reachCount HeapState.init.heap
  | ops => (List.range (ops.length + 1)).foldl (fun m k => max m (reachCount (run (ops.take k)).heap)) 0

/-- the growth bound is monotone in the number of reachable cells -/
def growth (n : Nat) : Nat := n + 1 + (ratio (n + 1) Config.allocationRatioNum Config.allocationRatioDen - 1)

section helpers

/-! ### helpers: maxima over the prefixes of a history -/

theorem foldl_max_le (f : Nat → Nat) (B : Nat) : ∀ (l : List Nat) (m0 : Nat), m0 ≤ B → (∀ k ∈ l, f k ≤ B) →
    l.foldl (fun m k => max m (f k)) m0 ≤ B := by
  intro l
  induction l with
  | nil => intro m0 h0 _; exact h0
  | cons a t ih =>
    intro m0 h0 hl
    exact ih _ (Nat.max_le.2 ⟨h0, hl a (List.mem_cons_self ..)⟩) (fun k hk => hl k (List.mem_cons_of_mem _ hk))

theorem le_foldl_max_init (f : Nat → Nat) : ∀ (l : List Nat) (m0 : Nat), m0 ≤ l.foldl (fun m k => max m (f k)) m0 := by
  intro l
  induction l with
  | nil => intro m0; exact Nat.le_refl _
  | cons a t ih => intro m0; exact Nat.le_trans (Nat.le_max_left _ _) (ih _)

theorem le_foldl_max_mem (f : Nat → Nat) : ∀ (l : List Nat) (m0 k : Nat), k ∈ l → f k ≤ l.foldl (fun m k => max m (f k)) m0 := by
  intro l
  induction l with
  | nil => intro m0 k hk; cases hk
  | cons a t ih =>
    intro m0 k hk
    rcases List.mem_cons.1 hk with rfl | hk'
    · exact Nat.le_trans (Nat.le_max_right _ _) (le_foldl_max_init f t _)
    · exact ih _ k hk'

theorem maxLive_eq (ops : List HeapOp) :
    maxLive ops = (List.range (ops.length + 1)).foldl (fun m k => max m (reachCount (run (ops.take k)).heap)) 0 := by
  cases ops with
  | nil => simp [maxLive, List.range_succ, run]
  | cons op ops => rfl

theorem le_maxLive (ops : List HeapOp) (k : Nat) (hk : k ≤ ops.length) : reachCount (run (ops.take k)).heap ≤ maxLive ops := by
  rw [maxLive_eq]
  exact le_foldl_max_mem (fun k => reachCount (run (ops.take k)).heap) _ 0 k (List.mem_range.2 (by omega))

theorem maxLive_le (ops : List HeapOp) (B : Nat) (hB : ∀ k, k ≤ ops.length → reachCount (run (ops.take k)).heap ≤ B) :
    maxLive ops ≤ B := by
  rw [maxLive_eq]
  exact foldl_max_le (fun k => reachCount (run (ops.take k)).heap) B _ 0 (Nat.zero_le _)
    (fun k hk => hB k (by have := List.mem_range.1 hk; omega))

theorem maxLive_snoc (ops : List HeapOp) (op : HeapOp) : maxLive ops ≤ maxLive (ops ++ [op]) := by
  apply maxLive_le
  intro k hk
  have := le_maxLive (ops ++ [op]) k (by simp; omega)
  rw [List.take_append_of_le_length hk] at this
  exact this

theorem run_snoc (ops : List HeapOp) (op : HeapOp) : run (ops ++ [op]) = ((run ops).step op).1 := by
  simp [run, List.foldl_append]

theorem growth_mono {n m : Nat} (h : n ≤ m) : growth n ≤ growth m := growthOf_mono h

theorem run_size_bound_rev (l : List HeapOp) :
    (run l.reverse).heap.order.size ≤ max Config.initialFreeCells (growth (maxLive l.reverse)) := by
  induction l with
  | nil =>
    have : (run []).heap.order.size = Config.initialFreeCells := by simp [run, HeapState.init, Heap.init]
    rw [List.reverse_nil, this]
    exact Nat.le_max_left _ _
  | cons op l ih =>
    rw [List.reverse_cons, run_snoc]
    have h1 := step_size (run l.reverse) op (sinv_run l.reverse)
    have h2 : reachCount (run l.reverse).heap ≤ maxLive l.reverse := by
      have := le_maxLive l.reverse l.reverse.length (Nat.le_refl _)
      rw [List.take_length] at this
      exact this
    have h3 := maxLive_snoc l.reverse op
    have h4 : growth (reachCount (run l.reverse).heap) ≤ growth (maxLive (l.reverse ++ [op])) :=
      growth_mono (Nat.le_trans h2 h3)
    have h5 : growth (maxLive l.reverse) ≤ growth (maxLive (l.reverse ++ [op])) := growth_mono h3
    have h1' : ((run l.reverse).step op).1.heap.order.size ≤
        max (run l.reverse).heap.order.size (growth (reachCount (run l.reverse).heap)) := h1
    omega

end helpers

/-- THE bound: for every history, however long, the heap is never larger than the initial capacity or the growth of the
largest reachable set seen so far -/
theorem run_size_bound (ops : List HeapOp) :
    (run ops).heap.order.size ≤ max Config.initialFreeCells (growth (maxLive ops)) := by
  have := run_size_bound_rev ops.reverse
  rw [List.reverse_reverse] at this
  exact this

/-! non-vacuity: three allocations, one dropped, then a collection: 2 cells are reachable, the surplus of the initial 256 cells
is released down to `2 + ⌊2·MINIMUM_FREE_RATIO⌋ + 1 = 3`, and the next allocations grow the heap only when it is full -/
def exOps : List HeapOp := [.cons 0 (-1) (-1), .cons 1 0 (-1), .num 2 5, .drop 2, .collect]
example : (run exOps).heap.firstFree = 2 ∧ (run exOps).heap.order.size = 3 := by decide +kernel
example : (run (exOps ++ [.num 2 1, .num 3 2])).heap.order.size = 7 := by decide +kernel

end Pici.C03
