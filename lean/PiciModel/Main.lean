/-
Line-protocol driver of the model (the counterpart of `src/verif_driver.rs` in /repo).
It calls the model functions the theorems are about — not copies.
-/
import PiciModel.Model.Eval
import PiciModel.Model.Pipe
import PiciModel.Model.Heap
import PiciModel.Generated.Prelude

open Pici

def hexDigit (n : Nat) : Char := if n < 10 then Char.ofNat (48 + n) else Char.ofNat (87 + n)

def hexBytes (bs : List UInt8) : String :=
  if bs.isEmpty then "-" else String.ofList (bs.flatMap fun b => [hexDigit (b.toNat / 16), hexDigit (b.toNat % 16)])

def hexChars (cs : List Char) : String := hexBytes (String.ofList cs).toUTF8.toList

def unhexDigit (c : Char) : Option Nat :=
  if '0' ≤ c ∧ c ≤ '9' then some (c.toNat - 48)
  else if 'a' ≤ c ∧ c ≤ 'f' then some (c.toNat - 87)
  else if 'A' ≤ c ∧ c ≤ 'F' then some (c.toNat - 55)
  else none

partial def unhexBytesAux : List Char → List UInt8 → Option (List UInt8)
  | [], acc => some acc.reverse
  | h :: l :: rest, acc =>
    match unhexDigit h, unhexDigit l with
    | some a, some b => unhexBytesAux rest (UInt8.ofNat (a * 16 + b) :: acc)
    | _, _ => none
  | _, _ => none

def unhexBytes (s : String) : Option (List UInt8) :=
  if s == "-" then some [] else unhexBytesAux s.toList []

def unhexChars (s : String) : Option (List Char) := do
  let bs ← unhexBytes s
  let str ← String.fromUTF8? (ByteArray.mk bs.toArray)
  pure str.toList

def locString (l : Loc) : String :=
  match l.src with
  | .native  => "native"
  | .prelude => s!"prelude:{l.line}:{l.col}"
  | .stdin   => s!"stdin:{l.line}:{l.col}"
  | .file p  => s!"file.{hexChars p}:{l.line}:{l.col}"

inductive DumpItem where
  | val (v : Val)
  | cdr (d : Val)
  | text (s : String)

/-- canonical, address-free, metadata-showing text of a value; the same traversal, budget and format as
`dump` in `src/verif_driver.rs` -/
partial def dumpLoop (stack : List DumpItem) (out : String) (budget : Nat) (gens : List Nat) : String :=
  match stack with
  | [] => out
  | .text s :: rest => dumpLoop rest (out ++ s) budget gens
  | .cdr d :: rest =>
    match d with
    | .nil => dumpLoop rest (out ++ ")") budget gens
    | .cons a d' =>
      if budget == 0 then dumpLoop rest (out ++ " ...)") budget gens
      else dumpLoop (.val a :: .cdr d' :: rest) (out ++ " ") (budget - 1) gens
    | other => dumpLoop (.val other :: .text ")" :: rest) (out ++ " . ") budget gens
  | .val v :: rest =>
    if budget == 0 then dumpLoop rest (out ++ "...") budget gens
    else
      let budget := budget - 1
      match v with
      | .nil => dumpLoop rest (out ++ "()") budget gens
      | .md inner m =>
        dumpLoop (.val inner :: rest) (out ++ "M{" ++ hexChars m.readName ++ "," ++ locString m.loc ++ "," ++ hexChars m.doc ++ "}") budget gens
      | .num n => dumpLoop rest (out ++ s!"N{n}") budget gens
      | .chr c => dumpLoop rest (out ++ s!"C{c.toNat}") budget gens
      | .sym (.named n) => dumpLoop rest (out ++ "S" ++ hexChars n) budget gens
      | .sym (.gen id) =>
        match gens.idxOf? id with
        | some k => dumpLoop rest (out ++ s!"G{k}") budget gens
        | none   => dumpLoop rest (out ++ s!"G{gens.length}") budget (gens ++ [id])
      | .cons a d => dumpLoop (.val a :: .cdr d :: rest) (out ++ "(") budget gens
      | .trap n h => dumpLoop (.val n :: .text "," :: .val h :: .text "}" :: rest) (out ++ "T{") budget gens
      | .native id => dumpLoop rest (out ++ "P" ++ hexChars id.name) budget gens
      | .fn k r params body env mod =>
        let ps := (listToVec params).getD [] ++ r.restParam?.toList
        let items := (ps.foldr (fun p acc => match acc with
          | [] => [DumpItem.val p]
          | _  => DumpItem.val p :: DumpItem.text " " :: acc) [])
        dumpLoop (items ++ .text "]," :: .val body :: .text "," :: .val env :: .text "}" :: rest)
          (out ++ "F{" ++ String.ofList k.name ++ "," ++ (if r.restParam?.isSome then "1" else "0") ++ "," ++ hexChars mod ++ ",[") budget gens

def dump (v : Val) : String := dumpLoop [.val v] "" 20000 []

def fuelMax : Nat := 1000000000000

/-! ### sessions -/

/-! ### heap sessions: the same requests as `cmd_heap` in the Rust driver -/

abbrev HeapSession := HeapState

def HeapSession.new : HeapSession := HeapState.init

def heapIdx (h : Heap) : Option Addr → String
  | none   => "_"
  | some a =>
    match h.indexOf a with
    | some i => if i < h.firstFree then toString i else s!"!free{i}"
    | none   => "!dangling"

def heapCellDesc (h : Heap) (c : Content) : String :=
  match c with
  | .md v m      => s!"M,{heapIdx h v},{hexChars m.readName},{locString m.loc},{hexChars m.doc}"
  | .num n       => s!"N,{n}"
  | .chr c       => s!"C,{c}"
  | .cons a d    => s!"K,{heapIdx h a},{heapIdx h d}"
  | .sym name o  => s!"S,{match name with | some n => hexChars n | none => "~"},{heapIdx h o}"
  | .trap n t    => s!"T,{heapIdx h n},{heapIdx h t}"
  | .fn k r ps b e m =>
    s!"F,{String.ofList k.name},{if r then 1 else 0},{heapIdx h b},{heapIdx h e},{hexChars m},[{"/".intercalate (ps.map fun p => heapIdx h (some p))}]"

def sortStrings (xs : List String) : List String := (xs.toArray.qsort (· < ·)).toList

def heapSnapshot (h : Heap) : String :=
  let cells := (List.range h.firstFree).map fun i =>
    let a := h.order.getD i 0
    let c := h.cell a
    s!"{i}:{c.rc}:{heapCellDesc h c.content};"
  let syms := sortStrings (h.symtab.map fun (n, a) => s!"{hexChars n}>{heapIdx h (some a)}")
  let defs := sortStrings (h.globals.map fun (n, v) => s!"{hexChars n}>{heapIdx h v}")
  s!"len={h.order.size} ff={h.firstFree} cells={"".intercalate cells} syms={",".intercalate syms} mods={hexChars cs!"default"}\{*}\{{",".intercalate defs}} cur={hexChars cs!"default"}"

def parseHeapOp (words : List String) : Option HeapOp :=
  match words with
  | ["num", d, n]      => do pure (.num (← d.toNat?) (← n.toInt?))
  | ["chr", d, c]      => do pure (.chr (← d.toNat?) (← c.toNat?))
  | ["cons", d, a, b]  => do pure (.cons (← d.toNat?) (← slotArg a) (← slotArg b))
  | ["trap", d, a, b]  => do pure (.trap (← d.toNat?) (← slotArg a) (← slotArg b))
  | ["sym", d, n]      => do pure (.sym (← d.toNat?) (← unhexChars n))
  -- the printed name of a generated symbol, interned: the model prints the address as `0x?` (the harness uses this for at most
  -- one generated symbol per history, so the masked name stands for exactly one real name)
  | ["symprint", d, _] => do pure (.sym (← d.toNat?) cs!"#<symbol-0x?>")
  | ["gensym", d]      => do pure (.gensym (← d.toNat?))
  | ["fn", d, k, r, b, e, m, ps] => do
      let params ← if ps == "-" then some [] else (ps.splitOn ",").mapM String.toNat?
      pure (.fn (← d.toNat?) (if k == "macro" then .macro else .lambda) (r == "1") (← slotArg b) (← slotArg e) (← unhexChars m) params)
  | ["meta", d, s, rn, doc, l, c] => do
      pure (.md (← d.toNat?) (← slotArg s) ⟨← unhexChars rn, ⟨.stdin, ← l.toNat?, ← c.toNat?⟩, ← unhexChars doc⟩)
  | ["clone", d, s]    => do pure (.clone (← d.toNat?) (← slotArg s))
  | ["drop", i]        => do pure (.drop (← i.toNat?))
  | ["car", d, s]      => do pure (.car (← d.toNat?) (← s.toNat?))
  | ["cdr", d, s]      => do pure (.cdr (← d.toNat?) (← s.toNat?))
  | ["def", n, s]      => do pure (.define (← unhexChars n) (← slotArg s))
  | ["undef", n]       => do pure (.undefine (← unhexChars n))
  | ["getglobal", d, n, _] => do pure (.getGlobal (← d.toNat?) (← unhexChars n))
  | ["collect"]        => some .collect
  | _ => none
where
  slotArg (w : String) : Option Int := if w == "_" then some (-1) else w.toInt?

def heapSymAddr (h : Heap) (x : Option Addr) : Option Addr :=
  match x with
  | none => none
  | some a =>
    match (h.cell a).content with
    | .sym _ _ => some a
    | .md (some t) _ => (match (h.cell t).content with | .sym _ _ => some t | _ => none)
    | _ => none

def HeapSession.step (s : HeapSession) (words : List String) : String × HeapSession :=
  match words with
  | ["snap"]   => (heapSnapshot s.heap, s)
  | ["inv"]    => ("ok", s)
  | ["counts"] => (s!"used={s.heap.firstFree} free={s.heap.order.size - s.heap.firstFree} len={s.heap.order.size}", s)
  | ["peek", i] =>
    match i.toInt?.bind s.arg with
    | some x => (dump (Heap.abs s.heap (s.heap.store.size + 1) x), s)
    | none   => ("driver-error empty slot", s)
  | ["symeq", a, b] =>
    match a.toInt?.bind s.arg, b.toInt?.bind s.arg with
    | some x, some y =>
      (match heapSymAddr s.heap x, heapSymAddr s.heap y with
        | some p, some q => toString (p == q)
        | _, _ => "false", s)
    | _, _ => ("driver-error empty slot", s)
  | _ =>
    match parseHeapOp words with
    | none    => ("driver-error bad heap request", s)
    | some op =>
      let (s', r) := HeapState.step s op
      let text := match r with
        | .ok               => "ok"
        | .refused why      => s!"refused:{why}"
        | .notFound         => "notfound"
        | .collected u f    => s!"ok used={u} free={f}"
        | .crash why        => s!"CRASH:{why}"
      (text, s')

structure Session where
  st   : St
  heap : HeapSession

def initialSt (attached : Bool) : St :=
  { modules := [⟨cs!"default", [], none⟩], current := cs!"default", gensym := 0, out := [],
    stdinBuf := [], stdinChunks := [], attached := attached, inbox := [], sent := [], steps := 0 }

/-- `load_native_functions` -/
def loadNatives (st : St) : St :=
  let old := st.current
  let st := st.defineModule cs!"native"
  let st := NativeId.all.foldl (fun st id =>
    let st := st.defineGlobal id.name (.md (.native id) ⟨id.name, ⟨.native, 0, 0⟩, id.doc⟩)
    st.send (insertField (insertField (insertField (insertField (insertField []
      cs!"kind" cs!"GLOBAL_DEFINED") cs!"name" id.name) cs!"module" st.current) cs!"type" cs!"function-type") cs!"value" cs!"#<lambda>")) st
  (st.setCurrentModule old).getD st

/-- `ui::load` -/
def loadSource (st : St) (text : List Char) (module : Name) : Except String St :=
  let expr := Val.ofList [.symName cs!"load-all", .ofString text, .ofString module]
  match evalTop fuelMax st expr with
  | (.ok _, st)      => .ok st
  | (.err s, _)      => .error s!"loading {String.ofList module}: signal {dump s}"
  | (.crash s, _)    => .error s!"loading {String.ofList module}: crash {String.ofList s}"
  | (.outOfFuel, _)  => .error s!"loading {String.ofList module}: out of fuel"

def printToString (st : St) (v : Val) : String :=
  match printNative [v] 0 with
  | .ok p => match listToString p with
    | some s => hexChars s
    | none   => "!notstring"
  | _ => let _ := st; "!printsig"

def outcomeString (st : St) (r : Res Val) : String :=
  match r with
  | .ok x      => s!"ok:{printToString st x}:{dump x}"
  | .err s     => if s.isNil then "abort" else s!"sig:{printToString st s}:{dump s}"
  | .crash s   => s!"CRASH:{String.ofList s}"
  | .outOfFuel => "OUTOFFUEL"

def messagesString (msgs : List (List (Name × List Char))) : String :=
  ";".intercalate (msgs.filter (fun m => !(m.lookup cs!"kind" == some cs!"MEMORY_SAMPLE")) |>.map fun m =>
    "&".intercalate (m.map fun (k, v) => s!"{hexChars k}={hexChars v}"))

partial def evalForms (st : St) (cursor : Val) (line col : Int) (stopOnSignal : Bool) (acc : List String) : List String × String × St :=
  if cursor.isNil then (acc.reverse, "end", st)
  else
    match readCore [cursor, .symName cs!"stdin", .num line, .num col] 0 with
    | .err s     => (acc.reverse, s!"readsig:{printToString st s}", st)
    | .crash s   => (acc.reverse, s!"CRASH:{String.ofList s}", st)
    | .outOfFuel => (acc.reverse, "OUTOFFUEL", st)
    | .ok (.ok result rest) =>
      let (r, st) := evalTop fuelMax st result
      let failed := match r with | .ok _ => false | _ => true
      let acc := outcomeString st r :: acc
      if failed && stopOnSignal then (acc.reverse, "stopped", st)
      else evalForms st rest.string (usizeAsI64 rest.line) (usizeAsI64 rest.column) stopOnSignal acc
    | .ok other =>
      let name := match other with
        | .nothing => "nothing" | .incomplete => "incomplete" | .invalid => "invalid" | .error .. => "error" | .ok .. => "ok"
      (acc.reverse, s!"{name}:{printToString st other.toPlist}", st)

def cmdEval (sess : Session) (text : List Char) (stopOnSignal : Bool) : String × Session :=
  let (results, status, st) := evalForms sess.st (.ofChars text) 1 1 stopOnSignal []
  let out := hexChars st.out
  let dbg := messagesString st.sent
  let st := { st with out := [], sent := [] }
  (s!"{" ;; ".intercalate results} | end={status} out={out} cur={hexChars st.current} dbg={dbg}", { sess with st := st })

def cmdRead (words : List String) : Option String := do
  let text ← unhexChars (← words[0]?)
  let sourceWord := words[1]?.getD "stdin"
  let source ←
    if sourceWord.startsWith "file." then (unhexChars (sourceWord.drop 5).toString).map Val.ofString
    else if sourceWord.startsWith "sym." then (unhexChars (sourceWord.drop 4).toString).map Val.symName
    else some (Val.symName sourceWord.toList)
  let l ← (words[2]?.getD "1").toInt?
  let c ← (words[3]?.getD "1").toInt?
  match readNative [.ofChars text, source, .num l, .num c] 0 with
  | .ok x      => pure s!"ok:{dump x}"
  | .err s     => pure s!"sig:{dump s}"
  | .crash s   => pure s!"CRASH:{String.ofList s}"
  | .outOfFuel => pure "OUTOFFUEL"


/-! ### Lean source of a value (for `Generated/PreludeExpanded.lean`) -/

def leanChars (n : List Char) : String :=
  if n.all (fun c => 32 ≤ c.toNat && c.toNat < 127 && c != '"' && c != '\\') then "cs!\"" ++ String.ofList n ++ "\""
  else "[" ++ ", ".intercalate (n.map fun c => s!"Char.ofNat {c.toNat}") ++ "]"

def leanSrc : Src → String
  | .native => ".native" | .prelude => ".prelude" | .stdin => ".stdin"
  | .file p => s!"(.file {leanChars p})"

partial def leanTerm : Val → String
  | .nil => ".nil"
  | .num n => if n < 0 then s!"(.num ({n}))" else s!"(.num {n})"
  | .chr c => s!"(.chr (Char.ofNat {c.toNat}))"
  | .sym (.named n) => s!"(.sym (.named {leanChars n}))"
  | .sym (.gen i) => s!"(.sym (.gen {i}))"
  | .cons a d => s!"(.cons {leanTerm a} {leanTerm d})"
  | .fn k r p b e m => s!"(.fn {if k == .lambda then ".lambda" else ".macro"} {leanTerm r} {leanTerm p} {leanTerm b} {leanTerm e} {leanChars m})"
  | .native id => s!"(.native {toString (repr id)})"
  | .trap n h => s!"(.trap {leanTerm n} {leanTerm h})"
  | .md v m => s!"(.md {leanTerm v} ⟨{leanChars m.readName}, ⟨{leanSrc m.loc.src}, {m.loc.line}, {m.loc.col}⟩, {leanChars m.doc}⟩)"

structure DriverState where
  session : Option Session
  pipe    : Option Pipe
  srcDir  : String

def newSession (ds : DriverState) (words : List String) : IO (Except String Session) := do
  let attached := words.contains "umbilical"
  let mut st := initialSt attached
  if !words.contains "empty" then
    st := loadNatives st
  let wantPrelude := words.contains "prelude" || words.contains "repl" || words.contains "debugger"
  let mut files : List (String × String) := []
  if wantPrelude then files := files ++ [("prelude.lisp", "prelude")]
  if words.contains "repl" then files := files ++ [("repl.lisp", "repl")]
  if words.contains "debugger" then files := files ++ [("debugger.lisp", "debugger")]
  for (file, module) in files do
    let text ← IO.FS.readFile (ds.srcDir ++ "/" ++ file)
    match loadSource st text.toList module.toList with
    | .ok st'  => st := st'
    | .error e => return .error e
  st := { st with out := [], sent := [] }
  return .ok { st := st, heap := HeapSession.new }

def handle (ds : DriverState) (line : String) : IO (String × DriverState) := do
  let words := (line.splitOn " ").filter (· ≠ "")
  match words with
  | [] => return ("driver-error empty request", ds)
  | cmd :: args =>
    match cmd with
    | "new" =>
      match ← newSession ds args with
      | .ok s    => return ("ok", { ds with session := some s })
      | .error e => return (s!"driver-error {e}", { ds with session := none })
    | "sched" =>
      match ds.session with
      | some sess =>
        let every := match args.head? with
          | some spec => if spec.startsWith "every:" then ((spec.drop 6).toString.toNat?).getD 0 else 0
          | none => 0
        return ("ok", { ds with session := some { sess with heap := { sess.heap with every := every, allocs := 0 } } })
      | none => return ("ok", ds)
    | "poison" => return ("ok", ds)
    | "eval" | "evalstop" =>
      match ds.session, args.head?.bind unhexChars with
      | some sess, some text =>
        let (resp, sess) := cmdEval sess text (cmd == "evalstop")
        return (resp, { ds with session := some sess })
      | _, _ => return ("driver-error no session or bad hex", ds)
    | "read" => return ((cmdRead args).getD "driver-error bad read request", ds)
    | "stdin" =>
      match ds.session with
      | some sess =>
        let chunks := match args.head? with
          | some spec => (spec.splitOn ",").filterMap unhexBytes
          | none      => []
        return ("ok", { ds with session := some { sess with st := { sess.st with stdinBuf := [], stdinChunks := chunks } } })
      | none => return ("driver-error no session", ds)
    | "command" =>
      match ds.session, args.head?.bind unhexChars with
      | some sess, some c =>
        if sess.st.attached then
          let atStep := (args[1]?.bind String.toNat?).getD 0 + sess.st.steps
          let count := (args[2]?.bind String.toNat?).getD 1
          return ("ok", { ds with session := some { sess with st := { sess.st with inbox := sess.st.inbox ++ List.replicate count ⟨atStep, c⟩ } } })
        else return ("driver-error no umbilical", ds)
      | _, _ => return ("driver-error no session or bad hex", ds)
    | "commandrand" =>
      match ds.session, args[0]?.bind String.toNat? with
      | some sess, some seed =>
        if sess.st.attached then
          let atStep := (args[1]?.bind String.toNat?).getD 0 + sess.st.steps
          let count := (args[2]?.bind String.toNat?).getD 1
          let rec gen (n : Nat) (state : UInt64) (acc : List Command) : List Command :=
            match n with
            | 0 => acc.reverse
            | n + 1 =>
              let state := state * 6364136223846793005 + 1442695040888963407
              gen n state (⟨atStep, if (state >>> 33) &&& 1 == 1 then cs!"STEP-IN" else cs!"STEP-OVER"⟩ :: acc)
          return ("ok", { ds with session := some { sess with st := { sess.st with inbox := sess.st.inbox ++ gen count (UInt64.ofNat seed) [] } } })
        else return ("driver-error no umbilical", ds)
      | _, _ => return ("driver-error no session or bad seed", ds)
    | "audit" => return ("ok", ds)
    | "h" =>
      match ds.session with
      | some sess =>
        let (resp, heap) := sess.heap.step args
        return (resp, { ds with session := some { sess with heap := heap } })
      | none => return ("driver-error no session", ds)
    | "p" =>
      match args with
      | ["new"] => return ("ok", { ds with pipe := some Pipe.empty })
      | ["w", h] =>
        match ds.pipe, unhexBytes h with
        | some p, some bs => return (s!"wrote {bs.length}", { ds with pipe := some (p.write bs) })
        | _, _ => return ("driver-error no pipe or bad hex", ds)
      | ["f"] =>
        match ds.pipe with
        | some p => return ("flushed", { ds with pipe := some p.flush })
        | none   => return ("driver-error no pipe", ds)
      | ["r", n] =>
        match ds.pipe, n.toNat? with
        | some p, some k =>
          let (r, p) := p.read k
          let resp := match r with
            | .data bs  => s!"data {hexBytes bs}"
            | .zero     => "zero"
            | .timedOut => "timeout"
          return (resp, { ds with pipe := some p })
        | _, _ => return ("driver-error no pipe or bad size", ds)
      | _ => return ("driver-error unknown pipe op", ds)
    | "preludecheck" =>
      -- the generated constants of Generated/Prelude.lean against what loading the current prelude.lisp binds
      match ds.session with
      | some sess =>
        let bad := Prelude.table.filter fun (name, v) =>
          match sess.st.getGlobal name cs!"prelude" with
          | .found w => w.unmeta != v
          | _        => true
        return (if bad.isEmpty then s!"ok {Prelude.table.length}" else "MISMATCH " ++ " ".intercalate (bad.map fun (n, _) => String.ofList n), ds)
      | none => return ("driver-error no session", ds)
    | "preludedump" =>
      -- the closures that loading the current prelude.lisp binds for the definitions whose body uses a macro (their bodies are
      -- stored macro-expanded): Lean source, one `name<TAB>params<TAB>rest<TAB>body` record per definition, records separated by ` ;; `
      match ds.session with
      | some sess =>
        let modName := (args.head?.getD "prelude").toList
        let defs := match sess.st.modules.find? (·.name == modName) with
          | some m => m.defs
          | none   => []
        let recs := defs.filterMap fun (name, w) =>
          if modName == cs!"prelude" && Prelude.table.any (·.1 == name) then none else
          match w.get with
          | .fn k r p b .nil m =>
            if m == modName then some (String.ofList name ++ "\t" ++ (if k == .lambda then "lambda" else "macro") ++ "\t" ++ leanTerm p ++ "\t" ++ leanTerm r ++ "\t" ++ leanTerm b) else none
          | _ => none
        return (" ;; ".intercalate recs, ds)
      | none => return ("driver-error no session", ds)
    | "whitespace" =>
      let cps := (List.range 0x110000).filter fun n => (n < 0xD800 || n > 0xDFFF) && isWhitespace (Char.ofNat n)
      return (",".intercalate (cps.map toString), ds)
    | "ratio" =>
      match args.head?.bind String.toNat? with
      | some n => return (s!"{n * Config.allocationRatioNum / Config.allocationRatioDen} {n * Config.maximumFreeRatioNum / Config.maximumFreeRatioDen} {n * Config.minimumFreeRatioNum / Config.minimumFreeRatioDen}", ds)
      | none => return ("driver-error bad n", ds)
    | "echo" => return (" ".intercalate args, ds)
    | _ => return (s!"driver-error unknown request {cmd}", ds)

partial def loop (h : IO.FS.Stream) (out : IO.FS.Stream) (ds : DriverState) : IO Unit := do
  let line ← h.getLine
  if line.isEmpty then return ()
  let line := line.trimAscii.toString
  if line.isEmpty then loop h out ds
  else
    let (resp, ds) ← handle ds line
    out.putStrLn (resp.replace "\n" " ")
    out.flush
    loop h out ds

def main (args : List String) : IO Unit := do
  let srcDir := args.head?.getD "/repo/src"
  loop (← IO.getStdin) (← IO.getStdout) { session := none, pipe := none, srcDir := srcDir }
