#!/bin/sh
# Build the framework from files on disk only (offline): generated Lean files, the Lean model + theorems +
# model driver, the hooked and the plain binary of /repo's current working tree.
set -e
cd "$(dirname "$0")"
export CARGO_NET_OFFLINE=true
python3 orchestrator/translate/config.py /repo lean/PiciModel/PiciModel/Generated/Config.lean
python3 orchestrator/translate/natives.py /repo lean/PiciModel/PiciModel/Generated/NativeTable.lean
python3 orchestrator/translate/prelude.py /repo lean/PiciModel/PiciModel/Generated/Prelude.lean
(cd lean/PiciModel && lake build picimodel)
python3 orchestrator/translate/prelude_expanded.py lean/PiciModel/.lake/build/bin/picimodel /repo lean/PiciModel/PiciModel/Generated
(cd lean/PiciModel && lake build PiciModel picimodel $(ls PiciModel/Props/*.lean | sed 's|/|.|g; s|\.lean$||'))
mkdir -p .build
(cd /repo && cargo rustc --bin picilisp --offline --target-dir /verif/.build/target -- --cfg picilisp_verif -C opt-level=2 -C debug-assertions=on -C overflow-checks=on)
(cd /repo && cargo build --offline --target-dir /verif/.build/target-plain)
