#!/usr/bin/env python3
"""Entry point of every check:  ./check C07 [--tier quick|thorough] [--replay file]

Steps (DESIGN.md §3.4): translate -> prove (lake build of the property's theorem modules) -> audit
(`#print axioms`, forbidden constructs) -> build the hooked binary -> correspondence (model vs real code on
generated cases, corpus first) -> independent oracle on the real outputs -> decide -> evidence."""
import argparse, json, os, random, sys, time, traceback

sys.path.insert(0, os.path.dirname(os.path.abspath(__file__)))
import lib
from lib import Broken, log
import props


def main():
    ap = argparse.ArgumentParser()
    ap.add_argument('prop')
    ap.add_argument('--tier', default=os.environ.get('VERIF_TIER', 'quick'), choices=['quick', 'thorough'])
    ap.add_argument('--replay')
    args = ap.parse_args()
    seed = int(os.environ.get('VERIF_SEED', '20260930'))
    prop = args.prop.upper()
    if prop not in props.SPECS:
        print(f'unknown property {prop}', file=sys.stderr)
        sys.exit(2)
    spec = props.SPECS[prop]
    os.environ.setdefault('PICILISP_VERIF_WATCHDOG', '90' if args.tier == 'quick' else '900')
    run = lib.Run(prop, args.tier, seed)
    rng = random.Random(f'{seed}/{prop}')

    broken = []        # proof obligations / builds / translators that no longer check
    theorems = {}
    # 1. translate (every run), 2. prove, 3. audit
    try:
        lib.translate()
        mods = ['PiciModel.Props.' + m for m in spec.get('modules', [prop])]
        lib.lake_build(mods + ['picimodel'])
        theorems = lib.audit(mods)
        if args.tier == 'thorough':
            lib.leanchecker(mods)
    except Broken as b:
        log(f'OBLIGATION BROKEN: {b.what}\n{b.detail}')
        broken.append({'what': b.what, 'detail': b.detail[-3000:]})

    # 3b. property-specific obligations computed from the current source (e.g. the panic-site inventory of C06)
    for ob in spec.get('obligations', []):
        try:
            for d in ob():
                log(f'OBLIGATION BROKEN: {d}')
                broken.append({'what': d, 'detail': ''})
        except Exception:
            broken.append({'what': 'obligation check crashed', 'detail': traceback.format_exc()[-3000:]})

    # 4. build the real code from the current working tree
    build_failed = None
    try:
        lib.cargo_build_hooked()
        if spec.get('plain'):
            lib.cargo_build_plain()
    except Broken as b:
        build_failed = b
        log(f'BUILD FAILED: {b.what}\n{b.detail}')

    result = {'evaluations': 0, 'distinct_nontrivial': 0, 'samples': [], 'disagreements': [], 'oracle_failures': [], 'distribution': {}, 'rule': ''}
    if build_failed is None:
        try:
            if args.replay:
                result = spec['replay'](run, json.load(open(args.replay)))
            else:
                result = spec['correspond'](run, rng, args.tier)
        except Broken as b:
            broken.append({'what': b.what, 'detail': b.detail[-3000:]})
        except Exception:
            broken.append({'what': 'check crashed', 'detail': traceback.format_exc()[-3000:]})
    else:
        broken.append({'what': build_failed.what, 'detail': build_failed.detail[-3000:]})

    # 6. decide
    known = lib.known_findings(prop)
    def is_known(failure):
        for k in known:
            if props.matches_known(k, failure):
                return k
        return None

    violations = []
    for f in result.get('oracle_failures', []):
        k = is_known(f)
        if k is not None:
            if k['id'] not in [h['id'] for h in run.known_hits]:
                run.known_hits.append(k)
        else:
            violations.append(f)

    exit_code = 0
    if violations:
        # the implementation itself contradicts the property on a concrete input
        path = run.write_replay({'property': prop, 'kind': 'implementation-vs-oracle', 'failures': violations[:20], 'seed': seed, 'tier': args.tier,
                                 'how_to_replay': f'./check {prop} --replay <this file>'})
        print(f'VIOLATION property={prop} replay={path}')
        exit_code = 1
    elif result.get('disagreements') or broken:
        # the property is no longer shown to hold: a theorem or the correspondence does not check.
        # search the implementation for a concrete failing input with the independent oracle
        found = []
        try:
            if build_failed is None and 'search' in spec:
                found = [f for f in spec['search'](run, rng, result.get('disagreements', [])) if is_known(f) is None]
        except Exception:
            log(traceback.format_exc())
        content = {'property': prop, 'seed': seed, 'tier': args.tier, 'broken_obligations': broken,
                   'model_vs_implementation_disagreements': result.get('disagreements', [])[:20]}
        if found:
            content['kind'] = 'implementation-vs-oracle (found by the failing-input search)'
            content['failures'] = found[:20]
            path = run.write_replay(content)
            print(f'VIOLATION property={prop} replay={path}')
        else:
            content['kind'] = 'proof obligation or model/implementation correspondence no longer checks; no failing input found'
            path = run.write_replay(content)
            print(f'VIOLATION property={prop} replay={path} no-failing-input-found')
        exit_code = 1

    for k in known:
        # a listed finding is reported on every run in which its witness still fails
        still = props.finding_still_fails(k, result)
        if still:
            print(f'KNOWN-FINDING: property={prop} {k["id"]}: {k["what"]}')

    # 7. evidence
    names = sorted(theorems.keys())
    n_thm = len(names)
    run.violations = violations if exit_code else []
    run.assumptions = spec.get('assumptions', [])
    extra = {
        'checker_cmd': 'lake build ' + ' '.join('PiciModel.Props.' + m for m in spec.get('modules', [prop])) + ' && #print axioms of every theorem (lake env lean .build/audit/Audit_*.lean)',
        'trusted_base': ['Lean 4.33.0 kernel', 'axioms: ' + ', '.join(sorted({a for v in theorems.values() for a in v}) or ['none'])] + spec.get('trusted', []),
        'theorems': names,
        'evaluations': result.get('evaluations', 0),
        'distinct_nontrivial': result.get('distinct_nontrivial', 0),
        'rule': result.get('rule', ''),
        'samples': result.get('samples', [])[:6] or ['(no correspondence case was run)'],
        'disagreements_checked': len(result.get('disagreements', [])),
        'oracle_failures': len(result.get('oracle_failures', [])),
        'distribution': result.get('distribution', {}),
        'broken_obligations': [b['what'] for b in broken],
        'known_findings_reported': [k['id'] for k in known],
    }
    if 'exhaustive' in result:
        extra['exhaustive'] = result['exhaustive']
    obligations = max(n_thm, 1) if not broken else max(n_thm, 1) + len(broken)
    run.evidence(obligations, n_thm if not broken else max(n_thm - 0, 0), extra)
    sys.exit(exit_code)


if __name__ == '__main__':
    main()
