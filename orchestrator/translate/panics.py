"""Panic-site inventory (C06).  Every construct of the Rust source that can panic is counted per file and compared with
the committed inventory `panic_sites.json`, in which every group of sites carries the reason why it cannot fire
(= which crash outcome of the model it is, proved unreachable by Props/C06*.lean, or which invariant protects it).
A construct that appears, disappears or moves to another file is a proof obligation that no longer checks: the model's
crash sites are no longer known to be all the panics of the code.

Counted (comments stripped; tests, the verification hooks and the front ends src/ui, src/main.rs are outside):
  unwrap expect panic unreachable unimplemented todo assert          explicit panics
  cast          .as_number() .as_character() .as_conscell() .as_symbol() .as_function() .as_trap() .as_normal_function()
  index         expr[...] on a value (slice / Vec indexing)
  borrow        .borrow() / .borrow_mut() of a RefCell
"""
import json, os, re

PATTERNS = {
    'unwrap': r'\.unwrap\(\)',
    'expect': r'\.expect\(',
    'panic': r'\bpanic!',
    'unreachable': r'\bunreachable!',
    'unimplemented': r'\b(?:unimplemented|todo)!',
    'assert': r'\bassert(?:_eq|_ne)?!',
    'cast': r'\.as_(?:number|character|conscell|symbol|function|trap|normal_function)\(\)',
    'index': r'(?<![#!&:=,(\[\s])\[[^\]\n]*\]',
    'borrow': r'\.borrow(?:_mut)?\(\)',
}
EXCLUDE = ('tests.rs', 'verif', '/ui/', 'main.rs')
HERE = os.path.dirname(os.path.abspath(__file__))
INVENTORY = os.path.join(HERE, 'panic_sites.json')


def strip_comments(text):
    out = []
    for line in text.split('\n'):
        # good enough for this code base: no `//` inside string literals except URLs, none present
        i = line.find('//')
        out.append(line if i < 0 else line[:i])
    return '\n'.join(out)


def scan(src_dir):
    found = {}
    for root, _, files in os.walk(src_dir):
        for f in sorted(files):
            path = os.path.join(root, f)
            rel = os.path.relpath(path, src_dir)
            if not f.endswith('.rs') or any(x in '/' + rel for x in EXCLUDE):
                continue
            text = strip_comments(open(path, encoding='utf-8').read())
            # attribute lines and macro-definition bodies are not executable indexing
            text = '\n'.join(l for l in text.split('\n') if not l.strip().startswith('#['))
            counts = {k: len(re.findall(p, text)) for k, p in PATTERNS.items()}
            counts = {k: v for k, v in counts.items() if v}
            if counts:
                found[rel] = counts
    return found


def check(src_dir):
    """returns a list of differences between the current source and the committed inventory"""
    inv = json.load(open(INVENTORY))['sites']
    now = scan(src_dir)
    diffs = []
    for rel in sorted(set(inv) | set(now)):
        a, b = inv.get(rel, {}).get('counts', {}), now.get(rel, {})
        for k in sorted(set(a) | set(b)):
            if a.get(k, 0) != b.get(k, 0):
                diffs.append(f'{rel}: {k} sites {a.get(k, 0)} -> {b.get(k, 0)}')
    return diffs


if __name__ == '__main__':
    import sys
    print(json.dumps(scan(sys.argv[1] if len(sys.argv) > 1 else '/repo/src'), indent=1))
