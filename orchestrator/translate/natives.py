#!/usr/bin/env python3
"""Regenerate PiciModel/Generated/NativeTable.lean from the NativeFunctionMetaData constants and the order of
`load_native_functions` in /repo/src/native (every run).  Plain data only: names, kinds, parameter names,
documentation strings.  Unparseable source => exit 2 (obligation broken)."""
import re, sys, os, glob

def rust_string(lit):
    """decode a Rust string literal (normal or raw) to a Python str"""
    lit = lit.strip()
    if lit.startswith('r"'):
        return lit[2:-1]
    assert lit.startswith('"') and lit.endswith('"'), lit
    body = lit[1:-1]
    out = []
    i = 0
    while i < len(body):
        c = body[i]
        if c == '\\':
            n = body[i + 1]
            if n == 'n': out.append('\n')
            elif n == 't': out.append('\t')
            elif n == 'r': out.append('\r')
            elif n == '\\': out.append('\\')
            elif n == '"': out.append('"')
            elif n == '\n':
                # line continuation: skip the newline and leading whitespace
                i += 2
                while i < len(body) and body[i] in ' \t\n':
                    i += 1
                continue
            else:
                raise ValueError(f'unknown escape \\{n}')
            i += 2
        else:
            out.append(c)
            i += 1
    return ''.join(out)

STRING = r'(?:r"[^"]*"|"(?:[^"\\]|\\.)*")'

def lean_chars(s):
    def ch(c):
        if c == '\n': return "'\\n'"
        if c == '\t': return "'\\t'"
        if c == '\r': return "'\\r'"
        if c == '\\': return "'\\\\'"
        if c == "'": return "'\\''"
        if ord(c) < 32 or ord(c) > 126: return "(Char.ofNat %d)" % ord(c)
        return "'%s'" % c
    return '[' + ', '.join(ch(c) for c in s) + ']'

def translate(repo, out_path):
    consts = {}
    for path in sorted(glob.glob(os.path.join(repo, 'src', 'native', '*', 'mod.rs'))):
        module = os.path.basename(os.path.dirname(path))
        src = open(path).read()
        for m in re.finditer(r'pub const ([A-Z_]+): NativeFunctionMetaData =\s*NativeFunctionMetaData\{(.*?)\n\};', src, re.S):
            body = m.group(2)
            name = re.search(r'name:\s*(' + STRING + ')', body)
            kind = re.search(r'kind:\s*FunctionKind::(\w+)', body)
            params = re.search(r'parameters:\s*&\[(.*?)\]', body, re.S)
            doc = re.search(r'documentation:\s*(' + STRING + ')', body, re.S)
            if not (name and kind and params and doc):
                raise ValueError(f'cannot parse {module}::{m.group(1)}')
            plist = [rust_string(p) for p in re.findall(STRING, params.group(1))]
            consts[(module, m.group(1))] = (rust_string(name.group(1)), kind.group(1).lower(), plist, rust_string(doc.group(1)))
    loader = open(os.path.join(repo, 'src', 'native', 'mod.rs')).read()
    order = re.findall(r'load_native_function\(mem,\s*(\w+)::([A-Z_]+)\);', loader)
    if not order:
        raise ValueError('no load_native_function calls found')
    lines = ['/- GENERATED from /repo/src/native/*/mod.rs by orchestrator/translate/natives.py — do not edit. -/',
             'namespace Pici.Generated', '',
             '/-- (name, kind, parameter names, documentation) in the order of `load_native_functions` -/',
             'def nativeTable : List (List Char × List Char × List (List Char) × List Char) := [']
    rows = []
    for module, const in order:
        if (module, const) not in consts:
            raise ValueError(f'{module}::{const} loaded but not found')
        name, kind, plist, doc = consts[(module, const)]
        rows.append('  (%s, %s, [%s], %s)' % (lean_chars(name), lean_chars(kind), ', '.join(lean_chars(p) for p in plist), lean_chars(doc)))
    lines.append(',\n'.join(rows))
    lines += [']', '', 'end Pici.Generated', '']
    text = '\n'.join(lines)
    old = open(out_path).read() if os.path.exists(out_path) else None
    if old != text:
        os.makedirs(os.path.dirname(out_path), exist_ok=True)
        open(out_path, 'w').write(text)
    return [(consts[k][0], consts[k][1], consts[k][2]) for k in order]

if __name__ == '__main__':
    repo = sys.argv[1] if len(sys.argv) > 1 else '/repo'
    out = sys.argv[2] if len(sys.argv) > 2 else '/verif/lean/PiciModel/PiciModel/Generated/NativeTable.lean'
    try:
        translate(repo, out)
    except Exception as e:
        print(f'translate-natives: {e}', file=sys.stderr)
        sys.exit(2)
