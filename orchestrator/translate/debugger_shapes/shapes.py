#!/usr/bin/env python3
"""Generate shape definitions / lemmas (up to reader metadata) from an s-expression DSL.
atoms: foo -> symA cs!"foo" m ; 12 -> numA 12 m ; 'foo -> quoA cs!"foo" m ; () -> .nil ; Gx -> .sym (.gen g) (x any label, same label = same g)
       $x -> opaque value ; @Name -> sub-shape variable with IsName"""
import re, sys

def tokenize(s):
    return re.findall(r"\(\)|\(|\)|[^\s()]+", s)

def parse(tokens):
    t = tokens.pop(0)
    if t == '(':
        out = []
        while tokens[0] != ')':
            out.append(parse(tokens))
        tokens.pop(0)
        return out
    return t

class Gen:
    def __init__(self):
        self.metas = []; self.gens = {}; self.opaque = []; self.subs = []
    def term(self, x):
        if isinstance(x, list):
            return ".ofList [" + ", ".join(self.term(y) for y in x) + "]"
        if x == '()':
            return ".nil"
        if x.startswith('$'):
            n = 'o_' + x[1:]; 
            if n not in self.opaque: self.opaque.append(n)
            return n
        if x.startswith('@'):
            nm = x[1:]; v = 'v' + nm
            self.subs.append((nm, v)); return v
        if re.fullmatch(r"G[A-Za-z0-9]*", x):
            if x not in self.gens: self.gens[x] = 'g%d' % (len(self.gens)+1)
            return "(.sym (.gen %s))" % self.gens[x]
        m = 'm%d' % (len(self.metas)+1); self.metas.append(m)
        if x.startswith("'"):
            return 'quoA cs!"%s" %s' % (x[1:], m)
        if re.fullmatch(r"-?\d+", x):
            return 'numA %s %s' % (x, m)
        return 'symA cs!"%s" %s' % (x, m)

def wrap(s, width=118, indent="      "):
    out=[]; line=""
    for w in s.split(' '):
        if len(line)+len(w)+1 > width:
            out.append(line); line = indent + w
        else:
            line = (line + ' ' + w) if line else w
    out.append(line); return "\n".join(out)

def shape_def(name, src, doc):
    g = Gen(); t = g.term(parse(tokenize(src)))
    binders = ""
    if g.metas: binders += " (" + " ".join(g.metas) + " : Meta)"
    if g.gens: binders += " (" + " ".join(g.gens.values()) + " : Nat)"
    vs = g.opaque + [v for _, v in g.subs]
    if vs: binders += " (" + " ".join(vs) + " : Val)"
    conj = "v = " + t + "".join(" ∧ Is%s %s" % (nm, v) for nm, v in g.subs)
    body = ("∃" + binders + ", " + conj) if binders else conj
    return "/-- %s:\n`%s` -/\ndef Is%s (v : Val) : Prop :=\n  %s\n" % (doc, wrap(src, 116, ""), name, wrap(body))

if __name__ == '__main__':
    import json
    spec = json.load(open(sys.argv[1]))
    for item in spec:
        print(shape_def(item['name'], item['src'], item['doc']))
