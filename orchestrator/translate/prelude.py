#!/usr/bin/env python3
"""Regenerate PiciModel/Generated/Prelude.lean from /repo/src/prelude.lisp (every run): for every `defun` / `defmacro`
of the prelude, the parameter list and the body as the reader produces them (metadata with the positions in the file),
and the closure value that loading the prelude binds to the name.  Plain data only.
The Lean driver compares these constants with what the model evaluator actually binds after loading the current
prelude.lisp (`preludecheck`), and the real interpreter's closures are compared with the model's by the correspondence."""
import os, sys
sys.path.insert(0, os.path.dirname(os.path.dirname(os.path.abspath(__file__))))
from gen import reader_ref

def lean_chars(s):
    def ch(c):
        if c == '\n': return "'\\n'"
        if c == '\t': return "'\\t'"
        if c == '\r': return "'\\r'"
        if c == '\\': return "'\\\\'"
        if c == "'": return "'\\''"
        if ord(c) < 32 or ord(c) > 126: return "(Char.ofNat %d)" % ord(c)
        return "'%s'" % c
    return '[' + ', '.join(ch(c) for c in s) + ']'

def loc(pos):
    return f'⟨.file {lean_chars("prelude")}, {pos[0]}, {pos[1]}⟩'

def fmt_int(n):
    return f'({n})' if n < 0 else str(n)

def to_lean(d, expanded=False):
    """`expanded`: the form as it looks after (macro-free) macro expansion, which rebuilds every list outside `quote`:
    a string literal — a list wrapped in a metadata cell — loses that wrapper"""
    k = d[0]
    if k == 'num':
        return f'(.md (.num {fmt_int(d[1])}) ⟨{lean_chars(str(d[1]))}, {loc(d[2])}, []⟩)'
    if k == 'chr':
        return f'(.md (.chr (Char.ofNat {ord(d[1])})) ⟨{lean_chars(d[1])}, {loc(d[2])}, []⟩)'
    if k == 'sym':
        return f'(.md (.symName {lean_chars(d[1])}) ⟨{lean_chars(d[1])}, {loc(d[2])}, []⟩)'
    if k == 'str':
        if expanded:
            return f'(.ofString {lean_chars(d[1])})'
        return f'(.md (.ofString {lean_chars(d[1])}) ⟨{lean_chars(d[1])}, {loc(d[2])}, []⟩)'
    if k == 'quote':
        return f'(.ofList [.symName {lean_chars("quote")}, {to_lean(d[1])}])'
    if expanded and d[1] and d[1][0][0] == 'sym' and d[1][0][1] == 'quote':
        return '(.ofList [' + ', '.join(to_lean(x) for x in d[1]) + '])'
    return '(.ofList [' + ', '.join(to_lean(x, expanded) for x in d[1]) + '])'

def ident(name):
    out = ''.join(c if c.isalnum() else {'-': '_', '+': 'plus', '*': 'times', '/': 'slash', '<': 'lt', '>': 'gt', '=': 'eq'}.get(c, '_') for c in name)
    return ('f' + out) if not out[0].isalpha() else out

def translate(repo, out_path):
    text = open(os.path.join(repo, 'src', 'prelude.lisp'), encoding='utf-8').read()
    pos, line, col = 0, 1, 1
    defs = []
    while True:
        r = reader_ref.read_ref(text[pos:], line, col)
        if r['status'] == 'nothing':
            break
        if r['status'] != 'ok':
            raise ValueError(f'prelude.lisp does not parse at {line}:{col}: {r}')
        d = r['datum']
        if d[0] == 'list' and d[1] and d[1][0][0] == 'sym' and d[1][0][1] in ('defun', 'defmacro') and len(d[1]) == 5:
            _, name, params, doc, body = d[1]
            if name[0] == 'sym' and params[0] == 'list' and doc[0] == 'str':
                defs.append((d[1][0][1], name[1], params, body))
        pos += r['rest']
        line, col = r['line'], r['col']
    lines = ['/- GENERATED from /repo/src/prelude.lisp by orchestrator/translate/prelude.py — do not edit. -/',
             'import PiciModel.Model.Value', '', 'namespace Pici.Prelude', '']
    table = []
    macro_names = {'defmacro'} | {n for k, n, _, _ in defs if k == 'defmacro'}
    def uses_macro(d):
        if d[0] == 'sym':
            return d[1] in macro_names
        if d[0] == 'list':
            if d[1] and d[1][0][0] == 'sym' and d[1][0][1] == 'quote':
                return False
            return any(uses_macro(x) for x in d[1])
        return False
    for kind, name, params, body in defs:
        i = ident(name)
        ps = params[1]
        rest = None
        if len(ps) >= 2 and ps[-2][0] == 'sym' and ps[-2][1] == '&':
            rest = ps[-1]
            ps = ps[:-2]
        lines.append(f'/-- `{name}` ({kind}) -/')
        lines.append(f'def {i}_params : Val := .ofList [{", ".join(to_lean(p) for p in ps)}]')
        lines.append(f'def {i}_rest : Val := {to_lean(rest) if rest else ".nil"}')
        lines.append(f'def {i}_body : Val := {to_lean(body, expanded=True)}')
        k = '.lambda' if kind == 'defun' else '.macro'
        lines.append(f'def {i}_fn : Val := .fn {k} {i}_rest {i}_params {i}_body .nil {lean_chars("prelude")}')
        lines.append('')
        # a body that uses a macro is stored expanded: only macro-free definitions are bound to their source text
        if not uses_macro(body) and not uses_macro(params):
            table.append(f'({lean_chars(name)}, {i}_fn)')
    lines.append('/-- the functions and macros of the prelude whose body uses no macro (so that the closure holds the source text itself), by name -/')
    lines.append('def table : List (List Char × Val) := [' + ',\n  '.join(table) + ']')
    lines += ['', 'end Pici.Prelude', '']
    out = '\n'.join(lines)
    old = open(out_path).read() if os.path.exists(out_path) else None
    if old != out:
        os.makedirs(os.path.dirname(out_path), exist_ok=True)
        open(out_path, 'w').write(out)
    return [n for _, n, _, _ in defs]

if __name__ == '__main__':
    repo = sys.argv[1] if len(sys.argv) > 1 else '/repo'
    out = sys.argv[2] if len(sys.argv) > 2 else '/verif/lean/PiciModel/PiciModel/Generated/Prelude.lean'
    try:
        print(len(translate(repo, out)), 'definitions')
    except Exception as e:
        print(f'translate-prelude: {e}', file=sys.stderr)
        sys.exit(2)
