#!/usr/bin/env python3
"""Regenerate PiciModel/Generated/Config.lean from /repo/src/config.rs (every run).

Plain data only: numerals.  f32 ratios are written as exact reduced fractions of their decimal text.
Unparseable source => exit 2 (obligation broken)."""
import re, sys, os
from fractions import Fraction

def translate(repo, out_path):
    src = open(os.path.join(repo, 'src', 'config.rs')).read()
    src = re.sub(r'//[^\n]*', '', src)
    consts = {}
    for m in re.finditer(r'pub\s+const\s+([A-Z_]+)\s*:\s*([A-Za-z0-9&_ ]+?)\s*=\s*([^;]+);', src):
        consts[m.group(1)] = (m.group(2).strip(), m.group(3).strip())
    def nat(name):
        ty, v = consts[name]
        if ty != 'usize':
            raise ValueError(f'{name}: expected usize, got {ty}')
        v = v.replace('_', '')
        if not re.fullmatch(r'[0-9* ]+', v):
            raise ValueError(f'{name}: cannot evaluate {v!r}')
        r = 1
        for f in v.split('*'):
            r *= int(f.strip())
        return r
    def ratio(name):
        ty, v = consts[name]
        if ty != 'f32' or not re.fullmatch(r'[0-9]+(\.[0-9]+)?', v):
            raise ValueError(f'{name}: cannot evaluate {ty} {v!r}')
        f = Fraction(v)
        return f.numerator, f.denominator
    lines = ['/- GENERATED from /repo/src/config.rs by orchestrator/translate/config.py — do not edit. -/',
             'namespace Pici.Config', '']
    lines.append(f'def initialFreeCells : Nat := {nat("INITIAL_FREE_CELLS")}')
    for lean, rust in [('maximumFreeRatio', 'MAXIMUM_FREE_RATIO'), ('minimumFreeRatio', 'MINIMUM_FREE_RATIO'), ('allocationRatio', 'ALLOCATION_RATIO')]:
        n, d = ratio(rust)
        lines.append(f'def {lean}Num : Nat := {n}')
        lines.append(f'def {lean}Den : Nat := {d}')
    lines.append(f'def maxRecursionDepth : Nat := {nat("MAX_RECURSION_DEPTH")}')
    lines.append(f'def guiOutputBufferSize : Nat := {nat("GUI_OUTPUT_BUFFER_SIZE")}')
    lines.append(f'def callStackSize : Nat := {nat("CALL_STACK_SIZE")}')
    lines += ['', 'end Pici.Config', '']
    text = '\n'.join(lines)
    old = open(out_path).read() if os.path.exists(out_path) else None
    if old != text:
        os.makedirs(os.path.dirname(out_path), exist_ok=True)
        open(out_path, 'w').write(text)
    return text

if __name__ == '__main__':
    repo = sys.argv[1] if len(sys.argv) > 1 else '/repo'
    out = sys.argv[2] if len(sys.argv) > 2 else '/verif/lean/PiciModel/PiciModel/Generated/Config.lean'
    try:
        translate(repo, out)
    except Exception as e:
        print(f'translate-config: {e}', file=sys.stderr)
        sys.exit(2)
