#!/usr/bin/env python3
"""Writes /verif/MANIFEST.json from the table below (kept next to the checks so that it stays current)."""
import json, os, subprocess, sys
sys.path.insert(0, os.path.dirname(os.path.abspath(__file__)))
VERIF = os.path.dirname(os.path.dirname(os.path.abspath(__file__)))

CLAIMS = {
 'C01': dict(text='Lean theorems (Props/HeapMark, HeapSweep, HeapCollect, C01): for EVERY finite history of heap operations the client invariant holds (heap invariant incl. "no used cell refers to a cell that is not in use", handle counts = handles that exist), no operation panics, every cell reachable before an operation keeps its content through it — including allocations that trigger a collection, growth or shrinking —, everything reachable stays in use, and the tree a handle denotes never changes; the mark loop as written and the executable one both compute exactly the reachable set; sweep only permutes the vector. Tied to memory/mod.rs by comparing whole-heap snapshots cell by cell after every collection of random histories under forced collection schedules with poisoned swept cells, plus evaluator programs under forced collections with a handle audit.',
             note='partial: Drop order of Memory fields and the evaluator\'s handle discipline are Rust-level (exercised, not proved)',
             technique='Lean 4 proof (invariant by induction over operations; mark/sweep loop invariants) + whole-heap snapshot correspondence', ref='5/C01'),
 'C03': dict(text='Lean theorems (Props/C03 over the heap theorems): immediately after a collection exactly the reachable cells are in use (collect_exact) and the reported counts obey the configured free ratios; with nothing held nothing stays in use; one operation lengthens the vector at most to the configured growth of the reachable set (step_size); for EVERY history the heap is never larger than the initial capacity or the growth of the largest reachable set seen (run_size_bound). Tied to memory/mod.rs by snapshot comparison incl. long sawtooth histories, a Python reachability oracle on the real snapshots, and the handle audit after evaluator runs.',
             note='partial: "no live handles besides globals when no evaluation is in progress" is Rust RAII in the evaluator: audited after every top-level evaluation, not proved; f32 ratios modelled as exact rationals',
             technique='Lean 4 proof (exactness of collection, growth bound by induction over histories) + snapshot correspondence with reachability oracle', ref='5/C03'),
 'C04': dict(text='Lean theorems (Props/C04 over the heap theorems): interning puts a handle on a used symbol cell of exactly that name; while a symbol cell of a name is reachable — through a handle, a cons, a closure or a global — interning the name returns that very cell; different names give different cells at every point of every history; a generated symbol\'s cell was not reachable before, carries no name and is in no table entry, also when it is a reused cell; every symbol-table entry at every point of every history names a used symbol cell of exactly that name (no stale entry after reclamation). Tied to memory/mod.rs by symbol-heavy histories (snapshot incl. symbol table, symeq answers) under forced collections.',
             note='trusted: Lean kernel; HashMap as finite map; the correspondence check',
             technique='Lean 4 proof (symbol-table invariant through mark/sweep/allocate) + symbol-heavy snapshot correspondence', ref='5/C04'),
 'C20': dict(text='Differential: the real interpreter and the model evaluator both run the real debugger.lisp — (debug-eval (quote P) nil nil) detached and attached with answer sequences all STEP-IN / all STEP-OVER / pseudo-random, scripted through hook H3 and consumed exactly when the evaluator blocks in receive — and value / signal / output are compared with direct evaluation of P (the oracle) and, including the whole stream of debugger messages, with the model. Lean theorems (Props/C20.lean) cover what the stepping evaluator is built from: detached, receive answers nil and send is a no-op, so every step is a step over; make-function builds exactly the closures lambda builds; call-native-function applies a native exactly as the evaluator does; destructure-function returns exactly the components of a closure; with-current-module is the evaluator\'s global lookup.',
             note='partial: the agreement of debug-eval with eval is established by differential execution, not by a theorem about debugger.lisp; known finding F22 (ill-formed programs, depth); three defects of the stepping evaluator on well-formed programs were repaired (F26-F28)',
             technique='Lean 4 proof of the building blocks + five-way differential correspondence (real/model x debug-eval/eval x answer sequences)', ref='5/C20'),
 'C16': dict(text='Lean theorems (Props/C16.lean) about the ACTUAL bodies of the prelude (Generated/Prelude.lean, regenerated from prelude.lisp on every run and compared with what the model binds after loading it): length returns the number of elements for every list; range n is 0..n-1 for every n >= 0 and empty for every negative n; reverse reverses every list; foldl folds left for every list and every pure function value (native or closure), in depth independent of the length; when / and / not expand to the documented if-forms with every operand occurring once. Tied to the Rust interpreter by differential execution of every listed function and macro (lists of many lengths, native / closure / variadic / signalling / side-effecting function arguments, traced control macros) against the model and the documented meaning (Python).',
             note='partial: map, foldr, zip, enumerate, append, concat, last, init, apply, the comparison and variadic arithmetic functions and the macros let, block, case, or, try/catch/throw are covered by the differential check with the Python specification, not by a theorem; known finding F20 (apply on fixed-arity functions)',
             technique='Lean 4 proof (symbolic execution of the generated prelude bodies, induction on lists / integers) + three-way differential correspondence', ref='5/C16'),
 'C05': dict(text='Lean theorems (Props/C05.lean over Spec/RefEval.lean): a reference big-step semantics of the core language written from the property (operator first, operands left to right, first signal wins, closures capture environment and module of their creation, parameters bound over the CLOSURE\'s environment, exact arity unless a rest parameter takes the surplus, tail positions keep the depth) is deterministic, and the evaluator model realises EVERY derivation of it (eval_realises_reference): whatever value or signal the reference assigns, the evaluator computes. Tied to eval/mod.rs by differential execution of generated well- and ill-formed programs against the model and an independent Python reference evaluator.',
             note='trusted: Lean kernel; the reference semantics as the statement of the property; evaluator model tied by differential execution; the correspondence check',
             technique='Lean 4 refinement proof (induction on reference derivations) + three-way differential correspondence', ref='5/C05'),
 'C06': dict(text='Lean theorems (Props/C06.lean, Props/C06Eval.lean): every panic of the Rust code is an explicit crash outcome of the model, and NONE is reachable: the tokenizer never reaches its unreachable!(), read_internal never runs out of its loop, the 35 simple natives never panic on arguments of any type and shape, and — by induction over the whole evaluator — eval / macroexpand / every native / load-all return a value, a signal or an abort for EVERY well-formed expression, environment and state (metadata cells never nest), preserving well-formedness. Tied to the Rust code by differential fuzzing of every native over a 40-shape pool, random expression trees, and fault-heavy programs under catch_unwind.',
             note='partial: native stack bytes and allocation failure are outside the model; the two native recursions without a depth counter (`=` on deep nesting, print_atom on long improper lists) are known finding F14',
             technique='Lean 4 proof (crash-freedom by invariant + fuel induction over all evaluator functions) + differential fuzzing correspondence', ref='5/C06'),
 'C09': dict(text='Lean theorems (Props/C09.lean, expand_fixpoint_wf in Props/C06Eval.lean): anything under quote comes back untouched; a macro receives its operands expanded but unevaluated and its result replaces the call; a macro call inside an operator expression is expanded and kept; complete expansion repeats rounds until nothing changes; a round that changed nothing reproduces its output (round_idempotent, on well-formed values; refuted without that hypothesis), so the result of complete expansion is a fixpoint; evaluating a form is evaluating its expansion. Tied to eval/mod.rs by a four-way differential on the real interpreter (eval x, eval of expansion, double expansion, top level) and against the model.',
             note='"terminates whenever the macros it uses terminate" is conditional by nature; user macros that expand forever diverge',
             technique='Lean 4 proof (unfolding lemmas + idempotence by fuel induction) + four-way differential correspondence', ref='5/C09'),
 'C10': dict(text='Lean theorem print_read (Props/C10.lean): for EVERY datum of 64-bit integers, characters (any Unicode scalar), readable symbols, strings and proper lists nested below the depth limit, the printed text reads back as exactly one datum denoting the original with exactly the following text left over, and prints again to the same text; plus the piecewise round trips (char, int, sym, str) and a witness that the side condition on symbol names is necessary. Tied to print/mod.rs and read/mod.rs by differential execution incl. every scalar value below U+3100 (all scalars in the thorough tier).',
             note='trusted: Lean kernel; Display/parse of i64 as modelled; reader and printer models tied by differential execution',
             technique='Lean 4 proof (parser/printer round trip by induction on data) + exhaustive-over-characters differential correspondence', ref='5/C10'),
 'C11': dict(text='Lean theorems (Props/C11.lean) on EVERY text: nothing iff blank; text is never invalid; an ok result consumes a non-empty prefix and returns the remaining text unchanged with its exact line and column; successive reads see every form at its position in the whole text; an ok result with non-empty rest is stable under any continuation (shortest prefix); an error stays an error under any continuation; every token is tagged with the position of its first character. Tied to read/mod.rs by exhaustive short strings over a delimiter-rich alphabet + generated texts against the model and an independent reference reader (regex tokenizer + recursive descent).',
             note='known findings F5 (single quoted flag) and F25 (error position of an offending newline); "incomplete iff proper prefix of a valid form" is checked by the reference reader, not proved',
             technique='Lean 4 proof (state-machine invariants, prefix stability) + exhaustive differential correspondence with a reference reader', ref='5/C11'),
 'C07': dict(text='Lean theorems (Props/C07.lean): every recursive entry point (eval, macroexpand, print, read, call-native-function) answers above the configured depth with the trappable stackoverflow signal; if-branches, called function bodies and the argument of eval are evaluated at the SAME depth (tail_if, tail_call, tail_eval); a tail-recursive countdown runs for EVERY n at a depth independent of n (countdown_all_n); the printer\'s fuel never strikes before the depth limit. Tied to eval/mod.rs by differential execution of loops far beyond the limit and of non-tail recursion around the limit (first signalling depth must agree).',
             note='partial: bytes of native stack per level are outside the model — measured by running the dev-profile binary on its configured stack for the deepest witness of every recursive path',
             technique='Lean 4 proof (depth accounting, induction on the iteration count) + differential correspondence + process-level stack measurement', ref='5/C07'),
 'C08': dict(text='Lean theorems (Props/C08.lean): a trap whose body yields a value yields it; a non-nil signal from the body runs the handler with *trapped-signal* bound to exactly that value in the trap\'s own environment; an abort (Err nil) passes through every trap; a handler\'s signal propagates outward; signal hands its argument over unchanged and (signal nil) is an ordinary error; the first signalling operand wins; every error a native raises itself is a property list with kind and source. Tied to eval/mod.rs, signal/mod.rs by differential execution of generated trap nestings with a Python oracle that knows which trap must catch.',
             note='trusted: Lean kernel; evaluator model tied by differential execution; the correspondence check',
             technique='Lean 4 proof (decision logic of traps, case analysis over all natives) + differential correspondence with an AST oracle', ref='5/C08'),
 'C15': dict(text='Lean theorems (Props/C15.lean): define never overwrites (signal, state untouched); a fresh define binds exactly (current module, name); undefine removes exactly that pair and allows re-definition; evaluator-wide invariant by induction over the whole mutual recursion: NO evaluation changes the current module — in particular load-all restores it on success, read error, incomplete input, invalid string, signal at any form, abort, interrupt, stackoverflow, nested loads included — and the restoration never panics. Tied to the Rust code by differential execution of generated define/undefine/export/load histories.',
             note='trusted: Lean kernel; evaluator model tied by differential execution; the correspondence check',
             technique='Lean 4 proof (invariant by fuel induction over all seven evaluator functions and all 40 natives) + differential correspondence', ref='5/C15'),
 'C19': dict(text='Lean theorems (Props/C19.lean): with a debugger attached a pending INTERRUPT / ABORT is honoured at the very next evaluator loop head whatever is being evaluated (interrupted signal = ordinary non-nil signal; abort = Err nil); every loop head polls exactly once; commands not yet sent do not disturb; other commands are ignored; receive honours the commands; the endless tail loop is stopped for EVERY delivery step k; modules and current module are untouched afterwards. Tied to eval/mod.rs by scripted delivery at loop head k (hook H3) compared step for step with the model.',
             note='partial: thread scheduling, latency and mpsc internals are runtime behaviour (any timing is modelled as "available from loop head k on")',
             technique='Lean 4 proof (polling logic, induction on the delivery step) + deterministic differential correspondence through the scripted umbilical', ref='5/C19'),
 'C12': dict(text='Lean theorems (Props/C12.lean) over ALL pairs of 64-bit integers: the add/substract/multiply/divide/</> natives of the model return the exact result when representable and the prescribed signal otherwise (division truncating toward zero, MIN / -1 signals); integer literals round-trip. Tied to numbers/mod.rs by differential execution of real natives vs model vs Python bigint on every run.',
             note='trusted: Lean kernel; std checked_* and str::parse::<i64> as modelled (bit level / from core::num source); the correspondence check',
             technique='Lean 4 proof over BitVec 64 / Int + differential correspondence (real natives vs model vs bigint oracle)', ref='5/C12'),
 'C13': dict(text='Lean theorems (Props/C13.lean): on data (any nesting, metadata anywhere, proper/improper lists) `=` holds iff the metadata-stripped trees are equal; reflexive, symmetric, transitive; metadata-irrelevant; equal data print identically. Tied to misc/mod.rs by differential execution on mutated pairs/triples.',
             note='trusted: Lean kernel; tree-valued model of heap values (sharing is invisible to `=`; exercised on the real heap); the correspondence check. Native recursion depth of equal_internal is a C06 matter (known finding F14).',
             technique='Lean 4 proof (structural induction on data) + differential correspondence', ref='5/C13'),
 'C14': dict(text='Lean theorems (Props/C14.lean) for every module table: Module.get visible iff exported / no exports / home module; getGlobal found iff exactly one visible module, ambiguous iff >= 2 (sorted names), not found iff none; independent of table order (hash seed, load order); from-module reaches exported names only. Tied to memory/mod.rs + globals/mod.rs by exhaustive small configurations through the real interpreter vs model vs a Python visibility oracle.',
             note='trusted: Lean kernel; HashMap as finite map with unspecified order; the correspondence check',
             technique='Lean 4 proof (visibility predicate, permutation invariance) + exhaustive small-configuration correspondence', ref='5/C14'),
 'C17': dict(text='Lean theorems (Props/C17.lean): the pipe model refines one FIFO of byte|boundary items for EVERY write/flush/read history (exactly once, in order, each flush one zero-length read at its position, timeout iff empty). Tied to io/mod.rs by exhaustive op sequences up to a length bound + random long ones through the real IoSender/IoReceiver vs model vs Python FIFO oracle.',
             note='trusted: Lean kernel; std::sync::mpsc as atomic FIFO; thread interleavings = sequences of atomic ops; the correspondence check',
             technique='Lean 4 refinement proof + exhaustive/random differential correspondence', ref='5/C17'),
 'C18': dict(text='Layer 1 (stdin): Lean theorems (Props/C18.lean) that the buffered line reader delivers exactly the lines of the concatenated input for EVERY chunking, exactly once, in order, EOF iff nothing left. Layer 2 (REPL sessions): process-level differential runs of the real binary under controlled chunkings vs the model evaluator running repl.lisp; partial (see note).',
             note='partial: OS batching/process behaviour is runtime (exercised, not proved); REPL uniformity is checked by differential execution only; known findings F17a/F17b (REPL reads one form per line; depth grows with session length) are listed in known_findings.json',
             technique='Lean 4 proof (chunking invariance of the line reader) + process-level differential correspondence', ref='5/C18'),
}

REASONS_PENDING = 'check under construction in this session: model exists, theorems/correspondence not yet registered'

def main():
    props = [json.loads(l)['id'] for l in open(os.path.join(VERIF, 'properties.jsonl'))]
    import props as P
    checks = []
    na = []
    for pid in props:
        if pid in CLAIMS and pid in P.SPECS:
            c = CLAIMS[pid]
            checks.append({
                'property_id': pid,
                'quick_cmd': f'./check {pid} --tier quick',
                'thorough_cmd': f'./check {pid} --tier thorough',
                'evidence_file': f'/verif/evidence/{pid}.json',
                'replay_cmd_template': f'./check {pid} --replay {{path}}',
                'engine': 'lean4-proof+correspondence',
                'level_claimed': {'category': 'proof', 'text': c['text'], 'design_ref': 'DESIGN.md §' + c['ref']},
                'level_note': c['note'],
                'technique': c['technique'],
            })
        else:
            na.append({'property_id': pid, 'reason': REASONS_PENDING})
    hooks = subprocess.run(['git', '-C', '/repo', 'log', '--format=%H %s'], capture_output=True, text=True).stdout.strip().split('\n')
    hook_commits = [l.split(' ')[0] for l in hooks if ' verif hook ' in ' ' + l]
    m = {
        'version': 1,
        'setup_cmd': './setup.sh',
        'hooks': {
            'guard': 'cfg(picilisp_verif)',
            'enable': 'cargo rustc --bin picilisp --offline --target-dir /verif/.build/target -- --cfg picilisp_verif -C opt-level=2 -C debug-assertions=on -C overflow-checks=on',
            'baseline_off_cmd': 'cd /repo && cargo nextest run --workspace --no-fail-fast --offline --test-threads 8 || cargo test --workspace --no-fail-fast --offline',
            'source_commits': hook_commits,
            'add_only': True,
        },
        'engines': [{'name': 'lean4-proof+correspondence', 'path': '/verif/check', 'serves_properties': [c['property_id'] for c in checks],
                     'kind_free_text': 'Lean 4 theorems about a hand-written executable model (lean/PiciModel), re-checked with an axiom audit on every run, tied to /repo by a differential correspondence check (cfg-guarded in-binary driver vs compiled Lean model driver) and an independent oracle per property'}],
        'checks': checks,
        'not_applicable': na,
        'notes': 'See DESIGN.md. known_findings.json lists open findings and fixed defects (fix: commits in /repo).',
    }
    json.dump(m, open(os.path.join(VERIF, 'MANIFEST.json'), 'w'), indent=1)
    print(f'{len(checks)} checks, {len(na)} not yet claimed')

if __name__ == '__main__':
    main()
