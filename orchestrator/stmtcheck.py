#!/usr/bin/env python3
"""compare the theorem statements of a delivered Props file with the statement file it was derived from"""
import re, sys
def stmts(p):
    s = open(p).read()
    return dict(re.findall(r'^theorem (\w+)(.*?):=', s, re.S | re.M)), dict(re.findall(r'^(?:def|inductive) (\w+)(.*?)(?=^(?:theorem|def|inductive|/--|/-!|end |section|example|mutual))', s, re.S | re.M))
a, ad = stmts(sys.argv[1]); b, bd = stmts(sys.argv[2])
bad = 0
for k in a:
    same = re.sub(r'\s+', ' ', a[k]) == re.sub(r'\s+', ' ', b.get(k, ''))
    if not same: bad += 1
    print(k, 'SAME' if same else 'DIFF')
for k in ad:
    same = re.sub(r'\s+', ' ', ad[k]) == re.sub(r'\s+', ' ', bd.get(k, ''))
    if not same: bad += 1; print('def', k, 'DIFF')
sys.exit(1 if bad else 0)
