"""Per-property specifications: theorem modules, correspondence generators, independent oracles, searches."""
import itertools, os, random, re
import lib
from lib import hexs, unhex, run_sessions, real_cmd, model_cmd, compare, canon, Broken

SPECS = {}

def spec(name, **kw):
    SPECS[name] = kw


def matches_known(k, failure):
    """a known finding suppresses only failures that carry its tag (set by the oracle from the specific input / call site)"""
    return failure.get('finding') == k.get('id')


def finding_still_fails(k, result):
    return k.get('id') in result.get('findings_seen', set()) or k.get('always_report', False)


# ------------------------------------------------------------------------------------------------ helpers

def both(sessions, timeout=600, workers=12, stack=None):
    real = run_sessions(real_cmd(stack), sessions, timeout, workers)
    model = run_sessions(model_cmd(), sessions, timeout, workers, big_stack=True)
    return real, model


def parse_eval(line):
    """'r1 ;; r2 | end=.. out=.. cur=.. dbg=..' -> (list of (kind, printed_text, dump), trailer dict)"""
    if ' | end=' not in line and not line.startswith('| end='):
        return None, {'raw': line}
    head, _, tail = line.rpartition('| end=')
    results = []
    head = head.strip()
    if head:
        for tok in head.split(' ;; '):
            if tok == 'abort':
                results.append(('abort', '', ''))
                continue
            parts = tok.split(':', 2)
            if len(parts) == 3:
                kind, ph, dump = parts
                try:
                    text = unhex(ph).decode('utf-8', 'replace') if not ph.startswith('!') else ph
                except Exception:
                    text = ph
                results.append((kind, text, dump))
            else:
                results.append(('?', tok, ''))
    trailer = {}
    m = re.match(r'(\S+) out=(\S+) cur=(\S+) dbg=(.*)$', tail)
    if m:
        trailer = {'end': m.group(1), 'out': unhex(m.group(2)).decode('utf-8', 'replace'), 'cur': unhex(m.group(3)).decode('utf-8', 'replace'), 'dbg': m.group(4)}
    return results, trailer


def sym(s):
    return 'S' + hexs(s)

def err_dump(kind, source, *details):
    return '(' + ' '.join([sym('kind'), sym(kind), sym('source'), sym(source)] + list(details)) + ')'


def summarize(diffs, n=3):
    return [{k: (v if not isinstance(v, str) else v[:400]) for k, v in d.items()} for d in diffs[:n]]


# ================================================================================================ C12

I64MIN, I64MAX = -2**63, 2**63 - 1

def c12_boundary():
    import math
    vals = {0, 1, -1, 2, -2, I64MIN, I64MAX, I64MIN + 1, I64MAX - 1, 2**31, -2**31, 2**32, -2**32, 2**31 - 1, 2**32 + 1,
            3037000499, 3037000500, 3037000501, -3037000499, -3037000500, -3037000501,
            I64MAX // 2, I64MAX // 2 + 1, I64MAX // 2 - 1, I64MIN // 2, I64MIN // 2 + 1, I64MIN // 2 - 1,
            3, -3, 7, 10, -10, 255, 256, 65535, 65536, 2**62, -2**62, 2**62 - 1, 2**62 + 1, -2**62 - 1}
    for k in (1, 5, 9, 10, 15, 18):
        vals |= {10**k, -10**k, 10**k - 1, 10**k + 1}
    return sorted(vals)

def tdiv(x, y):
    q = abs(x) // abs(y)
    return q if (x < 0) == (y < 0) else -q

def c12_expected(op, x, y):
    """independent oracle (Python bigint): the dump the property prescribes"""
    name = {'add': 'add', 'sub': 'substract', 'mul': 'multiply', 'div': 'divide', 'lt': '<', 'gt': '>'}[op]
    if op in ('lt', 'gt'):
        v = (x < y) if op == 'lt' else (x > y)
        return ('ok', sym('t') if v else '()')
    if op == 'div' and y == 0:
        return ('sig', err_dump('divide-by-zero', 'divide'))
    z = {'add': lambda: x + y, 'sub': lambda: x - y, 'mul': lambda: x * y, 'div': lambda: tdiv(x, y)}[op]()
    if I64MIN <= z <= I64MAX:
        return ('ok', f'N{z}')
    return ('sig', err_dump('arithmetic-overflow', name))

def c12_cases(rng, tier):
    b = c12_boundary()
    ops = ['add', 'sub', 'mul', 'div', 'lt', 'gt']
    cases = [(op, x, y) for op in ops for x in b for y in b]
    n_rand = 20000 if tier == 'quick' else 400000
    for _ in range(n_rand):
        def rnd():
            bits = rng.randint(0, 64)
            v = rng.getrandbits(bits) if bits else 0
            v = v if rng.random() < 0.5 else -v
            return max(I64MIN, min(I64MAX, v))
        cases.append((rng.choice(ops), rnd(), rnd()))
    return cases

def c12_literals(rng):
    lits = [str(v) for v in c12_boundary()] + ['+5', '-0', '+0', '007', '-007', '9223372036854775808', '-9223372036854775809',
            '99999999999999999999999999999', '-99999999999999999999999999999', '+9223372036854775807', '1-', '1+2', '12a', '--1', '+-1', '1%']
    for _ in range(300):
        n = rng.randint(1, 22)
        lits.append(rng.choice(['', '-', '+']) + ''.join(rng.choice('0123456789') for _ in range(n)))
    return lits

def c12_literal_expected(lit):
    m = re.fullmatch(r'[+-]?[0-9]+', lit)
    if m:
        v = int(lit)
        if I64MIN <= v <= I64MAX:
            return ('value', v)
        return ('error', None)
    return (None, None)

def c12_correspond(run, rng, tier):
    cases = c12_cases(rng, tier)
    opname = {'add': 'add', 'sub': 'substract', 'mul': 'multiply', 'div': 'divide', 'lt': '<', 'gt': '>'}
    per = 250
    sessions = []
    index = []
    chunks = [cases[i:i + per] for i in range(0, len(cases), per)]
    group = 12
    for g in range(0, len(chunks), group):
        sess = ['new']
        idx = []
        for ch in chunks[g:g + group]:
            text = ' '.join(f'({opname[o]} {x} {y})' for (o, x, y) in ch)
            sess.append('eval ' + hexs(text))
            idx.append(ch)
        sessions.append(sess)
        index.append(idx)
    lits = c12_literals(rng)
    lit_sess = ['new'] + ['eval ' + hexs(l) for l in lits]
    sessions.append(lit_sess)
    real, model = both(sessions)
    diffs = compare(sessions, real, model)
    failures = []
    kinds = {}
    seen = set()
    for si, idx in enumerate(index):
        for li, ch in enumerate(idx):
            line = real[si][li + 1] if li + 1 < len(real[si]) else ''
            results, _ = parse_eval(line)
            if results is None or len(results) != len(ch):
                failures.append({'input': f'batch {si}/{li}', 'problem': 'driver did not answer every form', 'real': line[:300],
                                 'expression': ' '.join(f'({opname[o]} {x} {y})' for (o, x, y) in ch[:3]) + ' …'})
                continue
            for (o, x, y), (kind, text, dump) in zip(ch, results):
                ek, ed = c12_expected(o, x, y)
                kinds[ek + ':' + o] = kinds.get(ek + ':' + o, 0) + 1
                seen.add((o, x, y))
                if kind != ek or dump != ed or (ek == 'ok' and o not in ('lt', 'gt') and text != str(int(ed[1:]))):
                    failures.append({'expression': f'({opname[o]} {x} {y})', 'expected': f'{ek} {ed}', 'real': f'{kind} {dump} printed={text!r}',
                                     'replay_cmd': f"{lib.REPO}/target/debug/picilisp --expression '({opname[o]} {x} {y})'"})
    # literals: read + print round trip
    for li, lit in enumerate(lits):
        line = real[-1][li + 1] if li + 1 < len(real[-1]) else ''
        ek, ev = c12_literal_expected(lit)
        results, trailer = parse_eval(line)
        if ek == 'value':
            if not results or len(results) != 1 or results[0][0] != 'ok' or not results[0][2].endswith(f'N{ev}') or results[0][1] != str(ev):
                failures.append({'expression': lit, 'expected': f'reads as {ev} and prints as {ev}', 'real': line[:300]})
        elif ek == 'error':
            if results or not trailer.get('end', '').startswith('error:'):
                failures.append({'expression': lit, 'expected': 'read error (not representable)', 'real': line[:300]})
    return {'evaluations': len(cases) + len(lits), 'distinct_nontrivial': len(seen),
            'rule': 'all pairs of the boundary set x 6 operations, plus bit-length-uniform random pairs, plus integer literals around +-2^63; '
                    'a case is non-trivial if distinct (operation, x, y); every case is evaluated by the real natives, by the model and by a Python bigint oracle',
            'samples': [f'({opname[o]} {x} {y})' for (o, x, y) in rng.sample(cases, 5)] + lits[:2],
            'disagreements': diffs, 'oracle_failures': failures, 'distribution': kinds}

def c12_replay(run, content):
    fs = content.get('failures', [])
    exprs = [f['expression'] for f in fs if 'expression' in f]
    sessions = [['new'] + ['eval ' + hexs(e) for e in exprs]]
    real, model = both(sessions)
    for e, r in zip(exprs, real[0][1:]):
        print(e, '=>', r[:200])
    return {'evaluations': len(exprs), 'distinct_nontrivial': len(exprs), 'samples': exprs[:3], 'disagreements': compare(sessions, real, model), 'oracle_failures': [], 'rule': 'replay'}

spec('C12', correspond=c12_correspond, replay=c12_replay, search=lambda run, rng, d: c12_correspond(run, random.Random(rng.random()), 'quick')['oracle_failures'],
     modules=['C12'],
     trusted=['std: i64::checked_add/sub/mul/div modelled as two\'s-complement result + signed-overflow flag (BitVec 64)',
              'std: str::parse::<i64> modelled from core::num (from_ascii_radix)', 'the correspondence check (Python orchestrator, both drivers)'],
     assumptions=['numbers reach the natives only as i64 payloads (Val.num in range)'])


# ================================================================================================ C17

def c17_oracle(ops, outs):
    """spec: one FIFO of byte | boundary; returns a failure description or None"""
    fifo = []
    for op, out in zip(ops, outs):
        if op[0] == 'w':
            fifo += list(op[1])
            if out != f'wrote {len(op[1])}':
                return f'write answered {out}'
        elif op[0] == 'f':
            fifo.append('B')
            if out != 'flushed':
                return f'flush answered {out}'
        else:
            n = op[1]
            if not fifo:
                if out != 'timeout':
                    return f'read on an empty pipe answered {out!r}, expected timeout'
            elif fifo[0] == 'B':
                if out != 'zero':
                    return f'read at a boundary answered {out!r}, expected a zero-length read'
                fifo.pop(0)
            else:
                if not out.startswith('data '):
                    return f'read with bytes at the front answered {out!r}'
                got = list(unhex(out[5:]))
                k = len(got)
                if k == 0 or k > n or fifo[:k] != got:
                    return f'read({n}) delivered {got}, front of the FIFO is {fifo[:n + 1]}'
                del fifo[:k]
    return None

def c17_session(ops):
    lines = ['p new']
    for op in ops:
        if op[0] == 'w': lines.append('p w ' + hexs(bytes(op[1])))
        elif op[0] == 'f': lines.append('p f')
        else: lines.append(f'p r {op[1]}')
    return lines

def c17_correspond(run, rng, tier):
    alphabet = [('w', []), ('w', [1]), ('w', [2, 3]), ('w', [4, 5, 6]), ('f',), ('r', 1), ('r', 2), ('r', 4)]
    L = 5 if tier == 'quick' else 6
    seqs = []
    for n in range(1, L + 1):
        seqs += [list(s) for s in itertools.product(alphabet, repeat=n)]
    exhaustive_count = len(seqs)
    counter = [10]
    for _ in range(3000 if tier == 'quick' else 40000):
        n = rng.randint(6, 120)
        s = []
        for _ in range(n):
            k = rng.random()
            if k < 0.35:
                m = rng.choice([0, 1, 1, 2, 3, 5, 17])
                s.append(('w', [(counter[0] + i) % 256 for i in range(m)]))
                counter[0] += m
            elif k < 0.5: s.append(('f',))
            else: s.append(('r', rng.choice([1, 1, 2, 3, 4, 8, 64])))
        seqs.append(s)
    # sizes: messages around and far beyond any plausible internal buffer size (powers of two and their neighbours), read with
    # buffers smaller than, equal to and larger than the message; nothing in the property depends on a size
    sizes = [255, 256, 257, 1023, 1024, 1025, 4095, 4096, 4097, 8191, 8192, 8193, 20000] + ([65535, 65536, 65537, 300000] if tier != 'quick' else [])
    for m in sizes:
        for rb in (1, 7, 100, 4096, m - 1, m, m + 1):
            body = [(counter[0] + i) % 256 for i in range(m)]
            counter[0] += m
            n_reads = min(m // rb + 3, 40)
            s = [('w', body), ('f',)] + [('r', rb)] * n_reads if rb * 40 >= m else [('w', body), ('f',)] + [('r', rb)] * 5 + [('r', m)] * 3
            seqs.append(s)
            # two large messages back to back, a flush between them, read with one buffer size
            seqs.append([('w', body[: m // 2]), ('w', body[m // 2:]), ('f',), ('w', [1, 2, 3]), ('r', rb), ('r', m), ('r', m), ('r', 8), ('r', 8), ('r', 8)])
    sessions = [c17_session(s) for s in seqs]
    # pack many small sessions into one process each
    real, model = both(sessions, workers=12)
    diffs = compare(sessions, real, model)
    failures = []
    dist = {'timeouts': 0, 'zero_reads': 0, 'short_reads': 0, 'data_reads': 0}
    for s, r in zip(seqs, real):
        outs = r[1:]
        for op, o in zip(s, outs):
            if o == 'timeout': dist['timeouts'] += 1
            elif o == 'zero': dist['zero_reads'] += 1
            elif o.startswith('data'):
                dist['data_reads'] += 1
                if len(unhex(o[5:])) < op[1]: dist['short_reads'] += 1
        why = c17_oracle(s, outs)
        if why:
            failures.append({'ops': [list(o) for o in s], 'problem': why, 'real': outs[:40]})
    return {'evaluations': len(seqs), 'distinct_nontrivial': len({str(s) for s in seqs if any(o[0] == 'r' for o in s) and any(o[0] != 'r' for o in s)}),
            'rule': f'every operation sequence of length <= {L} over write(0/1/2/3 bytes), flush, read(1/2/4) — exhaustive ({exhaustive_count}) — plus random sequences of length 6..120; '
                    'non-trivial = distinct sequence containing both a read and a write/flush; real pipe (Duration::ZERO) vs model vs a Python FIFO oracle',
            'samples': [str(seqs[rng.randrange(len(seqs))]) for _ in range(4)], 'disagreements': diffs, 'oracle_failures': failures,
            'distribution': dist, 'exhaustive': False}

def c17_replay(run, content):
    fs = content.get('failures', [])
    seqs = [[tuple([o[0]] + ([o[1]] if len(o) > 1 else [])) for o in f['ops']] for f in fs if 'ops' in f]
    sessions = [c17_session(s) for s in seqs]
    real, model = both(sessions)
    for s, r in zip(seqs, real):
        print(s, '=>', r[1:], 'oracle:', c17_oracle(s, r[1:]))
    return {'evaluations': len(seqs), 'distinct_nontrivial': len(seqs), 'samples': [str(s) for s in seqs[:3]], 'disagreements': compare(sessions, real, model),
            'oracle_failures': [{'ops': [list(o) for o in s], 'problem': c17_oracle(s, r[1:])} for s, r in zip(seqs, real) if c17_oracle(s, r[1:])], 'rule': 'replay'}

spec('C17', correspond=c17_correspond, replay=c17_replay, modules=['C17'],
     search=lambda run, rng, d: c17_correspond(run, random.Random(rng.random()), 'quick')['oracle_failures'],
     trusted=['std::sync::mpsc as an atomic FIFO (every access to shared state is one send/recv; the byte buffer is private to the reader)',
              'the correspondence check (Python orchestrator, both drivers)'],
     assumptions=['read buffers are non-empty (a zero-length buffer makes every read Ok(0): the Read contract)',
                  'thread interleavings are sequences of the atomic operations write/flush/read'])


# ================================================================================================ C18

def chunkings(data, rng):
    """ways the OS may batch the same bytes"""
    out = {'all-at-once': [data] if data else []}
    lines = data.split(b'\n')
    lb = [l + b'\n' for l in lines[:-1]] + ([lines[-1]] if lines[-1] else [])
    out['line-by-line'] = lb
    out['byte-by-byte'] = [bytes([b]) for b in data]
    cuts = sorted(rng.sample(range(1, len(data)), min(len(data) - 1, rng.randint(1, 6)))) if len(data) > 2 else []
    out['random-splits'] = [data[a:b] for a, b in zip([0] + cuts, cuts + [len(data)])] if data else []
    return out

def c18_texts(rng, n):
    texts = [b'1\n2\n3\n', b'', b'\n', b'\n\n', b'abc', b'abc\n', b'a\nb', 'λx\né\n'.encode(), b'(+ 1\n2)\n', b'x' * 300 + b'\n' + b'y' * 9000 + b'\nz\n']
    alphabet = ['a', 'b', '1', ' ', '(', ')', '"', 'λ', 'é', '\n', '\n', ';', '%']
    for _ in range(n):
        texts.append(''.join(rng.choice(alphabet) for _ in range(rng.randint(0, 40))).encode())
    return texts

def char_list_dump(s):
    return '(' + ' '.join(f'C{ord(c)}' for c in s) + ')' if s else '()'

def c18_stdin_part(rng, tier):
    texts = c18_texts(rng, 60 if tier == 'quick' else 600)
    sessions, meta = [], []
    for t in texts:
        for cname, chunks in chunkings(t, rng).items():
            nlines = t.count(b'\n') + 3
            prog = ' '.join(['(input-file *stdin*)'] * nlines)
            sessions.append(['new prelude', 'stdin ' + ','.join(hexs(c) for c in chunks), 'evalx ' + hexs(prog)])
            meta.append((t, cname, nlines))
    return sessions, meta

def c18_expected_lines(t, n):
    text = t.decode('utf-8')
    parts = text.split('\n')
    lines = [p + '\n' for p in parts[:-1]] + ([parts[-1]] if parts[-1] else [])
    exp = []
    for i in range(n):
        if i < len(lines):
            exp.append(('ok', char_list_dump(lines[i])))
        else:
            exp.append(('sig', err_dump('eof', 'input-file')))
    return exp

# --- the REPL on the real binary, as a process

LOADED = 'Loaded native functions.\nLoaded prelude.\nLoaded repl.\n'

def run_repl_process(chunks, timeout=60):
    """feed the plain binary's stdin with exactly these chunks (a pause between chunks keeps the OS from coalescing them)"""
    import subprocess, time as _t
    p = subprocess.Popen([lib.PLAIN_BIN], stdin=subprocess.PIPE, stdout=subprocess.PIPE, stderr=subprocess.PIPE)
    try:
        for c in chunks:
            p.stdin.write(c)
            p.stdin.flush()
            _t.sleep(0.002)
        p.stdin.close()
        out = p.stdout.read()
        err = p.stderr.read()
        p.wait(timeout=timeout)
        return out.decode('utf-8', 'replace'), p.returncode, err.decode('utf-8', 'replace')
    except Exception as e:
        p.kill()
        return f'<<{e}>>', -1, ''

def repl_scripts(rng, tier):
    """(script text, expected results or None) — one form per line or forms spanning lines; never two forms on one line"""
    scripts = []
    def form(i):
        k = rng.random()
        if k < 0.3: return (f'(add {i} 1)', str(i + 1))
        if k < 0.5: return (f'(+ {i}\n   2\n   3)', str(i + 5))
        if k < 0.6: return ("'sym", 'sym')
        if k < 0.7: return ('(list 1\n2)', '(1 2)')
        if k < 0.8: return ('"str"', '"str"')
        if k < 0.9: return (f'; comment\n{i}', str(i))
        return (f'\n\n{i}', str(i))
    for n in ([1, 2, 5, 20, 60] if tier == 'quick' else [1, 2, 5, 20, 60, 200, 600]):
        fs = [form(i) for i in range(n)]
        scripts.append(('\n'.join(f for f, _ in fs) + '\n', [e for _, e in fs]))
    # forms that SIGNAL when evaluated, or end in a syntax error, written on one line or spanning lines, with ordinary forms
    # after them: every later form is still evaluated exactly once, the error report is the same however the form is split
    # (positions masked)
    def eform(i):
        k = rng.random()
        sp = rng.choice([' ', '\n ', '\n\n  '])
        if k < 0.3:
            return (f'(car{sp}{i})', f'UNHANDLED ERROR:\n\nkind:\nwrong-argument-type\n\nsource:\ncar\n\nargument-value:\n{i}\n at: stdin:?\n\nexpected:\nconscell-type\n\nactual:\nnumber-type\n\n')
        if k < 0.55:
            return (f'(undefined-thing{sp}{i})', 'UNHANDLED ERROR:\n\nkind:\nunbound-symbol\n\nsource:\neval\n\nsymbol:\nundefined-thing\n at: stdin:?\n\n')
        if k < 0.7:
            return (f'(list {i}{sp}"a\\q")', "UNHANDLED ERROR:\n\nkind:\nsyntax-error\n\nmessage: \n'q' is not a valid escape character in a string literal\n at: stdin:?\n")
        return form(i)
    for n in ([3, 8, 30] if tier == 'quick' else [3, 8, 30, 30, 100]):
        fs = [eform(i) for i in range(n)] + [form(n)]
        scripts.append(('\n'.join(f for f, _ in fs) + '\n', [e.rstrip('\n') for _, e in fs]))
    # errors in the middle of a session: the session goes on
    scripts.append(('1\n(car 5)\n2\n(undefined)\n3\n', None))
    scripts.append(('(+ 1 2', None))           # incomplete at end of input
    scripts.append(('1\n)\n2\n', None))         # syntax error
    scripts.append(('', None))
    return scripts

def c18_correspond(run, rng, tier):
    failures, findings_seen = [], set()
    # ---- layer 1: input-file *stdin* in-process, every chunking
    sessions, meta = c18_stdin_part(rng, tier)
    sessions = [[l.replace('evalx ', 'eval ') for l in s] for s in sessions]
    real, model = both(sessions)
    diffs = compare(sessions, real, model)
    dist = {}
    for (t, cname, nlines), r in zip(meta, real):
        results, _ = parse_eval(r[2] if len(r) > 2 else '')
        exp = c18_expected_lines(t, nlines)
        got = [(k, d) for (k, _, d) in (results or [])]
        dist[cname] = dist.get(cname, 0) + 1
        if got != exp:
            failures.append({'stdin_bytes_hex': t.hex(), 'chunking': cname, 'expected': exp[:6], 'real': got[:6], 'problem': 'lines of standard input not delivered exactly once in order'})
    # ---- layer 2: REPL sessions on the real binary (process level) vs the model evaluator running repl.lisp
    scripts = repl_scripts(rng, tier)
    rsessions, rmeta = [], []
    for text, expected in scripts:
        data = text.encode()
        for cname, chunks in chunkings(data, rng).items():
            if cname == 'byte-by-byte' and len(data) > 400:
                continue
            rsessions.append(['new repl', 'stdin ' + ','.join(hexs(c) for c in chunks), 'eval ' + hexs('(repl ">>> " nil)')])
            rmeta.append((text, expected, cname, chunks))
    # the closures themselves: every function of repl.lisp as the real interpreter binds it, against what the model binds
    # (Generated/ReplExpanded.lean, which the theorem C18b.repl_session is about, is a dump of the latter)
    closure_session = ['new repl', 'eval ' + hexs('\n'.join(f"(destructure-function (with-current-module '{n} 'repl))" for n in ['-pretty-print-syntax-error', 'pretty-print-error', 'repl', 'read-eval-print']))]
    creal, cmodel = both([closure_session], timeout=300)
    diffs += compare([closure_session], creal, cmodel)
    rreal, rmodel = both(rsessions, timeout=900)
    diffs += compare(rsessions, rreal, rmodel)
    n_proc = 0
    for (text, expected, cname, chunks), rm in zip(rmeta, rmodel):
        _, trailer = parse_eval(rm[2] if len(rm) > 2 else '')
        model_out = trailer.get('out') if trailer else None
        out, rc, err = run_repl_process(chunks)
        n_proc += 1
        transcript = LOADED + (model_out or '') + 'Bye!\n'
        if model_out is None or out != transcript or rc != 0:
            diffs.append({'session': 'repl-process', 'request': text[:200], 'chunking': cname, 'real': out[-600:], 'model': transcript[-600:], 'exit': rc, 'stderr': err[-300:]})
        if expected is not None:
            # independent oracle: every form evaluated exactly once, in order, one result per form, clean end
            body = out[len(LOADED):] if out.startswith(LOADED) else out
            got = [l for l in re.split(r'(?:>>> |\.\.\. )+', body.replace('\nBye!\n', '\n').replace('Bye!\n', '')) if l.strip() != '']
            got = [re.sub(r' at: stdin:\d+:\d+', ' at: stdin:?', g.rstrip('\n')) for g in got]
            if got != expected or rc != 0 or not out.endswith('Bye!\n'):
                i = next((k for k in range(min(len(got), len(expected))) if got[k] != expected[k]), min(len(got), len(expected)))
                f = {'script': text[:400] + (' …' if len(text) > 400 else ''), 'script_lines': text.count('\n'), 'chunking': cname, 'first_difference_at_form': i,
                     'expected_results': expected[max(0, i - 2):i + 3], 'real_results': got[max(0, i - 2):i + 3], 'exit': rc,
                     'problem': 'REPL did not evaluate every form exactly once in order'}
                if i < len(got) and 'stackoverflow' in ' '.join(got[i:i + 3]) and text.count('\n') > 900:
                    # listed finding F17b: every LINE of a session costs one recursion level of the REPL
                    f['finding'] = 'F17b-repl-depth-grows'
                    findings_seen.add('F17b-repl-depth-grows')
                failures.append(f)
    # ---- known-finding witnesses (reported, not alarms)
    two, rc2, _ = run_repl_process([b'1 2\n'])
    if '2' not in two.replace(LOADED, '').replace('>>> ', ''):
        findings_seen.add('F17a-repl-one-form-per-line')
    return {'evaluations': len(sessions) + len(rsessions) + n_proc, 'distinct_nontrivial': len({(m[0], m[1]) for m in meta if m[0].count(b'\n') >= 1}) + len(scripts),
            'rule': 'layer 1: generated byte texts x 4 chunkings (all at once / line by line / byte by byte / random splits) through input-file *stdin* of the real interpreter vs model vs Python line splitting; '
                    'layer 2: REPL scripts (one form per line, forms spanning lines, comments, blank lines, errors) x chunkings on the real binary as a process, on the hooked driver and on the model evaluator running repl.lisp; non-trivial = text with at least one newline / script',
            'samples': [repr(meta[i][0][:40]) + ' / ' + meta[i][1] for i in range(0, min(len(meta), 40), 9)] + [scripts[1][0][:80]],
            'disagreements': diffs, 'oracle_failures': failures, 'distribution': dist, 'findings_seen': findings_seen}

def c18_replay(run, content):
    out = []
    for f in content.get('failures', []):
        if 'stdin_bytes_hex' in f:
            t = bytes.fromhex(f['stdin_bytes_hex'])
            for cname, chunks in chunkings(t, random.Random(1)).items():
                p, rc, _ = run_repl_process(chunks)
                print(cname, repr(p[-300:]))
        elif 'script' in f:
            p, rc, _ = run_repl_process([f['script'].encode()])
            print(repr(p[-600:]))
    return {'evaluations': 1, 'distinct_nontrivial': 2, 'samples': ['replay'], 'disagreements': [], 'oracle_failures': [], 'rule': 'replay'}

spec('C18', correspond=c18_correspond, replay=c18_replay, modules=['C18', 'C18b'], plain=True,
     search=lambda run, rng, d: c18_correspond(run, random.Random(rng.random()), 'quick')['oracle_failures'],
     trusted=['std::io::BufReader::read_line as modelled (fill one chunk, scan for newline, consume)', 'UTF-8 decoding', 'the correspondence check'],
     assumptions=['the OS delivers non-empty reads before end of input', 'OS batching, process start-up and exit are runtime behaviour: exercised, not proved',
                  'REPL layer: differential only (model evaluator running the real repl.lisp vs the real binary)'])


# ================================================================================================ C13

PLAIN_SYMS = ['foo', 'bar', 'a', 'b', 'kind', 'list']

def c13_tree(rng, depth=0):
    k = rng.random()
    if depth >= 4 or k < 0.45:
        a = rng.random()
        # (numbers and characters share values on purpose: 97 is the code point of a, 49 of the digit 1)
        if a < 0.35: return ('int', rng.choice([0, 1, 2, -1, 7, 2**62, 97, 98, 99, 49, 120]))
        if a < 0.55: return ('chr', rng.choice('abcx1'))
        if a < 0.8: return ('sym', rng.choice(PLAIN_SYMS))
        if a < 0.9: return ('str', ''.join(rng.choice('ab') for _ in range(rng.randint(0, 3))))
        return ('nil',)
    if k < 0.8:
        return ('list', [c13_tree(rng, depth + 1) for _ in range(rng.randint(0, 4))])
    return ('cons', c13_tree(rng, depth + 1), c13_tree(rng, depth + 1))

def c13_norm(t):
    """the metadata-free tree a value denotes: lists become cons chains"""
    if t[0] == 'list':
        r = ('nil',)
        for x in reversed(t[1]):
            r = ('cons', c13_norm(x), r)
        return r
    if t[0] == 'cons':
        return ('cons', c13_norm(t[1]), c13_norm(t[2]))
    if t[0] == 'str':
        # a string IS the list of its characters
        return c13_norm(('list', [('chr', c) for c in t[1]]))
    return t

def c13_expr(t, rng, meta_rate):
    """an expression that builds the tree, atoms with or without reader metadata"""
    meta = rng.random() < meta_rate
    if t[0] == 'int': return str(t[1]) if meta else f'(add {t[1]} 0)'
    if t[0] == 'chr': return f'%{t[1]}' if meta else f"(car (print '{t[1]}))"
    if t[0] == 'sym': return f"'{t[1]}" if meta else f"(car (. (destructure-function (lambda ({t[1]}) 1)) 'parameters))"
    if t[0] == 'nil': return 'nil' if meta else '()'
    if t[0] == 'str':
        return '"' + t[1] + '"' if meta else '(list ' + ' '.join('%' + c for c in t[1]) + ')'
    if t[0] == 'list':
        if t[1] and t[1][0] == ('sym', 'list') and all(x[0] == 'chr' for x in t[1][1:]) and rng.random() < 0.5:
            # the datum of a quoted string literal: the symbol `list` followed by the characters — NOT the string
            return "'\"" + ''.join(x[1] for x in t[1][1:]) + '"'
        if rng.random() < 0.5:
            return '(list ' + ' '.join(c13_expr(x, rng, meta_rate) for x in t[1]) + ')'
        r = 'nil' if rng.random() < 0.3 else '()'
        for x in reversed(t[1]):
            r = f'(cons {c13_expr(x, rng, meta_rate)} {r})'
        return r
    return f'(cons {c13_expr(t[1], rng, meta_rate)} {c13_expr(t[2], rng, meta_rate)})'

def c13_mutate(t, rng):
    k = rng.random()
    if k < 0.4:
        return t
    if t[0] == 'list' and t[1]:
        i = rng.randrange(len(t[1]))
        c = rng.random()
        xs = list(t[1])
        if c < 0.4: xs[i] = c13_mutate(xs[i], rng)
        elif c < 0.55: xs = xs[:i] + xs[i + 1:]
        elif c < 0.7: xs = xs + [c13_tree(rng, 3)]
        elif c < 0.85:
            r = c13_tree(rng, 3)     # proper -> improper tail
            for x in reversed(xs):
                r = ('cons', x, r)
            return r
        else: xs[i] = c13_tree(rng, 3)
        return ('list', xs)
    if t[0] == 'cons':
        return ('cons', c13_mutate(t[1], rng), t[2]) if rng.random() < 0.5 else ('cons', t[1], c13_mutate(t[2], rng))
    if t[0] == 'str':
        c = rng.random()
        if c < 0.4: return ('list', [('sym', 'list')] + [('chr', x) for x in t[1]])      # the literal's datum: one element more
        if c < 0.7: return ('list', [('chr', x) for x in t[1]])                          # the same datum, built differently
        return ('str', t[1] + rng.choice('ab'))
    return c13_tree(rng, 3) if rng.random() < 0.7 else t

def c13_shared(rng):
    """a datum in which ONE cons cell occurs several times (shared substructure), and mutations of it that differ at a later
    occurrence only; returns (trees a b c, expressions ea eb ec)"""
    s0 = ('list', [c13_tree(rng, 3) for _ in range(rng.randint(1, 3))])
    s1 = c13_mutate(s0, rng)
    s2 = c13_mutate(s0, rng)
    shape = rng.choice(['pair', 'triple', 'nested', 'cdr'])
    def build(x, y, z):
        if shape == 'pair': return ('list', [x, y])
        if shape == 'triple': return ('list', [x, y, z])
        if shape == 'nested': return ('list', [('list', [x, ('int', 1)]), ('list', [y, ('int', 1)])])
        return ('cons', x, ('cons', y, z))
    a, b, c = build(s0, s0, s0), build(s0, s1, s0), build(s0, s0, s2)
    def expr(t, share):
        if not share:
            return c13_expr(t, rng, rng.choice([0.0, 0.5, 1.0]))
        # every occurrence of s0 is the SAME cell: bound once
        inner = c13_expr(s0, rng, 0.5)
        def e(t):
            if t == s0: return 'sh'
            if t[0] == 'list': return '(list ' + ' '.join(e(x) for x in t[1]) + ')'
            if t[0] == 'cons': return f'(cons {e(t[1])} {e(t[2])})'
            return c13_expr(t, rng, 0.5)
        return f'((lambda (sh) {e(t)}) {inner})'
    return (a, b, c), (expr(a, True), expr(b, rng.random() < 0.5), expr(c, rng.random() < 0.5))

def c13_correspond(run, rng, tier):
    n = 1500 if tier == 'quick' else 20000
    sessions, meta = [], []
    batch, bmeta = [], []
    eq_count = 0
    for i in range(n):
        if i % 4 == 3:
            (a, b, c), (ea, eb, ec) = c13_shared(rng)
        else:
            a = c13_tree(rng)
            b = c13_mutate(a, rng)
            c = c13_mutate(b, rng)
            ea, eb, ec = (c13_expr(x, rng, rng.choice([0.0, 0.5, 1.0])) for x in (a, b, c))
        text = f"(list (= {ea} {eb}) (= {eb} {ea}) (= {eb} {ec}) (= {ea} {ec}) (= {ea} {ea}) (= (print {ea}) (print {eb})))"
        batch.append(text)
        bmeta.append((a, b, c, text))
        if len(batch) == 25 or i == n - 1:
            sessions.append(['new prelude', 'eval ' + hexs('\n'.join(batch))])
            meta.append(bmeta)
            batch, bmeta = [], []
    real, model = both(sessions)
    diffs = compare(sessions, real, model)
    failures = []
    dist = {'equal_pairs': 0, 'unequal_pairs': 0, 'transitivity_instances': 0}
    for bm, r in zip(meta, real):
        results, _ = parse_eval(r[1] if len(r) > 1 else '')
        if results is None or len(results) != len(bm):
            failures.append({'problem': 'driver did not answer every form', 'expression': bm[0][3], 'real': (r[1] if len(r) > 1 else '')[:300]})
            continue
        for (a, b, c, text), (kind, printed, dump) in zip(bm, results):
            na, nb, nc = c13_norm(a), c13_norm(b), c13_norm(c)
            T = lambda v: 't' if v else '()'
            exp = [T(na == nb), T(nb == na), T(nb == nc), T(na == nc), 't']
            dist['equal_pairs' if na == nb else 'unequal_pairs'] += 1
            if na == nb and nb == nc: dist['transitivity_instances'] += 1
            got = re.findall(r'\(\)|t', printed[1:-1]) if kind == 'ok' else None
            ok = got is not None and len(got) == 6 and got[:5] == exp and (na != nb or got[5] == 't')
            if not ok:
                failures.append({'expression': text, 'expected': exp + ['t if equal'], 'real': f'{kind} {printed}',
                                 'replay_cmd': f"{lib.REPO}/target/debug/picilisp --expression '{text}'"})
    return {'evaluations': n, 'distinct_nontrivial': dist['equal_pairs'] + dist['unequal_pairs'],
            'rule': 'triples (a, b, c) of data where b and c are mutations (0-2 edits: change an atom, drop/add an element, proper->improper tail, replace a subtree) of a; '
                    'every atom is built with or without reader metadata at random; a quarter of the triples have SHARED substructure (one cons cell occurring several times in the first operand, the others differing at a later occurrence); =, symmetry, transitivity, reflexivity and print-equality are evaluated by the real interpreter, the model and a Python structural-equality oracle',
            'samples': [m[0][3] for m in meta[:3]], 'disagreements': diffs, 'oracle_failures': failures, 'distribution': dist}

def generic_replay(run, content):
    exprs = [f['expression'] for f in content.get('failures', []) if 'expression' in f]
    sessions = [['new prelude', 'eval ' + hexs(e)] for e in exprs]
    real, model = both(sessions)
    for e, r in zip(exprs, real):
        print(e, '=>', (r[1] if len(r) > 1 else r)[:300])
    return {'evaluations': len(exprs), 'distinct_nontrivial': max(2, len(exprs)), 'samples': exprs[:3] or ['none'], 'disagreements': compare(sessions, real, model), 'oracle_failures': [], 'rule': 'replay'}

spec('C13', correspond=c13_correspond, replay=generic_replay, modules=['C13'],
     search=lambda run, rng, d: c13_correspond(run, random.Random(rng.random()), 'quick')['oracle_failures'],
     trusted=['tree-valued model of heap values: sharing of substructure is invisible to `=` (exercised on the real heap by the generator)', 'the correspondence check'],
     assumptions=['data: free of functions and traps; metadata cells never nest (allocate_metadata refuses it)',
                  'native recursion depth of equal_internal is unbounded: a C06 matter (known finding F14)'])


# ================================================================================================ C14

def c14_configs():
    subsets = [(), ('x',), ('y',), ('x', 'y')]
    exports = [None, ('zz',), ('x',), ('x', 'y')]
    for da in subsets:
        for ea in exports:
            for db in subsets:
                for eb in exports:
                    for ddef in [(), ('x',)]:
                        for order in (('ma', 'mb'), ('mb', 'ma')):
                            yield {'ma': (da, ea), 'mb': (db, eb), 'default': (ddef, None), 'order': order, 'same': None}
    # the same configurations with every definition bound to ONE AND THE SAME object (an interned symbol, the empty list, t):
    # two visible definitions are a conflict whatever their values are
    for same in ("'same", 'nil', 't'):
        for da in subsets[1:]:
            for ea in exports:
                for db in subsets[1:]:
                    for eb in (None, ('x',)):
                        yield {'ma': (da, ea), 'mb': (db, eb), 'default': ((), None), 'order': ('ma', 'mb'), 'same': same}

VAL = {('ma', 'x'): 11, ('ma', 'y'): 12, ('mb', 'x'): 21, ('mb', 'y'): 22, ('default', 'x'): 31}

def c14_val(cfg, mod, n):
    """(expression that defines it, printed value)"""
    same = cfg.get('same') if isinstance(cfg, dict) else None
    if same:
        # bare `t` and `nil` are prelude globals, invisible inside a freshly loaded module: spell the objects themselves
        return {"'same": "'same", 'nil': '()', 't': '(quote t)'}[same], {"'same": 'same', 'nil': '()', 't': 't'}[same]
    return str(VAL[(mod, n)]), str(VAL[(mod, n)])

def c14_module_text(mod, defs, exports, cfg=None):
    # the probes are defined first: macro expansion of a definition already resolves the symbols of its body,
    # so a probe must be created while the name is not yet ambiguous
    forms = []
    for n in ('x', 'y'):
        forms.append(f"(define (quote probe-{mod}-{n}) (lambda () {n}) (list))")
        # a macro is a function too: its expander body looks the name up from the macro's HOME module, whoever uses the macro
        forms.append(f"(define (quote mprobe-{mod}-{n}) (macro () (list (quote quote) {n})) (list))")
    for n in defs:
        forms.append(f"(define (quote {n}) {c14_val(cfg, mod, n)[0]} (list))")
    if exports is not None:
        forms.append("(export (quote (" + ' '.join(list(exports) + [f'probe-{mod}-x', f'probe-{mod}-y', f'mprobe-{mod}-x', f'mprobe-{mod}-y']) + ")))")
    return ' '.join(forms)

def c14_program(cfg):
    forms = []
    for mod in cfg['order']:
        defs, exports = cfg[mod]
        text = c14_module_text(mod, defs, exports, cfg)
        forms.append(f'(load-all "{text}" "{mod}")')
    for n in cfg['default'][0]:
        forms.append(f"(define (quote {n}) {c14_val(cfg, 'default', n)[0]} (list))")
    queries = []
    for n in ('x', 'y'):
        queries.append((('sym', n, 'default'), n))
        for mod in ('ma', 'mb'):
            queries.append((('sym', n, mod), f'(probe-{mod}-{n})'))
            queries.append((('msym', n, mod), f'(mprobe-{mod}-{n})'))
            queries.append((('from', n, mod), f"(from-module (quote {n}) (quote {mod}))"))
            queries.append((('with', n, mod), f"(with-current-module (quote {n}) (quote {mod}))"))
        queries.append((('whereis', n), f"(whereis (quote {n}))"))
    return forms, queries

def c14_visible(cfg, name, home):
    vis = []
    for mod in ('default', 'ma', 'mb'):
        defs, exports = cfg[mod]
        if name in defs and (exports is None or name in exports or mod == home):
            vis.append(mod)
    return vis

def c14_expected(cfg, q):
    if q[0] == 'msym':
        q = ('sym',) + tuple(q[1:])
    if q[0] in ('sym', 'with'):
        _, name, home = q
        vis = c14_visible(cfg, name, home)
        src = 'eval' if q[0] == 'sym' else 'with-current-module'
        if len(vis) == 1: return ('ok', c14_val(cfg, vis[0], name)[1])
        if not vis: return ('sig', f'(kind unbound-symbol source {src} symbol {name})')
        # a symbol typed at top level meets macro expansion first, which resolves symbols too; inside a closure body it is eval
        if q[0] == 'sym' and home == 'default': src = 'macroexpand'
        return ('sig', f'(kind ambiguous-name source {src} symbol {name} conflicting-modules ({" ".join(sorted(vis))}))')
    if q[0] == 'from':
        _, name, mod = q
        defs, exports = cfg[mod]
        if name in defs and (exports is None or name in exports): return ('ok', c14_val(cfg, mod, name)[1])
        return ('sig', f'(kind unbound-symbol source from-module symbol {name})')
    _, name = q
    mods = sorted(m for m in ('default', 'ma', 'mb') if name in cfg[m][0])
    return ('ok', '(' + ' '.join(mods) + ')')

def c14_correspond(run, rng, tier):
    cfgs = list(c14_configs())
    if tier == 'quick':
        rng.shuffle(cfgs)
        cfgs = cfgs[:700]
    sessions, meta = [], []
    for cfg in cfgs:
        forms, queries = c14_program(cfg)
        sessions.append(['new', 'eval ' + hexs('\n'.join(forms)), 'eval ' + hexs('\n'.join(t for _, t in queries))])
        meta.append((cfg, queries))
    real, model = both(sessions)
    diffs = compare(sessions, real, model)
    failures = []
    dist = {'found': 0, 'unbound': 0, 'ambiguous': 0, 'queries': 0}
    for (cfg, queries), r in zip(meta, real):
        results, _ = parse_eval(r[2] if len(r) > 2 else '')
        if results is None or len(results) != len(queries):
            failures.append({'config': str(cfg), 'problem': 'driver did not answer every query', 'real': (r[2] if len(r) > 2 else str(r))[:300]})
            continue
        for (q, text), (kind, printed, _) in zip(queries, results):
            ek, ep = c14_expected(cfg, q)
            dist['queries'] += 1
            if ek == 'ok' and q[0] != 'whereis': dist['found'] += 1
            elif 'ambiguous' in ep: dist['ambiguous'] += 1
            elif ek == 'sig': dist['unbound'] += 1
            if (kind, printed) != (ek, ep):
                forms, _ = c14_program(cfg)
                failures.append({'config': str(cfg), 'query': text, 'expected': f'{ek} {ep}', 'real': f'{kind} {printed}',
                                 'expression': '\n'.join(forms) + '\n' + text})
    return {'evaluations': len(cfgs), 'distinct_nontrivial': len(cfgs),
            'rule': 'configurations of two loaded modules + default: definition subsets of {x, y} x export sets {none, {zz}, {x}, {x y}} per module x default defines x or not x both load orders '
                    '(all 1024 in the thorough tier, a random 700 in the quick tier); each queried by symbol evaluation from default, from a closure of each module and from the expander body of a macro of each module used from default, from-module, with-current-module, whereis; '
                    'real interpreter vs model vs a Python visibility oracle',
            'samples': [str(c) for c in cfgs[:3]], 'disagreements': diffs, 'oracle_failures': failures, 'distribution': dist,
            'exhaustive': tier != 'quick'}

spec('C14', correspond=c14_correspond, replay=generic_replay, modules=['C14'],
     search=lambda run, rng, d: c14_correspond(run, random.Random(rng.random()), 'quick')['oracle_failures'],
     trusted=['HashMap/HashSet as finite maps with unspecified iteration order', 'the correspondence check'],
     assumptions=['module names and global names are plain strings; a closure\'s home module is the module name captured at its creation'])


# ================================================================================================ heap: C01, C03, C04

from gen.heap import HeapGen
from gen.programs import Gen, ALL, CORE

def heap_histories(rng, n, lengths, symbol_heavy_every=3, everys=(0, 0, 1, 3, 7)):
    sessions, counts = [], {}
    for i in range(n):
        g = HeapGen(rng, symbol_heavy=(symbol_heavy_every and i % symbol_heavy_every == 0))
        sessions.append(g.history(rng.randint(*lengths), every=rng.choice(everys)))
        for k, v in g.counts.items():
            counts[k] = counts.get(k, 0) + v
    return sessions, counts


def snapshot_reachability(snap):
    """independent oracle on a real snapshot line: parse it, compute reachability in Python.
    returns (problems, used, reachable_count, len)"""
    m = re.match(r'len=(\d+) ff=(\d+) cells=(.*?) syms=(\S*) mods=(\S*) cur=(\S*)$', snap)
    if not m:
        return [f'unparseable snapshot {snap[:80]}'], 0, 0, 0
    n, ff = int(m.group(1)), int(m.group(2))
    cells = {}
    problems = []
    for c in m.group(3).split(';'):
        if not c:
            continue
        idx, rc, desc = c.split(':', 2)
        f = desc.split(',')
        kids = []
        kind = f[0]
        if kind == 'K' or kind == 'T': kids = f[1:3]
        elif kind == 'M': kids = f[1:2]
        elif kind == 'F':
            kids = f[3:5] + [p for p in f[6].strip('[]').split('/') if p]
        elif kind == 'S':
            if f[2] != idx: problems.append(f'symbol cell {idx} does not point to itself')
        for k in kids:
            if k.startswith('!'):
                problems.append(f'cell {idx} refers to {k}: reclaimed or released storage')
        cells[int(idx)] = (int(rc), [int(k) for k in kids if k not in ('_',) and not k.startswith('!')], kind, f)
    if len(cells) != ff:
        problems.append(f'{len(cells)} used cells listed, first_free={ff}')
    # reachability from cells with handles
    seen = set()
    stack = [i for i, (rc, _, _, _) in cells.items() if rc > 0]
    while stack:
        i = stack.pop()
        if i in seen or i not in cells:
            continue
        seen.add(i)
        stack += cells[i][1]
    # symbol table discipline
    names = {}
    for i, (rc, kids, kind, f) in cells.items():
        if kind == 'S' and f[1] != '~':
            if f[1] in names:
                problems.append(f'two used symbol cells ({names[f[1]]}, {i}) for the same name {f[1]}')
            names[f[1]] = i
    table = dict(e.split('>') for e in m.group(4).split(',') if e)
    for name, idx in table.items():
        if idx.startswith('!') or not idx.isdigit() or names.get(name) != int(idx):
            problems.append(f'symbol table entry {name}>{idx} does not name a used symbol cell of that name')
    for name, i in names.items():
        if name not in table:
            problems.append(f'used named symbol cell {i} ({name}) is missing from the symbol table')
    return problems, ff, len(seen), n


def heap_oracle(sess, resp, growth_check=True):
    """checks on the real responses of one history: invariants, exactness after a collection, size bound"""
    from fractions import Fraction
    failures = []
    max_live = 0          # an UPPER bound of the largest live set so far: reachable cells at the last snapshot + allocations since
    since = 0             # allocating operations since the last snapshot
    last_reach = 0
    last_collect = False
    for j, (req, r) in enumerate(zip(sess, resp)):
        if r.startswith('PANIC') or r.startswith('DRIVER-DIED'):
            failures.append({'at': j, 'request': req, 'problem': f'the heap code crashed: {r[:200]}'})
            break
        w = req.split()
        if len(w) > 1 and w[0] == 'h' and w[1] in ('num', 'chr', 'cons', 'sym', 'symprint', 'gensym', 'fn', 'trap', 'meta'):
            since += 1
            max_live = max(max_live, last_reach + since)
        if req == 'h inv' and r != 'ok':
            failures.append({'at': j, 'request': req, 'problem': f'heap invariant broken: {r}'})
        if req == 'audit' and not r.startswith('ok'):
            failures.append({'at': j, 'request': req, 'problem': f'a handle exists that belongs neither to a slot of the client nor to a definition (or a definition without its handle): {r}'})
        if req == 'h snap':
            problems, used, reach, n = snapshot_reachability(r)
            for p in problems:
                failures.append({'at': j, 'request': req, 'problem': p})
            last_reach, since = reach, 0
            max_live = max(max_live, reach)
            if last_collect:
                if used != reach:
                    failures.append({'at': j, 'request': req, 'problem': f'immediately after a collection {used} cells are in use but {reach} are reachable (garbage retained or live data lost)'})
                # surplus free space beyond the configured ratio is released
                free = n - used
                if free > (used * 3) // 4 and free != used // 10 + 1:
                    failures.append({'at': j, 'request': req, 'problem': f'after a collection used={used} free={free}: more than MAXIMUM_FREE_RATIO and not trimmed to MINIMUM_FREE_RATIO'})
            if growth_check and n > max(256, 2 * max_live + 2):
                failures.append({'at': j, 'request': req, 'problem': f'heap has {n} cells although at most {max_live} cells were ever live (growth bound 2L+1 / initial 256)'})
        last_collect = req == 'h collect' or (last_collect and req in ('h snap', 'h inv'))
    return failures


def shadow_oracle(sess, resp):
    """the client's own shadow of the trees it built: what `peek` shows for a slot never changes while the slot is held,
    and a clone / re-read of the same handle shows the same tree"""
    failures = []
    shadow = {}     # slot -> dump
    for j, (req, r) in enumerate(zip(sess, resp)):
        w = req.split()
        if len(w) < 2 or w[0] != 'h':
            continue
        op = w[1]
        if op in ('num', 'chr', 'cons', 'sym', 'symprint', 'gensym', 'trap', 'fn', 'meta', 'car', 'cdr', 'getglobal'):
            shadow.pop(w[2], None)
        elif op == 'clone':
            shadow.pop(w[2], None)
            if w[3] in shadow and r == 'ok':
                shadow[w[2]] = shadow[w[3]]
        elif op == 'drop':
            shadow.pop(w[2], None)
        elif op == 'peek':
            if 'POISON' in r or '-59774025455' in r:      # the poison value of swept cells
                failures.append({'at': j, 'request': req, 'problem': f'a live handle shows the poison of a reclaimed cell: {r[:200]}'})
            if w[2] in shadow and shadow[w[2]] != r:
                failures.append({'at': j, 'request': req, 'problem': f'the value behind a live handle changed: was {shadow[w[2]][:150]} now {r[:150]}'})
            shadow[w[2]] = r
    return failures


def deep_nest_programs():
    """one value referred to by HUNDREDS of handles at the same time: an expression nested several hundred deep inside one function
    body (every evaluator frame on the way down holds the same local environment), a parameter looked up again while the frames
    unwind; and one object that is an element of a list hundreds of times"""
    out = []
    for d in (100, 254, 255, 256, 257, 300, 400):      # (twice d levels for the second family: below the depth limit)
        out.append(("((lambda (x) " + "(add " * d + "x" + " x)" * d + ") 1)", str(d + 1)))
        out.append(("((lambda (x y) " + "(car (list " * d + "x" + " y))" * d + ") 'deep (list 1 2))", 'deep'))
    out.append(("((lambda (v) (length (foldl (lambda (acc i) (cons v acc)) nil (range 700)))) (list 'shared 1))", '700'))
    return out


def program_gc_sessions(rng, n, features=None):
    """evaluator programs under forced collection with poisoning: the handle audit and the heap invariants must hold afterwards"""
    sessions, progs = [], []
    for i in range(n):
        g = Gen(rng, features)
        p = g.program()
        progs.append(p)
        sched = rng.choice(['every:1', 'every:2', 'every:5', 'lcg:%d:64' % rng.randrange(1 << 30)])
        sessions.append(['new prelude', f'sched {sched}', 'poison 1', 'eval ' + hexs(p), 'sched natural', 'audit'])
    for p, _ in deep_nest_programs():
        progs.append(p)
        sessions.append(['new prelude', f'sched {rng.choice(["every:1", "every:3", "every:7"])}', 'poison 1', 'eval ' + hexs(p), 'sched natural', 'audit'])
    return sessions, progs


def c01_correspond(run, rng, tier, symbol_heavy=False, which='C01'):
    n_hist = 400 if tier == 'quick' else 6000
    sessions, counts = heap_histories(rng, n_hist, (20, 400) if tier == 'quick' else (20, 2500), symbol_heavy_every=1 if symbol_heavy else 3)
    if which == 'C03':
        # long histories with a bounded live set: sawtooth allocation
        for size in ([1000, 5000] if tier == "quick" else [1000, 20000, 40000]):
            lines = ['new empty', 'sched natural', 'poison 1']
            for i in range(size):
                lines.append(f'h cons {i % 17} {(i + 3) % 17 if i > 20 else "_"} _')
                if i % 997 == 0:
                    lines += ['h collect', 'h snap', 'h inv']
            lines += ['h collect', 'h snap', 'h inv']
            sessions.append(lines)
        # a live set that grows slowly (one kept cons per step, a little garbage): the natural collections free only a few
        # cells; the heap is looked at after EVERY operation, so that its size is seen right after every growth
        for garbage_every in (3, 7, 12, 30):
            lines = ['new empty', 'sched natural', 'poison 1', 'h num 1 5']
            for i in range(420 if tier == "quick" else 1200):
                lines.append('h cons 0 1 0' if i else 'h cons 0 1 _')
                if i % garbage_every == 0:
                    lines.append(f'h num 2 {i}')
                if i > 200:
                    lines.append('h snap')
            lines += ['h collect', 'h snap', 'h inv']
            sessions.append(lines)
        # MANY collections on one heap whose size stays put: a stable live set of a few hundred cells, and between two
        # collections a few short-lived values in rotating slots (some survive one or two collections, some none); the heap
        # is looked at after every one of the collections — "exactly the reachable cells are in use" must hold at the 700th
        # collection as at the first
        for base in ((300, 700), (120, 400)) if tier == 'quick' else ((300, 3000), (120, 1500), (1000, 1200)):
            live, rounds = base
            lines = ['new empty', 'sched natural', 'poison 1', 'h num 1 5']
            filled = set()
            for i in range(live):
                lines.append('h cons 0 1 0' if i else 'h cons 0 1 _')
            for i in range(rounds):
                for _ in range(rng.randint(1, 4)):
                    slot = rng.randint(2, 12)
                    kind = rng.choice(['cons', 'num', 'cons2', 'drop'])
                    if kind == 'drop' and slot not in filled:
                        kind = 'num'
                    if kind == 'cons2' and not filled:
                        kind = 'cons'
                    if kind == 'drop':
                        filled.discard(slot)
                        lines.append(f'h drop {slot}')
                    else:
                        lines.append({'cons': f'h cons {slot} 1 _', 'num': f'h num {slot} {i}', 'cons2': f'h cons {slot} {rng.choice(sorted(filled)) if filled else 1} 0'}[kind])
                        filled.add(slot)
                lines += ['h collect', 'h snap']
            lines += ['h inv']
            sessions.append(lines)
        # the same with cells that were live at ONE collection long ago and have since held nothing but values that never
        # survive a collection: whatever a collection remembers about a cell from an earlier collection must not matter
        # hundreds of collections later (every residue of the collection count is passed)
        for live, rounds, m, refresh in ((300, 620, 10, 10 ** 9), (150, 560, 6, 271)) if tier == 'quick' else ((300, 2100, 10, 10 ** 9), (150, 1600, 6, 271), (600, 1100, 25, 523)):
            lines = ['new empty', 'sched natural', 'poison 1', 'h num 1 5']
            for i in range(live):
                lines.append('h cons 0 1 0' if i else 'h cons 0 1 _')
            for i in range(rounds):
                if i % refresh == 0:
                    # these values are live at exactly one collection …
                    for k in range(m):
                        lines.append(f'h num {2 + k} {i}')
                    lines += ['h collect', 'h snap']
                    for k in range(m):
                        lines.append(f'h drop {2 + k}')
                    lines += ['h collect', 'h snap']
                else:
                    # … and from then on their cells hold garbage only
                    for k in range(m):
                        lines.append(f'h cons 2 1 _' if k % 2 else f'h num 2 {k}')
                    lines += ['h drop 2', 'h collect', 'h snap']
            lines += ['h inv']
            sessions.append(lines)
    real, model = both(sessions)
    diffs = compare(sessions, real, model)
    failures = []
    for s, r in zip(sessions, real):
        for f in heap_oracle(s, r) + shadow_oracle(s, r):
            f['history'] = s[:f['at'] + 1] if len(s) < 600 else ['(long history: regenerate from the seed)']
            failures.append(f)
            break
    # evaluator programs under forced collections, poisoning on: audit + comparison with the (GC-free) tree model
    psessions, progs = program_gc_sessions(rng, 150 if tier == 'quick' else 3000)
    # modules replaced by a second load of the same name while their globals have been looked up: nothing may keep referring to
    # the dropped definitions (judged by the oracle of the reload histories of C15)
    rseq = [c15_reload_history(rng) for _ in range(60 if tier == 'quick' else 600)]
    rscheds = [rng.choice(['every:7', 'every:40', 'lcg:%d:64' % rng.randrange(1 << 30)]) for _ in rseq]
    psessions = psessions + [['new prelude', f'sched {k}', 'poison 1', 'eval ' + hexs(p), 'sched natural', 'audit'] for (p, _), k in zip(rseq, rscheds)]
    preal, pmodel = both(psessions)
    n_prog = len(progs)
    failures += reload_failures(rseq, [r[:4] for r in preal[n_prog:]], rscheds)
    diffs += compare(psessions, preal, pmodel)
    leaks = 0
    known = dict(deep_nest_programs())
    for p, r in zip(progs, preal):
        last = r[-1] if r else ''
        if p in known:
            res, _ = parse_eval(r[3] if len(r) > 3 else '')
            if not res or (res[-1][0], res[-1][1]) != ('ok', known[p]):
                failures.append({'expression': p, 'schedule': psessions[progs.index(p)][1], 'expected': known[p], 'real': str(res[-1][:2] if res else r[3:4])[:300],
                                 'problem': 'a value held by several hundred handles at once was lost or altered by a collection'})
                continue
        if not last.startswith('ok'):
            leaks += 1
            failures.append({'expression': p, 'problem': f'after evaluation under forced collections: {last[:300]}'})
    collections = sum(1 for s in sessions for l in s if l == 'h collect')
    return {'evaluations': len(sessions) + len(psessions), 'distinct_nontrivial': len({tuple(s) for s in sessions if sum(1 for l in s if l == 'h collect') >= 2}),
            'rule': 'random heap histories (allocation 45%, clone/drop 27%, define/undefine 10%, collect 8%, symbol ops 10%; operands biased to recent live slots; drops biased to old slots) '
                    'under collection schedules natural / every allocation / every 3rd / every 7th with poisoning of swept cells; after every collection and at random points the whole heap is compared '
                    'cell by cell (used/free, handle count, kind, payload, child indices, symbol table, globals) between the real heap and the model, the real snapshot is checked by a Python reachability oracle '
                    'and every peek is checked against the client\'s shadow; plus evaluator programs under forced collections with a handle audit; non-trivial = history with >= 2 collections',
            'samples': ['; '.join(sessions[0][:12]) + ' …', progs[0][:200]],
            'disagreements': diffs, 'oracle_failures': failures,
            'distribution': dict(counts, collections=collections, program_runs=len(psessions), audit_failures=leaks)}

def heap_replay(run, content):
    out = {'evaluations': 0, 'distinct_nontrivial': 2, 'samples': ['replay'], 'disagreements': [], 'oracle_failures': [], 'rule': 'replay'}
    for f in content.get('failures', []):
        if 'history' in f and f['history'] and f['history'][0].startswith('new'):
            real, model = both([f['history']])
            print('\n'.join(f'{a}  =>  {b[:200]}' for a, b in zip(f['history'][-8:], real[0][-8:])))
            out['oracle_failures'] += heap_oracle(f['history'], real[0]) + shadow_oracle(f['history'], real[0])
            out['evaluations'] += 1
    return out

HEAP_TRUST = ['Vec<Cell>/Box address stability, HashMap/HashSet as finite maps', 'f32 ratio arithmetic equals exact rationals below 5.5M cells (compared by the driver\'s `ratio` request)',
              'the Rust type system: cells are reached only through GcRef handles', 'the correspondence check (snapshot hook, both drivers)']


# ================================================================================================ generic evaluator differential

def eval_sessions(programs, flags='prelude', extra=None):
    return [[f'new {flags}'] + (extra or []) + ['eval ' + hexs(p)] for p in programs]

def outcome_stats(real, line=-1):
    kinds = {}
    for r in real:
        res, trailer = parse_eval(r[line]) if r else (None, None)
        for k in (res or []):
            kinds[k[0]] = kinds.get(k[0], 0) + 1
        if res is None:
            kinds['no-answer'] = kinds.get('no-answer', 0) + 1
    return kinds

def crash_failures(sessions, real, label='expression'):
    """a panic or a dead process is a violation of totality whatever the property"""
    out = []
    for s, r in zip(sessions, real):
        for j, x in enumerate(r):
            if x.startswith('PANIC') or x.startswith('DRIVER-DIED'):
                req = s[j] if j < len(s) else s[-1]
                text = unhex(req.split(' ', 1)[1]).decode('utf-8', 'replace') if req.startswith(('eval ', 'evalstop ')) else req
                why = ('the interpreter did not return from this request (hang): ' + x) if 'timeout' in x else \
                      ('the interpreter panicked or died: ' + (unhex(x.split(' ')[1]).decode('utf-8', 'replace') if x.startswith('PANIC ') else x)[:300])
                out.append({label: text, 'session': [l if len(l) < 200 else l[:200] + '…' for l in s[:j + 1]], 'problem': why})
                break
    return out


# ================================================================================================ C08

class TrapAst:
    """trap nesting with a known outcome: the generator knows where it put the signal and which trap must catch it"""
    def __init__(self, rng):
        self.r = rng
        self.n = 0

    def payload(self):
        r = self.r
        return r.choice([("'p%d" % r.randint(0, 9), None), ("(list 'kind 'k%d 'v %d)" % (r.randint(0, 3), r.randint(0, 99)), None), ('%d' % r.randint(1, 500), None),
                         ("'(a (b c) 7)", '(a (b c) 7)'), ("(cons 1 2)", '(cons 1 2)')])

    def gen(self, depth):
        """returns (text, outcome) with outcome ('ok', printed) | ('sig', printed) | ('abort',)"""
        r = self.r
        k = r.random()
        if depth <= 0 or k < 0.2:
            c = r.random()
            if c < 0.45:
                v = r.randint(0, 99)
                return str(v), ('ok', str(v))
            if c < 0.85:
                text, printed = self.payload()
                if printed is None:
                    printed = text.lstrip("'") if text.startswith("'") else None
                    if printed is None:
                        m = re.match(r"\(list 'kind 'k(\d) 'v (\d+)\)", text)
                        printed = f'(kind k{m.group(1)} v {m.group(2)})' if m else text
                return f'(signal {text})', ('sig', printed)
            return '(abort)', ('abort',)
        if k < 0.55:
            return self.trap(depth)
        return self.context(depth)

    def context(self, depth):
        r = self.r
        text, out = self.gen(depth - 1)
        c = r.choice(['operand', 'operand2', 'closure', 'thunk', 'when', 'block', 'cond', 'operator', 'second', 'load'])
        if c == 'load':
            # the signal crosses a load: it reaches the trap outside with its payload intact, an abort stays an abort
            esc = text.replace('\\', '\\\\').replace('"', '\\"')
            return f'(load-all "1 {esc} 2" "lm")', (('ok', 'ok') if out[0] == 'ok' else out)
        if c == 'operand': return f'(car (list {text} 2))', out
        if c == 'operand2':
            # two signalling operands: the left one wins
            t2, o2 = self.gen(depth - 1)
            if out[0] == 'ok':
                return f'(car (cdr (list {text} {t2})))', o2
            return f'(car (cdr (list {text} {t2})))', out
        if c == 'closure': return f'((lambda (x) x) {text})', out
        if c == 'thunk': return f'((lambda () {text}))', out
        if c == 'when': return f'(when t {text})', out
        if c == 'block': return f'(block 1 {text})', out
        if c == 'cond':
            return f"(if {text} 'yes 'no)", ((('ok', 'no') if out[1] == '()' else ('ok', 'yes')) if out[0] == 'ok' else out)
        if c == 'operator':
            if out[0] == 'ok':
                return f'(car (list {text}))', out
            return f'({text} 1 (signal (quote never)))', out      # the operator signals first: operands are not evaluated
        return f'(car (cdr (list 0 {text})))', out

    def trap(self, depth):
        r = self.r
        self.n += 1
        n = self.n
        body, out = self.gen(depth - 1)
        h = r.choice(['return', 'return', 'resignal', 'value', 'abort', 'nested', 'symbol', 'cell', 'cell-reads', 'empty', 'empty-cell'])
        if h in ('empty', 'empty-cell'):
            # a handler that is the empty list: a trapped signal gives nil — an abort still passes
            text = f'(eval (trap {body} ()))' if h == 'empty' else f'(eval (make-trap (macroexpand (quote {body})) {r.choice(["nil", "()", "(list)"])}))'
            return text, (('ok', '()') if out[0] == 'sig' else out)
        if h == 'symbol':
            # the handler is the bare variable: the value of the trap is the signal itself
            text = f'(eval (trap {body} *trapped-signal*))'
            return text, (('ok', out[1]) if out[0] == 'sig' else out)
        if h in ('cell', 'cell-reads'):
            # trap OBJECTS built with make-trap: the handler expression is itself a trap object (not a list form), evaluated in the
            # environment that binds *trapped-signal*
            if h == 'cell':
                inner = f"(make-trap (quote (signal (list 'inner *trapped-signal*))) (quote (list 'inner-caught{n} *trapped-signal*)))"
                hout = (lambda s: ('ok', f'(inner-caught{n} (inner {s}))'))
            else:
                inner = f"(make-trap (quote (list 'saw{n} *trapped-signal*)) (quote 'never))"
                hout = (lambda s: ('ok', f'(saw{n} {s})'))
            text = f'(eval (make-trap (macroexpand (quote {body})) {inner}))'
            return text, (hout(out[1]) if out[0] == 'sig' else out)
        if h == 'return':
            handler, hout = f"(list 'caught{n} *trapped-signal*)", (lambda s: ('ok', f'(caught{n} {s})'))
        elif h == 'resignal':
            handler, hout = "(signal (list 'again *trapped-signal*))", (lambda s: ('sig', f'(again {s})'))
        elif h == 'value':
            handler, hout = f"'handled{n}", (lambda s: ('ok', f'handled{n}'))
        elif h == 'abort':
            handler, hout = '(abort)', (lambda s: ('abort',))
        else:
            # the handler itself contains a trap that catches a second signal
            handler, hout = f"(eval (trap (signal (list 'inner *trapped-signal*)) (list 'inner-caught{n} *trapped-signal*)))", (lambda s: ('ok', f'(inner-caught{n} (inner {s}))'))
        text = f'(eval (trap {body} {handler}))'
        if out[0] == 'sig':
            return text, hout(out[1])
        return text, out          # a value passes, an abort is never intercepted


def c08_correspond(run, rng, tier):
    n = 1200 if tier == 'quick' else 20000
    ast_cases = []
    for _ in range(n):
        t = TrapAst(rng)
        text, out = t.gen(rng.randint(1, 5))
        ast_cases.append((text, out))
    sessions = eval_sessions([t for t, _ in ast_cases])
    # every native's own errors: one ill-typed and one ill-arity call each, trapped, the signal inspected
    natives = ['cons', 'car', 'cdr', '.', 'append', 'unrest', 'read', 'make-trap', 'make-function', 'call-native-function', 'macroexpand', 'eval', 'load-all',
               'print', 'add', 'substract', 'multiply', 'divide', '<', '>', 'define', 'undefine', 'whereis', 'export', 'get-current-module', 'from-module', 'with-current-module',
               'destructure-trap', 'destructure-function', 'type-of', 'get-metadata', 'send', 'receive', 'input-file', 'output-file', 'gensym', '=']
    bad_args = ["", "1 2 3 4 5 6", "'a", "%c 5", "(list 1) (list 2) (list 3)", "1 2", "'sym 'sym2", "(lambda (x) x)", '"str" 5', "(cons 1 2) 3"]
    plist_forms = []
    for nat in natives:
        for a in bad_args:
            plist_forms.append(f"(eval (trap ({nat} {a}) (list 'trapped (. *trapped-signal* 'kind) (. *trapped-signal* 'source))))")
    gen_programs = []
    for _ in range(300 if tier == 'quick' else 5000):
        g = Gen(rng, ALL, fault_rate=0.25)
        gen_programs.append(g.program())
    psessions = eval_sessions(['\n'.join(plist_forms[i:i + 30]) for i in range(0, len(plist_forms), 30)] + gen_programs)
    all_sessions = sessions + psessions
    real, model = both(all_sessions)
    diffs = compare(all_sessions, real, model)
    failures = crash_failures(all_sessions, real)
    dist = {'ok': 0, 'sig': 0, 'abort': 0}
    for (text, out), r in zip(ast_cases, real):
        res, _ = parse_eval(r[1] if len(r) > 1 else '')
        got = None
        if res and len(res) == 1:
            k, printed, _ = res[0]
            got = (k, printed) if k != 'abort' else ('abort',)
        dist[out[0]] += 1
        if got != out:
            failures.append({'expression': text, 'expected': list(out), 'real': list(got) if got else (r[1] if len(r) > 1 else str(r))[:300],
                             'problem': 'signal did not reach the innermost enclosing trap intact / abort was intercepted / wrong handler ran'})
    # errors raised by the interpreter itself are plists: `(. sig 'kind)` must not fail with wrong-plist-format / wrong-argument-type for them
    for i, s in enumerate(psessions[:len(psessions) - len(gen_programs)]):
        r = real[len(sessions) + i]
        res, _ = parse_eval(r[1] if len(r) > 1 else '')
        forms = unhex(s[1].split(' ')[1]).decode().split('\n')
        for f, x in zip(forms, res or []):
            if x[0] == 'sig' and ('wrong-plist-format' in x[1] or "source ." in x[1]):
                failures.append({'expression': f, 'real': x[1][:300], 'problem': 'an error raised by the interpreter itself is not a property list with kind and source'})
    return {'evaluations': len(all_sessions), 'distinct_nontrivial': len({t for t, o in ast_cases if 'trap' in t and o[0] != 'ok' or 'caught' in str(o)}),
            'rule': 'trap nestings 0-5 deep with the signalling expression placed in operator / operand / condition / closure body / macro body / handler position, payloads of every datum shape, '
                    'handlers that return / re-signal / abort / trap again — outcome known to the generator (Python oracle); every native called with ill-typed and ill-arity arguments inside a trap that inspects kind and source; '
                    'plus generated programs with a high fault rate; real vs model vs oracle; non-trivial = a case whose outcome is decided by a trap',
            'samples': [ast_cases[i][0] for i in range(3)] + [plist_forms[7]], 'disagreements': diffs, 'oracle_failures': failures, 'distribution': dist}

spec('C08', correspond=c08_correspond, replay=generic_replay, modules=['C08'],
     search=lambda run, rng, d: c08_correspond(run, random.Random(rng.random()), 'quick')['oracle_failures'],
     trusted=['the evaluator model is tied to eval/mod.rs by differential execution', 'the correspondence check'],
     assumptions=['abort is the Rust value Err(nil); a signal is Err(non-nil value)', 'user-level signals of the prelude (e.g. the `soruce` typo in `last`) are outside "raised by the interpreter itself"'])


# ================================================================================================ C19

LOOPS = {
    'tail': "(defun spin (n) \"\" (spin (add n 1)))\n(spin 0)",
    'catch-all': "(defun spin2 (n) \"\" (try (spin2 (add n 1)) (catch-all (lambda (e) (list 'handled (. e 'kind))))))\n(spin2 0)",
    'nested-eval': "(defun spin3 (n) \"\" (eval (list 'spin3 (add n 1))))\n(eval (trap (spin3 0) (list 'trapped (. *trapped-signal* 'kind))))",
    # loops that never apply a Lisp function: only the evaluator's own back-edges (the inlined eval, if)
    'eval-only': "(define 'w '(eval w) \"\")\n(eval w)",
    'if-eval': "(define 'u '(if t (eval u) nil) \"\")\n(eval u)",
    # several top-level forms inside a load: a command may arrive between two forms (while the next one is being read)
    'load-loop': "(load-all \"(define 'la 1 (list)) (define 'lb (add la 1) (list)) (defun spin9 (n) \\\"\\\" (spin9 (add n 1))) (spin9 0)\" \"lm\")",
    'receive': "(list 'got (receive))",
    'terminating': "(foldl add 0 (range 50))",
    'output': "(infinite-loop 0)",
}

def c19_correspond(run, rng, tier):
    cases = []
    steps = [0, 1, 2, 3, 5, 10, 33, 100, 1000] + [rng.randint(0, 5000) for _ in range(10 if tier == 'quick' else 200)]
    for name, prog in LOOPS.items():
        for cmd in ('INTERRUPT', 'ABORT', 'STEP-IN'):
            # every instant of the first loop heads for the programs with several top-level forms (the boundaries between forms)
            dense = list(range(0, 160 if tier == 'quick' else 600)) if name in ('tail', 'load-loop') and cmd != 'STEP-IN' else []
            for k in sorted(set(steps + dense)) if dense else steps:
                if cmd == 'STEP-IN' and name not in ('terminating', 'receive'):
                    continue        # an ignored command would let the loop run forever
                if name == 'output' and k > 300:
                    continue
                if name == 'receive' and k < 100:
                    continue        # the evaluator's own polls would consume the command before `receive` blocks: a real debugger answers then

                cases.append((name, prog, [(cmd, k)]))
        # a harmless command first, the stopping command later
        if name != 'receive':
            cases.append((name, prog, [('STEP-OVER', 1), ('ABORT', 40)]))
    sessions = []
    for name, prog, cmds in cases:
        s = ['new prelude umbilical'] + [f'command {hexs(c)} {k}' for c, k in cmds] + ['evalstop ' + hexs(prog),
             # afterwards: the interpreter accepts the next evaluation and still has its definitions
             'eval ' + hexs("(list (add 1 2) (type-of foldl) (get-current-module))")]
        sessions.append(s)
    # programs BLOCKED waiting for input: standard input times out (scripted time-outs, chunk f8) before the line is complete —
    # nothing typed yet, or half a line typed — and the debugger sends its command while the evaluation waits
    input_cases = []
    for prog_name, prog in [('plain', "(list 'got (input-file *stdin*))"),
                            ('trapped', "(eval (trap (list 'got (input-file *stdin*)) (list 'trapped (. *trapped-signal* 'kind))))"),
                            ('catch-all', "(try (list 'got (input *stdout*)) (catch-all (lambda (e) (list 'handled (. e 'kind)))))")]:
        for before in ('', '6162', '61,62', '2861646420'):
            for n_timeouts in (1, 2, 3):
                for cmd in ('INTERRUPT', 'ABORT', 'STEP-IN', None):
                    chunks = [c for c in before.split(',') if c] + ['f8'] * n_timeouts + ['630a', '640a']
                    input_cases.append((prog_name, prog, before, n_timeouts, cmd, chunks))
    for prog_name, prog, before, n_timeouts, cmd, chunks in input_cases:
        if prog_name == 'catch-all':
            prog = prog.replace('(input *stdout*)', '(input-file *stdin*)')
        sessions.append(['new prelude umbilical', 'stdin ' + ','.join(chunks)] + ([f'command {hexs(cmd)} 4000000000'] if cmd else []) +
                        ['evalstop ' + hexs(prog), 'eval ' + hexs("(list (add 1 2) (type-of foldl) (get-current-module) (input-file *stdin*))")])
    real, model = both(sessions, timeout=120)
    diffs = compare(sessions, real, model)
    failures = crash_failures(sessions, real)
    dist = {}
    for (prog_name, prog, before, n_timeouts, cmd, chunks), r in zip(input_cases, real[len(cases):]):
        res, _ = parse_eval(r[-2] if len(r) >= 2 else '')
        after, _ = parse_eval(r[-1] if r else '')
        last = res[-1] if res else None
        key = f'input-blocked/{cmd or "none"}'
        dist[key] = dist.get(key, 0) + 1
        typed = bytes.fromhex(''.join(c for c in before.split(',') if c)).decode()
        problem = None
        if cmd == 'ABORT':
            if last is None or last[0] != 'abort':
                problem = f'ABORT did not end the evaluation that was blocked waiting for input: {last}'
        elif cmd == 'INTERRUPT':
            want = {'plain': ('sig', 'interrupted'), 'trapped': ('ok', '(trapped interrupted)'), 'catch-all': ('ok', '(handled interrupted)')}[prog_name]
            if last is None or last[0] != want[0] or want[1] not in last[1]:
                problem = f'INTERRUPT did not arrive as a trappable `interrupted` signal in the evaluation blocked waiting for input: {last}'
        else:
            line = typed + 'c\n'
            shown = '(got "' + line + '")'         # the printer writes a newline inside a string as it is
            if last is None or last[0] != 'ok' or last[1] != shown:
                problem = f'without a stopping command the wait must go on and deliver the line {line!r}: {last}'
        # afterwards the interpreter is usable, has its definitions, and standard input goes on with the next line
        nxt = '"d\n"' if cmd not in ('INTERRUPT', 'ABORT') else '"c\n"'
        if problem is None and (not after or after[0][0] != 'ok' or after[0][1] != f'(3 function-type default {nxt})'):
            problem = f'after the command the interpreter is not usable / lost its definitions / lost input: {r[-1][:200] if r else r}'
        if problem:
            failures.append({'expression': prog, 'stdin_chunks': chunks, 'command_sent_while_blocked': cmd, 'problem': problem})
    for (name, prog, cmds), r in zip(cases, real):
        res, trailer = parse_eval(r[-2] if len(r) >= 2 else '')
        after, _ = parse_eval(r[-1] if r else '')
        last = res[-1] if res else None
        stopping = [c for c, _ in cmds if c in ('INTERRUPT', 'ABORT')]
        key = f'{name}/{stopping[0] if stopping else "none"}'
        dist[key] = dist.get(key, 0) + 1
        problem = None
        if not after or after[0][:2] != ('ok', '(3 function-type default)'):
            problem = f'after the command the interpreter is not usable / lost its definitions: {r[-1][:200] if r else r}'
        elif stopping and name in ('tail', 'output', 'eval-only', 'if-eval', 'load-loop'):
            want = 'abort' if stopping[0] == 'ABORT' else 'sig'
            if last is None or last[0] != want or (want == 'sig' and 'interrupted' not in last[1]):
                problem = f'{stopping[0]} did not stop the evaluation as prescribed: {last}'
        elif stopping and stopping[0] == 'ABORT' and name in ('catch-all', 'nested-eval', 'receive'):
            if last is None or last[0] != 'abort':
                problem = f'ABORT was intercepted or ignored: {last}'
        elif stopping and stopping[0] == 'INTERRUPT' and name in ('catch-all', 'nested-eval'):
            # trappable: the handler sees the interrupted signal
            if last is None or 'interrupted' not in last[1]:
                problem = f'INTERRUPT did not arrive as a trappable `interrupted` signal: {last}'
        if problem:
            failures.append({'expression': prog, 'commands': cmds, 'problem': problem})
    return {'evaluations': len(cases) + len(input_cases), 'distinct_nontrivial': len({(c[0], tuple(c[2])) for c in cases if c[0] != 'terminating'}) + len(input_cases),
            'rule': 'programs (terminating, looping in tail position, looping through a catch-all trap, looping through nested eval+trap, blocked in receive, BLOCKED WAITING FOR INPUT with nothing or half a line typed (scripted time-outs of standard input), looping with output) x commands INTERRUPT / ABORT / ignored '
                    'x delivery at evaluator loop head k (0,1,2,3,5,10,33,100,1000 and random k) through the scripted umbilical (hook H3), followed by a second evaluation; outcome, output and debugger messages compared real vs model, '
                    'and checked against the property by a Python oracle; non-trivial = a non-terminating or blocked program',
            'samples': [f'{c[0]} with {c[2]}' for c in cases[:4]], 'disagreements': diffs, 'oracle_failures': failures, 'distribution': dist}

spec('C19', correspond=c19_correspond, replay=generic_replay, modules=['C19', 'C19b'],
     search=lambda run, rng, d: c19_correspond(run, random.Random(rng.random()), 'quick')['oracle_failures'],
     trusted=['std::sync::mpsc try_recv/recv as an atomic FIFO', 'the evaluator model is tied to eval/mod.rs by differential execution', 'the correspondence check (hook H3 delivers scripted commands at loop heads)'],
     assumptions=['thread scheduling and wall-clock latency are runtime behaviour: any timing is modelled as "available from loop head k on"',
                  'a command that arrives after the evaluation ended stays queued and is seen by the next evaluation (observation, DESIGN §5/C19)'])


# ================================================================================================ C07

def max_depth():
    m = re.search(r'MAX_RECURSION_DEPTH:\s*usize\s*=\s*(\d+)', open(os.path.join(lib.REPO, 'src', 'config.rs')).read())
    return int(m.group(1)) if m else 1024

TAIL_LOOPS = {
    # name: (definitions, call with {n}, expected printed result as a function of n)
    'if-lambda': ("(defun lp (n acc) \"\" (if (= n 0) acc (lp (substract n 1) (add acc 1))))", "(lp {n} 0)", lambda n: str(n)),
    'eval': ("(defun lpe (n) \"\" (if (= n 0) 'done (eval (list 'lpe (substract n 1)))))", "(lpe {n})", lambda n: 'done'),
    'mutual': ("(defun ev? (n) \"\" (if (= n 0) t (od? (substract n 1))))\n(defun od? (n) \"\" (if (= n 0) nil (ev? (substract n 1))))", "(ev? {n})", lambda n: 't' if n % 2 == 0 else '()'),
    'when-block': ("(defun lpb (n) \"\" (when (> n 0) (block 1 (lpb (substract n 1)))))", "(lpb {n})", lambda n: '()'),
    'length-range': ("", "(length (range {n}))", lambda n: str(n)),
    'foldl': ("", "(foldl add 0 (range {n}))", lambda n: str(n * (n - 1) // 2)),
    'reverse-map': ("", "(car (reverse (map (lambda (x) (add x 1)) (range {n}))))", lambda n: str(n) if n > 0 else '()'),
    'zip': ("", "(length (zip (range {n}) (range {n})))", lambda n: str(n)),
    # tail calls that cross a module boundary at every step: a driver in a loaded module calls back a function of `default`
    'cross-module': ("(load-all \"(defun pong (n k) \\\"\\\" (if (= n 0) 'done (k (substract n 1) pong)))\" \"mp\")\n(defun ping (n k) \"\" (if (= n 0) 'done (k (substract n 1) ping)))",
                     "(ping {n} pong)", lambda n: 'done'),
    # a macro whose result is a call of itself: re-expansion is the fix-point loop of macroexpand, constant depth for every n
    'macro-re-expansion': ("(defmacro count-down (n) \"\" (if (= n 0) (list 'quote 'done) (list 'count-down (substract n 1))))", "(eval '(count-down {n}))", lambda n: 'done'),
}

DEEP_PATHS = {
    # non-tail recursion through each recursive path; each is wrapped in a trap that proves the signal is trappable
    'operand': ("(defun deep (n) \"\" (if (= n 0) 0 (add 1 (deep (substract n 1)))))", "(deep {n})"),
    'cons-evaluation': ("(defun deepc (n) \"\" (if (= n 0) 0 (car (list (deepc (substract n 1))))))", "(deepc {n})"),
    'macro-expansion': ("", None),          # built below: nested (when t (when t …))
    'trap-bodies': ("(defun deept (n) \"\" (if (= n 0) 0 (eval (trap (add 1 (deept (substract n 1))) (signal *trapped-signal*)))))", "(deept {n})"),
    'nested-eval': ("(defun deepe (n) \"\" (if (= n 0) 0 (add 1 (eval (list 'deepe (substract n 1))))))", "(deepe {n})"),
    # the cycle goes through load-all (a module that loads itself, two modules that load each other): the depth is handed on
    'load-all': ("(defun deepl (n) \"\" (if (= n 0) 0 (add 1 (block (load-all (print (list 'deepl (substract n 1))) \"deeplm\") 0))))", "(deepl {n})"),
    'load-all-symbol-source': ("(defun deeps (n) \"\" (if (= n 0) 0 (add 1 (block (load-all (print (list 'deeps (substract n 1))) 'stdin) 0))))", "(deeps {n})"),
    'printing': ("", "(print (foldl (lambda (acc x) (list acc)) 1 (range {n})))"),
    'foldr': ("", "(foldr add 0 (range {n}))"),
}

def deep_program(path, n):
    defs, call = DEEP_PATHS[path]
    if path == 'macro-expansion':
        # quoted, so that the expansion happens inside the trap and not while the whole top-level form is expanded
        call = "(eval (quote " + '(when t ' * n + '1' + ')' * n + "))"
    else:
        call = call.format(n=n)
    return (defs + '\n' if defs else '') + f"(eval (trap {call} (list 'caught (. *trapped-signal* 'kind) (. *trapped-signal* 'source))))"

def run_plain_expression(expr, timeout=180, stack_kb=8192):
    """the plain (dev profile) binary as a user runs it, main-thread stack as configured by the system (8 MiB)"""
    import subprocess, resource
    def lim():
        resource.setrlimit(resource.RLIMIT_STACK, (stack_kb * 1024, stack_kb * 1024))
    try:
        p = subprocess.run([lib.PLAIN_BIN, '--expression', expr], capture_output=True, timeout=timeout, preexec_fn=lim)
        return p.returncode, p.stdout.decode('utf-8', 'replace'), p.stderr.decode('utf-8', 'replace')
    except subprocess.TimeoutExpired:
        return 'timeout', '', ''

def c07_correspond(run, rng, tier):
    md = max_depth()
    failures, dist = [], {}
    # (i) in-process, model vs real: tail loops far beyond the limit, and the exact threshold of non-tail recursion
    progs, meta = [], []
    Ns = [10, md - 1, md + 1, 2 * md + 3, 20000] + ([100000] if tier == 'quick' else [100000, 1000000])
    for name, (defs, call, exp) in TAIL_LOOPS.items():
        for n in Ns:
            if name in ('reverse-map', 'zip', 'length-range', 'foldl') and n > 100000:
                continue
            progs.append((defs + '\n' if defs else '') + call.format(n=n))
            meta.append(('tail', name, n, exp(n)))
    for path in DEEP_PATHS:
        for n in [md // 4, md // 2 - 3, md // 2 + 3, md - 40, md - 8, md - 4, md - 2, md - 1, md, md + 1, md + 2, md + 40, 3 * md]:
            if path == 'printing' and n > 3 * md:
                continue
            progs.append(deep_program(path, n))
            meta.append(('deep', path, n, None))
    sessions = eval_sessions(progs)
    real = run_sessions(real_cmd(64 * 1024 * 1024), sessions, 900, 12)
    model = run_sessions(model_cmd(), sessions, 900, 12, big_stack=True)
    diffs = compare(sessions, real, model)
    failures += crash_failures(sessions, real)
    thresholds = {}
    for (kind, name, n, exp), r, p in zip(meta, real, progs):
        res, _ = parse_eval(r[1] if len(r) > 1 else '')
        last = res[-1] if res else None
        if kind == 'tail':
            dist['tail-loops'] = dist.get('tail-loops', 0) + 1
            if last is None or last[0] != 'ok' or last[1] != exp:
                failures.append({'expression': p, 'expected': exp, 'real': str(last)[:200], 'problem': f'tail-recursive loop of {n} iterations did not run in constant depth'})
        else:
            dist['deep-recursions'] = dist.get('deep-recursions', 0) + 1
            signalled = last is not None and last[0] == 'ok' and last[1].startswith('(caught stackoverflow')
            finished = last is not None and last[0] == 'ok' and not last[1].startswith('(caught')
            if not (signalled or finished):
                failures.append({'expression': p[:300], 'real': str(last)[:200], 'problem': f'recursion of depth {n} through {name} neither finished nor raised a trappable stackoverflow'})
            if n >= 3 * md and not signalled:
                failures.append({'expression': p[:300], 'real': str(last)[:200], 'problem': f'recursion of depth {n} (3x the limit) through {name} was not stopped by the depth limit'})
            if signalled:
                thresholds[name] = min(thresholds.get(name, 10 ** 9), n)
    dist['first-signalling-depth'] = thresholds
    # (ii) the native stack, which no model exhibits: the plain dev-profile binary, default 8 MiB main-thread stack
    ladder = []
    for path in DEEP_PATHS:
        for n in ([md + 200] if tier == 'quick' else [md - 1, md + 1, md + 200, 10 * md]):
            ladder.append((path, n))
    # constant-depth loops must not consume native stack either: the longest tail loops on the dev-profile binary
    for name in ('if-lambda', 'eval', 'macro-re-expansion'):
        ladder.append(('tail:' + name, 40000 if tier == 'quick' else 400000))
    from concurrent.futures import ThreadPoolExecutor
    def one(pn):
        path, n = pn
        if path.startswith('tail:'):
            defs, call, exp = TAIL_LOOPS[path[5:]]
            prog = '(block ' + defs.replace('\n', ' ') + ' ' + f"(eval (trap {call.format(n=n)} (list 'caught (. *trapped-signal* 'kind))))" + ')'
            return pn, prog, run_plain_expression(prog)
        prog = deep_program(path, n).replace('\n', ' ')
        return pn, prog, run_plain_expression('(block ' + prog + ')' if DEEP_PATHS[path][0] else prog)
    with ThreadPoolExecutor(max_workers=8) as ex:
        for (path, n), prog, (rc, out, err) in ex.map(one, ladder):
            dist['process-runs'] = dist.get('process-runs', 0) + 1
            if path.startswith('tail:') and rc == 0 and 'caught' in out:
                failures.append({'expression': prog[:400], 'exit': rc, 'stdout': out[-200:], 'problem': f'a constant-depth loop of {n} rounds through {path[5:]} raised a signal on the dev-profile binary'})
            if rc != 0 or 'overflow' in err.lower() and 'stackoverflow' not in out:
                failures.append({'expression': prog[:400], 'exit': rc, 'stderr': err[-200:], 'stdout': out[-200:],
                                 'problem': f'the dev-profile binary did not survive recursion depth {n} through {path} on its configured stack (native stack overflow or crash)',
                                 'replay_cmd': f"{lib.PLAIN_BIN} --expression '<expression>'"})
    return {'evaluations': len(progs) + len(ladder), 'distinct_nontrivial': len(progs),
            'rule': f'tail-recursive loops through if/lambda, eval, mutual recursion, when/block and the prelude\'s accumulating functions for N in {Ns} (limit {md}); non-tail recursion through operands, cons evaluation, '
                    'macro expansion, trap bodies, nested eval, printing and foldr at depths around and beyond the limit (the first signalling depth must agree between model and real code); '
                    'plus the dev-profile binary as a process on the default 8 MiB stack for the deepest witnesses of every path',
            'samples': [progs[0], progs[len(TAIL_LOOPS) * len(Ns)][:200]], 'disagreements': diffs, 'oracle_failures': failures, 'distribution': dist}

spec('C07', correspond=c07_correspond, replay=generic_replay, modules=['C07'], plain=True,
     search=lambda run, rng, d: c07_correspond(run, random.Random(rng.random()), 'quick')['oracle_failures'],
     trusted=['the evaluator model is tied to eval/mod.rs by differential execution', 'the correspondence check'],
     assumptions=['bytes of native stack per recursion level are outside the model: measured on the dev-profile binary with the stack the application configures (partial)',
                  'the release profile uses smaller frames than the dev profile (measured in the thorough tier only)'])


# ================================================================================================ C15

def c15_history(rng):
    """a sequence of define / undefine / redefine / export / lookup / load operations as program text"""
    names = ['v1', 'v2', 'v3']
    forms = []
    depth_texts = []
    def load_text(depth):
        inner = []
        for _ in range(rng.randint(1, 4)):
            k = rng.random()
            n = rng.choice(names)
            if k < 0.3: inner.append(f"(define '{n} {rng.randint(0, 99)} (list))")
            elif k < 0.4: inner.append(f"(undefine '{n})")
            elif k < 0.5: inner.append(f"(export '({n}))")
            elif k < 0.6: inner.append("(get-current-module)")
            elif k < 0.7 and depth < 3:
                t = load_text(depth + 1).replace('\\', '\\\\').replace('"', '\\"')
                # the second argument names the source: a string makes (and enters) a module of that name, a symbol such as
                # stdin evaluates the text in the module that is current
                inner.append(f'(load-all "{t}" "{rng.choice([f"inner{depth}", f"inner{depth}", "ma", "mb"])}")' if rng.random() < 0.7 else f"(load-all \"{t}\" 'stdin)")
                inner.append("(output (print (get-current-module)))")
            else: inner.append(f"(add 1 {rng.randint(0, 5)})")
        # a failure at a chosen form, by a chosen cause — or none
        cause = rng.choice([None, None, 'unbound', 'signal', 'abort', 'arity', 'read-error', 'incomplete', 'type'])
        bad = {'unbound': '(undefined-thing 1)', 'signal': "(signal 'stop)", 'abort': '(abort)', 'arity': '(car)', 'read-error': ')', 'incomplete': '(add 1', 'type': "(add 'a 1)"}
        if cause:
            inner.insert(rng.randint(0, len(inner)), bad[cause])
        return ' '.join(inner)
    for _ in range(rng.randint(4, 14)):
        k = rng.random()
        n = rng.choice(names)
        if k < 0.25: forms.append(f"(define '{n} {rng.randint(0, 99)} \"\")")
        elif k < 0.37: forms.append(f"(undefine '{n})")
        elif k < 0.47: forms.append(f"(eval (trap {n} 'unbound))")
        elif k < 0.55: forms.append(f"(whereis '{n})")
        elif k < 0.62: forms.append("(get-current-module)")
        else:
            t = load_text(1).replace('\\', '\\\\').replace('"', '\\"')
            mod = rng.choice(['ma', 'mb', 'ma'])
            forms.append(f'(eval (trap (load-all "{t}" "{mod}") (list \'load-stopped (get-current-module))))')
        forms.append("(get-current-module)")
    return '\n'.join(forms)

def c15_module_sequence(rng):
    """define / undefine / export / lookup sequences inside a loaded module (fresh module, with or without an export list),
    with nested loads: a string source makes and enters a fresh module and comes back, a symbol source (stdin) evaluates the
    text in the module that is current; every operation prints its outcome; returns (program, expected output)"""
    names = ['p', 'q', 'r']
    counter = [0]
    def esc(t):
        return t.replace('\\', '\\\\').replace('"', '\\"')
    def body(module, defined, depth):
        forms, lines = [], []
        for _ in range(rng.randint(3, 10) if depth == 0 else rng.randint(1, 4)):
            k = rng.random()
            n = rng.choice(names)
            if k < 0.15:
                forms.append(f"(export (quote ({' '.join(rng.sample(names, rng.randint(1, 2)))})))")
            elif k < 0.55:
                v = rng.randint(0, 99)
                forms.append(f"(output (print (eval (trap (define (quote {n}) {v} (list)) (. *trapped-signal* (quote kind))))))")
                if n in defined:
                    lines.append('already-defined')
                else:
                    defined[n] = v
                    lines.append('ok')
            elif k < 0.68:
                forms.append(f"(output (print (undefine (quote {n}))))")
                defined.pop(n, None)
                lines.append('ok')
            elif k < 0.8 or depth >= 2:
                forms.append(f"(output (print (get-current-module)))")
                lines.append(module)
            elif k < 0.9:
                # a symbol source: the same module goes on
                f2, l2 = body(module, defined, depth + 1)
                forms.append(f"(load-all \"{esc(' '.join(f2))}\" (quote stdin))")
                lines += l2
                forms.append("(output (print (get-current-module)))")
                lines.append(module)
            elif k < 0.95:
                # a string source: a fresh module, then back
                counter[0] += 1
                sub = f'sub{counter[0]}'
                f2, l2 = body(sub, {}, depth + 1)
                forms.append(f"(load-all \"{esc(' '.join(f2))}\" \"{sub}\")")
                lines += l2
                forms.append("(output (print (get-current-module)))")
                lines.append(module)
            else:
                # a string source that is the name of the module that is current: the load makes and enters a FRESH module of
                # that name (define_module replaces), and "the module that was current before" is found again by name, so
                # what is current afterwards is the new module with the definitions the load made
                fresh = {}
                f2, l2 = body(module, fresh, depth + 1)
                forms.append(f"(load-all \"{esc(' '.join(f2))}\" \"{module}\")")
                lines += l2
                defined.clear()
                defined.update(fresh)
                forms.append("(output (print (get-current-module)))")
                lines.append(module)
        return forms, lines
    m = f'm{rng.randint(0, 2)}'
    forms, lines = body(m, {}, 0)
    return f'(load-all "{esc(" ".join(forms))}" "{m}")\n(get-current-module)', ''.join(l + '\n' for l in lines)

def c15_viewer_history(rng):
    """globals of `default` defined, undefined and defined again, looked up in between from `default` itself AND from
    functions of another module (which see them as long as they exist); returns (program, expected results per form)"""
    names = ['v1', 'v2', 'v3']
    viewer = ' '.join(f'(defun see-{n} () \\"\\" (eval (trap {n} (quote unbound))))' for n in names)
    forms = [f'(load-all "{viewer}" "viewer")']
    expected = [('ok', 'ok')]
    table = {}
    for _ in range(rng.randint(6, 16)):
        n = rng.choice(names)
        k = rng.random()
        if k < 0.3:
            v = rng.choice([rng.randint(0, 99), rng.randint(0, 99), '()', '()'])        # a global bound to the empty list IS defined
            forms.append(f"(define '{n} {v if v != '()' else rng.choice(['()', 'nil', '(list)'])} \"\")")
            if n in table:
                expected.append(('sig', 'already-defined'))
            else:
                table[n] = v
                expected.append(('ok', 'ok'))
        elif k < 0.5:
            forms.append(f"(undefine '{n})")
            table.pop(n, None)
            expected.append(('ok', 'ok'))
        elif k < 0.8:
            forms.append(f'(see-{n})')
            expected.append(('ok', str(table[n]) if n in table else 'unbound'))
        else:
            forms.append(f"(eval (trap {n} 'unbound))")
            expected.append(('ok', str(table[n]) if n in table else 'unbound'))
    return '\n'.join(forms), expected

def c15_reload_history(rng):
    """modules loaded again under the same name (the new module REPLACES the old one: the old definitions are gone), globals of
    those modules looked up from `default` before and after, with allocation in between so that reclaimed cells are reused;
    returns (program, expected results per form)"""
    names = ['w1', 'w2', 'w3']
    mods = {}                     # module name -> dict of its definitions (no export lists: everything is public)
    forms, expected = [], []
    def lookup(n):
        owners = [m for m, d in mods.items() if n in d]
        if len(owners) == 1: return ('ok', str(mods[owners[0]][n]))
        if not owners: return ('ok', 'unbound')
        return ('ok', 'ambiguous')
    for _ in range(rng.randint(6, 14)):
        k = rng.random()
        if k < 0.4:
            m = rng.choice(['rm1', 'rm2'])
            defs = {n: rng.randint(0, 99) for n in rng.sample(names, rng.randint(0, 2))}
            text = ' '.join(f"(define (quote {n}) (list {v} {v}) (list))" for n, v in defs.items())
            forms.append(f'(load-all "{text}" "{m}")')
            mods[m] = {n: f'({v} {v})' for n, v in defs.items()}
            expected.append(('ok', 'ok'))
        elif k < 0.55:
            forms.append(f'(length (map (lambda (x) (list x x)) (range {rng.choice([10, 40, 120])})))')
            expected.append(None)
        else:
            n = rng.choice(names)
            forms.append(f"(eval (trap {n} (if (= (. *trapped-signal* 'kind) 'ambiguous-name) 'ambiguous 'unbound)))")
            expected.append(lookup(n))
    return '\n'.join(forms), expected

def reload_failures(rseq, reals, schedules):
    out = []
    for (p, expected), r, sched in zip(rseq, reals, schedules):
        res, _ = parse_eval(r[-1] if r else '')
        got = [(k, pr) for (k, pr, _) in (res or [])]
        # (an ambiguous name typed at top level is already reported by the macro expansion of the form, before the trap exists)
        got = [('ok', 'ambiguous') if k == 'sig' and 'ambiguous-name' in pr and 'conflicting-modules (rm1 rm2)' in pr else (k, pr) for (k, pr) in got]
        bad = next((i for i, e in enumerate(expected) if e is not None and (i >= len(got) or got[i] != e)), None)
        if bad is not None or len(got) != len(expected):
            i = bad if bad is not None else min(len(got), len(expected))
            out.append({'expression': p, 'schedule': sched, 'form_index': i,
                        'form': p.split('\n')[i] if i < len(p.split('\n')) else None, 'expected': list(expected[i]) if i < len(expected) and expected[i] else None,
                        'real': list(got[i]) if i < len(got) else None,
                        'problem': 'after a module was loaded again under the same name a global of the replaced module is still found / shows a foreign value (a reference to reclaimed storage), or a global of the new one is not found'})
    return out

def c15_correspond(run, rng, tier):
    n = 600 if tier == 'quick' else 10000
    progs = [c15_history(rng) for _ in range(n)]
    mseq = [c15_module_sequence(rng) for _ in range(n // 2)]
    mprogs = [p for p, _ in mseq]
    vseq = [c15_viewer_history(rng) for _ in range(n // 3)]
    rseq = [c15_reload_history(rng) for _ in range(n // 3)]
    sessions = eval_sessions(progs + mprogs + [p for p, _ in vseq])
    # the reload histories also run with a collection at every 40th allocation and poisoned cells: a stale reference shows at once
    sessions += [['new prelude', 'sched every:40', 'poison 1', 'eval ' + hexs(p)] for p, _ in rseq] + eval_sessions([p for p, _ in rseq])
    real, model = both(sessions)
    diffs = compare(sessions, real, model)
    failures = crash_failures(sessions, real)
    dist = {'loads': 0, 'loads-stopped': 0, 'define-existing': 0, 'aborted-forms': 0, 'module-sequences': len(mseq), 'viewer-histories': len(vseq), 'reload-histories': 2 * len(rseq)}
    for (p, expected_out), r in zip(mseq, real[len(progs):]):
        res, tr = parse_eval(r[1] if len(r) > 1 else '')
        out = (tr or {}).get('out')
        if out != expected_out or not res or len(res) != 2 or res[1][:2] != ('ok', 'default'):
            failures.append({'expression': p, 'expected_output': expected_out, 'real_output': out, 'real': str(res)[:200],
                             'problem': 'define / undefine inside a loaded module: define overwrote, failed to signal, or undefine did not remove exactly that name'})
    base = len(progs) + len(mprogs) + len(vseq)
    failures += reload_failures(rseq + rseq, real[base:base + 2 * len(rseq)],
                                ['a collection at every 40th allocation, freed cells poisoned'] * len(rseq) + ['natural'] * len(rseq))
    for (p, expected), r in zip(vseq, real[len(progs) + len(mprogs):]):
        res, _ = parse_eval(r[1] if len(r) > 1 else '')
        got = [(k, pr if k == 'ok' else ('already-defined' if 'already-defined' in pr else pr)) for (k, pr, _) in (res or [])]
        if got != expected:
            i = next((j for j in range(min(len(got), len(expected))) if got[j] != expected[j]), min(len(got), len(expected)))
            failures.append({'expression': p, 'form_index': i, 'form': p.split('\n')[i] if i < len(p.split('\n')) else None,
                             'expected': list(expected[i]) if i < len(expected) else None, 'real': list(got[i]) if i < len(got) else None,
                             'problem': 'a global of `default` looked up from `default` or from a function of another module does not follow define / undefine'})
    for p, r in zip(progs, real):
        res, trailer = parse_eval(r[1] if len(r) > 1 else '')
        forms = p.split('\n')
        if res is None or len(res) != len(forms):
            failures.append({'expression': p, 'problem': 'driver did not answer every form', 'real': (r[1] if len(r) > 1 else str(r))[:300]})
            continue
        defined = {}
        for f, (kind, printed, _) in zip(forms, res):
            # Python model of the default module's table (dict) + the rule that the current module is always `default` at top level
            m = re.match(r"\(define '(\w+) (\d+) \"\"\)", f)
            if f == '(get-current-module)' and (kind, printed) != ('ok', 'default'):
                failures.append({'expression': p, 'problem': f'the current module at top level is {printed!r}, not the one that was current before the load', 'form': f})
                break
            if 'load-all' in f:
                dist['loads'] += 1
                if kind == 'ok' and printed.startswith('(load-stopped'):
                    dist['loads-stopped'] += 1
                    if printed != '(load-stopped default)':
                        failures.append({'expression': p, 'problem': f'after a load stopped by a signal the current module is {printed}', 'form': f})
                        break
                if kind == 'abort': dist['aborted-forms'] += 1
            elif m:
                name, val = m.group(1), m.group(2)
                if name in defined:
                    dist['define-existing'] += 1
                    if kind != 'sig' or 'already-defined' not in printed:
                        failures.append({'expression': p, 'problem': f'define of the existing name {name} did not signal: {kind} {printed}', 'form': f})
                        break
                else:
                    if (kind, printed) != ('ok', 'ok'):
                        failures.append({'expression': p, 'problem': f'define of the fresh name {name} failed: {kind} {printed}', 'form': f})
                        break
                    defined[name] = val
            elif f.startswith('(undefine'):
                defined.pop(f[11:-1], None)
            elif f.startswith('(eval (trap v'):
                name = f[12:14]
                # globals defined in loaded modules without exports are visible too (and may be ambiguous): only the default-only case is decided here
                if name in defined and printed not in (defined[name], 'unbound') and kind == 'ok' and not any('load-all' in g for g in forms):
                    failures.append({'expression': p, 'problem': f'{name} evaluates to {printed}, its definition says {defined[name]}', 'form': f})
                    break
    return {'evaluations': n, 'distinct_nontrivial': len(set(progs)),
            'rule': 'histories of 4-14 operations over define / undefine / re-define / export / lookup / whereis / get-current-module / load-all, where the loaded texts are generated with nested loads (depth <= 3) '
                    'and fail at a chosen form by a chosen cause (unbound symbol, signal, abort, arity error, type error, read error, incomplete input) or succeed; after every operation the current module is read back; '
                    'real vs model vs a Python table oracle',
            'samples': progs[:2], 'disagreements': diffs, 'oracle_failures': failures, 'distribution': dist}

spec('C15', correspond=c15_correspond, replay=generic_replay, modules=['C15', 'C15b'],
     search=lambda run, rng, d: c15_correspond(run, random.Random(rng.random()), 'quick')['oracle_failures'],
     trusted=['the evaluator model is tied to eval/mod.rs and globals/mod.rs by differential execution', 'HashMap as a finite map', 'the correspondence check'],
     assumptions=['define_module replaces an existing module of the same name (observation: loading the same source name twice drops the first load\'s definitions)'])


# ================================================================================================ C11

from gen import reader_ref

READ_ALPHABET = ['(', ')', "'", '"', '%', '\\', ';', ',', ' ', '\n', 'a', '1', '+', '-']

def c11_strings(rng, tier):
    L = 4 if tier == 'quick' else 5
    out = ['']
    for n in range(1, L + 1):
        out += [''.join(t) for t in itertools.product(READ_ALPHABET, repeat=n)]
    exhaustive = len(out)
    # token-level generator: valid forms, then mutated by insert / delete / duplicate of one character
    def form(d):
        k = rng.random()
        if d > 3 or k < 0.5:
            return rng.choice(['a', 'foo', '12', '-7', '+', '%a', '%\\n', '%(', '"s"', '"a\\"b"', '"x\\\\y"', 'λ', '%λ', '9223372036854775807', '-9223372036854775808', '()', '"a\nb"', 'a-b', '+x'])
        if k < 0.65:
            return "'" + form(d + 1)
        return '(' + rng.choice([' ', '', '\n', ' ; c\n', ', ']).join(form(d + 1) for _ in range(rng.randint(0, 4))) + ')'
    for _ in range(5000 if tier == 'quick' else 100000):
        s = ' '.join(form(0) for _ in range(rng.randint(1, 3)))
        if rng.random() < 0.5 and s:
            i = rng.randrange(len(s))
            k = rng.random()
            if k < 0.34: s = s[:i] + rng.choice(READ_ALPHABET + [' ', ' ', '\t']) + s[i:]
            elif k < 0.67: s = s[:i] + s[i + 1:]
            else: s = s[:i] + s[i] + s[i:]
        out.append(s)
    # the classification of every "special" scalar value — separators, format characters (U+FEFF, U+200B …), controls,
    # combining marks, the neighbours of the White_Space set — in every position of a token: alone, inside, before and after an
    # atom, inside a list, in a number, after %.  (The White_Space table itself is compared for ALL scalar values separately.)
    import unicodedata
    special = [c for c in map(chr, range(0x110000)) if not (0xD800 <= ord(c) <= 0xDFFF) and unicodedata.category(c) in ('Cf', 'Zs', 'Zl', 'Zp', 'Cc')]
    special += [chr(x) for x in (0x84, 0x86, 0x9F, 0xA1, 0x167F, 0x1681, 0x1FFF, 0x200B, 0x200C, 0x2027, 0x202A, 0x202E, 0x205E, 0x2060, 0x2FFF, 0x3001, 0xFEFF, 0xFFFD, 0x10FFFF, 0x300, 0x301)]
    if tier == 'quick':
        keep = set(special[:0]) | {chr(x) for x in (0xFEFF, 0x200B, 0x2060, 0x85, 0xA0, 0x1680, 0x180E, 0x2028, 0x2029, 0x202F, 0x205F, 0x3000, 0xAD, 0x61C, 0x0, 0x7F, 0x1B)}
        special = sorted(keep | set(rng.sample(special, 60)))
    for c in sorted(set(special)):
        out += [c, 'a' + c + 'b', ' ' + c + 'x', '(abc' + c + ')', 'p' + c + ' q', '12' + c + 'x', '%' + c, '"' + c + '"', '(' + c + ')', c + '\n' + c + ' y']
    return out, exhaustive

def c11_check_one(text, line, col, resp):
    """compare one real `read` response (dump of the result plist) with the reference reader; returns a problem or None"""
    ref = reader_ref.read_ref(text, line, col)
    if not resp.startswith('ok:'):
        return f'read raised a signal or died: {resp[:200]}', ref
    try:
        pl = reader_ref.parse_dump(resp[3:])
        items = reader_ref.to_list(pl)
        d = {items[i][1]: items[i + 1] for i in range(0, len(items) - 1, 2)}
    except Exception as e:
        return f'unparseable answer {resp[:200]} ({e})', ref
    status = d.get('status', ('?', '?'))[1]
    if status != ref['status']:
        return f'status {status}, the grammar says {ref["status"]}', ref
    if status == 'ok':
        if not reader_ref.same_datum(ref['datum'], d['result']):
            return f'datum or atom positions differ from the grammar\'s: {resp[:300]}', ref
        rest = reader_ref.to_list(d['rest'])
        rest_text = ''.join(x[1] for x in rest) if rest is not None else None
        if rest_text != text[ref['rest']:]:
            return f'rest is {rest_text!r}, expected {text[ref["rest"]:]!r} (the remaining text unchanged)', ref
        if (d['line'][1], d['column'][1]) != (ref['line'], ref['col']):
            return f'rest position {(d["line"][1], d["column"][1])}, expected {(ref["line"], ref["col"])}', ref
    if status == 'error':
        try:
            e = {x[1]: y for x, y in zip(reader_ref.to_list(d['error'])[0::2], reader_ref.to_list(d['error'])[1::2])}
            l = {x[1]: y for x, y in zip(reader_ref.to_list(e['location'])[0::2], reader_ref.to_list(e['location'])[1::2])}
            if (l['line'][1], l['column'][1]) != ref['pos']:
                return f'error position {(l["line"][1], l["column"][1])}, expected {ref["pos"]}', ref
        except Exception as ex:
            return f'malformed error result ({ex})', ref
    return None, ref

def c11_correspond(run, rng, tier):
    strings, exhaustive = c11_strings(rng, tier)
    starts = [(1, 1)] * len(strings)
    for i in range(exhaustive, len(strings)):
        if rng.random() < 0.3:
            starts[i] = (rng.randint(1, 50), rng.randint(1, 80))
    per = 4000
    sessions = []
    for i in range(0, len(strings), per):
        sessions.append(['new empty'] + [f'read {hexs(s)} stdin {l} {c}' for s, (l, c) in zip(strings[i:i + per], starts[i:i + per])])
    # successive reads of multi-form texts, every form: the REPL/load-all way (rest, line, column fed back) is `eval` of the text,
    # whose metadata positions must be the positions in the whole text
    real, model = both(sessions)
    diffs = compare(sessions, real, model)
    failures, findings_seen = [], set()
    dist = {'ok': 0, 'nothing': 0, 'incomplete': 0, 'error': 0}
    k = 0
    for sess, r in zip(sessions, real):
        for req, resp in zip(sess[1:], r[1:]):
            text = strings[k]
            l, c = starts[k]
            k += 1
            problem, ref = c11_check_one(text, l, c, resp)
            dist[ref['status']] += 1
            if problem:
                f = {'text': text, 'start': [l, c], 'problem': problem, 'expression': f'(read "{text}" \'stdin {l} {c})  ; text given raw, not escaped'}
                if ref.get('quirk'):
                    f['finding'] = 'F5-reader-quote-flag'
                    findings_seen.add('F5-reader-quote-flag')
                elif problem.startswith('error position') and ref.get('msg', '').startswith("'\n' is not a valid escape"):
                    f['finding'] = 'F25-error-position-of-newline'
                    findings_seen.add('F25-error-position-of-newline')
                failures.append(f)
    # whitespace table of the model against char::is_whitespace, for every scalar value
    ws_real, _ = lib.run_driver(real_cmd(), ['whitespace'], 120)
    ws_model, _ = lib.run_driver(model_cmd(), ['whitespace'], 120, True)
    if ws_real != ws_model:
        diffs.append({'session': 'whitespace-table', 'request': 'whitespace', 'real': str(ws_real)[:300], 'model': str(ws_model)[:300]})
    if ws_real and sorted(int(x) for x in ws_real[0].split(',')) != sorted(ord(x) for x in reader_ref.WS):
        failures.append({'text': 'whitespace table', 'problem': 'char::is_whitespace differs from the White_Space table of the grammar'})
    return {'evaluations': len(strings), 'distinct_nontrivial': len(set(strings)) - dist['nothing'],
            'rule': f'every string of length <= {4 if tier == "quick" else 5} over the alphabet ( ) \' " % \\ ; , space newline a 1 + - ({exhaustive} strings, exhaustive) plus token-level generated texts mutated by one inserted / deleted / duplicated '
                    'character with random start line/column; status, datum with per-atom positions, rest, rest line/column and error position of the real reader compared with the model and with a reference reader '
                    '(regex tokenizer + recursive descent, Python); the White_Space table compared for all scalar values; non-trivial = not blank',
            'samples': [repr(strings[i]) for i in (exhaustive - 3, exhaustive + 1, exhaustive + 2, exhaustive + 3)],
            'disagreements': diffs, 'oracle_failures': failures, 'distribution': dist, 'findings_seen': findings_seen, 'exhaustive': False}

def c11_replay(run, content):
    fs = [f for f in content.get('failures', []) if 'text' in f and 'start' in f]
    sessions = [['new empty'] + [f'read {hexs(f["text"])} stdin {f["start"][0]} {f["start"][1]}' for f in fs]]
    real, model = both(sessions)
    out = []
    for f, r in zip(fs, real[0][1:]):
        p, ref = c11_check_one(f['text'], f['start'][0], f['start'][1], r)
        print(repr(f['text']), '=>', r[:200], '| reference:', ref.get('status'), '|', p)
        if p: out.append({'text': f['text'], 'start': f['start'], 'problem': p, **({'finding': 'F5-reader-quote-flag'} if ref.get('quirk') else
                                                                                    {'finding': 'F25-error-position-of-newline'} if p.startswith('error position') and ref.get('msg', '').startswith("'\n' is not") else {})})
    return {'evaluations': len(fs), 'distinct_nontrivial': max(2, len(fs)), 'samples': [f['text'] for f in fs[:3]] or ['none'], 'disagreements': compare(sessions, real, model), 'oracle_failures': out, 'rule': 'replay'}

spec('C11', correspond=c11_correspond, replay=c11_replay, modules=['C11', 'C11b', 'C11c'],
     search=lambda run, rng, d: c11_correspond(run, random.Random(rng.random()), 'quick')['oracle_failures'],
     trusted=['char::is_whitespace = the Unicode White_Space table (compared for every scalar value on every run)', 'the reference reader (Python) as the statement of the grammar', 'the correspondence check'],
     assumptions=['a character literal is % followed by exactly one code point or one of the five escapes (after the fix that removed the grapheme counter)',
                  'known finding F5: a quote directly followed by a quote or by a closing parenthesis'])


# ================================================================================================ C09

def c09_forms(rng, n):
    forms = []
    inline = ["((macro (op a b) (list op a b)) and 1 2)", "((macro (op a b) (list op a b)) when nil (signal 'operand-was-evaluated))", "(eval (list when 1 2))", "(eval (list or nil 3))",
              "((lambda (x) ((macro (op a) (list op a 7)) when x)) 1)", "(list ((macro (op) (list op 1)) not) 2)",
              "(((macro () 'when)) t 5)", "(((macro () 'when)) nil (signal 'operand-was-evaluated))", "(((macro (p) (if (= p 'yes) 'and 'or)) yes) nil 7)", "(((macro (p) (if (= p 'yes) 'and 'or)) no) nil 7)",
              "(list (((macro () 'not)) nil) 1)", "((lambda (x) (((macro () 'when)) x 'yes)) 1)", "((macro (x) (list 'quote x)) (try 1))",
              "((macro (a b) (list 'add a b)) 1 2)", "((macro (& xs) (cons 'list xs)) 1 2 3)", "((lambda (x) (when x 1)) 1)", "((lambda (x) (when x (or nil x))) 7)",
              "'(when t 1)", "(list '(and 1 2) (and 1 2))", "(quote (let (x 1) x))", "((if t (lambda (q) (not q)) car) nil)", "(let (f (lambda (v) (case ((= v 1) 'one) ((= v 2) 'two) (t 'many)))) (list (f 1) (f 2) (f 3)))",
              "((macro (x) (list 'quote x)) (when t 1))", "(block (output \"a\") (when t (block (output \"b\") 2)))", "(try (throw 'kind 'k1 'source 's) (catch k1 (lambda (e) (and e 1))))",
              "(apply list '(1 2 3))", "(let (a 1 b 2) (and (< a b) (or nil (not nil))))", "(map (lambda (x) (when (> x 1) (block x))) '(1 2 3))", "(list when)", "((lambda (when) when) 5)",
              "(((macro (x) (list 'lambda '(y) x)) (add y 1)) 5)"]
    forms += inline
    for _ in range(n):
        g = Gen(rng, ALL - {'globals'}, fault_rate=0.08, max_depth=rng.choice([3, 4, 5]))
        ty = rng.choice(['int', 'int', 'list', 'bool', 'any'])
        forms.append(g.expr(ty, [], 0))
    return forms

# macro calls whose value is known outright: a macro object or a macro name arriving in operator position through a macro result
C09_EXPECTED = {
    "((macro (op a b) (list op a b)) and 1 2)": '2',
    "((macro (op a b) (list op a b)) when nil (signal 'operand-was-evaluated))": '()',
    "(eval (list when 1 2))": '2',
    "(eval (list or nil 3))": '3',
    "((lambda (x) ((macro (op a) (list op a 7)) when x)) 1)": '7',
    "(list ((macro (op) (list op 1)) not) 2)": '(() 2)',
    "(((macro () 'when)) t 5)": '5',
    "(((macro () 'when)) nil (signal 'operand-was-evaluated))": '()',
    "(((macro (p) (if (= p 'yes) 'and 'or)) yes) nil 7)": '()',
    "(((macro (p) (if (= p 'yes) 'and 'or)) no) nil 7)": '7',
    "(list (((macro () 'not)) nil) 1)": '(t 1)',
    "((lambda (x) (((macro () 'when)) x 'yes)) 1)": 'yes',
    "((macro (a b) (list 'add a b)) 1 2)": '3',
    "((lambda (x) (when x 1)) 1)": '1',
}

def c09_correspond(run, rng, tier):
    forms = c09_forms(rng, 700 if tier == 'quick' else 12000)
    # every third form a second time with collections forced in the middle of the expansion (every 11th / 37th allocation,
    # freed cells poisoned): expansion must not depend on where a collection lands
    scheds = [None] * len(forms)
    extra = forms[::3]
    scheds += [rng.choice(['every:11', 'every:37', 'lcg:%d:48' % rng.randrange(1 << 30)]) for _ in extra]
    forms = forms + extra
    # forms whose expansion needs several passes (try expands into eval / trap / case) after other macro calls of the same form
    # have been taken apart, each under forced collection schedules: a collection landing between two passes of ONE expansion
    # must not change the result.  Values known outright.
    expected = dict(C09_EXPECTED)
    fill = [("(let (a 1 b 2) a)", '1'), ("(case ((= 1 2) 'x) (t 'y))", 'y'), ("(block 1 2)", '2'), ("(when t 3)", '3'), ("(and 1 2)", '2'), ("0", '0'), ("(or nil 4)", '4'),
            ("(try (throw 'kind 'k2) (catch k2 (lambda (e) 6)))", '6')]
    for _ in range(150 if tier == 'quick' else 1500):
        pre = [rng.choice(fill) for _ in range(rng.randint(0, 7))]
        tail, tv = rng.choice([("(try (throw 'kind 'boom) (catch boom (lambda (e) 7)) (catch-all (lambda (e) 8)))", '7'), ("(try (car 5) (catch boom (lambda (e) 7)) (catch-all (lambda (e) 8)))", '8'),
                               ("(try (signal 'plain) (catch-all (lambda (e) (when e 9))))", '9'), ("(let (r (try (throw 'kind 'boom) (catch boom (lambda (e) (and e 5))))) r)", '5')])
        x = '(list ' + ' '.join([f for f, _ in pre] + [tail]) + ')'
        expected[x] = '(' + ' '.join([v for _, v in pre] + [tv]) + ')'
        for sc in ('every:37', 'every:11', rng.choice(['every:23', 'every:7', 'lcg:%d:48' % rng.randrange(1 << 30)])):
            forms.append(x)
            scheds.append(sc)
    sessions = []
    for x, sc in zip(forms, scheds):
        sessions.append(['new prelude'] + ([f'sched {sc}', 'poison 1'] if sc else ['echo natural', 'echo -']) + [
                         'eval ' + hexs(f"(eval (quote {x}))"),
                         'eval ' + hexs(f"(eval (macroexpand (quote {x})))"),
                         'eval ' + hexs(f"(print (macroexpand (macroexpand (quote {x}))))"),
                         'eval ' + hexs(f"(print (macroexpand (quote {x})))"),
                         'eval ' + hexs(x)])
    real, model = both(sessions, timeout=300)
    diffs = compare(sessions, real, model)
    failures = crash_failures(sessions, real)
    dist = {'value': 0, 'signal': 0, 'abort': 0, 'timeout-or-died': 0}
    def strip_dump(line):
        res, tr = parse_eval(line)
        if res is None:
            return None
        def mask(p):
            # address text may also be spelled out as character data, when the program prints a function and keeps the text
            # as a list: (cons %0 (cons %x (cons %5 …; everything from there on is not compared
            p = re.sub(r'0x[0-9a-f]+', '0x?', p)
            p = re.sub(r'%0 %x(?: %[0-9a-f])+', '%0 %x %?', p)
            return re.sub(r'%0 \(cons %x.*', '%0 (cons %x …', p, flags=re.S)
        return [(k, mask(p)) for (k, p, _) in res], re.sub(r'0x[0-9a-f]+', '0x?', tr.get('out') or '')
    for x, r in zip(forms, real):
        if len(r) < 8:
            dist['timeout-or-died'] += 1
            failures.append({'expression': x, 'problem': f'expansion or evaluation did not terminate / driver died: {r[-1][:100] if r else r}'})
            continue
        a, b, c2, c1, d = (strip_dump(r[i]) for i in (3, 4, 5, 6, 7))
        kind = a[0][0][0] if a and a[0] else '?'
        dist[{'ok': 'value', 'sig': 'signal', 'abort': 'abort'}.get(kind, 'signal')] += 1
        if x in expected and (not a or not a[0] or a[0][0] != ('ok', expected[x])):
            failures.append({'expression': x, 'expected': expected[x], 'real': str(a[0][0] if a and a[0] else a)[:300],
                             'problem': 'a macro call was not expanded and evaluated in place of the call (the macro received evaluated operands, or its result came back as data)'})
        elif a != b:
            failures.append({'expression': x, 'problem': 'evaluating the form and evaluating its expansion differ', 'eval': str(a)[:300], 'eval_of_expansion': str(b)[:300]})
        elif a != d:
            failures.append({'expression': x, 'problem': '(eval (quote x)) and x typed at top level differ', 'eval': str(a)[:300], 'direct': str(d)[:300]})
        elif c1 and c1[0] and c1[0][0][0] == 'ok' and c1 != c2:
            failures.append({'expression': x, 'problem': 'expanding an already expanded form changed it', 'once': str(c1)[:300], 'twice': str(c2)[:300]})
    return {'evaluations': len(forms) * 5, 'distinct_nontrivial': len({x for x in forms if any(m in x for m in ('when', 'let', 'and', 'or', 'not', 'block', 'case', 'try', 'throw', 'apply', 'macro'))}),
            'rule': 'forms over the prelude macros (let when and or not block case try/catch throw apply) and inline (macro …) operators, nested, with macro calls inside lambda bodies, inside operands of other macros, '
                    'under quote and inside compound operator expressions; for each form: (eval x), (eval (macroexpand x)), (macroexpand (macroexpand x)) vs (macroexpand x), and x at top level — on the real interpreter, '
                    'compared with each other (the oracle) and with the model; non-trivial = form containing a macro',
            'samples': forms[:3] + forms[20:22], 'disagreements': diffs, 'oracle_failures': failures, 'distribution': dist}

spec('C09', correspond=c09_correspond, replay=generic_replay, modules=['C09', 'C06Eval'],
     search=lambda run, rng, d: c09_correspond(run, random.Random(rng.random()), 'quick')['oracle_failures'],
     trusted=['the evaluator model is tied to eval/mod.rs by differential execution', 'the correspondence check'],
     assumptions=['values are well formed (metadata cells never nest): needed for the fixpoint theorem, see round_idempotent_false',
                  '"terminates whenever the macros it uses terminate": user macros that expand into themselves forever make expansion diverge (out of fuel in the model, a step budget in the check)'])


# ================================================================================================ C06

SHAPES = ["()", "nil", "0", "1", "-1", "9223372036854775807", "-9223372036854775808", "%a", "%\\n", "'a", "'list", "(gensym)", '"str"', '""', "'(1 2 3)", "(cons 1 2)", "(cons 1 (cons 2 3))",
          "'(a 1 b 2)", "'(a 1 b)", "'(1 a)", "(list 'list %a)", "'(list)", "(lambda (x) x)", "(lambda (& r) r)", "(macro (x) x)", "car", "eval", "(trap 1 2)", "(make-trap 1 2)",
          "(make-function '(x) 'x 5 'default 'lambda-type)", "(make-function '() 'y '((y)) 'default 'lambda-type)", "(make-function '(a) 'a '(1 2 . 3) 'nomodule 'macro-type)",
          "'stdin", "'prelude", "'*stdin*", "'*stdout*", "(list (list 1 (list 2)))", "'default", "'lambda-type", "'macro-type", "(cons (cons 'x 1) (cons 5 'y))", "'((a . 1) (b . 2))"]

NATIVES40 = ['cons', 'car', 'cdr', 'list', '.', 'append', 'unrest', 'abort', 'signal', 'read', 'make-trap', 'make-function', 'call-native-function', 'macroexpand', 'eval', 'load-all',
             'print', 'add', 'substract', 'multiply', 'divide', '<', '>', 'define', 'undefine', 'whereis', 'export', 'get-current-module', 'from-module', 'with-current-module',
             'destructure-trap', 'destructure-function', 'type-of', 'get-metadata', 'send', 'receive', 'input-file', 'output-file', 'gensym', '=']

def c06_native_calls(rng, tier):
    calls = []
    core = SHAPES[:14]
    for nat in NATIVES40:
        if nat in ('receive',):
            calls.append(f'({nat})')
            continue
        calls.append(f'({nat})')
        for a in SHAPES:
            calls.append(f'({nat} {a})')
        for a in core:
            for b in core:
                calls.append(f'({nat} {a} {b})')
        for _ in range(40 if tier == 'quick' else 400):
            k = rng.randint(3, 5)
            calls.append(f'({nat} ' + ' '.join(rng.choice(SHAPES) for _ in range(k)) + ')')
    # arguments that are RELATED to each other: a structured value together with one of its own components (the key that is
    # the last element of an odd property list, an element of the list it is looked up in, a tail of the list it is appended to …)
    composite = ["'(a 1 b 2)", "'(a 1 b)", "'(1 a)", "'(k)", "'(a 1 a)", "(list 'kind)", "'(kind k source)", "'((a . 1) (b . 2))", '"str"', "'(1 2 3)", "(cons 1 (cons 2 3))"]
    projections = ["(car x)", "(car (cdr x))", "(car (cdr (cdr x)))", "(cdr x)", "(eval (trap (last x) 'none))", "x"]
    for nat in NATIVES40:
        if nat in ('receive', 'abort', 'gensym', 'get-current-module'):
            continue
        for cshape in composite:
            for pr in projections:
                body1 = f"({nat} x (eval (trap {pr} 'none)))"
                body2 = f"({nat} (eval (trap {pr} 'none)) x)"
                calls.append(f"((lambda (x) {body1}) {cshape})")
                calls.append(f"((lambda (x) {body2}) {cshape})")
    # hand-made functions and environments, called
    for f in ["(make-function '(x) 'x 5 'default 'lambda-type)", "(make-function '(x) '(y) '((y . 1) z (3)) 'default 'lambda-type)", "(make-function '(&) 1 () 'default 'lambda-type)",
              "(make-function '(a & b) '(list a b) () 'default 'macro-type)", "(unrest (lambda (a & b) b))", "(make-function '(q) '(q) (cons 1 2) 'zz 'lambda-type)",
              # home modules that were never defined, bodies that look up globals / use macros / name nothing
              "(make-function '() '(add 1 2) '() 'nowhere 'lambda-type)", "(make-function '() 'car '() 'nowhere 'lambda-type)", "(make-function '() '(when t 1) '() 'nowhere 'lambda-type)",
              "(make-function '() 'undefined-global '() 'nowhere 'lambda-type)", "(make-function '(& r) '(list r foldl) '() 'nowhere 'macro-type)", "(make-function '() '(eval (quote car)) '() (gensym) 'lambda-type)",
              "(make-function '() '(add 1 2) '() 'native 'lambda-type)", "(make-function '() '(-length (list 1) 0) '() 'prelude 'lambda-type)", "(make-function '() '(-length (list 1) 0) '() 'default 'lambda-type)"]:
        for args in ['', '1', '1 2', "'(1)"]:
            calls.append(f'(({f}) {args})' if False else f'({f} {args})')
    for name in ["(gensym)", "(type-of 1)", "(get-current-module)", "(car (list 'zq1))", "'zq2"]:
        for value in ["car", "t", "nil", "5", "'a", '"s"', "(lambda (x) x)", "(list 1 2)", "foldl", "*stdin*"]:
            for doc in ['"documented"', '""', "(list %d)"]:
                calls.append(f"(define {name} {value} {doc})")
    calls += ["(call-native-function eval (list 'x) 5)", "(call-native-function eval (list 'x) '((x . 1)))", "(call-native-function car (cons 1 2) ())", "(call-native-function print '(1) '(2))",
              "(read \"x\" 'stdin 0 1)", "(read \"x\" 'stdin 1 0)", "(read \"x\" 'stdin -9223372036854775808 -9223372036854775808)", "(read \"x\" 'stdin 9223372036854775807 9223372036854775807)",
              "(read \"x\\ny\" 'stdin 9223372036854775807 9223372036854775807)", "(read '(1 2) 'stdin 1 1)", "(read (cons %a 5) 'stdin 1 1)", "(read \"a\" \"file\" 1 1)", "(read \"a\" 'nowhere 1 1)",
              "(send '(a))", "(send '(a 1 b))", "(send '(1 2))", "(divide -9223372036854775808 -1)", "(eval (list 'if))", "(eval (cons 1 2))", "(eval (cons 'add (cons 1 2)))", "(macroexpand (cons 'when 5))",
              "(print (cons 1 (cons 2 3)))", "(load-all \"(\" \"m\")", "(load-all '\"abc\" \"m\")", "(load-all \"1\" 5)", "(define 'a 1 2)", "(export '(1))", "(input-file 5)", "(output-file 5 \"x\")"]
    return calls

def c06_correspond(run, rng, tier):
    calls = c06_native_calls(rng, tier)
    batch = 40
    progs = ['\n'.join(f"(eval (trap {c} (list 'signalled (type-of *trapped-signal*))))" for c in calls[i:i + batch]) for i in range(0, len(calls), batch)]
    # malformed expression trees handed to eval / macroexpand / print / read, generated programs with many faults
    for _ in range(300 if tier == 'quick' else 6000):
        g = Gen(rng, ALL, fault_rate=0.4)
        progs.append(g.program())
    garbage = []
    for _ in range(300 if tier == 'quick' else 5000):
        def tree(d):
            k = rng.random()
            if d > 4 or k < 0.35:
                return rng.choice(SHAPES + ['if', 'lambda', 'quote', 'trap', 'macro', '&', 'eval', 'x'])
            if k < 0.5:
                return f'(cons {tree(d + 1)} {tree(d + 1)})'
            return '(list ' + ' '.join(tree(d + 1) for _ in range(rng.randint(0, 4))) + ')'
        t = tree(0)
        garbage.append(f"(eval (trap (list (type-of (eval {t})) (type-of (macroexpand {t})) (print {t})) (list 'signalled (type-of *trapped-signal*))))")
    progs += ['\n'.join(garbage[i:i + 20]) for i in range(0, len(garbage), 20)]
    sessions = [['new prelude', 'stdin ' + hexs('line one\n'), 'eval ' + hexs(p), 'audit'] for p in progs]
    real, model = both(sessions, timeout=600)
    diffs = compare(sessions, real, model)
    failures = crash_failures(sessions, real)
    # a batch that died is taken apart: every form on its own, to name the one that kills the interpreter
    isolated = []
    for f in failures[:6]:
        forms = [l for l in f['expression'].split('\n') if l.strip()]
        if len(forms) < 2:
            continue
        single = [['new prelude', 'stdin ' + hexs('line one\n'), 'eval ' + hexs(l)] for l in forms]
        rr = run_sessions(real_cmd(), single, 300, 12)
        for l, r in zip(forms, rr):
            if any(x.startswith('PANIC') or x.startswith('DRIVER-DIED') for x in r):
                msg = next(x for x in r if x.startswith('PANIC') or x.startswith('DRIVER-DIED'))
                isolated.append({'expression': l, 'problem': 'the interpreter panicked or died: ' + (unhex(msg.split(' ')[1]).decode('utf-8', 'replace') if msg.startswith('PANIC ') else msg)[:300]})
    if isolated:
        seen = set()
        failures = [x for x in isolated if not (x['expression'] in seen or seen.add(x['expression']))] + failures
    for s, r in zip(sessions, real):
        if r and r[-1].startswith('LEAK'):
            failures.append({'expression': unhex(s[2].split(' ')[1]).decode(), 'problem': 'handle audit / heap invariants after the run: ' + r[-1][:200]})
    # deep structures through the two native recursions that have no depth counter (known finding F14): run in a driver process
    # of their own (default 8 MiB main-thread stack) so that the death of the process is contained
    findings_seen = set()
    deep = [('equal-deep-nesting', "(defun nest (n acc) \"\" (if (= n 0) acc (nest (substract n 1) (list acc))))\n(eval (trap (= (nest 300000 1) (nest 300000 1)) 'signalled))", 'F14-native-recursion-equal'),
            # printing is quadratic in the length, so the witness uses a 1 MiB worker stack and a 30000-element improper list
            ('print-long-improper-list', "(eval (trap (length (print (foldl (lambda (acc x) (cons x acc)) 0 (range 30000)))) 'signalled))", 'F14-native-recursion-print-atom')]
    dsessions = [['new prelude', 'evalstop ' + hexs(expr)] for _, expr, _ in deep]
    dreal = run_sessions(real_cmd(), dsessions[:1], 300, 1) + run_sessions(real_cmd(1024 * 1024), dsessions[1:], 300, 1)
    for (name, expr, fid), r in zip(deep, dreal):
        if any(x.startswith('DRIVER-DIED') or x.startswith('PANIC') for x in r):
            findings_seen.add(fid)
            failures.append({'expression': expr, 'real': r[-1][:100], 'problem': f'{name}: the process died (native stack overflow)', 'finding': fid})
    kinds = outcome_stats(real, line=2)
    return {'evaluations': len(calls) + len(progs) - (len(calls) + batch - 1) // batch + len(garbage), 'distinct_nontrivial': len(set(calls)) + len(set(garbage)),
            'rule': 'every native applied to 0-5 arguments from a pool of 40 shapes (nil, extreme integers, characters, named and generated symbols, proper / improper / metadata-carrying lists, strings with and without the list head, '
                    'odd property lists, closures, macros, natives, traps, hand-made functions with garbage environments): exhaustive for arity 0-1 over the whole pool and arity 2 over a 14-shape core, sampled beyond; '
                    'random expression trees (special-form heads in any position, improper forms) handed to eval, macroexpand and print; generated programs with a 40% fault rate; every case under catch_unwind, compared with the model, '
                    'followed by a handle audit; plus process-level runs of the two native recursions that have no depth counter',
            'samples': [calls[5], calls[900], garbage[0][:200]], 'disagreements': diffs, 'oracle_failures': failures, 'distribution': kinds, 'findings_seen': findings_seen}

def c06_panic_inventory():
    from translate import panics
    return ['panic-site inventory (orchestrator/translate/panic_sites.json) no longer matches the source — ' + d +
            ': the crash outcomes of the model are no longer known to be all the panics of the code' for d in panics.check(os.path.join(lib.REPO, 'src'))]

spec('C06', correspond=c06_correspond, replay=generic_replay, modules=['C06', 'C06Eval'], obligations=[c06_panic_inventory],
     search=lambda run, rng, d: c06_correspond(run, random.Random(rng.random()), 'quick')['oracle_failures'],
     trusted=['the evaluator / reader / printer models are tied to the Rust code by differential execution', 'the correspondence check'],
     assumptions=['values are well formed (metadata cells never nest: allocate_metadata refuses to build one)', 'allocation failure (out of memory) is outside the model',
                  'bytes of native stack per recursion level are outside the model (C07 measures them); the two recursions without a depth counter are known finding F14'])


# ================================================================================================ C05

from gen import ref_eval

def c05_correspond(run, rng, tier):
    n = 2500 if tier == 'quick' else 50000
    progs = []
    stats = {}
    for _ in range(n):
        g = Gen(rng, CORE, fault_rate=rng.choice([0.0, 0.0, 0.1, 0.3]), max_depth=rng.choice([3, 4, 5, 6]))
        progs.append(g.program())
        for k, v in g.stats.items():
            stats[k] = stats.get(k, 0) + v
    sessions = eval_sessions(progs, flags='')
    real, model = both(sessions)
    diffs = compare(sessions, real, model)
    failures = crash_failures(sessions, real)
    dist = {'ok': 0, 'sig': 0, 'outside-reference': 0}
    sigkinds = {}
    def judge(p, r, count=True):
        """None when the real outcome of program p is what the reference evaluator computes (or p is outside the reference)"""
        exp = ref_eval.run_program(p) if 'trap' not in p and 'macro' not in p else None
        if exp is None:
            if count: dist['outside-reference'] += 1
            return None
        res, _ = parse_eval(r[1] if len(r) > 1 else '')
        got = []
        for (kind, printed, dump) in (res or []):
            if kind == 'ok':
                got.append(('ok', re.sub(r'0x[0-9a-f]+', '0x?', printed)))
            elif kind == 'sig':
                m = re.match(r'\(kind (\S+) source (\S+?)[ )]', printed)
                got.append(('sig', m.group(1), m.group(2)) if m else ('sig', re.sub(r'0x[0-9a-f]+', '0x?', printed), ''))
            else:
                got.append((kind,))
        if count:
            for e in exp:
                dist[e[0]] = dist.get(e[0], 0) + 1
                if e[0] == 'sig':
                    key = e[1] if e[2] else 'user-signal'
                    sigkinds[key] = sigkinds.get(key, 0) + 1
        if got != exp:
            i = next((k for k in range(min(len(got), len(exp))) if got[k] != exp[k]), min(len(got), len(exp)))
            return {'expression': p, 'form_index': i, 'expected': list(exp[i]) if i < len(exp) else None, 'real': list(got[i]) if i < len(got) else None,
                    'problem': 'the interpreter and the reference evaluator of the core language disagree'}
        return None
    for p, r in zip(progs, real):
        f = judge(p, r)
        if f:
            failures.append(f)
    # the first failures are shrunk (greedy subtree replacement, re-judged by the same oracle on the real interpreter)
    from gen import shrink
    def still_fails(cands):
        ss = eval_sessions(cands, flags='')
        rr = run_sessions(real_cmd(), ss, 120, 6)
        return [judge(c, r, count=False) is not None for c, r in zip(cands, rr)]
    for f in [f for f in failures if 'expected' in f][:3]:
        try:
            small = shrink.shrink(f['expression'], still_fails)
            if small != f['expression']:
                f['original_expression'] = f['expression']
                f['expression'] = small
                again = judge(small, run_sessions(real_cmd(), eval_sessions([small], flags=''), 120, 1)[0], count=False)
                if again:
                    f['expected'], f['real'], f['form_index'] = again['expected'], again['real'], again['form_index']
        except Exception as e:
            f['shrink_error'] = str(e)[:200]
    dist['signal-kinds'] = sigkinds
    dist['generator'] = {k: stats.get(k, 0) for k in ('lambda', 'shadow', 'restparam', 'hocall', 'fault', 'define', 'var', 'eval')}
    return {'evaluations': n, 'distinct_nontrivial': len({p for p in progs if 'lambda' in p}),
            'rule': 'grammar-directed, scope-aware programs of the core language (literals, quote, if, lambda with optional rest parameter, application, global definitions, cons car cdr list add substract multiply divide < > =; '
                    'nested closures returning closures, parameters shadowing parameters and globals, higher-order calls, rest parameters), 0-30% injected faults (arity, non-symbol parameter, & placement, type error in a chosen operand, '
                    'unbound variable, bad operator, two faults in different operands); value or (signal kind, source) of every top-level form compared between the real interpreter (natives only, no prelude), the model and '
                    'a reference evaluator written from the property (Python); non-trivial = program containing a lambda',
            'samples': progs[:3], 'disagreements': diffs, 'oracle_failures': failures, 'distribution': dist}

spec('C05', correspond=c05_correspond, replay=lambda run, content: generic_replay(run, content), modules=['C05'],
     search=lambda run, rng, d: c05_correspond(run, random.Random(rng.random()), 'quick')['oracle_failures'],
     trusted=['the reference semantics Spec/RefEval.lean and the Python reference evaluator as statements of the property', 'the evaluator model is tied to eval/mod.rs by differential execution', 'the correspondence check'],
     assumptions=['programs do not use names bound to macros (macro names are reserved words for macro expansion, which resolves every symbol)',
                  'depth: programs stay below the recursion limit (deeper ones raise stackoverflow: C07)'])


# ================================================================================================ C10

def c10_char_source(cp):
    c = chr(cp)
    return {'\t': '%\\t', '\n': '%\\n', '\r': '%\\r', ' ': '%\\s', '\\': '%\\\\'}.get(c, '%' + c)

def c10_string_source(s):
    return '"' + ''.join(('\\' + c) if c in '"\\' else c for c in s) + '"'

def c10_readable_sym(s):
    if not s or any(c in reader_ref.DELIM or c == '\\' for c in s) or s[0] == '%' or s[0].isdigit():
        return False
    if s[0] in '+-':
        rest = s[1:].lstrip('+-%')
        if rest and rest[0].isascii() and rest[0].isdigit():
            return False
    return True

def c10_datum(rng, depth=0):
    """(source text under quote, is inside the property's domain)"""
    k = rng.random()
    if depth >= rng.randint(2, 6) or k < 0.4:
        a = rng.random()
        if a < 0.25:
            v = rng.choice([0, 1, -1, I64MAX, I64MIN, 10**18, -10**18]) if rng.random() < 0.5 else rng.randint(-10**6, 10**6)
            return str(v)
        if a < 0.5:
            cp = rng.choice([40, 41, 39, 34, 59, 44, 37, 92, 32, 9, 10, 13, 0xA0, 0x2028, 0x3000, 97, 0x3BB, 0x1F600, 0, 127, 0x85])
            return c10_char_source(cp)
        if a < 0.75:
            pieces = ['a', ' ', '"', '\\', '\n', '\t', '(', ')', ';', "'", '%', ',', 'λ', ' ', '\r', '0', 'xyz']
            return c10_string_source(''.join(rng.choice(pieces) for _ in range(rng.randint(0, 6))))
        s = rng.choice(['a', 'foo', 'list', 'nil', 't', 'quote', '+', '-', 'a-b', '+a', 'a1', 'a%', '*x*', 'λ', 'kind', '<=', '/=', '&', '.'])
        return s
    if k > 0.88:
        # quote FORMS as data: two-element lists headed by the symbol quote (also function / backquote-like heads), nested directly
        head = rng.choice(['quote', 'quote', 'quote', 'list', 'lambda', 'macro'])
        inner = c10_datum(rng, depth + 1) if rng.random() < 0.5 else '(quote ' + c10_datum(rng, depth + 2) + ')'
        return f'({head} {inner})' if head != 'list' or not inner.startswith('%') else f'({head} {inner} 1)'
    n = rng.randint(0, 5)
    items = [c10_datum(rng, depth + 1) for _ in range(n)]
    body = items[1:] if items and items[0] == 'list' else items
    if items and all(x.startswith('%') for x in body):
        # a list of characters (possibly headed by `list`) IS a string: the property identifies the two, `=` does not;
        # the main stream keeps them apart (strings are generated as strings)
        items.append(str(rng.randint(0, 9)))
    return '(' + ' '.join(items) + ')'

def c10_correspond(run, rng, tier):
    failures, dist = [], {'chars': 0, 'strings': 0, 'data': 0}
    # (i) every scalar value (quick: all below U+3100 plus boundaries and a sample) as a character literal and as a one-character string
    cps = list(range(0, 0x3100)) + [0xD7FF, 0xE000, 0xFFFD, 0xFFFE, 0xFFFF, 0x10000, 0x1F600, 0x10FFFF]
    if tier == 'thorough':
        cps = [c for c in range(0x110000) if not (0xD800 <= c <= 0xDFFF)]
    else:
        cps += [rng.choice([rng.randrange(0x3100, 0xD800), rng.randrange(0xE000, 0x110000)]) for _ in range(3000)]
    per = 150
    batches = [cps[i:i + per] for i in range(0, len(cps), per)]
    sessions, meta = [], []
    for b in batches:
        forms = []
        for cp in b:
            cs, ss = c10_char_source(cp), c10_string_source(chr(cp))
            forms.append(f"(list (= (read-simple (print {cs})) {cs}) (= (print (read-simple (print {cs}))) (print {cs})) (. (read (print {cs}) 'stdin 1 1) 'rest)"
                         f" (= (eval (read-simple (print {ss}))) {ss}) (= (print (read-simple (print {ss}))) (print {ss})) (. (read (print {ss}) 'stdin 1 1) 'rest))")
        sessions.append(['new prelude', 'eval ' + hexs('\n'.join(forms))])
        meta.append(('chars', b))
    # (ii) random data
    n = 1500 if tier == 'quick' else 40000
    data = [c10_datum(rng) for _ in range(n)]
    data += ["(quote x)", "(quote (quote x))", "(quote (quote (quote x)))", "(a (quote (quote 7)) \"s\")", "((quote (quote ())))", "(quote)", "(quote a b)", "(quote quote)", "(quote (quote))",
             "(quote (quote \"s\"))", "(quote %a)", "(quote (quote %'))", "(list (quote (quote a)) (quote (quote b)))"]
    n = len(data)
    for i in range(0, n, 40):
        chunk = data[i:i + 40]
        forms = [f"(list (= (read-simple (print '{d})) '{d}) (= (print (read-simple (print '{d}))) (print '{d})) (. (read (print '{d}) 'stdin 1 1) 'rest))" for d in chunk]
        sessions.append(['new prelude', 'eval ' + hexs('\n'.join(forms))])
        meta.append(('data', chunk))
    real, model = both(sessions, timeout=900)
    diffs = compare(sessions, real, model)
    failures += crash_failures(sessions, real)
    for (kind, items), r in zip(meta, real):
        res, _ = parse_eval(r[1] if len(r) > 1 else '')
        if res is None or len(res) != len(items):
            failures.append({'problem': 'driver did not answer every form', 'real': (r[1] if len(r) > 1 else str(r))[:300], 'expression': str(items[:2])})
            continue
        for item, (k, printed, _) in zip(items, res):
            if kind == 'chars':
                dist['chars'] += 1
                dist['strings'] += 1
                if (k, printed) != ('ok', '(t t () t t ())'):
                    failures.append({'expression': f'(print {c10_char_source(item)}) / (print {c10_string_source(chr(item))})', 'code_point': item, 'real': f'{k} {printed}',
                                     'problem': 'character or one-character string does not survive print -> read -> print with nothing left over'})
            else:
                dist['data'] += 1
                if (k, printed) != ('ok', '(t t ())'):
                    failures.append({'expression': f"(print '{item})", 'real': f'{k} {printed}', 'problem': 'datum does not survive print -> read -> print with nothing left over'})
    return {'evaluations': len(cps) * 2 + n, 'distinct_nontrivial': len(set(cps)) + len(set(data)),
            'rule': ('every Unicode scalar value' if tier == 'thorough' else 'every scalar value below U+3100, the plane boundaries and 3000 random others') +
                    ' as a character literal and as a one-character string, plus random data (integers incl. the extremes, characters weighted to delimiters / quotes / backslash / controls / non-ASCII whitespace, '
                    'strings with escapes, readable symbols incl. `list`, `nil`, `+`, `a%`, nested lists to depth 6, `()` and `""`): print, read the text back, compare with `=`, print again and compare the text, check nothing is left over — '
                    'on the real interpreter (the oracle is the round trip itself) and against the model',
            'samples': data[:4], 'disagreements': diffs, 'oracle_failures': failures, 'distribution': dist, 'exhaustive': False}

spec('C10', correspond=c10_correspond, replay=generic_replay, modules=['C10'],
     search=lambda run, rng, d: c10_correspond(run, random.Random(rng.random()), 'quick')['oracle_failures'],
     trusted=['Display for i64 / char and str::parse::<i64> as modelled', 'the reader and printer models are tied to read/mod.rs and print/mod.rs by differential execution', 'the correspondence check'],
     assumptions=['data: 64-bit integers, characters, readable symbol names (ReadableSym), strings, proper lists nested below the depth limit',
                  'generated symbols print as #<symbol-0x…>, which is not readable: outside the domain of the property'])


# ================================================================================================ C20

ILL_FORMED_KINDS = ('wrong-number-of-arguments', 'unbound-symbol', 'ambiguous-name', 'eval-bad-operator', 'wrong-argument-type', 'stackoverflow', 'param-is-not-symbol',
                    'missing-rest-parameter', 'multiple-rest-parameters', 'wrong-plist-format')

def c20_programs(rng, n):
    fixed = ["(add 1 2)", "((lambda (x y) (add x y)) 1 2)", "((lambda (x & r) (cons x r)) 1 2 3)", "(if (< 1 2) 'yes 'no)", "(let (a 1 b 2) (add a b))", "(when t (block (output \"side\") 5))",
             "(map (lambda (x) (multiply x x)) (range 4))", "(foldl add 0 '(1 2 3))", "(eval (trap (car 5) (list 'caught (. *trapped-signal* 'kind))))", "(try (throw 'kind 'k1 'source 's) (catch k1 (lambda (e) 'handled)))",
             "(and 1 (or nil 2))", "(case ((= 1 2) 'a) ((= 1 1) 'b) (t 'c))", "(eval '(add 1 2))", "(quote (a b c))", "((lambda (f) (f (f 1))) (lambda (x) (add x 10)))", "'()", "5", "%a", "\"str\"",
             "(reverse '(1 2 3))", "(length (append '(1 2) '(3)))", "(not nil)", "(block (output \"a\") (output \"b\") 3)", "(signal '(kind custom source here))", "(abort)",
             "((lambda (x y) (add x y)) 1)", "(if 1 2)", "undefined-sym", "(car 5)",
             # repaired: duplicate parameter names (the later one shadows), macros in the argument of eval
             "((lambda (x x) x) 1 2)", "((lambda (a & a) a) 1 2)", "(eval '(when t 1))", "(eval '(let (a 1) (add a 1)))", "(eval (list 'or nil 5))", "((lambda (x) (eval '(when x 'y))) 1)",
             # let is not let*: every operand is evaluated in the outer environment
             "(let (x 1) (let (x 2 y x) (list x y)))", "((lambda (x) ((lambda (x y) (list x y)) 2 x)) 1)", "(let (length 7 n (length '(a b c))) (list length n))",
             "((lambda (a) ((lambda (a b c) (list a b c)) (add a 1) (add a 2) (add a 3))) 10)",
             # known finding F32: a local variable named eval
             "((lambda (eval) (eval 3)) car)",
             # known finding F33: a closure whose body is the literal empty list
             "((lambda () ()))", "((lambda (x) ()) 1)",
             # operator expressions with an observable side effect: evaluated exactly once
             "((block (output \"pick\") add) 1 2)", "((if (block (output \"c\") t) car cdr) '(1 2))", "(((lambda (n) (block (output \"mk\") (lambda (x) (add x n)))) 2) 3)",
             "((eval (trap (signal 'k) (block (output (print *trapped-signal*)) (lambda (& r) r)))) 1 2)", "(list ((block (output \"a\") car) '(1)) ((block (output \"b\") cdr) '(1)))",
             # operands and branches with side effects, shadowing, closures over loop variables
             "((lambda (x) ((lambda (x) (block (output (print x)) x)) (add x 1))) 1)", "(map (lambda (x) (block (output (print x)) x)) '(1 2 3))",
             "(if (block (output \"cond\") nil) (output \"then\") (output \"else\"))", "(eval (trap (block (output \"before\") (car 5) (output \"after\")) (block (output \"handler\") 7)))"]
    progs = list(fixed)
    for _ in range(n):
        g = Gen(rng, ALL - {'globals', 'gensym'}, fault_rate=rng.choice([0.0, 0.0, 0.0, 0.15]), max_depth=rng.choice([2, 3, 4]))
        progs.append(g.expr(rng.choice(['int', 'int', 'list', 'bool']), [], 0))
    return progs

def c20_correspond(run, rng, tier):
    progs = c20_programs(rng, 150 if tier == 'quick' else 3000)
    sessions, meta = [], []
    for p in progs:
        for mode in ('detached', 'all-in', 'all-over', 'random'):
            if mode == 'detached':
                s = ['new debugger']
            else:
                script = {'all-in': f'command {hexs("STEP-IN")} 4000000000 200000', 'all-over': f'command {hexs("STEP-OVER")} 4000000000 200000',
                          'random': f'commandrand {rng.randrange(1 << 30)} 4000000000 200000'}[mode]
                s = ['new debugger umbilical', script]
            s += ['evalstop ' + hexs(f"(debug-eval (quote {p}) nil nil)")]
            sessions.append(s)
            meta.append((p, mode))
        sessions.append(['new debugger', 'evalstop ' + hexs(p)])
        meta.append((p, 'direct'))
    # the closures themselves: every function of debugger.lisp as the real interpreter binds it, against what the model binds
    # (the constants of Generated/DebuggerExpanded.lean, which the theorems of C20b / C20c are about, are dumps of the latter)
    dbg_names = ['lookup', 'add-parameters', 'highlight-list-elem', 'debug-list', 'debug-eval-internal', 'sequence-changed', 'debug-expand-list', 'debug-expand', 'keep-expanding', 'debug-eval']
    sessions.append(['new debugger', 'eval ' + hexs('\n'.join(f"(destructure-function (with-current-module '{n} 'debugger))" for n in dbg_names))])
    meta.append((None, 'closures'))
    real, model = both(sessions, timeout=600)
    # the stream of debugger messages is part of the comparison with the model; the property itself is about value/signal/output
    diffs = compare(sessions, real, model)
    failures = crash_failures(sessions, real)
    findings_seen = set()
    dist = {}
    by_prog = {}
    for (p, mode), r in zip(meta, real):
        if p is None:
            continue
        res, tr = parse_eval(r[-1] if r else '')
        last = res[-1] if res else None
        out = (last[0], re.sub(r'0x[0-9a-f]+', '0x?', last[1]) if last else None, re.sub(r'0x[0-9a-f]+', '0x?', (tr or {}).get('out') or '')) if last else None
        by_prog.setdefault(p, {})[mode] = out
    for p, outs in by_prog.items():
        direct = outs.get('direct')
        kind = direct[0] if direct else 'none'
        dist[kind] = dist.get(kind, 0) + 1
        for mode in ('detached', 'all-in', 'all-over', 'random'):
            if outs.get(mode) != direct:
                f = {'expression': p, 'mode': mode, 'direct_eval': str(direct)[:300], 'debug_eval': str(outs.get(mode))[:300],
                     'problem': 'the stepping evaluator and the evaluator disagree on value / signal / output'}
                norm = lambda o: (o[0], (o[1] or '').replace('source with-current-module', 'source eval'), o[2]) if o else o
                if norm(outs.get(mode)) == norm(direct):
                    f['finding'] = 'F22-debugger-on-ill-formed-programs'
                    findings_seen.add('F22-debugger-on-ill-formed-programs')
                elif p == "((lambda (eval) (eval 3)) car)":
                    f['finding'] = 'F32-debugger-local-variable-named-eval'
                    findings_seen.add('F32-debugger-local-variable-named-eval')
                elif p in ("((lambda () ()))", "((lambda (x) ()) 1)"):
                    f['finding'] = 'F33-debugger-closure-with-empty-body'
                    findings_seen.add('F33-debugger-closure-with-empty-body')
                elif direct and direct[0] == 'sig' and any(k in direct[1] for k in ILL_FORMED_KINDS) or (outs.get(mode) and outs[mode][0] == 'sig' and 'stackoverflow' in (outs[mode][1] or '')):
                    f['finding'] = 'F22-debugger-on-ill-formed-programs'
                    findings_seen.add('F22-debugger-on-ill-formed-programs')
                failures.append(f)
                break
    return {'evaluations': len(sessions), 'distinct_nontrivial': len(set(progs)),
            'rule': 'programs over special forms, closures, rest parameters, prelude macros, traps, try/catch, output — each run through (debug-eval (quote P) nil nil) detached and attached with answers all STEP-IN / all STEP-OVER / random '
                    '(scripted through hook H3, consumed exactly when the evaluator blocks in receive) and evaluated directly; value or signal and output compared between the five runs on the real interpreter (the oracle) '
                    'and every run, including the stream of debugger messages, compared with the model evaluator interpreting the real debugger.lisp',
            'samples': progs[:2] + progs[30:32], 'disagreements': diffs, 'oracle_failures': failures, 'distribution': dist, 'findings_seen': findings_seen}

spec('C20', correspond=c20_correspond, replay=generic_replay, modules=['C20', 'C20b', 'C20c', 'C20d'],
     search=lambda run, rng, d: c20_correspond(run, random.Random(rng.random()), 'quick')['oracle_failures'],
     trusted=['the evaluator model is tied to eval/mod.rs by differential execution', 'debugger.lisp is interpreted by the model evaluator (not re-modelled)', 'the correspondence check (hook H3 answers `receive`)'],
     assumptions=['partial: the agreement of debug-eval with eval is established by differential execution (real and model), the theorems cover the natives the stepping evaluator is built from and the detached case',
                  'known finding F22: on ill-formed programs and near the depth limit the stepping evaluator raises different signals'])


# ================================================================================================ C01 / C03 / C04 registration

HEAP_MODULES = ['HeapMark', 'HeapSweep', 'HeapCollect']

spec('C01', correspond=lambda run, rng, tier: c01_correspond(run, rng, tier, which='C01'), replay=heap_replay, modules=HEAP_MODULES + ['C01'],
     search=lambda run, rng, d: c01_correspond(run, random.Random(rng.random()), 'quick')['oracle_failures'],
     trusted=HEAP_TRUST, assumptions=['Drop order of Memory\'s fields and the evaluator\'s use of handles are Rust-level facts: exercised (poisoned swept cells, handle audit), not proved',
                                      'the mark loop of the source revisits shared nodes once per path (exponential on DAGs such as x = (cons x x)): an observation about time, not about safety'])

spec('C03', correspond=lambda run, rng, tier: c01_correspond(run, rng, tier, which='C03'), replay=heap_replay, modules=HEAP_MODULES + ['C01', 'C03'],
     search=lambda run, rng, d: c01_correspond(run, random.Random(rng.random()), 'quick', which='C03')['oracle_failures'],
     trusted=HEAP_TRUST, assumptions=['"when no evaluation is in progress the only live handles are the global definitions and the embedder\'s" is a fact about Rust RAII in the evaluator: checked by the handle audit after every top-level evaluation, not proved',
                                      'f32 ratio arithmetic is modelled by exact rationals (equal below 5.5M cells)'])

spec('C04', correspond=lambda run, rng, tier: c01_correspond(run, rng, tier, symbol_heavy=True, which='C04'), replay=heap_replay, modules=HEAP_MODULES + ['C01', 'C04'],
     search=lambda run, rng, d: c01_correspond(run, random.Random(rng.random()), 'quick', symbol_heavy=True)['oracle_failures'],
     trusted=HEAP_TRUST, assumptions=['symbols compare by the address of their cell (Symbol::eq); a global is keyed by the printed name of its symbol, so a generated symbol used as a global name is keyed by its address text (observation)'])


# ================================================================================================ C16

def plist_show(xs):
    return '(' + ' '.join(str(x) if not isinstance(x, (list, tuple)) else (plist_show(x) if isinstance(x, list) else f'(cons {x[0]} {x[1]})') for x in xs) + ')' if xs else '()'

def c16_cases(rng, tier):
    """(expression, expected) with expected = ('ok', printed, output) | ('sig', kind) | None (differential only)"""
    cases = []
    def lit(xs): return '(list ' + ' '.join(map(str, xs)) + ')' if xs else "'()"
    lens = [0, 1, 2, 3, 17, 120] + ([700] if tier == 'thorough' else [])
    for n in lens:
        xs = [rng.randint(-50, 50) for _ in range(n)]
        ys = [rng.randint(-50, 50) for _ in range(rng.choice([n, max(0, n - 1), n + 2]))]
        k = rng.randint(1, 9)
        L, M = lit(xs), lit(ys)
        cases += [
            (f'(map (lambda (x) (add x {k})) {L})', ('ok', plist_show([x + k for x in xs]), '')),
            (f'(map list {L})', ('ok', plist_show([[x] for x in xs]), '')),
            (f'(map (lambda (& r) r) {L})', ('ok', plist_show([[x] for x in xs]), '')),
            (f'(foldl add {k} {L})', ('ok', str(k + sum(xs)), '')),
            (f'(foldl (lambda (a x) (cons x a)) () {L})', ('ok', plist_show(xs[::-1]), '')),
            (f'(foldl (lambda (a x) (substract a x)) {k} {L})', ('ok', str(k - sum(xs)), '')),
            (f'(reverse {L})', ('ok', plist_show(xs[::-1]), '')),
            (f'(length {L})', ('ok', str(n), '')),
            (f'(zip {L} {M})', ('ok', plist_show([(a, b) for a, b in zip(xs, ys)]), '')),
            (f'(enumerate {L})', ('ok', plist_show([(a, i) for i, a in enumerate(xs)]), '')),
            (f'(append {L} {M})', ('ok', plist_show(xs + ys), '')),
            (f'(concat {L} {M} {L})', ('ok', plist_show(xs + ys + xs), '')),
            (f'(concat)', ('ok', '()', '')),
            (f'(last {L})', ('ok', str(xs[-1]), '') if xs else ('sig', 'wrong-argument')),
            (f'(init {L})', ('ok', plist_show(xs[:-1]), '')),
            (f'(apply (lambda (& r) r) {L})', ('ok', plist_show(xs), '')),
            (f'(apply + {L})', ('ok', str(sum(xs)), '')),
            (f'(+ {" ".join(map(str, xs[:40]))})', ('ok', str(sum(xs[:40])), '')),
            (f'(map (lambda (x) (block (output (print x)) x)) {lit(xs[:5])})', ('ok', plist_show(xs[:5]), ''.join(f'{x}\n' for x in xs[:5]))),
        ]
        if n <= 120:
            cases += [(f'(foldr cons () {L})', ('ok', plist_show(xs), '')), (f'(foldr add {k} {L})', ('ok', str(k + sum(xs)), '')),
                      (f'(foldr (lambda (x a) (substract x a)) 0 {L})', ('ok', str(sum(x if i % 2 == 0 else -x for i, x in enumerate(xs))), ''))]
        if n >= 2:
            # a function that signals on a chosen call: the signal is the outcome, later elements are not visited
            j = rng.randrange(n)
            cases.append((f'(map (lambda (x) (if (= x 777) (signal (quote stop)) (block (output "v") x))) {lit(xs[:j] + [777] + xs[j:])})', ('sigout', 'stop', 'v\n' * j)))
    for n in [-3, -1, 0, 1, 2, 50]:
        cases.append((f'(range {n})', ('ok', plist_show(list(range(max(0, n)))), '')))
    for a, b in [(1, 2), (2, 1), (3, 3), (-1, 0), (I64MAX, I64MIN)]:
        T = lambda v: 't' if v else '()'
        cases += [(f'(/= {a} {b})', ('ok', T(a != b), '')), (f'(<= {a} {b})', ('ok', T(a <= b), '')), (f'(>= {a} {b})', ('ok', T(a >= b), ''))]
    cases += [('(+)', ('ok', '0', '')), ('(*)', ('ok', '1', '')), ('(-)', ('ok', '0', '')), ('(/)', ('ok', '1', '')), ('(- 5)', ('ok', '-5', '')), ('(/ 5)', ('ok', '0', '')), ('(/ 1)', ('ok', '1', '')),
              ('(- 10 1 2 3)', ('ok', '4', '')), ('(/ 100 2 5)', ('ok', '10', '')), ('(/ -7 2)', ('ok', '-3', '')), ('(* 2 3 4)', ('ok', '24', '')),
              ('(+ 9223372036854775807 1)', ('sig', 'arithmetic-overflow')), ('(* 4611686018427387904 2)', ('sig', 'arithmetic-overflow')), ('(/ 1 0)', ('sig', 'divide-by-zero'))]
    # control macros: each operand evaluated at most once and only when needed — traced through output
    tag = '(defun tag (i v) "" (block (output (print i)) v))\n'
    def m(expr, value, trace):
        cases.append((tag + expr, ('ok', value, ''.join(f'{i}\n' for i in trace))))
    for x in ('nil', '5'):
        for y in ('nil', '7'):
            xv, yv = (None if x == 'nil' else 5), (None if y == 'nil' else 7)
            sh = lambda v: '()' if v is None else str(v)
            m(f'(and (tag 1 {x}) (tag 2 {y}))', sh(yv if xv is not None else None), [1, 2] if xv is not None else [1])
            m(f'(or (tag 1 {x}) (tag 2 {y}))', sh(xv if xv is not None else yv), [1] if xv is not None else [1, 2])
            m(f'(when (tag 1 {x}) (tag 2 {y}))', sh(yv if xv is not None else None), [1, 2] if xv is not None else [1])
        m(f'(not (tag 1 {x}))', 't' if x == 'nil' else '()', [1])
    m('(block (tag 1 1) (tag 2 2) (tag 3 3))', '3', [1, 2, 3])
    m('(block)', '()', [])
    m('(let (a (tag 1 10) b (tag 2 20)) (add a b))', '30', [1, 2])
    m('(let (a (tag 1 10)) (let (a (tag 2 20)) a))', '20', [1, 2])
    m("(case ((tag 1 nil) (tag 2 'a)) ((tag 3 5) (tag 4 'b)) ((tag 5 t) (tag 6 'c)))", 'b', [1, 3, 4])
    m("(case ((tag 1 nil) 'a))", '()', [1])
    # case, systematically: 1-3 clauses, every condition and every value nil or not; the first true clause decides, nothing after it is evaluated
    for nclauses in (1, 2, 3):
        for bits in itertools.product([0, 1], repeat=2 * nclauses):
            conds, vals = bits[:nclauses], bits[nclauses:]
            text, trace, value, decided = [], [], '()', False
            for i in range(nclauses):
                ci, vi = 2 * i + 1, 2 * i + 2
                text.append(f"((tag {ci} {'t' if conds[i] else 'nil'}) (tag {vi} {chr(39) + 'v' + str(i) if vals[i] else 'nil'}))")
                if not decided:
                    trace.append(ci)
                    if conds[i]:
                        trace.append(vi)
                        value = f'v{i}' if vals[i] else '()'
                        decided = True
            m('(case ' + ' '.join(text) + ')', value, trace)
    # lists far longer than the recursion depth limit: the documented result holds for ALL lists (foldr and init recurse by design)
    for expr, value in [("(length (zip (range 3000) (range 3000)))", '3000'), ("(cdr (last (enumerate (range 3000))))", '2999'), ("(car (last (zip (range 3000) (range 3000))))", '2999'),
                        ("(length (map (lambda (x) (add x 1)) (range 3000)))", '3000'), ("(car (reverse (range 3000)))", '2999'), ("(foldl add 0 (range 3000))", str(3000 * 2999 // 2)),
                        ("(length (append (range 3000) (range 3000)))", '6000'), ("(apply + (range 3000))", str(3000 * 2999 // 2)), ("(last (range 3000))", '2999')]:
        m(expr, value, [])
    # try with signals of every shape: a catcher for another kind never interferes, whatever the signal looks like
    for sig, shown in [("(list 1 2 3)", '(1 2 3)'), ("(quote (a b kind))", '(a b kind)'), ("(quote (kind))", '(kind)'), ("(list \"file not found\" 42)", '("file not found" 42)'), ("5", '5'),
                       ("\"text\"", '"text"'), ("(cons 1 2)", '(cons 1 2)'), ("(quote (kind other))", '(kind other)'), ("(quote (1 kind boom))", '(1 kind boom)')]:
        m(f"(try (signal {sig}) (catch boom (lambda (e) (tag 1 'wrong))) (catch-all (lambda (e) (tag 2 e))))", shown, [2])
        # (a try WITHOUT a matching catcher yields nil — `case` with no true clause — instead of passing the signal on: the
        #  documentation of try is silent about that case, so it is not judged here; observation recorded in DESIGN §11.5)
    for args, value in [("'k '(1 2 3)", '()'), ("'b '(a 1 b)", '()'), ("'a 5", '()'), ("'a '(a 1)", '1'), ("'b '(a 1 b 2)", '2'), ("'c '(a 1 b 2)", '()'), ("'a \"str\"", '()'), ("'a (cons 'a 1)", '()'), ("'kind '(kind)", '()')]:
        m(f"(get-property-safe {args})", value, [])
    # try: the first matching catcher decides, also when it returns nil
    m("(try (throw 'kind 'boom) (catch boom (lambda (e) (tag 1 nil))) (catch-all (lambda (e) (tag 2 'fell-through))))", '()', [1])
    m("(try (throw 'kind 'boom) (catch other (lambda (e) (tag 1 nil))) (catch boom (lambda (e) (tag 2 nil))) (catch boom (lambda (e) (tag 3 'second))))", '()', [2])
    m("(try (tag 1 5) (catch-all (lambda (e) (tag 2 'caught))))", '5', [1])
    m("(try (block (tag 1 1) (throw 'kind 'boom 'source 'here) (tag 2 2)) (catch other (lambda (e) (tag 3 'wrong))) (catch boom (lambda (e) (tag 4 (. e 'source)))) (catch-all (lambda (e) (tag 5 'all))))", 'here', [1, 4])
    m("(try (signal 'plain) (catch boom (lambda (e) 'wrong)) (catch-all (lambda (e) (tag 1 e))))", 'plain', [1])
    # apply with a variadic closure that captured a variable of its maker, applied where that name is unbound / rebound
    m("(apply ((lambda (k) (lambda (& r) (map (lambda (x) (add x k)) r))) 10) (list 1 2 3))", '(11 12 13)', [])
    m("(let (k 1) (apply ((lambda (k) (lambda (& r) (map (lambda (x) (add x k)) r))) 10) (list 1 2 3)))", '(11 12 13)', [])
    m("((lambda (who) (apply ((lambda (who) (lambda (& r) (cons who r))) 'maker) (list 1 2))) 'caller)", '(maker 1 2)', [])
    m("(apply (lambda (& r) (tag 1 r)) (list 1 2))", '(1 2)', [1])
    m("(apply + (list 1 2 3))", '6', [])
    m("(apply concat (list (list 1) (list 2 3)))", '(1 2 3)', [])
    # known finding: apply on a fixed-arity function
    cases.append(('(apply add (list 1 2))', ('ok', '3', ''), 'F20-apply-fixed-arity'))
    cases.append(('(apply cons (list 1 2))', ('ok', '(cons 1 2)', ''), 'F20-apply-fixed-arity'))
    return cases

def c16_correspond(run, rng, tier):
    cases = c16_cases(rng, tier)
    progs = [c[0] for c in cases]
    # the closures the prelude binds, as the real reader and evaluator build them from the current prelude.lisp, against the model's
    names = ['foldl', 'foldr', 'reverse', 'zip', 'length', 'enumerate', 'map', 'last', 'init', 'range', 'append', 'concat', 'apply', 'when', 'and', 'or', 'not', 'let', 'block', 'case', 'try', 'throw', 'catch', '+', '-', '*', '/', '/=', '<=', '>=']
    sessions = eval_sessions(progs) + eval_sessions(['\n'.join(f'(list (destructure-function {n}) (. (get-metadata {n}) (quote documentation)))' for n in names)])
    real, model = both(sessions, timeout=600)
    diffs = compare(sessions, real, model)
    # the generated constants the theorems are about are what the model binds after loading the current prelude.lisp
    pc, _ = lib.run_driver(model_cmd(), ['new prelude', 'preludecheck'], 120, True)
    if len(pc) < 2 or not pc[1].startswith('ok'):
        diffs.append({'session': 'preludecheck', 'request': 'preludecheck', 'real': '(generated constants of Generated/Prelude.lean)', 'model': str(pc)[:300]})
    failures = crash_failures(sessions, real)
    findings_seen = set()
    dist = {'value-cases': 0, 'signal-cases': 0, 'trace-cases': 0}
    for c, r in zip(cases, real):
        expr, exp = c[0], c[1]
        res, tr = parse_eval(r[1] if len(r) > 1 else '')
        last = res[-1] if res else None
        out = (tr or {}).get('out', '')
        got = None
        if last:
            if last[0] == 'ok': got = ('ok', last[1], out)
            elif last[0] == 'sig':
                m = re.match(r'\(kind (\S+?)[ )]', last[1])
                got = ('sig', m.group(1)) if m else ('sigout', last[1], out)
                if exp[0] == 'sigout': got = ('sigout', last[1], out)
        dist['signal-cases' if exp[0] != 'ok' else ('trace-cases' if exp[2] else 'value-cases')] += 1
        if got != exp:
            f = {'expression': expr, 'expected': list(exp), 'real': list(got) if got else (r[1] if len(r) > 1 else str(r))[:300], 'problem': 'a prelude function or macro does not return its documented result / evaluates an operand more than once or unnecessarily'}
            if len(c) > 2:
                f['finding'] = c[2]
                findings_seen.add(c[2])
            failures.append(f)
    return {'evaluations': len(cases), 'distinct_nontrivial': len(set(progs)),
            'rule': 'per prelude function: lists of length 0, 1, 2, 3, 17, 120 (700 in the thorough tier) with function arguments native fixed / native variadic / closure fixed / closure variadic / closure that signals on a chosen call / closure with an output side effect; '
                    'range for -3, -1, 0, 1, 2, 50; comparison and variadic arithmetic incl. the 0- and 1-argument cases and overflow; control macros (and or when not block let case try/catch/throw) with operands that print a tag when evaluated; '
                    'value, signal kind and output trace compared between the real interpreter, the model and the documented meaning (Python); plus the closures bound by the current prelude.lisp (real vs model) and the generated constants the theorems are about',
            'samples': [progs[0], progs[20], progs[-6]], 'disagreements': diffs, 'oracle_failures': failures, 'distribution': dist, 'findings_seen': findings_seen}

spec('C16', correspond=c16_correspond, replay=generic_replay, modules=['C16', 'C16b', 'C16c', 'C16d'],
     search=lambda run, rng, d: c16_correspond(run, random.Random(rng.random()), 'quick')['oracle_failures'],
     trusted=['the evaluator model is tied to eval/mod.rs by differential execution', 'Generated/Prelude.lean is regenerated from prelude.lisp on every run and compared with what the model binds (preludecheck)', 'the correspondence check'],
     assumptions=['foldr, init and concat are not tail recursive: lists longer than about half the depth limit raise stackoverflow (stated, not a deviation from the documentation)',
                  'known finding F20: apply on a function without a rest parameter'])


# ================================================================================================ C02

def c02_programs(rng, n):
    progs = []
    # deliberately order-sensitive: the same name in two loaded modules, whereis, ambiguity reports
    mods = ['alpha', 'beta', 'gamma', 'delta', 'eps', 'zeta', 'eta', 'theta']
    for _ in range(max(8, n // 8)):
        k = rng.randint(2, 6)
        chosen = rng.sample(mods, k)
        forms = [f'(load-all "(define (quote shared) {i} (list)) (define (quote only-{m}) {i} (list))" "{m}")' for i, m in enumerate(chosen)]
        forms += ["(whereis (quote shared))", "(eval (trap shared (. *trapped-signal* (quote conflicting-modules))))", f"(whereis (quote only-{chosen[0]}))",
                  f"(from-module (quote shared) (quote {chosen[-1]}))", "(eval (trap (with-current-module (quote shared) (quote default)) (. *trapped-signal* (quote conflicting-modules))))"]
        progs.append('\n'.join(forms))
    # allocation-heavy programs: deep lists built in tail loops, closures that outlive their creator, gensyms, output
    fixed = ["(defun build (n acc) \"\" (if (= n 0) acc (build (substract n 1) (cons n acc))))\n(length (build 3000 nil))\n(foldl add 0 (map (lambda (x) (multiply x x)) (build 500 nil)))",
             "(defun adder (n) \"\" (lambda (x) (add x n)))\n(define 'fs (map adder (range 50)) \"\")\n(map (lambda (f) (f 1)) fs)",
             "(define 'g (gensym) \"\")\n(list (= g g) (= g (gensym)) (= (quote a) (read-simple \"a\")) (print g))",
             "(reverse (map (lambda (x) (block (output (print x)) (list x (list x)))) (range 40)))",
             "(let (xs (range 300)) (list (length (zip xs (reverse xs))) (last (enumerate xs))))",
             "(map (lambda (s) (read-simple s)) (list \"(a b)\" \"12\" \"%c\" \"sym\"))",
             "(print (list (lambda (x) x) (make-trap 1 2) (gensym) car))"]
    progs += fixed
    for _ in range(n):
        g = Gen(rng, ALL, fault_rate=0.1)
        progs.append(g.program())
    return progs

def c02_correspond(run, rng, tier):
    known = dict(deep_nest_programs())
    progs = c02_programs(rng, 250 if tier == 'quick' else 4000) + list(known)
    scheds = ['natural', 'every:1', 'every:7', 'lcg:%d:40' % rng.randrange(1 << 30)] + (['every:2', 'lcg:%d:128' % rng.randrange(1 << 30)] if tier == 'thorough' else [])
    sessions, meta = [], []
    for p in progs:
        for sc in scheds:
            sessions.append(['new prelude', f'sched {sc}', 'poison 1', 'eval ' + hexs(p), 'sched natural', 'audit'])
            meta.append((p, sc))
    real = run_sessions(real_cmd(), sessions, 900, 12)
    # the model has no heap: one run per program is compared with all schedules of the real interpreter
    msessions = [['new prelude', 'sched natural', 'poison 1', 'eval ' + hexs(p), 'sched natural', 'audit'] for p in progs]
    model = run_sessions(model_cmd(), msessions, 900, 12, big_stack=True)
    diffs, failures = [], []
    failures += crash_failures(sessions, real)
    by_prog = {}
    for (p, sc), r in zip(meta, real):
        by_prog.setdefault(p, []).append((sc, [canon(x) for x in r]))
    for i, p in enumerate(progs):
        runs = by_prog[p]
        base_sc, base = runs[0]
        for sc, r in runs[1:]:
            if r[3:4] != base[3:4]:
                failures.append({'expression': p, 'schedules': [base_sc, sc], 'problem': 'the same program gives different results under two collection schedules',
                                 'under_first': (base[3] if len(base) > 3 else str(base))[:300], 'under_second': (r[3] if len(r) > 3 else str(r))[:300]})
                break
        if p in known:
            for sc, r in runs:
                res, _ = parse_eval(r[3] if len(r) > 3 else '')
                if not res or (res[-1][0], res[-1][1]) != ('ok', known[p]):
                    failures.append({'expression': p, 'schedules': [sc], 'expected': known[p], 'real': str(res[-1][:2] if res else r[3:4])[:300],
                                     'problem': 'a value held by several hundred handles at once was lost or altered'})
                    break
        for sc, r in runs:
            if r and not r[-1].startswith('ok'):
                failures.append({'expression': p, 'schedules': [sc], 'problem': 'handle audit / heap invariants after the run: ' + r[-1][:200]})
                break
        m = [canon(x) for x in model[i]]
        if m[3:4] != base[3:4]:
            diffs.append({'session': i, 'line': 3, 'request': sessions[i * len(scheds)][3], 'real': (base[3] if len(base) > 3 else str(base))[:2000], 'model': (m[3] if len(m) > 3 else str(m))[:2000]})
    # fresh processes: independent hash seeds and address-space layouts
    import subprocess
    proc_progs = [p for p in progs if 'load-all' in p][:10] + progs[-6:]
    nproc = 3 if tier == 'quick' else 10
    from concurrent.futures import ThreadPoolExecutor
    def one(p):
        expr = '(block ' + p.replace('\n', ' ') + ')'
        outs = []
        for _ in range(nproc):
            q = subprocess.run([lib.PLAIN_BIN, '--expression', expr], capture_output=True, timeout=300)
            outs.append(re.sub(r'0x[0-9a-f]+', '0x?', (q.stdout + b'|' + q.stderr).decode('utf-8', 'replace')))
        return p, outs
    with ThreadPoolExecutor(max_workers=8) as ex:
        for p, outs in ex.map(one, proc_progs):
            if len(set(outs)) != 1:
                failures.append({'expression': p, 'problem': 'fresh processes (independent hash seeds / address layouts) print different results', 'outputs': [o[:300] for o in sorted(set(outs))]})
    return {'evaluations': len(sessions) + len(proc_progs) * nproc, 'distinct_nontrivial': len(set(progs)),
            'rule': f'generated programs (prelude macros, strings, gensym, define, closures that outlive their creator, output, deep lists built in tail loops) and programs that load several modules defining the same name and ask whereis / trigger ambiguity reports, '
                    f'each under the collection schedules {scheds} with poisoned swept cells, compared with each other (the oracle), with the model, and followed by a handle audit; plus {nproc} fresh processes of the plain binary per program '
                    '(independent hash seeds and address-space layouts), outputs compared after masking 0x… address text',
            'samples': [progs[0][:300], progs[len(progs) // 2][:200]], 'disagreements': diffs, 'oracle_failures': failures,
            'distribution': {'programs': len(progs), 'schedules': len(scheds), 'process_runs': len(proc_progs) * nproc}}

spec('C02', correspond=c02_correspond, replay=generic_replay, modules=['C02', 'C14'], plain=True,
     search=lambda run, rng, d: c02_correspond(run, random.Random(rng.random()), 'quick')['oracle_failures'],
     trusted=HEAP_TRUST + ['real hash seeds and address-space layouts are runtime behaviour: exercised with fresh processes, not proved'],
     assumptions=['the Rust evaluator is a client of the heap API in the sense of the theorem (cells are reached only through GcRef handles): a fact of the Rust type system, checked dynamically by running it under forced collection schedules with poisoned swept cells',
                  'the only permitted variation is the address text inside the printed form of functions, traps and generated symbols (masked)'])
