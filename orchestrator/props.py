"""Per-property specifications: theorem modules, correspondence generators, independent oracles, searches."""
import itertools, os, random, re
import lib
from lib import hexs, unhex, run_sessions, real_cmd, model_cmd, compare, canon, Broken

SPECS = {}

def spec(name, **kw):
    SPECS[name] = kw


def matches_known(k, failure):
    """a known finding suppresses only failures that carry its tag (set by the oracle from the specific input / call site)"""
    return failure.get('finding') == k.get('id')


def finding_still_fails(k, result):
    return k.get('id') in result.get('findings_seen', set()) or k.get('always_report', False)


# ------------------------------------------------------------------------------------------------ helpers

def both(sessions, timeout=600, workers=12, stack=None):
    real = run_sessions(real_cmd(stack), sessions, timeout, workers)
    model = run_sessions(model_cmd(), sessions, timeout, workers, big_stack=True)
    return real, model


def parse_eval(line):
    """'r1 ;; r2 | end=.. out=.. cur=.. dbg=..' -> (list of (kind, printed_text, dump), trailer dict)"""
    if ' | end=' not in line and not line.startswith('| end='):
        return None, {'raw': line}
    head, _, tail = line.rpartition('| end=')
    results = []
    head = head.strip()
    if head:
        for tok in head.split(' ;; '):
            if tok == 'abort':
                results.append(('abort', '', ''))
                continue
            parts = tok.split(':', 2)
            if len(parts) == 3:
                kind, ph, dump = parts
                try:
                    text = unhex(ph).decode('utf-8', 'replace') if not ph.startswith('!') else ph
                except Exception:
                    text = ph
                results.append((kind, text, dump))
            else:
                results.append(('?', tok, ''))
    trailer = {}
    m = re.match(r'(\S+) out=(\S+) cur=(\S+) dbg=(.*)$', tail)
    if m:
        trailer = {'end': m.group(1), 'out': unhex(m.group(2)).decode('utf-8', 'replace'), 'cur': unhex(m.group(3)).decode('utf-8', 'replace'), 'dbg': m.group(4)}
    return results, trailer


def sym(s):
    return 'S' + hexs(s)

def err_dump(kind, source, *details):
    return '(' + ' '.join([sym('kind'), sym(kind), sym('source'), sym(source)] + list(details)) + ')'


def summarize(diffs, n=3):
    return [{k: (v if not isinstance(v, str) else v[:400]) for k, v in d.items()} for d in diffs[:n]]


# ================================================================================================ C12

I64MIN, I64MAX = -2**63, 2**63 - 1

def c12_boundary():
    import math
    vals = {0, 1, -1, 2, -2, I64MIN, I64MAX, I64MIN + 1, I64MAX - 1, 2**31, -2**31, 2**32, -2**32, 2**31 - 1, 2**32 + 1,
            3037000499, 3037000500, 3037000501, -3037000499, -3037000500, -3037000501,
            I64MAX // 2, I64MAX // 2 + 1, I64MAX // 2 - 1, I64MIN // 2, I64MIN // 2 + 1, I64MIN // 2 - 1,
            3, -3, 7, 10, -10, 255, 256, 65535, 65536, 2**62, -2**62, 2**62 - 1, 2**62 + 1, -2**62 - 1}
    for k in (1, 5, 9, 10, 15, 18):
        vals |= {10**k, -10**k, 10**k - 1, 10**k + 1}
    return sorted(vals)

def tdiv(x, y):
    q = abs(x) // abs(y)
    return q if (x < 0) == (y < 0) else -q

def c12_expected(op, x, y):
    """independent oracle (Python bigint): the dump the property prescribes"""
    name = {'add': 'add', 'sub': 'substract', 'mul': 'multiply', 'div': 'divide', 'lt': '<', 'gt': '>'}[op]
    if op in ('lt', 'gt'):
        v = (x < y) if op == 'lt' else (x > y)
        return ('ok', sym('t') if v else '()')
    if op == 'div' and y == 0:
        return ('sig', err_dump('divide-by-zero', 'divide'))
    z = {'add': lambda: x + y, 'sub': lambda: x - y, 'mul': lambda: x * y, 'div': lambda: tdiv(x, y)}[op]()
    if I64MIN <= z <= I64MAX:
        return ('ok', f'N{z}')
    return ('sig', err_dump('arithmetic-overflow', name))

def c12_cases(rng, tier):
    b = c12_boundary()
    ops = ['add', 'sub', 'mul', 'div', 'lt', 'gt']
    cases = [(op, x, y) for op in ops for x in b for y in b]
    n_rand = 20000 if tier == 'quick' else 400000
    for _ in range(n_rand):
        def rnd():
            bits = rng.randint(0, 64)
            v = rng.getrandbits(bits) if bits else 0
            v = v if rng.random() < 0.5 else -v
            return max(I64MIN, min(I64MAX, v))
        cases.append((rng.choice(ops), rnd(), rnd()))
    return cases

def c12_literals(rng):
    lits = [str(v) for v in c12_boundary()] + ['+5', '-0', '+0', '007', '-007', '9223372036854775808', '-9223372036854775809',
            '99999999999999999999999999999', '-99999999999999999999999999999', '+9223372036854775807', '1-', '1+2', '12a', '--1', '+-1', '1%']
    for _ in range(300):
        n = rng.randint(1, 22)
        lits.append(rng.choice(['', '-', '+']) + ''.join(rng.choice('0123456789') for _ in range(n)))
    return lits

def c12_literal_expected(lit):
    m = re.fullmatch(r'[+-]?[0-9]+', lit)
    if m:
        v = int(lit)
        if I64MIN <= v <= I64MAX:
            return ('value', v)
        return ('error', None)
    return (None, None)

def c12_correspond(run, rng, tier):
    cases = c12_cases(rng, tier)
    opname = {'add': 'add', 'sub': 'substract', 'mul': 'multiply', 'div': 'divide', 'lt': '<', 'gt': '>'}
    per = 250
    sessions = []
    index = []
    chunks = [cases[i:i + per] for i in range(0, len(cases), per)]
    group = 12
    for g in range(0, len(chunks), group):
        sess = ['new']
        idx = []
        for ch in chunks[g:g + group]:
            text = ' '.join(f'({opname[o]} {x} {y})' for (o, x, y) in ch)
            sess.append('eval ' + hexs(text))
            idx.append(ch)
        sessions.append(sess)
        index.append(idx)
    lits = c12_literals(rng)
    lit_sess = ['new'] + ['eval ' + hexs(l) for l in lits]
    sessions.append(lit_sess)
    real, model = both(sessions)
    diffs = compare(sessions, real, model)
    failures = []
    kinds = {}
    seen = set()
    for si, idx in enumerate(index):
        for li, ch in enumerate(idx):
            line = real[si][li + 1] if li + 1 < len(real[si]) else ''
            results, _ = parse_eval(line)
            if results is None or len(results) != len(ch):
                failures.append({'input': f'batch {si}/{li}', 'problem': 'driver did not answer every form', 'real': line[:300],
                                 'expression': ' '.join(f'({opname[o]} {x} {y})' for (o, x, y) in ch[:3]) + ' …'})
                continue
            for (o, x, y), (kind, text, dump) in zip(ch, results):
                ek, ed = c12_expected(o, x, y)
                kinds[ek + ':' + o] = kinds.get(ek + ':' + o, 0) + 1
                seen.add((o, x, y))
                if kind != ek or dump != ed or (ek == 'ok' and o not in ('lt', 'gt') and text != str(int(ed[1:]))):
                    failures.append({'expression': f'({opname[o]} {x} {y})', 'expected': f'{ek} {ed}', 'real': f'{kind} {dump} printed={text!r}',
                                     'replay_cmd': f"{lib.REPO}/target/debug/picilisp --expression '({opname[o]} {x} {y})'"})
    # literals: read + print round trip
    for li, lit in enumerate(lits):
        line = real[-1][li + 1] if li + 1 < len(real[-1]) else ''
        ek, ev = c12_literal_expected(lit)
        results, trailer = parse_eval(line)
        if ek == 'value':
            if not results or len(results) != 1 or results[0][0] != 'ok' or not results[0][2].endswith(f'N{ev}') or results[0][1] != str(ev):
                failures.append({'expression': lit, 'expected': f'reads as {ev} and prints as {ev}', 'real': line[:300]})
        elif ek == 'error':
            if results or not trailer.get('end', '').startswith('error:'):
                failures.append({'expression': lit, 'expected': 'read error (not representable)', 'real': line[:300]})
    return {'evaluations': len(cases) + len(lits), 'distinct_nontrivial': len(seen),
            'rule': 'all pairs of the boundary set x 6 operations, plus bit-length-uniform random pairs, plus integer literals around +-2^63; '
                    'a case is non-trivial if distinct (operation, x, y); every case is evaluated by the real natives, by the model and by a Python bigint oracle',
            'samples': [f'({opname[o]} {x} {y})' for (o, x, y) in rng.sample(cases, 5)] + lits[:2],
            'disagreements': diffs, 'oracle_failures': failures, 'distribution': kinds}

def c12_replay(run, content):
    fs = content.get('failures', [])
    exprs = [f['expression'] for f in fs if 'expression' in f]
    sessions = [['new'] + ['eval ' + hexs(e) for e in exprs]]
    real, model = both(sessions)
    for e, r in zip(exprs, real[0][1:]):
        print(e, '=>', r[:200])
    return {'evaluations': len(exprs), 'distinct_nontrivial': len(exprs), 'samples': exprs[:3], 'disagreements': compare(sessions, real, model), 'oracle_failures': [], 'rule': 'replay'}

spec('C12', correspond=c12_correspond, replay=c12_replay, search=lambda run, rng, d: c12_correspond(run, random.Random(rng.random()), 'quick')['oracle_failures'],
     modules=['C12'],
     trusted=['std: i64::checked_add/sub/mul/div modelled as two\'s-complement result + signed-overflow flag (BitVec 64)',
              'std: str::parse::<i64> modelled from core::num (from_ascii_radix)', 'the correspondence check (Python orchestrator, both drivers)'],
     assumptions=['numbers reach the natives only as i64 payloads (Val.num in range)'])


# ================================================================================================ C17

def c17_oracle(ops, outs):
    """spec: one FIFO of byte | boundary; returns a failure description or None"""
    fifo = []
    for op, out in zip(ops, outs):
        if op[0] == 'w':
            fifo += list(op[1])
            if out != f'wrote {len(op[1])}':
                return f'write answered {out}'
        elif op[0] == 'f':
            fifo.append('B')
            if out != 'flushed':
                return f'flush answered {out}'
        else:
            n = op[1]
            if not fifo:
                if out != 'timeout':
                    return f'read on an empty pipe answered {out!r}, expected timeout'
            elif fifo[0] == 'B':
                if out != 'zero':
                    return f'read at a boundary answered {out!r}, expected a zero-length read'
                fifo.pop(0)
            else:
                if not out.startswith('data '):
                    return f'read with bytes at the front answered {out!r}'
                got = list(unhex(out[5:]))
                k = len(got)
                if k == 0 or k > n or fifo[:k] != got:
                    return f'read({n}) delivered {got}, front of the FIFO is {fifo[:n + 1]}'
                del fifo[:k]
    return None

def c17_session(ops):
    lines = ['p new']
    for op in ops:
        if op[0] == 'w': lines.append('p w ' + hexs(bytes(op[1])))
        elif op[0] == 'f': lines.append('p f')
        else: lines.append(f'p r {op[1]}')
    return lines

def c17_correspond(run, rng, tier):
    alphabet = [('w', []), ('w', [1]), ('w', [2, 3]), ('w', [4, 5, 6]), ('f',), ('r', 1), ('r', 2), ('r', 4)]
    L = 5 if tier == 'quick' else 6
    seqs = []
    for n in range(1, L + 1):
        seqs += [list(s) for s in itertools.product(alphabet, repeat=n)]
    exhaustive_count = len(seqs)
    counter = [10]
    for _ in range(3000 if tier == 'quick' else 40000):
        n = rng.randint(6, 120)
        s = []
        for _ in range(n):
            k = rng.random()
            if k < 0.35:
                m = rng.choice([0, 1, 1, 2, 3, 5, 17])
                s.append(('w', [(counter[0] + i) % 256 for i in range(m)]))
                counter[0] += m
            elif k < 0.5: s.append(('f',))
            else: s.append(('r', rng.choice([1, 1, 2, 3, 4, 8, 64])))
        seqs.append(s)
    sessions = [c17_session(s) for s in seqs]
    # pack many small sessions into one process each
    real, model = both(sessions, workers=12)
    diffs = compare(sessions, real, model)
    failures = []
    dist = {'timeouts': 0, 'zero_reads': 0, 'short_reads': 0, 'data_reads': 0}
    for s, r in zip(seqs, real):
        outs = r[1:]
        for op, o in zip(s, outs):
            if o == 'timeout': dist['timeouts'] += 1
            elif o == 'zero': dist['zero_reads'] += 1
            elif o.startswith('data'):
                dist['data_reads'] += 1
                if len(unhex(o[5:])) < op[1]: dist['short_reads'] += 1
        why = c17_oracle(s, outs)
        if why:
            failures.append({'ops': [list(o) for o in s], 'problem': why, 'real': outs[:40]})
    return {'evaluations': len(seqs), 'distinct_nontrivial': len({str(s) for s in seqs if any(o[0] == 'r' for o in s) and any(o[0] != 'r' for o in s)}),
            'rule': f'every operation sequence of length <= {L} over write(0/1/2/3 bytes), flush, read(1/2/4) — exhaustive ({exhaustive_count}) — plus random sequences of length 6..120; '
                    'non-trivial = distinct sequence containing both a read and a write/flush; real pipe (Duration::ZERO) vs model vs a Python FIFO oracle',
            'samples': [str(seqs[rng.randrange(len(seqs))]) for _ in range(4)], 'disagreements': diffs, 'oracle_failures': failures,
            'distribution': dist, 'exhaustive': False}

def c17_replay(run, content):
    fs = content.get('failures', [])
    seqs = [[tuple([o[0]] + ([o[1]] if len(o) > 1 else [])) for o in f['ops']] for f in fs if 'ops' in f]
    sessions = [c17_session(s) for s in seqs]
    real, model = both(sessions)
    for s, r in zip(seqs, real):
        print(s, '=>', r[1:], 'oracle:', c17_oracle(s, r[1:]))
    return {'evaluations': len(seqs), 'distinct_nontrivial': len(seqs), 'samples': [str(s) for s in seqs[:3]], 'disagreements': compare(sessions, real, model),
            'oracle_failures': [{'ops': [list(o) for o in s], 'problem': c17_oracle(s, r[1:])} for s, r in zip(seqs, real) if c17_oracle(s, r[1:])], 'rule': 'replay'}

spec('C17', correspond=c17_correspond, replay=c17_replay, modules=['C17'],
     search=lambda run, rng, d: c17_correspond(run, random.Random(rng.random()), 'quick')['oracle_failures'],
     trusted=['std::sync::mpsc as an atomic FIFO (every access to shared state is one send/recv; the byte buffer is private to the reader)',
              'the correspondence check (Python orchestrator, both drivers)'],
     assumptions=['read buffers are non-empty (a zero-length buffer makes every read Ok(0): the Read contract)',
                  'thread interleavings are sequences of the atomic operations write/flush/read'])
