"""Shared machinery of the checks: translators, builds, axiom audit, drivers, canonicalisation, evidence,
known findings, verdicts.  Python 3 standard library only."""
import fcntl, json, os, re, resource, subprocess, sys, time, hashlib, random, binascii

VERIF = os.path.dirname(os.path.dirname(os.path.abspath(__file__)))
REPO = os.environ.get('VERIF_REPO', '/repo')
LEAN_DIR = os.path.join(VERIF, 'lean', 'PiciModel')
BUILD = os.path.join(VERIF, '.build')
TARGET = os.path.join(BUILD, 'target')
HOOKED_BIN = os.path.join(TARGET, 'debug', 'picilisp')
PLAIN_TARGET = os.path.join(BUILD, 'target-plain')
PLAIN_BIN = os.path.join(PLAIN_TARGET, 'debug', 'picilisp')
MODEL_BIN = os.path.join(LEAN_DIR, '.lake', 'build', 'bin', 'picimodel')
ALLOWED_AXIOMS = {'propext', 'Classical.choice', 'Quot.sound'}
ENV = dict(os.environ, CARGO_NET_OFFLINE='true')

sys.path.insert(0, os.path.join(VERIF, 'orchestrator'))


class Broken(Exception):
    """a proof obligation or a build no longer checks"""
    def __init__(self, what, detail=''):
        super().__init__(what)
        self.what = what
        self.detail = detail


def log(msg):
    print(f'[check] {msg}', file=sys.stderr, flush=True)


class Lock:
    def __init__(self, name):
        os.makedirs(BUILD, exist_ok=True)
        self.path = os.path.join(BUILD, name + '.lock')
    def __enter__(self):
        self.f = open(self.path, 'w')
        fcntl.flock(self.f, fcntl.LOCK_EX)
    def __exit__(self, *a):
        fcntl.flock(self.f, fcntl.LOCK_UN)
        self.f.close()


# ---------------------------------------------------------------- translators (regenerated every run)

def translate():
    from translate import config as tconfig, natives as tnatives, prelude as tprelude
    gen = os.path.join(LEAN_DIR, 'PiciModel', 'Generated')
    try:
        with Lock('translate'):
            tconfig.translate(REPO, os.path.join(gen, 'Config.lean'))
            tnatives.translate(REPO, os.path.join(gen, 'NativeTable.lean'))
            tprelude.translate(REPO, os.path.join(gen, 'Prelude.lean'))
    except Exception as e:
        raise Broken('translator', f'cannot translate /repo sources: {e}')
    # second stage: the closures whose stored bodies are macro-expanded at load time (prelude definitions that use macros,
    # all of debugger.lisp) are obtained from the model's own loader: build the model driver, let it load the current sources
    from translate import prelude_expanded as tpx
    lake_build(['picimodel'])
    try:
        with Lock('translate'):
            tpx.translate(MODEL_BIN, REPO, os.path.join(gen, 'PreludeExpanded.lean'))
            tpx.translate(MODEL_BIN, REPO, os.path.join(gen, 'DebuggerExpanded.lean'), module='debugger', namespace='DebuggerX', wanted=None)
            tpx.translate(MODEL_BIN, REPO, os.path.join(gen, 'ReplExpanded.lean'), module='repl', namespace='ReplX', wanted=None)
    except Exception as e:
        raise Broken('translator', f'the model cannot load the current prelude.lisp / debugger.lisp: {e}')


# ---------------------------------------------------------------- Lean: build + audit

def lake_build(targets):
    """build Lean targets; returns the build log; raises Broken with the failing output"""
    with Lock('lake'):
        p = subprocess.run(['lake', 'build'] + targets, cwd=LEAN_DIR, capture_output=True, text=True, env=ENV)
    if p.returncode != 0:
        raise Broken('lake build ' + ' '.join(targets), (p.stdout + p.stderr)[-6000:])
    return p.stdout + p.stderr


FORBIDDEN = re.compile(r'\b(sorry|admit|native_decide|bv_decide|implemented_by)\b|^\s*axiom\s|unsafe\s|maxHeartbeats\s+0\b', re.M)

def strip_comments(text):
    # remove block comments (nested) and line comments
    out = []
    i = 0
    depth = 0
    while i < len(text):
        if text.startswith('/-', i):
            depth += 1
            i += 2
        elif text.startswith('-/', i) and depth > 0:
            depth -= 1
            i += 2
        elif depth > 0:
            i += 1
        elif text.startswith('--', i):
            j = text.find('\n', i)
            i = len(text) if j < 0 else j
        else:
            out.append(text[i])
            i += 1
    return ''.join(out)


def theorems_of(module):
    """theorem names declared in PiciModel/<module path>.lean, with their namespace"""
    path = os.path.join(LEAN_DIR, *module.split('.')) + '.lean'
    text = strip_comments(open(path).read())
    names = []
    ns = []
    for m in re.finditer(r'^\s*(namespace\s+(\S+)|end\s+(\S+)|(?:@\[[^\]]*\]\s*)?(?:protected\s+|private\s+)?theorem\s+(\S+))', text, re.M):
        if m.group(2):
            ns.append(m.group(2))
        elif m.group(3):
            if ns and ns[-1] == m.group(3):
                ns.pop()
        elif m.group(4):
            names.append('.'.join(ns + [m.group(4)]))
    return names, text


def audit(modules):
    """forbidden-construct grep over every source the modules are made of, then `#print axioms` of every theorem
    of the given property modules.  Returns {theorem: [axioms]}; raises Broken on anything unexpected."""
    # grep over all model / lemma / property sources
    for root, _, files in os.walk(os.path.join(LEAN_DIR, 'PiciModel')):
        for f in files:
            if f.endswith('.lean'):
                body = strip_comments(open(os.path.join(root, f)).read())
                m = FORBIDDEN.search(body)
                if m:
                    raise Broken('audit', f'forbidden construct {m.group(0)!r} in {os.path.join(root, f)}')
    thms = []
    for mod in modules:
        names, _ = theorems_of(mod)
        thms += [(mod, n) for n in names]
    if not thms:
        raise Broken('audit', f'no theorems found in {modules}')
    os.makedirs(os.path.join(BUILD, 'audit'), exist_ok=True)
    tag = hashlib.sha1(' '.join(modules).encode()).hexdigest()[:10]
    path = os.path.join(BUILD, 'audit', f'Audit_{tag}.lean')
    with open(path, 'w') as f:
        for mod in modules:
            f.write(f'import {mod}\n')
        for _, n in thms:
            f.write(f'#print axioms {n}\n')
    p = subprocess.run(['lake', 'env', 'lean', path], cwd=LEAN_DIR, capture_output=True, text=True, env=ENV)
    if p.returncode != 0:
        raise Broken('audit', (p.stdout + p.stderr)[-4000:])
    result = {}
    text = p.stdout.replace('\n  ', ' ')
    for m in re.finditer(r"^'(.+?)' (does not depend on any axioms|depends on axioms: \[([^\]]*)\])", text, re.M):
        axioms = [a.strip() for a in (m.group(3) or '').split(',') if a.strip()]
        result[m.group(1)] = axioms
    for _, n in thms:
        if n not in result:
            raise Broken('audit', f'no axiom report for {n}:\n{p.stdout[-2000:]}')
        bad = [a for a in result[n] if a not in ALLOWED_AXIOMS]
        if bad:
            raise Broken('audit', f'theorem {n} depends on {bad}')
    return result


def leanchecker(modules):
    p = subprocess.run(['lake', 'env', 'leanchecker'] + modules, cwd=LEAN_DIR, capture_output=True, text=True, env=ENV)
    if p.returncode != 0:
        raise Broken('leanchecker', (p.stdout + p.stderr)[-3000:])


# ---------------------------------------------------------------- Rust builds

def cargo_build_hooked():
    with Lock('cargo-hooked'):
        p = subprocess.run(['cargo', 'rustc', '--bin', 'picilisp', '--offline', '--target-dir', TARGET, '--',
                            '--cfg', 'picilisp_verif', '-C', 'opt-level=2', '-C', 'debug-assertions=on', '-C', 'overflow-checks=on'],
                           cwd=REPO, capture_output=True, text=True, env=ENV)
    if p.returncode != 0:
        raise Broken('cargo build (hooked)', p.stderr[-6000:])


def cargo_build_plain():
    """the binary users run: plain `cargo build` (dev profile), no cfg"""
    with Lock('cargo-plain'):
        p = subprocess.run(['cargo', 'build', '--offline', '--target-dir', PLAIN_TARGET], cwd=REPO, capture_output=True, text=True, env=ENV)
    if p.returncode != 0:
        raise Broken('cargo build (plain)', p.stderr[-6000:])


# ---------------------------------------------------------------- drivers

def hexs(s):
    b = s.encode('utf-8') if isinstance(s, str) else bytes(s)
    return b.hex() if b else '-'

def unhex(h):
    return b'' if h == '-' else bytes.fromhex(h)


def _big_stack():
    try:
        resource.setrlimit(resource.RLIMIT_STACK, (resource.RLIM_INFINITY, resource.RLIM_INFINITY))
    except Exception:
        try:
            resource.setrlimit(resource.RLIMIT_STACK, (1 << 32, 1 << 32))
        except Exception:
            pass


def run_driver(cmd, lines, timeout, big_stack=False):
    """feed request lines to a driver; returns (response lines, returncode or 'timeout')"""
    data = ('\n'.join(lines) + '\n').encode()
    try:
        env = dict(os.environ, PICILISP_VERIF_WATCHDOG=os.environ.get('PICILISP_VERIF_WATCHDOG', '90'))
        p = subprocess.run(cmd, input=data, capture_output=True, timeout=timeout, preexec_fn=_big_stack if big_stack else None, env=env)
        # status 3: the real driver's watchdog — one request did not return (a hang of the interpreter)
        return p.stdout.decode('utf-8', 'replace').split('\n')[:-1], ('timeout' if p.returncode == 3 and cmd[0] == HOOKED_BIN else p.returncode)
    except subprocess.TimeoutExpired as e:
        out = (e.stdout or b'').decode('utf-8', 'replace').split('\n')
        return out[:-1], 'timeout'


def real_cmd(stack=None):
    return [HOOKED_BIN, '--verif-driver'] + ([str(stack)] if stack else [])

def model_cmd():
    return [MODEL_BIN, os.path.join(REPO, 'src')]


MAX_HANGS_PER_WORKER = 3

def run_sessions(cmd, sessions, timeout, workers=12, big_stack=False):
    """sessions: list of lists of request lines, each session self-contained (starts with `new`/`p new`).
    Returns a list (per session) of response-line lists; a session whose driver died or hung gets
    what was answered followed by 'DRIVER-DIED <rc>'.  Sessions are packed into `workers` processes."""
    from concurrent.futures import ThreadPoolExecutor
    n = len(sessions)
    results = [None] * n
    chunks = [list(range(i, n, workers)) for i in range(workers)]

    def work(idxs):
        pending = list(idxs)
        hangs = 0
        while pending:
            if hangs >= MAX_HANGS_PER_WORKER:
                # the implementation hangs again and again (only seen on broken trees): the sessions already recorded as
                # hung are reported; the rest of this worker's share is not run, so that the check ends in bounded time
                for i in pending:
                    results[i] = ['DRIVER-SKIPPED after repeated hangs']
                break
            lines = []
            for i in pending:
                lines += sessions[i]
            out, rc = run_driver(cmd, lines, timeout, big_stack)
            pos = 0
            died_at = None
            for k, i in enumerate(pending):
                need = len(sessions[i])
                got = out[pos:pos + need]
                if len(got) < need:
                    results[i] = got + [f'DRIVER-DIED {rc}']
                    died_at = k
                    if rc == 'timeout':
                        hangs += 1
                    break
                results[i] = got
                pos += need
            if died_at is None:
                break
            pending = pending[died_at + 1:]

    with ThreadPoolExecutor(max_workers=workers) as ex:
        list(ex.map(work, [c for c in chunks if c]))
    return results


HEXRUN = re.compile(r'(?<=[:=])([0-9a-f]{4,})')
ADDR = re.compile(rb'0x[0-9a-f]+')
# the same address text as a list of character codes inside a dump: `0x` followed by hex digits
ADDR_DUMP = re.compile(r'C48 C120(?: C(?:4[89]|5[0-7]|9[7-9]|10[0-2]))+')

# the printed name of a generated symbol used as a NAME (hex-encoded in dumps and snapshots): `#<symbol-0x…>` with the
# address digits masked, whatever precedes it
SYMNAME = re.compile('233c73796d626f6c2d3078(?:3[0-9]|6[1-6])+3e')
SYMNAME_MASKED = '#<symbol-0x?>'.encode().hex()
SPELLED = re.compile(rb'%0 \(cons %x(?: \(cons %[0-9a-f?])+')
SPELLED_MARK = b'%0 (cons %x (cons %?'
SPELLED_FLAT = re.compile(rb'%0 %x(?: %[0-9a-f?])+')
# … and the character dump of a STRING that contains such a spelled-out address (a printed text printed again):
# the characters of `%0 (cons %x (cons %5 (cons %6 …`
_CONS = ' C32 C40 C99 C111 C110 C115 C32 C37 '
SPELLED_DUMP = re.compile('C37 C48' + _CONS + 'C120(?:' + _CONS + '(?:C4[89]|C5[0-7]|C9[7-9]|C10[0-2]|C63))+')

def canon(line):
    """mask address text inside hex-encoded printed text (the only permitted variation)"""
    def fix(m):
        h = m.group(1)
        if len(h) % 2:
            return h
        raw = bytes.fromhex(h)
        if SPELLED.search(raw):
            # the address text spelled out as character data inside a printed improper list — (cons %0 (cons %x (cons %5 … —:
            # the digits collapse to one `%?` and, since every digit also contributes a closing parenthesis at the far end of
            # the chain, closing parentheses are not compared in such a text
            raw = SPELLED.sub(rb'%0 (cons %x (cons %?', raw).replace(b')', b'')
        if SPELLED_FLAT.search(raw):
            # the same inside a proper list that is not a string: (10 %# %< %s … %0 %x %5 %6 … %>)
            raw = SPELLED_FLAT.sub(rb'%0 %x %?', raw)
            return ADDR.sub(b'0x?', raw).hex()
        if b'0x' not in raw:
            return raw.hex() if SPELLED_MARK in raw else h
        return ADDR.sub(b'0x?', raw).hex()
    line = HEXRUN.sub(fix, line)
    line = SYMNAME.sub(SYMNAME_MASKED, line)
    line = ADDR_DUMP.sub('C48 C120 C63', line)
    if SPELLED_DUMP.search(line):
        line = SPELLED_DUMP.sub('C37 C48' + _CONS + 'C120' + _CONS + 'C63', line).replace(' C41', '')
    if line.startswith('PANIC '):
        return 'PANIC'
    if line.startswith('CRASH:'):
        return 'PANIC'
    if line.startswith('ok handles=') or line.startswith('LEAK handles='):
        return line.split(' ')[0]
    return line


def compare(sessions, real, model, ignore=None):
    """line-by-line comparison; returns list of disagreements (session index, line index, request, real, model)"""
    diffs = []
    for i, sess in enumerate(sessions):
        r, m = real[i], model[i]
        for j in range(max(len(r), len(m))):
            a = canon(r[j]) if j < len(r) else '<missing>'
            b = canon(m[j]) if j < len(m) else '<missing>'
            if ignore and j < len(sess) and ignore(sess[j]):
                continue
            if a != b:
                diffs.append({'session': i, 'line': j, 'request': sess[j] if j < len(sess) else '<none>', 'real': a[:2000], 'model': b[:2000]})
                break
    return diffs


# ---------------------------------------------------------------- known findings

def known_findings(prop):
    path = os.path.join(VERIF, 'known_findings.json')
    if not os.path.exists(path):
        return []
    return [f for f in json.load(open(path)) if f.get('property') == prop and f.get('status') == 'open']


# ---------------------------------------------------------------- evidence + verdict

class Run:
    def __init__(self, prop, tier, seed):
        self.prop = prop
        self.tier = tier
        self.seed = seed
        self.t0 = time.time()
        self.coverage = {}
        self.assumptions = []
        self.violations = []     # (kind, replay dict)
        self.known_hits = []

    def evidence(self, obligations, discharged, extra):
        cov = dict(self.coverage)
        cov.update(extra)
        cov['obligations'] = obligations
        cov['discharged'] = discharged
        ev = {'property_id': self.prop, 'tier': self.tier, 'seed': self.seed, 'level': 'proof', 'coverage': cov,
              'assumptions': self.assumptions, 'wall_s': round(time.time() - self.t0, 2), 'violations': len(self.violations)}
        os.makedirs(os.path.join(VERIF, 'evidence'), exist_ok=True)
        with open(os.path.join(VERIF, 'evidence', f'{self.prop}.json'), 'w') as f:
            json.dump(ev, f, indent=1, ensure_ascii=False)

    def write_replay(self, content):
        os.makedirs(os.path.join(VERIF, 'replays'), exist_ok=True)
        path = os.path.join(VERIF, 'replays', f'{self.prop}-{self.seed}.json')
        with open(path, 'w') as f:
            json.dump(content, f, indent=1, ensure_ascii=False)
        return path
