#!/usr/bin/env python3
"""Confirm a seeded breaking change and run the registered checks against it.

usage: seedcheck.py <scratch worktree> <PROPERTY> <seed id> [other properties to run too …]

1. in the scratch worktree (change applied by the sub-agent): the pinned test suite passes WITH the change; the demonstration
   fails WITH the change and passes WITHOUT it;
2. the patch is applied to /repo (git apply), the quick check of the property (and of the other listed properties) is run,
   and the patch is undone straight afterwards (git checkout -- . ; new files removed);
3. /verif/seeded/<seed id>/ gets patch.diff, the demonstration, and meta.json."""
import json, os, shutil, subprocess, sys, time

def sh(cmd, cwd=None, timeout=3600):
    try:
        p = subprocess.run(cmd, shell=True, cwd=cwd, capture_output=True, text=True, timeout=timeout, start_new_session=True)
        return p.returncode, (p.stdout + p.stderr)
    except subprocess.TimeoutExpired as e:
        return 124, ((e.stdout or b'').decode('utf-8', 'replace') if isinstance(e.stdout, bytes) else (e.stdout or '')) + '\nTIMEOUT'


def main():
    recheck = sys.argv[1] == '--recheck'      # seedcheck.py --recheck <seed id> <PROPERTY> [others]: the kept patch against the current checks
    if recheck:
        sid, prop = sys.argv[2], sys.argv[3].upper()
        wt = None
        seed = os.path.join('/verif/seeded', sid)
    else:
        wt, prop, sid = sys.argv[1], sys.argv[2].upper(), sys.argv[3]
        seed = os.path.join(wt, 'seed')
    others = [x.upper() for x in sys.argv[4:]]
    patch = os.path.join(seed, 'patch.diff')
    meta = {'property': prop, 'seed_id': sid, 'ran': []}
    def note(what, rc, out):
        meta['ran'].append({'command': what, 'exit': rc, 'tail': out[-600:]})
        print(f'[{rc}] {what}')
    if recheck:
        old = json.load(open(os.path.join(seed, 'meta.json')))
        meta['confirmed'] = old.get('confirmed')
        meta['confirmation_note'] = old.get('confirmation_note', 'confirmed in the scratch worktree by an earlier run of this script (see earlier_runs / the first meta)')
        meta['ran'] = [r for r in old.get('ran', []) if 'change applied to /repo' not in r['command'] and '/repo' not in r['command']]
        return checks_and_keep(meta, prop, others, sid, seed, patch, note)
    # --- 1. confirm in the scratch worktree
    rc, out = sh('git status --short | head -20', wt)
    rc, out = sh('cargo test --offline 2>&1 | grep -E "^test result|FAILED|failed" | head -20', wt)
    tests_ok = 'FAILED' not in out and 'failed;' not in out.replace('0 failed;', '')
    note('cargo test --offline (with the change)', 0 if tests_ok else 1, out)
    rc_with, out = sh('bash seed/run_demo.sh', wt)
    note('seed/run_demo.sh (with the change)', rc_with, out)
    rc, out = sh(f'git apply -R {patch}', wt)
    note('git apply -R patch.diff', rc, out)
    rc_without, out = sh('bash seed/run_demo.sh', wt)
    note('seed/run_demo.sh (without the change)', rc_without, out)
    rc, out = sh(f'git apply {patch}', wt)
    meta['confirmed'] = bool(tests_ok and rc_with != 0 and rc_without == 0)
    print('confirmed:', meta['confirmed'])
    return checks_and_keep(meta, prop, others, sid, seed, patch, note)


def checks_and_keep(meta, prop, others, sid, seed, patch, note):
    # --- 2. the registered checks against the change applied to /repo
    results = {}
    rc, out = sh('git status --short', '/repo')
    if out.strip():
        print('refusing: /repo is not clean:\n' + out)
        sys.exit(2)
    rc, out = sh(f'git apply {patch}', '/repo')
    note('git -C /repo apply patch.diff', rc, out)
    try:
        if rc == 0:
            for p in [prop] + others:
                t = time.time()
                rcc, outc = sh(f'./check {p} --tier quick', '/verif', timeout=2400)
                line = next((l for l in outc.split('\n') if l.startswith('VIOLATION')), '')
                results[p] = {'exit': rcc, 'violation_line': line, 'seconds': round(time.time() - t)}
                note(f'./check {p} --tier quick (change applied to /repo)', rcc, line or outc[-300:])
                if line and 'replay=' in line:
                    rp = line.split('replay=')[1].split(' ')[0]
                    try:
                        shutil.copy(rp, os.path.join('/verif/seeded', sid, f'replay-{p}.json')) if os.path.isdir(os.path.join('/verif/seeded', sid)) else None
                    except Exception:
                        pass
    finally:
        sh('git checkout -- . && git clean -fdq src tests', '/repo')
        rc, out = sh('git status --short', '/repo')
        note('git -C /repo checkout -- . (undo)', rc, out)
    meta['checks'] = results
    meta['detected_by'] = [p for p, r in results.items() if r['exit'] == 1 and r['violation_line']]
    # --- 3. keep it
    dst = os.path.join('/verif/seeded', sid)
    os.makedirs(dst, exist_ok=True)
    # keep what earlier runs (before a check was strengthened) found
    old_meta = os.path.join(dst, 'meta.json')
    if os.path.exists(old_meta):
        try:
            old = json.load(open(old_meta))
            meta['earlier_runs'] = old.get('earlier_runs', []) + [{'when': old.get('when'), 'detected_by': old.get('detected_by'), 'checks': old.get('checks')}]
        except Exception:
            pass
    meta['when'] = time.strftime('%Y-%m-%dT%H:%M:%SZ', time.gmtime())
    for f in os.listdir(seed):
        src = os.path.join(seed, f)
        if os.path.abspath(seed) == os.path.abspath(dst):
            break
        if os.path.isfile(src) and os.path.getsize(src) < 2_000_000:
            shutil.copy(src, os.path.join(dst, f))
        elif os.path.isdir(src) and sum(os.path.getsize(os.path.join(r, x)) for r, _, fs in os.walk(src) for x in fs) < 2_000_000:
            shutil.copytree(src, os.path.join(dst, f), dirs_exist_ok=True)
    for p, r in results.items():
        if r['violation_line'] and 'replay=' in r['violation_line']:
            rp = r['violation_line'].split('replay=')[1].split(' ')[0]
            if os.path.exists(rp):
                shutil.copy(rp, os.path.join(dst, f'replay-{p}.json'))
    notes = open(os.path.join(seed, 'notes.md')).read() if os.path.exists(os.path.join(seed, 'notes.md')) else ''
    meta['needs_to_manifest'] = notes[:1500]
    json.dump(meta, open(os.path.join(dst, 'meta.json'), 'w'), indent=1, ensure_ascii=False)
    print(json.dumps({'confirmed': meta['confirmed'], 'detected_by': meta['detected_by'], 'checks': results}, indent=1))

if __name__ == '__main__':
    main()
