"""State-aware generator of heap-operation histories for the `h …` requests of both drivers.

The generator keeps its own shadow of the client's slots (which slot holds what kind of value) so that structure
building operations pick live operands, biased to recently created ones, and so that drops create garbage that hangs
off live data.  Every random choice comes from the `random.Random` handed in."""
from lib import hexs

NAMES = ['a', 'b', 'c', 'foo', 'bar', 'lambda', 'x', 'y', 'long-symbol-name', 'k', 'λ', '&']
# long names that agree on a long prefix (8 … 300 characters) and differ only after it, or of which one is a prefix of the
# other: same name = same symbol, and nothing less than the whole name decides it
NAMES += [('p%d-' % n) * 1 + 'q' * n + t for n in (8, 16, 31, 32, 40, 63, 64, 100, 255, 256, 300) for t in ('', 'x', 'y')]
NAMES += ['λ' * 20 + 'a', 'λ' * 20 + 'b', 'λ' * 41 + 'a', 'λ' * 41 + 'b']


class HeapGen:
    def __init__(self, rng, symbol_heavy=False, max_slots=40):
        self.r = rng
        self.symbol_heavy = symbol_heavy
        self.max_slots = max_slots
        self.slots = {}          # index -> kind ('num','chr','cons','sym','gensym','fn','trap','meta:<kind>')
        self.globals = set()
        self.lines = []
        self.counts = {}

    def note(self, k):
        self.counts[k] = self.counts.get(k, 0) + 1

    def free_slot(self):
        for i in range(self.max_slots):
            if i not in self.slots:
                return i
        return self.r.randrange(self.max_slots)

    def pick(self, pred=None, allow_nil=True):
        live = [i for i, k in self.slots.items() if pred is None or pred(k)]
        if not live or (allow_nil and self.r.random() < 0.15):
            return '_' if allow_nil else None
        live.sort()
        # bias to recently created slots
        if self.r.random() < 0.5:
            return str(self.r.choice(live[-5:]))
        return str(self.r.choice(live))

    def is_symbol(self, k):
        return k in ('sym', 'gensym', 'symtwin', 'meta:sym', 'meta:gensym', 'meta:symtwin')

    def emit(self, line):
        self.lines.append('h ' + line)

    def op(self):
        r = self.r
        k = r.random()
        weights = [('alloc', 0.45), ('clonedrop', 0.27), ('global', 0.1), ('collect', 0.08), ('sym', 0.1)]
        if self.symbol_heavy:
            weights = [('alloc', 0.25), ('clonedrop', 0.3), ('global', 0.1), ('collect', 0.1), ('sym', 0.25)]
        acc = 0
        kind = 'alloc'
        for name, w in weights:
            acc += w
            if k < acc:
                kind = name
                break
        getattr(self, 'op_' + kind)()

    def op_alloc(self):
        r = self.r
        d = self.free_slot()
        c = r.random()
        if c < 0.2:
            self.emit(f'num {d} {r.choice([0, 1, -1, 42, 2**62, -2**63, r.randint(-1000, 1000)])}')
            self.slots[d] = 'num'
        elif c < 0.27:
            self.emit(f'chr {d} {r.choice([97, 10, 955, 0x1F600, 40])}')
            self.slots[d] = 'chr'
        elif c < 0.6:
            self.emit(f'cons {d} {self.pick()} {self.pick()}')
            self.slots[d] = 'cons'
        elif c < 0.7:
            self.emit(f'trap {d} {self.pick()} {self.pick()}')
            self.slots[d] = 'trap'
        elif c < 0.85:
            params = []
            for _ in range(r.randint(0, 3)):
                p = self.pick(self.is_symbol, allow_nil=False)
                if p is not None:
                    params.append(p)
            rest = '1' if params and r.random() < 0.3 else '0'
            kind = r.choice(['lambda', 'lambda', 'macro'])
            self.emit(f'fn {d} {kind} {rest} {self.pick()} {self.pick()} {hexs(r.choice(["default", "prelude", "m"]))} {",".join(params) if params else "-"}')
            self.slots[d] = 'fn'
        else:
            src = self.pick(lambda k: not k.startswith('meta:') and k != 'unknown', allow_nil=True)
            kind = self.slots.get(int(src), 'nil') if src != '_' else 'nil'
            self.emit(f'meta {d} {src} {hexs(r.choice(["x", "name", ""]))} {hexs(r.choice(["", "doc"]))} {r.randint(1, 9)} {r.randint(1, 40)}')
            self.slots[d] = 'meta:' + kind
        self.note('alloc')

    def op_sym(self):
        r = self.r
        d = self.free_slot()
        if r.random() < 0.75:
            self.emit(f'sym {d} {hexs(r.choice(NAMES))}')
            self.slots[d] = 'sym'
            self.note('intern')
        else:
            self.emit(f'gensym {d}')
            self.slots[d] = 'gensym'
            self.note('gensym')
            if not getattr(self, 'twinned', False) and r.random() < 0.35:
                # the printed name of this generated symbol (#<symbol-0x…>) interned as an ordinary named symbol, as the reader
                # does when such a text is typed back in; at most one generated symbol per history gets such a twin
                self.twinned = True
                t = self.free_slot()
                self.emit(f'symprint {t} {d}')
                self.slots[t] = 'symtwin'
                self.note('intern')
                self.emit(f'symeq {t} {d}')
        twins = [i for i, k in self.slots.items() if k == 'symtwin']
        if twins and r.random() < 0.3:
            # the same name again, later — possibly after the generated symbol itself was reclaimed
            t = self.free_slot()
            self.emit(f'symprint {t} {r.choice(twins)}')
            self.slots[t] = 'symtwin'
            self.note('intern')
            self.emit(f'symeq {t} {r.choice(twins)}')
        if r.random() < 0.4:
            a = self.pick(self.is_symbol, allow_nil=False)
            b = self.pick(self.is_symbol, allow_nil=False)
            if a is not None and b is not None:
                self.emit(f'symeq {a} {b}')
                self.note('symeq')

    def op_clonedrop(self):
        r = self.r
        if self.slots and r.random() < 0.62:
            # drops are biased to old slots, so that garbage hangs off newer live data
            live = sorted(self.slots)
            i = r.choice(live[:max(1, len(live) // 2)]) if r.random() < 0.6 else r.choice(live)
            self.emit(f'drop {i}')
            del self.slots[i]
            self.note('drop')
        elif self.slots:
            s = self.pick(allow_nil=False)
            d = self.free_slot()
            c = r.random()
            kind = self.slots[int(s)]
            if c < 0.5:
                self.emit(f'clone {d} {s}')
                self.slots[d] = kind
                self.note('clone')
            elif kind in ('cons', 'meta:cons'):
                which = r.choice(['car', 'cdr'])
                self.emit(f'{which} {d} {s}')
                # the component's kind is unknown to the generator: peek tells, and unknown kinds are never used as parameters
                self.slots[d] = 'unknown'
                self.emit(f'peek {d}')
                self.note('accessor')
            else:
                self.emit(f'peek {s}')
                self.note('peek')

    def op_global(self):
        r = self.r
        if self.globals and r.random() < 0.4:
            n = r.choice(sorted(self.globals))
            if r.random() < 0.6:
                self.emit(f'undef {hexs(n)}')
                self.globals.discard(n)
                self.note('undefine')
            else:
                d = self.free_slot()
                self.emit(f'getglobal {d} {hexs(n)} {hexs("default")}')
                self.slots[d] = 'unknown'
                self.note('getglobal')
        else:
            n = r.choice(['g1', 'g2', 'g3', 'g4'])
            self.emit(f'def {hexs(n)} {self.pick()}')
            self.globals.add(n)
            self.note('define')

    def op_collect(self):
        self.emit('collect')
        self.emit('snap')
        self.emit('inv')
        self.lines.append('audit')       # every handle belongs to a slot of the client or to a definition
        self.note('collect')

    def history(self, n_ops, every=0):
        self.lines = ['new empty', f'sched {"every:%d" % every if every else "natural"}', 'poison 1']
        for _ in range(n_ops):
            self.op()
            if self.r.random() < 0.12:
                self.emit('snap')
        self.emit('collect')
        self.emit('snap')
        self.emit('inv')
        self.lines.append('audit')
        for i in sorted(self.slots):
            self.emit(f'peek {i}')
        return self.lines
