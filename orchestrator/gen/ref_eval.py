"""Reference evaluator of the core language (C05), written from the property — NOT from src/native/eval/mod.rs:
operator first, operands left to right (first signal wins), lexical scope (a closure sees the bindings of its creation
site; inner bindings shadow outer and global ones; the caller's variables are invisible), exact arity unless a rest
parameter collects the surplus.  Values are Python objects; programs are parsed with the reference reader.

run_program(text) -> list of outcomes, one per top-level form: ('ok', printed) | ('sig', kind, source)"""
from gen import reader_ref

I64MIN, I64MAX = -2**63, 2**63 - 1


class Sym:
    __slots__ = ('name',)
    _table = {}
    def __new__(cls, name):
        s = cls._table.get(name)
        if s is None:
            s = object.__new__(cls)
            s.name = name
            cls._table[name] = s
        return s

class Chr:
    def __init__(self, c): self.c = c
    def __eq__(self, o): return isinstance(o, Chr) and o.c == self.c
    def __hash__(self): return hash(('chr', self.c))

class Cons:
    __slots__ = ('car', 'cdr')
    def __init__(self, a, d): self.car, self.cdr = a, d

class Closure:
    def __init__(self, params, rest, body, env): self.params, self.rest, self.body, self.env = params, rest, body, env

class Prim:
    def __init__(self, name): self.name = name

class Signal(Exception):
    def __init__(self, kind, source): self.kind, self.source = kind, source

class UserSignal(Exception):
    def __init__(self, payload): self.payload = payload

class Abort(Exception):
    pass

NIL = None
T = Sym('t')


def from_datum(d):
    k = d[0]
    if k == 'num': return d[1]
    if k == 'chr': return Chr(d[1])
    if k == 'sym': return Sym(d[1])
    if k == 'str':
        r = NIL
        for c in reversed(d[1]):
            r = Cons(Chr(c), r)
        return Cons(Sym('list'), r)
    if k == 'quote': return Cons(Sym('quote'), Cons(from_datum(d[1]), NIL))
    r = NIL
    for x in reversed(d[1]):
        r = Cons(from_datum(x), r)
    return r


def to_pylist(v):
    out = []
    while isinstance(v, Cons):
        out.append(v.car)
        v = v.cdr
    return out if v is NIL else None


def show(v):
    """the printed form the property prescribes (addresses masked)"""
    if v is NIL: return '()'
    if isinstance(v, bool): return '?'
    if isinstance(v, int): return str(v)
    if isinstance(v, Chr):
        return '%' + {'\t': '\\t', '\n': '\\n', '\r': '\\r', ' ': '\\s', '\\': '\\\\'}.get(v.c, v.c)
    if isinstance(v, Sym): return v.name
    if isinstance(v, (Closure, Prim)): return '#<lambda-0x?>'
    items = to_pylist(v)
    if items is not None:
        body = items[1:] if items and items[0] is Sym('list') else items
        if all(isinstance(x, Chr) for x in body):
            return '"' + ''.join(('\\' + x.c) if x.c in '"\\' else x.c for x in body) + '"'
        return '(' + ' '.join(show(x) for x in items) + ')'
    return show_atom(v)

def show_atom(v):
    if isinstance(v, Cons):
        return f'(cons {show_atom(v.car)} {show_atom(v.cdr)})'
    return show(v)


def equal(a, b):
    if a is NIL or b is NIL: return a is NIL and b is NIL
    if isinstance(a, bool) or isinstance(b, bool): return False
    if isinstance(a, int) and isinstance(b, int): return a == b
    if isinstance(a, Chr) and isinstance(b, Chr): return a.c == b.c
    if isinstance(a, Sym) and isinstance(b, Sym): return a is b
    if isinstance(a, Cons) and isinstance(b, Cons):
        return equal(a.car, b.car) and equal(a.cdr, b.cdr)
    return False


def type_name(v):
    if v is NIL: return 'nil'
    if isinstance(v, int): return 'number'
    return type(v).__name__


PRIMS = {}

def prim(name, n):
    def deco(f):
        def call(args):
            if n is not None and len(args) != n:
                raise Signal('wrong-number-of-arguments', name)
            return f(*args)
        PRIMS[name] = call
        return f
    return deco

def num(x, src):
    if isinstance(x, bool) or not isinstance(x, int):
        raise Signal('wrong-argument-type', src)
    return x

def checked(z, src):
    if not (I64MIN <= z <= I64MAX):
        raise Signal('arithmetic-overflow', src)
    return z

@prim('cons', 2)
def _cons(a, d): return Cons(a, d)
@prim('car', 1)
def _car(c):
    if not isinstance(c, Cons): raise Signal('wrong-argument-type', 'car')
    return c.car
@prim('cdr', 1)
def _cdr(c):
    if not isinstance(c, Cons): raise Signal('wrong-argument-type', 'cdr')
    return c.cdr
PRIMS['list'] = lambda args: from_list(args)
@prim('add', 2)
def _add(x, y):
    x = num(x, 'add'); y = num(y, 'add'); return checked(x + y, 'add')
@prim('substract', 2)
def _sub(x, y):
    x = num(x, 'substract'); y = num(y, 'substract'); return checked(x - y, 'substract')
@prim('multiply', 2)
def _mul(x, y):
    x = num(x, 'multiply'); y = num(y, 'multiply'); return checked(x * y, 'multiply')
@prim('divide', 2)
def _div(x, y):
    x = num(x, 'divide'); y = num(y, 'divide')
    if y == 0: raise Signal('divide-by-zero', 'divide')
    q = abs(x) // abs(y)
    return checked(q if (x < 0) == (y < 0) else -q, 'divide')
@prim('<', 2)
def _lt(x, y):
    x = num(x, '<'); y = num(y, '<'); return T if x < y else NIL
@prim('>', 2)
def _gt(x, y):
    x = num(x, '>'); y = num(y, '>'); return T if x > y else NIL
@prim('=', 2)
def _eq(a, b): return T if equal(a, b) else NIL
@prim('signal', 1)
def _signal(v):
    if v is NIL: raise Signal('wrong-argument-type', 'signal')
    raise UserSignal(v)
@prim('abort', 0)
def _abort(): raise Abort()

def from_list(xs):
    r = NIL
    for x in reversed(xs):
        r = Cons(x, r)
    return r


class Interp:
    def __init__(self):
        self.globals = {}

    def lookup(self, s, env):
        while env is not None:
            frame, env = env
            if s in frame:
                return frame[s]
        if s.name in self.globals:
            return self.globals[s.name]
        if s.name in PRIMS or s.name in ('define', 'eval'):
            return Prim(s.name)
        raise Signal('unbound-symbol', 'eval')

    def make_lambda(self, operands, env):
        if len(operands) != 2:
            raise Signal('wrong-number-of-arguments', 'lambda')
        ps = to_pylist(operands[0])
        if ps is None:
            raise Signal('wrong-argument-type', 'lambda')
        params, rest = [], None
        n = len(ps)
        i = 0
        while i < n:
            p = ps[i]
            if not isinstance(p, Sym):
                raise Signal('param-is-not-symbol', 'lambda')
            if p is Sym('&'):
                if i + 2 == n:
                    if not isinstance(ps[i + 1], Sym):
                        raise Signal('param-is-not-symbol', 'lambda')
                    rest = ps[i + 1]
                    break
                if i + 2 > n:
                    raise Signal('missing-rest-parameter', 'lambda')
                raise Signal('multiple-rest-parameters', 'lambda')
            params.append(p)
            i += 1
        return Closure(params, rest, operands[1], env)

    def eval(self, e, env):
        while True:
            if e is NIL or isinstance(e, (int, Chr, Closure, Prim)):
                return e
            if isinstance(e, Sym):
                return self.lookup(e, env)
            items = to_pylist(e)
            if items is None:
                # an improper cons: both halves are evaluated
                return Cons(self.eval(e.car, env), self.eval(e.cdr, env))
            head, operands = items[0], items[1:]
            if head is Sym('lambda'):
                return self.make_lambda(operands, env)
            if head is Sym('quote'):
                if len(operands) != 1: raise Signal('wrong-number-of-arguments', 'quote')
                return operands[0]
            if head is Sym('if'):
                if len(operands) != 3: raise Signal('wrong-number-of-arguments', 'if')
                c = self.eval(operands[0], env)
                e = operands[1] if c is not NIL else operands[2]
                continue
            if head is Sym('trap'):
                raise NotImplementedError('trap is outside the core language')
            f = self.eval(head, env)                              # operator first
            if not isinstance(f, (Closure, Prim)):
                raise Signal('eval-bad-operator', 'eval')
            args = [self.eval(x, env) for x in operands]          # then the operands, left to right
            if isinstance(f, Prim):
                if f.name == 'define':
                    return self.define(args)
                if f.name == 'eval':
                    if len(args) != 1: raise Signal('wrong-number-of-arguments', 'eval')
                    e = args[0]
                    continue
                return PRIMS[f.name](args)
            # a closure: parameters bound over the CLOSURE's environment; exact arity unless a rest parameter takes the surplus
            if len(args) < len(f.params) or (f.rest is None and len(args) > len(f.params)):
                raise Signal('wrong-number-of-arguments', '#<function>')
            frame = {}
            new_env = f.env
            for p, a in zip(f.params, args):
                new_env = ({p: a}, new_env)                       # later parameters shadow earlier ones of the same name
            if f.rest is not None:
                new_env = ({f.rest: from_list(args[len(f.params):])}, new_env)
            e, env = f.body, new_env

    def define(self, args):
        if len(args) != 3: raise Signal('wrong-number-of-arguments', 'define')
        name, value, doc = args
        if not isinstance(name, Sym): raise Signal('wrong-argument-type', 'define')
        d = to_pylist(doc)
        if d is None or not all(isinstance(x, Chr) for x in (d[1:] if d and d[0] is Sym('list') else d)):
            raise Signal('wrong-argument-type', 'define')
        if name.name in self.globals: raise Signal('already-defined', 'define')
        self.globals[name.name] = value
        return Sym('ok')


def run_program(text):
    """outcomes of the top-level forms, or None when the text is outside what the reference covers"""
    it = Interp()
    out = []
    pos, line, col = 0, 1, 1
    while True:
        r = reader_ref.read_ref(text[pos:], line, col)
        if r['status'] == 'nothing':
            return out
        if r['status'] != 'ok' or r.get('quirk'):
            return None
        form = from_datum(r['datum'])
        try:
            out.append(('ok', show(it.eval(form, None))))
        except Signal as s:
            out.append(('sig', s.kind, s.source))
        except UserSignal as u:
            # a signal whose payload happens to look like an interpreter error is reported the same way by the comparison
            import re as _re
            m = _re.match(r'\(kind (\S+) source (\S+?)[ )]', show(u.payload))
            out.append(('sig', m.group(1), m.group(2)) if m else ('sig', show(u.payload), ''))
        except Abort:
            out.append(('abort',))
        except (NotImplementedError, RecursionError):
            return None
        pos += r['rest']
        line, col = r['line'], r['col']
