"""Reference reader: the grammar of PiciLisp as the documentation of `read` and DESIGN §5/C11 fix it, written as a
regular-expression tokenizer plus a recursive-descent parser — deliberately NOT a transcription of the state machine in
src/native/read/mod.rs.  Used as the independent oracle of C10/C11.

read_ref(text, line, col) -> dict(status=ok|nothing|incomplete|error, datum=..., rest=offset, line=..., col=..., quirk=bool)

Data: ('num', n, pos) ('chr', c, pos) ('sym', s, pos) ('str', s, pos) ('list', [..]) ('quote', x)
`quirk` is set when the text contains a quote token directly followed by another quote or by a closing parenthesis:
there the implementation is known to deviate (known finding F5: a single `quoted` flag)."""
import re

WS = {chr(c) for c in list(range(9, 14)) + [32, 0x85, 0xA0, 0x1680] + list(range(0x2000, 0x200B)) + [0x2028, 0x2029, 0x202F, 0x205F, 0x3000]}
DELIM = WS | set(';()"\',')
I64MIN, I64MAX = -2**63, 2**63 - 1


class Incomplete(Exception):
    pass

class ReadErr(Exception):
    def __init__(self, msg, pos):
        self.msg, self.pos = msg, pos


class Lexer:
    def __init__(self, text, line, col):
        self.t = text
        self.i = 0
        self.line = line
        self.col = col          # column of the next character, 1-based

    def pos(self):
        return (self.line, self.col)

    def adv(self):
        c = self.t[self.i]
        self.i += 1
        if c == '\n':
            self.line += 1
            self.col = 1
        else:
            self.col += 1
        return c

    def skip_blank(self):
        while self.i < len(self.t):
            c = self.t[self.i]
            if c in WS or c == ',':
                self.adv()
            elif c == ';':
                while self.i < len(self.t) and self.t[self.i] != '\n':
                    self.adv()
            else:
                break

    def token(self):
        """returns (kind, value, pos) or None at end of text"""
        self.skip_blank()
        if self.i >= len(self.t):
            return None
        pos = self.pos()
        c = self.t[self.i]
        if c in "()'":
            self.adv()
            return ({'(': 'open', ')': 'close', "'": 'quote'}[c], None, pos)
        if c == '"':
            self.adv()
            out = []
            while True:
                if self.i >= len(self.t):
                    raise Incomplete()
                p = self.pos()
                ch = self.adv()
                if ch == '"':
                    return ('str', ''.join(out), pos)
                if ch == '\\':
                    if self.i >= len(self.t):
                        raise Incomplete()
                    p = self.pos()
                    e = self.adv()
                    m = {'"': '"', 'n': '\n', 'r': '\r', 't': '\t', '\\': '\\'}
                    if e not in m:
                        raise ReadErr(f"'{e}' is not a valid escape character in a string literal", p)
                    out.append(m[e])
                else:
                    out.append(ch)
        if c == '%':
            self.adv()
            if self.i >= len(self.t):
                raise Incomplete()
            last = self.pos()
            body = [self.adv()]                 # the character after % is literal, whatever it is
            while self.i < len(self.t) and self.t[self.i] not in DELIM:
                last = self.pos()
                body.append(self.adv())
            s = ''.join(body)
            esc = {'\\n': '\n', '\\t': '\t', '\\s': ' ', '\\r': '\r', '\\\\': '\\'}
            if s in esc:
                return ('chr', esc[s], pos)
            if len(s) == 1:
                return ('chr', s, pos)
            raise ReadErr(f"invalid character: '%{s}'", last)
        # an atom: a maximal run of non-delimiters
        start = self.i
        last = pos
        first_bad = None
        numeric = None
        while self.i < len(self.t) and self.t[self.i] not in DELIM:
            ch = self.t[self.i]
            run = self.t[start:self.i]
            # is the run so far committed to being a number?  a digit first, or a sign, any of + - %, then a digit
            committed = re.fullmatch(r'[0-9].*|[+-][+\-%]*[0-9].*', run, re.S) is not None
            if ch == '\\':
                raise ReadErr("unexpected character: '\\'", self.pos())
            if committed and not (ch.isascii() and ch.isdigit()) and ch not in '+-%':
                raise ReadErr(f"unexpected character in number literal: '{ch}'", self.pos())
            last = self.pos()
            self.adv()
        s = self.t[start:self.i]
        if re.fullmatch(r'[0-9].*|[+-][+\-%]*[0-9].*', s, re.S):
            if re.fullmatch(r'[+-]?[0-9]+', s) and I64MIN <= int(s) <= I64MAX:
                return ('num', int(s), pos)
            raise ReadErr('invalid number', last)
        return ('sym', s, pos)


def has_quirk(text):
    """a quote TOKEN directly followed (blanks, commas and comments apart) by a quote token or a closing parenthesis, or a
    backslash directly followed by a newline inside a string literal — decided with the lexer itself, so that quotes inside
    strings, comments, character literals and symbols such as `a%` are told apart exactly"""
    if re.search(r'\\\n', text) and '"' in text:
        # F25 concerns the POSITION of that error only; it is matched separately by the caller
        pass
    lx = Lexer(text, 1, 1)
    prev = None
    try:
        while True:
            tok = lx.token()
            if tok is None:
                return False
            if prev == 'quote' and tok[0] in ('quote', 'close'):
                return True
            prev = tok[0]
    except (Incomplete, ReadErr):
        return False


def read_ref(text, line=1, col=1):
    lx = Lexer(text, line, col)
    quirk = has_quirk(text)
    def form(tok):
        kind, val, pos = tok
        if kind in ('num', 'chr', 'sym', 'str'):
            return (kind, val, pos)
        if kind == 'quote':
            nxt = lx.token()
            if nxt is None:
                raise Incomplete()
            return ('quote', form(nxt))
        if kind == 'open':
            items = []
            while True:
                nxt = lx.token()
                if nxt is None:
                    raise Incomplete()
                if nxt[0] == 'close':
                    return ('list', items)
                items.append(form(nxt))
        raise ReadErr('too many closing parentheses', pos)
    try:
        tok = lx.token()
        if tok is None:
            return {'status': 'nothing', 'quirk': quirk}
        d = form(tok)
        return {'status': 'ok', 'datum': d, 'rest': lx.i, 'line': lx.line, 'col': lx.col, 'quirk': quirk}
    except Incomplete:
        return {'status': 'incomplete', 'quirk': quirk}
    except ReadErr as e:
        return {'status': 'error', 'msg': e.msg, 'pos': e.pos, 'quirk': quirk}


# ---------------------------------------------------------------- the dump of the real reader's result, parsed back

def parse_dump(s):
    """parse the canonical dump text of a value into nested Python data:
    ('num', n, meta) ('chr', c, meta) ('sym', s, meta) ('nil',) ('cons', a, d) with meta = (readname, loc) or None"""
    pos = 0
    def skip():
        nonlocal pos
        while pos < len(s) and s[pos] == ' ':
            pos += 1
    def value(meta=None):
        nonlocal pos
        skip()
        if s.startswith('M{', pos):
            j = s.index('}', pos)
            rn, loc, doc = s[pos + 2:j].split(',')
            pos = j + 1
            return value((bytes.fromhex(rn).decode() if rn != '-' else '', loc))
        if s.startswith('()', pos):
            pos += 2
            return ('nil', meta)
        if s[pos] == '(':
            pos += 1
            return lst(meta)
        m = re.match(r'N(-?\d+)', s[pos:])
        if m:
            pos += m.end()
            return ('num', int(m.group(1)), meta)
        m = re.match(r'C(\d+)', s[pos:])
        if m:
            pos += m.end()
            return ('chr', chr(int(m.group(1))), meta)
        m = re.match(r'S([0-9a-f]+|-)', s[pos:])
        if m:
            pos += m.end()
            return ('sym', bytes.fromhex(m.group(1)).decode() if m.group(1) != '-' else '', meta)
        m = re.match(r'[A-Z][^ )]*', s[pos:])
        pos += m.end() if m else 1
        return ('other', m.group(0) if m else '?', meta)
    def lst(meta):
        nonlocal pos
        items = []
        while True:
            skip()
            if s.startswith(' . ', pos - 1) or s.startswith('. ', pos):
                pos = s.index('. ', pos - 1) + 2
                tail = value()
                skip()
                assert s[pos] == ')'
                pos += 1
                r = tail
                break
            if s[pos] == ')':
                pos += 1
                r = ('nil', None)
                break
            items.append(value())
        for x in reversed(items):
            r = ('cons', x, r)
        if meta is not None and r[0] == 'cons':
            return ('metacons', r, meta)
        return r
    v = value()
    return v


def same_datum(ref, real, src='stdin'):
    """does the parsed dump `real` denote the reference datum `ref`, with every atom tagged by its position?"""
    def loc(pos):
        return f'{src}:{pos[0]}:{pos[1]}'
    kind = ref[0]
    if kind in ('num', 'chr', 'sym'):
        return real[0] == kind and real[1] == ref[1] and real[2] is not None and real[2][1] == loc(ref[2])
    if kind == 'str':
        if real[0] != 'metacons' or real[2][1] != loc(ref[2]) or real[2][0] != ref[1]:
            return False
        items = to_list(real[1])
        return items is not None and len(items) == len(ref[1]) + 1 and items[0][:2] == ('sym', 'list') and all(x[0] == 'chr' and x[1] == c for x, c in zip(items[1:], ref[1]))
    if kind == 'quote':
        items = to_list(real)
        return items is not None and len(items) == 2 and items[0][:2] == ('sym', 'quote') and same_datum(ref[1], items[1], src)
    if kind == 'list':
        items = to_list(real)
        return items is not None and len(items) == len(ref[1]) and all(same_datum(a, b, src) for a, b in zip(ref[1], items))
    return False


def to_list(v):
    out = []
    while v[0] == 'cons':
        out.append(v[1])
        v = v[2]
    return out if v[0] == 'nil' else None
