"""Shrinking of failing programs (program text of the generated language): greedy subtree replacement.

shrink(text, still_fails, rounds) -> smaller text.  `still_fails(list of candidate texts) -> list of bool` runs a whole
batch of candidates at once (one driver session each), so a round costs one batch.
Candidates of a round: for every list node, replace it by each of its children and by the atom 0; drop one element of a
list with more than two elements; drop one top-level form.  The first candidate (smallest first) that still fails is taken."""
import re

TOKEN = re.compile(r'''\s*(;[^\n]*|"(?:[^"\\]|\\.)*"|%\\?.|[()']|[^\s()'"]+)''', re.S)


def parse(text):
    toks = [t for t in TOKEN.findall(text) if not t.startswith(';')]
    pos = 0
    def form():
        nonlocal pos
        t = toks[pos]
        pos += 1
        if t == '(':
            items = []
            while pos < len(toks) and toks[pos] != ')':
                items.append(form())
            pos += 1
            return items
        if t == "'":
            return ["'", form()] if pos < len(toks) else "'"
        return t
    forms = []
    while pos < len(toks):
        if toks[pos] == ')':
            pos += 1
            continue
        forms.append(form())
    return forms


def show(x):
    if isinstance(x, list):
        if len(x) == 2 and x[0] == "'":
            return "'" + show(x[1])
        return '(' + ' '.join(show(y) for y in x) + ')'
    return x


def size(x):
    return 1 + sum(size(y) for y in x) if isinstance(x, list) else 1


def paths(x, prefix=()):
    if isinstance(x, list):
        yield prefix
        for i, y in enumerate(x):
            yield from paths(y, prefix + (i,))


def get(x, path):
    for i in path:
        x = x[i]
    return x


def put(x, path, new):
    if not path:
        return new
    y = list(x)
    y[path[0]] = put(x[path[0]], path[1:], new)
    return y


def candidates(forms):
    out = []
    if len(forms) > 1:
        for i in range(len(forms)):
            out.append(forms[:i] + forms[i + 1:])
    for p in paths(forms):
        if not p:
            continue
        node = get(forms, p)
        if not isinstance(node, list):
            continue
        for child in node:
            if child != "'" and child != node:
                out.append(put(forms, p, child))
        out.append(put(forms, p, '0'))
        if len(node) > 2:
            for i in range(1, len(node)):
                out.append(put(forms, p, node[:i] + node[i + 1:]))
    seen, uniq = set(), []
    for c in sorted(out, key=size):
        t = '\n'.join(show(f) for f in c)
        if t not in seen:
            seen.add(t)
            uniq.append((t, c))
    return uniq


def shrink(text, still_fails, rounds=12, batch=60):
    try:
        forms = parse(text)
    except Exception:
        return text
    best = '\n'.join(show(f) for f in forms)
    if not still_fails([best])[0]:
        return text            # the re-printed program does not fail: leave the original alone
    for _ in range(rounds):
        cands = candidates(forms)[:batch]
        if not cands:
            break
        verdicts = still_fails([t for t, _ in cands])
        hit = next((c for (t, c), v in zip(cands, verdicts) if v), None)
        if hit is None:
            break
        forms = hit
        best = '\n'.join(show(f) for f in forms)
    return best
